/-
  Bridge between the translated Go code (Gen/Translated.lean, regenerated from /repo by
  tools/go2lean on every run) and the hand-written model (Model/Sparse.lean, Model/Basic.lean):
  the representation maps and generic lemmas about the GoSem combinators.
  Core-only.
-/
import EtVerif.Gen.Translated
import EtVerif.Model.Basic

namespace EtVerif.Tr
open EtVerif EtVerif.GoSem EtVerif.Gen Scalar

variable {α : Type} [Scalar α]

/-- model entry ↦ Go `Entry` (the model's `Nat` index as a Go `int`). -/
def toG (e : Entry α) : GEntry α := ⟨(e.idx : Int), e.val⟩
def toGs (es : List (Entry α)) : List (GEntry α) := es.map toG
def toGV (v : Vec α) : GVector α := ⟨(v.dim : Int), toGs v.entries⟩
def toGK (k : KBN α) : GKBNSummer α := ⟨k.sum, k.comp⟩

/-- model matrix ↦ Go `CSMatrix` (the part of the backing array beyond `len`, `hidden`, and the
    `mapped` field are not part of the translated struct). -/
def toGM (m : CSM α) : GCSMatrix α := ⟨(m.major : Int), (m.minor : Int), m.rows.map toGs⟩

@[simp] theorem toGM_MajorDim (m : CSM α) : (toGM m).MajorDim = (m.major : Int) := rfl
@[simp] theorem toGM_MinorDim (m : CSM α) : (toGM m).MinorDim = (m.minor : Int) := rfl
@[simp] theorem toGM_Entries (m : CSM α) : (toGM m).Entries = m.rows.map toGs := rfl

/-- model coordinate entry ↦ Go `CooEntry`. -/
def toGCoo (e : Coo α) : GCooEntry α := ⟨(e.row : Int), (e.col : Int), e.val⟩

/-- the conversions used by the externs of the generated file are the bridge's. -/
@[simp] theorem entryToG_eq (e : Entry α) : entryToG e = toG e := rfl
@[simp] theorem entryOfG_toG (e : Entry α) : entryOfG (toG e) = e := by
  simp [entryOfG, toG]
@[simp] theorem map_entryOfG_toGs (es : List (Entry α)) : (toGs es).map entryOfG = es := by
  simp [toGs, Function.comp_def]
theorem map_entryToG (es : List (Entry α)) : es.map entryToG = toGs es := rfl

/-- model flat-tail statistics ↦ Go `FlatTailStats` (the Go field `DeltaNorm` carries the model's squared
    delta: see the externs header of the generated file; a nil ranking is the empty list). -/
def toGStats (s : FlatTailStats α) : GFlatTailStats α :=
  { DeltaNorm := s.deltaSq, Length := (s.length : Int),
    Ranking := (s.ranking.getD []).map (fun (i : Nat) => (i : Int)), Threshold := (s.threshold : Int) }

@[simp] theorem toG_Index (e : Entry α) : (toG e).Index = (e.idx : Int) := rfl
@[simp] theorem toG_Value (e : Entry α) : (toG e).Value = e.val := rfl
@[simp] theorem toGs_nil : toGs ([] : List (Entry α)) = [] := rfl
@[simp] theorem toGs_cons (e : Entry α) (es) : toGs (e :: es) = toG e :: toGs es := rfl
@[simp] theorem toGs_append (a b : List (Entry α)) : toGs (a ++ b) = toGs a ++ toGs b := by
  simp [toGs]
@[simp] theorem toGs_length (es : List (Entry α)) : (toGs es).length = es.length := by simp [toGs]
@[simp] theorem toGV_Dim (v : Vec α) : (toGV v).Dim = (v.dim : Int) := rfl
@[simp] theorem toGV_Entries (v : Vec α) : (toGV v).Entries = toGs v.entries := rfl
@[simp] theorem toGK_zero : (GKBNSummer.zero : GKBNSummer α) = toGK KBN.init := rfl

/-! ### generic lemmas about the combinators -/

/-- a `range` loop whose body always completes normally is a left fold. -/
theorem range_fold {σ ρ β : Type} (l : Nat) (bind : Int → β → σ → σ) (body : Stm σ ρ)
    (g : σ → β → σ) (P : σ → Prop)
    (hb : ∀ i x s, P s → body (bind i x s) = .ok (g s x, .next) ∧ P (g s x)) :
    ∀ (xs : List β) (i : Int) (s : σ), P s →
      Stm.range l bind body i xs s = .ok (xs.foldl g s, .next) ∧ P (xs.foldl g s) := by
  intro xs
  induction xs with
  | nil => intro i s hs; exact ⟨rfl, hs⟩
  | cons x xs ih =>
    intro i s hs
    obtain ⟨h1, h2⟩ := hb i x s hs
    simp only [Stm.range, h1, Stm.afterBody, List.foldl_cons]
    exact ih (i + 1) (g s x) h2

/-- one iteration of a `range` loop whose body completes normally. -/
theorem range_cons_next {σ ρ β : Type} {l : Nat} {bind : Int → β → σ → σ} {body : Stm σ ρ}
    {i : Int} {x : β} {xs : List β} {s s1 : σ} (h : body (bind i x s) = .ok (s1, .next)) :
    Stm.range l bind body i (x :: xs) s = Stm.range l bind body (i + 1) xs s1 := by
  simp only [Stm.range, h, Stm.afterBody]

/-- one iteration of a `range` loop whose body ends with `continue` of this loop. -/
theorem range_cons_cont {σ ρ β : Type} {l : Nat} {bind : Int → β → σ → σ} {body : Stm σ ρ}
    {i : Int} {x : β} {xs : List β} {s s1 : σ} (h : body (bind i x s) = .ok (s1, .cont l)) :
    Stm.range l bind body i (x :: xs) s = Stm.range l bind body (i + 1) xs s1 := by
  simp only [Stm.range, h, Stm.afterBody, if_true]

/-- a `range` iteration that breaks out of this loop. -/
theorem range_cons_brk {σ ρ β : Type} {l : Nat} {bind : Int → β → σ → σ} {body : Stm σ ρ}
    {i : Int} {x : β} {xs : List β} {s s1 : σ} (h : body (bind i x s) = .ok (s1, .brk l)) :
    Stm.range l bind body i (x :: xs) s = .ok (s1, .next) := by
  simp only [Stm.range, h, Stm.afterBody, if_true]

@[simp] theorem range_nil {σ ρ β : Type} {l : Nat} {bind : Int → β → σ → σ} {body : Stm σ ρ}
    {i : Int} {s : σ} : Stm.range l bind body i ([] : List β) s = .ok (s, .next) := rfl

/-- the loop condition is false: the loop is over. -/
theorem loop_exit {σ ρ : Type} {l : Nat} {cond : σ → R Bool} {body post : Stm σ ρ} {n : Nat} {s : σ}
    (hc : cond s = .ok false) : Stm.loop l cond body post n s = .ok (s, .next) := by
  cases n <;> simp only [Stm.loop, hc]

/-- one full iteration (condition true, body and post complete normally) consumes one unit of fuel. -/
theorem loop_step {σ ρ : Type} {l : Nat} {cond : σ → R Bool} {body post : Stm σ ρ} {n : Nat}
    {s s1 s2 : σ} (hc : cond s = .ok true) (hb : body s = .ok (s1, .next))
    (hp : post s1 = .ok (s2, .next)) :
    Stm.loop l cond body post (n + 1) s = Stm.loop l cond body post n s2 := by
  simp only [Stm.loop, hc, hb, Stm.afterBody, hp]

/-- an iteration whose body ends with `continue` of this loop. -/
theorem loop_step_cont {σ ρ : Type} {l : Nat} {cond : σ → R Bool} {body post : Stm σ ρ} {n : Nat}
    {s s1 s2 : σ} (hc : cond s = .ok true) (hb : body s = .ok (s1, .cont l))
    (hp : post s1 = .ok (s2, .next)) :
    Stm.loop l cond body post (n + 1) s = Stm.loop l cond body post n s2 := by
  simp only [Stm.loop, hc, hb, Stm.afterBody, if_true, hp]

/-- an iteration whose body breaks out of this loop. -/
theorem loop_brk {σ ρ : Type} {l : Nat} {cond : σ → R Bool} {body post : Stm σ ρ} {n : Nat}
    {s s1 : σ} (hc : cond s = .ok true) (hb : body s = .ok (s1, .brk l)) :
    Stm.loop l cond body post (n + 1) s = .ok (s1, .next) := by
  simp only [Stm.loop, hc, hb, Stm.afterBody, if_true]

/-- an iteration whose body leaves the loop with another control (`return`, outer `break`). -/
theorem loop_leave {σ ρ : Type} {l : Nat} {cond : σ → R Bool} {body post : Stm σ ρ} {n : Nat}
    {s s1 : σ} {c c' : Ctl ρ} (hc : cond s = .ok true) (hb : body s = .ok (s1, c))
    (ha : Stm.afterBody l c = some c') :
    Stm.loop l cond body post (n + 1) s = .ok (s1, c') := by
  simp only [Stm.loop, hc, hb, ha]

/-! ### slices -/

@[simp] theorem goLen_eq {β : Type} (l : List β) : goLen l = (l.length : Int) := rfl

theorem goIdx_ofNat {β : Type} (l : List β) (i : Nat) (h : i < l.length) :
    goIdx l (i : Int) = .ok l[i] := by
  simp [goIdx, h]

@[simp] theorem goIdx_zero_cons {β : Type} (x : β) (l : List β) : goIdx (x :: l) 0 = .ok x := by
  simp [goIdx]

@[simp] theorem goSlice_tail {β : Type} (x : β) (l : List β) :
    goSlice (x :: l) 1 ((x :: l).length : Int) = .ok l := by
  simp [goSlice]
  omega

@[simp] theorem goSlice_zero_zero {β : Type} (l : List β) : goSlice l 0 0 = .ok [] := by
  simp [goSlice]

theorem goSet_ofNat {β : Type} (l : List β) (i : Nat) (x : β) (h : i < l.length) :
    goSet l (i : Int) x = .ok (l.set i x) := by
  simp [goSet, h]

@[simp] theorem goMake_zero {β : Type} (z : β) : goMake z 0 = .ok [] := by
  simp [goMake]

end EtVerif.Tr
