/-
  KBN summation, element sum, squared norm, dot product and matrix-vector product of the
  sparse model over an ordered field, related to dense finite sums.
-/
import EtVerif.Proofs.Vec
import Mathlib.Algebra.BigOperators.Group.Finset.Basic
import Mathlib.Algebra.BigOperators.Group.Finset.Piecewise
import Mathlib.Algebra.BigOperators.Ring.Finset

namespace EtVerif
open Scalar

variable {K : Type} [Field K] [LinearOrder K]

/-! ### KBN summation is exact in a field -/

theorem KBN.push_sum (s : KBN K) (v : K) : (s.push v).sum = s.sum + v := rfl

/-- the compensation term does not move in exact arithmetic -/
theorem KBN.push_comp (s : KBN K) (v : K) : (s.push v).comp = s.comp := by
  simp only [KBN.push, s_lt, s_abs, s_add, s_sub]
  split <;> ring

theorem KBN.foldl_push (xs : List K) (s : KBN K) :
    (xs.foldl KBN.push s).sum = s.sum + xs.sum ∧ (xs.foldl KBN.push s).comp = s.comp := by
  induction xs generalizing s with
  | nil => simp
  | cons x xs ih =>
    rw [List.foldl_cons, List.sum_cons]
    obtain ⟨h1, h2⟩ := ih (s.push x)
    rw [h1, h2, KBN.push_sum, KBN.push_comp]
    exact ⟨by ring, rfl⟩

theorem kbnSum_eq_sum (xs : List K) : kbnSum xs = xs.sum := by
  unfold kbnSum KBN.result
  obtain ⟨h1, h2⟩ := KBN.foldl_push xs (KBN.init : KBN K)
  rw [h1, h2]
  simp [KBN.init]

/-! ### weighted dense sums -/

/-- `∑ᵢ den(es)ᵢ · gᵢ` is the sum over the stored entries (no sortedness needed: `denE`
    adds up duplicates). -/
theorem sum_denE_mul {dim : Nat} {es : List (Entry K)} (h : ∀ e ∈ es, e.idx < dim)
    (g : Nat → K) :
    ∑ i ∈ Finset.range dim, denE es i * g i = (es.map fun e => e.val * g e.idx).sum := by
  induction es with
  | nil => simp
  | cons e es ih =>
    have he : e.idx < dim := h e (by simp)
    have hstep : ∀ i, denE (e :: es) i * g i
        = (if e.idx = i then e.val * g i else 0) + denE es i * g i := by
      intro i
      rw [denE_cons]
      split
      · ring
      · ring
    simp only [hstep, Finset.sum_add_distrib, Finset.sum_ite_eq, Finset.mem_range, he, if_true,
      List.map_cons, List.sum_cons]
    rw [ih (fun x hx => h x (by simp [hx]))]

theorem sum_denE {dim : Nat} {es : List (Entry K)} (h : ∀ e ∈ es, e.idx < dim) :
    ∑ i ∈ Finset.range dim, denE es i = (es.map (·.val)).sum := by
  have := sum_denE_mul h (fun _ => (1 : K))
  simpa using this

theorem sum_denE_sq {dim : Nat} {es : List (Entry K)} (h : WF dim es) :
    ∑ i ∈ Finset.range dim, (denE es i) ^ 2 = (es.map fun e => e.val * e.val).sum := by
  have h1 : ∑ i ∈ Finset.range dim, (denE es i) ^ 2
      = ∑ i ∈ Finset.range dim, denE es i * denE es i :=
    Finset.sum_congr rfl (fun i _ => by ring)
  rw [h1, sum_denE_mul h.2 (denE es)]
  congr 1
  apply List.map_congr_left
  intro e he
  rw [denE_of_mem h.1 he]

/-! ### VecDot -/

theorem denE_cons_of_lt {b : Entry K} {es : List (Entry K)} {i : Nat} (h : b.idx < i) :
    denE (b :: es) i = denE es i := by
  have : b.idx ≠ i := by omega
  simp [this]

/-- the terms `VecDot` feeds to the summer add up to `∑_{a ∈ e1} a.val · den(e2)_{a.idx}` -/
theorem sum_dotTerms {e1 e2 : List (Entry K)} (h1 : Sorted e1) (h2 : Sorted e2) :
    (dotTerms e1 e2).sum = (e1.map fun a => a.val * denE e2 a.idx).sum := by
  fun_induction dotTerms e1 e2 with
  | case1 e2 => simp
  | case2 e1 _ =>
    have : (e1.map fun a => a.val * denE ([] : List (Entry K)) a.idx) = e1.map fun _ => (0 : K) := by
      apply List.map_congr_left; intro a _; simp
    rw [this]; simp
  | case3 a e1 b e2 hlt ih =>
    rw [ih h1 h2.tail]
    congr 1
    apply List.map_congr_left
    intro x hx
    have hx' : b.idx < x.idx := by
      rcases List.mem_cons.mp hx with rfl | hx
      · exact hlt
      · have := h1.head_lt x hx; omega
    rw [denE_cons_of_lt hx']
  | case4 a e1 b e2 hlt heq ih =>
    rw [List.sum_cons, ih h1 h2.tail, List.map_cons, List.sum_cons, List.map_cons, List.sum_cons]
    have hz : denE e2 a.idx = 0 := denE_tail_of_le_head h2 (by omega)
    have ha : denE (b :: e2) a.idx = b.val := by simp [heq, hz]
    have hrest : (e1.map fun x => x.val * denE (b :: e2) x.idx)
        = e1.map fun x => x.val * denE e2 x.idx := by
      apply List.map_congr_left
      intro x hx
      have := h1.head_lt x hx
      rw [denE_cons_of_lt (by omega)]
    rw [ha, hz, hrest, s_mul]; ring
  | case5 a e1 b e2 hlt hne ih =>
    rw [ih h1.tail h2, List.map_cons, List.sum_cons]
    have : denE (b :: e2) a.idx = 0 := denE_of_lt_head h2 (by omega)
    rw [this]; ring

theorem vecDot_eq_list_sum {e1 e2 : List (Entry K)} (h1 : Sorted e1) (h2 : Sorted e2) :
    vecDot e1 e2 = (e1.map fun a => a.val * denE e2 a.idx).sum := by
  unfold vecDot
  rw [kbnSum_eq_sum, sum_dotTerms h1 h2]

theorem vecDot_eq_finset_sum {dim : Nat} {e1 e2 : List (Entry K)} (h1 : WF dim e1)
    (h2 : Sorted e2) :
    vecDot e1 e2 = ∑ i ∈ Finset.range dim, denE e1 i * denE e2 i := by
  rw [vecDot_eq_list_sum h1.1 h2, sum_denE_mul h1.2 (denE e2)]

theorem vecDot_nil_left (v : List (Entry K)) : vecDot ([] : List (Entry K)) v = 0 := by
  unfold vecDot
  rw [kbnSum_eq_sum]
  simp [dotTerms]

/-! ### MulVec -/

/-- the per-row step of `mulVecEntries` -/
def mulVecStep (v : List (Entry K)) : Row K × Nat → Option (Entry K) := fun (r, i) =>
  let p := vecDot r v
  if Scalar.isZero p then none else some ⟨i, p⟩

theorem mulVecEntries_eq (rows : List (Row K)) (v : List (Entry K)) :
    mulVecEntries rows v = (rows.zipIdx 0).filterMap (mulVecStep v) := rfl

theorem mulVecStep_eq (v : List (Entry K)) (r : Row K) (i : Nat) :
    mulVecStep v (r, i) = if vecDot r v = 0 then none else some ⟨i, vecDot r v⟩ := by
  simp [mulVecStep]

theorem mem_mulVec_aux {rows : List (Row K)} {v : List (Entry K)} {k : Nat} {x : Entry K}
    (hx : x ∈ (rows.zipIdx k).filterMap (mulVecStep v)) :
    k ≤ x.idx ∧ x.idx < k + rows.length ∧ x.val = vecDot (rows.getD (x.idx - k) []) v ∧
      x.val ≠ 0 := by
  induction rows generalizing k with
  | nil => simp at hx
  | cons r rs ih =>
    rw [List.zipIdx_cons, List.filterMap_cons, mulVecStep_eq] at hx
    have hrec : x ∈ (rs.zipIdx (k + 1)).filterMap (mulVecStep v) →
        k ≤ x.idx ∧ x.idx < k + (r :: rs).length ∧
          x.val = vecDot ((r :: rs).getD (x.idx - k) []) v ∧ x.val ≠ 0 := by
      intro hx
      obtain ⟨h1, h2, h3, h4⟩ := ih hx
      refine ⟨by omega, by simp only [List.length_cons]; omega, ?_, h4⟩
      have : x.idx - k = (x.idx - (k + 1)) + 1 := by omega
      rw [this, List.getD_cons_succ]; exact h3
    by_cases hz : vecDot r v = 0
    · simp only [hz, if_true] at hx
      exact hrec hx
    · simp only [hz, if_false] at hx
      rcases List.mem_cons.mp hx with rfl | hx
      · refine ⟨Nat.le_refl _, by simp, ?_, hz⟩
        simp
      · exact hrec hx

theorem sorted_mulVec_aux (rows : List (Row K)) (v : List (Entry K)) (k : Nat) :
    Sorted ((rows.zipIdx k).filterMap (mulVecStep v)) := by
  induction rows generalizing k with
  | nil => simpa using Sorted.nil
  | cons r rs ih =>
    rw [List.zipIdx_cons, List.filterMap_cons, mulVecStep_eq]
    by_cases hz : vecDot r v = 0
    · simp only [hz, if_true]; exact ih (k + 1)
    · simp only [hz, if_false]
      refine Sorted.cons ?_ (ih (k + 1))
      intro x hx
      have := (mem_mulVec_aux hx).1
      simp only; omega

theorem den_mulVec_aux (rows : List (Row K)) (v : List (Entry K)) (k i : Nat) :
    denE ((rows.zipIdx k).filterMap (mulVecStep v)) i
      = if k ≤ i then vecDot (rows.getD (i - k) []) v else 0 := by
  induction rows generalizing k with
  | nil =>
    simp [vecDot_nil_left]
  | cons r rs ih =>
    rw [List.zipIdx_cons, List.filterMap_cons, mulVecStep_eq]
    have hrest := ih (k + 1)
    by_cases hki : k = i
    · subst hki
      have h0 : denE ((rs.zipIdx (k + 1)).filterMap (mulVecStep v)) k = 0 := by
        rw [hrest]; simp
      by_cases hz : vecDot r v = 0
      · simp [hz, h0]
      · simp [hz, h0]
    · have hstep : denE ((rs.zipIdx (k + 1)).filterMap (mulVecStep v)) i
          = if k ≤ i then vecDot ((r :: rs).getD (i - k) []) v else 0 := by
        rw [hrest]
        by_cases hle : k + 1 ≤ i
        · have h1 : k ≤ i := by omega
          have h2 : i - k = (i - (k + 1)) + 1 := by omega
          rw [if_pos hle, if_pos h1, h2, List.getD_cons_succ]
        · have h1 : ¬ k ≤ i := by omega
          rw [if_neg hle, if_neg h1]
      by_cases hz : vecDot r v = 0
      · simp only [hz, if_true]; exact hstep
      · simp only [hz, if_false, denE_cons, hki]; exact hstep

theorem den_mulVecEntries (rows : List (Row K)) (v : List (Entry K)) (i : Nat) :
    denE (mulVecEntries rows v) i = vecDot (rows.getD i []) v := by
  rw [mulVecEntries_eq, den_mulVec_aux]; simp

theorem sorted_mulVecEntries (rows : List (Row K)) (v : List (Entry K)) :
    Sorted (mulVecEntries rows v) := sorted_mulVec_aux rows v 0

theorem mem_mulVecEntries {rows : List (Row K)} {v : List (Entry K)} {x : Entry K}
    (hx : x ∈ mulVecEntries rows v) :
    x.idx < rows.length ∧ x.val = vecDot (rows.getD x.idx []) v ∧ x.val ≠ 0 := by
  rw [mulVecEntries_eq] at hx
  obtain ⟨_, h2, h3, h4⟩ := mem_mulVec_aux hx
  exact ⟨by omega, by simpa using h3, h4⟩

/-- exactly the non-zero row products are stored -/
theorem mem_mulVecEntries_iff {rows : List (Row K)} {v : List (Entry K)} {x : Entry K} :
    x ∈ mulVecEntries rows v ↔
      x.idx < rows.length ∧ x.val = vecDot (rows.getD x.idx []) v ∧ x.val ≠ 0 := by
  refine ⟨mem_mulVecEntries, fun ⟨_, h2, h3⟩ => ?_⟩
  have hden : denE (mulVecEntries rows v) x.idx ≠ 0 := by
    rw [den_mulVecEntries, ← h2]; exact h3
  obtain ⟨e, he, hei⟩ := exists_mem_of_denE_ne_zero hden
  have hval : e.val = x.val := by
    rw [(mem_mulVecEntries he).2.1, hei, ← h2]
  have : e = x := by
    cases e; cases x; simp only at hei hval; rw [hei, hval]
  exact this ▸ he

theorem wf_mulVecEntries (rows : List (Row K)) (v : List (Entry K)) :
    WF rows.length (mulVecEntries rows v) :=
  ⟨sorted_mulVecEntries rows v, fun _ hx => (mem_mulVecEntries hx).1⟩

/-- inversion of a successful `mulVec`, for any scalar type -/
theorem mulVec_ok_inv {α : Type} [Scalar α] {m : CSM α} {v r : Vec α} (h : mulVec m v = .ok r) :
    m.major = m.minor ∧ m.major = v.dim ∧ r = ⟨m.major, mulVecEntries m.rows v.entries⟩ := by
  unfold mulVec CSM.dim at h
  by_cases hsq : m.major = m.minor
  · by_cases hd : m.major = v.dim
    · have hd' : m.minor = v.dim := hsq ▸ hd
      simp [hsq, hd'] at h
      exact ⟨hsq, hd, by rw [← h, ← hd', hsq]⟩
    · have hd' : ¬ m.minor = v.dim := fun hc => hd (hsq.trans hc)
      simp [hsq, hd'] at h
  · simp [hsq] at h

omit [Field K] [LinearOrder K] in
theorem wf_getD {dim : Nat} {rows : List (Row K)} (h : ∀ r ∈ rows, WF dim r) (i : Nat) :
    WF dim (rows.getD i []) := by
  by_cases hi : i < rows.length
  · have : rows.getD i [] = rows[i] := by simp [List.getD_eq_getElem?_getD, hi]
    rw [this]; exact h _ (List.getElem_mem hi)
  · have : rows.getD i [] = [] := by
      simp [List.getD_eq_getElem?_getD, List.getElem?_eq_none (Nat.le_of_not_lt hi)]
    rw [this]; exact WF.nil dim

end EtVerif
