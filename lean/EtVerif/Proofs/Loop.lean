/-
  Control structure of `computeLoop` / `compute` (Model/Basic.lean; eigentrust.go 179-314),
  for an arbitrary `Scalar` instance: the verdicts are whatever `sqrtLe` / `nonFinite` return.

  * `computeLoop_succ`     — one unfolding of the loop in terms of `checkedState`/`advance`;
  * `computeLoop_char`     — the loop runs `advance` until the first state that hits `maxI`,
                             a non-finite delta, or the exit criteria (or the fuel runs out);
  * `stateAt`              — the state after `k` iterations without exit, with closed forms for
                             every component (`iterate`, `sched`, `lastChk`, `dsqAt`, `statsBefore`);
  * `loop_spec`, `loop_first`, `computeLoop_fuel_mono`, `loop_withIterations`;
  * `compute` validation lemmas.
-/
import EtVerif.Proofs.FlatTail
import Mathlib.Logic.Function.Iterate

namespace EtVerif
open Scalar

variable {α : Type} [Scalar α]

/-- the initial loop state of `compute` (eigentrust.go 253-257) -/
def initState (t0 : List (Entry α)) : LoopState α :=
  { t1 := t0, iter := 0, conv := ⟨t0, zero⟩, stats := FlatTailStats.init, checks := [] }

/-- the pure `k`-th power iterate -/
def iterate (ct : List (Row α)) (ap : List (Entry α)) (q : α) (k : Nat) (t0 : List (Entry α)) :
    List (Entry α) := (stepEntries ct ap q)^[k] t0

/-- the loop guard `iter < maxIters` fails (`none` = unlimited) -/
def maxHit (maxI : Option Nat) (k : Nat) : Bool :=
  match maxI with
  | some m => decide (k ≥ m)
  | none => false

/-- squared norm of the difference of two entry lists (`ConvergenceChecker.Update`) -/
def deltaSq (t t' : List (Entry α)) : α := kbnSum ((subEntries t t').map fun e => mul e.val e.val)

/-! ### the check schedule -/

/-- the scheduled checks `< k`, newest first -/
def sched (minI freq k : Nat) : List Nat := ((List.range k).filter (isCheck minI freq)).reverse

/-- the last scheduled check before iteration `k` (0 if there is none: the checker starts
    with the initial vector) -/
def lastChk (minI freq k : Nat) : Nat := (sched minI freq k).headD 0

omit [Scalar α] in
theorem sched_zero (minI freq : Nat) : sched minI freq 0 = [] := rfl

theorem sched_succ (minI freq k : Nat) :
    sched minI freq (k + 1) =
      if isCheck minI freq k then k :: sched minI freq k else sched minI freq k := by
  unfold sched
  rw [List.range_succ, List.filter_append, List.reverse_append]
  by_cases h : isCheck minI freq k <;> simp [h]

theorem mem_sched {minI freq k j : Nat} :
    j ∈ sched minI freq k ↔ j < k ∧ isCheck minI freq j = true := by
  simp [sched]

theorem isCheck_iff_mod {minI freq k : Nat} :
    isCheck minI freq k = true ↔ minI ≤ k ∧ (k - minI) % freq = 0 := by
  simp [isCheck]

/-- the checks are exactly `minI, minI + freq, minI + 2·freq, …` -/
theorem isCheck_iff {minI freq k : Nat} :
    isCheck minI freq k = true ↔ ∃ i, k = minI + i * freq := by
  rw [isCheck_iff_mod]
  constructor
  · rintro ⟨h1, h2⟩
    obtain ⟨i, hi⟩ := Nat.dvd_of_mod_eq_zero h2
    exact ⟨i, by rw [Nat.mul_comm] at hi; omega⟩
  · rintro ⟨i, rfl⟩
    refine ⟨by omega, ?_⟩
    have : minI + i * freq - minI = i * freq := by omega
    rw [this]; exact Nat.mul_mod_left i freq

theorem lastChk_zero (minI freq : Nat) : lastChk minI freq 0 = 0 := rfl

theorem lastChk_succ (minI freq k : Nat) :
    lastChk minI freq (k + 1) = if isCheck minI freq k then k else lastChk minI freq k := by
  unfold lastChk
  rw [sched_succ]
  by_cases h : isCheck minI freq k <;> simp [h]

theorem lastChk_eq_of_no_check {minI freq c : Nat} :
    ∀ k, c ≤ k → (∀ j, c ≤ j → j < k → isCheck minI freq j = false) →
      lastChk minI freq k = lastChk minI freq c := by
  intro k
  induction k with
  | zero => intro h _; have : c = 0 := by omega
            subst this; rfl
  | succ k ih =>
    intro h hn
    rcases Nat.lt_or_ge k c with hk | hk
    · have : c = k + 1 := by omega
      subst this; rfl
    · rw [lastChk_succ, hn k hk (by omega)]
      simp only [Bool.false_eq_true, if_false]
      exact ih hk (fun j h1 h2 => hn j h1 (by omega))

/-- at a scheduled check, the previous check was `freq` iterations earlier, except for the
    first check (`k = minI`), which compares with the initial vector. -/
theorem lastChk_of_isCheck {minI freq k : Nat} (hf : 1 ≤ freq) (hk : isCheck minI freq k = true) :
    lastChk minI freq k = if k ≤ minI then 0 else k - freq := by
  obtain ⟨i, rfl⟩ := isCheck_iff.mp hk
  cases i with
  | zero =>
    simp only [Nat.zero_mul, Nat.add_zero, Nat.le_refl, if_true]
    rw [lastChk_eq_of_no_check (c := 0) minI (Nat.zero_le _)]
    · rfl
    · intro j _ hj
      cases hc : isCheck minI freq j with
      | false => rfl
      | true => have := (isCheck_iff_mod.mp hc).1; omega
  | succ i =>
    have hmul : (i + 1) * freq = i * freq + freq := Nat.succ_mul i freq
    have hgt : ¬ (minI + (i + 1) * freq ≤ minI) := by rw [hmul]; omega
    simp only [hgt, if_false]
    have hprev : minI + (i + 1) * freq - freq = minI + i * freq := by rw [hmul]; omega
    rw [hprev]
    rw [lastChk_eq_of_no_check (c := minI + i * freq + 1) (minI + (i + 1) * freq)
      (by rw [hmul]; omega)]
    · rw [lastChk_succ, isCheck_iff.mpr ⟨i, rfl⟩]; simp
    · intro j h1 h2
      cases hc : isCheck minI freq j with
      | false => rfl
      | true =>
        exfalso
        obtain ⟨i', hi'⟩ := isCheck_iff.mp hc
        subst hi'
        rw [hmul] at h2
        have hlo : i * freq < i' * freq := by omega
        have hhi : i' * freq < (i + 1) * freq := by rw [hmul]; omega
        have h3 : i < i' := Nat.lt_of_mul_lt_mul_right hlo
        have h4 : i' < i + 1 := Nat.lt_of_mul_lt_mul_right hhi
        omega

/-! ### one unfolding of the loop -/

section loop
variable (ct : List (Row α)) (ap : List (Entry α)) (q e : α) (minI freq : Nat)
  (maxI : Option Nat) (flatTail nl : Nat)

/-- the bookkeeping the loop performs at the top of an iteration (eigentrust.go 266-271):
    at a scheduled check, update the two checkers and record the check. -/
def checkedState (s : LoopState α) : LoopState α :=
  if isCheck minI freq s.iter then
    { s with
      conv := s.conv.update s.t1
      stats := s.stats.update (rankOf s.t1 nl) (s.conv.update s.t1).dsq
      checks := s.iter :: s.checks }
  else s

/-- a full loop iteration without exit: bookkeeping, then one power-iteration step -/
def advance (s : LoopState α) : LoopState α :=
  { checkedState minI freq nl s with t1 := stepEntries ct ap q s.t1, iter := s.iter + 1 }

/-- the loop exits with `nonFinite` from state `s` -/
def stopNF (s : LoopState α) : Bool :=
  isCheck minI freq s.iter && nonFinite (checkedState minI freq nl s).conv.dsq

/-- the loop exits with `criteria` from state `s` (if not `stopNF`) -/
def stopOK (s : LoopState α) : Bool :=
  isCheck minI freq s.iter && sqrtLe (checkedState minI freq nl s).conv.dsq e
    && decide ((checkedState minI freq nl s).stats.length ≥ flatTail)

theorem computeLoop_zero (s : LoopState α) :
    computeLoop ct ap q e minI freq maxI flatTail nl 0 s = (s, .outOfFuel) := rfl

theorem computeLoop_succ (fuel : Nat) (s : LoopState α) :
    computeLoop ct ap q e minI freq maxI flatTail nl (fuel + 1) s =
      if maxHit maxI s.iter then (s, .maxIterations)
      else if stopNF minI freq nl s then (checkedState minI freq nl s, .nonFinite)
      else if stopOK e minI freq flatTail nl s then (checkedState minI freq nl s, .criteria)
      else computeLoop ct ap q e minI freq maxI flatTail nl fuel
        (advance ct ap q minI freq nl s) := by
  conv => lhs; unfold computeLoop
  cases hc : isCheck minI freq s.iter <;> cases maxI <;>
    simp [maxHit, stopNF, stopOK, checkedState, advance, hc]

@[simp] theorem checkedState_iter (s : LoopState α) :
    (checkedState minI freq nl s).iter = s.iter := by
  unfold checkedState; split <;> rfl

@[simp] theorem checkedState_t1 (s : LoopState α) :
    (checkedState minI freq nl s).t1 = s.t1 := by
  unfold checkedState; split <;> rfl

@[simp] theorem advance_iter (s : LoopState α) :
    (advance ct ap q minI freq nl s).iter = s.iter + 1 := rfl

@[simp] theorem advance_t1 (s : LoopState α) :
    (advance ct ap q minI freq nl s).t1 = stepEntries ct ap q s.t1 := rfl

@[simp] theorem advance_conv (s : LoopState α) :
    (advance ct ap q minI freq nl s).conv = (checkedState minI freq nl s).conv := rfl

@[simp] theorem advance_stats (s : LoopState α) :
    (advance ct ap q minI freq nl s).stats = (checkedState minI freq nl s).stats := rfl

@[simp] theorem advance_checks (s : LoopState α) :
    (advance ct ap q minI freq nl s).checks = (checkedState minI freq nl s).checks := rfl

theorem advance_pow_iter (k : Nat) (s : LoopState α) :
    ((advance ct ap q minI freq nl)^[k] s).iter = s.iter + k := by
  induction k with
  | zero => rfl
  | succ k ih => rw [Function.iterate_succ_apply', advance_iter, ih]; omega

theorem advance_pow_t1 (k : Nat) (s : LoopState α) :
    ((advance ct ap q minI freq nl)^[k] s).t1 = (stepEntries ct ap q)^[k] s.t1 := by
  induction k with
  | zero => rfl
  | succ k ih => rw [Function.iterate_succ_apply', advance_t1, ih, Function.iterate_succ_apply']

/-- The loop, started in `s0` with `fuel`, advances `K` times — through states that neither hit
    `maxI` nor exit — and ends in the `K`-th state for the reason given. -/
theorem computeLoop_char (fuel : Nat) :
    ∀ (s0 s : LoopState α) (by_ : EndedBy),
      computeLoop ct ap q e minI freq maxI flatTail nl fuel s0 = (s, by_) →
      ∃ K, K ≤ fuel ∧
        (∀ j < K, maxHit maxI ((advance ct ap q minI freq nl)^[j] s0).iter = false ∧
          stopNF minI freq nl ((advance ct ap q minI freq nl)^[j] s0) = false ∧
          stopOK e minI freq flatTail nl ((advance ct ap q minI freq nl)^[j] s0) = false) ∧
        ((by_ = .outOfFuel ∧ K = fuel ∧ s = (advance ct ap q minI freq nl)^[K] s0) ∨
         (by_ = .maxIterations ∧ K < fuel ∧
            maxHit maxI ((advance ct ap q minI freq nl)^[K] s0).iter = true ∧
            s = (advance ct ap q minI freq nl)^[K] s0) ∨
         (by_ = .nonFinite ∧ K < fuel ∧
            maxHit maxI ((advance ct ap q minI freq nl)^[K] s0).iter = false ∧
            stopNF minI freq nl ((advance ct ap q minI freq nl)^[K] s0) = true ∧
            s = checkedState minI freq nl ((advance ct ap q minI freq nl)^[K] s0)) ∨
         (by_ = .criteria ∧ K < fuel ∧
            maxHit maxI ((advance ct ap q minI freq nl)^[K] s0).iter = false ∧
            stopNF minI freq nl ((advance ct ap q minI freq nl)^[K] s0) = false ∧
            stopOK e minI freq flatTail nl ((advance ct ap q minI freq nl)^[K] s0) = true ∧
            s = checkedState minI freq nl ((advance ct ap q minI freq nl)^[K] s0))) := by
  induction fuel with
  | zero =>
    intro s0 s by_ h
    rw [computeLoop_zero] at h
    obtain ⟨rfl, rfl⟩ := Prod.mk.inj h
    exact ⟨0, le_refl _, fun j hj => absurd hj (Nat.not_lt_zero j), Or.inl ⟨rfl, rfl, rfl⟩⟩
  | succ fuel ih =>
    intro s0 s by_ h
    rw [computeLoop_succ] at h
    by_cases h1 : maxHit maxI s0.iter = true
    · rw [if_pos h1] at h
      obtain ⟨rfl, rfl⟩ := Prod.mk.inj h
      exact ⟨0, Nat.zero_le _, fun j hj => absurd hj (Nat.not_lt_zero j),
        Or.inr (Or.inl ⟨rfl, Nat.succ_pos _, h1, rfl⟩)⟩
    · rw [if_neg h1] at h
      have h1' : maxHit maxI s0.iter = false := by simpa using h1
      by_cases h2 : stopNF minI freq nl s0 = true
      · rw [if_pos h2] at h
        obtain ⟨rfl, rfl⟩ := Prod.mk.inj h
        exact ⟨0, Nat.zero_le _, fun j hj => absurd hj (Nat.not_lt_zero j),
          Or.inr (Or.inr (Or.inl ⟨rfl, Nat.succ_pos _, h1', h2, rfl⟩))⟩
      · rw [if_neg h2] at h
        have h2' : stopNF minI freq nl s0 = false := by simpa using h2
        by_cases h3 : stopOK e minI freq flatTail nl s0 = true
        · rw [if_pos h3] at h
          obtain ⟨rfl, rfl⟩ := Prod.mk.inj h
          exact ⟨0, Nat.zero_le _, fun j hj => absurd hj (Nat.not_lt_zero j),
            Or.inr (Or.inr (Or.inr ⟨rfl, Nat.succ_pos _, h1', h2', h3, rfl⟩))⟩
        · rw [if_neg h3] at h
          have h3' : stopOK e minI freq flatTail nl s0 = false := by simpa using h3
          obtain ⟨K, hK, hbefore, hend⟩ := ih _ s by_ h
          refine ⟨K + 1, Nat.succ_le_succ hK, ?_, ?_⟩
          · intro j hj
            cases j with
            | zero => exact ⟨h1', h2', h3'⟩
            | succ j =>
              rw [Function.iterate_succ_apply]
              exact hbefore j (by omega)
          · rw [Function.iterate_succ_apply]
            rcases hend with ⟨a, b, c⟩ | ⟨a, b, c⟩ | ⟨a, b, c⟩ | ⟨a, b, c⟩
            · exact Or.inl ⟨a, by omega, c⟩
            · exact Or.inr (Or.inl ⟨a, by omega, c⟩)
            · exact Or.inr (Or.inr (Or.inl ⟨a, by omega, c⟩))
            · exact Or.inr (Or.inr (Or.inr ⟨a, by omega, c⟩))

/-- Item 1, for an arbitrary start state: the returned vector is the pure iterate. -/
theorem computeLoop_returns_iterate (fuel : Nat) (s0 s : LoopState α) (by_ : EndedBy)
    (h : computeLoop ct ap q e minI freq maxI flatTail nl fuel s0 = (s, by_)) :
    s0.iter ≤ s.iter ∧ s.iter - s0.iter ≤ fuel ∧
      s.t1 = (stepEntries ct ap q)^[s.iter - s0.iter] s0.t1 := by
  obtain ⟨K, hK, _, hend⟩ := computeLoop_char ct ap q e minI freq maxI flatTail nl fuel s0 s by_ h
  have hs : s.iter = s0.iter + K ∧ s.t1 = (stepEntries ct ap q)^[K] s0.t1 := by
    rcases hend with ⟨_, _, rfl⟩ | ⟨_, _, _, rfl⟩ | ⟨_, _, _, _, rfl⟩ | ⟨_, _, _, _, _, rfl⟩ <;>
      simp [advance_pow_iter, advance_pow_t1]
  have : s.iter - s0.iter = K := by omega
  rw [this]
  exact ⟨by omega, hK, hs.2⟩

/-- Fuel monotonicity: a run that ended for a reason other than the fuel is the same for every
    larger fuel (this is the meaning of "`maxIterations = 0` is unlimited": `maxI = none`). -/
theorem computeLoop_fuel_mono (fuel : Nat) :
    ∀ (s0 s : LoopState α) (by_ : EndedBy),
      computeLoop ct ap q e minI freq maxI flatTail nl fuel s0 = (s, by_) →
      by_ ≠ .outOfFuel → ∀ fuel', fuel ≤ fuel' →
      computeLoop ct ap q e minI freq maxI flatTail nl fuel' s0 = (s, by_) := by
  induction fuel with
  | zero =>
    intro s0 s by_ h hne
    rw [computeLoop_zero] at h
    obtain ⟨_, rfl⟩ := Prod.mk.inj h
    exact absurd rfl hne
  | succ fuel ih =>
    intro s0 s by_ h hne fuel' hle
    obtain ⟨f', rfl⟩ : ∃ f', fuel' = f' + 1 := ⟨fuel' - 1, by omega⟩
    rw [computeLoop_succ] at h ⊢
    split
    · rename_i h1; rw [if_pos h1] at h; exact h
    · rename_i h1; rw [if_neg h1] at h
      split
      · rename_i h2; rw [if_pos h2] at h; exact h
      · rename_i h2; rw [if_neg h2] at h
        split
        · rename_i h3; rw [if_pos h3] at h; exact h
        · rename_i h3; rw [if_neg h3] at h
          exact ih _ s by_ h hne f' (by omega)

/-! ### the state after `k` iterations, in closed form -/

/-- the loop state at the top of iteration `k` when nothing ended the loop before -/
def stateAt (t0 : List (Entry α)) (k : Nat) : LoopState α :=
  (advance ct ap q minI freq nl)^[k] (initState t0)

theorem stateAt_zero (t0 : List (Entry α)) : stateAt ct ap q minI freq nl t0 0 = initState t0 := rfl

theorem stateAt_succ (t0 : List (Entry α)) (k : Nat) :
    stateAt ct ap q minI freq nl t0 (k + 1) =
      advance ct ap q minI freq nl (stateAt ct ap q minI freq nl t0 k) :=
  Function.iterate_succ_apply' _ _ _

@[simp] theorem stateAt_iter (t0 : List (Entry α)) (k : Nat) :
    (stateAt ct ap q minI freq nl t0 k).iter = k := by
  unfold stateAt; rw [advance_pow_iter]; simp [initState]

@[simp] theorem stateAt_t1 (t0 : List (Entry α)) (k : Nat) :
    (stateAt ct ap q minI freq nl t0 k).t1 = iterate ct ap q k t0 := by
  unfold stateAt; rw [advance_pow_t1]; rfl

theorem checkedState_checks (s : LoopState α) :
    (checkedState minI freq nl s).checks =
      if isCheck minI freq s.iter then s.iter :: s.checks else s.checks := by
  unfold checkedState; split <;> rfl

theorem checkedState_conv (s : LoopState α) :
    (checkedState minI freq nl s).conv =
      if isCheck minI freq s.iter then s.conv.update s.t1 else s.conv := by
  unfold checkedState; split <;> rfl

theorem checkedState_stats (s : LoopState α) :
    (checkedState minI freq nl s).stats =
      if isCheck minI freq s.iter then
        s.stats.update (rankOf s.t1 nl) (s.conv.update s.t1).dsq else s.stats := by
  unfold checkedState; split <;> rfl

theorem stateAt_checks (t0 : List (Entry α)) (k : Nat) :
    (stateAt ct ap q minI freq nl t0 k).checks = sched minI freq k := by
  induction k with
  | zero => rfl
  | succ k ih => rw [stateAt_succ, advance_checks, checkedState_checks, stateAt_iter, ih, sched_succ]

theorem checked_checks (t0 : List (Entry α)) (k : Nat) :
    (checkedState minI freq nl (stateAt ct ap q minI freq nl t0 k)).checks
      = sched minI freq (k + 1) := by
  rw [checkedState_checks, stateAt_iter, stateAt_checks, sched_succ]

theorem stateAt_conv_t (t0 : List (Entry α)) (k : Nat) :
    (stateAt ct ap q minI freq nl t0 k).conv.t = iterate ct ap q (lastChk minI freq k) t0 := by
  induction k with
  | zero => rfl
  | succ k ih =>
    rw [stateAt_succ, advance_conv, checkedState_conv, stateAt_iter, lastChk_succ]
    split
    · simp [ConvChecker.update]
    · exact ih

/-- squared delta computed at a check at iteration `k`: between the `k`-th iterate and the
    iterate of the previous check (the initial vector for the first check). -/
def dsqAt (t0 : List (Entry α)) (k : Nat) : α :=
  deltaSq (iterate ct ap q k t0) (iterate ct ap q (lastChk minI freq k) t0)

theorem checked_dsq (t0 : List (Entry α)) (k : Nat) (hk : isCheck minI freq k = true) :
    (checkedState minI freq nl (stateAt ct ap q minI freq nl t0 k)).conv.dsq
      = dsqAt ct ap q minI freq t0 k := by
  rw [checkedState_conv, stateAt_iter, if_pos hk]
  simp [ConvChecker.update, stateAt_conv_t, dsqAt, deltaSq]

/-- the observation fed to the flat-tail checker at a check at iteration `k` -/
def obsAt (t0 : List (Entry α)) (k : Nat) : List Nat × α :=
  (rankOf (iterate ct ap q k t0) nl, dsqAt ct ap q minI freq t0 k)

/-- flat-tail statistics after all scheduled checks `< k` -/
def statsBefore (t0 : List (Entry α)) (k : Nat) : FlatTailStats α :=
  ftFold ((sched minI freq k).reverse.map (obsAt ct ap q minI freq nl t0))

theorem statsBefore_succ (t0 : List (Entry α)) (k : Nat) :
    statsBefore ct ap q minI freq nl t0 (k + 1) =
      if isCheck minI freq k then
        (statsBefore ct ap q minI freq nl t0 k).update
          (rankOf (iterate ct ap q k t0) nl) (dsqAt ct ap q minI freq t0 k)
      else statsBefore ct ap q minI freq nl t0 k := by
  unfold statsBefore
  rw [sched_succ]
  split
  · rw [List.reverse_cons, List.map_append, List.map_singleton, ftFold_snoc]; rfl
  · rfl

theorem stateAt_stats (t0 : List (Entry α)) (k : Nat) :
    (stateAt ct ap q minI freq nl t0 k).stats = statsBefore ct ap q minI freq nl t0 k := by
  induction k with
  | zero => rfl
  | succ k ih =>
    rw [stateAt_succ, advance_stats, checkedState_stats, stateAt_iter, statsBefore_succ, ih]
    split
    · rename_i hk
      have := checked_dsq ct ap q minI freq nl t0 k hk
      rw [checkedState_conv, stateAt_iter, if_pos hk] at this
      rw [this, stateAt_t1]
    · rfl

theorem checked_stats (t0 : List (Entry α)) (k : Nat) :
    (checkedState minI freq nl (stateAt ct ap q minI freq nl t0 k)).stats
      = statsBefore ct ap q minI freq nl t0 (k + 1) := by
  have := stateAt_stats ct ap q minI freq nl t0 (k + 1)
  rw [stateAt_succ, advance_stats] at this
  exact this

/-! ### verdicts in closed form -/

/-- the delta of a check at iteration `k` is not finite -/
def nonFiniteAt (t0 : List (Entry α)) (k : Nat) : Bool := nonFinite (dsqAt ct ap q minI freq t0 k)

/-- `Converged()` at a check at iteration `k`: `sqrt dsq ≤ e` -/
def convergedAt (t0 : List (Entry α)) (k : Nat) : Bool := sqrtLe (dsqAt ct ap q minI freq t0 k) e

/-- `Reached()` at a check at iteration `k`: the statistics *including* this check have
    `length ≥ flatTail` -/
def flatAt (t0 : List (Entry α)) (k : Nat) : Bool :=
  decide ((statsBefore ct ap q minI freq nl t0 (k + 1)).length ≥ flatTail)

/-- a scheduled check at iteration `k` ends the loop -/
def stopAt (t0 : List (Entry α)) (k : Nat) : Bool :=
  isCheck minI freq k &&
    (nonFiniteAt ct ap q minI freq t0 k ||
      (convergedAt ct ap q e minI freq t0 k && flatAt ct ap q minI freq flatTail nl t0 k))

theorem stopNF_stateAt (t0 : List (Entry α)) (k : Nat) :
    stopNF minI freq nl (stateAt ct ap q minI freq nl t0 k) =
      (isCheck minI freq k && nonFiniteAt ct ap q minI freq t0 k) := by
  unfold stopNF nonFiniteAt
  rw [stateAt_iter]
  cases hk : isCheck minI freq k with
  | false => rfl
  | true => rw [checked_dsq _ _ _ _ _ _ _ _ hk]

theorem stopOK_stateAt (t0 : List (Entry α)) (k : Nat) :
    stopOK e minI freq flatTail nl (stateAt ct ap q minI freq nl t0 k) =
      (isCheck minI freq k && convergedAt ct ap q e minI freq t0 k
        && flatAt ct ap q minI freq flatTail nl t0 k) := by
  unfold stopOK convergedAt flatAt
  rw [stateAt_iter, checked_stats]
  cases hk : isCheck minI freq k with
  | false => rfl
  | true => rw [checked_dsq _ _ _ _ _ _ _ _ hk]

theorem stopAt_false_iff (t0 : List (Entry α)) (k : Nat) :
    stopAt ct ap q e minI freq flatTail nl t0 k = false ↔
      stopNF minI freq nl (stateAt ct ap q minI freq nl t0 k) = false ∧
      stopOK e minI freq flatTail nl (stateAt ct ap q minI freq nl t0 k) = false := by
  rw [stopNF_stateAt, stopOK_stateAt]
  unfold stopAt
  cases isCheck minI freq k <;> cases nonFiniteAt ct ap q minI freq t0 k <;>
    cases convergedAt ct ap q e minI freq t0 k <;>
    cases flatAt ct ap q minI freq flatTail nl t0 k <;> simp

end loop

/-! ### the loop started in the initial state -/

omit [Scalar α] in
theorem maxHit_some (m k : Nat) : maxHit (some m) k = decide (k ≥ m) := rfl
omit [Scalar α] in
theorem maxHit_none (k : Nat) : maxHit none k = false := rfl

omit [Scalar α] in
theorem le_of_maxHit_false {maxI : Option Nat} {K : Nat} (h : ∀ k < K, maxHit maxI k = false)
    {m : Nat} (hm : maxI = some m) : K ≤ m := by
  subst hm
  by_contra hlt
  have := h m (by omega)
  simp [maxHit_some] at this

omit [Scalar α] in
theorem lt_of_maxHit_false {maxI : Option Nat} {K : Nat} (h : maxHit maxI K = false)
    {m : Nat} (hm : maxI = some m) : K < m := by
  subst hm
  simpa [maxHit_some] using h

omit [Scalar α] in
theorem eq_of_maxHit_true {maxI : Option Nat} {K : Nat} (h : ∀ k < K, maxHit maxI k = false)
    (hK : maxHit maxI K = true) : maxI = some K := by
  cases maxI with
  | none => simp [maxHit_none] at hK
  | some m =>
    have h1 := le_of_maxHit_false h rfl
    have h2 : K ≥ m := by simpa [maxHit_some] using hK
    congr 1; omega

omit [Scalar α] in
theorem sched_eq_nil {minI freq k : Nat} (h : k ≤ minI) : sched minI freq k = [] := by
  apply List.eq_nil_iff_forall_not_mem.mpr
  intro j hj
  obtain ⟨h1, h2⟩ := mem_sched.mp hj
  have := (isCheck_iff_mod.mp h2).1
  omega

section loop
variable (ct : List (Row α)) (ap : List (Entry α)) (q e : α) (minI freq : Nat)
  (maxI : Option Nat) (flatTail nl : Nat)

/-- Complete description of the result of the loop started in the initial state. -/
theorem loop_spec (fuel : Nat) (t0 : List (Entry α)) (s : LoopState α) (by_ : EndedBy)
    (h : computeLoop ct ap q e minI freq maxI flatTail nl fuel (initState t0) = (s, by_)) :
    s.iter ≤ fuel ∧
    (∀ k, k < s.iter → maxHit maxI k = false ∧ stopAt ct ap q e minI freq flatTail nl t0 k = false) ∧
    s.t1 = iterate ct ap q s.iter t0 ∧
    s.stats = ftFold (s.checks.reverse.map (obsAt ct ap q minI freq nl t0)) ∧
    (by_ = .outOfFuel → s.iter = fuel ∧ s.checks = sched minI freq s.iter) ∧
    (by_ = .maxIterations → s.iter < fuel ∧ maxHit maxI s.iter = true ∧
        s.checks = sched minI freq s.iter) ∧
    (by_ = .nonFinite → s.iter < fuel ∧ maxHit maxI s.iter = false ∧
        isCheck minI freq s.iter = true ∧ nonFiniteAt ct ap q minI freq t0 s.iter = true ∧
        s.checks = sched minI freq (s.iter + 1)) ∧
    (by_ = .criteria → s.iter < fuel ∧ maxHit maxI s.iter = false ∧
        isCheck minI freq s.iter = true ∧ nonFiniteAt ct ap q minI freq t0 s.iter = false ∧
        convergedAt ct ap q e minI freq t0 s.iter = true ∧
        flatAt ct ap q minI freq flatTail nl t0 s.iter = true ∧
        s.checks = sched minI freq (s.iter + 1)) := by
  obtain ⟨K, hK, hbefore, hend⟩ :=
    computeLoop_char ct ap q e minI freq maxI flatTail nl fuel _ s by_ h
  change ∀ j < K, maxHit maxI (stateAt ct ap q minI freq nl t0 j).iter = false ∧
      stopNF minI freq nl (stateAt ct ap q minI freq nl t0 j) = false ∧
      stopOK e minI freq flatTail nl (stateAt ct ap q minI freq nl t0 j) = false at hbefore
  have hbefore' : ∀ k, k < K → maxHit maxI k = false ∧
      stopAt ct ap q e minI freq flatTail nl t0 k = false := by
    intro k hk
    obtain ⟨h1, h2, h3⟩ := hbefore k hk
    rw [stateAt_iter] at h1
    exact ⟨h1, (stopAt_false_iff ct ap q e minI freq flatTail nl t0 k).mpr ⟨h2, h3⟩⟩
  change (by_ = .outOfFuel ∧ K = fuel ∧ s = stateAt ct ap q minI freq nl t0 K) ∨
    (by_ = .maxIterations ∧ K < fuel ∧
      maxHit maxI (stateAt ct ap q minI freq nl t0 K).iter = true ∧
      s = stateAt ct ap q minI freq nl t0 K) ∨
    (by_ = .nonFinite ∧ K < fuel ∧
      maxHit maxI (stateAt ct ap q minI freq nl t0 K).iter = false ∧
      stopNF minI freq nl (stateAt ct ap q minI freq nl t0 K) = true ∧
      s = checkedState minI freq nl (stateAt ct ap q minI freq nl t0 K)) ∨
    (by_ = .criteria ∧ K < fuel ∧
      maxHit maxI (stateAt ct ap q minI freq nl t0 K).iter = false ∧
      stopNF minI freq nl (stateAt ct ap q minI freq nl t0 K) = false ∧
      stopOK e minI freq flatTail nl (stateAt ct ap q minI freq nl t0 K) = true ∧
      s = checkedState minI freq nl (stateAt ct ap q minI freq nl t0 K)) at hend
  rcases hend with ⟨rfl, rfl, rfl⟩ | ⟨rfl, hlt, hmax, rfl⟩ | ⟨rfl, hlt, hmax, hnf, rfl⟩ |
    ⟨rfl, hlt, hmax, hnf, hok, rfl⟩
  · refine ⟨by simp, by simpa using hbefore', by simp, ?_, ?_, nofun, nofun, nofun⟩
    · rw [stateAt_stats, stateAt_checks]; rfl
    · intro _; simp [stateAt_checks]
  · rw [stateAt_iter] at hmax
    refine ⟨by simp; omega, by simpa using hbefore', by simp, ?_, nofun, ?_, nofun, nofun⟩
    · rw [stateAt_stats, stateAt_checks]; rfl
    · intro _; simp [stateAt_checks, hmax, hlt]
  · rw [stateAt_iter] at hmax
    rw [stopNF_stateAt, Bool.and_eq_true] at hnf
    refine ⟨by simp; omega, by simpa using hbefore', by simp, ?_, nofun, nofun, ?_, nofun⟩
    · rw [checked_stats, checked_checks]; rfl
    · intro _; simp [checked_checks, hmax, hlt, hnf.1, hnf.2]
  · rw [stateAt_iter] at hmax
    rw [stopNF_stateAt] at hnf
    rw [stopOK_stateAt, Bool.and_eq_true, Bool.and_eq_true] at hok
    have hnf' : nonFiniteAt ct ap q minI freq t0 K = false := by
      rw [hok.1.1] at hnf; simpa using hnf
    refine ⟨by simp; omega, by simpa using hbefore', by simp, ?_, nofun, nofun, nofun, ?_⟩
    · rw [checked_stats, checked_checks]; rfl
    · intro _; simp [checked_checks, hmax, hlt, hok.1.1, hok.1.2, hok.2, hnf']

/-- The loop stops at the *first* iteration `K` at which the iteration limit is reached or a
    scheduled check ends it (given enough fuel). -/
theorem loop_first (fuel : Nat) (t0 : List (Entry α)) (K : Nat) (hK : K < fuel)
    (hbefore : ∀ k, k < K → maxHit maxI k = false ∧
      stopAt ct ap q e minI freq flatTail nl t0 k = false)
    (hat : maxHit maxI K = true ∨ stopAt ct ap q e minI freq flatTail nl t0 K = true)
    (s : LoopState α) (by_ : EndedBy)
    (h : computeLoop ct ap q e minI freq maxI flatTail nl fuel (initState t0) = (s, by_)) :
    s.iter = K ∧ by_ ≠ .outOfFuel ∧ (by_ = .maxIterations ↔ maxHit maxI K = true) := by
  obtain ⟨hfuel, hbef, _, _, hof, hmx, hnf, hcr⟩ :=
    loop_spec ct ap q e minI freq maxI flatTail nl fuel t0 s by_ h
  have hiter : s.iter = K := by
    rcases Nat.lt_trichotomy s.iter K with hlt | heq | hgt
    · exfalso
      obtain ⟨b1, b2⟩ := hbefore s.iter hlt
      cases by_ with
      | outOfFuel => have := (hof rfl).1; omega
      | maxIterations => have := (hmx rfl).2.1; rw [b1] at this; cases this
      | nonFinite =>
        obtain ⟨_, _, c1, c2, _⟩ := hnf rfl
        simp [stopAt, c1, c2] at b2
      | criteria =>
        obtain ⟨_, _, c1, c2, c3, c4, _⟩ := hcr rfl
        simp [stopAt, c1, c2, c3, c4] at b2
    · exact heq
    · exfalso
      obtain ⟨b1, b2⟩ := hbef K hgt
      rcases hat with h1 | h1
      · rw [b1] at h1; cases h1
      · rw [b2] at h1; cases h1
  refine ⟨hiter, ?_, ?_⟩
  · rintro rfl; have := (hof rfl).1; omega
  · constructor
    · rintro rfl; rw [← hiter]; exact (hmx rfl).2.1
    · intro hm
      cases by_ with
      | outOfFuel => have := (hof rfl).1; omega
      | maxIterations => rfl
      | nonFinite => have := (hnf rfl).2.1; rw [hiter, hm] at this; cases this
      | criteria => have := (hcr rfl).2.1; rw [hiter, hm] at this; cases this

/-- `WithIterations n` (`minIterations = maxIterations = n`): exactly `n` iterations, ended by
    the iteration limit, and no check is performed at all. -/
theorem loop_withIterations (n fuel : Nat) (hfuel : n < fuel) (t0 : List (Entry α))
    (s : LoopState α) (by_ : EndedBy)
    (h : computeLoop ct ap q e n freq (some n) flatTail nl fuel (initState t0) = (s, by_)) :
    s.iter = n ∧ by_ = .maxIterations ∧ s.checks = [] ∧ s.t1 = iterate ct ap q n t0 := by
  have hnc : ∀ k, k < n → isCheck n freq k = false := by
    intro k hk
    cases hc : isCheck n freq k with
    | false => rfl
    | true => have := (isCheck_iff_mod.mp hc).1; omega
  obtain ⟨h1, _, h3⟩ := loop_first ct ap q e n freq (some n) flatTail nl fuel t0 n hfuel
    (fun k hk => ⟨by simp [maxHit_some]; omega, by simp [stopAt, hnc k hk]⟩)
    (Or.inl (by simp [maxHit_some])) s by_ h
  have hby : by_ = .maxIterations := h3.mpr (by simp [maxHit_some])
  obtain ⟨_, _, ht, _, _, hmx, _, _⟩ :=
    loop_spec ct ap q e n freq (some n) flatTail nl fuel t0 s by_ h
  refine ⟨h1, hby, ?_, by rw [ht, h1]⟩
  rw [(hmx hby).2.2, h1]
  exact sched_eq_nil (le_refl n)

end loop

/-! ### `compute`: validation, then the loop -/

/-- the validations of `Compute` in source order (eigentrust.go 194-211, 228-252):
    the first one that fails, as the error returned. -/
def validate (c : CSM α) (p : Vec α) (a e : α) (o : ComputeOpts α) : Option SErr :=
  if c.major ≠ c.minor then some .dimMismatch
  else if c.major = 0 then some .emptyLocalTrust
  else if p.dim ≠ c.major
      || (match o.t0 with | some t0 => decide (t0.dim ≠ c.major) | none => false)
      || (match o.resultDim with | some d => decide (d ≠ c.major) | none => false) then
    some .dimMismatch
  else if lt a zero || lt one a then some (.badParam "alpha")
  else if le e zero then some (.badParam "epsilon")
  else if o.checkFreq.getD 1 < 1 then some (.badParam "checkFreq")
  else if o.maxIterations.getD 0 < 0 then some (.badParam "maxIterations")
  else if o.minIterations.getD (o.checkFreq.getD 1) ≤ 0 then some (.badParam "minIterations")
  else none

/-- the loop `compute` runs once the validations have passed -/
def loopOf (fuel : Nat) (c : CSM α) (p : Vec α) (a e : α) (o : ComputeOpts α) :
    LoopState α × EndedBy :=
  computeLoop c.transpose.rows (Vec.scale a p).entries (sub one a) e
    (o.minIterations.getD (o.checkFreq.getD 1)).toNat (o.checkFreq.getD 1).toNat
    (if o.maxIterations.getD 0 = 0 then none else some (o.maxIterations.getD 0).toNat)
    o.flatTail (if o.numLeaders = 0 then c.major else o.numLeaders) fuel
    (initState (o.t0.getD p).entries)

theorem validate_chain {R : Type} (b2 b3 b4 b5 b6 b7 b8 : Prop)
    [Decidable b2] [Decidable b3] [Decidable b4] [Decidable b5] [Decidable b6] [Decidable b7]
    [Decidable b8] (e2 e3 e4 e5 e6 e7 e8 : SErr) (X : Except SErr R) :
    (if b2 then .error e2 else if b3 then .error e3 else if b4 then .error e4
      else if b5 then .error e5 else if b6 then .error e6 else if b7 then .error e7
      else if b8 then .error e8 else X) =
    match (if b2 then some e2 else if b3 then some e3 else if b4 then some e4
      else if b5 then some e5 else if b6 then some e6 else if b7 then some e7
      else if b8 then some e8 else none : Option SErr) with
    | some err => .error err
    | none => X := by
  split_ifs <;> rfl

theorem compute_eq (fuel : Nat) (c : CSM α) (p : Vec α) (a e : α) (o : ComputeOpts α) :
    compute fuel c p a e o =
      match validate c p a e o with
      | some err => .error err
      | none =>
        match loopOf fuel c p a e o with
        | (s, by_) =>
          if by_ = .nonFinite then .error (.badParam "nonfinite")
          else .ok ⟨⟨c.major, s.t1⟩, s.iter, s.stats, s.checks.reverse, by_⟩ := by
  by_cases h1 : c.major = c.minor
  · have hd : c.dim = .ok c.major := by simp [CSM.dim, h1]
    have h1' : ¬ (c.major ≠ c.minor) := by simp [h1]
    unfold compute validate
    rw [hd, if_neg h1']
    dsimp only
    exact validate_chain _ _ _ _ _ _ _ _ _ _ _ _ _ _ _
  · simp [compute, validate, CSM.dim, h1]

/-- every validation of `Compute` passes -/
def ValidInput (c : CSM α) (p : Vec α) (a e : α) (o : ComputeOpts α) : Prop :=
  c.major = c.minor ∧ c.major ≠ 0 ∧ p.dim = c.major ∧
  (∀ t0, o.t0 = some t0 → t0.dim = c.major) ∧ (∀ d, o.resultDim = some d → d = c.major) ∧
  lt a zero = false ∧ lt one a = false ∧ le e zero = false ∧
  1 ≤ o.checkFreq.getD 1 ∧ 0 ≤ o.maxIterations.getD 0 ∧
  0 < o.minIterations.getD (o.checkFreq.getD 1)

theorem validate_eq_none_iff (c : CSM α) (p : Vec α) (a e : α) (o : ComputeOpts α) :
    validate c p a e o = none ↔ ValidInput c p a e o := by
  unfold validate ValidInput
  constructor
  · intro h
    split_ifs at h with h1 h2 h3 h4 h5 h6 h7 h8
    simp only [Bool.or_eq_true, not_or, Bool.not_eq_true] at h3 h4
    refine ⟨by simpa using h1, h2, by simpa using h3.1.1, ?_, ?_, h4.1, h4.2, by simpa using h5,
      by omega, by omega, by omega⟩
    · intro t0 ht0
      have := h3.1.2
      rw [ht0] at this
      simpa using this
    · intro d hd
      have := h3.2
      rw [hd] at this
      simpa using this
  · rintro ⟨h1, h2, h3, h4, h5, h6, h7, h8, h9, h10, h11⟩
    have c3 : (decide (p.dim ≠ c.major)
        || (match o.t0 with | some t0 => decide (t0.dim ≠ c.major) | none => false)
        || (match o.resultDim with | some d => decide (d ≠ c.major) | none => false)) = false := by
      have a1 : (match o.t0 with | some t0 => decide (t0.dim ≠ c.major) | none => false) = false := by
        cases ht : o.t0 with
        | none => rfl
        | some t0 => simp [h4 t0 ht]
      have a2 : (match o.resultDim with | some d => decide (d ≠ c.major) | none => false) = false := by
        cases hd : o.resultDim with
        | none => rfl
        | some d => simp [h5 d hd]
      rw [a1, a2]; simp [h3]
    rw [if_neg (by simp [h1]), if_neg h2, if_neg (by rw [c3]; simp), if_neg (by simp [h6, h7]),
      if_neg (by simp [h8]), if_neg (by omega), if_neg (by omega), if_neg (by omega)]

/-- an input that fails a validation is rejected with an error that does not depend on the
    fuel: no iteration is performed (in particular `compute 0 …` already returns it). -/
theorem compute_error_of_not_valid (c : CSM α) (p : Vec α) (a e : α) (o : ComputeOpts α)
    (h : ¬ ValidInput c p a e o) : ∃ err, ∀ fuel, compute fuel c p a e o = .error err := by
  cases hv : validate c p a e o with
  | none => exact absurd ((validate_eq_none_iff c p a e o).mp hv) h
  | some err => exact ⟨err, fun fuel => by rw [compute_eq, hv]⟩

theorem compute_of_valid (fuel : Nat) (c : CSM α) (p : Vec α) (a e : α) (o : ComputeOpts α)
    (h : ValidInput c p a e o) :
    compute fuel c p a e o =
      match loopOf fuel c p a e o with
      | (s, by_) =>
        if by_ = .nonFinite then .error (.badParam "nonfinite")
        else .ok ⟨⟨c.major, s.t1⟩, s.iter, s.stats, s.checks.reverse, by_⟩ := by
  rw [compute_eq, (validate_eq_none_iff c p a e o).mpr h]

theorem compute_ok_of_loop (fuel : Nat) (c : CSM α) (p : Vec α) (a e : α) (o : ComputeOpts α)
    (hv : ValidInput c p a e o) (s : LoopState α) (by_ : EndedBy)
    (hl : loopOf fuel c p a e o = (s, by_)) (hnf : by_ ≠ .nonFinite) :
    compute fuel c p a e o = .ok ⟨⟨c.major, s.t1⟩, s.iter, s.stats, s.checks.reverse, by_⟩ := by
  rw [compute_of_valid fuel c p a e o hv, hl]
  simp [hnf]

theorem compute_error_of_nonFinite (fuel : Nat) (c : CSM α) (p : Vec α) (a e : α)
    (o : ComputeOpts α) (hv : ValidInput c p a e o) (s : LoopState α)
    (hl : loopOf fuel c p a e o = (s, .nonFinite)) :
    compute fuel c p a e o = .error (.badParam "nonfinite") := by
  rw [compute_of_valid fuel c p a e o hv, hl]
  simp

/-- a successful `compute` passed every validation and returns the loop's result -/
theorem compute_ok_inv (fuel : Nat) (c : CSM α) (p : Vec α) (a e : α) (o : ComputeOpts α)
    (r : ComputeResult α) (h : compute fuel c p a e o = .ok r) :
    ValidInput c p a e o ∧ r.endedBy ≠ .nonFinite ∧
      ∃ s, loopOf fuel c p a e o = (s, r.endedBy) ∧
        r = ⟨⟨c.major, s.t1⟩, s.iter, s.stats, s.checks.reverse, r.endedBy⟩ := by
  by_cases hv : ValidInput c p a e o
  · refine ⟨hv, ?_⟩
    rw [compute_of_valid fuel c p a e o hv] at h
    cases hl : loopOf fuel c p a e o with
    | mk s by_ =>
      rw [hl] at h
      by_cases hnf : by_ = .nonFinite
      · simp [hnf] at h
      · simp only [hnf, if_false] at h
        cases h
        exact ⟨hnf, s, rfl, rfl⟩
  · obtain ⟨err, herr⟩ := compute_error_of_not_valid c p a e o hv
    rw [herr fuel] at h
    cases h

/-! ### the flat-tail verdict in closed form -/

theorem sched_eq_of_no_check {minI freq c : Nat} :
    ∀ k, c ≤ k → (∀ j, c ≤ j → j < k → isCheck minI freq j = false) →
      sched minI freq k = sched minI freq c := by
  intro k
  induction k with
  | zero => intro h _; have : c = 0 := by omega
            subst this; rfl
  | succ k ih =>
    intro h hn
    rcases Nat.lt_or_ge k c with hk | hk
    · have : c = k + 1 := by omega
      subst this; rfl
    · rw [sched_succ, hn k hk (by omega)]
      simp only [Bool.false_eq_true, if_false]
      exact ih hk (fun j h1 h2 => hn j h1 (by omega))

/-- there is no scheduled check strictly between two consecutive ones -/
theorem isCheck_gap {minI freq i j : Nat} (h1 : minI + i * freq < j)
    (h2 : j < minI + (i + 1) * freq) : isCheck minI freq j = false := by
  cases hc : isCheck minI freq j with
  | false => rfl
  | true =>
    exfalso
    obtain ⟨i', hi'⟩ := isCheck_iff.mp hc
    subst hi'
    have hlo : i * freq < i' * freq := by omega
    have hhi : i' * freq < (i + 1) * freq := by omega
    have h3 : i < i' := Nat.lt_of_mul_lt_mul_right hlo
    have h4 : i' < i + 1 := Nat.lt_of_mul_lt_mul_right hhi
    omega

section flat
variable (ct : List (Row α)) (ap : List (Entry α)) (q : α) (minI freq : Nat) (nl : Nat)

theorem statsBefore_first (t0 : List (Entry α)) :
    statsBefore ct ap q minI freq nl t0 minI = FlatTailStats.init := by
  unfold statsBefore
  rw [sched_eq_nil (le_refl minI)]
  rfl

theorem statsBefore_ranking (t0 : List (Entry α)) (k : Nat) (hk : isCheck minI freq k = true) :
    (statsBefore ct ap q minI freq nl t0 (k + 1)).ranking
      = some (rankOf (iterate ct ap q k t0) nl) := by
  rw [statsBefore_succ, if_pos hk]
  unfold FlatTailStats.update
  split
  · assumption
  · rfl

theorem statsBefore_next_check (hf : 1 ≤ freq) (t0 : List (Entry α)) (i : Nat) :
    statsBefore ct ap q minI freq nl t0 (minI + (i + 1) * freq)
      = statsBefore ct ap q minI freq nl t0 (minI + i * freq + 1) := by
  have hmul : (i + 1) * freq = i * freq + freq := Nat.succ_mul i freq
  unfold statsBefore
  rw [sched_eq_of_no_check (c := minI + i * freq + 1) (minI + (i + 1) * freq)
    (by rw [hmul]; omega) (fun j h1 h2 => isCheck_gap (by omega) h2)]

/-- At the `i`-th scheduled check (`k = minI + i·freq`) the statistics have `length ≥ L` iff
    there were at least `L` earlier checks and the rankings at the last `L+1` checks
    `k, k − freq, …, k − L·freq` are identical. -/
theorem flat_length_iff (hf : 1 ≤ freq) (t0 : List (Entry α)) :
    ∀ (L i : Nat),
      L ≤ (statsBefore ct ap q minI freq nl t0 (minI + i * freq + 1)).length ↔
        L ≤ i ∧ ∀ j, j ≤ L →
          rankOf (iterate ct ap q (minI + (i - j) * freq) t0) nl
            = rankOf (iterate ct ap q (minI + i * freq) t0) nl := by
  intro L
  induction L with
  | zero =>
    intro i
    simp only [Nat.zero_le, true_and, true_iff]
    intro j hj
    have : j = 0 := by omega
    subst this; rfl
  | succ L ih =>
    intro i
    have hck : ∀ i', isCheck minI freq (minI + i' * freq) = true :=
      fun i' => isCheck_iff.mpr ⟨i', rfl⟩
    cases i with
    | zero =>
      simp only [Nat.zero_mul, Nat.add_zero]
      rw [statsBefore_succ, if_pos (by simpa using hck 0), statsBefore_first]
      simp [FlatTailStats.update, FlatTailStats.init]
    | succ i =>
      rw [statsBefore_succ, if_pos (hck (i + 1)), statsBefore_next_check _ _ _ _ _ _ hf]
      have hr := statsBefore_ranking ct ap q minI freq nl t0 (minI + i * freq) (hck i)
      unfold FlatTailStats.update
      rw [hr]
      by_cases heq : rankOf (iterate ct ap q (minI + i * freq) t0) nl
          = rankOf (iterate ct ap q (minI + (i + 1) * freq) t0) nl
      · rw [if_pos (by rw [heq])]
        simp only [Nat.add_le_add_iff_right]
        rw [ih i]
        constructor
        · rintro ⟨h1, h2⟩
          refine ⟨h1, ?_⟩
          intro j hj
          cases j with
          | zero => rfl
          | succ j =>
            have := h2 j (by omega)
            have e : i + 1 - (j + 1) = i - j := by omega
            rw [e, this, heq]
        · rintro ⟨h1, h2⟩
          refine ⟨h1, ?_⟩
          intro j hj
          have := h2 (j + 1) (by omega)
          have e : i + 1 - (j + 1) = i - j := by omega
          rw [e] at this
          rw [this, heq]
      · rw [if_neg (by intro h; exact heq (Option.some.inj h))]
        simp only [Nat.le_zero_eq, Nat.add_one_ne_zero, false_iff, not_and, not_forall]
        intro _
        refine ⟨1, by omega, ?_⟩
        simpa using heq

end flat

end EtVerif
