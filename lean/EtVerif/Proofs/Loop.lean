/-
  Control structure of `computeLoop` / `compute` (Model/Basic.lean; eigentrust.go 179-314),
  for an arbitrary `Scalar` instance: the verdicts are whatever `sqrtLe` / `nonFinite` return.

  * `computeLoop_succ`     — one unfolding of the loop in terms of `checkedState`/`advance`;
  * `computeLoop_char`     — the loop runs `advance` until the first state that hits `maxI`,
                             a non-finite delta, or the exit criteria (or the fuel runs out);
  * `stateAt`              — the state after `k` iterations without exit, with closed forms for
                             every component (`iterate`, `sched`, `lastChk`, `dsqAt`, `statsBefore`);
  * `loop_spec`, `loop_first`, `computeLoop_fuel_mono`, `loop_withIterations`;
  * `compute` validation lemmas.
-/
import EtVerif.Proofs.FlatTail
import Mathlib.Logic.Function.Iterate

namespace EtVerif
open Scalar

variable {α : Type} [Scalar α]

/-- the initial loop state of `compute` (eigentrust.go 253-257) -/
def initState (t0 : List (Entry α)) : LoopState α :=
  { t1 := t0, iter := 0, conv := ⟨t0, zero⟩, stats := FlatTailStats.init, checks := [] }

/-- the pure `k`-th power iterate -/
def iterate (ct : List (Row α)) (ap : List (Entry α)) (q : α) (k : Nat) (t0 : List (Entry α)) :
    List (Entry α) := (stepEntries ct ap q)^[k] t0

/-- the loop guard `iter < maxIters` fails (`none` = unlimited) -/
def maxHit (maxI : Option Nat) (k : Nat) : Bool :=
  match maxI with
  | some m => decide (k ≥ m)
  | none => false

/-- squared norm of the difference of two entry lists (`ConvergenceChecker.Update`) -/
def deltaSq (t t' : List (Entry α)) : α := kbnSum ((subEntries t t').map fun e => mul e.val e.val)

/-! ### the check schedule -/

/-- the scheduled checks `< k`, newest first -/
def sched (minI freq k : Nat) : List Nat := ((List.range k).filter (isCheck minI freq)).reverse

/-- the last scheduled check before iteration `k` (0 if there is none: the checker starts
    with the initial vector) -/
def lastChk (minI freq k : Nat) : Nat := (sched minI freq k).headD 0

omit [Scalar α] in
theorem sched_zero (minI freq : Nat) : sched minI freq 0 = [] := rfl

theorem sched_succ (minI freq k : Nat) :
    sched minI freq (k + 1) =
      if isCheck minI freq k then k :: sched minI freq k else sched minI freq k := by
  unfold sched
  rw [List.range_succ, List.filter_append, List.reverse_append]
  by_cases h : isCheck minI freq k <;> simp [h]

theorem mem_sched {minI freq k j : Nat} :
    j ∈ sched minI freq k ↔ j < k ∧ isCheck minI freq j = true := by
  simp [sched]

theorem isCheck_iff_mod {minI freq k : Nat} :
    isCheck minI freq k = true ↔ minI ≤ k ∧ (k - minI) % freq = 0 := by
  simp [isCheck]

/-- the checks are exactly `minI, minI + freq, minI + 2·freq, …` -/
theorem isCheck_iff {minI freq k : Nat} (hf : 1 ≤ freq) :
    isCheck minI freq k = true ↔ ∃ i, k = minI + i * freq := by
  rw [isCheck_iff_mod]
  constructor
  · rintro ⟨h1, h2⟩
    obtain ⟨i, hi⟩ := Nat.dvd_of_mod_eq_zero h2
    exact ⟨i, by rw [Nat.mul_comm] at hi; omega⟩
  · rintro ⟨i, rfl⟩
    refine ⟨by omega, ?_⟩
    have : minI + i * freq - minI = i * freq := by omega
    rw [this]; exact Nat.mul_mod_left i freq

theorem lastChk_zero (minI freq : Nat) : lastChk minI freq 0 = 0 := rfl

theorem lastChk_succ (minI freq k : Nat) :
    lastChk minI freq (k + 1) = if isCheck minI freq k then k else lastChk minI freq k := by
  unfold lastChk
  rw [sched_succ]
  by_cases h : isCheck minI freq k <;> simp [h]

theorem lastChk_eq_of_no_check {minI freq c : Nat} :
    ∀ k, c ≤ k → (∀ j, c ≤ j → j < k → isCheck minI freq j = false) →
      lastChk minI freq k = lastChk minI freq c := by
  intro k
  induction k with
  | zero => intro h _; have : c = 0 := by omega
            subst this; rfl
  | succ k ih =>
    intro h hn
    rcases Nat.lt_or_ge k c with hk | hk
    · have : c = k + 1 := by omega
      subst this; rfl
    · rw [lastChk_succ, hn k hk (by omega)]
      simp only [Bool.false_eq_true, if_false]
      exact ih hk (fun j h1 h2 => hn j h1 (by omega))

/-- at a scheduled check, the previous check was `freq` iterations earlier, except for the
    first check (`k = minI`), which compares with the initial vector. -/
theorem lastChk_of_isCheck {minI freq k : Nat} (hf : 1 ≤ freq) (hk : isCheck minI freq k = true) :
    lastChk minI freq k = if k ≤ minI then 0 else k - freq := by
  obtain ⟨i, rfl⟩ := (isCheck_iff hf).mp hk
  cases i with
  | zero =>
    simp only [Nat.zero_mul, Nat.add_zero, Nat.le_refl, if_true]
    rw [lastChk_eq_of_no_check (c := 0) minI (Nat.zero_le _)]
    · rfl
    · intro j _ hj
      cases hc : isCheck minI freq j with
      | false => rfl
      | true => have := (isCheck_iff_mod.mp hc).1; omega
  | succ i =>
    have hmul : (i + 1) * freq = i * freq + freq := Nat.succ_mul i freq
    have hgt : ¬ (minI + (i + 1) * freq ≤ minI) := by rw [hmul]; omega
    simp only [hgt, if_false]
    have hprev : minI + (i + 1) * freq - freq = minI + i * freq := by rw [hmul]; omega
    rw [hprev]
    rw [lastChk_eq_of_no_check (c := minI + i * freq + 1) (minI + (i + 1) * freq)
      (by rw [hmul]; omega)]
    · rw [lastChk_succ, (isCheck_iff hf).mpr ⟨i, rfl⟩]; simp
    · intro j h1 h2
      cases hc : isCheck minI freq j with
      | false => rfl
      | true =>
        exfalso
        obtain ⟨i', hi'⟩ := (isCheck_iff hf).mp hc
        subst hi'
        rw [hmul] at h2
        have hlo : i * freq < i' * freq := by omega
        have hhi : i' * freq < (i + 1) * freq := by rw [hmul]; omega
        have h3 : i < i' := Nat.lt_of_mul_lt_mul_right hlo
        have h4 : i' < i + 1 := Nat.lt_of_mul_lt_mul_right hhi
        omega

/-! ### one unfolding of the loop -/

section loop
variable (ct : List (Row α)) (ap : List (Entry α)) (q e : α) (minI freq : Nat)
  (maxI : Option Nat) (flatTail nl : Nat)

/-- the bookkeeping the loop performs at the top of an iteration (eigentrust.go 266-271):
    at a scheduled check, update the two checkers and record the check. -/
def checkedState (s : LoopState α) : LoopState α :=
  if isCheck minI freq s.iter then
    { s with
      conv := s.conv.update s.t1
      stats := s.stats.update (rankOf s.t1 nl) (s.conv.update s.t1).dsq
      checks := s.iter :: s.checks }
  else s

/-- a full loop iteration without exit: bookkeeping, then one power-iteration step -/
def advance (s : LoopState α) : LoopState α :=
  { checkedState minI freq nl s with t1 := stepEntries ct ap q s.t1, iter := s.iter + 1 }

/-- the loop exits with `nonFinite` from state `s` -/
def stopNF (s : LoopState α) : Bool :=
  isCheck minI freq s.iter && nonFinite (checkedState minI freq nl s).conv.dsq

/-- the loop exits with `criteria` from state `s` (if not `stopNF`) -/
def stopOK (s : LoopState α) : Bool :=
  isCheck minI freq s.iter && sqrtLe (checkedState minI freq nl s).conv.dsq e
    && decide ((checkedState minI freq nl s).stats.length ≥ flatTail)

theorem computeLoop_zero (s : LoopState α) :
    computeLoop ct ap q e minI freq maxI flatTail nl 0 s = (s, .outOfFuel) := rfl

theorem computeLoop_succ (fuel : Nat) (s : LoopState α) :
    computeLoop ct ap q e minI freq maxI flatTail nl (fuel + 1) s =
      if maxHit maxI s.iter then (s, .maxIterations)
      else if stopNF minI freq nl s then (checkedState minI freq nl s, .nonFinite)
      else if stopOK e minI freq flatTail nl s then (checkedState minI freq nl s, .criteria)
      else computeLoop ct ap q e minI freq maxI flatTail nl fuel
        (advance ct ap q minI freq nl s) := by
  rw [computeLoop]
  cases hc : isCheck minI freq s.iter <;> cases maxI <;>
    simp [maxHit, stopNF, stopOK, checkedState, advance, hc]

@[simp] theorem checkedState_iter (s : LoopState α) :
    (checkedState minI freq nl s).iter = s.iter := by
  unfold checkedState; split <;> rfl

@[simp] theorem checkedState_t1 (s : LoopState α) :
    (checkedState minI freq nl s).t1 = s.t1 := by
  unfold checkedState; split <;> rfl

@[simp] theorem advance_iter (s : LoopState α) :
    (advance ct ap q minI freq nl s).iter = s.iter + 1 := rfl

@[simp] theorem advance_t1 (s : LoopState α) :
    (advance ct ap q minI freq nl s).t1 = stepEntries ct ap q s.t1 := rfl

@[simp] theorem advance_conv (s : LoopState α) :
    (advance ct ap q minI freq nl s).conv = (checkedState minI freq nl s).conv := rfl

@[simp] theorem advance_stats (s : LoopState α) :
    (advance ct ap q minI freq nl s).stats = (checkedState minI freq nl s).stats := rfl

@[simp] theorem advance_checks (s : LoopState α) :
    (advance ct ap q minI freq nl s).checks = (checkedState minI freq nl s).checks := rfl

theorem advance_pow_iter (k : Nat) (s : LoopState α) :
    ((advance ct ap q minI freq nl)^[k] s).iter = s.iter + k := by
  induction k with
  | zero => rfl
  | succ k ih => rw [Function.iterate_succ_apply', advance_iter, ih]; omega

theorem advance_pow_t1 (k : Nat) (s : LoopState α) :
    ((advance ct ap q minI freq nl)^[k] s).t1 = (stepEntries ct ap q)^[k] s.t1 := by
  induction k with
  | zero => rfl
  | succ k ih => rw [Function.iterate_succ_apply', advance_t1, ih, Function.iterate_succ_apply']

/-- The loop, started in `s0` with `fuel`, advances `K` times — through states that neither hit
    `maxI` nor exit — and ends in the `K`-th state for the reason given. -/
theorem computeLoop_char (fuel : Nat) :
    ∀ (s0 s : LoopState α) (by_ : EndedBy),
      computeLoop ct ap q e minI freq maxI flatTail nl fuel s0 = (s, by_) →
      ∃ K, K ≤ fuel ∧
        (∀ j < K, maxHit maxI ((advance ct ap q minI freq nl)^[j] s0).iter = false ∧
          stopNF minI freq nl ((advance ct ap q minI freq nl)^[j] s0) = false ∧
          stopOK e minI freq flatTail nl ((advance ct ap q minI freq nl)^[j] s0) = false) ∧
        ((by_ = .outOfFuel ∧ K = fuel ∧ s = (advance ct ap q minI freq nl)^[K] s0) ∨
         (by_ = .maxIterations ∧ K < fuel ∧
            maxHit maxI ((advance ct ap q minI freq nl)^[K] s0).iter = true ∧
            s = (advance ct ap q minI freq nl)^[K] s0) ∨
         (by_ = .nonFinite ∧ K < fuel ∧
            maxHit maxI ((advance ct ap q minI freq nl)^[K] s0).iter = false ∧
            stopNF minI freq nl ((advance ct ap q minI freq nl)^[K] s0) = true ∧
            s = checkedState minI freq nl ((advance ct ap q minI freq nl)^[K] s0)) ∨
         (by_ = .criteria ∧ K < fuel ∧
            maxHit maxI ((advance ct ap q minI freq nl)^[K] s0).iter = false ∧
            stopNF minI freq nl ((advance ct ap q minI freq nl)^[K] s0) = false ∧
            stopOK e minI freq flatTail nl ((advance ct ap q minI freq nl)^[K] s0) = true ∧
            s = checkedState minI freq nl ((advance ct ap q minI freq nl)^[K] s0))) := by
  induction fuel with
  | zero =>
    intro s0 s by_ h
    rw [computeLoop_zero] at h
    obtain ⟨rfl, rfl⟩ := Prod.mk.inj h
    exact ⟨0, le_refl _, fun j hj => absurd hj (Nat.not_lt_zero j), Or.inl ⟨rfl, rfl, rfl⟩⟩
  | succ fuel ih =>
    intro s0 s by_ h
    rw [computeLoop_succ] at h
    by_cases h1 : maxHit maxI s0.iter = true
    · rw [if_pos h1] at h
      obtain ⟨rfl, rfl⟩ := Prod.mk.inj h
      exact ⟨0, Nat.zero_le _, fun j hj => absurd hj (Nat.not_lt_zero j),
        Or.inr (Or.inl ⟨rfl, Nat.succ_pos _, h1, rfl⟩)⟩
    · rw [if_neg h1] at h
      have h1' : maxHit maxI s0.iter = false := by simpa using h1
      by_cases h2 : stopNF minI freq nl s0 = true
      · rw [if_pos h2] at h
        obtain ⟨rfl, rfl⟩ := Prod.mk.inj h
        exact ⟨0, Nat.zero_le _, fun j hj => absurd hj (Nat.not_lt_zero j),
          Or.inr (Or.inr (Or.inl ⟨rfl, Nat.succ_pos _, h1', h2, rfl⟩))⟩
      · rw [if_neg h2] at h
        have h2' : stopNF minI freq nl s0 = false := by simpa using h2
        by_cases h3 : stopOK e minI freq flatTail nl s0 = true
        · rw [if_pos h3] at h
          obtain ⟨rfl, rfl⟩ := Prod.mk.inj h
          exact ⟨0, Nat.zero_le _, fun j hj => absurd hj (Nat.not_lt_zero j),
            Or.inr (Or.inr (Or.inr ⟨rfl, Nat.succ_pos _, h1', h2', h3, rfl⟩))⟩
        · rw [if_neg h3] at h
          have h3' : stopOK e minI freq flatTail nl s0 = false := by simpa using h3
          obtain ⟨K, hK, hbefore, hend⟩ := ih _ s by_ h
          refine ⟨K + 1, Nat.succ_le_succ hK, ?_, ?_⟩
          · intro j hj
            cases j with
            | zero => exact ⟨h1', h2', h3'⟩
            | succ j =>
              rw [Function.iterate_succ_apply]
              exact hbefore j (by omega)
          · rw [Function.iterate_succ_apply]
            rcases hend with ⟨a, b, c⟩ | ⟨a, b, c⟩ | ⟨a, b, c⟩ | ⟨a, b, c⟩
            · exact Or.inl ⟨a, by omega, c⟩
            · exact Or.inr (Or.inl ⟨a, by omega, c⟩)
            · exact Or.inr (Or.inr (Or.inl ⟨a, by omega, c⟩))
            · exact Or.inr (Or.inr (Or.inr ⟨a, by omega, c⟩))

/-- Item 1, for an arbitrary start state: the returned vector is the pure iterate. -/
theorem computeLoop_returns_iterate (fuel : Nat) (s0 s : LoopState α) (by_ : EndedBy)
    (h : computeLoop ct ap q e minI freq maxI flatTail nl fuel s0 = (s, by_)) :
    s0.iter ≤ s.iter ∧ s.iter - s0.iter ≤ fuel ∧
      s.t1 = (stepEntries ct ap q)^[s.iter - s0.iter] s0.t1 := by
  obtain ⟨K, hK, _, hend⟩ := computeLoop_char ct ap q e minI freq maxI flatTail nl fuel s0 s by_ h
  have hs : s.iter = s0.iter + K ∧ s.t1 = (stepEntries ct ap q)^[K] s0.t1 := by
    rcases hend with ⟨_, _, rfl⟩ | ⟨_, _, _, rfl⟩ | ⟨_, _, _, _, rfl⟩ | ⟨_, _, _, _, _, rfl⟩ <;>
      simp [advance_pow_iter, advance_pow_t1]
  have : s.iter - s0.iter = K := by omega
  rw [this]
  exact ⟨by omega, hK, hs.2⟩

/-- Fuel monotonicity: a run that ended for a reason other than the fuel is the same for every
    larger fuel (this is the meaning of "`maxIterations = 0` is unlimited": `maxI = none`). -/
theorem computeLoop_fuel_mono (fuel : Nat) :
    ∀ (s0 s : LoopState α) (by_ : EndedBy),
      computeLoop ct ap q e minI freq maxI flatTail nl fuel s0 = (s, by_) →
      by_ ≠ .outOfFuel → ∀ fuel', fuel ≤ fuel' →
      computeLoop ct ap q e minI freq maxI flatTail nl fuel' s0 = (s, by_) := by
  induction fuel with
  | zero =>
    intro s0 s by_ h hne
    rw [computeLoop_zero] at h
    obtain ⟨_, rfl⟩ := Prod.mk.inj h
    exact absurd rfl hne
  | succ fuel ih =>
    intro s0 s by_ h hne fuel' hle
    obtain ⟨f', rfl⟩ : ∃ f', fuel' = f' + 1 := ⟨fuel' - 1, by omega⟩
    rw [computeLoop_succ] at h ⊢
    split
    · rename_i h1; rw [if_pos h1] at h; exact h
    · rename_i h1; rw [if_neg h1] at h
      split
      · rename_i h2; rw [if_pos h2] at h; exact h
      · rename_i h2; rw [if_neg h2] at h
        split
        · rename_i h3; rw [if_pos h3] at h; exact h
        · rename_i h3; rw [if_neg h3] at h
          exact ih _ s by_ h hne f' (by omega)

/-! ### the state after `k` iterations, in closed form -/

/-- the loop state at the top of iteration `k` when nothing ended the loop before -/
def stateAt (t0 : List (Entry α)) (k : Nat) : LoopState α :=
  (advance ct ap q minI freq nl)^[k] (initState t0)

theorem stateAt_zero (t0 : List (Entry α)) : stateAt ct ap q minI freq nl t0 0 = initState t0 := rfl

theorem stateAt_succ (t0 : List (Entry α)) (k : Nat) :
    stateAt ct ap q minI freq nl t0 (k + 1) =
      advance ct ap q minI freq nl (stateAt ct ap q minI freq nl t0 k) :=
  Function.iterate_succ_apply' _ _ _

@[simp] theorem stateAt_iter (t0 : List (Entry α)) (k : Nat) :
    (stateAt ct ap q minI freq nl t0 k).iter = k := by
  unfold stateAt; rw [advance_pow_iter]; simp [initState]

@[simp] theorem stateAt_t1 (t0 : List (Entry α)) (k : Nat) :
    (stateAt ct ap q minI freq nl t0 k).t1 = iterate ct ap q k t0 := by
  unfold stateAt; rw [advance_pow_t1]; rfl

theorem checkedState_checks (s : LoopState α) :
    (checkedState minI freq nl s).checks =
      if isCheck minI freq s.iter then s.iter :: s.checks else s.checks := by
  unfold checkedState; split <;> rfl

theorem checkedState_conv (s : LoopState α) :
    (checkedState minI freq nl s).conv =
      if isCheck minI freq s.iter then s.conv.update s.t1 else s.conv := by
  unfold checkedState; split <;> rfl

theorem checkedState_stats (s : LoopState α) :
    (checkedState minI freq nl s).stats =
      if isCheck minI freq s.iter then
        s.stats.update (rankOf s.t1 nl) (s.conv.update s.t1).dsq else s.stats := by
  unfold checkedState; split <;> rfl

theorem stateAt_checks (t0 : List (Entry α)) (k : Nat) :
    (stateAt ct ap q minI freq nl t0 k).checks = sched minI freq k := by
  induction k with
  | zero => rfl
  | succ k ih => rw [stateAt_succ, advance_checks, checkedState_checks, stateAt_iter, ih, sched_succ]

theorem checked_checks (t0 : List (Entry α)) (k : Nat) :
    (checkedState minI freq nl (stateAt ct ap q minI freq nl t0 k)).checks
      = sched minI freq (k + 1) := by
  rw [checkedState_checks, stateAt_iter, stateAt_checks, sched_succ]

theorem stateAt_conv_t (t0 : List (Entry α)) (k : Nat) :
    (stateAt ct ap q minI freq nl t0 k).conv.t = iterate ct ap q (lastChk minI freq k) t0 := by
  induction k with
  | zero => rfl
  | succ k ih =>
    rw [stateAt_succ, advance_conv, checkedState_conv, stateAt_iter, lastChk_succ]
    split
    · simp [ConvChecker.update]
    · exact ih

/-- squared delta computed at a check at iteration `k`: between the `k`-th iterate and the
    iterate of the previous check (the initial vector for the first check). -/
def dsqAt (t0 : List (Entry α)) (k : Nat) : α :=
  deltaSq (iterate ct ap q k t0) (iterate ct ap q (lastChk minI freq k) t0)

theorem checked_dsq (t0 : List (Entry α)) (k : Nat) (hk : isCheck minI freq k = true) :
    (checkedState minI freq nl (stateAt ct ap q minI freq nl t0 k)).conv.dsq
      = dsqAt ct ap q minI freq t0 k := by
  rw [checkedState_conv, stateAt_iter, if_pos hk]
  simp [ConvChecker.update, stateAt_conv_t, dsqAt, deltaSq]

/-- the observation fed to the flat-tail checker at a check at iteration `k` -/
def obsAt (t0 : List (Entry α)) (k : Nat) : List Nat × α :=
  (rankOf (iterate ct ap q k t0) nl, dsqAt ct ap q minI freq t0 k)

/-- flat-tail statistics after all scheduled checks `< k` -/
def statsBefore (t0 : List (Entry α)) (k : Nat) : FlatTailStats α :=
  ftFold ((sched minI freq k).reverse.map (obsAt ct ap q minI freq nl t0))

theorem statsBefore_succ (t0 : List (Entry α)) (k : Nat) :
    statsBefore ct ap q minI freq nl t0 (k + 1) =
      if isCheck minI freq k then
        (statsBefore ct ap q minI freq nl t0 k).update
          (rankOf (iterate ct ap q k t0) nl) (dsqAt ct ap q minI freq t0 k)
      else statsBefore ct ap q minI freq nl t0 k := by
  unfold statsBefore
  rw [sched_succ]
  split
  · rw [List.reverse_cons, List.map_append, List.map_singleton, ftFold_snoc]; rfl
  · rfl

theorem stateAt_stats (t0 : List (Entry α)) (k : Nat) :
    (stateAt ct ap q minI freq nl t0 k).stats = statsBefore ct ap q minI freq nl t0 k := by
  induction k with
  | zero => rfl
  | succ k ih =>
    rw [stateAt_succ, advance_stats, checkedState_stats, stateAt_iter, statsBefore_succ, ih]
    split
    · rename_i hk
      have := checked_dsq ct ap q minI freq nl t0 k hk
      rw [checkedState_conv, stateAt_iter, if_pos hk] at this
      rw [this, stateAt_t1]
    · rfl

theorem checked_stats (t0 : List (Entry α)) (k : Nat) :
    (checkedState minI freq nl (stateAt ct ap q minI freq nl t0 k)).stats
      = statsBefore ct ap q minI freq nl t0 (k + 1) := by
  have := stateAt_stats ct ap q minI freq nl t0 (k + 1)
  rw [stateAt_succ, advance_stats] at this
  exact this

/-! ### verdicts in closed form -/

/-- the delta of a check at iteration `k` is not finite -/
def nonFiniteAt (t0 : List (Entry α)) (k : Nat) : Bool := nonFinite (dsqAt ct ap q minI freq t0 k)

/-- `Converged()` at a check at iteration `k`: `sqrt dsq ≤ e` -/
def convergedAt (t0 : List (Entry α)) (k : Nat) : Bool := sqrtLe (dsqAt ct ap q minI freq t0 k) e

/-- `Reached()` at a check at iteration `k`: the statistics *including* this check have
    `length ≥ flatTail` -/
def flatAt (t0 : List (Entry α)) (k : Nat) : Bool :=
  decide ((statsBefore ct ap q minI freq nl t0 (k + 1)).length ≥ flatTail)

/-- a scheduled check at iteration `k` ends the loop -/
def stopAt (t0 : List (Entry α)) (k : Nat) : Bool :=
  isCheck minI freq k &&
    (nonFiniteAt ct ap q minI freq t0 k ||
      (convergedAt ct ap q e minI freq t0 k && flatAt ct ap q minI freq flatTail nl t0 k))

theorem stopNF_stateAt (t0 : List (Entry α)) (k : Nat) :
    stopNF minI freq nl (stateAt ct ap q minI freq nl t0 k) =
      (isCheck minI freq k && nonFiniteAt ct ap q minI freq t0 k) := by
  unfold stopNF nonFiniteAt
  rw [stateAt_iter]
  cases hk : isCheck minI freq k with
  | false => rfl
  | true => rw [checked_dsq _ _ _ _ _ _ _ _ hk]

theorem stopOK_stateAt (t0 : List (Entry α)) (k : Nat) :
    stopOK e minI freq flatTail nl (stateAt ct ap q minI freq nl t0 k) =
      (isCheck minI freq k && convergedAt ct ap q e minI freq t0 k
        && flatAt ct ap q minI freq flatTail nl t0 k) := by
  unfold stopOK convergedAt flatAt
  rw [stateAt_iter, checked_stats]
  cases hk : isCheck minI freq k with
  | false => rfl
  | true => rw [checked_dsq _ _ _ _ _ _ _ _ hk]

theorem stopAt_false_iff (t0 : List (Entry α)) (k : Nat) :
    stopAt ct ap q e minI freq flatTail nl t0 k = false ↔
      stopNF minI freq nl (stateAt ct ap q minI freq nl t0 k) = false ∧
      stopOK e minI freq flatTail nl (stateAt ct ap q minI freq nl t0 k) = false := by
  rw [stopNF_stateAt, stopOK_stateAt]
  unfold stopAt
  cases isCheck minI freq k <;> cases nonFiniteAt ct ap q minI freq t0 k <;>
    cases convergedAt ct ap q e minI freq t0 k <;>
    cases flatAt ct ap q minI freq flatTail nl t0 k <;> simp

end loop

end EtVerif
