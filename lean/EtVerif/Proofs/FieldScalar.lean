/-
  The proof instance of `Scalar`: any linearly ordered field.  All algebraic theorems about the
  model are proved for this instance (hence for ℚ and ℝ at once).
-/
import EtVerif.Model.Sparse
import Mathlib.Algebra.Order.Field.Basic
import Mathlib.Tactic.Ring
import Mathlib.Tactic.Linarith

namespace EtVerif

variable {K : Type} [Field K] [LinearOrder K]

/-- exact arithmetic in an ordered field -/
instance fieldScalar : Scalar K where
  zero := 0
  one := 1
  add := (· + ·)
  sub := (· - ·)
  mul := (· * ·)
  div := (· / ·)
  neg := fun x => -x
  abs := fun x => |x|
  lt := fun x y => decide (x < y)
  le := fun x y => decide (x ≤ y)
  eq := fun x y => decide (x = y)
  ofNat := fun n => (n : K)
  sqrtLe := fun x e => decide (x ≤ e * e)

section simp
variable (x y : K)
@[simp] theorem s_zero : (Scalar.zero : K) = 0 := rfl
@[simp] theorem s_one : (Scalar.one : K) = 1 := rfl
@[simp] theorem s_add : Scalar.add x y = x + y := rfl
@[simp] theorem s_sub : Scalar.sub x y = x - y := rfl
@[simp] theorem s_mul : Scalar.mul x y = x * y := rfl
@[simp] theorem s_div : Scalar.div x y = x / y := rfl
@[simp] theorem s_neg : Scalar.neg x = -x := rfl
@[simp] theorem s_abs : Scalar.abs x = |x| := rfl
@[simp] theorem s_lt : Scalar.lt x y = decide (x < y) := rfl
@[simp] theorem s_le : Scalar.le x y = decide (x ≤ y) := rfl
@[simp] theorem s_eq : Scalar.eq x y = decide (x = y) := rfl
@[simp] theorem s_ofNat (n : Nat) : (Scalar.ofNat n : K) = (n : K) := rfl
@[simp] theorem s_isZero : Scalar.isZero x = decide (x = 0) := rfl
@[simp] theorem s_sqrtLe : Scalar.sqrtLe x y = decide (x ≤ y * y) := rfl
end simp

end EtVerif
