/-
  Helper lemmas for the CSV / CLI / playground front-ends (Model/Frontends.lean) and for the
  panic guards of all front-ends (C15).  Everything here is structural and is stated for an
  arbitrary `Scalar α`.
-/
import EtVerif.Model.Frontends
import EtVerif.Model.Grpc
import EtVerif.Props.C05
import EtVerif.Proofs.Vec
import EtVerif.Proofs.Matrix    -- also shares the auxiliary lemmas `fun_induction mergeRows/mergeSpan` generate
import EtVerif.Proofs.Distrust  -- likewise for `discountLoop`
import Mathlib.Data.List.Basic
import Mathlib.Data.List.Forall2
import Mathlib.Data.List.TakeWhile

namespace EtVerif.FeL
open EtVerif EtVerif.Fe Scalar

variable {α : Type} [Scalar α]

set_option linter.unusedSectionVars false

/-! ### generic list facts -/

/-- `List.mapM` in `Option` succeeds iff every element is mapped, pointwise. -/
theorem mapM_eq_some_iff {β γ : Type} (f : β → Option γ) (l : List β) (l' : List γ) :
    l.mapM f = some l' ↔ List.Forall₂ (fun a b => f a = some b) l l' := by
  induction l generalizing l' with
  | nil =>
    simp only [List.mapM_nil, List.forall₂_nil_left_iff]
    constructor
    · intro h; cases h; rfl
    · intro h; rw [h]; rfl
  | cons a l ih =>
    rw [List.mapM_cons]
    cases ha : f a with
    | none =>
      simp only [Option.bind_eq_bind, Option.bind_none, reduceCtorEq, false_iff]
      intro h
      cases h with
      | cons h1 _ => rw [ha] at h1; cases h1
    | some b =>
      cases hl : l.mapM f with
      | none =>
        simp only [Option.bind_eq_bind, Option.bind_some, Option.bind_none, reduceCtorEq,
          false_iff]
        intro h
        cases h with
        | cons h1 h2 =>
          have := (ih _).mpr h2
          rw [hl] at this; cases this
      | some bs =>
        simp only [Option.bind_eq_bind, Option.bind_some, Option.pure_def, Option.some.injEq]
        constructor
        · intro h
          subst h
          exact List.Forall₂.cons ha ((ih _).mp hl)
        · intro h
          cases h with
          | cons h1 h2 =>
            rw [ha] at h1
            cases h1
            have := (ih _).mpr h2
            rw [hl] at this
            cases this
            rfl

theorem mapM_eq_none_iff {β γ : Type} (f : β → Option γ) (l : List β) :
    l.mapM f = none ↔ ∃ a ∈ l, f a = none := by
  induction l with
  | nil => simp
  | cons a l ih =>
    rw [List.mapM_cons]
    cases ha : f a with
    | none => simp [ha]
    | some b =>
      cases hl : l.mapM f with
      | none =>
        obtain ⟨x, hx, hx'⟩ := ih.mp hl
        simp only [Option.bind_eq_bind, Option.bind_some, Option.bind_none, List.mem_cons,
          true_iff]
        exact ⟨x, Or.inr hx, hx'⟩
      | some bs =>
        simp only [Option.bind_eq_bind, Option.bind_some, Option.pure_def, reduceCtorEq,
          List.mem_cons, false_iff]
        rintro ⟨x, rfl | hx, hx'⟩
        · rw [ha] at hx'; cases hx'
        · have := ih.mpr ⟨x, hx, hx'⟩
          rw [hl] at this; cases this

/-- running maximum: lower bound from the start value -/
theorem foldl_max_ge_init {γ : Type} (f : γ → Nat) (l : List γ) (a : Nat) :
    a ≤ l.foldl (fun d e => max d (f e)) a := by
  induction l generalizing a with
  | nil => exact Nat.le_refl _
  | cons x l ih => exact Nat.le_trans (Nat.le_max_left _ _) (ih _)

theorem foldl_max_ge_mem {γ : Type} (f : γ → Nat) (l : List γ) (a : Nat) {x : γ} (hx : x ∈ l) :
    f x ≤ l.foldl (fun d e => max d (f e)) a := by
  induction l generalizing a with
  | nil => cases hx
  | cons y l ih =>
    rcases List.mem_cons.mp hx with rfl | hx
    · exact Nat.le_trans (Nat.le_max_right _ _) (foldl_max_ge_init f l _)
    · exact ih _ hx

/-- running maximum is attained: by the start value or by an element -/
theorem foldl_max_attained {γ : Type} (f : γ → Nat) (l : List γ) (a : Nat) :
    l.foldl (fun d e => max d (f e)) a = a ∨ ∃ x ∈ l, l.foldl (fun d e => max d (f e)) a = f x := by
  induction l generalizing a with
  | nil => left; rfl
  | cons y l ih =>
    rcases ih (max a (f y)) with h | ⟨x, hx, h⟩
    · rw [List.foldl_cons, h]
      rcases Nat.le_total a (f y) with h1 | h1
      · right; exact ⟨y, by simp, Nat.max_eq_right h1⟩
      · left; exact Nat.max_eq_left h1
    · right; exact ⟨x, by simp [hx], h⟩

/-! ### first-appearance order and the CLI name table -/

/-- one step of the name table: append the name unless it is already present -/
def faStep (acc : List String) (n : String) : List String := if n ∈ acc then acc else acc ++ [n]

/-- the table after seeing `names`, starting from `tbl` -/
def faFrom (tbl : List String) (names : List String) : List String := names.foldl faStep tbl

/-- duplicates removed, first occurrences kept -/
def firstAppearance (names : List String) : List String := faFrom [] names

@[simp] theorem faFrom_nil (tbl : List String) : faFrom tbl [] = tbl := rfl
@[simp] theorem faFrom_cons (tbl : List String) (n : String) (ns : List String) :
    faFrom tbl (n :: ns) = faFrom (faStep tbl n) ns := rfl

theorem faFrom_append (tbl a b : List String) : faFrom tbl (a ++ b) = faFrom (faFrom tbl a) b := by
  unfold faFrom; rw [List.foldl_append]

theorem faStep_prefix (acc : List String) (n : String) : acc <+: faStep acc n := by
  unfold faStep; split
  · exact List.prefix_refl _
  · exact List.prefix_append _ _

theorem mem_faStep {acc : List String} {n x : String} : x ∈ faStep acc n ↔ x ∈ acc ∨ x = n := by
  unfold faStep; split
  · rename_i h
    constructor
    · exact Or.inl
    · rintro (h' | rfl)
      · exact h'
      · exact h
  · simp

theorem faStep_nodup {acc : List String} (h : acc.Nodup) (n : String) : (faStep acc n).Nodup := by
  unfold faStep; split
  · exact h
  · rename_i hn
    rw [List.nodup_append]
    refine ⟨h, List.nodup_singleton _, ?_⟩
    intro a ha b hb
    rw [List.mem_singleton] at hb
    subst hb
    rintro rfl
    exact hn ha

theorem faFrom_prefix (tbl names : List String) : tbl <+: faFrom tbl names := by
  induction names generalizing tbl with
  | nil => exact List.prefix_refl _
  | cons n ns ih => exact (faStep_prefix tbl n).trans (ih _)

theorem mem_faFrom {tbl names : List String} {x : String} :
    x ∈ faFrom tbl names ↔ x ∈ tbl ∨ x ∈ names := by
  induction names generalizing tbl with
  | nil => simp
  | cons n ns ih =>
    rw [faFrom_cons, ih, mem_faStep, List.mem_cons]
    constructor
    · rintro ((h | h) | h)
      · exact Or.inl h
      · exact Or.inr (Or.inl h)
      · exact Or.inr (Or.inr h)
    · rintro (h | h | h)
      · exact Or.inl (Or.inl h)
      · exact Or.inl (Or.inr h)
      · exact Or.inr h

theorem faFrom_nodup {tbl : List String} (h : tbl.Nodup) (names : List String) :
    (faFrom tbl names).Nodup := by
  induction names generalizing tbl with
  | nil => exact h
  | cons n ns ih => exact ih (faStep_nodup h n)

/-- on a duplicate-free continuation nothing is dropped -/
theorem faFrom_of_nodup (acc l : List String) (h : (acc ++ l).Nodup) : faFrom acc l = acc ++ l := by
  induction l generalizing acc with
  | nil => simp
  | cons x l ih =>
    have hx : x ∉ acc := by
      intro hx
      rw [List.nodup_append] at h
      exact h.2.2 x hx x (by simp) rfl
    have : faStep acc x = acc ++ [x] := by unfold faStep; rw [if_neg hx]
    rw [faFrom_cons, this, ih _ (by simpa using h)]
    simp

/-- continuing from a duplicate-free table = first appearance of the concatenated stream -/
theorem faFrom_eq_firstAppearance {tbl : List String} (h : tbl.Nodup) (names : List String) :
    faFrom tbl names = firstAppearance (tbl ++ names) := by
  unfold firstAppearance
  rw [faFrom_append, faFrom_of_nodup [] tbl (by simpa using h)]
  simp

theorem firstAppearance_nodup (l : List String) : (firstAppearance l).Nodup :=
  faFrom_nodup List.nodup_nil l

theorem mem_firstAppearance {l : List String} {x : String} : x ∈ firstAppearance l ↔ x ∈ l := by
  unfold firstAppearance; rw [mem_faFrom]; simp

theorem firstAppearance_append_singleton (l : List String) (x : String) :
    firstAppearance (l ++ [x]) = faStep (firstAppearance l) x := by
  unfold firstAppearance; rw [faFrom_append]; rfl

/-- the surviving names are ordered by their first position in the stream -/
theorem firstAppearance_ordered (l : List String) :
    (firstAppearance l).Pairwise (fun a b => l.idxOf a < l.idxOf b) := by
  induction l using List.reverseRecOn with
  | nil => exact List.Pairwise.nil
  | append_singleton l x ih =>
    rw [firstAppearance_append_singleton]
    have hmono : (firstAppearance l).Pairwise
        (fun a b => (l ++ [x]).idxOf a < (l ++ [x]).idxOf b) := by
      refine List.Pairwise.imp_of_mem ?_ ih
      intro a b ha hb hab
      rw [List.idxOf_append_of_mem (mem_firstAppearance.mp ha),
        List.idxOf_append_of_mem (mem_firstAppearance.mp hb)]
      exact hab
    unfold faStep
    split
    · exact hmono
    · rename_i hx
      rw [List.pairwise_append]
      refine ⟨hmono, List.pairwise_singleton _ _, ?_⟩
      intro a ha b hb
      rw [List.mem_singleton] at hb
      subst hb
      have hbl : b ∉ l := fun h => hx (mem_firstAppearance.mpr h)
      have hal := mem_firstAppearance.mp ha
      rw [List.idxOf_append_of_mem hal, List.idxOf_append_of_notMem hbl]
      have := List.idxOf_lt_length_of_mem hal
      simp
      omega

/-- the position of a present name does not change when the table is extended -/
theorem idxOf_of_prefix {l1 l2 : List String} (hp : l1 <+: l2) {a : String} (ha : a ∈ l1) :
    l2.idxOf a = l1.idxOf a := by
  obtain ⟨t, rfl⟩ := hp
  exact List.idxOf_append_of_mem ha

theorem getElem?_of_prefix {l1 l2 : List String} (hp : l1 <+: l2) {i : Nat} (hi : i < l1.length) :
    l2[i]? = l1[i]? := by
  obtain ⟨t, rfl⟩ := hp
  rw [List.getElem?_append_left hi]

/-- `getPeerIndex` in name mode: the index is the position in the extended table -/
theorem getPeerIndex_name (tbl : NameTable) (f : Fe.Field α) :
    getPeerIndex false tbl f =
      some ((((faStep tbl f.raw).idxOf f.raw : Nat) : Int), faStep tbl f.raw) := by
  unfold getPeerIndex faStep
  simp only [Bool.false_eq_true, if_false]
  by_cases h : f.raw ∈ tbl
  · rw [if_pos (List.idxOf_lt_length_iff.mpr h), if_pos h]
  · rw [if_neg (fun hh => h (List.idxOf_lt_length_iff.mp hh)), if_neg h,
      List.idxOf_append_of_notMem h]
    simp

theorem getPeerIndex_raw (tbl : NameTable) (f : Fe.Field α) :
    getPeerIndex true tbl f = f.parseInt0.map fun i => (i, tbl) := by
  unfold getPeerIndex; simp

/-- `getPeerIndex` over a sequence of fields, threading the table -/
def indexAll (raw : Bool) : NameTable → List (Fe.Field α) → Option (List Int × NameTable)
  | tbl, [] => some ([], tbl)
  | tbl, f :: fs =>
    match getPeerIndex raw tbl f with
    | none => none
    | some (i, tbl1) =>
      match indexAll raw tbl1 fs with
      | none => none
      | some (is, t) => some (i :: is, t)

theorem indexAll_name (tbl : NameTable) (fs : List (Fe.Field α)) :
    indexAll false tbl fs =
      some (fs.map (fun f => (((faFrom tbl (fs.map (·.raw))).idxOf f.raw : Nat) : Int)),
        faFrom tbl (fs.map (·.raw))) := by
  induction fs generalizing tbl with
  | nil => rfl
  | cons f fs ih =>
    rw [indexAll, getPeerIndex_name]
    simp only
    rw [ih]
    simp only [List.map_cons, faFrom_cons, Option.some.injEq, Prod.mk.injEq, List.cons.injEq,
      and_true, Int.natCast_inj]
    exact (idxOf_of_prefix (faFrom_prefix _ _) (mem_faStep.mpr (Or.inr rfl))).symm

/-! ### the CLI CSV loaders -/

/-- the data records of a CSV file: the first record is skipped when a header is expected -/
def dataRecs (hasHeader : Bool) (recs : List (Record α)) : List (Record α) :=
  if hasHeader then recs.drop 1 else recs

/-- the table after looking up `names` (unchanged in raw mode) -/
def tblAfter (raw : Bool) (tbl : NameTable) (names : List String) : NameTable :=
  if raw then tbl else faFrom tbl names

/-- names looked up by a local-trust file: `from`, `to` of each data record, in order -/
def mNames (recs : List (Record α)) : List String :=
  recs.flatMap fun r => (r.take 2).map (·.raw)

/-- names looked up by a trust-vector file: the first field of each data record -/
def vNames (recs : List (Record α)) : List String :=
  recs.flatMap fun r => (r.take 1).map (·.raw)

/-- `i` is the index the CLI uses for field `f` (relative to the final name table `tbl`):
    raw mode — the `ParseInt(s,0,0)` value, which must be non-negative;
    name mode — the position of the name in the table. -/
def IdxOf (raw : Bool) (tbl : NameTable) (f : Fe.Field α) (i : Int) : Prop :=
  if raw then f.parseInt0 = some i ∧ 0 ≤ i
  else f.raw ∈ tbl ∧ i = ((tbl.idxOf f.raw : Nat) : Int)

/-- record `r` of a local-trust CSV yields the inline entry `e` -/
def MRel (raw : Bool) (tbl : NameTable) (r : Record α) (e : Int × Int × α) : Prop :=
  ∃ f0 f1 rest, r = f0 :: f1 :: rest ∧ IdxOf raw tbl f0 e.1 ∧ IdxOf raw tbl f1 e.2.1 ∧
    ((rest = [] ∧ e.2.2 = one) ∨ ∃ f2, rest = [f2] ∧ f2.float = some e.2.2)

/-- record `r` of a trust-vector CSV yields the inline entry `e` -/
def VRel (raw : Bool) (tbl : NameTable) (r : Record α) (e : Int × α) : Prop :=
  ∃ f0 rest, r = f0 :: rest ∧ IdxOf raw tbl f0 e.1 ∧ lt e.2 zero = false ∧
    ((rest = [] ∧ e.2 = one) ∨ ∃ f1, rest = [f1] ∧ f1.float = some e.2)

theorem tblAfter_prefix (raw : Bool) (tbl : NameTable) (names : List String) :
    tbl <+: tblAfter raw tbl names := by
  unfold tblAfter; split
  · exact List.prefix_refl _
  · exact faFrom_prefix _ _

theorem tblAfter_nil (raw : Bool) (tbl : NameTable) : tblAfter raw tbl [] = tbl := by
  unfold tblAfter; split <;> rfl

theorem tblAfter_append (raw : Bool) (tbl : NameTable) (a b : List String) :
    tblAfter raw tbl (a ++ b) = tblAfter raw (tblAfter raw tbl a) b := by
  unfold tblAfter; cases raw
  · simp [faFrom_append]
  · simp

theorem IdxOf.mono {raw : Bool} {t1 t2 : NameTable} {f : Fe.Field α} {i : Int}
    (h : IdxOf raw t1 f i) (hp : t1 <+: t2) : IdxOf raw t2 f i := by
  unfold IdxOf at h ⊢
  cases raw
  · simp only [Bool.false_eq_true, if_false] at h ⊢
    exact ⟨hp.subset h.1, by rw [idxOf_of_prefix hp h.1]; exact h.2⟩
  · exact h

/-- one `getPeerIndex` call that returned a non-negative index -/
theorem getPeerIndex_spec {raw : Bool} {tbl tbl1 : NameTable} {f : Fe.Field α} {i : Int}
    (h : getPeerIndex raw tbl f = some (i, tbl1)) (hi : ¬ i < 0) :
    tbl1 = tblAfter raw tbl [f.raw] ∧ IdxOf raw tbl1 f i := by
  cases raw
  · rw [getPeerIndex_name] at h
    simp only [Option.some.injEq, Prod.mk.injEq] at h
    obtain ⟨h1, h2⟩ := h
    subst h2
    refine ⟨rfl, ?_⟩
    unfold IdxOf
    simp only [Bool.false_eq_true, if_false]
    exact ⟨mem_faStep.mpr (Or.inr rfl), h1.symm⟩
  · rw [getPeerIndex_raw] at h
    cases hp : f.parseInt0 with
    | none => rw [hp] at h; cases h
    | some j =>
      rw [hp] at h
      simp only [Option.map_some, Option.some.injEq, Prod.mk.injEq] at h
      obtain ⟨h1, h2⟩ := h
      subst h1 h2
      refine ⟨rfl, ?_⟩
      unfold IdxOf
      simp only [if_true]
      exact ⟨hp, by omega⟩

theorem dataRecs_cons_true (r : Record α) (rs : List (Record α)) : dataRecs true (r :: rs) = rs := rfl
theorem dataRecs_false (rs : List (Record α)) : dataRecs false rs = rs := rfl

theorem mNames_cons2 (f0 f1 : Fe.Field α) (rest : Record α) (rs : List (Record α)) :
    mNames ((f0 :: f1 :: rest) :: rs) = [f0.raw] ++ ([f1.raw] ++ mNames rs) := by
  simp [mNames]

theorem vNames_cons1 (f0 : Fe.Field α) (rest : Record α) (rs : List (Record α)) :
    vNames ((f0 :: rest) :: rs) = [f0.raw] ++ vNames rs := by
  simp [vNames]

/-- everything a successful run of the matrix loader loop implies -/
theorem loadM_go_spec (raw : Bool) (recs : List (Record α)) (skip : Bool) (tbl : NameTable)
    (size : Int) (acc : List (Int × Int × α)) (m : Oapi.IMatrix α) (tbl' : NameTable)
    (h : cliLoadMatrix.go raw recs skip tbl size acc = some (m, tbl')) :
    (∀ r ∈ recs, 2 ≤ r.length ∧ r.length ≤ 3) ∧
    tbl' = tblAfter raw tbl (mNames (dataRecs skip recs)) ∧
    ∃ es, List.Forall₂ (MRel raw tbl') (dataRecs skip recs) es ∧ m.entries = acc.reverse ++ es ∧
      m.size = es.foldl (fun s e => max s (max (e.1 + 1) (e.2.1 + 1))) size ∧ m.size ≠ 0 := by
  induction recs generalizing skip tbl size acc with
  | nil =>
    unfold cliLoadMatrix.go at h
    split at h
    · cases h
    · rename_i hs
      simp only [Option.some.injEq, Prod.mk.injEq] at h
      obtain ⟨h1, h2⟩ := h
      subst h1 h2
      refine ⟨by simp, ?_, [], ?_, by simp, rfl, hs⟩
      · cases skip <;> simp [dataRecs, mNames, tblAfter_nil]
      · cases skip <;> exact List.Forall₂.nil
  | cons r rs ih =>
    unfold cliLoadMatrix.go at h
    split at h
    · cases h
    · rename_i hlen
      have hlen' : 2 ≤ r.length ∧ r.length ≤ 3 := by
        simp only [Bool.or_eq_true, decide_eq_true_eq, not_or] at hlen; omega
      split at h
      · -- header record
        rename_i hskip
        subst hskip
        obtain ⟨a, b, c⟩ := ih false tbl size acc h
        refine ⟨?_, ?_, ?_⟩
        · intro x hx
          rcases List.mem_cons.mp hx with rfl | hx
          · exact hlen'
          · exact a x hx
        · rw [dataRecs_cons_true]; rw [dataRecs_false] at b; exact b
        · rw [dataRecs_cons_true]; rw [dataRecs_false] at c; exact c
      · rename_i hskip
        have hskip : skip = false := by simpa using hskip
        subst hskip
        split at h
        · rename_i f0 f1 rest
          split at h
          · cases h
          · rename_i from_ tbl1 hg0
            split at h
            · cases h
            · rename_i hneg0
              split at h
              · cases h
              · rename_i to_ tbl2 hg1
                split at h
                · cases h
                · rename_i hneg1
                  have key : ∃ v, ((rest = [] ∧ v = one) ∨ ∃ f2, rest = [f2] ∧ f2.float = some v) ∧
                      cliLoadMatrix.go raw rs false tbl2 (max size (max (from_ + 1) (to_ + 1)))
                        ((from_, to_, v) :: acc) = some (m, tbl') := by
                    cases rest with
                    | nil => exact ⟨one, Or.inl ⟨rfl, rfl⟩, h⟩
                    | cons f2 rest' =>
                      have hr : rest' = [] := by
                        simp only [List.length_cons] at hlen'
                        exact List.length_eq_zero_iff.mp (by omega)
                      subst hr
                      simp only at h
                      cases hf : f2.float with
                      | none => rw [hf] at h; simp only [reduceCtorEq] at h
                      | some v =>
                        rw [hf] at h
                        exact ⟨v, Or.inr ⟨f2, rfl, hf⟩, h⟩
                  obtain ⟨v, hv, h⟩ := key
                  · obtain ⟨a, b, es, c1, c2, c3, c4⟩ := ih false tbl2 _ _ h
                    obtain ⟨e0, i0⟩ := getPeerIndex_spec hg0 hneg0
                    obtain ⟨e1, i1⟩ := getPeerIndex_spec hg1 hneg1
                    rw [dataRecs_false] at b c1
                    have htbl : tbl' = tblAfter raw tbl
                        (mNames (dataRecs false ((f0 :: f1 :: rest) :: rs))) := by
                      rw [dataRecs_false, mNames_cons2, tblAfter_append, tblAfter_append, ← e0,
                        ← e1]
                      exact b
                    have hp2 : tbl2 <+: tbl' := by rw [b]; exact tblAfter_prefix _ _ _
                    have hp1 : tbl1 <+: tbl' := by
                      refine List.IsPrefix.trans ?_ hp2
                      rw [e1]; exact tblAfter_prefix _ _ _
                    refine ⟨?_, htbl, (from_, to_, v) :: es, ?_, ?_, ?_, c4⟩
                    · intro x hx
                      rcases List.mem_cons.mp hx with rfl | hx
                      · exact hlen'
                      · exact a x hx
                    · rw [dataRecs_false]
                      refine List.Forall₂.cons ?_ c1
                      exact ⟨f0, f1, rest, rfl, i0.mono hp1, i1.mono hp2, hv⟩
                    · rw [c2]; simp
                    · rw [c3]; rfl
        · cases h

/-- everything a successful run of the vector loader loop implies -/
theorem loadV_go_spec (raw : Bool) (recs : List (Record α)) (skip : Bool) (tbl : NameTable)
    (size : Int) (acc : List (Int × α)) (m : Oapi.IVector α) (tbl' : NameTable)
    (h : cliLoadVector.go raw recs skip tbl size acc = some (m, tbl')) :
    (∀ r ∈ recs, 1 ≤ r.length ∧ r.length ≤ 2) ∧
    tbl' = tblAfter raw tbl (vNames (dataRecs skip recs)) ∧
    ∃ es, List.Forall₂ (VRel raw tbl') (dataRecs skip recs) es ∧ m.entries = acc.reverse ++ es ∧
      m.size = es.foldl (fun s e => max s (e.1 + 1)) size ∧ m.size ≠ 0 := by
  induction recs generalizing skip tbl size acc with
  | nil =>
    unfold cliLoadVector.go at h
    split at h
    · cases h
    · rename_i hs
      simp only [Option.some.injEq, Prod.mk.injEq] at h
      obtain ⟨h1, h2⟩ := h
      subst h1 h2
      refine ⟨by simp, ?_, [], ?_, by simp, rfl, hs⟩
      · cases skip <;> simp [dataRecs, vNames, tblAfter_nil]
      · cases skip <;> exact List.Forall₂.nil
  | cons r rs ih =>
    unfold cliLoadVector.go at h
    split at h
    · cases h
    · rename_i hlen
      have hlen' : 1 ≤ r.length ∧ r.length ≤ 2 := by
        simp only [Bool.or_eq_true, decide_eq_true_eq, not_or] at hlen; omega
      split at h
      · rename_i hskip
        subst hskip
        obtain ⟨a, b, c⟩ := ih false tbl size acc h
        refine ⟨?_, ?_, ?_⟩
        · intro x hx
          rcases List.mem_cons.mp hx with rfl | hx
          · exact hlen'
          · exact a x hx
        · rw [dataRecs_cons_true]; rw [dataRecs_false] at b; exact b
        · rw [dataRecs_cons_true]; rw [dataRecs_false] at c; exact c
      · rename_i hskip
        have hskip : skip = false := by simpa using hskip
        subst hskip
        split at h
        · rename_i f0 rest
          split at h
          · cases h
          · rename_i from_ tbl1 hg0
            split at h
            · cases h
            · rename_i hneg0
              have key : ∃ v, ((rest = [] ∧ v = one) ∨ ∃ f1, rest = [f1] ∧ f1.float = some v) ∧
                  lt v zero = false ∧
                  cliLoadVector.go raw rs false tbl1 (max size (from_ + 1))
                    ((from_, v) :: acc) = some (m, tbl') := by
                cases rest with
                | nil =>
                  simp only at h
                  split at h
                  · cases h
                  · rename_i hlt
                    exact ⟨one, Or.inl ⟨rfl, rfl⟩, by simpa using hlt, h⟩
                | cons f1 rest' =>
                  have hr : rest' = [] := by
                    simp only [List.length_cons] at hlen'
                    exact List.length_eq_zero_iff.mp (by omega)
                  subst hr
                  simp only at h
                  cases hf : f1.float with
                  | none => rw [hf] at h; simp only [reduceCtorEq] at h
                  | some v =>
                    rw [hf] at h
                    simp only at h
                    split at h
                    · cases h
                    · rename_i hlt
                      exact ⟨v, Or.inr ⟨f1, rfl, hf⟩, by simpa using hlt, h⟩
              obtain ⟨v, hv, hlt, h⟩ := key
              obtain ⟨a, b, es, c1, c2, c3, c4⟩ := ih false tbl1 _ _ h
              obtain ⟨e0, i0⟩ := getPeerIndex_spec hg0 hneg0
              rw [dataRecs_false] at b c1
              have htbl : tbl' = tblAfter raw tbl
                  (vNames (dataRecs false ((f0 :: rest) :: rs))) := by
                rw [dataRecs_false, vNames_cons1, tblAfter_append, ← e0]
                exact b
              have hp1 : tbl1 <+: tbl' := by rw [b]; exact tblAfter_prefix _ _ _
              refine ⟨?_, htbl, (from_, v) :: es, ?_, ?_, ?_, c4⟩
              · intro x hx
                rcases List.mem_cons.mp hx with rfl | hx
                · exact hlen'
                · exact a x hx
              · rw [dataRecs_false]
                exact List.Forall₂.cons ⟨f0, rest, rfl, i0.mono hp1, hlt, hv⟩ c1
              · rw [c2]; simp
              · rw [c3]; rfl
        · cases h

/-- the complete outcome of a successful `cliLoadMatrix` -/
theorem cliLoadMatrix_spec {raw hasHeader : Bool} {recs : List (Record α)} {tbl tbl' : NameTable}
    {m : Oapi.IMatrix α} (h : cliLoadMatrix raw hasHeader recs tbl = some (m, tbl')) :
    (∀ r ∈ recs, 2 ≤ r.length ∧ r.length ≤ 3) ∧
    tbl' = tblAfter raw tbl (mNames (dataRecs hasHeader recs)) ∧
    List.Forall₂ (MRel raw tbl') (dataRecs hasHeader recs) m.entries ∧
    m.size = m.entries.foldl (fun s e => max s (max (e.1 + 1) (e.2.1 + 1))) 0 ∧ m.size ≠ 0 := by
  obtain ⟨a, b, es, c1, c2, c3, c4⟩ := loadM_go_spec raw recs hasHeader tbl 0 [] m tbl' h
  simp only [List.reverse_nil, List.nil_append] at c2
  subst c2
  exact ⟨a, b, c1, c3, c4⟩

theorem cliLoadVector_spec {raw hasHeader : Bool} {recs : List (Record α)} {tbl tbl' : NameTable}
    {m : Oapi.IVector α} (h : cliLoadVector raw hasHeader recs tbl = some (m, tbl')) :
    (∀ r ∈ recs, 1 ≤ r.length ∧ r.length ≤ 2) ∧
    tbl' = tblAfter raw tbl (vNames (dataRecs hasHeader recs)) ∧
    List.Forall₂ (VRel raw tbl') (dataRecs hasHeader recs) m.entries ∧
    m.size = m.entries.foldl (fun s e => max s (e.1 + 1)) 0 ∧ m.size ≠ 0 := by
  obtain ⟨a, b, es, c1, c2, c3, c4⟩ := loadV_go_spec raw recs hasHeader tbl 0 [] m tbl' h
  simp only [List.reverse_nil, List.nil_append] at c2
  subst c2
  exact ⟨a, b, c1, c3, c4⟩

/-- optional vector file: the loader is run only when a file is given -/
def loadOptV (raw hasHeader : Bool) (o : Option (List (Record α))) (tbl : NameTable) :
    Option (Option (Oapi.IVector α) × NameTable) :=
  match o with
  | none => some (none, tbl)
  | some recs => (cliLoadVector raw hasHeader recs tbl).map fun (v, t) => (some v, t)

theorem cliBuildRequest_eq (raw hasHeader : Bool) (lt : List (Record α))
    (pt it : Option (List (Record α))) :
    cliBuildRequest raw hasHeader lt pt it =
      match cliLoadMatrix raw hasHeader lt [] with
      | none => none
      | some (m, t1) =>
        match loadOptV raw hasHeader pt t1 with
        | none => none
        | some (pv, t2) =>
          match loadOptV raw hasHeader it t2 with
          | none => none
          | some (iv, t3) => some ⟨m, pv, iv, t3⟩ := by
  unfold cliBuildRequest loadOptV
  cases cliLoadMatrix raw hasHeader lt [] with
  | none => rfl
  | some x =>
    obtain ⟨m, t1⟩ := x
    cases pt <;> cases it <;> rfl

theorem cliBuildRequest_inv {raw hasHeader : Bool} {lt : List (Record α)}
    {pt it : Option (List (Record α))} {req : CliRequest α}
    (h : cliBuildRequest raw hasHeader lt pt it = some req) :
    ∃ t1 t2, cliLoadMatrix raw hasHeader lt [] = some (req.localTrust, t1) ∧
      loadOptV raw hasHeader pt t1 = some (req.preTrust, t2) ∧
      loadOptV raw hasHeader it t2 = some (req.initialTrust, req.peerIds) := by
  rw [cliBuildRequest_eq] at h
  split at h
  · cases h
  · rename_i m t1 h1
    split at h
    · cases h
    · rename_i pv t2 h2
      split at h
      · cases h
      · rename_i iv t3 h3
        cases h
        exact ⟨t1, t2, h1, h2, h3⟩

theorem loadOptV_spec {raw hasHeader : Bool} {o : Option (List (Record α))} {tbl tbl' : NameTable}
    {ov : Option (Oapi.IVector α)} (h : loadOptV raw hasHeader o tbl = some (ov, tbl')) :
    (o = none ∧ ov = none ∧ tbl' = tbl) ∨
    ∃ recs v, o = some recs ∧ ov = some v ∧ cliLoadVector raw hasHeader recs tbl = some (v, tbl') := by
  unfold loadOptV at h
  cases o with
  | none =>
    simp only [Option.some.injEq, Prod.mk.injEq] at h
    exact Or.inl ⟨rfl, h.1.symm, h.2.symm⟩
  | some recs =>
    right
    simp only at h
    cases hl : cliLoadVector raw hasHeader recs tbl with
    | none => rw [hl] at h; cases h
    | some x =>
      obtain ⟨v, t⟩ := x
      rw [hl] at h
      simp only [Option.map_some, Option.some.injEq, Prod.mk.injEq] at h
      obtain ⟨h1, h2⟩ := h
      subst h1 h2
      exact ⟨recs, v, rfl, rfl, hl⟩

/-- the name stream of an optional vector file -/
def optVNames (hasHeader : Bool) (o : Option (List (Record α))) : List String :=
  match o with
  | none => []
  | some recs => vNames (dataRecs hasHeader recs)

theorem loadOptV_tbl {raw hasHeader : Bool} {o : Option (List (Record α))} {tbl tbl' : NameTable}
    {ov : Option (Oapi.IVector α)} (h : loadOptV raw hasHeader o tbl = some (ov, tbl')) :
    tbl' = tblAfter raw tbl (optVNames hasHeader o) := by
  rcases loadOptV_spec h with ⟨rfl, _, rfl⟩ | ⟨recs, v, rfl, _, hl⟩
  · exact (tblAfter_nil _ _).symm
  · exact (cliLoadVector_spec hl).2.1

/-! ### the library CSV readers -/

/-- first field of a record (`""` for an empty record) -/
def firstName : Record α → String
  | [] => ""
  | f :: _ => f.raw

/-- `ReadPeerNamesFromCsv` with an accumulator -/
theorem readPeerNames_acc (recs : List (Record α)) (acc : List String) (ns : List String) :
    readPeerNames recs acc = some ns ↔
      (∀ r ∈ recs, r ≠ []) ∧ ns = acc.reverse ++ recs.map firstName ∧
      (recs.map firstName).Nodup ∧ ∀ n ∈ recs.map firstName, n ∉ acc := by
  induction recs generalizing acc with
  | nil =>
    unfold readPeerNames
    simp only [Option.some.injEq, List.not_mem_nil, false_imp_iff, implies_true, List.map_nil,
      List.append_nil, List.nodup_nil, true_and, and_true]
    exact eq_comm
  | cons r rs ih =>
    unfold readPeerNames
    cases r with
    | nil => simp
    | cons f rest =>
      simp only [List.contains_eq_mem, decide_eq_true_eq]
      by_cases hf : f.raw ∈ acc
      · rw [if_pos hf]
        simp only [reduceCtorEq, false_iff, not_and]
        intro _ _ _ h
        exact h f.raw (by simp [firstName]) hf
      · rw [if_neg hf, ih]
        have e1 : ((f :: rest) :: rs).map firstName = f.raw :: rs.map firstName := rfl
        have e2 : (f.raw :: acc).reverse ++ rs.map firstName =
            acc.reverse ++ (f.raw :: rs.map firstName) := by simp
        rw [e1, e2, List.nodup_cons]
        constructor
        · rintro ⟨h1, h2, h3, h4⟩
          refine ⟨?_, h2, ⟨?_, h3⟩, ?_⟩
          · intro r hr
            rcases List.mem_cons.mp hr with rfl | hr
            · simp
            · exact h1 r hr
          · intro hm
            exact h4 _ hm (by simp)
          · intro n hn
            rcases List.mem_cons.mp hn with rfl | hn
            · exact hf
            · intro hna
              exact h4 n hn (by simp [hna])
        · rintro ⟨h1, h2, ⟨h3, h3'⟩, h4⟩
          refine ⟨fun r hr => h1 r (by simp [hr]), h2, h3', ?_⟩
          intro n hn hna
          rcases List.mem_cons.mp hna with rfl | hna
          · exact h3 hn
          · exact h4 n (by simp [hn]) hna

/-- the first occurrence is never later than a position holding the value -/
theorem idxOf_le_of_getElem? {l : List String} {a : String} {j : Nat} (h : l[j]? = some a) :
    l.idxOf a ≤ j := by
  induction l generalizing j with
  | nil => simp at h
  | cons b l ih =>
    by_cases hb : b = a
    · rw [List.idxOf_cons_eq _ hb]; exact Nat.zero_le _
    · cases j with
      | zero =>
        simp only [List.getElem?_cons_zero, Option.some.injEq] at h
        exact absurd h hb
      | succ j =>
        have := ih (by simpa using h)
        rw [List.idxOf_cons_ne _ hb]
        omega

/-- `ParsePeerId` by name: the first position of the name in the peer list -/
theorem parsePeerId_names (ns : List String) (f : Fe.Field α) (i : Nat) :
    parsePeerId (some ns) f = some i ↔
      i < ns.length ∧ ns[i]? = some f.raw ∧ ∀ j, j < i → ns[j]? ≠ some f.raw := by
  unfold parsePeerId
  simp only
  constructor
  · intro h
    split at h
    · rename_i hlt
      cases h
      have hmem := List.idxOf_lt_length_iff.mp hlt
      refine ⟨hlt, ?_, ?_⟩
      · rw [List.getElem?_eq_getElem hlt, List.getElem_idxOf]
      · intro j hj hj'
        have := idxOf_le_of_getElem? hj'
        omega
    · cases h
  · rintro ⟨h1, h2, h3⟩
    have hmem : f.raw ∈ ns := List.mem_of_getElem? h2
    have hlt := List.idxOf_lt_length_iff.mpr hmem
    rw [if_pos hlt]
    congr 1
    have hget : ns[List.idxOf f.raw ns]? = some f.raw := by
      rw [List.getElem?_eq_getElem hlt, List.getElem_idxOf]
    rcases Nat.lt_trichotomy (List.idxOf f.raw ns) i with hc | hc | hc
    · exact absurd hget (h3 _ hc)
    · exact hc
    · have := idxOf_le_of_getElem? h2
      omega

/-- `ParsePeerId` without a peer list: a non-negative integer literal -/
theorem parsePeerId_none (f : Fe.Field α) (i : Nat) :
    parsePeerId none f = some i ↔ ∃ z : Int, f.atoi = some z ∧ 0 ≤ z ∧ z.toNat = i := by
  unfold parsePeerId
  simp only
  cases f.atoi with
  | none => simp
  | some z =>
    simp only [Option.some.injEq, exists_eq_left']
    split
    · simp only [reduceCtorEq, false_iff, not_and]; omega
    · simp only [Option.some.injEq]; omega

/-- the per-record parser of `ReadLocalTrustFromCsv` -/
def ltParse (names : Option (List String)) : Record α → Option (Coo α) := fun r =>
  match r with
  | f0 :: f1 :: rest =>
    match parsePeerId names f0, parsePeerId names f1 with
    | some i, some j =>
      match rest with
      | [] => some ⟨i, j, one⟩
      | f2 :: _ => f2.float.map fun v => ⟨i, j, v⟩
    | _, _ => none
  | _ => none

/-- the per-record parser of `ReadTrustVectorFromCsv` -/
def tvParse (names : Option (List String)) : Record α → Option (Entry α) := fun r =>
  match r with
  | f0 :: rest =>
    match parsePeerId names f0 with
    | some i =>
      match rest with
      | [] => some ⟨i, one⟩
      | f1 :: _ => f1.float.map fun v => ⟨i, v⟩
    | none => none
  | _ => none

/-- highest index + 1 over the arcs (0 without arcs) -/
def cooDim (coos : List (Coo α)) : Nat :=
  coos.foldl (fun d e => max d (max (e.row + 1) (e.col + 1))) 0

/-- highest index + 1 over the entries (0 without entries) -/
def entDim (es : List (Entry α)) : Nat := es.foldl (fun d e => max d (e.idx + 1)) 0

theorem readLocalTrust_eq (names : Option (List String)) (recs : List (Record α)) :
    readLocalTrust names recs =
      (recs.mapM (ltParse names)).map fun coos =>
        CSM.newCSR (cooDim coos) (cooDim coos) coos false := by
  unfold readLocalTrust
  simp only
  change (match recs.mapM (ltParse names) with | none => none | some coos => _) = _
  cases recs.mapM (ltParse names) <;> rfl

theorem readTrustVector_eq (names : Option (List String)) (recs : List (Record α)) :
    readTrustVector names recs =
      (recs.mapM (tvParse names)).map fun es => Vec.new (entDim es) es := by
  unfold readTrustVector
  simp only
  change (match recs.mapM (tvParse names) with | none => none | some es => _) = _
  cases recs.mapM (tvParse names) <;> rfl

/-- record `r` of a local-trust CSV denotes the arc `c` (default level 1) -/
def ArcOf (names : Option (List String)) (r : Record α) (c : Coo α) : Prop :=
  ∃ f0 f1 rest, r = f0 :: f1 :: rest ∧ parsePeerId names f0 = some c.row ∧
    parsePeerId names f1 = some c.col ∧
    ((rest = [] ∧ c.val = one) ∨ ∃ f2 rest', rest = f2 :: rest' ∧ f2.float = some c.val)

/-- record `r` of a trust-vector CSV denotes the entry `e` (default level 1) -/
def EntOf (names : Option (List String)) (r : Record α) (e : Entry α) : Prop :=
  ∃ f0 rest, r = f0 :: rest ∧ parsePeerId names f0 = some e.idx ∧
    ((rest = [] ∧ e.val = one) ∨ ∃ f1 rest', rest = f1 :: rest' ∧ f1.float = some e.val)

theorem ltParse_eq_some_iff (names : Option (List String)) (r : Record α) (c : Coo α) :
    ltParse names r = some c ↔ ArcOf names r c := by
  obtain ⟨ci, cj, cv⟩ := c
  unfold ltParse ArcOf
  constructor
  · intro h
    split at h
    · rename_i f0 f1 rest
      split at h
      · rename_i i j h0 h1
        split at h
        · cases h
          exact ⟨f0, f1, [], rfl, h0, h1, Or.inl ⟨rfl, rfl⟩⟩
        · rename_i f2 rest'
          cases hf : f2.float with
          | none => rw [hf] at h; cases h
          | some v =>
            rw [hf] at h
            cases h
            exact ⟨f0, f1, f2 :: rest', rfl, h0, h1, Or.inr ⟨f2, rest', rfl, hf⟩⟩
      · cases h
    · cases h
  · rintro ⟨f0, f1, rest, rfl, h0, h1, h2⟩
    simp only at h0 h1 h2 ⊢
    rw [h0, h1]
    rcases h2 with ⟨rfl, rfl⟩ | ⟨f2, rest', rfl, hf⟩
    · rfl
    · simp only [hf]; rfl

theorem tvParse_eq_some_iff (names : Option (List String)) (r : Record α) (e : Entry α) :
    tvParse names r = some e ↔ EntOf names r e := by
  obtain ⟨ei, ev⟩ := e
  unfold tvParse EntOf
  constructor
  · intro h
    split at h
    · rename_i f0 rest
      split at h
      · rename_i i h0
        split at h
        · cases h
          exact ⟨f0, [], rfl, h0, Or.inl ⟨rfl, rfl⟩⟩
        · rename_i f1 rest'
          cases hf : f1.float with
          | none => rw [hf] at h; cases h
          | some v =>
            rw [hf] at h
            cases h
            exact ⟨f0, f1 :: rest', rfl, h0, Or.inr ⟨f1, rest', rfl, hf⟩⟩
      · cases h
    · cases h
  · rintro ⟨f0, rest, rfl, h0, h2⟩
    simp only at h0 h2 ⊢
    rw [h0]
    rcases h2 with ⟨rfl, rfl⟩ | ⟨f1, rest', rfl, hf⟩
    · rfl
    · simp only [hf]; rfl

/-- a record is refused by the local-trust reader exactly in these cases -/
theorem ltParse_eq_none_iff (names : Option (List String)) (r : Record α) :
    ltParse names r = none ↔
      r.length < 2 ∨ ∃ f0 f1 rest, r = f0 :: f1 :: rest ∧
        (parsePeerId names f0 = none ∨ parsePeerId names f1 = none ∨
          ∃ f2 rest', rest = f2 :: rest' ∧ f2.float = none) := by
  unfold ltParse
  cases r with
  | nil => simp
  | cons f0 r1 =>
    cases r1 with
    | nil => simp
    | cons f1 rest =>
      simp only [List.length_cons, List.cons.injEq]
      have hl : ¬ (rest.length + 1 + 1 < 2) := by omega
      simp only [hl, false_or]
      cases h0 : parsePeerId names f0 with
      | none => simp only [true_iff]; exact ⟨f0, f1, rest, ⟨rfl, rfl, rfl⟩, Or.inl h0⟩
      | some i =>
        cases h1 : parsePeerId names f1 with
        | none => simp only [true_iff]; exact ⟨f0, f1, rest, ⟨rfl, rfl, rfl⟩, Or.inr (Or.inl h1)⟩
        | some j =>
          cases rest with
          | nil =>
            simp only [reduceCtorEq, false_iff]
            rintro ⟨g0, g1, rest, ⟨rfl, rfl, rfl⟩, h | h | ⟨_, _, h, _⟩⟩
            · rw [h0] at h; cases h
            · rw [h1] at h; cases h
            · cases h
          | cons f2 rest' =>
            simp only
            constructor
            · intro h
              refine ⟨f0, f1, f2 :: rest', ⟨rfl, rfl, rfl⟩, Or.inr (Or.inr ⟨f2, rest', rfl, ?_⟩)⟩
              cases hf : f2.float with
              | none => rfl
              | some v => rw [hf] at h; cases h
            · rintro ⟨g0, g1, rest, ⟨rfl, rfl, rfl⟩, h | h | ⟨g2, _, h, hf⟩⟩
              · rw [h0] at h; cases h
              · rw [h1] at h; cases h
              · cases h
                rw [hf]; rfl

theorem tvParse_eq_none_iff (names : Option (List String)) (r : Record α) :
    tvParse names r = none ↔
      r = [] ∨ ∃ f0 rest, r = f0 :: rest ∧
        (parsePeerId names f0 = none ∨ ∃ f1 rest', rest = f1 :: rest' ∧ f1.float = none) := by
  unfold tvParse
  cases r with
  | nil => simp
  | cons f0 rest =>
    simp only [reduceCtorEq, List.cons.injEq, false_or]
    cases h0 : parsePeerId names f0 with
    | none => simp only [true_iff]; exact ⟨f0, rest, ⟨rfl, rfl⟩, Or.inl h0⟩
    | some i =>
      cases rest with
      | nil =>
        simp only [reduceCtorEq, false_iff]
        rintro ⟨g0, rest, ⟨rfl, rfl⟩, h | ⟨_, _, h, _⟩⟩
        · rw [h0] at h; cases h
        · cases h
      | cons f1 rest' =>
        simp only
        constructor
        · intro h
          refine ⟨f0, f1 :: rest', ⟨rfl, rfl⟩, Or.inr ⟨f1, rest', rfl, ?_⟩⟩
          cases hf : f1.float with
          | none => rfl
          | some v => rw [hf] at h; cases h
        · rintro ⟨g0, rest, ⟨rfl, rfl⟩, h | ⟨g1, _, h, hf⟩⟩
          · rw [h0] at h; cases h
          · cases h
            rw [hf]; rfl

theorem lt_cooDim {coos : List (Coo α)} {c : Coo α} (hc : c ∈ coos) :
    c.row < cooDim coos ∧ c.col < cooDim coos := by
  have := foldl_max_ge_mem (fun e : Coo α => max (e.row + 1) (e.col + 1)) coos 0 hc
  unfold cooDim
  omega

theorem cooDim_attained {coos : List (Coo α)} (h : coos ≠ []) :
    ∃ c ∈ coos, c.row + 1 = cooDim coos ∨ c.col + 1 = cooDim coos := by
  rcases foldl_max_attained (fun e : Coo α => max (e.row + 1) (e.col + 1)) coos 0 with h0 | ⟨x, hx, hx'⟩
  · cases coos with
    | nil => exact absurd rfl h
    | cons c cs =>
      have := foldl_max_ge_mem (fun e : Coo α => max (e.row + 1) (e.col + 1)) (c :: cs) 0
        (List.mem_cons_self)
      rw [h0] at this
      omega
  · refine ⟨x, hx, ?_⟩
    unfold cooDim
    rw [hx']
    omega

theorem lt_entDim {es : List (Entry α)} {e : Entry α} (he : e ∈ es) : e.idx < entDim es := by
  have := foldl_max_ge_mem (fun e : Entry α => e.idx + 1) es 0 he
  unfold entDim
  omega

theorem entDim_attained {es : List (Entry α)} (h : es ≠ []) :
    ∃ e ∈ es, e.idx + 1 = entDim es := by
  rcases foldl_max_attained (fun e : Entry α => e.idx + 1) es 0 with h0 | ⟨x, hx, hx'⟩
  · cases es with
    | nil => exact absurd rfl h
    | cons c cs =>
      have := foldl_max_ge_mem (fun e : Entry α => e.idx + 1) (c :: cs) 0 (List.mem_cons_self)
      rw [h0] at this
      omega
  · exact ⟨x, hx, hx'.symm⟩

/-! ### panic guards: stored column indices in range, for any `Scalar` -/

/-- all stored column indices of a row table are below `n` -/
def ColsIn (n : Nat) (rows : List (Row α)) : Prop := ∀ r ∈ rows, ∀ e ∈ r, e.idx < n

/-- the precondition of `Transpose` (and of every later resize): stored column indices are
    below the minor dimension and the invisible part of the row table holds only nil rows -/
def Guarded (m : CSM α) : Prop := ColsIn m.minor m.rows ∧ ∀ r ∈ m.hidden, r = []

/-- every stored index of a vector is below its dimension -/
def VecIn (v : Vec α) : Prop := ∀ e ∈ v.entries, e.idx < v.dim

theorem colsInRange_iff (m : CSM α) : m.colsInRange = true ↔ ColsIn m.minor m.rows := by
  unfold CSM.colsInRange ColsIn
  simp only [List.all_eq_true, decide_eq_true_eq]

theorem Guarded.colsInRange {m : CSM α} (h : Guarded m) : m.colsInRange = true :=
  (colsInRange_iff m).mpr h.1

theorem ColsIn.mono {n n' : Nat} {rows : List (Row α)} (h : ColsIn n rows) (hn : n ≤ n') :
    ColsIn n' rows := fun r hr e he => Nat.lt_of_lt_of_le (h r hr e he) hn

theorem colsIn_nil (n : Nat) : ColsIn n ([] : List (Row α)) := fun _ hr => by cases hr

theorem guarded_empty : Guarded (CSM.empty : CSM α) :=
  ⟨colsIn_nil _, fun _ hr => by cases hr⟩

theorem mem_modify {β : Type} {l : List β} {i : Nat} {f : β → β} {x : β}
    (h : x ∈ l.modify i f) : x ∈ l ∨ ∃ y ∈ l, x = f y := by
  induction l generalizing i with
  | nil => simp at h
  | cons a l ih =>
    cases i with
    | zero =>
      rw [List.modify_zero_cons] at h
      rcases List.mem_cons.mp h with rfl | h
      · exact Or.inr ⟨a, by simp, rfl⟩
      · exact Or.inl (by simp [h])
    | succ i =>
      rw [List.modify_succ_cons] at h
      rcases List.mem_cons.mp h with rfl | h
      · exact Or.inl (by simp)
      · rcases ih h with h | ⟨y, hy, rfl⟩
        · exact Or.inl (by simp [h])
        · exact Or.inr ⟨y, by simp [hy], rfl⟩

theorem insertByIdx_perm (e : Entry α) (l : List (Entry α)) : (insertByIdx e l).Perm (e :: l) := by
  induction l with
  | nil => exact List.Perm.refl _
  | cons x xs ih =>
    unfold insertByIdx
    split
    · exact List.Perm.refl _
    · exact (ih.cons x).trans (List.Perm.swap e x xs)

theorem sortByIdx_perm (l : List (Entry α)) : (sortByIdx l).Perm l := by
  induction l with
  | nil => exact List.Perm.refl _
  | cons e l ih =>
    show (insertByIdx e (sortByIdx l)).Perm (e :: l)
    exact (insertByIdx_perm e _).trans (ih.cons e)

/-- every entry stored by `NewCSRMatrix` comes from a coordinate entry that was not skipped -/
theorem mem_newCSR {rows cols : Nat} {es : List (Coo α)} {inc : Bool} {r : Row α} {x : Entry α}
    (hr : r ∈ (CSM.newCSR rows cols es inc).rows) (hx : x ∈ r) :
    ∃ c ∈ es, x = ⟨c.col, c.val⟩ := by
  unfold CSM.newCSR at hr
  simp only [List.mem_map] at hr
  obtain ⟨r0, hr0, rfl⟩ := hr
  have hx0 : x ∈ r0 := (sortByIdx_perm r0).mem_iff.mp hx
  -- invariant of the bucket pass
  have inv : ∀ (l : List (Coo α)) (t : List (Row α)),
      (∀ r ∈ t, ∀ x ∈ r, ∃ c ∈ es, x = ⟨c.col, c.val⟩) → (∀ c ∈ l, c ∈ es) →
      ∀ r ∈ l.foldl (bucketCoo inc) t, ∀ x ∈ r, ∃ c ∈ es, x = ⟨c.col, c.val⟩ := by
    intro l
    induction l with
    | nil => intro t ht _; exact ht
    | cons c l ih =>
      intro t ht hl
      rw [List.foldl_cons]
      apply ih
      · intro r hr x hx
        unfold bucketCoo at hr
        split at hr
        · exact ht r hr x hx
        · rcases mem_modify hr with hr | ⟨y, hy, rfl⟩
          · exact ht r hr x hx
          · rcases List.mem_append.mp hx with hx | hx
            · exact ht y hy x hx
            · rw [List.mem_singleton] at hx
              exact ⟨c, hl c (by simp), hx⟩
      · intro c' hc'; exact hl c' (by simp [hc'])
  refine inv es (List.replicate rows []) ?_ (fun c hc => hc) r0 hr0 x hx0
  intro r hr x hx
  rw [(List.mem_replicate.mp hr).2] at hx
  cases hx

/-- `NewCSRMatrix` with all column indices in range yields a guarded matrix -/
theorem guarded_newCSR {rows cols : Nat} {es : List (Coo α)} {inc : Bool}
    (h : ∀ c ∈ es, c.col < cols) : Guarded (CSM.newCSR rows cols es inc) := by
  refine ⟨?_, fun r hr => by cases hr⟩
  intro r hr x hx
  obtain ⟨c, hc, rfl⟩ := mem_newCSR hr hx
  exact h c hc

theorem newCSR_major (rows cols : Nat) (es : List (Coo α)) (inc : Bool) :
    (CSM.newCSR rows cols es inc).major = rows := rfl
theorem newCSR_minor (rows cols : Nat) (es : List (Coo α)) (inc : Bool) :
    (CSM.newCSR rows cols es inc).minor = cols := rfl

/-! #### resizing -/

theorem setMajorDim_major (M : CSM α) (d : Nat) : (M.setMajorDim d).major = d := by
  unfold CSM.setMajorDim; simp only; split <;> rfl

theorem setMajorDim_minor (M : CSM α) (d : Nat) : (M.setMajorDim d).minor = M.minor := by
  unfold CSM.setMajorDim; simp only; split <;> rfl

theorem guarded_setMajorDim {M : CSM α} (h : Guarded M) (d : Nat) : Guarded (M.setMajorDim d) := by
  obtain ⟨hc, hh⟩ := h
  unfold Guarded
  rw [setMajorDim_minor]
  unfold CSM.setMajorDim
  simp only
  split
  · refine ⟨?_, fun r hr => by cases hr⟩
    intro r hr x hx
    rcases List.mem_append.mp hr with hr | hr
    · exact hc r hr x hx
    · rw [(List.mem_replicate.mp hr).2] at hx; cases hx
  · refine ⟨?_, ?_⟩
    · intro r hr x hx
      rcases List.mem_append.mp (List.mem_of_mem_take hr) with hr | hr
      · exact hc r hr x hx
      · rw [hh r hr] at hx; cases hx
    · intro r hr
      simp only [List.mem_map] at hr
      obtain ⟨⟨y, k⟩, hy, rfl⟩ := hr
      simp only
      split
      · rfl
      · rename_i hlt
        have hy' := List.mk_mem_zipIdx_iff_getElem?.mp hy
        rw [List.getElem?_drop, List.getElem?_append, if_neg hlt] at hy'
        exact hh y (List.mem_iff_getElem?.mpr ⟨_, hy'⟩)

theorem setMinorDim_major (M : CSM α) (d : Nat) : (M.setMinorDim d).major = M.major := by
  unfold CSM.setMinorDim; split <;> rfl

theorem setMinorDim_minor (M : CSM α) (d : Nat) : (M.setMinorDim d).minor = d := by
  unfold CSM.setMinorDim; split <;> rfl

theorem guarded_setMinorDim {M : CSM α} (h : Guarded M) (d : Nat) : Guarded (M.setMinorDim d) := by
  obtain ⟨hc, hh⟩ := h
  unfold Guarded
  rw [setMinorDim_minor]
  unfold CSM.setMinorDim
  split
  · refine ⟨?_, hh⟩
    intro r hr x hx
    simp only [List.mem_map] at hr
    obtain ⟨r0, _, rfl⟩ := hr
    have := List.mem_takeWhile_imp hx
    simpa using this
  · rename_i hd
    exact ⟨hc.mono (by omega), hh⟩

theorem setDim_major (M : CSM α) (r c : Nat) : (M.setDim r c).major = r := by
  unfold CSM.setDim; rw [setMinorDim_major, setMajorDim_major]

theorem setDim_minor (M : CSM α) (r c : Nat) : (M.setDim r c).minor = c := by
  unfold CSM.setDim; rw [setMinorDim_minor]

theorem guarded_setDim {M : CSM α} (h : Guarded M) (r c : Nat) : Guarded (M.setDim r c) :=
  guarded_setMinorDim (guarded_setMajorDim h r) c

/-! #### merging -/

theorem mem_mergeSpan {s1 s2 : List (Entry α)} {x : Entry α} (h : x ∈ mergeSpan s1 s2) :
    x ∈ s1 ∨ x ∈ s2 := by
  fun_induction mergeSpan s1 s2 with
  | case1 s1 => exact Or.inl h
  | case2 s2 _ => exact Or.inr h
  | case3 a s1 b s2 hlt ih =>
    rcases List.mem_cons.mp h with rfl | h
    · exact Or.inl (by simp)
    · rcases ih h with h | h
      · exact Or.inl (by simp [h])
      · exact Or.inr h
  | case4 a s1 b s2 h1 h2 hz ih =>
    rcases List.mem_cons.mp h with rfl | h
    · exact Or.inr (by simp)
    · rcases ih h with h | h
      · exact Or.inl h
      · exact Or.inr (by simp [h])
  | case5 a s1 b s2 h1 h2 hz ih =>
    rcases ih h with h | h
    · exact Or.inl h
    · exact Or.inr (by simp [h])
  | case6 a s1 b s2 h1 h2 hz ih =>
    rcases List.mem_cons.mp h with rfl | h
    · exact Or.inr (by simp)
    · rcases ih h with h | h
      · exact Or.inl (by simp [h])
      · exact Or.inr (by simp [h])
  | case7 a s1 b s2 h1 h2 hz ih =>
    rcases ih h with h | h
    · exact Or.inl (by simp [h])
    · exact Or.inr (by simp [h])

theorem colsIn_mergeRows {n : Nat} {t1 t2 : List (Row α)} (h1 : ColsIn n t1) (h2 : ColsIn n t2) :
    ColsIn n (mergeRows t1 t2) := by
  fun_induction mergeRows t1 t2 with
  | case1 r1 t1 r2 t2 ih =>
    intro r hr x hx
    rcases List.mem_cons.mp hr with rfl | hr
    · rcases mem_mergeSpan hx with hx | hx
      · exact h1 r1 (by simp) x hx
      · exact h2 r2 (by simp) x hx
    · exact ih (fun r hr => h1 r (by simp [hr])) (fun r hr => h2 r (by simp [hr])) r hr x hx
  | case2 t1 => exact h1
  | case3 t2 _ => exact colsIn_nil n

theorem merge_major (A B : CSM α) : (A.merge B).1.major = max A.major B.major := by
  unfold CSM.merge; simp only; rw [setMinorDim_major, setMajorDim_major]

theorem merge_minor (A B : CSM α) : (A.merge B).1.minor = max A.minor B.minor := by
  unfold CSM.merge; simp only; rw [setMinorDim_minor]

/-- `CSMatrix.Merge` keeps the guard -/
theorem guarded_merge {A B : CSM α} (hA : Guarded A) (hB : ColsIn B.minor B.rows) :
    Guarded (A.merge B).1 := by
  have h := guarded_setMinorDim (guarded_setMajorDim hA (max A.major B.major))
    (max A.minor B.minor)
  unfold Guarded at h ⊢
  rw [merge_minor]
  rw [setMinorDim_minor] at h
  unfold CSM.merge
  simp only
  exact ⟨colsIn_mergeRows h.1 (hB.mono (Nat.le_max_right _ _)), h.2⟩

/-! #### vectors -/

theorem vecIn_setDim {v : Vec α} (h : VecIn v) (d : Nat) : VecIn (v.setDim d) := by
  unfold Vec.setDim VecIn
  split
  · intro e he
    have := List.mem_takeWhile_imp he
    simpa using this
  · rename_i hd
    intro e he
    have := h e he
    simp only at he ⊢
    omega

theorem vec_setDim_dim (v : Vec α) (d : Nat) : (v.setDim d).dim = d := by
  unfold Vec.setDim; split <;> rfl

theorem vecIn_new {dim : Nat} {es : List (Entry α)} (h : ∀ e ∈ es, e.idx < dim) :
    VecIn (Vec.new dim es) := by
  intro e he
  exact h e ((sortByIdx_perm es).mem_iff.mp he)

theorem vecIn_merge {v v2 : Vec α} (h : VecIn v) (h2 : VecIn v2) : VecIn (v.merge v2).1 := by
  unfold Vec.merge
  simp only
  have h' := vecIn_setDim h (max v.dim v2.dim)
  intro e he
  simp only at he ⊢
  rw [vec_setDim_dim]
  rcases mem_mergeSpan he with he | he
  · have := h' e he; rw [vec_setDim_dim] at this; exact this
  · have := h2 e he
    have := Nat.le_max_right v.dim v2.dim
    omega

/-! #### canonicalisation and distrust extraction -/

theorem canonicalize_idx {es es' : List (Entry α)} (h : canonicalize es = .ok es') {x : Entry α}
    (hx : x ∈ es') : ∃ y ∈ es, y.idx = x.idx := by
  unfold canonicalize at h
  simp only at h
  split at h
  · cases h
  · cases h
    simp only [List.mem_map] at hx
    obtain ⟨y, hy, rfl⟩ := hx
    exact ⟨y, hy, rfl⟩

theorem vecIn_canonTV {v : Vec α} (h : VecIn v) : VecIn (canonicalizeTrustVector v) := by
  unfold canonicalizeTrustVector
  split
  · rename_i es hes
    intro x hx
    obtain ⟨y, hy, hyx⟩ := canonicalize_idx hes hx
    have := h y hy
    simp only
    omega
  · intro x hx
    simp only [uniformEntries, List.mem_map, List.mem_range] at hx
    obtain ⟨i, hi, rfl⟩ := hx
    exact hi

theorem canonTV_dim (v : Vec α) : (canonicalizeTrustVector v).dim = v.dim := by
  unfold canonicalizeTrustVector; split <;> rfl

theorem mem_canonRow {p : Option (Vec α)} {r : Row α} {x : Entry α} (hx : x ∈ canonRow p r) :
    (∃ y ∈ r, y.idx = x.idx) ∨ ∃ pv, p = some pv ∧ x ∈ pv.entries := by
  unfold canonRow at hx
  split at hx
  · rename_i r' hr'
    exact Or.inl (canonicalize_idx hr' hx)
  · split at hx
    · exact Or.inr ⟨_, rfl, hx⟩
    · exact Or.inl ⟨x, hx, rfl⟩

/-- `CanonicalizeLocalTrust` keeps the guard (a substituted pre-trust row has its indices below
    the common dimension, which the function checks) -/
theorem guarded_canonLT {m m' : CSM α} {p : Option (Vec α)} (hm : Guarded m)
    (hp : ∀ pv, p = some pv → VecIn pv) (h : canonicalizeLocalTrust m p = .ok m') :
    Guarded m' ∧ m'.major = m.major ∧ m'.minor = m.minor ∧ m.major = m.minor ∧
      ∀ pv, p = some pv → pv.dim = m.major := by
  unfold canonicalizeLocalTrust CSM.dim at h
  split at h
  · cases h
  · rename_i n hn
    split at hn
    · cases hn
    · rename_i hsq
      have hsq : m.major = m.minor := by simpa using hsq
      cases hn
      have key : (∀ pv, p = some pv → pv.dim = m.major) ∧
          m' = { m with rows := m.rows.map (canonRow p) } := by
        cases p with
        | none =>
          simp only [Bool.false_eq_true, if_false, Except.ok.injEq] at h
          exact ⟨fun pv hpv => (by cases hpv), h.symm⟩
        | some pv =>
          simp only [ne_eq, decide_not, Bool.not_eq_eq_eq_not, Bool.not_true,
            decide_eq_false_iff_not, ite_not] at h
          split at h
          · rename_i hd
            cases h
            exact ⟨fun pv' hpv' => (by cases hpv'; exact hd.symm), rfl⟩
          · cases h
      obtain ⟨hpd, rfl⟩ := key
      refine ⟨⟨?_, hm.2⟩, rfl, rfl, hsq, hpd⟩
      intro r hr x hx
      simp only [List.mem_map] at hr
      obtain ⟨r0, hr0, rfl⟩ := hr
      simp only
      rcases mem_canonRow hx with ⟨y, hy, hyx⟩ | ⟨pv, hpv, hx⟩
      · have := hm.1 r0 hr0 y hy; omega
      · have := hp pv hpv x hx
        rw [hpd pv hpv, hsq] at this
        exact this

/-- `ExtractDistrust` keeps the guard on both results -/
theorem guarded_extractDistrust {m c d : CSM α} (hm : Guarded m)
    (h : extractDistrust m = .ok (c, d)) :
    Guarded c ∧ Guarded d ∧ c.major = m.major ∧ c.minor = m.minor ∧ d.major = m.major ∧
      d.minor = m.major ∧ m.major = m.minor := by
  unfold extractDistrust CSM.dim at h
  split at h
  · cases h
  · rename_i n hn
    split at hn
    · cases hn
    · rename_i hsq
      have hsq : m.major = m.minor := by simpa using hsq
      cases hn
      simp only [Except.ok.injEq, Prod.mk.injEq] at h
      obtain ⟨rfl, rfl⟩ := h
      refine ⟨⟨?_, hm.2⟩, ⟨?_, fun r hr => by cases hr⟩, rfl, rfl, rfl, rfl, hsq⟩
      · intro r hr x hx
        simp only [List.map_map, List.mem_map, Function.comp] at hr
        obtain ⟨r0, hr0, rfl⟩ := hr
        simp only [splitRow, List.mem_filter] at hx
        exact hm.1 r0 hr0 x hx.1
      · intro r hr x hx
        simp only [List.map_map, List.mem_map, Function.comp] at hr
        obtain ⟨r0, hr0, rfl⟩ := hr
        simp only [splitRow, List.mem_map, List.mem_filter] at hx
        obtain ⟨y, ⟨hy, _⟩, rfl⟩ := hx
        have := hm.1 r0 hr0 y hy
        simp only
        omega

/-! ### OpenAPI front-end -/

section oapi
open EtVerif.Oapi

/-- the coordinate entries `loadInlineTrustMatrix` hands to `NewCSRMatrix` -/
def cooOfI (m : IMatrix α) : List (Coo α) := m.entries.map fun (i, j, v) => ⟨i.toNat, j.toNat, v⟩

/-- the entries `loadInlineTrustVector` hands to `NewVector` -/
def entOfI (v : IVector α) : List (Entry α) := v.entries.map fun (i, x) => ⟨i.toNat, x⟩

/-- a successful inline matrix load: the exact `NewCSRMatrix` call, all indices in range -/
theorem loadInlineMatrix_some {m : IMatrix α} {c : CSM α} (h : loadInlineMatrix m = some c) :
    0 < m.size ∧ c = CSM.newCSR m.size.toNat m.size.toNat (cooOfI m) false ∧
      ∀ e ∈ cooOfI m, e.row < m.size.toNat ∧ e.col < m.size.toNat := by
  unfold loadInlineMatrix at h
  split at h
  · cases h
  · rename_i hs
    split at h
    · rename_i hall
      cases h
      refine ⟨by omega, rfl, ?_⟩
      intro e he
      simp only [cooOfI, List.mem_map] at he
      obtain ⟨⟨i, j, v⟩, hm, rfl⟩ := he
      have := List.all_eq_true.mp hall _ hm
      simp only [Bool.and_eq_true, decide_eq_true_eq] at this
      simp only
      omega
    · cases h

/-- an inline matrix is refused when its size is not positive or an index is out of range -/
theorem loadInlineMatrix_none {m : IMatrix α}
    (h : m.size ≤ 0 ∨ ∃ e ∈ m.entries, e.1 < 0 ∨ m.size ≤ e.1 ∨ e.2.1 < 0 ∨ m.size ≤ e.2.1) :
    loadInlineMatrix m = none := by
  unfold loadInlineMatrix
  split
  · rfl
  · rename_i hs
    rcases h with h | ⟨e, he, hbad⟩
    · exact absurd h hs
    · rw [if_neg]
      intro hall
      have := List.all_eq_true.mp hall e he
      obtain ⟨i, j, v⟩ := e
      simp only [Bool.and_eq_true, decide_eq_true_eq] at this
      simp only at hbad
      omega

theorem loadInlineVector_some {v : IVector α} {p : Vec α} (h : loadInlineVector v = some p) :
    0 < v.size ∧ p = Vec.new v.size.toNat (entOfI v) ∧ ∀ e ∈ entOfI v, e.idx < v.size.toNat := by
  unfold loadInlineVector at h
  split at h
  · cases h
  · rename_i hs
    split at h
    · rename_i hall
      cases h
      refine ⟨by omega, rfl, ?_⟩
      intro e he
      simp only [entOfI, List.mem_map] at he
      obtain ⟨⟨i, x⟩, hm, rfl⟩ := he
      have := List.all_eq_true.mp hall _ hm
      simp only [Bool.and_eq_true, decide_eq_true_eq] at this
      simp only
      omega
    · cases h

theorem loadInlineVector_none {v : IVector α}
    (h : v.size ≤ 0 ∨ ∃ e ∈ v.entries, e.1 < 0 ∨ v.size ≤ e.1 ∨ le e.2 zero = true) :
    loadInlineVector v = none := by
  unfold loadInlineVector
  split
  · rfl
  · rename_i hs
    rcases h with h | ⟨e, he, hbad⟩
    · exact absurd h hs
    · rw [if_neg]
      intro hall
      have := List.all_eq_true.mp hall e he
      obtain ⟨i, x⟩ := e
      simp only [Bool.and_eq_true, decide_eq_true_eq, Bool.not_eq_true'] at this
      simp only at hbad
      rcases hbad with hb | hb | hb
      · omega
      · omega
      · rw [this.2] at hb; cases hb

theorem guarded_loadInlineMatrix {m : IMatrix α} {c : CSM α} (h : loadInlineMatrix m = some c) :
    Guarded c := by
  obtain ⟨_, rfl, hr⟩ := loadInlineMatrix_some h
  exact guarded_newCSR (fun e he => (hr e he).2)

theorem vecIn_loadInlineVector {v : IVector α} {p : Vec α} (h : loadInlineVector v = some p) :
    VecIn p := by
  obtain ⟨_, rfl, hr⟩ := loadInlineVector_some h
  exact vecIn_new hr

/-- store invariant of the OpenAPI front-end: every stored matrix is guarded -/
def OStoreInv (s : Store α) : Prop := ∀ p ∈ s, Guarded p.2

theorem store_get?_mem {s : Store α} {id : String} {M : CSM α} (h : s.get? id = some M) :
    ∃ p ∈ s, p.2 = M := by
  unfold Store.get? at h
  cases hf : s.find? (·.1 == id) with
  | none => rw [hf] at h; cases h
  | some p =>
    rw [hf] at h
    simp only [Option.map_some, Option.some.injEq] at h
    exact ⟨p, List.mem_of_find?_eq_some hf, h⟩

theorem OStoreInv.get {s : Store α} (h : OStoreInv s) {id : String} {M : CSM α}
    (hg : s.get? id = some M) : Guarded M := by
  obtain ⟨p, hp, rfl⟩ := store_get?_mem hg
  exact h p hp

theorem OStoreInv.set {s : Store α} (h : OStoreInv s) (id : String) {M : CSM α} (hM : Guarded M) :
    OStoreInv (s.set id M) := by
  intro p hp
  unfold Store.set at hp
  rcases List.mem_cons.mp hp with rfl | hp
  · exact hM
  · exact h p (List.mem_filter.mp hp).1

theorem OStoreInv.erase {s : Store α} (h : OStoreInv s) (id : String) : OStoreInv (s.erase id) := by
  intro p hp
  exact h p (List.mem_filter.mp hp).1

theorem guarded_loadMatrix {s : Store α} (hs : OStoreInv s) {ref : MatrixRef α} {c : CSM α}
    (h : loadMatrix s ref = some c) : Guarded c := by
  cases ref with
  | inline m => exact guarded_loadInlineMatrix h
  | stored id => exact hs.get h
  | objectStorage _ => cases h
  | unknown _ => cases h

theorem vecIn_loadVector {ref : VectorRef α} {p : Vec α} (h : loadVector ref = some p) :
    VecIn p := by
  cases ref with
  | inline v => exact vecIn_loadInlineVector h
  | objectStorage _ => cases h
  | unknown _ => cases h

/-- every `/local-trust` request keeps the store invariant -/
theorem handleStore_inv {s : Store α} (hs : OStoreInv s) (req : StoreReq α) :
    OStoreInv (handleStore s req).1 := by
  cases req with
  | put id merge body =>
    simp only [handleStore]
    split
    · exact hs
    · rename_i c hl
      have hc := guarded_loadMatrix hs hl
      split
      · exact hs.set id hc
      · rename_i old hg
        split
        · exact hs.set id (guarded_merge (hs.get hg) hc.1)
        · exact hs.set id hc
  | get id =>
    simp only [handleStore]
    split <;> exact hs
  | head id => exact hs
  | delete id =>
    simp only [handleStore]
    split
    · exact hs.erase id
    · exact hs

/-! #### the restructured form of `prepare` -/

/-- loading of an optional vector reference: `none` = loader error -/
def loadOptVec : Option (VectorRef α) → Option (Option (Vec α))
  | none => some none
  | some ref => (loadVector ref).map some

/-- alignment with the pre-trust (openapi.go 81-98) -/
def alignPre (c0 : CSM α) : Option (Vec α) → CSM α × Vec α × Nat
  | none => (c0, Vec.new c0.major [], c0.major)
  | some p =>
    if p.dim < c0.major then (c0, p.setDim c0.major, c0.major)
    else if c0.major < p.dim then (c0.setDim p.dim p.dim, p, p.dim)
    else (c0, p, c0.major)

/-- alignment with the initial trust (openapi.go 103-125) -/
def alignInit (x : CSM α × Vec α × Nat) : Option (Vec α) → CSM α × Vec α × Option (Vec α) × Nat
  | none => (x.1, x.2.1, none, x.2.2)
  | some t0 =>
    if t0.dim < x.2.2 then (x.1, x.2.1, some (t0.setDim x.2.2), x.2.2)
    else if x.2.2 < t0.dim then (x.1.setDim t0.dim t0.dim, x.2.1.setDim t0.dim, some t0, t0.dim)
    else (x.1, x.2.1, some t0, x.2.2)

/-- the `alpha` / `epsilon` guards (openapi.go 126-145) fail -/
def guardA (r : ComputeReq α) : Bool :=
  !(match r.alpha with | some a => !(lt a zero || lt one a) | none => true) ||
   !(match r.epsilon with | some e => !(le e zero || lt one e) | none => true)

/-- the iteration-option guards fail -/
def guardB (r : ComputeReq α) : Bool :=
  optBad r.flatTail 0 || optBad r.numLeaders 0 || optBad r.maxIterations 0 ||
    optBad r.minIterations 1 || optBad r.checkFreq 1

/-- canonicalisation and distrust extraction (openapi.go 161-187) -/
def finish (k : Consts α) (r : ComputeReq α) (x : CSM α × Vec α × Option (Vec α) × Nat) :
    Option (Effective α) :=
  let a := r.alpha.getD k.half
  let e := r.epsilon.getD (div k.epsNum (ofNat x.2.2.2))
  let p3 := canonicalizeTrustVector x.2.1
  let t3 := x.2.2.1.map canonicalizeTrustVector
  match extractDistrust x.1 with
  | .error _ => none
  | .ok (c3, d3) =>
    match canonicalizeLocalTrust c3 (some p3), canonicalizeLocalTrust d3 none with
    | .ok c4, .ok d4 =>
      some { c := c4, p := p3, t0 := t3, discounts := d4, a := a, e := e,
             opts := { t0 := t3, flatTail := (r.flatTail.getD 0).toNat,
                       numLeaders := (r.numLeaders.getD 0).toNat,
                       maxIterations := r.maxIterations, minIterations := r.minIterations,
                       checkFreq := r.checkFreq } }
    | _, _ => none

theorem prepare_eq (k : Consts α) (s : Store α) (r : ComputeReq α) :
    prepare k s r =
      match loadMatrix s r.localTrust, loadOptVec r.preTrust, loadOptVec r.initialTrust with
      | some c0, some pOpt, some tOpt =>
        if guardA r then none else if guardB r then none
        else finish k r (alignInit (alignPre c0 pOpt) tOpt)
      | _, _, _ => none := by
  obtain ⟨lt, it, pt, al, ep, ft, nl, mx, mn, cf⟩ := r
  unfold prepare
  simp only
  cases h1 : loadMatrix s lt with
  | none => rfl
  | some c0 =>
    cases pt with
    | none =>
      cases it with
      | none =>
        simp only [loadOptVec]
        rfl
      | some tref =>
        simp only [loadOptVec]
        cases h3 : loadVector tref with
        | none => rfl
        | some t0 =>
          simp only [Option.map_some]
          rfl
    | some pref =>
      cases it with
      | none =>
        simp only [loadOptVec]
        cases h2 : loadVector pref with
        | none => rfl
        | some p => rfl
      | some tref =>
        simp only [loadOptVec]
        cases h2 : loadVector pref with
        | none => cases loadVector tref <;> rfl
        | some p =>
          cases h3 : loadVector tref with
          | none => rfl
          | some t0 => rfl

theorem loadOptVec_vecIn {o : Option (VectorRef α)} {po : Option (Vec α)}
    (h : loadOptVec o = some po) : ∀ p, po = some p → VecIn p := by
  intro p hp
  subst hp
  cases o with
  | none => cases h
  | some ref =>
    simp only [loadOptVec] at h
    cases hl : loadVector ref with
    | none => rw [hl] at h; cases h
    | some q =>
      rw [hl] at h
      simp only [Option.map_some, Option.some.injEq] at h
      subst h
      exact vecIn_loadVector hl

theorem alignPre_guard {c0 : CSM α} (hc : Guarded c0) {po : Option (Vec α)}
    (hp : ∀ p, po = some p → VecIn p) :
    Guarded (alignPre c0 po).1 ∧ VecIn (alignPre c0 po).2.1 := by
  cases po with
  | none => exact ⟨hc, vecIn_new (fun e he => by cases he)⟩
  | some p =>
    have hp := hp p rfl
    simp only [alignPre]
    split
    · exact ⟨hc, vecIn_setDim hp _⟩
    · split
      · exact ⟨guarded_setDim hc _ _, hp⟩
      · exact ⟨hc, hp⟩

theorem alignInit_guard {x : CSM α × Vec α × Nat} (hc : Guarded x.1) (hp : VecIn x.2.1)
    {tOpt : Option (Vec α)} (ht : ∀ t, tOpt = some t → VecIn t) :
    Guarded (alignInit x tOpt).1 ∧ VecIn (alignInit x tOpt).2.1 ∧
      ∀ t, (alignInit x tOpt).2.2.1 = some t → VecIn t := by
  cases tOpt with
  | none => exact ⟨hc, hp, fun t h => by cases h⟩
  | some t0 =>
    have ht := ht t0 rfl
    simp only [alignInit]
    split
    · exact ⟨hc, hp, fun t h => by cases h; exact vecIn_setDim ht _⟩
    · split
      · exact ⟨guarded_setDim hc _ _, vecIn_setDim hp _, fun t h => by cases h; exact ht⟩
      · exact ⟨hc, hp, fun t h => by cases h; exact ht⟩

/-- the outcome of `finish` -/
theorem finish_some {k : Consts α} {r : ComputeReq α} {x : CSM α × Vec α × Option (Vec α) × Nat}
    {eff : Effective α} (h : finish k r x = some eff) :
    ∃ c3 d3, extractDistrust x.1 = .ok (c3, d3) ∧
      canonicalizeLocalTrust c3 (some (canonicalizeTrustVector x.2.1)) = .ok eff.c ∧
      canonicalizeLocalTrust d3 none = .ok eff.discounts ∧
      eff.p = canonicalizeTrustVector x.2.1 ∧ eff.t0 = x.2.2.1.map canonicalizeTrustVector ∧
      eff.opts.t0 = eff.t0 ∧ eff.opts.maxIterations = r.maxIterations ∧
      eff.opts.minIterations = r.minIterations ∧ eff.opts.checkFreq = r.checkFreq ∧
      eff.opts.resultDim = none ∧ eff.a = r.alpha.getD k.half := by
  unfold finish at h
  simp only at h
  split at h
  · cases h
  · rename_i c3 d3 hx
    split at h
    · rename_i c4 d4 h4 h5
      cases h
      exact ⟨c3, d3, hx, h4, h5, rfl, rfl, rfl, rfl, rfl, rfl, rfl, rfl⟩
    · cases h

theorem prepare_some {k : Consts α} {s : Store α} {r : ComputeReq α} {eff : Effective α}
    (h : prepare k s r = some eff) :
    ∃ c0 pOpt tOpt, loadMatrix s r.localTrust = some c0 ∧ loadOptVec r.preTrust = some pOpt ∧
      loadOptVec r.initialTrust = some tOpt ∧ guardA r = false ∧ guardB r = false ∧
      finish k r (alignInit (alignPre c0 pOpt) tOpt) = some eff := by
  rw [prepare_eq] at h
  split at h
  · rename_i c0 pOpt tOpt h1 h2 h3
    split at h
    · cases h
    · split at h
      · cases h
      · rename_i ha hb
        exact ⟨c0, pOpt, tOpt, h1, h2, h3, by simpa using ha, by simpa using hb, h⟩
  · cases h

/-- the matrix and vectors handed to `basic.Compute` by the OpenAPI handler are guarded -/
theorem prepare_guard {k : Consts α} {s : Store α} (hs : OStoreInv s) {r : ComputeReq α}
    {eff : Effective α} (h : prepare k s r = some eff) :
    Guarded eff.c ∧ Guarded eff.discounts ∧ VecIn eff.p ∧ (∀ t, eff.t0 = some t → VecIn t) ∧
      eff.discounts.minor = eff.c.major ∧ eff.opts.t0 = eff.t0 ∧
      eff.opts.maxIterations = r.maxIterations := by
  obtain ⟨c0, pOpt, tOpt, h1, h2, h3, _, _, hf⟩ := prepare_some h
  obtain ⟨g1, v1⟩ := alignPre_guard (guarded_loadMatrix hs h1) (loadOptVec_vecIn h2)
  obtain ⟨g2, v2, v3⟩ := alignInit_guard (x := alignPre c0 pOpt) g1 v1 (loadOptVec_vecIn h3)
  obtain ⟨c3, d3, hx, h4, h5, hp, ht, hot, hmx, _⟩ := finish_some hf
  obtain ⟨gc, gd, e1, e2, e3, e4, e5⟩ := guarded_extractDistrust g2 hx
  have vp := vecIn_canonTV v2
  obtain ⟨gc4, m1, m2, _⟩ := guarded_canonLT gc (fun pv hpv => by cases hpv; exact vp) h4
  obtain ⟨gd4, n1, n2, _⟩ := guarded_canonLT gd (fun pv hpv => by cases hpv) h5
  refine ⟨gc4, gd4, by rw [hp]; exact vp, ?_, by rw [n2, m1, e4, e1], hot, hmx⟩
  intro t htt
  rw [ht] at htt
  cases hto : (alignInit (alignPre c0 pOpt) tOpt).2.2.1 with
  | none => rw [hto] at htt; cases htt
  | some t' =>
    rw [hto] at htt
    simp only [Option.map_some, Option.some.injEq] at htt
    subst htt
    exact vecIn_canonTV (v3 t' hto)

end oapi

/-! ### the result of `compute` / `discountTrustVector` has its indices in range -/

theorem scaleEntries_idx {a : α} {es : List (Entry α)} {x : Entry α} (hx : x ∈ scaleEntries a es) :
    ∃ y ∈ es, y.idx = x.idx := by
  unfold scaleEntries at hx
  split at hx
  · exact ⟨x, hx, rfl⟩
  · simp only [List.mem_filterMap] at hx
    obtain ⟨y, hy, h⟩ := hx
    split at h
    · cases h
    · cases h; exact ⟨y, hy, rfl⟩

theorem vecScale_idx {a : α} {v : Vec α} {x : Entry α} (hx : x ∈ (Vec.scale a v).entries) :
    ∃ y ∈ v.entries, y.idx = x.idx := by
  unfold Vec.scale at hx
  split at hx
  · cases hx
  · exact scaleEntries_idx hx

theorem mulVecEntries_idx {rows : List (Row α)} {v : List (Entry α)} {x : Entry α}
    (hx : x ∈ mulVecEntries rows v) : x.idx < rows.length := by
  unfold mulVecEntries at hx
  simp only [List.mem_filterMap] at hx
  obtain ⟨⟨r, i⟩, hri, h⟩ := hx
  have hi := List.mk_mem_zipIdx_iff_getElem?.mp hri
  have hlt : i < rows.length := by
    by_contra hge
    rw [List.getElem?_eq_none_iff.mpr (by omega)] at hi
    cases hi
  simp only at h
  split at h
  · cases h
  · cases h; exact hlt

theorem stepEntries_idx {n : Nat} {ct : List (Row α)} (hct : ct.length ≤ n) {ap : List (Entry α)}
    (hap : ∀ x ∈ ap, x.idx < n) (q : α) (t : List (Entry α)) :
    ∀ x ∈ stepEntries ct ap q t, x.idx < n := by
  intro x hx
  unfold stepEntries at hx
  simp only at hx
  obtain ⟨y, hy | hy, hyx⟩ := idx_mem_addEntries hx
  · split at hy
    · cases hy
    · obtain ⟨z, hz, hzy⟩ := scaleEntries_idx hy
      have := mulVecEntries_idx hz
      omega
  · have := hap y hy; omega

theorem iterate_idx {n : Nat} {ct : List (Row α)} (hct : ct.length ≤ n) {ap : List (Entry α)}
    (hap : ∀ x ∈ ap, x.idx < n) (q : α) {t0 : List (Entry α)} (ht0 : ∀ x ∈ t0, x.idx < n)
    (k : Nat) : ∀ x ∈ iterate ct ap q k t0, x.idx < n := by
  induction k with
  | zero => exact ht0
  | succ k ih =>
    unfold iterate
    rw [Function.iterate_succ_apply']
    exact stepEntries_idx hct hap q _

theorem scatterRow_length (t : List (Row α)) (i : Nat) (r : Row α) :
    (scatterRow t i r).length = t.length := by
  unfold scatterRow
  induction r generalizing t with
  | nil => rfl
  | cons e r ih => rw [List.foldl_cons, ih, List.length_modify]

theorem transpose_length (M : CSM α) : M.transpose.rows.length = M.minor := by
  unfold CSM.transpose
  simp only
  have : ∀ (l : List (Row α × Nat)) (t : List (Row α)),
      (l.foldl (fun t (x : Row α × Nat) => scatterRow t x.2 x.1) t).length = t.length := by
    intro l
    induction l with
    | nil => intro t; rfl
    | cons x l ih => intro t; rw [List.foldl_cons, ih, scatterRow_length]
  rw [this, List.length_replicate]

/-- a successful `Compute` returns a vector whose stored indices are below its dimension -/
theorem compute_vecIn {fuel : Nat} {c : CSM α} {p : Vec α} {a e : α} {o : ComputeOpts α}
    {res : ComputeResult α} (h : compute fuel c p a e o = .ok res) (hp : VecIn p)
    (ht0 : ∀ t0, o.t0 = some t0 → VecIn t0) : VecIn res.t ∧ res.t.dim = c.major := by
  obtain ⟨hv, hrt, _⟩ := C05.compute_spec fuel c p a e o res h
  obtain ⟨v1, v2, v3, v4, _⟩ := hv
  rw [hrt]
  refine ⟨?_, rfl⟩
  intro x hx
  simp only at hx ⊢
  refine iterate_idx (n := c.major) ?_ ?_ _ ?_ _ x hx
  · rw [transpose_length, v1]
  · intro y hy
    obtain ⟨z, hz, hzy⟩ := vecScale_idx hy
    have := hp z hz
    omega
  · cases ho : o.t0 with
    | none =>
      intro y hy
      simp only [Option.getD_none] at hy
      have := hp y hy
      omega
    | some t0 =>
      intro y hy
      simp only [Option.getD_some] at hy
      have := ht0 t0 ho y hy
      rw [v4 t0 ho] at this
      exact this

theorem discountLoop_idx {n : Nat} (t1 : List (Entry α)) (rows : List (Row α × Nat))
    (t : List (Entry α)) (hrows : ∀ p ∈ rows, ∀ x ∈ p.1, x.idx < n) (ht : ∀ x ∈ t, x.idx < n) :
    ∀ x ∈ discountLoop t1 rows t, x.idx < n := by
  fun_induction discountLoop t1 rows t with
  | case1 _ t => exact ht
  | case2 _ t _ => exact ht
  | case3 s t1 row distruster rows t hlt ih => exact ih hrows ht
  | case4 s t1 row rows t hlt ih =>
    apply ih (fun p hp => hrows p (by simp [hp]))
    intro x hx
    obtain ⟨y, hy | hy, hyx⟩ := idx_mem_subEntries hx
    · have := ht y hy; omega
    · obtain ⟨z, hz, hzy⟩ := vecScale_idx hy
      have := hrows (row, s.idx) (by simp) z hz
      omega
  | case5 s t1 row distruster rows t hlt hne ih =>
    exact ih (fun p hp => hrows p (by simp [hp])) ht

theorem discount_vecIn {t : Vec α} {d : CSM α} (ht : VecIn t) (hd : ColsIn t.dim d.rows) :
    VecIn (discountTrustVector t d) ∧ (discountTrustVector t d).dim = t.dim := by
  refine ⟨?_, rfl⟩
  unfold discountTrustVector
  intro x hx
  refine discountLoop_idx (n := t.dim) _ _ _ ?_ ht x hx
  intro p hp y hy
  obtain ⟨r, i⟩ := p
  exact hd r (List.mem_iff_getElem?.mpr ⟨i, List.mk_mem_zipIdx_iff_getElem?.mp hp⟩) y hy

/-! ### gRPC front-end -/

section grpc
open EtVerif.Grpc

theorem lookup_mem {β : Type} {l : List (String × β)} {id : String} {b : β}
    (h : lookup l id = some b) : ∃ p ∈ l, p.2 = b := by
  unfold lookup at h
  cases hf : l.find? (·.1 == id) with
  | none => rw [hf] at h; cases h
  | some p =>
    rw [hf] at h
    simp only [Option.map_some, Option.some.injEq] at h
    exact ⟨p, List.mem_of_find?_eq_some hf, h⟩

theorem mem_store {β : Type} {l : List (String × β)} {id : String} {b : β} {p : String × β}
    (h : p ∈ store l id b) : p = (id, b) ∨ p ∈ l := by
  unfold store at h
  rcases List.mem_cons.mp h with h | h
  · exact Or.inl h
  · exact Or.inr (List.mem_filter.mp h).1

theorem mem_erase {β : Type} {l : List (String × β)} {id : String} {p : String × β}
    (h : p ∈ erase l id) : p ∈ l := (List.mem_filter.mp h).1

/-- the dimension `Update` gives its batch: highest row/column index + 1, squared -/
def gDim (coos : List (Coo α)) : Nat :=
  max (coos.foldl (fun r e => max r (e.row + 1)) 0) (coos.foldl (fun c e => max c (e.col + 1)) 0)

theorem lt_gDim {coos : List (Coo α)} {c : Coo α} (hc : c ∈ coos) :
    c.row < gDim coos ∧ c.col < gDim coos := by
  have h1 := foldl_max_ge_mem (fun e : Coo α => e.row + 1) coos 0 hc
  have h2 := foldl_max_ge_mem (fun e : Coo α => e.col + 1) coos 0 hc
  unfold gDim
  omega

/-- the update `tmUpdate` stores on success -/
def tmBatch (coos : List (Coo α)) : CSM α := CSM.newCSR (gDim coos) (gDim coos) coos true

theorem tmUpdate_ok {s : GState α} {id : String} {ts : Nat} {entries : List (MEntry α)}
    {tm : TM α} {coos : List (Coo α)} (hl : lookup s.mats id = some tm)
    (hp : parseMEntries entries = .ok coos) :
    tmUpdate s id ts entries =
      ({ s with mats := store s.mats id ⟨(tm.m.merge (tmBatch coos)).1, max tm.ts ts⟩ }, .ok) := by
  unfold tmUpdate
  rw [hl]
  simp only
  rw [hp]
  rfl

theorem tmUpdate_notFound {s : GState α} {id : String} (ts : Nat) (entries : List (MEntry α))
    (hl : lookup s.mats id = none) : tmUpdate s id ts entries = (s, .notFound) := by
  unfold tmUpdate; rw [hl]

theorem tmUpdate_error {s : GState α} {id : String} {ts : Nat} {entries : List (MEntry α)}
    {tm : TM α} {c : Code} (hl : lookup s.mats id = some tm)
    (hp : parseMEntries entries = .error c) : tmUpdate s id ts entries = (s, c) := by
  unfold tmUpdate
  rw [hl]
  simp only
  rw [hp]

/-- the parsed batch: one coordinate entry per update entry, indices converted -/
theorem parseMEntries_ok {entries : List (MEntry α)} {coos : List (Coo α)}
    (h : parseMEntries entries = .ok coos) :
    List.Forall₂ (fun (e : MEntry α) (c : Coo α) => ∃ i j : Int, e.truster = some i ∧
      e.trustee = some j ∧ 0 ≤ i ∧ 0 ≤ j ∧ c = ⟨i.toNat, j.toNat, e.value⟩) entries coos := by
  induction entries generalizing coos with
  | nil =>
    unfold parseMEntries at h
    cases h
    exact List.Forall₂.nil
  | cons e es ih =>
    unfold parseMEntries at h
    split at h
    · cases h
    · rename_i i hi
      split at h
      · cases h
      · rename_i j hj
        split at h
        · cases h
        · rename_i hneg
          split at h
          · cases h
          · rename_i rest hrest
            cases h
            refine List.Forall₂.cons ⟨i, j, hi, hj, ?_, ?_, rfl⟩ (ih hrest)
            · simp only [Bool.or_eq_true, decide_eq_true_eq, not_or] at hneg; omega
            · simp only [Bool.or_eq_true, decide_eq_true_eq, not_or] at hneg; omega

/-- all indices are integer literals but one is negative: `InvalidArgument` -/
theorem parseMEntries_negative {entries : List (MEntry α)}
    (hint : ∀ e ∈ entries, e.truster ≠ none ∧ e.trustee ≠ none)
    (hneg : ∃ e ∈ entries, (∃ i, e.truster = some i ∧ i < 0) ∨ ∃ j, e.trustee = some j ∧ j < 0) :
    parseMEntries entries = .error .invalidArgument := by
  induction entries with
  | nil => obtain ⟨e, he, _⟩ := hneg; cases he
  | cons e es ih =>
    unfold parseMEntries
    obtain ⟨h1, h2⟩ := hint e (by simp)
    cases hi : e.truster with
    | none => exact absurd hi h1
    | some i =>
      cases hj : e.trustee with
      | none => exact absurd hj h2
      | some j =>
        simp only
        split
        · rfl
        · rename_i hnn
          simp only [Bool.or_eq_true, decide_eq_true_eq, not_or] at hnn
          have : parseMEntries es = .error .invalidArgument := by
            apply ih (fun e he => hint e (by simp [he]))
            obtain ⟨e', he', hb⟩ := hneg
            rcases List.mem_cons.mp he' with rfl | he'
            · exfalso
              rcases hb with ⟨i', hi', hlt⟩ | ⟨j', hj', hlt⟩
              · rw [hi] at hi'; cases hi'; omega
              · rw [hj] at hj'; cases hj'; omega
            · exact ⟨e', he', hb⟩
          rw [this]

theorem parseVEntries_ok {entries : List (VEntry α)} {es : List (Entry α)}
    (h : parseVEntries entries = .ok es) :
    List.Forall₂ (fun (e : VEntry α) (c : Entry α) => ∃ i : Int, e.trustee = some i ∧
      0 ≤ i ∧ c = ⟨i.toNat, e.value⟩) entries es := by
  induction entries generalizing es with
  | nil =>
    unfold parseVEntries at h
    cases h
    exact List.Forall₂.nil
  | cons e es' ih =>
    unfold parseVEntries at h
    split at h
    · cases h
    · rename_i i hi
      split at h
      · cases h
      · rename_i hneg
        split at h
        · cases h
        · rename_i rest hrest
          cases h
          exact List.Forall₂.cons ⟨i, hi, by omega, rfl⟩ (ih hrest)

theorem parseVEntries_negative {entries : List (VEntry α)}
    (hint : ∀ e ∈ entries, e.trustee ≠ none)
    (hneg : ∃ e ∈ entries, ∃ i, e.trustee = some i ∧ i < 0) :
    parseVEntries entries = .error .invalidArgument := by
  induction entries with
  | nil => obtain ⟨e, he, _⟩ := hneg; cases he
  | cons e es ih =>
    unfold parseVEntries
    have h1 := hint e (by simp)
    cases hi : e.trustee with
    | none => exact absurd hi h1
    | some i =>
      simp only
      split
      · rfl
      · rename_i hnn
        have : parseVEntries es = .error .invalidArgument := by
          apply ih (fun e he => hint e (by simp [he]))
          obtain ⟨e', he', i', hi', hlt⟩ := hneg
          rcases List.mem_cons.mp he' with rfl | he'
          · exfalso
            rw [hi] at hi'; cases hi'; omega
          · exact ⟨e', he', i', hi', hlt⟩
        rw [this]

theorem tvUpdate_ok {s : GState α} {id : String} {ts : Nat} {entries : List (VEntry α)}
    {tv : TV α} {es : List (Entry α)} (hl : lookup s.vecs id = some tv)
    (hp : parseVEntries entries = .ok es) :
    tvUpdate s id ts entries =
      ({ s with vecs := store s.vecs id ⟨(tv.v.merge (Vec.new (entDim es) es)).1, max tv.ts ts⟩ },
        .ok) := by
  unfold tvUpdate
  rw [hl]
  simp only
  rw [hp]
  rfl

theorem tvUpdate_notFound {s : GState α} {id : String} (ts : Nat) (entries : List (VEntry α))
    (hl : lookup s.vecs id = none) : tvUpdate s id ts entries = (s, .notFound) := by
  unfold tvUpdate; rw [hl]

theorem tvUpdate_error {s : GState α} {id : String} {ts : Nat} {entries : List (VEntry α)}
    {tv : TV α} {c : Code} (hl : lookup s.vecs id = some tv)
    (hp : parseVEntries entries = .error c) : tvUpdate s id ts entries = (s, c) := by
  unfold tvUpdate
  rw [hl]
  simp only
  rw [hp]

/-- store invariant of the gRPC front-end: stored matrices are guarded, stored vectors have
    their indices below their dimension -/
def GInv (s : GState α) : Prop :=
  (∀ p ∈ s.mats, Guarded p.2.m) ∧ (∀ p ∈ s.vecs, VecIn p.2.v)

theorem ginv_init : GInv ({} : GState α) :=
  ⟨fun _ h => (by cases h), fun _ h => (by cases h)⟩

theorem GInv.mat {s : GState α} (h : GInv s) {id : String} {tm : TM α}
    (hl : lookup s.mats id = some tm) : Guarded tm.m := by
  obtain ⟨p, hp, rfl⟩ := lookup_mem hl
  exact h.1 p hp

theorem GInv.vec {s : GState α} (h : GInv s) {id : String} {tv : TV α}
    (hl : lookup s.vecs id = some tv) : VecIn tv.v := by
  obtain ⟨p, hp, rfl⟩ := lookup_mem hl
  exact h.2 p hp

theorem GInv.storeMat {s : GState α} (h : GInv s) (id : String) {tm : TM α} (hm : Guarded tm.m) :
    GInv { s with mats := store s.mats id tm } := by
  refine ⟨?_, h.2⟩
  intro p hp
  rcases mem_store hp with rfl | hp
  · exact hm
  · exact h.1 p hp

theorem GInv.storeVec {s : GState α} (h : GInv s) (id : String) {tv : TV α} (hv : VecIn tv.v) :
    GInv { s with vecs := store s.vecs id tv } := by
  refine ⟨h.1, ?_⟩
  intro p hp
  rcases mem_store hp with rfl | hp
  · exact hv
  · exact h.2 p hp

theorem guarded_tmBatch (coos : List (Coo α)) : Guarded (tmBatch coos) :=
  guarded_newCSR (fun _ hc => (lt_gDim hc).2)

theorem tmUpdate_inv {s : GState α} (h : GInv s) (id : String) (ts : Nat)
    (entries : List (MEntry α)) : GInv (tmUpdate s id ts entries).1 := by
  cases hl : lookup s.mats id with
  | none => rw [tmUpdate_notFound ts entries hl]; exact h
  | some tm =>
    cases hp : parseMEntries entries with
    | error c => rw [tmUpdate_error hl hp]; exact h
    | ok coos =>
      rw [tmUpdate_ok hl hp]
      exact h.storeMat id (tm := ⟨_, _⟩) (guarded_merge (h.mat hl) (guarded_tmBatch coos).1)

theorem tvUpdate_inv {s : GState α} (h : GInv s) (id : String) (ts : Nat)
    (entries : List (VEntry α)) : GInv (tvUpdate s id ts entries).1 := by
  cases hl : lookup s.vecs id with
  | none => rw [tvUpdate_notFound ts entries hl]; exact h
  | some tv =>
    cases hp : parseVEntries entries with
    | error c => rw [tvUpdate_error hl hp]; exact h
    | ok es =>
      rw [tvUpdate_ok hl hp]
      exact h.storeVec id (tv := ⟨_, _⟩)
        (vecIn_merge (h.vec hl) (vecIn_new (fun e he => lt_entDim he)))

theorem tmCreateNamed_inv {s : GState α} (h : GInv s) (id : String) :
    GInv (tmCreateNamed s id).1 := by
  unfold tmCreateNamed; split
  · exact h
  · exact h.storeMat id guarded_empty

theorem tmCreateFresh_inv {s : GState α} (h : GInv s) (id : String) :
    GInv (tmCreateFresh s id).1 := by
  unfold tmCreateFresh; split
  · exact h
  · exact h.storeMat id guarded_empty

theorem tmFlush_inv {s : GState α} (h : GInv s) (id : String) : GInv (tmFlush s id).1 := by
  unfold tmFlush; split
  · exact h
  · exact h.storeMat id guarded_empty

theorem tmDelete_inv {s : GState α} (h : GInv s) (id : String) : GInv (tmDelete s id).1 := by
  unfold tmDelete; split
  · exact ⟨fun p hp => h.1 p (mem_erase hp), h.2⟩
  · exact h

theorem tvCreateNamed_inv {s : GState α} (h : GInv s) (id : String) :
    GInv (tvCreateNamed s id).1 := by
  unfold tvCreateNamed; split
  · exact h
  · exact h.storeVec id (fun _ he => by cases he)

theorem tvFlush_inv {s : GState α} (h : GInv s) (id : String) : GInv (tvFlush s id).1 := by
  unfold tvFlush; split
  · exact h
  · exact h.storeVec id (fun _ he => by cases he)

theorem tvDelete_inv {s : GState α} (h : GInv s) (id : String) : GInv (tvDelete s id).1 := by
  unfold tvDelete; split
  · exact ⟨h.1, fun p hp => h.2 p (mem_erase hp)⟩
  · exact h

/-! #### the staged form of `basicCompute` -/

/-- the effective inputs of `BasicCompute` (compute.go 38-135) -/
structure BcEff (α : Type) where
  ltm : TM α
  pre : Option (TV α)
  gt : TV α
  c2 : CSM α
  p2 : Vec α
  t2 : Vec α
  c4 : CSM α
  p3 : Vec α
  t3 : Vec α
  d4 : CSM α
  a : α
  e : α
  ts2 : Nat

def bcLoadPre (s : GState α) (q : Params α) : Option (Option (TV α)) :=
  if q.preTrustId == "" then some none
  else match lookup s.vecs q.preTrustId with
    | none => none
    | some pt => some (some pt)

def bcAlignPre (c0 : CSM α) (ts0 : Nat) : Option (TV α) → CSM α × Vec α × Nat
  | none => (c0, Vec.new c0.major [], ts0)
  | some pt =>
    if pt.v.dim < c0.major then (c0, pt.v.setDim c0.major, max ts0 pt.ts)
    else if c0.major < pt.v.dim then (c0.setDim pt.v.dim pt.v.dim, pt.v, max ts0 pt.ts)
    else (c0, pt.v, max ts0 pt.ts)

def bcAlignGt (c1 : CSM α) (p1 : Vec α) (gt : TV α) : CSM α × Vec α × Vec α :=
  if gt.v.dim < p1.dim then (c1, p1, gt.v.setDim p1.dim)
  else if p1.dim < gt.v.dim then (c1.setDim gt.v.dim gt.v.dim, p1.setDim gt.v.dim, gt.v)
  else (c1, p1, gt.v)

def bcParamsOK (q : Params α) : Bool :=
  (match q.alpha with | some a => !(lt a zero || lt one a) | none => true) &&
  (match q.epsilon with | some e => !(le e zero || lt one e) | none => true)

def bcFinish (k : Grpc.Consts α) (q : Params α) (ltm : TM α) (pre : Option (TV α)) (gt : TV α)
    (c2 : CSM α) (p2 t2 : Vec α) (ts2 : Nat) : Except Code (BcEff α) :=
  let p3 := canonicalizeTrustVector p2
  let t3 := canonicalizeTrustVector t2
  match extractDistrust c2 with
  | .error _ => .error .internal
  | .ok (c3, d3) =>
    match canonicalizeLocalTrust c3 (some p3), canonicalizeLocalTrust d3 none with
    | .ok c4, .ok d4 =>
      .ok { ltm := ltm, pre := pre, gt := gt, c2 := c2, p2 := p2, t2 := t2, c4 := c4, p3 := p3,
            t3 := t3, d4 := d4, a := q.alpha.getD k.half,
            e := q.epsilon.getD (div k.epsNum (ofNat c2.major)), ts2 := ts2 }
    | _, _ => .error .internal

def bcPrep (k : Grpc.Consts α) (s : GState α) (q : Params α) : Except Code (BcEff α) :=
  match lookup s.mats q.localTrustId with
  | none => .error .notFound
  | some ltm =>
    if ltm.m.major ≠ ltm.m.minor then .error .internal else
    match bcLoadPre s q with
    | none => .error .notFound
    | some preOpt =>
      match lookup s.vecs q.globalTrustId with
      | none => .error .notFound
      | some gt =>
        let x := bcAlignPre ltm.m ltm.ts preOpt
        let y := bcAlignGt x.1 x.2.1 gt
        if !bcParamsOK q then .error .invalidArgument
        else bcFinish k q ltm preOpt gt y.1 y.2.1 y.2.2 (max x.2.2 gt.ts)

def bcOpts (q : Params α) (E : BcEff α) : ComputeOpts α :=
  { t0 := some E.t3, resultDim := some E.t3.dim,
    maxIterations := if q.maxIterations = 0 then none else some (q.maxIterations : Int) }

def bcWrite (s : GState α) (q : Params α) (E : BcEff α) (res : ComputeResult α) : GState α :=
  let vecs1 :=
    if q.positiveGlobalTrustId == "" then s.vecs
    else match lookup s.vecs q.positiveGlobalTrustId with
      | none => s.vecs
      | some gtp => store s.vecs q.positiveGlobalTrustId ⟨res.t, max gtp.ts E.ts2⟩
  let gtNow := (lookup vecs1 q.globalTrustId).getD E.gt
  { s with vecs := store vecs1 q.globalTrustId ⟨discountTrustVector res.t E.d4, max gtNow.ts E.ts2⟩ }

theorem basicCompute_eq (fuel : Nat) (k : Grpc.Consts α) (s : GState α) (q : Params α) :
    basicCompute fuel k s (some q) =
      match bcPrep k s q with
      | .error c => (s, c)
      | .ok E =>
        match compute fuel E.c4 E.p3 E.a E.e (bcOpts q E) with
        | .error _ => (s, .unavailable)
        | .ok res => (bcWrite s q E res, .ok) := by
  obtain ⟨lid, pid, al, ep, gid, mx, pos⟩ := q
  unfold basicCompute bcPrep
  simp only
  cases h1 : lookup s.mats lid with
  | none => rfl
  | some ltm =>
    simp only
    by_cases hsq : ltm.m.major ≠ ltm.m.minor
    · rw [if_pos hsq, if_pos hsq]
    · rw [if_neg hsq, if_neg hsq]
      unfold bcLoadPre
      cases hp : (pid == "") with
      | true =>
        simp only [if_true]
        cases hg : lookup s.vecs gid with
        | none => rfl
        | some gt =>
          simp only [bcAlignPre]
          generalize hy : bcAlignGt ltm.m (Vec.new ltm.m.major []) gt = y
          unfold bcAlignGt at hy
          simp only [hy]
          cases al <;> cases ep <;> simp only [bcParamsOK, Bool.not_and]
          all_goals
            split
            · rfl
            · unfold bcFinish
              simp only
              cases hx : extractDistrust y.1 with
              | error _ => rfl
              | ok cd =>
                obtain ⟨c3, d3⟩ := cd
                simp only
                cases h4 : canonicalizeLocalTrust c3 (some (canonicalizeTrustVector y.2.1)) <;>
                  cases h5 : canonicalizeLocalTrust d3 none <;> rfl
      | false =>
        simp only [Bool.false_eq_true, if_false]
        cases hpt : lookup s.vecs pid with
        | none => rfl
        | some pt =>
          simp only
          cases hg : lookup s.vecs gid with
          | none => rfl
          | some gt =>
            simp only
            generalize hx : bcAlignPre ltm.m ltm.ts (some pt) = x
            simp only [bcAlignPre] at hx
            simp only [hx]
            generalize hy : bcAlignGt x.1 x.2.1 gt = y
            unfold bcAlignGt at hy
            simp only [hy]
            cases al <;> cases ep <;> simp only [bcParamsOK, Bool.not_and]
            all_goals
              split
              · rfl
              · unfold bcFinish
                simp only
                cases hxd : extractDistrust y.1 with
                | error _ => rfl
                | ok cd =>
                  obtain ⟨c3, d3⟩ := cd
                  simp only
                  cases h4 : canonicalizeLocalTrust c3 (some (canonicalizeTrustVector y.2.1)) <;>
                    cases h5 : canonicalizeLocalTrust d3 none <;> rfl

end grpc

section grpc2
open EtVerif.Grpc

theorem bcLoadPre_vecIn {s : GState α} (h : GInv s) {q : Params α} {pre : Option (TV α)}
    (hl : bcLoadPre s q = some pre) : ∀ pt, pre = some pt → VecIn pt.v := by
  intro pt hpt
  subst hpt
  unfold bcLoadPre at hl
  split at hl
  · cases hl
  · split at hl
    · cases hl
    · rename_i pt' hpt'
      cases hl
      exact h.vec hpt'

theorem bcAlignPre_guard {c0 : CSM α} (hc : Guarded c0) (ts0 : Nat) {pre : Option (TV α)}
    (hp : ∀ pt, pre = some pt → VecIn pt.v) :
    Guarded (bcAlignPre c0 ts0 pre).1 ∧ VecIn (bcAlignPre c0 ts0 pre).2.1 := by
  cases pre with
  | none => exact ⟨hc, vecIn_new (fun e he => by cases he)⟩
  | some pt =>
    have hp := hp pt rfl
    simp only [bcAlignPre]
    split
    · exact ⟨hc, vecIn_setDim hp _⟩
    · split
      · exact ⟨guarded_setDim hc _ _, hp⟩
      · exact ⟨hc, hp⟩

theorem bcAlignGt_guard {c1 : CSM α} (hc : Guarded c1) {p1 : Vec α} (hp : VecIn p1) {gt : TV α}
    (hg : VecIn gt.v) :
    Guarded (bcAlignGt c1 p1 gt).1 ∧ VecIn (bcAlignGt c1 p1 gt).2.1 ∧
      VecIn (bcAlignGt c1 p1 gt).2.2 := by
  unfold bcAlignGt
  split
  · exact ⟨hc, hp, vecIn_setDim hg _⟩
  · split
    · exact ⟨guarded_setDim hc _ _, vecIn_setDim hp _, hg⟩
    · exact ⟨hc, hp, hg⟩

theorem bcFinish_ok {k : Grpc.Consts α} {q : Params α} {ltm : TM α} {pre : Option (TV α)}
    {gt : TV α} {c2 : CSM α} {p2 t2 : Vec α} {ts2 : Nat} {E : BcEff α}
    (h : bcFinish k q ltm pre gt c2 p2 t2 ts2 = .ok E) :
    ∃ c3 d3, extractDistrust c2 = .ok (c3, d3) ∧
      canonicalizeLocalTrust c3 (some (canonicalizeTrustVector p2)) = .ok E.c4 ∧
      canonicalizeLocalTrust d3 none = .ok E.d4 ∧ E.p3 = canonicalizeTrustVector p2 ∧
      E.t3 = canonicalizeTrustVector t2 ∧ E.gt = gt ∧ E.ts2 = ts2 := by
  unfold bcFinish at h
  simp only at h
  split at h
  · cases h
  · rename_i c3 d3 hx
    split at h
    · rename_i c4 d4 h4 h5
      cases h
      exact ⟨c3, d3, hx, h4, h5, rfl, rfl, rfl, rfl⟩
    · cases h

/-- everything `BasicCompute` hands to `basic.Compute` / `DiscountTrustVector` is guarded -/
theorem bcPrep_guard {k : Grpc.Consts α} {s : GState α} (hs : GInv s) {q : Params α}
    {E : BcEff α} (h : bcPrep k s q = .ok E) :
    Guarded E.c4 ∧ Guarded E.d4 ∧ VecIn E.p3 ∧ VecIn E.t3 ∧ E.d4.minor = E.c4.major ∧
      lookup s.vecs q.globalTrustId = some E.gt := by
  unfold bcPrep at h
  split at h
  · cases h
  · rename_i ltm hl
    split at h
    · cases h
    · split at h
      · cases h
      · rename_i preOpt hpre
        split at h
        · cases h
        · rename_i gt hgt
          simp only at h
          split at h
          · cases h
          · obtain ⟨g1, v1⟩ := bcAlignPre_guard (hs.mat hl) ltm.ts (bcLoadPre_vecIn hs hpre)
            obtain ⟨g2, v2, v3⟩ := bcAlignGt_guard g1 v1 (hs.vec hgt)
            obtain ⟨c3, d3, hx, h4, h5, hp3, ht3, hgt', _⟩ := bcFinish_ok h
            obtain ⟨gc, gd, e1, e2, e3, e4, e5⟩ := guarded_extractDistrust g2 hx
            have vp := vecIn_canonTV v2
            obtain ⟨gc4, m1, m2, m3, _⟩ :=
              guarded_canonLT gc (fun pv hpv => by cases hpv; exact vp) h4
            obtain ⟨gd4, n1, n2, n3, _⟩ := guarded_canonLT gd (fun pv hpv => by cases hpv) h5
            refine ⟨gc4, gd4, by rw [hp3]; exact vp, by rw [ht3]; exact vecIn_canonTV v3, ?_, ?_⟩
            · rw [n2, m1, e4, e1]
            · rw [hgt']; exact hgt

theorem bcWrite_inv {s : GState α} (hs : GInv s) (q : Params α) (E : BcEff α)
    (res : ComputeResult α) (h1 : VecIn res.t) (h2 : VecIn (discountTrustVector res.t E.d4)) :
    GInv (bcWrite s q E res) := by
  unfold bcWrite
  simp only
  have hv1 : ∀ p ∈ (if q.positiveGlobalTrustId == "" then s.vecs
      else match lookup s.vecs q.positiveGlobalTrustId with
        | none => s.vecs
        | some gtp => store s.vecs q.positiveGlobalTrustId ⟨res.t, max gtp.ts E.ts2⟩),
      VecIn p.2.v := by
    split
    · exact hs.2
    · split
      · exact hs.2
      · intro p hp
        rcases mem_store hp with rfl | hp
        · exact h1
        · exact hs.2 p hp
  refine ⟨hs.1, ?_⟩
  intro p hp
  rcases mem_store hp with rfl | hp
  · exact h2
  · exact hv1 p hp

/-- `BasicCompute` keeps the store invariant -/
theorem basicCompute_inv {s : GState α} (hs : GInv s) (fuel : Nat) (k : Grpc.Consts α)
    (params : Option (Params α)) : GInv (basicCompute fuel k s params).1 := by
  cases params with
  | none => exact hs
  | some q =>
    rw [basicCompute_eq]
    cases hp : bcPrep k s q with
    | error c => exact hs
    | ok E =>
      simp only
      cases hc : compute fuel E.c4 E.p3 E.a E.e (bcOpts q E) with
      | error _ => exact hs
      | ok res =>
        simp only
        obtain ⟨gc4, gd4, vp, vt, hdm, _⟩ := bcPrep_guard hs hp
        obtain ⟨hr, hrd⟩ := compute_vecIn hc vp (fun t0 ht0 => by
          simp only [bcOpts, Option.some.injEq] at ht0; subst ht0; exact vt)
        refine bcWrite_inv hs q E res hr (discount_vecIn hr ?_).1
        rw [hrd, ← hdm]
        exact gd4.1

/-- whatever `BasicCompute` answers other than OK, the state is untouched -/
theorem basicCompute_unchanged (fuel : Nat) (k : Grpc.Consts α) (s : GState α)
    (params : Option (Params α)) (h : (basicCompute fuel k s params).2 ≠ .ok) :
    (basicCompute fuel k s params).1 = s := by
  cases params with
  | none => rfl
  | some q =>
    rw [basicCompute_eq] at h ⊢
    cases hp : bcPrep k s q with
    | error c => rfl
    | ok E =>
      rw [hp] at h
      simp only at h ⊢
      cases hc : compute fuel E.c4 E.p3 E.a E.e (bcOpts q E) with
      | error _ => rfl
      | ok res => rw [hc] at h; exact absurd rfl h

end grpc2

/-! ### the playground -/

/-- the optional names file: `none` = unreadable, `some none` = no file -/
def loadNames (u : Upload α) : Option (Option (List String)) :=
  match u.names with
  | none => some none
  | some recs => (readPeerNames recs []).map some

/-- the dimension rule of `calculate` (engine.go 122-146) -/
def alignDims (names : Option (List String)) (lt0 : CSM α) (pt0 : Vec α) :
    Option (CSM α × Vec α) :=
  match names with
  | some ns =>
    let n := ns.length
    if lt0.major > n || pt0.dim > n then none
    else some (if lt0.major < n then lt0.setDim n n else lt0,
               if pt0.dim < n then pt0.setDim n else pt0)
  | none =>
    if lt0.major < pt0.dim then some (lt0.setDim pt0.dim pt0.dim, pt0)
    else if pt0.dim < lt0.major then some (lt0, pt0.setDim lt0.major)
    else some (lt0, pt0)

/-- the displayed peer name -/
def nameOf (names : Option (List String)) (i : Nat) : String :=
  match names with
  | some ns => ns.getD i ""
  | none => s!"Peer {i}"

/-- the unsorted result table -/
def rowsOf (names : Option (List String)) (pt1 t : Vec α) : List (Fe.Row α) :=
  (List.range pt1.dim).map fun i =>
    ({ index := i, name := nameOf names i, score := denE t.entries i,
       flagged := pt1.entries.any (·.idx == i) } : Fe.Row α)

/-- every stage of a successful `calculate` -/
theorem calculate_some {fuel : Nat} {hundred eps : α} {u : Upload α} {rows : List (Fe.Row α)}
    (h : calculate fuel hundred eps u = some rows) :
    ∃ hp names lt0 pt0 lt1 pt1 c d c' d' res,
      u.hunchPercent = some hp ∧ 0 ≤ hp ∧ hp ≤ 100 ∧ loadNames u = some names ∧
      readLocalTrust names u.localTrust = some lt0 ∧ readTrustVector names u.preTrust = some pt0 ∧
      alignDims names lt0 pt0 = some (lt1, pt1) ∧ extractDistrust lt1 = .ok (c, d) ∧
      canonicalizeLocalTrust c (some (canonicalizeTrustVector pt1)) = .ok c' ∧
      canonicalizeLocalTrust d none = .ok d' ∧
      compute fuel c' (canonicalizeTrustVector pt1) (div (ofNat hp.toNat) hundred) eps (pgOpts (div (ofNat hp.toNat) hundred) eps) = .ok res ∧
      rows = sortByScoreDesc (rowsOf names pt1 (discountTrustVector res.t d')) := by
  unfold calculate at h
  split at h
  · cases h
  · rename_i hp hhp
    split at h
    · cases h
    · rename_i hrange
      simp only [Bool.or_eq_true, decide_eq_true_eq, not_or] at hrange
      simp only at h
      split at h
      · cases h
      · rename_i names hnames
        split at h
        · rename_i lt0 pt0 hlt hpt
          split at h
          · cases h
          · rename_i lt1 pt1 hal
            split at h
            · cases h
            · rename_i c d hx
              split at h
              · rename_i c' d' hc hd
                split at h
                · cases h
                · rename_i res hres
                  cases h
                  refine ⟨hp, names, lt0, pt0, lt1, pt1, c, d, c', d', res, hhp, by omega, by omega,
                    hnames, hlt, hpt, ?_, hx, hc, hd, hres, rfl⟩
                  rw [← hal]
                  unfold alignDims
                  cases names <;> rfl
              · cases h
        · cases h

theorem insertByScoreDesc_perm (e : Fe.Row α) (l : List (Fe.Row α)) :
    (insertByScoreDesc e l).Perm (e :: l) := by
  induction l with
  | nil => exact List.Perm.refl _
  | cons x xs ih =>
    unfold insertByScoreDesc
    split
    · exact List.Perm.refl _
    · exact (ih.cons x).trans (List.Perm.swap e x xs)

theorem sortByScoreDesc_perm (l : List (Fe.Row α)) : (sortByScoreDesc l).Perm l := by
  induction l with
  | nil => exact List.Perm.refl _
  | cons e l ih =>
    show (insertByScoreDesc e (sortByScoreDesc l)).Perm (e :: l)
    exact (insertByScoreDesc_perm e _).trans (ih.cons e)

theorem rowsOf_index (names : Option (List String)) (pt1 t : Vec α) :
    (rowsOf names pt1 t).map (·.index) = List.range pt1.dim := by
  unfold rowsOf
  rw [List.map_map]
  conv => rhs; rw [← List.map_id (List.range pt1.dim)]
  rfl

theorem mem_rowsOf {names : Option (List String)} {pt1 t : Vec α} {row : Fe.Row α}
    (h : row ∈ rowsOf names pt1 t) :
    row.index < pt1.dim ∧ row.name = nameOf names row.index ∧
      row.score = denE t.entries row.index ∧
      row.flagged = pt1.entries.any (·.idx == row.index) := by
  unfold rowsOf at h
  simp only [List.mem_map, List.mem_range] at h
  obtain ⟨i, hi, rfl⟩ := h
  exact ⟨hi, rfl, rfl, rfl⟩

/-- the dimension rule -/
theorem alignDims_some {names : Option (List String)} {lt0 lt1 : CSM α} {pt0 pt1 : Vec α}
    (h : alignDims names lt0 pt0 = some (lt1, pt1)) :
    pt1.entries = pt0.entries ∧
    (match names with
      | some ns => pt1.dim = ns.length ∧ lt0.major ≤ ns.length ∧ pt0.dim ≤ ns.length
      | none => pt1.dim = max lt0.major pt0.dim) := by
  unfold alignDims at h
  cases names with
  | some ns =>
    simp only at h ⊢
    split at h
    · cases h
    · rename_i hle
      simp only [Bool.or_eq_true, decide_eq_true_eq, not_or] at hle
      simp only [Option.some.injEq, Prod.mk.injEq] at h
      obtain ⟨_, rfl⟩ := h
      split
      · rename_i hlt
        unfold Vec.setDim
        rw [if_neg (by omega)]
        exact ⟨rfl, rfl, by omega, by omega⟩
      · exact ⟨rfl, by omega, by omega, by omega⟩
  | none =>
    simp only at h ⊢
    split at h
    · rename_i hlt
      cases h
      exact ⟨rfl, by omega⟩
    · split at h
      · rename_i h1 h2
        cases h
        unfold Vec.setDim
        rw [if_neg (by omega)]
        exact ⟨rfl, by simp only; omega⟩
      · rename_i h1 h2
        cases h
        exact ⟨rfl, by omega⟩

section field
variable {K : Type} [_root_.Field K] [LinearOrder K]

theorem sorted_insertByScoreDesc (e : Fe.Row K) {l : List (Fe.Row K)}
    (hl : l.Pairwise (fun a b => b.score ≤ a.score)) :
    (insertByScoreDesc e l).Pairwise (fun a b => b.score ≤ a.score) := by
  induction l with
  | nil => exact List.pairwise_singleton _ _
  | cons x xs ih =>
    unfold insertByScoreDesc
    simp only [s_lt, decide_eq_true_eq]
    split
    · rename_i hlt
      refine List.pairwise_cons.mpr ⟨?_, hl⟩
      intro y hy
      rcases List.mem_cons.mp hy with rfl | hy
      · exact le_of_lt hlt
      · exact le_trans ((List.pairwise_cons.mp hl).1 y hy) (le_of_lt hlt)
    · rename_i hlt
      refine List.pairwise_cons.mpr ⟨?_, ih (List.pairwise_cons.mp hl).2⟩
      intro y hy
      rcases List.mem_cons.mp ((insertByScoreDesc_perm e xs).mem_iff.mp hy) with rfl | hy
      · exact not_lt.mp hlt
      · exact (List.pairwise_cons.mp hl).1 y hy

/-- the result table is ordered by descending score -/
theorem sorted_sortByScoreDesc (l : List (Fe.Row K)) :
    (sortByScoreDesc l).Pairwise (fun a b => b.score ≤ a.score) := by
  induction l with
  | nil => exact List.Pairwise.nil
  | cons e l ih => exact sorted_insertByScoreDesc e ih

end field

/-! ### running maxima over `Int` (inline sizes) -/

theorem ifoldl_max_ge_init {γ : Type} (f : γ → Int) (l : List γ) (a : Int) :
    a ≤ l.foldl (fun d e => max d (f e)) a := by
  induction l generalizing a with
  | nil => exact Int.le_refl _
  | cons x l ih => exact Int.le_trans (Int.le_max_left _ _) (ih _)

theorem ifoldl_max_ge_mem {γ : Type} (f : γ → Int) (l : List γ) (a : Int) {x : γ} (hx : x ∈ l) :
    f x ≤ l.foldl (fun d e => max d (f e)) a := by
  induction l generalizing a with
  | nil => cases hx
  | cons y l ih =>
    rcases List.mem_cons.mp hx with rfl | hx
    · exact Int.le_trans (Int.le_max_right _ _) (ifoldl_max_ge_init f l _)
    · exact ih _ hx

theorem ifoldl_max_attained {γ : Type} (f : γ → Int) (l : List γ) (a : Int) :
    l.foldl (fun d e => max d (f e)) a = a ∨ ∃ x ∈ l, l.foldl (fun d e => max d (f e)) a = f x := by
  induction l generalizing a with
  | nil => left; rfl
  | cons y l ih =>
    rcases ih (max a (f y)) with h | ⟨x, hx, h⟩
    · rw [List.foldl_cons, h]
      rcases Int.le_total a (f y) with h1 | h1
      · right; exact ⟨y, by simp, Int.max_eq_right h1⟩
      · left; exact Int.max_eq_left h1
    · right; exact ⟨x, by simp [hx], h⟩

/-! ### exact sizes of the inline references built by the CLI -/

/-- the inline size is the highest index used + 1 (so every index is in range and the bound is
    attained) -/
def MSizeExact (m : Oapi.IMatrix α) : Prop :=
  (∀ e ∈ m.entries, e.1 < m.size ∧ e.2.1 < m.size) ∧
    ∃ e ∈ m.entries, e.1 + 1 = m.size ∨ e.2.1 + 1 = m.size

def VSizeExact (v : Oapi.IVector α) : Prop :=
  (∀ e ∈ v.entries, e.1 < v.size) ∧ ∃ e ∈ v.entries, e.1 + 1 = v.size

theorem mSizeExact_of_fold {m : Oapi.IMatrix α}
    (h : m.size = m.entries.foldl (fun s e => max s (max (e.1 + 1) (e.2.1 + 1))) 0)
    (h0 : m.size ≠ 0) : MSizeExact m := by
  constructor
  · intro e he
    have := ifoldl_max_ge_mem (fun e : Int × Int × α => max (e.1 + 1) (e.2.1 + 1)) m.entries 0 he
    rw [← h] at this
    omega
  · rcases ifoldl_max_attained (fun e : Int × Int × α => max (e.1 + 1) (e.2.1 + 1)) m.entries 0
      with h1 | ⟨x, hx, h1⟩
    · rw [← h] at h1; exact absurd h1 h0
    · rw [← h] at h1
      refine ⟨x, hx, ?_⟩
      omega

theorem vSizeExact_of_fold {v : Oapi.IVector α}
    (h : v.size = v.entries.foldl (fun s e => max s (e.1 + 1)) 0) (h0 : v.size ≠ 0) :
    VSizeExact v := by
  constructor
  · intro e he
    have := ifoldl_max_ge_mem (fun e : Int × α => e.1 + 1) v.entries 0 he
    rw [← h] at this
    omega
  · rcases ifoldl_max_attained (fun e : Int × α => e.1 + 1) v.entries 0 with h1 | ⟨x, hx, h1⟩
    · rw [← h] at h1; exact absurd h1 h0
    · rw [← h] at h1
      exact ⟨x, hx, h1.symm⟩

/-- what the request says about an optional trust-vector file -/
def VecExact (raw hasHeader : Bool) (tbl : NameTable) (file : Option (List (Record α)))
    (sent : Option (Oapi.IVector α)) : Prop :=
  match file with
  | none => sent = none
  | some recs => ∃ v, sent = some v ∧
      List.Forall₂ (VRel raw tbl) (dataRecs hasHeader recs) v.entries ∧ VSizeExact v

theorem vecExact_of_load {raw hasHeader : Bool} {o : Option (List (Record α))}
    {tbl tbl' tblF : NameTable} {ov : Option (Oapi.IVector α)}
    (h : loadOptV raw hasHeader o tbl = some (ov, tbl')) (hp : tbl' <+: tblF) :
    VecExact raw hasHeader tblF o ov := by
  rcases loadOptV_spec h with ⟨rfl, rfl, _⟩ | ⟨recs, v, rfl, rfl, hl⟩
  · rfl
  · obtain ⟨_, _, hrel, hsz, h0⟩ := cliLoadVector_spec hl
    refine ⟨v, rfl, ?_, vSizeExact_of_fold hsz h0⟩
    refine List.Forall₂.imp ?_ hrel
    rintro r e ⟨f0, rest, hr, hi, hlt, hv⟩
    exact ⟨f0, rest, hr, hi.mono hp, hlt, hv⟩

theorem forall₂_mem_left {β γ : Type} {R : β → γ → Prop} {l : List β} {l' : List γ}
    (h : List.Forall₂ R l l') {a : β} (ha : a ∈ l) : ∃ b ∈ l', R a b := by
  induction h with
  | nil => cases ha
  | cons hab _ ih =>
    rcases List.mem_cons.mp ha with rfl | ha
    · exact ⟨_, by simp, hab⟩
    · obtain ⟨b, hb, hr⟩ := ih ha
      exact ⟨b, by simp [hb], hr⟩

theorem idxOf_raw_nonneg {tbl : NameTable} {f : Fe.Field α} {i : Int} (h : IdxOf true tbl f i) :
    f.parseInt0 = some i ∧ 0 ≤ i := by
  unfold IdxOf at h; simpa using h


theorem forall₂_mem_right {β γ : Type} {R : β → γ → Prop} {l : List β} {l' : List γ}
    (h : List.Forall₂ R l l') {b : γ} (hb : b ∈ l') : ∃ a ∈ l, R a b := by
  induction h with
  | nil => cases hb
  | cons hab _ ih =>
    rcases List.mem_cons.mp hb with rfl | hb
    · exact ⟨_, by simp, hab⟩
    · obtain ⟨a, ha, hr⟩ := ih hb
      exact ⟨a, by simp [ha], hr⟩

/-- the result of the local-trust reader, unpacked -/
theorem readLocalTrust_some {names : Option (List String)} {recs : List (Record α)} {m : CSM α}
    (h : readLocalTrust names recs = some m) :
    ∃ coos, List.Forall₂ (ArcOf names) recs coos ∧
      m = CSM.newCSR (cooDim coos) (cooDim coos) coos false := by
  rw [readLocalTrust_eq] at h
  cases hm : recs.mapM (ltParse names) with
  | none => rw [hm] at h; cases h
  | some coos =>
    rw [hm] at h
    simp only [Option.map_some, Option.some.injEq] at h
    exact ⟨coos, List.Forall₂.imp (fun r c hrc => (ltParse_eq_some_iff names r c).mp hrc)
      ((mapM_eq_some_iff _ _ _).mp hm), h.symm⟩

theorem readTrustVector_some {names : Option (List String)} {recs : List (Record α)} {v : Vec α}
    (h : readTrustVector names recs = some v) :
    ∃ es, List.Forall₂ (EntOf names) recs es ∧ v = Vec.new (entDim es) es := by
  rw [readTrustVector_eq] at h
  cases hm : recs.mapM (tvParse names) with
  | none => rw [hm] at h; cases h
  | some es =>
    rw [hm] at h
    simp only [Option.map_some, Option.some.injEq] at h
    exact ⟨es, List.Forall₂.imp (fun r c hrc => (tvParse_eq_some_iff names r c).mp hrc)
      ((mapM_eq_some_iff _ _ _).mp hm), h.symm⟩

theorem guarded_readLocalTrust {names : Option (List String)} {recs : List (Record α)} {m : CSM α}
    (h : readLocalTrust names recs = some m) : Guarded m ∧ m.major = m.minor := by
  obtain ⟨coos, _, rfl⟩ := readLocalTrust_some h
  exact ⟨guarded_newCSR (fun _ hc => (lt_cooDim hc).2), rfl⟩

theorem vecIn_readTrustVector {names : Option (List String)} {recs : List (Record α)} {v : Vec α}
    (h : readTrustVector names recs = some v) : VecIn v := by
  obtain ⟨es, _, rfl⟩ := readTrustVector_some h
  exact vecIn_new (fun _ he => lt_entDim he)

theorem alignDims_guard {names : Option (List String)} {lt0 lt1 : CSM α} {pt0 pt1 : Vec α}
    (h : alignDims names lt0 pt0 = some (lt1, pt1)) (hl : Guarded lt0) (hp : VecIn pt0) :
    Guarded lt1 ∧ VecIn pt1 := by
  unfold alignDims at h
  cases names with
  | some ns =>
    simp only at h
    split at h
    · cases h
    · simp only [Option.some.injEq, Prod.mk.injEq] at h
      obtain ⟨rfl, rfl⟩ := h
      constructor
      · split
        · exact guarded_setDim hl _ _
        · exact hl
      · split
        · exact vecIn_setDim hp _
        · exact hp
  | none =>
    simp only at h
    split at h
    · cases h; exact ⟨guarded_setDim hl _ _, hp⟩
    · split at h
      · cases h; exact ⟨hl, vecIn_setDim hp _⟩
      · cases h; exact ⟨hl, hp⟩

/-! ### oapi `loadCsvTrustMatrix` / `loadCsvTrustVector` -/

/-- the per-record parser of `loadCsvTrustMatrix` -/
def ocmParse : Record α → Option (Coo α) := fun r =>
  match r with
  | [f0, f1, f2] =>
    match f0.atoi, f1.atoi, f2.float with
    | some i, some j, some v => if i < 0 || j < 0 then none else some ⟨i.toNat, j.toNat, v⟩
    | _, _, _ => none
  | _ => none

/-- the per-record parser of `loadCsvTrustVector` -/
def ocvParse : Record α → Option (Entry α) := fun r =>
  match r with
  | [f0, f1] =>
    match f0.atoi, f1.float with
    | some i, some v => if i < 0 then none else some ⟨i.toNat, v⟩
    | _, _ => none
  | _ => none

theorem oapiCsvMatrix_eq (recs : List (Record α)) :
    oapiCsvMatrix recs =
      match recs with
      | [] => none
      | hdr :: body =>
        if hdr.map (·.raw) != ["i", "j", "v"] then none
        else (body.mapM ocmParse).map fun coos =>
          CSM.newCSR (cooDim coos) (cooDim coos) coos false := by
  unfold oapiCsvMatrix
  cases recs with
  | nil => rfl
  | cons hdr body =>
    simp only
    split
    · rfl
    · change (match body.mapM ocmParse with | none => none | some coos => _) = _
      cases body.mapM ocmParse <;> rfl

theorem oapiCsvVector_eq (recs : List (Record α)) :
    oapiCsvVector recs =
      match recs with
      | [] => none
      | hdr :: body =>
        if hdr.map (·.raw) != ["i", "v"] then none
        else (body.mapM ocvParse).map fun es => Vec.new (entDim es) es := by
  unfold oapiCsvVector
  cases recs with
  | nil => rfl
  | cons hdr body =>
    simp only
    split
    · rfl
    · change (match body.mapM ocvParse with | none => none | some es => _) = _
      cases body.mapM ocvParse <;> rfl

/-- record `r` of an object-storage matrix CSV denotes the arc `c` -/
def OcmArc (r : Record α) (c : Coo α) : Prop :=
  ∃ (f0 f1 f2 : Fe.Field α) (i j : Int), r = [f0, f1, f2] ∧ f0.atoi = some i ∧ f1.atoi = some j ∧
    f2.float = some c.val ∧ 0 ≤ i ∧ 0 ≤ j ∧ c.row = i.toNat ∧ c.col = j.toNat

theorem ocmParse_eq_some_iff (r : Record α) (c : Coo α) : ocmParse r = some c ↔ OcmArc r c := by
  obtain ⟨ci, cj, cv⟩ := c
  unfold ocmParse OcmArc
  constructor
  · intro h
    split at h
    · rename_i f0 f1 f2
      split at h
      · rename_i i j v h0 h1 h2
        split at h
        · cases h
        · rename_i hn
          simp only [Bool.or_eq_true, decide_eq_true_eq, not_or] at hn
          cases h
          exact ⟨f0, f1, f2, i, j, rfl, h0, h1, h2, by omega, by omega, rfl, rfl⟩
      · cases h
    · cases h
  · rintro ⟨f0, f1, f2, i, j, rfl, h0, h1, h2, hi, hj, hr, hc⟩
    simp only at h2 hr hc ⊢
    rw [h0, h1, h2]
    simp only
    rw [if_neg (by simp only [Bool.or_eq_true, decide_eq_true_eq, not_or]; omega), hr, hc]

/-- a successful object-storage matrix load: header `i,j,v`, the exact `NewCSRMatrix` call -/
theorem oapiCsvMatrix_some {recs : List (Record α)} {m : CSM α} (h : oapiCsvMatrix recs = some m) :
    ∃ hdr body coos, recs = hdr :: body ∧ hdr.map (·.raw) = ["i", "j", "v"] ∧
      List.Forall₂ OcmArc body coos ∧ m = CSM.newCSR (cooDim coos) (cooDim coos) coos false := by
  rw [oapiCsvMatrix_eq] at h
  cases recs with
  | nil => cases h
  | cons hdr body =>
    simp only at h
    split at h
    · cases h
    · rename_i hh
      cases hm : body.mapM ocmParse with
      | none => rw [hm] at h; cases h
      | some coos =>
        rw [hm] at h
        simp only [Option.map_some, Option.some.injEq] at h
        refine ⟨hdr, body, coos, rfl, by simpa using hh, ?_, h.symm⟩
        exact List.Forall₂.imp (fun r c hrc => (ocmParse_eq_some_iff r c).mp hrc)
          ((mapM_eq_some_iff _ _ _).mp hm)

theorem guarded_oapiCsvMatrix {recs : List (Record α)} {m : CSM α}
    (h : oapiCsvMatrix recs = some m) : Guarded m ∧ m.major = m.minor := by
  obtain ⟨_, _, coos, _, _, _, rfl⟩ := oapiCsvMatrix_some h
  exact ⟨guarded_newCSR (fun _ hc => (lt_cooDim hc).2), rfl⟩

/-- a negative or non-integer index, a non-float value or a wrong field count is refused -/
theorem oapiCsvMatrix_bad {hdr : Record α} {body : List (Record α)}
    (h : ∃ r ∈ body, r.length ≠ 3 ∨ ∃ f0 f1 f2, r = [f0, f1, f2] ∧
      ((∀ i, f0.atoi = some i → i < 0) ∨ (∀ j, f1.atoi = some j → j < 0) ∨ f2.float = none)) :
    oapiCsvMatrix (hdr :: body) = none := by
  cases hm : oapiCsvMatrix (hdr :: body) with
  | none => rfl
  | some m =>
    exfalso
    obtain ⟨hdr', body', coos, heq, _, hrel, _⟩ := oapiCsvMatrix_some hm
    simp only [List.cons.injEq] at heq
    obtain ⟨rfl, rfl⟩ := heq
    obtain ⟨r, hr, hbad⟩ := h
    obtain ⟨c, _, f0, f1, f2, i, j, rfl, h0, h1, h2, hi, hj, _⟩ := forall₂_mem_left hrel hr
    rcases hbad with hl | ⟨g0, g1, g2, heq, hb⟩
    · exact hl rfl
    · simp only [List.cons.injEq, and_true] at heq
      obtain ⟨rfl, rfl, rfl⟩ := heq
      rcases hb with hb | hb | hb
      · have := hb i h0; omega
      · have := hb j h1; omega
      · rw [hb] at h2; cases h2

theorem vecIn_oapiCsvVector {recs : List (Record α)} {v : Vec α} (h : oapiCsvVector recs = some v) :
    VecIn v := by
  rw [oapiCsvVector_eq] at h
  cases recs with
  | nil => cases h
  | cons hdr body =>
    simp only at h
    split at h
    · cases h
    · cases hm : body.mapM ocvParse with
      | none => rw [hm] at h; cases h
      | some es =>
        rw [hm] at h
        simp only [Option.map_some, Option.some.injEq] at h
        subst h
        exact vecIn_new (fun _ he => lt_entDim he)

/-! ### the CLI loaders accept every well-formed file -/

theorem getPeerIndex_isSome (raw : Bool) (tbl : NameTable) (f : Fe.Field α)
    (h : raw = true → ∃ i, f.parseInt0 = some i ∧ 0 ≤ i) :
    ∃ i tbl1, getPeerIndex raw tbl f = some (i, tbl1) ∧ ¬ i < 0 := by
  cases raw with
  | false =>
    rw [getPeerIndex_name]
    exact ⟨_, _, rfl, by omega⟩
  | true =>
    obtain ⟨i, hi, h0⟩ := h rfl
    rw [getPeerIndex_raw, hi]
    exact ⟨i, tbl, rfl, by omega⟩

/-- a data record the matrix loader accepts (given a field count of 2 or 3) -/
def GoodMRec (raw : Bool) (r : Record α) : Prop :=
  (∀ f0 f1 f2, r = [f0, f1, f2] → f2.float ≠ none) ∧
  (raw = true → ∀ f ∈ r.take 2, ∃ i, f.parseInt0 = some i ∧ 0 ≤ i)

/-- a data record the vector loader accepts (given a field count of 1 or 2) -/
def GoodVRec (raw : Bool) (r : Record α) : Prop :=
  (∀ f0 f1, r = [f0, f1] → ∃ v, f1.float = some v ∧ lt v zero = false) ∧
  (∀ f0, r = [f0] → lt (one : α) zero = false) ∧
  (raw = true → ∀ f ∈ r.take 1, ∃ i, f.parseInt0 = some i ∧ 0 ≤ i)

theorem loadM_go_isSome (raw : Bool) (recs : List (Record α)) (skip : Bool) (tbl : NameTable)
    (size : Int) (acc : List (Int × Int × α))
    (hlen : ∀ r ∈ recs, 2 ≤ r.length ∧ r.length ≤ 3)
    (hgood : ∀ r ∈ dataRecs skip recs, GoodMRec raw r)
    (hne : size ≠ 0 ∨ dataRecs skip recs ≠ []) :
    ∃ x, cliLoadMatrix.go raw recs skip tbl size acc = some x := by
  induction recs generalizing skip tbl size acc with
  | nil =>
    unfold cliLoadMatrix.go
    have hs : size ≠ 0 := by
      rcases hne with h | h
      · exact h
      · cases skip <;> exact absurd rfl h
    rw [if_neg hs]
    exact ⟨_, rfl⟩
  | cons r rs ih =>
    unfold cliLoadMatrix.go
    have hl := hlen r (by simp)
    rw [if_neg (by simp only [Bool.or_eq_true, decide_eq_true_eq, not_or]; omega)]
    cases skip with
    | true =>
      simp only [if_true]
      exact ih false tbl size acc (fun x hx => hlen x (by simp [hx])) hgood
        (by rcases hne with h | h
            · exact Or.inl h
            · exact Or.inr h)
    | false =>
      simp only [Bool.false_eq_true, if_false]
      obtain ⟨f0, r1, rfl⟩ := List.exists_cons_of_length_pos (l := r) (by omega)
      obtain ⟨f1, rest, rfl⟩ := List.exists_cons_of_length_pos (l := r1)
        (by simp only [List.length_cons] at hl; omega)
      have hg := hgood (f0 :: f1 :: rest) (by simp [dataRecs])
      obtain ⟨i, tbl1, hi, hi0⟩ := getPeerIndex_isSome raw tbl f0
        (fun hr => hg.2 hr f0 (by simp))
      obtain ⟨j, tbl2, hj, hj0⟩ := getPeerIndex_isSome raw tbl1 f1
        (fun hr => hg.2 hr f1 (by simp))
      simp only [hi, hj, if_neg hi0, if_neg hj0]
      have hrest : rest = [] ∨ ∃ f2, rest = [f2] := by
        cases rest with
        | nil => exact Or.inl rfl
        | cons f2 rest' =>
          right
          simp only [List.length_cons] at hl
          exact ⟨f2, by rw [List.length_eq_zero_iff.mp (by omega : rest'.length = 0)]⟩
      have hrec : ∀ v, ∃ x, cliLoadMatrix.go raw rs false tbl2 (max size (max (i + 1) (j + 1)))
          ((i, j, v) :: acc) = some x := by
        intro v
        exact ih false tbl2 _ _ (fun x hx => hlen x (by simp [hx]))
          (fun x hx => hgood x (by simp only [dataRecs_false] at hx ⊢; simp [hx]))
          (Or.inl (by omega))
      rcases hrest with rfl | ⟨f2, rfl⟩
      · exact hrec one
      · cases hf : f2.float with
        | none => exact absurd hf (hg.1 f0 f1 f2 rfl)
        | some v => simp only [hf]; exact hrec v

theorem loadV_go_isSome (raw : Bool) (recs : List (Record α)) (skip : Bool) (tbl : NameTable)
    (size : Int) (acc : List (Int × α))
    (hlen : ∀ r ∈ recs, 1 ≤ r.length ∧ r.length ≤ 2)
    (hgood : ∀ r ∈ dataRecs skip recs, GoodVRec raw r)
    (hne : size ≠ 0 ∨ dataRecs skip recs ≠ []) :
    ∃ x, cliLoadVector.go raw recs skip tbl size acc = some x := by
  induction recs generalizing skip tbl size acc with
  | nil =>
    unfold cliLoadVector.go
    have hs : size ≠ 0 := by
      rcases hne with h | h
      · exact h
      · cases skip <;> exact absurd rfl h
    rw [if_neg hs]
    exact ⟨_, rfl⟩
  | cons r rs ih =>
    unfold cliLoadVector.go
    have hl := hlen r (by simp)
    rw [if_neg (by simp only [Bool.or_eq_true, decide_eq_true_eq, not_or]; omega)]
    cases skip with
    | true =>
      simp only [if_true]
      exact ih false tbl size acc (fun x hx => hlen x (by simp [hx])) hgood
        (by rcases hne with h | h
            · exact Or.inl h
            · exact Or.inr h)
    | false =>
      simp only [Bool.false_eq_true, if_false]
      obtain ⟨f0, rest, rfl⟩ := List.exists_cons_of_length_pos (l := r) (by omega)
      have hg := hgood (f0 :: rest) (by simp [dataRecs])
      obtain ⟨i, tbl1, hi, hi0⟩ := getPeerIndex_isSome raw tbl f0
        (fun hr => hg.2.2 hr f0 (by simp))
      simp only [hi, if_neg hi0]
      have hrest : rest = [] ∨ ∃ f1, rest = [f1] := by
        cases rest with
        | nil => exact Or.inl rfl
        | cons f1 rest' =>
          right
          simp only [List.length_cons] at hl
          exact ⟨f1, by rw [List.length_eq_zero_iff.mp (by omega : rest'.length = 0)]⟩
      have hrec : ∀ v, ∃ x, cliLoadVector.go raw rs false tbl1 (max size (i + 1))
          ((i, v) :: acc) = some x := by
        intro v
        exact ih false tbl1 _ _ (fun x hx => hlen x (by simp [hx]))
          (fun x hx => hgood x (by simp only [dataRecs_false] at hx ⊢; simp [hx]))
          (Or.inl (by omega))
      rcases hrest with rfl | ⟨f1, rfl⟩
      · simp only
        rw [if_neg (by rw [hg.2.1 f0 rfl]; simp)]
        exact hrec one
      · obtain ⟨v, hv, hlt⟩ := hg.1 f0 f1 rfl
        simp only [hv]
        rw [if_neg (by rw [hlt]; simp)]
        exact hrec v

end EtVerif.FeL
