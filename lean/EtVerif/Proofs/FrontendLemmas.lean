/-
  Helper lemmas for the CSV / CLI / playground front-ends (Model/Frontends.lean) and for the
  panic guards of all front-ends (C15).  Everything here is structural and is stated for an
  arbitrary `Scalar α`.
-/
import EtVerif.Model.Frontends
import EtVerif.Model.Grpc
import EtVerif.Props.C05
import Mathlib.Data.List.Basic
import Mathlib.Data.List.Forall2

namespace EtVerif.FeL
open EtVerif EtVerif.Fe Scalar

variable {α : Type} [Scalar α]

/-! ### generic list facts -/

/-- `List.mapM` in `Option` succeeds iff every element is mapped, pointwise. -/
theorem mapM_eq_some_iff {β γ : Type} (f : β → Option γ) (l : List β) (l' : List γ) :
    l.mapM f = some l' ↔ List.Forall₂ (fun a b => f a = some b) l l' := by
  induction l generalizing l' with
  | nil =>
    simp only [List.mapM_nil, List.forall₂_nil_left_iff]
    constructor
    · intro h; cases h; rfl
    · intro h; rw [h]; rfl
  | cons a l ih =>
    rw [List.mapM_cons]
    cases ha : f a with
    | none =>
      simp only [Option.bind_eq_bind, Option.bind_none, reduceCtorEq, false_iff]
      intro h
      cases h with
      | cons h1 _ => rw [ha] at h1; cases h1
    | some b =>
      cases hl : l.mapM f with
      | none =>
        simp only [Option.bind_eq_bind, Option.bind_some, Option.bind_none, reduceCtorEq,
          false_iff]
        intro h
        cases h with
        | cons h1 h2 =>
          have := (ih _).mpr h2
          rw [hl] at this; cases this
      | some bs =>
        simp only [Option.bind_eq_bind, Option.bind_some, Option.pure_def, Option.some.injEq]
        constructor
        · intro h
          subst h
          exact List.Forall₂.cons ha ((ih _).mp hl)
        · intro h
          cases h with
          | cons h1 h2 =>
            rw [ha] at h1
            cases h1
            have := (ih _).mpr h2
            rw [hl] at this
            cases this
            rfl

theorem mapM_eq_none_iff {β γ : Type} (f : β → Option γ) (l : List β) :
    l.mapM f = none ↔ ∃ a ∈ l, f a = none := by
  induction l with
  | nil => simp
  | cons a l ih =>
    rw [List.mapM_cons]
    cases ha : f a with
    | none => simp [ha]
    | some b =>
      cases hl : l.mapM f with
      | none =>
        obtain ⟨x, hx, hx'⟩ := ih.mp hl
        simp only [Option.bind_eq_bind, Option.bind_some, Option.bind_none, List.mem_cons,
          true_iff]
        exact ⟨x, Or.inr hx, hx'⟩
      | some bs =>
        simp only [Option.bind_eq_bind, Option.bind_some, Option.pure_def, reduceCtorEq,
          List.mem_cons, false_iff]
        rintro ⟨x, rfl | hx, hx'⟩
        · rw [ha] at hx'; cases hx'
        · have := ih.mpr ⟨x, hx, hx'⟩
          rw [hl] at this; cases this

/-- running maximum: lower bound from the start value -/
theorem foldl_max_ge_init {γ : Type} (f : γ → Nat) (l : List γ) (a : Nat) :
    a ≤ l.foldl (fun d e => max d (f e)) a := by
  induction l generalizing a with
  | nil => exact Nat.le_refl _
  | cons x l ih => exact Nat.le_trans (Nat.le_max_left _ _) (ih _)

theorem foldl_max_ge_mem {γ : Type} (f : γ → Nat) (l : List γ) (a : Nat) {x : γ} (hx : x ∈ l) :
    f x ≤ l.foldl (fun d e => max d (f e)) a := by
  induction l generalizing a with
  | nil => cases hx
  | cons y l ih =>
    rcases List.mem_cons.mp hx with rfl | hx
    · exact Nat.le_trans (Nat.le_max_right _ _) (foldl_max_ge_init f l _)
    · exact ih _ hx

/-- running maximum is attained: by the start value or by an element -/
theorem foldl_max_attained {γ : Type} (f : γ → Nat) (l : List γ) (a : Nat) :
    l.foldl (fun d e => max d (f e)) a = a ∨ ∃ x ∈ l, l.foldl (fun d e => max d (f e)) a = f x := by
  induction l generalizing a with
  | nil => left; rfl
  | cons y l ih =>
    rcases ih (max a (f y)) with h | ⟨x, hx, h⟩
    · rw [List.foldl_cons, h]
      rcases Nat.le_total a (f y) with h1 | h1
      · right; exact ⟨y, by simp, Nat.max_eq_right h1⟩
      · left; exact Nat.max_eq_left h1
    · right; exact ⟨x, by simp [hx], h⟩

end EtVerif.FeL
