/-
  Helper lemmas for the CSV / CLI / playground front-ends (Model/Frontends.lean) and for the
  panic guards of all front-ends (C15).  Everything here is structural and is stated for an
  arbitrary `Scalar α`.
-/
import EtVerif.Model.Frontends
import EtVerif.Model.Grpc
import EtVerif.Props.C05
import Mathlib.Data.List.Basic
import Mathlib.Data.List.Forall2

namespace EtVerif.FeL
open EtVerif EtVerif.Fe Scalar

variable {α : Type} [Scalar α]

set_option linter.unusedSectionVars false

/-! ### generic list facts -/

/-- `List.mapM` in `Option` succeeds iff every element is mapped, pointwise. -/
theorem mapM_eq_some_iff {β γ : Type} (f : β → Option γ) (l : List β) (l' : List γ) :
    l.mapM f = some l' ↔ List.Forall₂ (fun a b => f a = some b) l l' := by
  induction l generalizing l' with
  | nil =>
    simp only [List.mapM_nil, List.forall₂_nil_left_iff]
    constructor
    · intro h; cases h; rfl
    · intro h; rw [h]; rfl
  | cons a l ih =>
    rw [List.mapM_cons]
    cases ha : f a with
    | none =>
      simp only [Option.bind_eq_bind, Option.bind_none, reduceCtorEq, false_iff]
      intro h
      cases h with
      | cons h1 _ => rw [ha] at h1; cases h1
    | some b =>
      cases hl : l.mapM f with
      | none =>
        simp only [Option.bind_eq_bind, Option.bind_some, Option.bind_none, reduceCtorEq,
          false_iff]
        intro h
        cases h with
        | cons h1 h2 =>
          have := (ih _).mpr h2
          rw [hl] at this; cases this
      | some bs =>
        simp only [Option.bind_eq_bind, Option.bind_some, Option.pure_def, Option.some.injEq]
        constructor
        · intro h
          subst h
          exact List.Forall₂.cons ha ((ih _).mp hl)
        · intro h
          cases h with
          | cons h1 h2 =>
            rw [ha] at h1
            cases h1
            have := (ih _).mpr h2
            rw [hl] at this
            cases this
            rfl

theorem mapM_eq_none_iff {β γ : Type} (f : β → Option γ) (l : List β) :
    l.mapM f = none ↔ ∃ a ∈ l, f a = none := by
  induction l with
  | nil => simp
  | cons a l ih =>
    rw [List.mapM_cons]
    cases ha : f a with
    | none => simp [ha]
    | some b =>
      cases hl : l.mapM f with
      | none =>
        obtain ⟨x, hx, hx'⟩ := ih.mp hl
        simp only [Option.bind_eq_bind, Option.bind_some, Option.bind_none, List.mem_cons,
          true_iff]
        exact ⟨x, Or.inr hx, hx'⟩
      | some bs =>
        simp only [Option.bind_eq_bind, Option.bind_some, Option.pure_def, reduceCtorEq,
          List.mem_cons, false_iff]
        rintro ⟨x, rfl | hx, hx'⟩
        · rw [ha] at hx'; cases hx'
        · have := ih.mpr ⟨x, hx, hx'⟩
          rw [hl] at this; cases this

/-- running maximum: lower bound from the start value -/
theorem foldl_max_ge_init {γ : Type} (f : γ → Nat) (l : List γ) (a : Nat) :
    a ≤ l.foldl (fun d e => max d (f e)) a := by
  induction l generalizing a with
  | nil => exact Nat.le_refl _
  | cons x l ih => exact Nat.le_trans (Nat.le_max_left _ _) (ih _)

theorem foldl_max_ge_mem {γ : Type} (f : γ → Nat) (l : List γ) (a : Nat) {x : γ} (hx : x ∈ l) :
    f x ≤ l.foldl (fun d e => max d (f e)) a := by
  induction l generalizing a with
  | nil => cases hx
  | cons y l ih =>
    rcases List.mem_cons.mp hx with rfl | hx
    · exact Nat.le_trans (Nat.le_max_right _ _) (foldl_max_ge_init f l _)
    · exact ih _ hx

/-- running maximum is attained: by the start value or by an element -/
theorem foldl_max_attained {γ : Type} (f : γ → Nat) (l : List γ) (a : Nat) :
    l.foldl (fun d e => max d (f e)) a = a ∨ ∃ x ∈ l, l.foldl (fun d e => max d (f e)) a = f x := by
  induction l generalizing a with
  | nil => left; rfl
  | cons y l ih =>
    rcases ih (max a (f y)) with h | ⟨x, hx, h⟩
    · rw [List.foldl_cons, h]
      rcases Nat.le_total a (f y) with h1 | h1
      · right; exact ⟨y, by simp, Nat.max_eq_right h1⟩
      · left; exact Nat.max_eq_left h1
    · right; exact ⟨x, by simp [hx], h⟩

/-! ### first-appearance order and the CLI name table -/

/-- one step of the name table: append the name unless it is already present -/
def faStep (acc : List String) (n : String) : List String := if n ∈ acc then acc else acc ++ [n]

/-- the table after seeing `names`, starting from `tbl` -/
def faFrom (tbl : List String) (names : List String) : List String := names.foldl faStep tbl

/-- duplicates removed, first occurrences kept -/
def firstAppearance (names : List String) : List String := faFrom [] names

@[simp] theorem faFrom_nil (tbl : List String) : faFrom tbl [] = tbl := rfl
@[simp] theorem faFrom_cons (tbl : List String) (n : String) (ns : List String) :
    faFrom tbl (n :: ns) = faFrom (faStep tbl n) ns := rfl

theorem faFrom_append (tbl a b : List String) : faFrom tbl (a ++ b) = faFrom (faFrom tbl a) b := by
  unfold faFrom; rw [List.foldl_append]

theorem faStep_prefix (acc : List String) (n : String) : acc <+: faStep acc n := by
  unfold faStep; split
  · exact List.prefix_refl _
  · exact List.prefix_append _ _

theorem mem_faStep {acc : List String} {n x : String} : x ∈ faStep acc n ↔ x ∈ acc ∨ x = n := by
  unfold faStep; split
  · rename_i h
    constructor
    · exact Or.inl
    · rintro (h' | rfl)
      · exact h'
      · exact h
  · simp

theorem faStep_nodup {acc : List String} (h : acc.Nodup) (n : String) : (faStep acc n).Nodup := by
  unfold faStep; split
  · exact h
  · rename_i hn
    rw [List.nodup_append]
    refine ⟨h, List.nodup_singleton _, ?_⟩
    intro a ha b hb
    rw [List.mem_singleton] at hb
    subst hb
    rintro rfl
    exact hn ha

theorem faFrom_prefix (tbl names : List String) : tbl <+: faFrom tbl names := by
  induction names generalizing tbl with
  | nil => exact List.prefix_refl _
  | cons n ns ih => exact (faStep_prefix tbl n).trans (ih _)

theorem mem_faFrom {tbl names : List String} {x : String} :
    x ∈ faFrom tbl names ↔ x ∈ tbl ∨ x ∈ names := by
  induction names generalizing tbl with
  | nil => simp
  | cons n ns ih =>
    rw [faFrom_cons, ih, mem_faStep, List.mem_cons]
    constructor
    · rintro ((h | h) | h)
      · exact Or.inl h
      · exact Or.inr (Or.inl h)
      · exact Or.inr (Or.inr h)
    · rintro (h | h | h)
      · exact Or.inl (Or.inl h)
      · exact Or.inl (Or.inr h)
      · exact Or.inr h

theorem faFrom_nodup {tbl : List String} (h : tbl.Nodup) (names : List String) :
    (faFrom tbl names).Nodup := by
  induction names generalizing tbl with
  | nil => exact h
  | cons n ns ih => exact ih (faStep_nodup h n)

/-- on a duplicate-free continuation nothing is dropped -/
theorem faFrom_of_nodup (acc l : List String) (h : (acc ++ l).Nodup) : faFrom acc l = acc ++ l := by
  induction l generalizing acc with
  | nil => simp
  | cons x l ih =>
    have hx : x ∉ acc := by
      intro hx
      rw [List.nodup_append] at h
      exact h.2.2 x hx x (by simp) rfl
    have : faStep acc x = acc ++ [x] := by unfold faStep; rw [if_neg hx]
    rw [faFrom_cons, this, ih _ (by simpa using h)]
    simp

/-- continuing from a duplicate-free table = first appearance of the concatenated stream -/
theorem faFrom_eq_firstAppearance {tbl : List String} (h : tbl.Nodup) (names : List String) :
    faFrom tbl names = firstAppearance (tbl ++ names) := by
  unfold firstAppearance
  rw [faFrom_append, faFrom_of_nodup [] tbl (by simpa using h)]
  simp

theorem firstAppearance_nodup (l : List String) : (firstAppearance l).Nodup :=
  faFrom_nodup List.nodup_nil l

theorem mem_firstAppearance {l : List String} {x : String} : x ∈ firstAppearance l ↔ x ∈ l := by
  unfold firstAppearance; rw [mem_faFrom]; simp

theorem firstAppearance_append_singleton (l : List String) (x : String) :
    firstAppearance (l ++ [x]) = faStep (firstAppearance l) x := by
  unfold firstAppearance; rw [faFrom_append]; rfl

/-- the surviving names are ordered by their first position in the stream -/
theorem firstAppearance_ordered (l : List String) :
    (firstAppearance l).Pairwise (fun a b => l.idxOf a < l.idxOf b) := by
  induction l using List.reverseRecOn with
  | nil => exact List.Pairwise.nil
  | append_singleton l x ih =>
    rw [firstAppearance_append_singleton]
    have hmono : (firstAppearance l).Pairwise
        (fun a b => (l ++ [x]).idxOf a < (l ++ [x]).idxOf b) := by
      refine List.Pairwise.imp_of_mem ?_ ih
      intro a b ha hb hab
      rw [List.idxOf_append_of_mem (mem_firstAppearance.mp ha),
        List.idxOf_append_of_mem (mem_firstAppearance.mp hb)]
      exact hab
    unfold faStep
    split
    · exact hmono
    · rename_i hx
      rw [List.pairwise_append]
      refine ⟨hmono, List.pairwise_singleton _ _, ?_⟩
      intro a ha b hb
      rw [List.mem_singleton] at hb
      subst hb
      have hbl : b ∉ l := fun h => hx (mem_firstAppearance.mpr h)
      have hal := mem_firstAppearance.mp ha
      rw [List.idxOf_append_of_mem hal, List.idxOf_append_of_notMem hbl]
      have := List.idxOf_lt_length_of_mem hal
      simp
      omega

/-- the position of a present name does not change when the table is extended -/
theorem idxOf_of_prefix {l1 l2 : List String} (hp : l1 <+: l2) {a : String} (ha : a ∈ l1) :
    l2.idxOf a = l1.idxOf a := by
  obtain ⟨t, rfl⟩ := hp
  exact List.idxOf_append_of_mem ha

theorem getElem?_of_prefix {l1 l2 : List String} (hp : l1 <+: l2) {i : Nat} (hi : i < l1.length) :
    l2[i]? = l1[i]? := by
  obtain ⟨t, rfl⟩ := hp
  rw [List.getElem?_append_left hi]

/-- `getPeerIndex` in name mode: the index is the position in the extended table -/
theorem getPeerIndex_name (tbl : NameTable) (f : Fe.Field α) :
    getPeerIndex false tbl f =
      some ((((faStep tbl f.raw).idxOf f.raw : Nat) : Int), faStep tbl f.raw) := by
  unfold getPeerIndex faStep
  simp only [Bool.false_eq_true, if_false]
  by_cases h : f.raw ∈ tbl
  · rw [if_pos (List.idxOf_lt_length_iff.mpr h), if_pos h]
  · rw [if_neg (fun hh => h (List.idxOf_lt_length_iff.mp hh)), if_neg h,
      List.idxOf_append_of_notMem h]
    simp

theorem getPeerIndex_raw (tbl : NameTable) (f : Fe.Field α) :
    getPeerIndex true tbl f = f.parseInt0.map fun i => (i, tbl) := by
  unfold getPeerIndex; simp

/-- `getPeerIndex` over a sequence of fields, threading the table -/
def indexAll (raw : Bool) : NameTable → List (Fe.Field α) → Option (List Int × NameTable)
  | tbl, [] => some ([], tbl)
  | tbl, f :: fs =>
    match getPeerIndex raw tbl f with
    | none => none
    | some (i, tbl1) =>
      match indexAll raw tbl1 fs with
      | none => none
      | some (is, t) => some (i :: is, t)

theorem indexAll_name (tbl : NameTable) (fs : List (Fe.Field α)) :
    indexAll false tbl fs =
      some (fs.map (fun f => (((faFrom tbl (fs.map (·.raw))).idxOf f.raw : Nat) : Int)),
        faFrom tbl (fs.map (·.raw))) := by
  induction fs generalizing tbl with
  | nil => rfl
  | cons f fs ih =>
    rw [indexAll, getPeerIndex_name]
    simp only
    rw [ih]
    simp only [List.map_cons, faFrom_cons, Option.some.injEq, Prod.mk.injEq, List.cons.injEq,
      and_true, Int.natCast_inj]
    exact (idxOf_of_prefix (faFrom_prefix _ _) (mem_faStep.mpr (Or.inr rfl))).symm

/-! ### the CLI CSV loaders -/

/-- the data records of a CSV file: the first record is skipped when a header is expected -/
def dataRecs (hasHeader : Bool) (recs : List (Record α)) : List (Record α) :=
  if hasHeader then recs.drop 1 else recs

/-- the table after looking up `names` (unchanged in raw mode) -/
def tblAfter (raw : Bool) (tbl : NameTable) (names : List String) : NameTable :=
  if raw then tbl else faFrom tbl names

/-- names looked up by a local-trust file: `from`, `to` of each data record, in order -/
def mNames (recs : List (Record α)) : List String :=
  recs.flatMap fun r => (r.take 2).map (·.raw)

/-- names looked up by a trust-vector file: the first field of each data record -/
def vNames (recs : List (Record α)) : List String :=
  recs.flatMap fun r => (r.take 1).map (·.raw)

/-- `i` is the index the CLI uses for field `f` (relative to the final name table `tbl`):
    raw mode — the `ParseInt(s,0,0)` value, which must be non-negative;
    name mode — the position of the name in the table. -/
def IdxOf (raw : Bool) (tbl : NameTable) (f : Fe.Field α) (i : Int) : Prop :=
  if raw then f.parseInt0 = some i ∧ 0 ≤ i
  else f.raw ∈ tbl ∧ i = ((tbl.idxOf f.raw : Nat) : Int)

/-- record `r` of a local-trust CSV yields the inline entry `e` -/
def MRel (raw : Bool) (tbl : NameTable) (r : Record α) (e : Int × Int × α) : Prop :=
  ∃ f0 f1 rest, r = f0 :: f1 :: rest ∧ IdxOf raw tbl f0 e.1 ∧ IdxOf raw tbl f1 e.2.1 ∧
    ((rest = [] ∧ e.2.2 = one) ∨ ∃ f2, rest = [f2] ∧ f2.float = some e.2.2)

/-- record `r` of a trust-vector CSV yields the inline entry `e` -/
def VRel (raw : Bool) (tbl : NameTable) (r : Record α) (e : Int × α) : Prop :=
  ∃ f0 rest, r = f0 :: rest ∧ IdxOf raw tbl f0 e.1 ∧ lt e.2 zero = false ∧
    ((rest = [] ∧ e.2 = one) ∨ ∃ f1, rest = [f1] ∧ f1.float = some e.2)

theorem tblAfter_prefix (raw : Bool) (tbl : NameTable) (names : List String) :
    tbl <+: tblAfter raw tbl names := by
  unfold tblAfter; split
  · exact List.prefix_refl _
  · exact faFrom_prefix _ _

theorem tblAfter_nil (raw : Bool) (tbl : NameTable) : tblAfter raw tbl [] = tbl := by
  unfold tblAfter; split <;> rfl

theorem tblAfter_append (raw : Bool) (tbl : NameTable) (a b : List String) :
    tblAfter raw tbl (a ++ b) = tblAfter raw (tblAfter raw tbl a) b := by
  unfold tblAfter; cases raw
  · simp [faFrom_append]
  · simp

theorem IdxOf.mono {raw : Bool} {t1 t2 : NameTable} {f : Fe.Field α} {i : Int}
    (h : IdxOf raw t1 f i) (hp : t1 <+: t2) : IdxOf raw t2 f i := by
  unfold IdxOf at h ⊢
  cases raw
  · simp only [Bool.false_eq_true, if_false] at h ⊢
    exact ⟨hp.subset h.1, by rw [idxOf_of_prefix hp h.1]; exact h.2⟩
  · exact h

/-- one `getPeerIndex` call that returned a non-negative index -/
theorem getPeerIndex_spec {raw : Bool} {tbl tbl1 : NameTable} {f : Fe.Field α} {i : Int}
    (h : getPeerIndex raw tbl f = some (i, tbl1)) (hi : ¬ i < 0) :
    tbl1 = tblAfter raw tbl [f.raw] ∧ IdxOf raw tbl1 f i := by
  cases raw
  · rw [getPeerIndex_name] at h
    simp only [Option.some.injEq, Prod.mk.injEq] at h
    obtain ⟨h1, h2⟩ := h
    subst h2
    refine ⟨rfl, ?_⟩
    unfold IdxOf
    simp only [Bool.false_eq_true, if_false]
    exact ⟨mem_faStep.mpr (Or.inr rfl), h1.symm⟩
  · rw [getPeerIndex_raw] at h
    cases hp : f.parseInt0 with
    | none => rw [hp] at h; cases h
    | some j =>
      rw [hp] at h
      simp only [Option.map_some, Option.some.injEq, Prod.mk.injEq] at h
      obtain ⟨h1, h2⟩ := h
      subst h1 h2
      refine ⟨rfl, ?_⟩
      unfold IdxOf
      simp only [if_true]
      exact ⟨hp, by omega⟩

theorem dataRecs_cons_true (r : Record α) (rs : List (Record α)) : dataRecs true (r :: rs) = rs := rfl
theorem dataRecs_false (rs : List (Record α)) : dataRecs false rs = rs := rfl

theorem mNames_cons2 (f0 f1 : Fe.Field α) (rest : Record α) (rs : List (Record α)) :
    mNames ((f0 :: f1 :: rest) :: rs) = [f0.raw] ++ ([f1.raw] ++ mNames rs) := by
  simp [mNames]

theorem vNames_cons1 (f0 : Fe.Field α) (rest : Record α) (rs : List (Record α)) :
    vNames ((f0 :: rest) :: rs) = [f0.raw] ++ vNames rs := by
  simp [vNames]

/-- everything a successful run of the matrix loader loop implies -/
theorem loadM_go_spec (raw : Bool) (recs : List (Record α)) (skip : Bool) (tbl : NameTable)
    (size : Int) (acc : List (Int × Int × α)) (m : Oapi.IMatrix α) (tbl' : NameTable)
    (h : cliLoadMatrix.go raw recs skip tbl size acc = some (m, tbl')) :
    (∀ r ∈ recs, 2 ≤ r.length ∧ r.length ≤ 3) ∧
    tbl' = tblAfter raw tbl (mNames (dataRecs skip recs)) ∧
    ∃ es, List.Forall₂ (MRel raw tbl') (dataRecs skip recs) es ∧ m.entries = acc.reverse ++ es ∧
      m.size = es.foldl (fun s e => max s (max (e.1 + 1) (e.2.1 + 1))) size ∧ m.size ≠ 0 := by
  induction recs generalizing skip tbl size acc with
  | nil =>
    unfold cliLoadMatrix.go at h
    split at h
    · cases h
    · rename_i hs
      simp only [Option.some.injEq, Prod.mk.injEq] at h
      obtain ⟨h1, h2⟩ := h
      subst h1 h2
      refine ⟨by simp, ?_, [], ?_, by simp, rfl, hs⟩
      · cases skip <;> simp [dataRecs, mNames, tblAfter_nil]
      · cases skip <;> exact List.Forall₂.nil
  | cons r rs ih =>
    unfold cliLoadMatrix.go at h
    split at h
    · cases h
    · rename_i hlen
      have hlen' : 2 ≤ r.length ∧ r.length ≤ 3 := by
        simp only [Bool.or_eq_true, decide_eq_true_eq, not_or] at hlen; omega
      split at h
      · -- header record
        rename_i hskip
        subst hskip
        obtain ⟨a, b, c⟩ := ih false tbl size acc h
        refine ⟨?_, ?_, ?_⟩
        · intro x hx
          rcases List.mem_cons.mp hx with rfl | hx
          · exact hlen'
          · exact a x hx
        · rw [dataRecs_cons_true]; rw [dataRecs_false] at b; exact b
        · rw [dataRecs_cons_true]; rw [dataRecs_false] at c; exact c
      · rename_i hskip
        have hskip : skip = false := by simpa using hskip
        subst hskip
        split at h
        · rename_i f0 f1 rest
          split at h
          · cases h
          · rename_i from_ tbl1 hg0
            split at h
            · cases h
            · rename_i hneg0
              split at h
              · cases h
              · rename_i to_ tbl2 hg1
                split at h
                · cases h
                · rename_i hneg1
                  have key : ∃ v, ((rest = [] ∧ v = one) ∨ ∃ f2, rest = [f2] ∧ f2.float = some v) ∧
                      cliLoadMatrix.go raw rs false tbl2 (max size (max (from_ + 1) (to_ + 1)))
                        ((from_, to_, v) :: acc) = some (m, tbl') := by
                    cases rest with
                    | nil => exact ⟨one, Or.inl ⟨rfl, rfl⟩, h⟩
                    | cons f2 rest' =>
                      have hr : rest' = [] := by
                        simp only [List.length_cons] at hlen'
                        exact List.length_eq_zero_iff.mp (by omega)
                      subst hr
                      simp only at h
                      cases hf : f2.float with
                      | none => rw [hf] at h; simp only [reduceCtorEq] at h
                      | some v =>
                        rw [hf] at h
                        exact ⟨v, Or.inr ⟨f2, rfl, rfl⟩, h⟩
                  obtain ⟨v, hv, h⟩ := key
                  · obtain ⟨a, b, es, c1, c2, c3, c4⟩ := ih false tbl2 _ _ h
                    obtain ⟨e0, i0⟩ := getPeerIndex_spec hg0 hneg0
                    obtain ⟨e1, i1⟩ := getPeerIndex_spec hg1 hneg1
                    rw [dataRecs_false] at b c1
                    have htbl : tbl' = tblAfter raw tbl
                        (mNames (dataRecs false ((f0 :: f1 :: rest) :: rs))) := by
                      rw [dataRecs_false, mNames_cons2, tblAfter_append, tblAfter_append, ← e0,
                        ← e1]
                      exact b
                    have hp2 : tbl2 <+: tbl' := by rw [b]; exact tblAfter_prefix _ _ _
                    have hp1 : tbl1 <+: tbl' := by
                      refine List.IsPrefix.trans ?_ hp2
                      rw [e1]; exact tblAfter_prefix _ _ _
                    refine ⟨?_, htbl, (from_, to_, v) :: es, ?_, ?_, ?_, c4⟩
                    · intro x hx
                      rcases List.mem_cons.mp hx with rfl | hx
                      · exact hlen'
                      · exact a x hx
                    · rw [dataRecs_false]
                      refine List.Forall₂.cons ?_ c1
                      exact ⟨f0, f1, rest, rfl, i0.mono hp1, i1.mono hp2, hv⟩
                    · rw [c2]; simp
                    · rw [c3]; rfl
        · cases h

end EtVerif.FeL
