/-
  Refinement of the translated flat-tail checker of pkg/basic (Gen/Translated.lean, regenerated from
  /repo) to the hand-written model (`FlatTailStats.init`, `FlatTailStats.update`, `rankOf`).
-/
import EtVerif.Proofs.TrHelpers
namespace EtVerif.Tr
open EtVerif EtVerif.GoSem EtVerif.Gen Scalar
variable {α : Type} [Scalar α]

-- some statements do not use the scalar operations; the instance stays in the signatures for uniformity
set_option linter.unusedSectionVars false

/-! ### NewFlatTailChecker -/

/-- `NewFlatTailChecker` resets whatever statistics object it is given (or a fresh one) to the initial stats. -/
theorem NewFlatTailChecker_refines (len nl : Int) (s0 : Option (GFlatTailStats α)) :
    (Gen.NewFlatTailChecker len nl s0).map (fun r => r.2) =
      .ok { length := len, numLeaders := nl, stats := some (toGStats (FlatTailStats.init : FlatTailStats α)) } := by
  cases s0 <;>
  simp [Gen.NewFlatTailChecker, NewFlatTailChecker.body, Stm.run, Stm.seq, Stm.set, Stm.ite, Stm.skip, Stm.ret,
    goDeref, toGStats, FlatTailStats.init, bind, Except.bind, pure, Except.pure, Except.map]

/-! ### the sort and the ranking -/

theorem insertByVal_length (e : Entry α) (es : List (Entry α)) :
    (insertByVal e es).length = es.length + 1 := by
  induction es with
  | nil => rfl
  | cons x xs ih =>
    simp only [insertByVal]
    split <;> simp [ih]

theorem sortByVal_length (es : List (Entry α)) : (sortByVal es).length = es.length := by
  induction es with
  | nil => rfl
  | cons x xs ih =>
    have : sortByVal (x :: xs) = insertByVal x (sortByVal xs) := rfl
    rw [this, insertByVal_length, ih, List.length_cons]

theorem rankOf_ne_nil (es : List (Entry α)) (nl : Nat) (hes : es ≠ []) (hnl : 0 < nl) :
    rankOf es nl ≠ [] := by
  have hl : 0 < es.length := List.length_pos_iff.mpr hes
  intro h
  have h2 := congrArg List.length h
  simp only [rankOf, List.length_map, sortByVal_length] at h2
  by_cases hc : es.length > nl
  · simp only [hc, if_true, List.length_drop, List.length_map, sortByVal_length, List.length_nil] at h2
    omega
  · simp only [hc, if_false, List.length_map, sortByVal_length, List.length_nil] at h2
    omega

/-- the truncation `ranking[len(ranking)-numLeaders:]` (when longer than `numLeaders`) on the Go side is the
    model's `drop`. -/
theorem go_truncate (r : List Nat) (nl : Nat) :
    (if (r.length : Int) > (nl : Int) then
        goSlice (r.map (fun (i : Nat) => (i : Int))) ((r.length : Int) - (nl : Int)) (r.length : Int)
      else .ok (r.map (fun (i : Nat) => (i : Int)))) =
      .ok ((if r.length > nl then r.drop (r.length - nl) else r).map (fun (i : Nat) => (i : Int))) := by
  by_cases h : r.length > nl
  · have h1 : (r.length : Int) > (nl : Int) := by omega
    have h2 : ((r.length : Int) - (nl : Int)).toNat = r.length - nl := by omega
    have h3 : (0 : Int) ≤ (r.length : Int) - (nl : Int) ∧ (r.length : Int) - (nl : Int) ≤ (r.length : Int) := by
      omega
    have h4 : List.take r.length (r.map (fun (i : Nat) => (i : Int))) = r.map (fun (i : Nat) => (i : Int)) :=
      List.take_of_length_le (by simp)
    simp [goSlice, h, h1, h2, h3, h4, List.map_drop, Nat.le_of_lt h]
  · have h1 : ¬ ((r.length : Int) > (nl : Int)) := by omega
    simp [h, h1]

/-- `reflect.DeepEqual(ranking, stats.Ranking)` against a non-empty new ranking is the model's comparison. -/
theorem deepEqual_ranking (r : List Nat) (o : Option (List Nat)) (hr : r ≠ []) :
    goDeepEqualInts (r.map (fun (i : Nat) => (i : Int))) ((o.getD []).map (fun (i : Nat) => (i : Int))) =
      .ok (decide (o = some r)) := by
  have hinj : ∀ (a b : Nat), (fun (i : Nat) => (i : Int)) a = (fun (i : Nat) => (i : Int)) b → a = b :=
    fun a b h => Int.ofNat.inj h
  have hne : ¬ (r.map (fun (i : Nat) => (i : Int)) = []) := by simpa using hr
  have hiff : (r.map (fun (i : Nat) => (i : Int)) = (o.getD []).map (fun (i : Nat) => (i : Int))) ↔
      o = some r := by
    rw [List.map_inj_right hinj]
    cases o with
    | none => simp [hr]
    | some r' => simp [eq_comm]
  simp only [goDeepEqualInts, hne, false_and, if_false, hiff]

/-! ### FlatTailChecker.Update -/

theorem FlatTailChecker_Update_loop (es : List (GEntry α)) :
    ∀ (i : Int) (s : FlatTailChecker_Update.St α),
      ∃ e', Stm.range 1 FlatTailChecker_Update.loop1_bind (FlatTailChecker_Update.loop1_body (α := α)) i es s =
        .ok ({ s with entry := e', ranking := s.ranking ++ es.map (·.Index) }, .next) := by
  induction es with
  | nil => intro i s; exact ⟨s.entry, by simp⟩
  | cons e es ih =>
    intro i s
    obtain ⟨e', h⟩ := ih (i + 1) { s with entry := e, ranking := s.ranking ++ [e.Index] }
    refine ⟨e', ?_⟩
    rw [range_cons_next (s1 := { s with entry := e, ranking := s.ranking ++ [e.Index] })]
    · rw [h]; simp
    · simp [FlatTailChecker_Update.loop1_body, FlatTailChecker_Update.loop1_bind, Stm.set, pure, Except.pure]

/-- `FlatTailChecker.Update` = the model's `FlatTailStats.update` on the ranking `rankOf` of the vector
    (the `numLeaders` highest-scored peers in ascending score order), provided the new ranking is not empty
    (a non-empty vector and at least one leader) — the one case where Go's nil-vs-empty slice distinction,
    which lists do not carry, would matter. -/
theorem FlatTailChecker_Update_refines (len : Int) (nl : Nat) (s : FlatTailStats α) (v : Vec α) (d : α)
    (hv : v.entries ≠ []) (hnl : 0 < nl) :
    (Gen.FlatTailChecker_Update { length := len, numLeaders := (nl : Int), stats := some (toGStats s) }
        (toGV v) d).map (fun r => r.1.c) =
      .ok { length := len, numLeaders := (nl : Int),
            stats := some (toGStats (s.update (rankOf v.entries nl) d)) } := by
  obtain ⟨e', hloop⟩ := FlatTailChecker_Update_loop (toGs (sortByVal v.entries)) 0
    { c := { length := len, numLeaders := (nl : Int), stats := some (toGStats s) }, t := toGV v, d := d,
      entries := toGs (sortByVal v.entries), ranking := [], entry := GEntry.zero }
  have hsort : goSortEntriesByValue (toGs v.entries) = toGs (sortByVal v.entries) := by
    simp [goSortEntriesByValue, map_entryToG]
  have hrank : (toGs (sortByVal v.entries)).map (·.Index) =
      ((sortByVal v.entries).map (·.idx)).map (fun (i : Nat) => (i : Int)) := by
    simp [toGs, Function.comp_def]
  simp only [Gen.FlatTailChecker_Update, FlatTailChecker_Update.body, Stm.run, Stm.seq, Stm.set, Stm.rangeOver,
    FlatTailChecker_Update.loop1_xs, goSlice_zero_zero, goMake_zero, List.nil_append, toGV_Entries, hsort,
    bind, Except.bind, pure, Except.pure, hloop, hrank]
  have hne := rankOf_ne_nil v.entries nl hv hnl
  have htr := go_truncate ((sortByVal v.entries).map (·.idx)) nl
  have hro : rankOf v.entries nl =
      if ((sortByVal v.entries).map (·.idx)).length > nl then
        ((sortByVal v.entries).map (·.idx)).drop (((sortByVal v.entries).map (·.idx)).length - nl)
      else (sortByVal v.entries).map (·.idx) := rfl
  rw [← hro] at htr
  have hde := deepEqual_ranking (rankOf v.entries nl) s.ranking hne
  generalize rankOf v.entries nl = rk at *
  generalize (sortByVal v.entries).map (·.idx) = r0 at *
  have hgs : goDeref (some (toGStats s)) = .ok (toGStats s) := rfl
  have hR : (toGStats s).Ranking = (s.ranking.getD []).map (fun (i : Nat) => (i : Int)) := rfl
  by_cases hlen : (r0.length : Int) > (nl : Int)
  · simp only [hlen, if_true] at htr
    simp only [Stm.ite, goLen_eq, List.length_map, hlen, decide_true, Stm.set, htr]
    simp only [hgs, hR, hde]
    by_cases heq : s.ranking = some rk
    · simp [heq, FlatTailStats.update, toGStats, Except.map]
    · by_cases hth : s.threshold ≤ s.length <;> by_cases hpos : 0 < s.length <;>
      simp [heq, hth, hpos, FlatTailStats.update, toGStats, Except.map, Stm.seq, Stm.ite, Stm.set, Stm.skip, goDeref]
  · simp only [hlen, if_false] at htr
    have htr' := Except.ok.inj htr
    simp only [Stm.ite, goLen_eq, List.length_map, hlen, decide_false, Stm.skip]
    simp only [Stm.set, htr']
    simp only [hgs, hR, hde]
    by_cases heq : s.ranking = some rk
    · simp [heq, FlatTailStats.update, toGStats, Except.map]
    · by_cases hth : s.threshold ≤ s.length <;> by_cases hpos : 0 < s.length <;>
      simp [heq, hth, hpos, FlatTailStats.update, toGStats, Except.map, Stm.seq, Stm.ite, Stm.set, Stm.skip, goDeref]

/-! ### FlatTailChecker.Reached / Stats -/

theorem FlatTailChecker_Reached_refines (len : Nat) (nl : Int) (s : FlatTailStats α) :
    (Gen.FlatTailChecker_Reached { length := (len : Int), numLeaders := nl, stats := some (toGStats s) }).map
        (fun r => r.2) = .ok (decide (s.length ≥ len)) := by
  simp [Gen.FlatTailChecker_Reached, FlatTailChecker_Reached.body, Stm.run, Stm.ret, goDeref, toGStats,
    bind, Except.bind, pure, Except.pure, Except.map]

theorem FlatTailChecker_Stats_refines (c : GFlatTailChecker α) (g : GFlatTailStats α) (h : c.stats = some g) :
    (Gen.FlatTailChecker_Stats c).map (fun r => r.2) = .ok g := by
  simp [Gen.FlatTailChecker_Stats, FlatTailChecker_Stats.body, Stm.run, Stm.ret, goDeref, h, Except.map]

end EtVerif.Tr
