/-
  Helper lemma for Props/TrGo11 (update histories of the translated `Vector.Merge`): a well-formed entry list is
  no longer than its dimension (the fuel of every `Merge` in a history is then bounded by the largest dimension).
-/
import EtVerif.Props.TrC11
namespace EtVerif.Tr.Hist
open EtVerif EtVerif.GoSem EtVerif.Gen EtVerif.Tr Scalar
set_option linter.unusedSectionVars false
variable {K : Type} [Field K] [LinearOrder K]

theorem sorted_length_aux (es : List (Entry K)) : ∀ (lo d : Nat), Sorted es →
    (∀ e ∈ es, lo ≤ e.idx ∧ e.idx < d) → es.length ≤ d - lo := by
  induction es with
  | nil => intro lo d _ _; simp
  | cons e es ih =>
    intro lo d hs hb
    have hs' : Sorted es := (List.pairwise_cons.mp hs).2
    have hlt : ∀ x ∈ es, e.idx < x.idx := (List.pairwise_cons.mp hs).1
    have he := hb e (by simp)
    have := ih (e.idx + 1) d hs' (fun x hx => ⟨hlt x hx, (hb x (by simp [hx])).2⟩)
    simp only [List.length_cons]
    omega

theorem wf_length_le {d : Nat} {es : List (Entry K)} (h : WF d es) : es.length ≤ d := by
  have := sorted_length_aux es 0 d h.1 (fun e he => ⟨Nat.zero_le _, h.2 e he⟩)
  omega

end EtVerif.Tr.Hist
