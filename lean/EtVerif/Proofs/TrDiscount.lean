/-
  Refinement of the translated `basic.DiscountTrustVector` to the model's `discountTrustVector`.
-/
import EtVerif.Proofs.TrAddSub
import EtVerif.Proofs.TrScaleVec
namespace EtVerif.Tr
open EtVerif EtVerif.GoSem EtVerif.Gen Scalar
variable {α : Type} [Scalar α]

/-! ### DiscountTrustVector -/

theorem subEntries_length_le (a b : List (Entry α)) :
    (subEntries a b).length ≤ a.length + b.length := by
  fun_induction subEntries a b <;> simp_all [negEntries] <;> omega

theorem scale_entries_dim (a : α) (n : Nat) (r : List (Entry α)) :
    (Vec.scale a ⟨n, r⟩).entries = (Vec.scale a ⟨0, r⟩).entries := by
  simp only [Vec.scale]
  split <;> rfl

theorem scale_dim (a : α) (v : Vec α) : (Vec.scale a v).dim = v.dim := by
  simp only [Vec.scale]
  split <;> rfl

theorem scale_entries_length_le (a : α) (v : Vec α) :
    (Vec.scale a v).entries.length ≤ v.entries.length := by
  simp only [Vec.scale, scaleEntries]
  split
  · simp
  · split
    · simp
    · exact List.length_filterMap_le _ _

/-- The inner `T1Loop`: from cursor `pre.length` it skips the entries of the clone whose index is below the
    distruster `d` and ends with `break DiscountsLoop` (cursor exhausted), normally (`break T1Loop`, match) or
    with `continue DiscountsLoop` (current index above the distruster). The model's `discountLoop` does the
    same skipping. -/
theorem discount_inner (capO : Nat → Int) (fuel : Nat) (d : Nat) :
    ∀ (rem pre : List (Entry α)) (n : Nat) (s : DiscountTrustVector.St α),
      s.t1.Entries = toGs (pre ++ rem) → s.i1 = (pre.length : Int) → s.distruster = (d : Int) →
      rem.length + 1 ≤ n →
      ∃ (pre' rem' : List (Entry α)) (c : Ctl (Option GoError)),
        pre ++ rem = pre' ++ rem' ∧
        (∀ (row : Row α) (rows : List (Row α × Nat)) (cur : List (Entry α)),
          discountLoop rem ((row, d) :: rows) cur = discountLoop rem' ((row, d) :: rows) cur) ∧
        Stm.loop 2 (DiscountTrustVector.loop2_cond capO fuel) (DiscountTrustVector.loop2_body capO fuel)
          (DiscountTrustVector.loop2_post capO fuel) n s = .ok ({ s with i1 := (pre'.length : Int) }, c) ∧
        ((rem' = [] ∧ c = .brk 1) ∨
         (∃ e rest, rem' = e :: rest ∧ e.idx = d ∧ c = .next) ∨
         (∃ e rest, rem' = e :: rest ∧ d < e.idx ∧ c = .cont 1)) := by
  intro rem
  have hc : ∀ s : DiscountTrustVector.St α, DiscountTrustVector.loop2_cond capO fuel s = .ok true :=
    fun _ => rfl
  induction rem with
  | nil =>
    intro pre n s h1 h2 h3 hn
    obtain ⟨m, rfl⟩ : ∃ m, n = m + 1 := ⟨n - 1, by omega⟩
    refine ⟨pre, [], .brk 1, rfl, fun _ _ _ => rfl, ?_, Or.inl ⟨rfl, rfl⟩⟩
    have hb : DiscountTrustVector.loop2_body capO fuel s = .ok (s, .brk 1) := by
      simp [DiscountTrustVector.loop2_body, Stm.ite, Stm.brk, h1, h2, pure, Except.pure]
    rw [loop_leave (l := 2) (c := .brk 1) (c' := .brk 1) (hc s) hb rfl]
    obtain ⟨t, discounts, i1, t1, distruster, distrusts, sc, err⟩ := s
    simp only at h2
    subst h2
    rfl
  | cons e rem ih =>
    intro pre n s h1 h2 h3 hn
    obtain ⟨m, rfl⟩ : ∃ m, n = m + 1 := ⟨n - 1, by omega⟩
    have hi : goIdx s.t1.Entries s.i1 = .ok (toG e) :=
      goIdx_at _ _ (toGs pre) (toG e) (toGs rem) (by rw [h1]; simp) (by simp [h2])
    rw [h1, h2] at hi
    have hlen : ¬ ((pre.length : Int) ≥ ((pre ++ e :: rem).length : Int)) := by
      simp only [List.length_append, List.length_cons]; omega
    by_cases hlt : e.idx < d
    · have hlt' : ((e.idx : Int) < (d : Int)) := by omega
      have hb : DiscountTrustVector.loop2_body capO fuel s = .ok ({ s with i1 := s.i1 + 1 }, .cont 2) := by
        simp only [DiscountTrustVector.loop2_body, Stm.ite, Stm.seq, Stm.set, Stm.cont, hi, h1, h2, h3, pure,
          Except.pure, bind, Except.bind, goLen_eq, toGs_length, hlen, decide_false, toG_Index, hlt',
          decide_true]
      obtain ⟨pre', rem', c, e1, e2, e3, e4⟩ := ih (pre ++ [e]) m { s with i1 := s.i1 + 1 }
        (by simp [h1]) (by simp [h2]) h3 (by simp at hn; omega)
      refine ⟨pre', rem', c, by simpa using e1, ?_, ?_, e4⟩
      · intro row rows cur
        rw [← e2 row rows cur]
        rw [discountLoop]
        simp [hlt]
      · rw [loop_step_cont (s1 := { s with i1 := s.i1 + 1 }) (s2 := { s with i1 := s.i1 + 1 }) (hc s) hb rfl]
        exact e3
    · have hlt' : ¬ ((e.idx : Int) < (d : Int)) := by omega
      by_cases heq : e.idx = d
      · have heq' : ((e.idx : Int) = (d : Int)) := by omega
        have hb : DiscountTrustVector.loop2_body capO fuel s = .ok (s, .brk 2) := by
          simp only [DiscountTrustVector.loop2_body, Stm.ite, Stm.brk, hi, h1, h2, h3, pure,
            Except.pure, bind, Except.bind, goLen_eq, toGs_length, hlen, decide_false, toG_Index, heq',
            Int.lt_irrefl, decide_true]
        refine ⟨pre, e :: rem, .next, rfl, fun _ _ _ => rfl, ?_, Or.inr (Or.inl ⟨e, rem, rfl, heq, rfl⟩)⟩
        rw [loop_brk (hc s) hb]
        obtain ⟨t, discounts, i1, t1, distruster, distrusts, sc, err⟩ := s
        simp only at h2
        subst h2
        rfl
      · have heq' : ¬ ((e.idx : Int) = (d : Int)) := by omega
        have hgt' : ((e.idx : Int) > (d : Int)) := by omega
        have hb : DiscountTrustVector.loop2_body capO fuel s = .ok (s, .cont 1) := by
          simp only [DiscountTrustVector.loop2_body, Stm.ite, Stm.cont, hi, h1, h2, h3, pure,
            Except.pure, bind, Except.bind, goLen_eq, toGs_length, hlen, decide_false, toG_Index, hlt', heq',
            hgt', decide_true]
        refine ⟨pre, e :: rem, .cont 1, rfl, fun _ _ _ => rfl, ?_,
          Or.inr (Or.inr ⟨e, rem, rfl, by omega, rfl⟩)⟩
        rw [loop_leave (l := 2) (c := .cont 1) (c' := .cont 1) (hc s) hb rfl]
        obtain ⟨t, discounts, i1, t1, distruster, distrusts, sc, err⟩ := s
        simp only at h2
        subst h2
        rfl

/-- One iteration of the outer loop in which the inner loop ended at a match: everything after `T1Loop`,
    with the three calls (`goIdx`, `ScaleVec`, `SubVec`) abstracted by their results. -/
theorem discount_body_generic (capO : Nat → Int) (fuel : Nat) (s0 s1 : DiscountTrustVector.St α)
    (g : GEntry α) (r2 : Vector_ScaleVec.St α × Unit) (r3 : Vector_SubVec.St α × Option GoError)
    (hL : Stm.loop 2 (DiscountTrustVector.loop2_cond capO fuel) (DiscountTrustVector.loop2_body capO fuel)
      (DiscountTrustVector.loop2_post capO fuel) fuel s0 = .ok (s1, .next))
    (hi : goIdx s1.t1.Entries s1.i1 = .ok g)
    (h2 : Gen.Vector_ScaleVec ({ Dim := (0 : Int), Entries := [] } : GVector α) g.Value
      ({ Dim := s1.t.Dim, Entries := s1.distrusts } : GVector α) false = .ok r2)
    (h3 : Gen.Vector_SubVec capO fuel s1.t s1.t r2.1.v = .ok r3)
    (h4 : r3.2 = none) :
    DiscountTrustVector.loop1_body capO fuel s0 =
      .ok ({ s1 with scaledDistrustVec := r2.1.v, t := r3.1.v, err := none, i1 := s1.i1 + 1 }, .next) := by
  obtain ⟨t, discounts, i1, t1, distruster, distrusts, sc, err⟩ := s1
  simp only at hi h2 h3
  simp only [DiscountTrustVector.loop1_body, Stm.seq, hL, Stm.set, Stm.ite, Stm.skip, bind, Except.bind,
    pure, Except.pure, hi, h2, h3, h4, Option.isNone_none, Bool.not_true]

/-- The outer `DiscountsLoop` mirrors `discountLoop`. -/
theorem discount_outer (capO : Nat → Int) (fuel : Nat) (dim : Nat) :
    ∀ (rows : List (Row α)) (rem pre cur : List (Entry α)) (n : Nat) (s : DiscountTrustVector.St α),
      s.t = toGV ⟨dim, cur⟩ → s.t1.Entries = toGs (pre ++ rem) → s.i1 = (pre.length : Int) →
      cur.length + (rows.map List.length).sum + 1 ≤ fuel → (pre ++ rem).length + 1 ≤ fuel →
      ∃ s', Stm.range 1 (DiscountTrustVector.loop1_bind capO fuel) (DiscountTrustVector.loop1_body capO fuel)
          (n : Int) (rows.map toGs) s = .ok (s', .next) ∧
        s'.t = toGV ⟨dim, discountLoop rem (rows.zipIdx n) cur⟩ := by
  intro rows
  induction rows with
  | nil =>
    intro rem pre cur n s ht h1 h2 hf1 hf2
    refine ⟨s, rfl, ?_⟩
    rw [ht]
    cases rem <;> simp [discountLoop]
  | cons row rows ih =>
    intro rem pre cur n s ht h1 h2 hf1 hf2
    simp only [List.map_cons, List.sum_cons, List.length_append] at hf1 hf2
    obtain ⟨s0, hs0⟩ : ∃ s0, s0 = DiscountTrustVector.loop1_bind capO fuel (n : Int) (toGs row) s := ⟨_, rfl⟩
    have ht0 : s0.t = toGV ⟨dim, cur⟩ := by rw [hs0]; exact ht
    have h10 : s0.t1.Entries = toGs (pre ++ rem) := by rw [hs0]; exact h1
    have h20 : s0.i1 = (pre.length : Int) := by rw [hs0]; exact h2
    have hd0 : s0.distruster = (n : Int) := by rw [hs0]; rfl
    have hr0 : s0.distrusts = toGs row := by rw [hs0]; rfl
    obtain ⟨pre', rem', c, e1, e2, e3, e4⟩ := discount_inner capO fuel n rem pre fuel s0 h10 h20 hd0 (by omega)
    simp only [List.map_cons, List.zipIdx_cons]
    rw [e2]
    have hn1 : ((n + 1 : Nat) : Int) = (n : Int) + 1 := by omega
    rcases e4 with ⟨rfl, rfl⟩ | ⟨e, rest, rfl, hd, rfl⟩ | ⟨e, rest, rfl, hd, rfl⟩
    · -- cursor exhausted: `break DiscountsLoop`
      refine ⟨{ s0 with i1 := (pre'.length : Int) }, ?_, ?_⟩
      · apply range_cons_brk
        rw [← hs0]
        simp only [DiscountTrustVector.loop1_body, Stm.seq, e3]
      · simp only [ht0]
        simp [discountLoop]
    · -- match
      have hi : goIdx s0.t1.Entries (pre'.length : Int) = .ok (toG e) :=
        goIdx_at _ _ (toGs pre') (toG e) (toGs rest) (by rw [h10, e1]; simp) (by simp)
      obtain ⟨r2, hr2, hr2v⟩ := map_ok_elim
        (Vector_ScaleVec_refines ({ Dim := (0 : Int), Entries := [] } : GVector α) e.val ⟨dim, row⟩ false (by simp))
      have hlen := scale_entries_length_le e.val (⟨dim, row⟩ : Vec α)
      have hsub := Vector_SubVec_refines capO fuel (toGV ⟨dim, cur⟩) ⟨dim, cur⟩ (Vec.scale e.val ⟨dim, row⟩)
        (by simp only at hlen ⊢; omega)
      simp only [Vec.subVec, scale_dim, ne_eq, not_true_eq_false, ite_false] at hsub
      obtain ⟨r3, hr3, hr3v⟩ := map_ok_elim hsub
      simp only [Prod.mk.injEq] at hr3v
      have hb := discount_body_generic capO fuel s0 { s0 with i1 := (pre'.length : Int) } (toG e) r2 r3 e3 hi
        (by simp only [ht0, hr0]; exact hr2) (by simp only [ht0, hr2v]; exact hr3) hr3v.2
      obtain ⟨s', l1, l2⟩ := ih rest (pre' ++ [e])
        (subEntries cur (Vec.scale e.val ⟨dim, row⟩).entries) (n + 1)
        { s0 with scaledDistrustVec := r2.1.v, t := r3.1.v, err := none, i1 := (pre'.length : Int) + 1 }
        hr3v.1 (by simp [h10, e1]) (by simp)
        (by have := subEntries_length_le cur (Vec.scale e.val ⟨dim, row⟩).entries
            simp only at hlen; omega)
        (by rw [List.append_assoc, List.singleton_append, ← e1]; simpa using hf2)
      rw [hn1] at l1
      refine ⟨s', ?_, ?_⟩
      · subst hs0
        rw [range_cons_next hb]
        exact l1
      rw [l2, discountLoop]
      simp [hd, scale_entries_dim e.val dim row]
    · -- `continue DiscountsLoop`
      have hb : DiscountTrustVector.loop1_body capO fuel s0 =
          .ok ({ s0 with i1 := (pre'.length : Int) }, .cont 1) := by
        simp only [DiscountTrustVector.loop1_body, Stm.seq, e3]
      obtain ⟨s', l1, l2⟩ := ih (e :: rest) pre' cur (n + 1) { s0 with i1 := (pre'.length : Int) }
        ht0 (by simp [h10, e1]) rfl (by omega) (by rw [← e1]; simpa using hf2)
      rw [hn1] at l1
      refine ⟨s', ?_, ?_⟩
      · subst hs0
        rw [range_cons_cont hb]
        exact l1
      rw [l2, discountLoop]
      have h1 : ¬ e.idx < n := by omega
      have h2 : ¬ e.idx = n := by omega
      simp [h1, h2]

/-- Go `basic.DiscountTrustVector` = the model's `discountTrustVector`. -/
theorem DiscountTrustVector_refines (capO : Nat → Int) (fuel : Nat) (t : Vec α) (d : CSM α)
    (hf : t.entries.length + (d.rows.map List.length).sum + 1 ≤ fuel) :
    (Gen.DiscountTrustVector capO fuel (toGV t) (toGM d)).map (fun r => (r.1.t, r.2)) =
      .ok (toGV (discountTrustVector t d), none) := by
  obtain ⟨s', l1, l2⟩ := discount_outer capO fuel t.dim d.rows t.entries [] t.entries 0
    { t := toGV t, discounts := toGM d, i1 := 0, t1 := toGV t, distruster := 0, distrusts := [],
      scaledDistrustVec := GVector.zero, err := none } rfl rfl rfl hf (by simp only [List.nil_append]; omega)
  simp only [Gen.DiscountTrustVector, DiscountTrustVector.body, Stm.run, Stm.seq, Stm.set, Stm.ret,
    Stm.rangeOver, DiscountTrustVector.loop1_xs, bind, Except.bind, pure, Except.pure, Vector_Clone_eq,
    toGM_Entries, Int.natCast_zero] at l1 ⊢
  simp only [l1, Except.map, l2, discountTrustVector]

end EtVerif.Tr
