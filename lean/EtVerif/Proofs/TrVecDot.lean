/-
  Refinement of the translated `VecDot` (Gen/Translated.lean) to the model's `vecDot`.
-/
import EtVerif.Proofs.TrKbn
namespace EtVerif.Tr
open EtVerif EtVerif.GoSem EtVerif.Gen Scalar
variable {α : Type} [Scalar α]

/-! ### list facts -/

theorem drop_cons_info {β : Type} {l : List β} {k : Nat} {b : β} {bs : List β}
    (h : l.drop k = b :: bs) :
    l.length = k + 1 + bs.length ∧ l.drop (k + 1) = bs ∧ l[k]? = some b := by
  have hl := congrArg List.length h
  simp at hl
  refine ⟨by omega, ?_, ?_⟩
  · have h2 : l.drop (k + 1) = (l.drop k).drop 1 := by simp [List.drop_drop]
    rw [h2, h]; rfl
  · have h2 : l[k]? = (l.drop k)[0]? := by simp [List.getElem?_drop]
    rw [h2, h]; rfl

/-! ### the model's recursion -/

theorem dotTerms_lt {x b : Entry α} (xs bs : List (Entry α)) (h : b.idx < x.idx) :
    dotTerms (x :: xs) (b :: bs) = dotTerms (x :: xs) bs := by
  rw [dotTerms]; simp [h]

theorem dotTerms_eq {x b : Entry α} (xs bs : List (Entry α)) (h : b.idx = x.idx) :
    dotTerms (x :: xs) (b :: bs) = mul x.val b.val :: dotTerms (x :: xs) bs := by
  rw [dotTerms]; simp [h]

theorem dotTerms_gt {x b : Entry α} (xs bs : List (Entry α)) (h : x.idx < b.idx) :
    dotTerms (x :: xs) (b :: bs) = dotTerms xs (b :: bs) := by
  rw [dotTerms]
  have h1 : ¬ b.idx < x.idx := by omega
  have h2 : ¬ b.idx = x.idx := by omega
  simp [h1, h2]

theorem dotTerms_nil_right (a : List (Entry α)) : dotTerms a [] = [] := by
  cases a <;> simp [dotTerms]

/-! ### the cursor invariant -/

/-- the cursor `(i2, e2)` of the Go code points at `b`, the head of `b0.drop k`. -/
structure DInv (b0 : List (Entry α)) (k : Nat) (b : Entry α) (bs : List (Entry α))
    (s : VecDot.St α) : Prop where
  hv : s.v2.Entries = toGs b0
  hn : s.n2 = (b0.length : Int)
  hi : s.i2 = (k : Int)
  hd : b0.drop k = b :: bs
  he : s.e2 = toG b

/-- the products pushed by one inner iteration at cursor `b` for the outer entry `x`. -/
def stepTerms (x b : Entry α) : List α := if b.idx = x.idx then [mul x.val b.val] else []

theorem dotTerms_le {x b : Entry α} (xs bs : List (Entry α)) (h : b.idx ≤ x.idx) :
    dotTerms (x :: xs) (b :: bs) = stepTerms x b ++ dotTerms (x :: xs) bs := by
  unfold stepTerms
  by_cases he : b.idx = x.idx
  · simp [he, dotTerms_eq xs bs he]
  · simp [he, dotTerms_lt xs bs (by omega : b.idx < x.idx)]

/-- inner body at the last entry of `v2`: breaks the overall loop. -/
theorem body_last (fuel : Nat) {b0 : List (Entry α)} {k : Nat} {b x : Entry α} {s : VecDot.St α}
    (hI : DInv b0 k b [] s) (he1 : s.e1 = toG x) :
    ∃ s1, VecDot.loop2_body fuel s = .ok (s1, .brk 1) ∧
      s1.summer = toGK ((stepTerms x b).foldl KBN.push (ofGK s.summer)) := by
  obtain ⟨hv, hn, hi, hd, he⟩ := hI
  obtain ⟨hlen, _, _⟩ := drop_cons_info hd
  simp only [List.length_nil, Nat.add_zero] at hlen
  unfold stepTerms
  by_cases heq : b.idx = x.idx
  · obtain ⟨st, h1, h2⟩ := KBNSummer_Add_ok s.summer (mul x.val b.val)
    simp [VecDot.loop2_body, Stm.seq, Stm.set, Stm.ite, Stm.brk, bind, Except.bind, pure,
      Except.pure, he1, he, heq, h1, h2, hi, hn, hlen]
  · have heq' : ¬ (x.idx : Int) = (b.idx : Int) := by omega
    simp [VecDot.loop2_body, Stm.seq, Stm.set, Stm.ite, Stm.skip, Stm.brk, pure,
      Except.pure, he1, he, heq, heq', hi, hn, hlen]

/-- inner body when `v2` has a further entry: the cursor advances. -/
theorem body_adv (fuel : Nat) {b0 : List (Entry α)} {k : Nat} {b b' x : Entry α}
    {bs' : List (Entry α)} {s : VecDot.St α}
    (hI : DInv b0 k b (b' :: bs') s) (he1 : s.e1 = toG x) :
    ∃ s1, VecDot.loop2_body fuel s = .ok (s1, .next) ∧ DInv b0 (k + 1) b' bs' s1 ∧ s1.e1 = toG x ∧
      s1.summer = toGK ((stepTerms x b).foldl KBN.push (ofGK s.summer)) := by
  obtain ⟨hv, hn, hi, hd, he⟩ := hI
  obtain ⟨hlen, hd', _⟩ := drop_cons_info hd
  obtain ⟨_, _, hget⟩ := drop_cons_info hd'
  simp only [List.length_cons] at hlen
  have hne : ¬ ((k : Int) + 1 = (b0.length : Int)) := by omega
  have hidx : goIdx (toGs b0) ((k : Int) + 1) = .ok (toG b') := by
    have : ((k : Int) + 1) = ((k + 1 : Nat) : Int) := by simp
    rw [this]
    have hnn : ¬ ((k : Int) + 1 < 0) := by omega
    simp [goIdx, toGs, hget]
    omega
  unfold stepTerms
  by_cases heq : b.idx = x.idx
  · obtain ⟨st, h1, h2⟩ := KBNSummer_Add_ok s.summer (mul x.val b.val)
    refine ⟨{ s with value := mul x.val b.val, summer := st.s, i2 := (k : Int) + 1, e2 := toG b' },
      ?_, ⟨hv, hn, by simp, hd', rfl⟩, he1, by simp [heq, h2]⟩
    simp [VecDot.loop2_body, Stm.seq, Stm.set, Stm.ite, Stm.skip, bind, Except.bind, pure,
      Except.pure, he1, he, heq, h1, hi, hn, hne, hv, hidx]
  · have heq' : ¬ (x.idx : Int) = (b.idx : Int) := by omega
    refine ⟨{ s with i2 := (k : Int) + 1, e2 := toG b' },
      ?_, ⟨hv, hn, by simp, hd', rfl⟩, he1, by simp [heq]⟩
    simp [VecDot.loop2_body, Stm.seq, Stm.set, Stm.ite, Stm.skip, bind, Except.bind, pure,
      Except.pure, he1, he, heq', hi, hn, hne, hv, hidx]

/-! ### the two nested loops -/

/-- what the outer `range` does with the result of the inner loop. -/
def K (fuel : Nat) (i : Int) (xs : List (GEntry α)) (r : R (VecDot.St α × Ctl α)) :
    R (VecDot.St α × Ctl α) :=
  match r with
  | .error e => .error e
  | .ok (s1, c) =>
    match Stm.afterBody 1 c with
    | some c' => .ok (s1, c')
    | none => Stm.range 1 (VecDot.loop1_bind fuel) (VecDot.loop1_body fuel) i xs s1

theorem range_cons_K (fuel : Nat) (i : Int) (x : GEntry α) (xs : List (GEntry α)) (s : VecDot.St α) :
    Stm.range 1 (VecDot.loop1_bind fuel) (VecDot.loop1_body fuel) i (x :: xs) s =
      K fuel (i + 1) xs (Stm.loop 2 (VecDot.loop2_cond fuel) (VecDot.loop2_body fuel)
        (VecDot.loop2_post fuel) fuel (VecDot.loop1_bind fuel i x s)) := by
  simp only [Stm.range, K, VecDot.loop1_body]
  cases Stm.loop 2 (VecDot.loop2_cond fuel) (VecDot.loop2_body fuel) (VecDot.loop2_post fuel) fuel
    (VecDot.loop1_bind fuel i x s) with
  | error e => rfl
  | ok r => rfl

theorem VecDot_loops (fuel : Nat) (b0 : List (Entry α)) (hf : b0.length ≤ fuel) :
    ∀ (m : Nat) (x : Entry α) (xs : List (Entry α)) (b : Entry α) (bs : List (Entry α)),
      xs.length + bs.length < m →
      ∀ (k : Nat) (s : VecDot.St α) (n : Nat) (i : Int),
        DInv b0 k b bs s → s.e1 = toG x → bs.length + 1 ≤ n →
        ∃ s', K fuel i (toGs xs) (Stm.loop 2 (VecDot.loop2_cond fuel) (VecDot.loop2_body fuel)
            (VecDot.loop2_post fuel) n s) = .ok (s', .next) ∧
          s'.summer = toGK ((dotTerms (x :: xs) (b :: bs)).foldl KBN.push (ofGK s.summer)) := by
  intro m
  induction m with
  | zero => intro x xs b bs h; omega
  | succ m ih =>
    intro x xs b bs hm k s n i hI he1 hn
    by_cases hle : b.idx ≤ x.idx
    · -- the inner loop runs one more iteration
      have hc : VecDot.loop2_cond fuel s = .ok true := by
        simp [VecDot.loop2_cond, pure, Except.pure, hI.he, he1, hle]
      obtain ⟨n', rfl⟩ : ∃ n', n = n' + 1 := ⟨n - 1, by omega⟩
      rw [dotTerms_le xs bs hle, List.foldl_append]
      cases bs with
      | nil =>
        obtain ⟨s1, hb, hs⟩ := body_last fuel hI he1
        refine ⟨s1, ?_, ?_⟩
        · rw [loop_leave (c' := .brk 1) hc hb (by simp [Stm.afterBody])]
          simp [K, Stm.afterBody]
        · simp [hs, dotTerms_nil_right]
      | cons b' bs' =>
        obtain ⟨s1, hb, hI1, he11, hs⟩ := body_adv fuel hI he1
        have hp : VecDot.loop2_post fuel s1 = .ok (s1, .next) := rfl
        rw [loop_step hc hb hp]
        obtain ⟨s', h1, h2⟩ := ih x xs b' bs' (by simp at hm; omega) (k + 1) s1 n' i hI1 he11
          (by simp at hn; omega)
        exact ⟨s', h1, by rw [h2, hs, ofGK_toGK]⟩
    · -- the inner loop is over; the outer loop moves on
      have hc : VecDot.loop2_cond fuel s = .ok false := by
        simp [VecDot.loop2_cond, pure, Except.pure, hI.he, he1, hle]
      rw [loop_exit hc, dotTerms_gt xs bs (by omega)]
      cases xs with
      | nil => exact ⟨s, by simp [K, Stm.afterBody], by simp [dotTerms]⟩
      | cons x' xs' =>
        have hlen := (drop_cons_info hI.hd).1
        have hI' : DInv b0 k b bs (VecDot.loop1_bind fuel (i) (toG x') s) :=
          ⟨hI.hv, hI.hn, hI.hi, hI.hd, hI.he⟩
        obtain ⟨s', h1, h2⟩ := ih x' xs' b bs (by simp at hm; omega) k _ fuel (i + 1) hI' rfl
          (by omega)
        refine ⟨s', ?_, h2⟩
        simp only [K, Stm.afterBody, toGs_cons]
        rw [range_cons_K]
        exact h1

/-- the outer `range` loop started at the first entry of a non-empty `v2`. -/
theorem VecDot_range (fuel : Nat) (a : List (Entry α)) (b : Entry α) (bs : List (Entry α))
    (hf : (b :: bs).length ≤ fuel) (s : VecDot.St α) (hI : DInv (b :: bs) 0 b bs s) :
    ∃ s', Stm.range 1 (VecDot.loop1_bind fuel) (VecDot.loop1_body fuel) 0 (toGs a) s = .ok (s', .next) ∧
      s'.summer = toGK ((dotTerms a (b :: bs)).foldl KBN.push (ofGK s.summer)) := by
  cases a with
  | nil => exact ⟨s, rfl, by simp [dotTerms]⟩
  | cons x xs =>
    have hI' : DInv (b :: bs) 0 b bs (VecDot.loop1_bind fuel 0 (toG x) s) :=
      ⟨hI.hv, hI.hn, hI.hi, hI.hd, hI.he⟩
    obtain ⟨s', h1, h2⟩ := VecDot_loops fuel (b :: bs) hf (xs.length + bs.length + 1) x xs b bs
      (by omega) 0 _ fuel (0 + 1) hI' rfl (by simpa using hf)
    refine ⟨s', ?_, h2⟩
    rw [toGs_cons, range_cons_K]
    exact h1

/-- `VecDot` on a non-empty second operand: exactly the model's `vecDot`. -/
theorem VecDot_refines_cons (fuel : Nat) (v1 v2 : Vec α) (b : Entry α) (bs : List (Entry α))
    (hv2 : v2.entries = b :: bs) (hf : v2.entries.length ≤ fuel) :
    (Gen.VecDot fuel (toGV v1) (toGV v2)).map (fun r => r.2) = .ok (vecDot v1.entries v2.entries) := by
  rw [hv2] at hf
  obtain ⟨s', h1, h2⟩ := VecDot_range fuel v1.entries b bs hf
    { v1 := toGV v1, v2 := toGV v2, n2 := ((b :: bs).length : Int), i2 := 0, e2 := toG b,
      summer := GKBNSummer.zero, e1 := GEntry.zero, value := Scalar.zero }
    ⟨by simp [hv2], rfl, rfl, rfl, rfl⟩
  obtain ⟨st, hst⟩ := KBNSummer_Sum_ok s'.summer
  have hdec : decide ((bs.length : Int) + 1 = 0) = false := by
    rw [decide_eq_false_iff_not]; omega
  simp only [toGK_zero, List.length_cons, Int.natCast_add, Int.natCast_one] at h1
  simp only [VecDot, VecDot.body, Stm.run, Stm.seq, Stm.set, Stm.ite, Stm.skip, Stm.rangeOver,
    VecDot.loop1_xs, pure, Except.pure, toGK_zero, toGV_Entries, hv2, toGs_cons, goLen_eq,
    List.length_cons, goIdx_zero_cons, Int.natCast_add, Int.natCast_one, hdec, toGs_length,
    bind, Except.bind]
  simp only [h1, Stm.ret, hst, Except.map]
  simp [h2, vecDot, kbnSum, ofGK, toGK, KBN.init, GKBNSummer.zero]

/-! ### the empty second operand

Go returns the literal `0` without touching the summer (`if n2 == 0 { return 0 }`), the model returns
`kbnSum [] = add zero zero`.  The `Scalar` class carries no laws, so these differ for a lawless
instance (they agree for `Float`, `Rat` and every field: `0 + 0 = 0`). -/

theorem VecDot_nil (fuel : Nat) (v1 v2 : Vec α) (hv2 : v2.entries = []) :
    (Gen.VecDot fuel (toGV v1) (toGV v2)).map (fun r => r.2) = .ok (zero : α) := by
  simp [VecDot, VecDot.body, Stm.run, Stm.seq, Stm.set, Stm.ite, Stm.ret, pure, Except.pure, hv2,
    Except.map]

theorem vecDot_nil (a : List (Entry α)) : vecDot a [] = add (zero : α) zero := by
  simp [vecDot, dotTerms_nil_right, kbnSum, KBN.init, KBN.result]

/-- Go `VecDot` (translated from the current source) computes exactly the model's `vecDot`, for every
    pair of entry lists (sorted or not) and every fuel ≥ the length of the second operand — provided
    that, when the second operand is empty, `0 + 0 = 0` in the scalar type (the only case in which the
    Go code returns a literal instead of `summer.Sum()`).  Without `h0` the statement is false, see
    `VecDot_refines_iff` and `VecDot_refines_false`. -/
theorem VecDot_refines_partial (fuel : Nat) (v1 v2 : Vec α) (hf : v2.entries.length ≤ fuel)
    (h0 : v2.entries = [] → add (zero : α) zero = zero) :
    (Gen.VecDot fuel (toGV v1) (toGV v2)).map (fun r => r.2) = .ok (vecDot v1.entries v2.entries) := by
  cases hv2 : v2.entries with
  | nil => rw [VecDot_nil fuel v1 v2 hv2, vecDot_nil, h0 hv2]
  | cons b bs => rw [← hv2]; exact VecDot_refines_cons fuel v1 v2 b bs hv2 hf

/-- the hypothesis of `VecDot_refines_partial` is exactly what is needed. -/
theorem VecDot_refines_iff (fuel : Nat) (v1 v2 : Vec α) (hf : v2.entries.length ≤ fuel) :
    ((Gen.VecDot fuel (toGV v1) (toGV v2)).map (fun r => r.2) = .ok (vecDot v1.entries v2.entries)) ↔
      (v2.entries = [] → add (zero : α) zero = zero) := by
  refine ⟨fun h hv2 => ?_, VecDot_refines_partial fuel v1 v2 hf⟩
  rw [VecDot_nil fuel v1 v2 hv2, hv2, vecDot_nil] at h
  exact (Except.ok.inj h).symm

/-- a lawless scalar with `0 + 0 ≠ 0`. -/
@[reducible] def badScalar : Scalar Bool where
  zero := false
  one := true
  add := fun _ _ => true
  sub := fun a _ => a
  mul := and
  div := fun a _ => a
  neg := id
  abs := id
  lt := fun _ _ => false
  le := fun _ _ => true
  eq := fun a b => a == b
  ofNat := fun n => n != 0
  sqrtLe := fun _ _ => true

/-- the unconditional refinement statement is false over the law-free `Scalar` class:
    counterexample `α = Bool` with `badScalar`, both vectors empty, any fuel. -/
theorem VecDot_refines_false :
    ¬ ∀ (α : Type) [Scalar α] (fuel : Nat) (v1 v2 : Vec α), v2.entries.length ≤ fuel →
      (Gen.VecDot fuel (toGV v1) (toGV v2)).map (fun r => r.2) = .ok (vecDot v1.entries v2.entries) := by
  intro h
  have h1 := (@VecDot_refines_iff Bool badScalar 0 ⟨0, []⟩ ⟨0, []⟩ (Nat.le_refl _)).1
    (@h Bool badScalar 0 ⟨0, []⟩ ⟨0, []⟩ (Nat.le_refl _)) rfl
  exact absurd h1 (by decide)

end EtVerif.Tr
