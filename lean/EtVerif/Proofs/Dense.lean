/-
  Dense real model of the EigenTrust iteration  t ← (1-a)·Cᵀ t + a·p  on `Fin n → ℝ`
  and the analysis lemmas used by C01 (error bound at convergence) and
  C05a (termination bound).  Pure Mathlib real analysis / linear algebra; independent
  of the sparse model.

  Go reference: `/repo/pkg/basic/eigentrust.go`, the loop body
  `t1.MulVec(ct, t1); t1.ScaleVec(1-a, t1); t1.AddVec(t1, ap)` and
  `ConvergenceChecker.Update` (`d := td.Norm2()`, converged iff `d ≤ e`).
-/
import Mathlib.LinearAlgebra.FiniteDimensional.Basic
import Mathlib.Analysis.Real.Sqrt
import Mathlib.Algebra.Order.Chebyshev
import Mathlib.Algebra.Order.BigOperators.Ring.Finset
import Mathlib.Tactic

namespace EtVerif.Dense

open Finset

variable {n : ℕ}

/-- One EigenTrust iteration: `(1-a)·Cᵀ t + a·p`. -/
def F (C : Fin n → Fin n → ℝ) (p : Fin n → ℝ) (a : ℝ) (t : Fin n → ℝ) : Fin n → ℝ :=
  fun j => (1 - a) * ∑ i, C i j * t i + a * p j

/-- L1 norm. -/
noncomputable def l1 (x : Fin n → ℝ) : ℝ := ∑ i, |x i|

/-- L2 (Euclidean) norm. -/
noncomputable def l2 (x : Fin n → ℝ) : ℝ := Real.sqrt (∑ i, (x i) ^ 2)

/-! ### Elementary facts on `l1`, `l2` -/

theorem l1_nonneg (x : Fin n → ℝ) : 0 ≤ l1 x :=
  Finset.sum_nonneg fun _ _ => abs_nonneg _

theorem l2_nonneg (x : Fin n → ℝ) : 0 ≤ l2 x := Real.sqrt_nonneg _

theorem l1_eq_zero {x : Fin n → ℝ} (h : l1 x = 0) : x = 0 := by
  funext i
  have := (Finset.sum_eq_zero_iff_of_nonneg (fun i _ => abs_nonneg (x i))).1 h i (Finset.mem_univ i)
  simpa using this

theorem l1_le_zero {x : Fin n → ℝ} (h : l1 x ≤ 0) : x = 0 :=
  l1_eq_zero (le_antisymm h (l1_nonneg x))

theorem l1_add_le (x y : Fin n → ℝ) : l1 (x + y) ≤ l1 x + l1 y := by
  unfold l1
  rw [← Finset.sum_add_distrib]
  exact Finset.sum_le_sum fun i _ => abs_add_le (x i) (y i)

theorem l1_neg (x : Fin n → ℝ) : l1 (-x) = l1 x := by
  unfold l1
  exact Finset.sum_congr rfl fun i _ => by simp

theorem l1_sub_comm (x y : Fin n → ℝ) : l1 (x - y) = l1 (y - x) := by
  rw [← l1_neg (x - y), neg_sub]

theorem l1_sub_le (x y : Fin n → ℝ) : l1 (x - y) ≤ l1 x + l1 y := by
  have := l1_add_le x (-y)
  rwa [l1_neg, ← sub_eq_add_neg] at this

/-- triangle inequality through an intermediate point -/
theorem l1_triangle (x y z : Fin n → ℝ) : l1 (x - z) ≤ l1 (x - y) + l1 (y - z) := by
  have := l1_add_le (x - y) (y - z)
  rwa [sub_add_sub_cancel] at this

theorem l1_const_mul (c : ℝ) (x : Fin n → ℝ) : l1 (fun j => c * x j) = |c| * l1 x := by
  unfold l1
  rw [Finset.mul_sum]
  exact Finset.sum_congr rfl fun i _ => abs_mul c (x i)

/-- Cauchy–Schwarz: `‖x‖₁ ≤ √n · ‖x‖₂`. -/
theorem l1_le_sqrt_mul_l2 (x : Fin n → ℝ) : l1 x ≤ Real.sqrt n * l2 x := by
  unfold l1 l2
  rw [← Real.sqrt_mul (Nat.cast_nonneg n)]
  apply Real.le_sqrt_of_sq_le
  have h := sq_sum_le_card_mul_sum_sq (s := (Finset.univ : Finset (Fin n))) (f := fun i => |x i|)
  simp only [sq_abs, Finset.card_univ, Fintype.card_fin] at h
  exact h

/-- `‖x‖₂ ≤ ‖x‖₁`. -/
theorem l2_le_l1 (x : Fin n → ℝ) : l2 x ≤ l1 x := by
  unfold l1 l2
  rw [Real.sqrt_le_left (Finset.sum_nonneg fun _ _ => abs_nonneg _)]
  have h := Finset.sum_sq_le_sq_sum_of_nonneg (s := (Finset.univ : Finset (Fin n)))
    (f := fun i => |x i|) (fun i _ => abs_nonneg _)
  simp only [sq_abs] at h
  exact h

theorem l2_zero : l2 (0 : Fin n → ℝ) = 0 := by
  unfold l2
  simp

/-! ### Contraction -/

/-- `Cᵀ` is L1-non-expansive for a non-negative matrix with row sums `≤ 1`
(in particular for a row-stochastic one). -/
theorem l1_contract_sub (C : Fin n → Fin n → ℝ) (hC0 : ∀ i j, 0 ≤ C i j)
    (hC1 : ∀ i, ∑ j, C i j ≤ 1) (x : Fin n → ℝ) :
    l1 (fun j => ∑ i, C i j * x i) ≤ l1 x := by
  unfold l1
  calc ∑ j, |∑ i, C i j * x i|
      ≤ ∑ j, ∑ i, C i j * |x i| := by
        apply Finset.sum_le_sum
        intro j _
        refine (Finset.abs_sum_le_sum_abs _ _).trans (le_of_eq ?_)
        apply Finset.sum_congr rfl
        intro i _
        rw [abs_mul, abs_of_nonneg (hC0 i j)]
    _ = ∑ i, ∑ j, C i j * |x i| := Finset.sum_comm
    _ ≤ ∑ i, |x i| := by
        apply Finset.sum_le_sum
        intro i _
        rw [← Finset.sum_mul]
        exact mul_le_of_le_one_left (abs_nonneg _) (hC1 i)

theorem F_sub (C : Fin n → Fin n → ℝ) (p : Fin n → ℝ) (a : ℝ) (x y : Fin n → ℝ) :
    F C p a x - F C p a y = fun j => (1 - a) * ∑ i, C i j * (x - y) i := by
  funext j
  simp only [F, Pi.sub_apply]
  have : ∑ i, C i j * (x i - y i) = ∑ i, C i j * x i - ∑ i, C i j * y i := by
    rw [← Finset.sum_sub_distrib]
    exact Finset.sum_congr rfl fun i _ => by ring
  rw [this]
  ring

/-- `F` is an L1-contraction with factor `1-a`. -/
theorem F_contract_sub (C : Fin n → Fin n → ℝ) (p : Fin n → ℝ) (a : ℝ)
    (hC0 : ∀ i j, 0 ≤ C i j) (hC1 : ∀ i, ∑ j, C i j ≤ 1) (_ha0 : 0 ≤ a) (ha1 : a ≤ 1)
    (x y : Fin n → ℝ) :
    l1 (F C p a x - F C p a y) ≤ (1 - a) * l1 (x - y) := by
  rw [F_sub, l1_const_mul (1 - a) (fun j => ∑ i, C i j * (x - y) i),
    abs_of_nonneg (by linarith : (0 : ℝ) ≤ 1 - a)]
  exact mul_le_mul_of_nonneg_left (l1_contract_sub C hC0 hC1 _) (by linarith)

/-- `f`-fold iteration contracts with factor `(1-a)^f`. -/
theorem F_iterate_contract (C : Fin n → Fin n → ℝ) (p : Fin n → ℝ) (a : ℝ)
    (hC0 : ∀ i j, 0 ≤ C i j) (hC1 : ∀ i, ∑ j, C i j ≤ 1) (ha0 : 0 ≤ a) (ha1 : a ≤ 1)
    (x y : Fin n → ℝ) (f : ℕ) :
    l1 ((F C p a)^[f] x - (F C p a)^[f] y) ≤ (1 - a) ^ f * l1 (x - y) := by
  induction f with
  | zero => simp
  | succ f ih =>
    rw [Function.iterate_succ_apply', Function.iterate_succ_apply', pow_succ]
    refine (F_contract_sub C p a hC0 hC1 ha0 ha1 _ _).trans ?_
    have h1a : (0 : ℝ) ≤ 1 - a := by linarith
    calc (1 - a) * l1 ((F C p a)^[f] x - (F C p a)^[f] y)
        ≤ (1 - a) * ((1 - a) ^ f * l1 (x - y)) := mul_le_mul_of_nonneg_left ih h1a
      _ = (1 - a) ^ f * (1 - a) * l1 (x - y) := by ring

/-! ### The fixed point -/

/-- The linear map `x ↦ x − (1-a)·Cᵀx`. -/
def Lmap (C : Fin n → Fin n → ℝ) (a : ℝ) : (Fin n → ℝ) →ₗ[ℝ] (Fin n → ℝ) where
  toFun x := fun j => x j - (1 - a) * ∑ i, C i j * x i
  map_add' x y := by
    funext j
    simp only [Pi.add_apply, mul_add, Finset.sum_add_distrib]
    ring
  map_smul' c x := by
    funext j
    simp only [Pi.smul_apply, smul_eq_mul, RingHom.id_apply]
    have : ∑ i, C i j * (c * x i) = c * ∑ i, C i j * x i := by
      rw [Finset.mul_sum]
      exact Finset.sum_congr rfl fun i _ => by ring
    rw [this]
    ring

theorem Lmap_apply (C : Fin n → Fin n → ℝ) (a : ℝ) (x : Fin n → ℝ) (j : Fin n) :
    Lmap C a x j = x j - (1 - a) * ∑ i, C i j * x i := rfl

theorem Lmap_injective (C : Fin n → Fin n → ℝ) (a : ℝ)
    (hC0 : ∀ i j, 0 ≤ C i j) (hC1 : ∀ i, ∑ j, C i j ≤ 1) (ha0 : 0 < a) (ha1 : a ≤ 1) :
    Function.Injective (Lmap C a) := by
  rw [injective_iff_map_eq_zero]
  intro x hx
  have hxe : x = fun j => (1 - a) * ∑ i, C i j * x i := by
    funext j
    have := congrFun hx j
    rw [Lmap_apply] at this
    simp only [Pi.zero_apply] at this
    linarith
  have h1 : l1 x = (1 - a) * l1 (fun j => ∑ i, C i j * x i) := by
    conv_lhs => rw [hxe]
    rw [l1_const_mul (1 - a) (fun j => ∑ i, C i j * x i),
      abs_of_nonneg (by linarith : (0 : ℝ) ≤ 1 - a)]
  have h2 := l1_contract_sub C hC0 hC1 x
  have h3 : (1 - a) * l1 (fun j => ∑ i, C i j * x i) ≤ (1 - a) * l1 x :=
    mul_le_mul_of_nonneg_left h2 (by linarith)
  have h4 : a * l1 x ≤ 0 := by nlinarith
  have h5 : l1 x ≤ 0 := by
    by_contra hc
    push Not at hc
    have := mul_pos ha0 hc
    linarith
  exact l1_le_zero h5

theorem fixedpoint_iff_Lmap (C : Fin n → Fin n → ℝ) (p : Fin n → ℝ) (a : ℝ) (t : Fin n → ℝ) :
    t = F C p a t ↔ Lmap C a t = a • p := by
  constructor
  · intro h
    funext j
    have := congrFun h j
    simp only [F] at this
    simp only [Lmap_apply, Pi.smul_apply, smul_eq_mul]
    linarith
  · intro h
    funext j
    have := congrFun h j
    simp only [Lmap_apply, Pi.smul_apply, smul_eq_mul] at this
    simp only [F]
    linarith

theorem fixedpoint_exists_unique_sub (C : Fin n → Fin n → ℝ) (p : Fin n → ℝ) (a : ℝ)
    (hC0 : ∀ i j, 0 ≤ C i j) (hC1 : ∀ i, ∑ j, C i j ≤ 1) (ha0 : 0 < a) (ha1 : a ≤ 1) :
    ∃! t, t = F C p a t := by
  have hinj := Lmap_injective C a hC0 hC1 ha0 ha1
  have hsurj : Function.Surjective (Lmap C a) := LinearMap.injective_iff_surjective.1 hinj
  obtain ⟨t, ht⟩ := hsurj (a • p)
  refine ⟨t, (fixedpoint_iff_Lmap C p a t).2 ht, ?_⟩
  intro t' ht'
  apply hinj
  rw [(fixedpoint_iff_Lmap C p a t').1 ht', ht]

/-! ### Error bound at a successful convergence check -/

theorem iterate_fixed_of_eq {G : (Fin n → ℝ) → (Fin n → ℝ)} {t : Fin n → ℝ} (h : t = G t)
    (f : ℕ) : G^[f] t = t :=
  Function.iterate_fixed h.symm f

/-- L1 form: `‖tk − t*‖₁ ≤ (1-a)/a · ‖tk − tprev‖₁` when `tk = F^[f] tprev`, `f ≥ 1`. -/
theorem stop_bound_l1 (C : Fin n → Fin n → ℝ) (p : Fin n → ℝ) (a : ℝ)
    (hC0 : ∀ i j, 0 ≤ C i j) (hC1 : ∀ i, ∑ j, C i j ≤ 1) (ha0 : 0 < a) (ha1 : a ≤ 1)
    (tstar tprev : Fin n → ℝ) (hstar : tstar = F C p a tstar) (f : ℕ) (hf : 1 ≤ f) :
    l1 ((F C p a)^[f] tprev - tstar) ≤ ((1 - a) / a) * l1 ((F C p a)^[f] tprev - tprev) := by
  set tk := (F C p a)^[f] tprev with htk
  set q : ℝ := 1 - a with hq
  have hq0 : 0 ≤ q := by rw [hq]; linarith
  have hq1 : q ≤ 1 := by rw [hq]; linarith
  -- contraction towards the fixed point
  have h1 : l1 (tk - tstar) ≤ q ^ f * l1 (tprev - tstar) := by
    have := F_iterate_contract C p a hC0 hC1 ha0.le ha1 tprev tstar f
    rwa [iterate_fixed_of_eq hstar f] at this
  -- q^f ≤ q
  have h2 : q ^ f ≤ q := by
    obtain ⟨m, rfl⟩ : ∃ m, f = m + 1 := ⟨f - 1, by omega⟩
    rw [pow_succ]
    exact mul_le_of_le_one_left hq0 (pow_le_one₀ hq0 hq1)
  -- triangle inequality
  have h3 : l1 (tprev - tstar) ≤ l1 (tk - tprev) + l1 (tk - tstar) := by
    have := l1_triangle tprev tk tstar
    rwa [l1_sub_comm tprev tk] at this
  have hD := l1_nonneg (tk - tstar)
  have hE := l1_nonneg (tk - tprev)
  have hP := l1_nonneg (tprev - tstar)
  have h4 : l1 (tk - tstar) ≤ q * (l1 (tk - tprev) + l1 (tk - tstar)) :=
    h1.trans ((mul_le_mul_of_nonneg_right h2 hP).trans (mul_le_mul_of_nonneg_left h3 hq0))
  -- a · D ≤ (1 - a) · E
  have h5 : a * l1 (tk - tstar) ≤ q * l1 (tk - tprev) := by
    have : q * (l1 (tk - tprev) + l1 (tk - tstar))
        = q * l1 (tk - tprev) + l1 (tk - tstar) - a * l1 (tk - tstar) := by
      rw [hq]; ring
    linarith
  rw [div_mul_eq_mul_div, le_div_iff₀ ha0]
  linarith

/-- The C01 bound (row sums `≤ 1` suffice). -/
theorem stop_bound_sub (C : Fin n → Fin n → ℝ) (p : Fin n → ℝ) (a e : ℝ)
    (hC0 : ∀ i j, 0 ≤ C i j) (hC1 : ∀ i, ∑ j, C i j ≤ 1) (ha0 : 0 < a) (ha1 : a ≤ 1)
    (tstar tprev : Fin n → ℝ) (hstar : tstar = F C p a tstar) (f : ℕ) (hf : 1 ≤ f)
    (hstop : l2 ((F C p a)^[f] tprev - tprev) ≤ e) :
    l1 ((F C p a)^[f] tprev - tstar) ≤ ((1 - a) / a) * Real.sqrt n * e := by
  have hc : 0 ≤ (1 - a) / a := div_nonneg (by linarith) ha0.le
  have h1 := stop_bound_l1 C p a hC0 hC1 ha0 ha1 tstar tprev hstar f hf
  have h2 := l1_le_sqrt_mul_l2 ((F C p a)^[f] tprev - tprev)
  have h3 : Real.sqrt n * l2 ((F C p a)^[f] tprev - tprev) ≤ Real.sqrt n * e :=
    mul_le_mul_of_nonneg_left hstop (Real.sqrt_nonneg _)
  calc l1 ((F C p a)^[f] tprev - tstar)
      ≤ ((1 - a) / a) * l1 ((F C p a)^[f] tprev - tprev) := h1
    _ ≤ ((1 - a) / a) * (Real.sqrt n * e) := mul_le_mul_of_nonneg_left (h2.trans h3) hc
    _ = ((1 - a) / a) * Real.sqrt n * e := by ring

/-! ### Distributions -/

theorem sum_F (C : Fin n → Fin n → ℝ) (p : Fin n → ℝ) (a : ℝ)
    (hC1 : ∀ i, ∑ j, C i j = 1) (t : Fin n → ℝ) :
    ∑ j, F C p a t j = (1 - a) * ∑ i, t i + a * ∑ j, p j := by
  simp only [F]
  rw [Finset.sum_add_distrib, ← Finset.mul_sum, ← Finset.mul_sum, Finset.sum_comm]
  congr 2
  apply Finset.sum_congr rfl
  intro i _
  rw [← Finset.sum_mul, hC1 i, one_mul]

/-- `F` maps distributions to distributions. -/
theorem F_distribution (C : Fin n → Fin n → ℝ) (p : Fin n → ℝ) (a : ℝ)
    (hC0 : ∀ i j, 0 ≤ C i j) (hC1 : ∀ i, ∑ j, C i j = 1)
    (hp0 : ∀ i, 0 ≤ p i) (hp1 : ∑ i, p i = 1) (ha0 : 0 ≤ a) (ha1 : a ≤ 1)
    (t : Fin n → ℝ) (ht0 : ∀ i, 0 ≤ t i) (ht1 : ∑ i, t i = 1) :
    (∀ i, 0 ≤ F C p a t i) ∧ ∑ i, F C p a t i = 1 := by
  constructor
  · intro j
    simp only [F]
    have h1 : 0 ≤ ∑ i, C i j * t i := Finset.sum_nonneg fun i _ => mul_nonneg (hC0 i j) (ht0 i)
    have h2 : 0 ≤ (1 - a) * ∑ i, C i j * t i := mul_nonneg (by linarith) h1
    have h3 : 0 ≤ a * p j := mul_nonneg ha0 (hp0 j)
    linarith
  · rw [sum_F C p a hC1, ht1, hp1]
    ring

theorem l1_of_nonneg {x : Fin n → ℝ} (h : ∀ i, 0 ≤ x i) : l1 x = ∑ i, x i := by
  unfold l1
  exact Finset.sum_congr rfl fun i _ => abs_of_nonneg (h i)

theorem sum_le_l1 (x : Fin n → ℝ) : ∑ i, x i ≤ l1 x :=
  Finset.sum_le_sum fun i _ => le_abs_self (x i)

theorem l1_F_le (C : Fin n → Fin n → ℝ) (p : Fin n → ℝ) (a : ℝ)
    (hC0 : ∀ i j, 0 ≤ C i j) (hC1 : ∀ i, ∑ j, C i j ≤ 1) (ha0 : 0 ≤ a) (ha1 : a ≤ 1)
    (t : Fin n → ℝ) : l1 (F C p a t) ≤ (1 - a) * l1 t + a * l1 p := by
  have h : F C p a t = (fun j => (1 - a) * ∑ i, C i j * t i) + fun j => a * p j := by
    funext j; simp [F]
  rw [h]
  refine (l1_add_le _ _).trans ?_
  rw [l1_const_mul (1 - a) (fun j => ∑ i, C i j * t i), l1_const_mul a p,
    abs_of_nonneg ha0, abs_of_nonneg (by linarith : (0 : ℝ) ≤ 1 - a)]
  have := mul_le_mul_of_nonneg_left (l1_contract_sub C hC0 hC1 t) (by linarith : (0 : ℝ) ≤ 1 - a)
  linarith

/-- A fixed point of `F` (with `a > 0`, `p` a distribution) is a distribution. -/
theorem fixedpoint_distribution_aux (C : Fin n → Fin n → ℝ) (p : Fin n → ℝ) (a : ℝ)
    (hC0 : ∀ i j, 0 ≤ C i j) (hC1 : ∀ i, ∑ j, C i j = 1)
    (hp0 : ∀ i, 0 ≤ p i) (hp1 : ∑ i, p i = 1) (ha0 : 0 < a) (ha1 : a ≤ 1)
    (t : Fin n → ℝ) (ht : t = F C p a t) :
    (∀ i, 0 ≤ t i) ∧ ∑ i, t i = 1 := by
  -- the entries sum to one
  have hs : ∑ i, t i = 1 := by
    have h := sum_F C p a hC1 t
    rw [← ht, hp1] at h
    have h' : a * (∑ i, t i - 1) = 0 := by linarith
    rcases mul_eq_zero.1 h' with h0 | h0
    · exact absurd h0 (ne_of_gt ha0)
    · linarith
  -- the L1 norm is at most one
  have hl : l1 t ≤ 1 := by
    have h := l1_F_le C p a hC0 (fun i => (hC1 i).le) ha0.le ha1 t
    rw [← ht, l1_of_nonneg hp0, hp1] at h
    have h' : a * (l1 t - 1) ≤ 0 := by linarith
    by_contra hc
    push Not at hc
    have := mul_pos ha0 (by linarith : 0 < l1 t - 1)
    linarith
  refine ⟨?_, hs⟩
  -- ∑ (|t i| - t i) = 0 with non-negative terms
  have hz : ∑ i, (|t i| - t i) = 0 := by
    rw [Finset.sum_sub_distrib, hs]
    have h1 : (1 : ℝ) ≤ l1 t := hs ▸ sum_le_l1 t
    have : l1 t = 1 := le_antisymm hl h1
    unfold l1 at this
    linarith
  intro i
  have := (Finset.sum_eq_zero_iff_of_nonneg
    (fun i _ => sub_nonneg.2 (le_abs_self (t i)))).1 hz i (Finset.mem_univ i)
  have h2 : |t i| = t i := by linarith
  exact abs_eq_self.1 h2

/-- All iterates from a distribution are distributions. -/
theorem iterate_distribution (C : Fin n → Fin n → ℝ) (p : Fin n → ℝ) (a : ℝ)
    (hC0 : ∀ i j, 0 ≤ C i j) (hC1 : ∀ i, ∑ j, C i j = 1)
    (hp0 : ∀ i, 0 ≤ p i) (hp1 : ∑ i, p i = 1) (ha0 : 0 ≤ a) (ha1 : a ≤ 1)
    (t0 : Fin n → ℝ) (ht0 : ∀ i, 0 ≤ t0 i) (ht1 : ∑ i, t0 i = 1) (k : ℕ) :
    (∀ i, 0 ≤ (F C p a)^[k] t0 i) ∧ ∑ i, (F C p a)^[k] t0 i = 1 := by
  induction k with
  | zero => exact ⟨ht0, ht1⟩
  | succ k ih =>
    rw [Function.iterate_succ_apply']
    exact F_distribution C p a hC0 hC1 hp0 hp1 ha0 ha1 _ ih.1 ih.2

/-! ### A concrete instance (used by the non-vacuity `example`s in Props/C01, Props/C05a) -/

/-- 2×2 swap matrix `[[0,1],[1,0]]` (row-stochastic). -/
def exC : Fin 2 → Fin 2 → ℝ := fun i j => if i = j then 0 else 1
/-- uniform pre-trust `(1/2, 1/2)` -/
noncomputable def exP : Fin 2 → ℝ := fun _ => 1 / 2
/-- initial vector `(1, 0)` -/
def exT0 : Fin 2 → ℝ := fun i => if i = 0 then 1 else 0

theorem exC_nonneg : ∀ i j, 0 ≤ exC i j := by
  intro i j; unfold exC; split_ifs <;> norm_num

theorem exC_rowsum : ∀ i, ∑ j, exC i j = 1 := by
  intro i; fin_cases i <;> simp [exC, Fin.sum_univ_two]

theorem exP_nonneg : ∀ i, 0 ≤ exP i := by
  intro i; unfold exP; norm_num

theorem exP_sum : ∑ i, exP i = 1 := by
  simp [exP]

theorem exT0_nonneg : ∀ i, 0 ≤ exT0 i := by
  intro i; unfold exT0; split_ifs <;> norm_num

theorem exT0_sum : ∑ i, exT0 i = 1 := by
  simp [exT0]

/-- `(1/2,1/2)` is the fixed point for `a = 1/2`. -/
theorem exP_fixed : exP = F exC exP (1 / 2) exP := by
  funext j
  fin_cases j <;> simp [F, exC, exP, Fin.sum_univ_two] <;> norm_num

end EtVerif.Dense
