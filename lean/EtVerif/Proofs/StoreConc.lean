/-
  Concurrent (step-level) model of the stored local-trust handlers and the machinery behind the
  concurrent clause of C13 (Props/C13b.lean).

  What is modelled (pkg/basic/server/namedtrust.go, lockedtrust.go, pkg/util/syncmap.go,
  pkg/basic/server/oapi/openapi.go UpdateLocalTrust / getLocalTrust / HeadLocalTrust /
  DeleteLocalTrust):

  * matrices are abstracted to an arbitrary type `M` with an overlay `ov : M → M → M`
    (`ov target update`, the effect of `target.Merge(update)`); request bodies are already loaded;
  * a `*TrustMatrix` is an object id (a `Nat`); the `sync.Map` is `String → Option Nat`; objects
    removed from the map by `Swap` / `LoadAndDelete` keep existing (a goroutine may hold the pointer);
  * every `sync.Map` primitive is one atomic step; every `LockAndRun` section is one atomic step
    (the per-object mutex makes sections on one object serial, sections on different objects touch
    disjoint state);
  * the second `LockAndRun(Mmap)` section of UpdateLocalTrust does not change the content of the
    matrix (C12) and is omitted; so is `c.Reset()` on the request's own, unshared body;
  * a goroutine = one request (`Nat`); there is no bound on their number.  A client that issues its
    requests one after the other is a special schedule.

  Handlers as programs of atomic steps:
    put id b    : [alloc o' := b; Swap(id, o')]                               → 201 iff nothing loaded
    merge id b  : [alloc o' := b; LoadOrStore(id, o')] ; if loaded o: [section: o := ov o b]
                                                                              → 201 iff nothing loaded
    get id      : [Load id] ; none ⇒ 404 | some o ⇒ [section: read o]         → matrix
    head id     : [Load id]                                                   → 204 / 404
    delete id   : [LoadAndDelete id]                                          → 204 / 404

  History variables (do not influence the behaviour): `trace` (the atomic actions in execution
  order; the step index of an action is its position), `invT` (index of a request's first action),
  `hist` (completed requests: first / last action index, request, response).  Taking the first and
  last *atomic action* as invocation / response instants is the tightest choice: the real
  invocation is earlier and the real response later, which only removes real-time constraints.
-/
import Mathlib.Logic.Relation
import Mathlib.Logic.Function.Basic
import Mathlib.Data.List.Perm.Basic

namespace EtVerif.StoreConc

/- Object ids (`*TrustMatrix` pointers) and request / goroutine ids are natural numbers; they are
   written `Nat` throughout (variables `o`, `new`, `prev` : object ids; `r`, `rid` : request ids)
   because `omega` does not look through type abbreviations. -/

inductive Req (M : Type) where
  | put (id : String) (body : M)
  | merge (id : String) (body : M)
  | get (id : String)
  | head (id : String)
  | delete (id : String)
deriving DecidableEq

inductive Resp (M : Type) where
  | created | updated | noContent | notFound
  | matrix (m : M)
deriving DecidableEq

def Req.id {M : Type} : Req M → String
  | .put id _ => id | .merge id _ => id | .get id => id | .head id => id | .delete id => id

/-! ## sequential specification (`Oapi.handleStore` / `C13.specStep` with matrices abstracted) -/

abbrev KV (M : Type) := String → Option M

variable {M : Type}

def specStep (ov : M → M → M) (kv : KV M) : Req M → KV M × Resp M
  | .put id b => (Function.update kv id (some b), if (kv id).isSome then .updated else .created)
  | .merge id b =>
    match kv id with
    | none => (Function.update kv id (some b), .created)
    | some c => (Function.update kv id (some (ov c b)), .updated)
  | .get id => (kv, match kv id with | none => .notFound | some c => .matrix c)
  | .head id => (kv, if (kv id).isSome then .noContent else .notFound)
  | .delete id =>
    if (kv id).isSome then (Function.update kv id none, .noContent) else (kv, .notFound)

/-- responses of the specification to a request sequence -/
def runSpec (ov : M → M → M) (kv : KV M) : List (Req M) → List (Resp M)
  | [] => []
  | q :: qs => (specStep ov kv q).2 :: runSpec ov (specStep ov kv q).1 qs

/-! ## the concurrent system -/

inductive Pc where
  | start
  | mergeLoaded (o : Nat)
  | getLoaded (o : Nat)
  | done

/-- atomic actions, as recorded in the trace -/
inductive Ev (M : Type) where
  | swap (r : Nat) (id : String) (new : Nat) (body : M) (prev : Option Nat)
  | los (r : Nat) (id : String) (new : Nat) (body : M) (prev : Option Nat)
  | msec (r : Nat) (o : Nat) (body : M)
  | gload (r : Nat) (id : String) (res : Option Nat)
  | gread (r : Nat) (o : Nat) (c : M)
  | hload (r : Nat) (id : String) (res : Option Nat)
  | lad (r : Nat) (id : String) (prev : Option Nat)

/-- a completed request -/
structure Rec (M : Type) where
  rid : Nat
  req : Req M
  inv : Nat
  res : Nat
  resp : Resp M
deriving DecidableEq

structure St (M : Type) where
  map : String → Option Nat
  cont : Nat → Option M
  next : Nat
  pc : Nat → Pc
  invT : Nat → Nat
  trace : List (Ev M)
  hist : List (Rec M)

def init : St M :=
  { map := fun _ => none, cont := fun _ => none, next := 0, pc := fun _ => .start,
    invT := fun _ => 0, trace := [], hist := [] }

open Function in
/-- one atomic step of one goroutine -/
inductive Step (prog : Nat → Req M) (ov : M → M → M) : St M → St M → Prop
  /-- put: NewTrustMatrixWithContents + Swap -/
  | swap (s : St M) (r : Nat) (id : String) (body : M)
      (hp : prog r = .put id body) (hpc : s.pc r = .start) :
      Step prog ov s
        { map := update s.map id (some s.next)
          cont := update s.cont s.next (some body)
          next := s.next + 1
          pc := update s.pc r .done
          invT := update s.invT r s.trace.length
          trace := s.trace ++ [.swap r id s.next body (s.map id)]
          hist := s.hist ++ [⟨r, .put id body, s.trace.length, s.trace.length,
                    if (s.map id).isSome then .updated else .created⟩] }
  /-- merge: NewTrustMatrixWithContents + LoadOrStore, nothing loaded: stored, answer 201 -/
  | losStore (s : St M) (r : Nat) (id : String) (body : M)
      (hp : prog r = .merge id body) (hpc : s.pc r = .start) (hm : s.map id = none) :
      Step prog ov s
        { map := update s.map id (some s.next)
          cont := update s.cont s.next (some body)
          next := s.next + 1
          pc := update s.pc r .done
          invT := update s.invT r s.trace.length
          trace := s.trace ++ [.los r id s.next body none]
          hist := s.hist ++ [⟨r, .merge id body, s.trace.length, s.trace.length, .created⟩] }
  /-- merge: NewTrustMatrixWithContents + LoadOrStore, object `o` loaded (the new object is
      dropped) -/
  | losLoad (s : St M) (r : Nat) (id : String) (body : M) (o : Nat)
      (hp : prog r = .merge id body) (hpc : s.pc r = .start) (hm : s.map id = some o) :
      Step prog ov s
        { map := s.map
          cont := update s.cont s.next (some body)
          next := s.next + 1
          pc := update s.pc r (.mergeLoaded o)
          invT := update s.invT r s.trace.length
          trace := s.trace ++ [.los r id s.next body (some o)]
          hist := s.hist }
  /-- merge: the locked section `c2.Merge(c)` on the loaded object, answer 200 -/
  | msec (s : St M) (r : Nat) (id : String) (body : M) (o : Nat) (c : M)
      (hp : prog r = .merge id body) (hpc : s.pc r = .mergeLoaded o) (hc : s.cont o = some c) :
      Step prog ov s
        { map := s.map
          cont := update s.cont o (some (ov c body))
          next := s.next
          pc := update s.pc r .done
          invT := s.invT
          trace := s.trace ++ [.msec r o body]
          hist := s.hist ++ [⟨r, .merge id body, s.invT r, s.trace.length, .updated⟩] }
  /-- get: Load finds nothing, answer 404 -/
  | gloadNone (s : St M) (r : Nat) (id : String)
      (hp : prog r = .get id) (hpc : s.pc r = .start) (hm : s.map id = none) :
      Step prog ov s
        { map := s.map, cont := s.cont, next := s.next
          pc := update s.pc r .done
          invT := update s.invT r s.trace.length
          trace := s.trace ++ [.gload r id none]
          hist := s.hist ++ [⟨r, .get id, s.trace.length, s.trace.length, .notFound⟩] }
  /-- get: Load finds `o` -/
  | gloadSome (s : St M) (r : Nat) (id : String) (o : Nat)
      (hp : prog r = .get id) (hpc : s.pc r = .start) (hm : s.map id = some o) :
      Step prog ov s
        { map := s.map, cont := s.cont, next := s.next
          pc := update s.pc r (.getLoaded o)
          invT := update s.invT r s.trace.length
          trace := s.trace ++ [.gload r id (some o)]
          hist := s.hist }
  /-- get: the locked section reading the loaded object, answer 200 + content -/
  | gread (s : St M) (r : Nat) (id : String) (o : Nat) (c : M)
      (hp : prog r = .get id) (hpc : s.pc r = .getLoaded o) (hc : s.cont o = some c) :
      Step prog ov s
        { map := s.map, cont := s.cont, next := s.next
          pc := update s.pc r .done
          invT := s.invT
          trace := s.trace ++ [.gread r o c]
          hist := s.hist ++ [⟨r, .get id, s.invT r, s.trace.length, .matrix c⟩] }
  /-- head: Load -/
  | hload (s : St M) (r : Nat) (id : String)
      (hp : prog r = .head id) (hpc : s.pc r = .start) :
      Step prog ov s
        { map := s.map, cont := s.cont, next := s.next
          pc := update s.pc r .done
          invT := update s.invT r s.trace.length
          trace := s.trace ++ [.hload r id (s.map id)]
          hist := s.hist ++ [⟨r, .head id, s.trace.length, s.trace.length,
                    if (s.map id).isSome then .noContent else .notFound⟩] }
  /-- delete: LoadAndDelete -/
  | lad (s : St M) (r : Nat) (id : String)
      (hp : prog r = .delete id) (hpc : s.pc r = .start) :
      Step prog ov s
        { map := update s.map id none
          cont := s.cont, next := s.next
          pc := update s.pc r .done
          invT := update s.invT r s.trace.length
          trace := s.trace ++ [.lad r id (s.map id)]
          hist := s.hist ++ [⟨r, .delete id, s.trace.length, s.trace.length,
                    if (s.map id).isSome then .noContent else .notFound⟩] }

/-- states reachable from the empty store by any interleaving -/
def Reach (prog : Nat → Req M) (ov : M → M → M) (s : St M) : Prop :=
  Relation.ReflTransGen (Step prog ov) init s

/-! ## 1. the state is a function of the trace of atomic actions -/

def Ev.rid : Ev M → Nat
  | .swap r .. => r | .los r .. => r | .msec r .. => r | .gload r .. => r
  | .gread r .. => r | .hload r .. => r | .lad r .. => r

/-- effect of an action on the map -/
def Ev.mapEff (m : String → Option Nat) : Ev M → String → Option Nat
  | .swap _ id o _ _ => Function.update m id (some o)
  | .los _ id o _ _ => if (m id).isSome then m else Function.update m id (some o)
  | .lad _ id _ => Function.update m id none
  | _ => m

/-- the map after a trace -/
def mapOf (tr : List (Ev M)) : String → Option Nat :=
  tr.foldl Ev.mapEff (fun _ => none)

/-- the body an action allocates object `o` with -/
def Ev.allocOf (o : Nat) : Ev M → Option M
  | .swap _ _ o' b _ => if o' = o then some b else none
  | .los _ _ o' b _ => if o' = o then some b else none
  | _ => none

/-- the merge body an action applies to object `o` in a locked section -/
def Ev.mergeOn (o : Nat) : Ev M → Option M
  | .msec _ o' b => if o' = o then some b else none
  | _ => none

def allocBody (tr : List (Ev M)) (o : Nat) : Option M := tr.findSome? (Ev.allocOf o)

/-- merge bodies applied to `o`, in the order their locked sections executed -/
def mergeBodies (tr : List (Ev M)) (o : Nat) : List M := tr.filterMap (Ev.mergeOn o)

/-- the content of `o` after a trace: the fold of `ov` over the merge bodies applied to it, in
    section order, starting from the body it was allocated with (`none` = never allocated) -/
def contOf (ov : M → M → M) (tr : List (Ev M)) (o : Nat) : Option M :=
  (allocBody tr o).map fun b0 => (mergeBodies tr o).foldl ov b0

/-- what an action must have observed when executed after trace `tr` -/
def Ev.okAfter (ov : M → M → M) (tr : List (Ev M)) : Ev M → Prop
  | .swap _ id o _ prev => prev = mapOf tr id ∧ allocBody tr o = none
  | .los _ id o _ prev => prev = mapOf tr id ∧ allocBody tr o = none
  | .msec _ o _ => (contOf ov tr o).isSome
  | .gload _ id res => res = mapOf tr id
  | .gread _ o c => contOf ov tr o = some c
  | .hload _ id res => res = mapOf tr id
  | .lad _ id prev => prev = mapOf tr id

/-- every action of the trace observed exactly the state defined by the actions before it -/
inductive Sound (ov : M → M → M) : List (Ev M) → Prop
  | nil : Sound ov []
  | snoc {tr : List (Ev M)} {e : Ev M} : Sound ov tr → e.okAfter ov tr → Sound ov (tr ++ [e])

/-- the response a final action determines (`none`: the action is not final) -/
def Ev.resp? : Ev M → Option (Resp M)
  | .swap _ _ _ _ prev => some (if prev.isSome then .updated else .created)
  | .los _ _ _ _ prev => if prev.isSome then none else some .created
  | .msec .. => some .updated
  | .gload _ _ res => if res.isSome then none else some .notFound
  | .gread _ _ c => some (.matrix c)
  | .hload _ _ res => some (if res.isSome then .noContent else .notFound)
  | .lad _ _ prev => some (if prev.isSome then .noContent else .notFound)

/-- a history record is backed by the trace: its response instant holds the final action of the
    request and the response is the one that action determines -/
def Rec.Backed (prog : Nat → Req M) (tr : List (Ev M)) (rc : Rec M) : Prop :=
  rc.req = prog rc.rid ∧ rc.inv ≤ rc.res ∧
  ∃ e, tr[rc.res]? = some e ∧ e.rid = rc.rid ∧ e.resp? = some rc.resp

structure TraceInv (prog : Nat → Req M) (ov : M → M → M) (s : St M) : Prop where
  map_eq : s.map = mapOf s.trace
  cont_eq : s.cont = contOf ov s.trace
  fresh : ∀ o, s.next ≤ o → allocBody s.trace o = none
  sound : Sound ov s.trace
  backed : ∀ rc ∈ s.hist, rc.Backed prog s.trace
  invT_le : ∀ r, s.invT r ≤ s.trace.length

theorem mapOf_snoc (tr : List (Ev M)) (e : Ev M) : mapOf (tr ++ [e]) = e.mapEff (mapOf tr) := by
  simp [mapOf, List.foldl_append]

theorem allocBody_snoc (tr : List (Ev M)) (e : Ev M) (o : Nat) :
    allocBody (tr ++ [e]) o = (allocBody tr o).or (e.allocOf o) := by
  simp [allocBody, List.findSome?_append]

theorem mergeBodies_snoc (tr : List (Ev M)) (e : Ev M) (o : Nat) :
    mergeBodies (tr ++ [e]) o = mergeBodies tr o ++ (e.mergeOn o).toList := by
  simp only [mergeBodies, List.filterMap_append, List.filterMap_cons, List.filterMap_nil]
  cases e.mergeOn o <;> rfl

/-- content after an action that neither allocates nor merges into `o` -/
theorem contOf_snoc_other (ov : M → M → M) (tr : List (Ev M)) (e : Ev M) (o : Nat)
    (ha : e.allocOf o = none) (hm : e.mergeOn o = none) :
    contOf ov (tr ++ [e]) o = contOf ov tr o := by
  simp [contOf, allocBody_snoc, mergeBodies_snoc, ha, hm]

theorem Sound.noMerge {ov : M → M → M} {tr : List (Ev M)} (h : Sound ov tr) (o : Nat)
    (ha : allocBody tr o = none) : mergeBodies tr o = [] := by
  induction h with
  | nil => rfl
  | @snoc tr e _ hok ih =>
    rw [allocBody_snoc] at ha
    have h1 : allocBody tr o = none := by
      cases h : allocBody tr o with
      | none => rfl
      | some b => simp [h] at ha
    rw [mergeBodies_snoc, ih h1]
    cases e with
    | msec r o' b =>
      by_cases ho : o' = o
      · subst ho
        simp [Ev.okAfter, contOf, h1] at hok
      · simp [Ev.mergeOn, ho]
    | _ => rfl

theorem contOf_snoc_alloc (ov : M → M → M) (tr : List (Ev M)) (hs : Sound ov tr) (e : Ev M)
    (o : Nat) (b : M)
    (hf : allocBody tr o = none) (ha : e.allocOf o = some b) (hm : e.mergeOn o = none) :
    contOf ov (tr ++ [e]) o = some b := by
  simp [contOf, allocBody_snoc, mergeBodies_snoc, ha, hm, hf, hs.noMerge o hf]

theorem contOf_snoc_merge (ov : M → M → M) (tr : List (Ev M)) (e : Ev M) (o : Nat) (c b : M)
    (hc : contOf ov tr o = some c) (ha : e.allocOf o = none) (hm : e.mergeOn o = some b) :
    contOf ov (tr ++ [e]) o = some (ov c b) := by
  simp only [contOf, Option.map_eq_some_iff] at hc
  obtain ⟨b0, h0, rfl⟩ := hc
  simp [contOf, allocBody_snoc, mergeBodies_snoc, ha, hm, h0, List.foldl_append]

theorem Rec.Backed.snoc {prog : Nat → Req M} {tr : List (Ev M)} {rc : Rec M}
    (h : rc.Backed prog tr) (e : Ev M) : rc.Backed prog (tr ++ [e]) := by
  obtain ⟨h1, h2, e', h3, h4⟩ := h
  refine ⟨h1, h2, e', ?_, h4⟩
  have hlt : rc.res < tr.length := by
    rcases Nat.lt_or_ge rc.res tr.length with h | h
    · exact h
    · rw [List.getElem?_eq_none h] at h3; cases h3
  rw [List.getElem?_append_left hlt]; exact h3

/-- the record of a request whose final action is the one appended now -/
theorem Rec.Backed.last {prog : Nat → Req M} (tr : List (Ev M)) (e : Ev M) (rc : Rec M)
    (h1 : rc.req = prog rc.rid) (h2 : rc.inv ≤ rc.res) (h3 : rc.res = tr.length)
    (h4 : e.rid = rc.rid) (h5 : e.resp? = some rc.resp) : rc.Backed prog (tr ++ [e]) :=
  ⟨h1, h2, e, by simp [h3], h4, h5⟩

theorem TraceInv.init (prog : Nat → Req M) (ov : M → M → M) : TraceInv prog ov (init : St M) :=
  ⟨rfl, rfl, fun _ _ => rfl, .nil, fun _ h => (by cases h), fun _ => Nat.le_refl _⟩

theorem TraceInv.step {prog : Nat → Req M} {ov : M → M → M} {s s' : St M}
    (h : TraceInv prog ov s) (hs : Step prog ov s s') : TraceInv prog ov s' := by
  obtain ⟨hmap, hcont, hfresh, hsound, hback, hinv⟩ := h
  have hbk : ∀ (e : Ev M), ∀ rc ∈ s.hist, rc.Backed prog (s.trace ++ [e]) :=
    fun e rc hrc => (hback rc hrc).snoc e
  cases hs with
  | swap r id body hp hpc =>
    refine ⟨?_, ?_, ?_, hsound.snoc ⟨by rw [hmap], hfresh _ (Nat.le_refl _)⟩, ?_, ?_⟩ <;> try dsimp only
    · simp only [mapOf_snoc, Ev.mapEff, hmap]
    · funext o
      by_cases ho : o = s.next
      · subst ho
        rw [contOf_snoc_alloc ov _ hsound _ _ body (hfresh _ (Nat.le_refl _)) (by simp [Ev.allocOf]) rfl]
        simp
      · rw [contOf_snoc_other ov _ _ _ (by simp [Ev.allocOf, Ne.symm ho]) rfl,
          Function.update_of_ne ho, hcont]
    · intro o ho
      rw [allocBody_snoc, hfresh o (by omega)]
      simp only [Ev.allocOf, Option.none_or]
      rw [if_neg (by omega)]
    · intro rc hrc
      rcases List.mem_append.mp hrc with hrc | hrc
      · exact hbk _ rc hrc
      · rw [List.mem_singleton] at hrc; subst hrc
        exact Rec.Backed.last _ _ _ hp.symm (Nat.le_refl _) rfl rfl (by simp [Ev.resp?])
    · intro r'
      simp only [List.length_append, List.length_singleton, Function.update_apply]
      split
      · omega
      · have := hinv r'; omega
  | losStore r id body hp hpc hm =>
    refine ⟨?_, ?_, ?_, hsound.snoc ⟨by rw [← hmap, hm], hfresh _ (Nat.le_refl _)⟩, ?_, ?_⟩ <;> try dsimp only
    · simp only [mapOf_snoc, Ev.mapEff, ← hmap, hm]; rfl
    · funext o
      by_cases ho : o = s.next
      · subst ho
        rw [contOf_snoc_alloc ov _ hsound _ _ body (hfresh _ (Nat.le_refl _)) (by simp [Ev.allocOf]) rfl]
        simp
      · rw [contOf_snoc_other ov _ _ _ (by simp [Ev.allocOf, Ne.symm ho]) rfl,
          Function.update_of_ne ho, hcont]
    · intro o ho
      rw [allocBody_snoc, hfresh o (by omega)]
      simp only [Ev.allocOf, Option.none_or]
      rw [if_neg (by omega)]
    · intro rc hrc
      rcases List.mem_append.mp hrc with hrc | hrc
      · exact hbk _ rc hrc
      · rw [List.mem_singleton] at hrc; subst hrc
        exact Rec.Backed.last _ _ _ hp.symm (Nat.le_refl _) rfl rfl (by simp [Ev.resp?])
    · intro r'
      simp only [List.length_append, List.length_singleton, Function.update_apply]
      split
      · omega
      · have := hinv r'; omega
  | losLoad r id body o hp hpc hm =>
    refine ⟨?_, ?_, ?_, hsound.snoc ⟨by rw [← hmap, hm], hfresh _ (Nat.le_refl _)⟩, ?_, ?_⟩ <;> try dsimp only
    · simp only [mapOf_snoc, Ev.mapEff, ← hmap, hm]; rfl
    · funext o'
      by_cases ho : o' = s.next
      · subst ho
        rw [contOf_snoc_alloc ov _ hsound _ _ body (hfresh _ (Nat.le_refl _)) (by simp [Ev.allocOf]) rfl]
        simp
      · rw [contOf_snoc_other ov _ _ _ (by simp [Ev.allocOf, Ne.symm ho]) rfl,
          Function.update_of_ne ho, hcont]
    · intro o' ho
      rw [allocBody_snoc, hfresh o' (by omega)]
      simp only [Ev.allocOf, Option.none_or]
      rw [if_neg (by omega)]
    · exact hbk _
    · intro r'
      simp only [List.length_append, List.length_singleton, Function.update_apply]
      split
      · omega
      · have := hinv r'; omega
  | msec r id body o c hp hpc hc =>
    have hc' : contOf ov s.trace o = some c := by rw [← hcont]; exact hc
    refine ⟨?_, ?_, ?_, hsound.snoc (by simp [Ev.okAfter, hc']), ?_, ?_⟩ <;> try dsimp only
    · simp only [mapOf_snoc, Ev.mapEff, hmap]
    · funext o'
      by_cases ho : o' = o
      · subst ho
        rw [contOf_snoc_merge ov _ _ _ c body hc' rfl (by simp [Ev.mergeOn])]
        simp
      · rw [contOf_snoc_other ov _ _ _ rfl (by simp [Ev.mergeOn, Ne.symm ho]),
          Function.update_of_ne ho, hcont]
    · intro o' ho
      rw [allocBody_snoc, hfresh o' ho]; rfl
    · intro rc hrc
      rcases List.mem_append.mp hrc with hrc | hrc
      · exact hbk _ rc hrc
      · rw [List.mem_singleton] at hrc; subst hrc
        exact Rec.Backed.last _ _ _ hp.symm (hinv r) rfl rfl (by simp [Ev.resp?])
    · intro r'
      have := hinv r'
      simp only [List.length_append, List.length_singleton]; omega
  | gloadNone r id hp hpc hm =>
    refine ⟨?_, ?_, ?_, hsound.snoc (by simp [Ev.okAfter, ← hmap, hm]), ?_, ?_⟩ <;> try dsimp only
    · simp only [mapOf_snoc, Ev.mapEff, hmap]
    · funext o'
      rw [contOf_snoc_other ov _ _ _ rfl rfl, hcont]
    · intro o' ho
      rw [allocBody_snoc, hfresh o' ho]; rfl
    · intro rc hrc
      rcases List.mem_append.mp hrc with hrc | hrc
      · exact hbk _ rc hrc
      · rw [List.mem_singleton] at hrc; subst hrc
        exact Rec.Backed.last _ _ _ hp.symm (Nat.le_refl _) rfl rfl (by simp [Ev.resp?])
    · intro r'
      simp only [List.length_append, List.length_singleton, Function.update_apply]
      split
      · omega
      · have := hinv r'; omega
  | gloadSome r id o hp hpc hm =>
    refine ⟨?_, ?_, ?_, hsound.snoc (by simp [Ev.okAfter, ← hmap, hm]), hbk _, ?_⟩ <;> try dsimp only
    · simp only [mapOf_snoc, Ev.mapEff, hmap]
    · funext o'
      rw [contOf_snoc_other ov _ _ _ rfl rfl, hcont]
    · intro o' ho
      rw [allocBody_snoc, hfresh o' ho]; rfl
    · intro r'
      simp only [List.length_append, List.length_singleton, Function.update_apply]
      split
      · omega
      · have := hinv r'; omega
  | gread r id o c hp hpc hc =>
    have hc' : contOf ov s.trace o = some c := by rw [← hcont]; exact hc
    refine ⟨?_, ?_, ?_, hsound.snoc (by simp [Ev.okAfter, hc']), ?_, ?_⟩ <;> try dsimp only
    · simp only [mapOf_snoc, Ev.mapEff, hmap]
    · funext o'
      rw [contOf_snoc_other ov _ _ _ rfl rfl, hcont]
    · intro o' ho
      rw [allocBody_snoc, hfresh o' ho]; rfl
    · intro rc hrc
      rcases List.mem_append.mp hrc with hrc | hrc
      · exact hbk _ rc hrc
      · rw [List.mem_singleton] at hrc; subst hrc
        exact Rec.Backed.last _ _ _ hp.symm (hinv r) rfl rfl (by simp [Ev.resp?])
    · intro r'
      have := hinv r'
      simp only [List.length_append, List.length_singleton]; omega
  | hload r id hp hpc =>
    refine ⟨?_, ?_, ?_, hsound.snoc (by simp [Ev.okAfter, ← hmap]), ?_, ?_⟩ <;> try dsimp only
    · simp only [mapOf_snoc, Ev.mapEff, hmap]
    · funext o'
      rw [contOf_snoc_other ov _ _ _ rfl rfl, hcont]
    · intro o' ho
      rw [allocBody_snoc, hfresh o' ho]; rfl
    · intro rc hrc
      rcases List.mem_append.mp hrc with hrc | hrc
      · exact hbk _ rc hrc
      · rw [List.mem_singleton] at hrc; subst hrc
        exact Rec.Backed.last _ _ _ hp.symm (Nat.le_refl _) rfl rfl (by simp [Ev.resp?])
    · intro r'
      simp only [List.length_append, List.length_singleton, Function.update_apply]
      split
      · omega
      · have := hinv r'; omega
  | lad r id hp hpc =>
    refine ⟨?_, ?_, ?_, hsound.snoc (by simp [Ev.okAfter, ← hmap]), ?_, ?_⟩ <;> try dsimp only
    · simp only [mapOf_snoc, Ev.mapEff, hmap]
    · funext o'
      rw [contOf_snoc_other ov _ _ _ rfl rfl, hcont]
    · intro o' ho
      rw [allocBody_snoc, hfresh o' ho]; rfl
    · intro rc hrc
      rcases List.mem_append.mp hrc with hrc | hrc
      · exact hbk _ rc hrc
      · rw [List.mem_singleton] at hrc; subst hrc
        exact Rec.Backed.last _ _ _ hp.symm (Nat.le_refl _) rfl rfl (by simp [Ev.resp?])
    · intro r'
      simp only [List.length_append, List.length_singleton, Function.update_apply]
      split
      · omega
      · have := hinv r'; omega

theorem TraceInv.reach {prog : Nat → Req M} {ov : M → M → M} {s : St M}
    (h : Reach prog ov s) : TraceInv prog ov s := by
  induction h with
  | refl => exact TraceInv.init prog ov
  | tail _ hs ih => exact ih.step hs

/-! ## 2. linearizations

  A linearization under construction is a list of *items*.  An item is one request linearized at
  its own final action (`main`, at step `t`), preceded by the *late* requests (`pre`): requests
  that loaded an object before step `t`, where `main` (a put or a delete of the same id) removed
  that object from the map, and that ran their locked section on the orphaned object after `t`.
  Late requests are linearized immediately before `main`, in the order of their sections; this is
  inside their interval because they were in flight at step `t`. -/

/-- the recorded responses are those of the specification run from `kv` -/
def Legal (ov : M → M → M) (kv : KV M) : List (Rec M) → Prop
  | [] => True
  | rc :: l => (specStep ov kv rc.req).2 = rc.resp ∧ Legal ov (specStep ov kv rc.req).1 l

/-- the specification state after the requests of `l` -/
def runSt (ov : M → M → M) (kv : KV M) : List (Rec M) → KV M
  | [] => kv
  | rc :: l => runSt ov (specStep ov kv rc.req).1 l

theorem runSt_append (ov : M → M → M) (kv : KV M) (a b : List (Rec M)) :
    runSt ov kv (a ++ b) = runSt ov (runSt ov kv a) b := by
  induction a generalizing kv with
  | nil => rfl
  | cons rc a ih => simp only [List.cons_append, runSt, ih]

theorem Legal_append (ov : M → M → M) (kv : KV M) (a b : List (Rec M)) :
    Legal ov kv (a ++ b) ↔ Legal ov kv a ∧ Legal ov (runSt ov kv a) b := by
  induction a generalizing kv with
  | nil => simp [Legal, runSt]
  | cons rc a ih => simp only [List.cons_append, Legal, runSt, ih, and_assoc]

theorem Legal_iff_runSpec (ov : M → M → M) (kv : KV M) (l : List (Rec M)) :
    Legal ov kv l ↔ runSpec ov kv (l.map (·.req)) = l.map (·.resp) := by
  induction l generalizing kv with
  | nil => simp [Legal, runSpec]
  | cons rc l ih => simp only [Legal, List.map_cons, runSpec, List.cons.injEq, ih]

structure Item (M : Type) where
  kv0 : KV M
  pre : List (Rec M)
  main : Rec M
  t : Nat
  kv1 : KV M

def Item.recs (it : Item M) : List (Rec M) := it.pre ++ [it.main]

/-- specification state just before `main` -/
def Item.mid (ov : M → M → M) (it : Item M) : KV M := runSt ov it.kv0 it.pre

structure ItemOK (ov : M → M → M) (it : Item M) : Prop where
  legal : Legal ov it.kv0 it.recs
  post : runSt ov it.kv0 it.recs = it.kv1
  times : ∀ rc ∈ it.recs, rc.inv ≤ it.t ∧ it.t ≤ rc.res

def Chain (kv : KV M) : List (Item M) → KV M → Prop
  | [], e => kv = e
  | it :: L, e => it.kv0 = kv ∧ Chain it.kv1 L e

def flat (L : List (Item M)) : List (Rec M) := L.flatMap Item.recs

structure LinOK (ov : M → M → M) (L : List (Item M)) (kvEnd : KV M) (n : Nat)
    (hist : List (Rec M)) : Prop where
  items : ∀ it ∈ L, ItemOK ov it
  chain : Chain (fun _ => none) L kvEnd
  sorted : L.Pairwise (fun a b => a.t < b.t)
  lt : ∀ it ∈ L, it.t < n
  perm : (flat L).Perm hist

theorem legal_flat (ov : M → M → M) (L : List (Item M)) (kv e : KV M)
    (hi : ∀ it ∈ L, ItemOK ov it) (hc : Chain kv L e) :
    Legal ov kv (flat L) ∧ runSt ov kv (flat L) = e := by
  induction L generalizing kv with
  | nil => exact ⟨trivial, hc⟩
  | cons it L ih =>
    obtain ⟨h0, hc⟩ := hc
    have hit := hi it (by simp)
    obtain ⟨h1, h2⟩ := ih it.kv1 (fun x hx => hi x (by simp [hx])) hc
    subst h0
    simp only [flat, List.flatMap_cons] at *
    rw [Legal_append, runSt_append, hit.post]
    exact ⟨⟨hit.legal, h1⟩, h2⟩

/-- real-time order: nobody is placed after a request that was invoked after its response -/
theorem rt_flat (ov : M → M → M) (L : List (Item M))
    (hi : ∀ it ∈ L, ItemOK ov it) (hs : L.Pairwise (fun a b => a.t < b.t)) :
    (flat L).Pairwise (fun a b => ¬ b.res < a.inv) := by
  induction L with
  | nil => simp [flat]
  | cons it L ih =>
    rw [List.pairwise_cons] at hs
    have hit := hi it (by simp)
    simp only [flat, List.flatMap_cons]
    rw [List.pairwise_append]
    refine ⟨?_, ih (fun x hx => hi x (by simp [hx])) hs.2, ?_⟩
    · apply List.pairwise_of_forall_mem_list
      intro a ha b hb
      have := hit.times a ha
      have := hit.times b hb
      omega
    · intro a ha b hb
      obtain ⟨it', hit', hb⟩ := List.mem_flatMap.mp hb
      have := hit.times a ha
      have := (hi it' (by simp [hit'])).times b hb
      have := hs.1 it' hit'
      omega

theorem Chain.snoc {kv e : KV M} {L : List (Item M)} (h : Chain kv L e) (it : Item M)
    (h0 : it.kv0 = e) : Chain kv (L ++ [it]) it.kv1 := by
  induction L generalizing kv with
  | nil => exact ⟨h0.trans h.symm, rfl⟩
  | cons a L ih => exact ⟨h.1, ih h.2⟩

theorem Chain.map {kv e : KV M} {L : List (Item M)} (h : Chain kv L e) (f : Item M → Item M)
    (h0 : ∀ it, (f it).kv0 = it.kv0) (h1 : ∀ it, (f it).kv1 = it.kv1) :
    Chain kv (L.map f) e := by
  induction L generalizing kv with
  | nil => exact h
  | cons a L ih =>
    refine ⟨(h0 a).trans h.1, ?_⟩
    rw [h1 a]; exact ih h.2

/-- linearize a request at the current step -/
theorem LinOK.push {ov : M → M → M} {L : List (Item M)} {kv : KV M} {n : Nat}
    {hist : List (Rec M)} (h : LinOK ov L kv n hist) (rc : Rec M)
    (hresp : (specStep ov kv rc.req).2 = rc.resp) (hinv : rc.inv ≤ n) (hres : rc.res = n) :
    LinOK ov (L ++ [⟨kv, [], rc, n, (specStep ov kv rc.req).1⟩]) (specStep ov kv rc.req).1 (n + 1)
      (hist ++ [rc]) := by
  refine ⟨?_, h.chain.snoc _ rfl, ?_, ?_, ?_⟩
  · intro it hit
    rcases List.mem_append.mp hit with hit | hit
    · exact h.items it hit
    · rw [List.mem_singleton] at hit; subst hit
      refine ⟨⟨hresp, trivial⟩, rfl, ?_⟩
      intro rc' hrc'
      simp only [Item.recs, List.nil_append, List.mem_singleton] at hrc'
      subst hrc'
      exact ⟨hinv, by simp [hres]⟩
  · rw [List.pairwise_append]
    refine ⟨h.sorted, by simp, ?_⟩
    intro a ha b hb
    rw [List.mem_singleton] at hb; subst hb
    exact h.lt a ha
  · intro it hit
    rcases List.mem_append.mp hit with hit | hit
    · exact Nat.lt_succ_of_lt (h.lt it hit)
    · rw [List.mem_singleton] at hit; subst hit; exact Nat.lt_succ_self _
  · simp only [flat, List.flatMap_append, List.flatMap_cons, List.flatMap_nil, Item.recs,
      List.nil_append, List.append_nil]
    exact h.perm.append_right _

/-- a step that completes no request -/
theorem LinOK.idle {ov : M → M → M} {L : List (Item M)} {kv : KV M} {n : Nat}
    {hist : List (Rec M)} (h : LinOK ov L kv n hist) : LinOK ov L kv (n + 1) hist :=
  ⟨h.items, h.chain, h.sorted, fun it hit => Nat.lt_succ_of_lt (h.lt it hit), h.perm⟩

/-- add a late request to the item linearized at step `w` -/
def Item.late (w : Nat) (rc : Rec M) (it : Item M) : Item M :=
  if it.t = w then { it with pre := it.pre ++ [rc] } else it

theorem Item.late_t (w : Nat) (rc : Rec M) (it : Item M) : (it.late w rc).t = it.t := by
  unfold Item.late; split <;> rfl
theorem Item.late_kv0 (w : Nat) (rc : Rec M) (it : Item M) : (it.late w rc).kv0 = it.kv0 := by
  unfold Item.late; split <;> rfl
theorem Item.late_kv1 (w : Nat) (rc : Rec M) (it : Item M) : (it.late w rc).kv1 = it.kv1 := by
  unfold Item.late; split <;> rfl
theorem Item.late_main (w : Nat) (rc : Rec M) (it : Item M) : (it.late w rc).main = it.main := by
  unfold Item.late; split <;> rfl
theorem Item.late_ne {w : Nat} (rc : Rec M) {it : Item M} (h : it.t ≠ w) : it.late w rc = it := by
  unfold Item.late; rw [if_neg h]
theorem Item.late_mid (ov : M → M → M) (rc : Rec M) (it : Item M) :
    (it.late it.t rc).mid ov = (specStep ov (it.mid ov) rc.req).1 := by
  simp [Item.late, Item.mid, runSt_append, runSt]

theorem sorted_unique {L : List (Item M)} (hs : L.Pairwise (fun a b => a.t < b.t))
    {a b : Item M} (ha : a ∈ L) (hb : b ∈ L) (hab : a.t = b.t) : a = b := by
  induction L with
  | nil => cases ha
  | cons x L ih =>
    rw [List.pairwise_cons] at hs
    rcases List.mem_cons.mp ha with rfl | ha' <;> rcases List.mem_cons.mp hb with rfl | hb'
    · rfl
    · have := hs.1 b hb'; omega
    · have := hs.1 a ha'; omega
    · exact ih hs.2 ha' hb'

theorem flat_late_perm {L : List (Item M)} (hs : L.Pairwise (fun a b => a.t < b.t))
    {it0 : Item M} (h0 : it0 ∈ L) (rc : Rec M) :
    (flat (L.map (Item.late it0.t rc))).Perm (flat L ++ [rc]) := by
  induction L with
  | nil => cases h0
  | cons a L ih =>
    rw [List.pairwise_cons] at hs
    simp only [flat, List.map_cons, List.flatMap_cons] at *
    by_cases ha : a.t = it0.t
    · have hrest : L.map (Item.late it0.t rc) = L := by
        conv_rhs => rw [← List.map_id L]
        apply List.map_congr_left
        intro x hx
        exact Item.late_ne rc (by have := hs.1 x hx; omega)
      rw [hrest]
      simp only [Item.late, if_pos ha, Item.recs]
      have : (a.pre ++ [rc] ++ [a.main] ++ List.flatMap Item.recs L).Perm
          ((a.pre ++ [a.main] ++ List.flatMap Item.recs L) ++ [rc]) := by
        simp only [List.append_assoc, List.singleton_append]
        refine List.Perm.append_left _ ?_
        exact (List.perm_append_comm (l₁ := [rc])).trans (by simp)
      exact this
    · have hmem : it0 ∈ L := by
        rcases List.mem_cons.mp h0 with h | h
        · exact absurd (h ▸ rfl) ha
        · exact h
      rw [Item.late_ne rc ha, List.append_assoc]
      exact (ih hs.2 hmem).append_left _

/-- linearize a late request just before the main request of the item of step `it0.t` -/
theorem LinOK.late {ov : M → M → M} {L : List (Item M)} {kv : KV M} {n : Nat}
    {hist : List (Rec M)} (h : LinOK ov L kv n hist) {it0 : Item M} (h0 : it0 ∈ L) (rc : Rec M)
    (hresp : (specStep ov (it0.mid ov) rc.req).2 = rc.resp)
    (hmain : specStep ov (specStep ov (it0.mid ov) rc.req).1 it0.main.req =
      specStep ov (it0.mid ov) it0.main.req)
    (hinv : rc.inv ≤ it0.t) (hres : it0.t ≤ rc.res) :
    LinOK ov (L.map (Item.late it0.t rc)) kv (n + 1) (hist ++ [rc]) := by
  refine ⟨?_, h.chain.map _ (Item.late_kv0 _ _) (Item.late_kv1 _ _), ?_, ?_, ?_⟩
  · intro it hit
    obtain ⟨a, ha, rfl⟩ := List.mem_map.mp hit
    by_cases hat : a.t = it0.t
    · obtain rfl := sorted_unique h.sorted ha h0 hat
      obtain ⟨hl, hp, ht⟩ := h.items a ha
      simp only [Item.recs, Legal_append, runSt_append] at hl hp
      simp only [Legal, runSt, and_true] at hl hp
      simp only [Item.mid] at hresp hmain
      refine ⟨?_, ?_, ?_⟩
      · simp only [Item.late, if_pos, Item.recs, Legal_append, runSt_append, Legal, runSt, and_true]
        refine ⟨⟨hl.1, hresp⟩, ?_⟩
        rw [hmain]; exact hl.2
      · simp only [Item.late, if_pos, Item.recs, runSt_append, runSt]
        rw [hmain]; exact hp
      · intro rc' hrc'
        rw [Item.late_t]
        simp only [Item.late, if_pos, Item.recs, List.mem_append, List.mem_singleton] at hrc'
        rcases hrc' with (hrc' | hrc') | hrc'
        · exact ht rc' (by simp [Item.recs, hrc'])
        · subst hrc'; exact ⟨hinv, hres⟩
        · exact ht rc' (by simp [Item.recs, hrc'])
    · rw [Item.late_ne rc hat]; exact h.items a ha
  · exact h.sorted.map _ (fun a b hab => by rw [Item.late_t, Item.late_t]; exact hab)
  · intro it hit
    obtain ⟨a, ha, rfl⟩ := List.mem_map.mp hit
    rw [Item.late_t]; exact Nat.lt_succ_of_lt (h.lt a ha)
  · exact (flat_late_perm h.sorted h0 rc).trans (h.perm.append_right _)

/-! ## 3. the simulation invariant -/

/-- the abstract store a concrete state denotes: id ↦ content of the object the map binds it to -/
def absOf (map : String → Option Nat) (cont : Nat → Option M) : KV M :=
  fun id => (map id).bind cont

def St.abs (s : St M) : KV M := absOf s.map s.cont

theorem absOf_swap_fresh (map : String → Option Nat) (cont : Nat → Option M) (id : String)
    (nx : Nat) (b : M) (hf : ∀ id' o, map id' = some o → o ≠ nx) :
    absOf (Function.update map id (some nx)) (Function.update cont nx (some b)) =
      Function.update (absOf map cont) id (some b) := by
  funext id'
  by_cases h : id' = id
  · subst h; simp [absOf]
  · simp only [absOf, Function.update_of_ne h]
    cases hm : map id' with
    | none => rfl
    | some o => simp [Function.update_of_ne (hf id' o hm)]

theorem absOf_cont_fresh (map : String → Option Nat) (cont : Nat → Option M)
    (nx : Nat) (x : Option M) (hf : ∀ id' o, map id' = some o → o ≠ nx) :
    absOf map (Function.update cont nx x) = absOf map cont := by
  funext id'
  simp only [absOf]
  cases hm : map id' with
  | none => rfl
  | some o => simp [Function.update_of_ne (hf id' o hm)]

theorem absOf_delete (map : String → Option Nat) (cont : Nat → Option M) (id : String) :
    absOf (Function.update map id none) cont = Function.update (absOf map cont) id none := by
  funext id'
  by_cases h : id' = id
  · subst h; simp [absOf]
  · simp [absOf, Function.update_of_ne h]

theorem absOf_cont_live (map : String → Option Nat) (cont : Nat → Option M) (id : String)
    (o : Nat) (x : M) (hm : map id = some o) (hinj : ∀ id', map id' = some o → id' = id) :
    absOf map (Function.update cont o (some x)) = Function.update (absOf map cont) id (some x) := by
  funext id'
  by_cases h : id' = id
  · subst h; simp [absOf, hm]
  · simp only [absOf, Function.update_of_ne h]
    cases hm' : map id' with
    | none => rfl
    | some o' =>
      have : o' ≠ o := fun ho => h (hinj id' (ho ▸ hm'))
      simp [Function.update_of_ne this]

/-- `rq` removes or replaces the binding of `id`, whatever it was bound to -/
def Req.kills : Req M → String → Prop
  | .put id' _, id => id' = id
  | .delete id', id => id' = id
  | _, _ => False

/-- a request that replaces / removes the binding of `id` does not see the content bound to it -/
theorem kills_insens (ov : M → M → M) (rq : Req M) (id : String) (hk : rq.kills id)
    (kv : KV M) (c c' : M) (hc : kv id = some c) :
    specStep ov (Function.update kv id (some c')) rq = specStep ov kv rq := by
  cases rq with
  | put id' b => cases hk; simp [specStep, hc]
  | delete id' => cases hk; simp [specStep, hc]
  | merge _ _ => cases hk
  | get _ => cases hk
  | head _ => cases hk

/-- the item of step `w` removed the binding of `id`, whose content was `c` just before -/
def OrphAt (ov : M → M → M) (L : List (Item M)) (w : Nat) (id : String) (c : M) : Prop :=
  ∃ it ∈ L, it.t = w ∧ it.main.req.kills id ∧ it.mid ov id = some c

theorem OrphAt.append {ov : M → M → M} {L : List (Item M)} {w : Nat} {id : String} {c : M}
    (h : OrphAt ov L w id c) (x : Item M) : OrphAt ov (L ++ [x]) w id c := by
  obtain ⟨it, hit, h1⟩ := h
  exact ⟨it, List.mem_append_left _ hit, h1⟩

theorem OrphAt.new (ov : M → M → M) (L : List (Item M)) (kv kv1 : KV M) (rc : Rec M) (t : Nat)
    (id : String) (c : M) (hk : rc.req.kills id) (hc : kv id = some c) :
    OrphAt ov (L ++ [⟨kv, [], rc, t, kv1⟩]) t id c :=
  ⟨_, List.mem_append_right _ (List.mem_singleton.mpr rfl), rfl, hk, hc⟩

theorem OrphAt.late_ne {ov : M → M → M} {L : List (Item M)} {w w' : Nat} {id : String} {c : M}
    (h : OrphAt ov L w id c) (hw : w ≠ w') (rc : Rec M) :
    OrphAt ov (L.map (Item.late w' rc)) w id c := by
  obtain ⟨it, hit, h1, h2⟩ := h
  refine ⟨it, List.mem_map.mpr ⟨it, hit, Item.late_ne rc (h1 ▸ hw)⟩, h1, h2⟩

theorem OrphAt.late_eq {ov : M → M → M} {L : List (Item M)} {w : Nat} {id : String} {c c' : M}
    (h : OrphAt ov L w id c) (rc : Rec M)
    (hc : ∀ kv : KV M, kv id = some c → (specStep ov kv rc.req).1 id = some c') :
    OrphAt ov (L.map (Item.late w rc)) w id c' := by
  obtain ⟨it, hit, h1, h2, h3⟩ := h
  subst h1
  refine ⟨it.late it.t rc, List.mem_map.mpr ⟨it, hit, rfl⟩, Item.late_t _ _ _, ?_, ?_⟩
  · rw [Item.late_main]; exact h2
  · rw [Item.late_mid]; exact hc _ h3

/-- proof-only bookkeeping: the linearization, the id an object was created for, the step at
    which an object was removed from the map -/
structure Ghost (M : Type) where
  L : List (Item M)
  key : Nat → String
  orphT : Nat → Option Nat

/-- goroutine `r` holds a pointer to object `o` -/
def Holds (pc : Nat → Pc) (r o : Nat) : Prop := pc r = .mergeLoaded o ∨ pc r = .getLoaded o

theorem Holds.of_update_done {pc : Nat → Pc} {r0 r o : Nat}
    (h : Holds (Function.update pc r0 .done) r o) : r ≠ r0 ∧ Holds pc r o := by
  by_cases hr : r = r0
  · subst hr; rcases h with h | h <;> simp at h
  · exact ⟨hr, by simpa [Holds, Function.update_of_ne hr] using h⟩

/-- what a goroutine `r` that loaded `o` under `id` relies on -/
structure RefOK (ov : M → M → M) (s : St M) (G : Ghost M) (r : Nat) (id : String) (o : Nat) :
    Prop where
  lt : o < s.next
  key : G.key o = id
  inv : s.invT r < s.trace.length
  cont : ∃ c, s.cont o = some c ∧ (G.orphT o = none → s.map id = some o) ∧
    (∀ w, G.orphT o = some w → s.invT r < w ∧ OrphAt ov G.L w id c)

structure SInv (prog : Nat → Req M) (ov : M → M → M) (s : St M) (G : Ghost M) : Prop where
  lin : LinOK ov G.L s.abs s.trace.length s.hist
  mapI : ∀ id o, s.map id = some o →
    o < s.next ∧ G.key o = id ∧ G.orphT o = none ∧ (s.cont o).isSome
  ref : ∀ r o, Holds s.pc r o → RefOK ov s G r (prog r).id o
  orphInj : ∀ o o' w, G.orphT o = some w → G.orphT o' = some w → o = o'
  orphLt : ∀ o w, G.orphT o = some w → w < s.trace.length ∧ o < s.next

theorem SInv.abs_isSome {prog : Nat → Req M} {ov : M → M → M} {s : St M} {G : Ghost M}
    (h : SInv prog ov s G) (id : String) : (s.abs id).isSome = (s.map id).isSome := by
  simp only [St.abs, absOf]
  cases hm : s.map id with
  | none => rfl
  | some o => simpa using (h.mapI id o hm).2.2.2

theorem SInv.init (prog : Nat → Req M) (ov : M → M → M) :
    SInv prog ov (init : St M) ⟨[], fun _ => "", fun _ => none⟩ := by
  refine ⟨⟨fun _ h => (by cases h), rfl, List.Pairwise.nil, fun _ h => (by cases h), List.Perm.nil⟩,
    fun _ _ h => (by cases h), ?_, fun _ _ _ h => (by cases h), fun _ _ h => (by cases h)⟩
  intro r o h
  rcases h with h | h <;> cases h

/-- transport of `RefOK` along a step that does not remove a binding -/
theorem RefOK.mono {ov : M → M → M} {s s' : St M} {G : Ghost M} {r : Nat} {id : String} {o : Nat}
    (h : RefOK ov s G r id o) (L' : List (Item M)) (key' : Nat → String)
    (hnext : s.next ≤ s'.next) (hkey : key' o = G.key o)
    (hcont : s'.cont o = s.cont o ∨ (G.orphT o = none ∧ (s'.cont o).isSome))
    (hinvT : s'.invT r = s.invT r) (hlen : s.trace.length ≤ s'.trace.length)
    (hmap : s'.map id = s.map id)
    (hL : ∀ w c, G.orphT o = some w → OrphAt ov G.L w id c → OrphAt ov L' w id c) :
    RefOK ov s' ⟨L', key', G.orphT⟩ r id o := by
  obtain ⟨h1, h2, h3, c, h4, h5, h6⟩ := h
  refine ⟨Nat.lt_of_lt_of_le h1 hnext, hkey.trans h2, by rw [hinvT]; omega, ?_⟩
  rcases hcont with hcont | ⟨hnone, hsome⟩
  · refine ⟨c, hcont.trans h4, fun hn => by rw [hmap]; exact h5 hn, ?_⟩
    intro w hw
    rw [hinvT]
    exact ⟨(h6 w hw).1, hL w c hw (h6 w hw).2⟩
  · obtain ⟨c', hc'⟩ := Option.isSome_iff_exists.mp hsome
    refine ⟨c', hc', fun hn => by rw [hmap]; exact h5 hn, ?_⟩
    intro w hw
    dsimp only at hw
    rw [hnone] at hw; cases hw

/-- transport of `RefOK` along a step that replaces / removes the binding of `id0` -/
theorem RefOK.pushKill {ov : M → M → M} {s s' : St M} {G : Ghost M} {r : Nat} {id : String}
    {o : Nat} (h : RefOK ov s G r id o)
    (hI : ∀ id o, s.map id = some o → G.key o = id ∧ G.orphT o = none)
    (id0 : String) (rc : Rec M) (kv1 : KV M) (key' : Nat → String)
    (hk : s.map id0 ≠ none → rc.req.kills id0)
    (hnext : s.next ≤ s'.next) (hkey : key' o = G.key o) (hcont : s'.cont o = s.cont o)
    (hinvT : s'.invT r = s.invT r) (hlen : s'.trace.length = s.trace.length + 1)
    (hmap : ∀ id', id' ≠ id0 → s'.map id' = s.map id') :
    RefOK ov s' ⟨G.L ++ [⟨s.abs, [], rc, s.trace.length, kv1⟩], key',
      fun o => if s.map id0 = some o then some s.trace.length else G.orphT o⟩ r id o := by
  obtain ⟨h1, h2, h3, c, h4, h5, h6⟩ := h
  refine ⟨Nat.lt_of_lt_of_le h1 hnext, hkey.trans h2, by rw [hinvT]; omega, c, hcont.trans h4, ?_, ?_⟩
  · intro hn
    dsimp only at hn
    by_cases hm : s.map id0 = some o
    · rw [if_pos hm] at hn; cases hn
    · rw [if_neg hm] at hn
      have h7 := h5 hn
      have : id ≠ id0 := fun hid => hm (hid ▸ h7)
      rw [hmap id this]; exact h7
  · intro w hw
    dsimp only at hw ⊢
    rw [hinvT]
    by_cases hm : s.map id0 = some o
    · rw [if_pos hm] at hw
      cases hw
      have hid : id0 = id := (hI id0 o hm).1.symm.trans h2
      subst hid
      refine ⟨h3, OrphAt.new ov _ _ _ _ _ _ c (hk (by rw [hm]; exact Option.some_ne_none _)) ?_⟩
      simp [St.abs, absOf, hm, h4]
    · rw [if_neg hm] at hw
      exact ⟨(h6 w hw).1, (h6 w hw).2.append _⟩

theorem orphInj_kill {orphT : Nat → Option Nat} {mo : Option Nat} {t : Nat}
    (hinj : ∀ o o' w, orphT o = some w → orphT o' = some w → o = o')
    (hlt : ∀ o w, orphT o = some w → w < t) :
    ∀ o o' w, (if mo = some o then some t else orphT o) = some w →
      (if mo = some o' then some t else orphT o') = some w → o = o' := by
  intro o o' w h1 h2
  by_cases hm : mo = some o <;> by_cases hm' : mo = some o'
  · rw [hm] at hm'; exact Option.some.inj hm'
  · rw [if_pos hm] at h1; rw [if_neg hm'] at h2
    cases h1; exact absurd (hlt o' _ h2) (Nat.lt_irrefl _)
  · rw [if_neg hm] at h1; rw [if_pos hm'] at h2
    cases h2; exact absurd (hlt o _ h1) (Nat.lt_irrefl _)
  · rw [if_neg hm] at h1; rw [if_neg hm'] at h2
    exact hinj o o' w h1 h2

theorem orphLt_kill {orphT : Nat → Option Nat} {mo : Option Nat} {t nx nx' : Nat}
    (hlt : ∀ o w, orphT o = some w → w < t ∧ o < nx) (hm : ∀ o, mo = some o → o < nx)
    (hnx : nx ≤ nx') :
    ∀ o w, (if mo = some o then some t else orphT o) = some w → w < t + 1 ∧ o < nx' := by
  intro o w h
  by_cases hmo : mo = some o
  · rw [if_pos hmo] at h; cases h
    exact ⟨Nat.lt_succ_self _, Nat.lt_of_lt_of_le (hm o hmo) hnx⟩
  · rw [if_neg hmo] at h
    have := hlt o w h
    omega

theorem Holds.of_update_get {pc : Nat → Pc} {r0 o0 r o : Nat}
    (h : Holds (Function.update pc r0 (.getLoaded o0)) r o) :
    (r = r0 ∧ o = o0) ∨ (r ≠ r0 ∧ Holds pc r o) := by
  by_cases hr : r = r0
  · subst hr
    left
    rcases h with h | h <;> simp at h
    exact ⟨rfl, h.symm⟩
  · right; exact ⟨hr, by simpa [Holds, Function.update_of_ne hr] using h⟩

theorem Holds.of_update_merge {pc : Nat → Pc} {r0 o0 r o : Nat}
    (h : Holds (Function.update pc r0 (.mergeLoaded o0)) r o) :
    (r = r0 ∧ o = o0) ∨ (r ≠ r0 ∧ Holds pc r o) := by
  by_cases hr : r = r0
  · subst hr
    left
    rcases h with h | h <;> simp at h
    exact ⟨rfl, h.symm⟩
  · right; exact ⟨hr, by simpa [Holds, Function.update_of_ne hr] using h⟩

theorem SInv.orphT_fresh {prog : Nat → Req M} {ov : M → M → M} {s : St M} {G : Ghost M}
    (h : SInv prog ov s G) {o : Nat} (ho : s.next ≤ o) : G.orphT o = none := by
  cases hw : G.orphT o with
  | none => rfl
  | some w => have := (h.orphLt o w hw).2; omega

theorem SInv.step {prog : Nat → Req M} {ov : M → M → M} {s s' : St M} {G : Ghost M}
    (h : SInv prog ov s G) (hs : Step prog ov s s') : ∃ G', SInv prog ov s' G' := by
  have hI : ∀ id o, s.map id = some o → G.key o = id ∧ G.orphT o = none :=
    fun id o hm => ⟨(h.mapI id o hm).2.1, (h.mapI id o hm).2.2.1⟩
  have hfresh : ∀ id' o, s.map id' = some o → o ≠ s.next :=
    fun id' o hm => Nat.ne_of_lt (h.mapI id' o hm).1
  cases hs with
  | swap r id body hp hpc =>
    refine ⟨⟨G.L ++ [⟨s.abs, [], ⟨r, .put id body, s.trace.length, s.trace.length,
        if (s.map id).isSome then .updated else .created⟩, s.trace.length,
        (specStep ov s.abs (.put id body)).1⟩], Function.update G.key s.next id,
       fun o => if s.map id = some o then some s.trace.length else G.orphT o⟩, ?_, ?_, ?_, ?_, ?_⟩
    · have := h.lin.push ⟨r, .put id body, s.trace.length, s.trace.length,
        if (s.map id).isSome then .updated else .created⟩
        (by simp [specStep, h.abs_isSome]) (Nat.le_refl _) rfl
      simp only [St.abs, List.length_append, List.length_singleton]
      rw [absOf_swap_fresh _ _ _ _ _ hfresh]
      exact this
    · intro id' o hm
      dsimp only at hm ⊢
      by_cases hid : id' = id
      · subst hid
        rw [Function.update_self] at hm
        cases hm
        refine ⟨Nat.lt_succ_self _, Function.update_self .., ?_, by simp⟩
        rw [if_neg (fun hm => hfresh _ _ hm rfl)]
        exact h.orphT_fresh (Nat.le_refl _)
      · rw [Function.update_of_ne hid] at hm
        obtain ⟨h1, h2, h3, h4⟩ := h.mapI id' o hm
        have hne : o ≠ s.next := Nat.ne_of_lt h1
        refine ⟨Nat.lt_succ_of_lt h1, by rw [Function.update_of_ne hne]; exact h2, ?_,
          by rw [Function.update_of_ne hne]; exact h4⟩
        rw [if_neg (fun hm' => hid (h2.symm.trans (hI id o hm').1)), h3]
    · intro r' o hh
      obtain ⟨hr, hh⟩ := Holds.of_update_done hh
      have hr0 := h.ref r' o hh
      have hne : o ≠ s.next := Nat.ne_of_lt hr0.lt
      exact hr0.pushKill hI id _ _ _ (fun _ => rfl) (Nat.le_succ _)
        (Function.update_of_ne hne ..) (Function.update_of_ne hne ..)
        (Function.update_of_ne hr ..) (by simp) (fun id' hid => Function.update_of_ne hid ..)
    · exact orphInj_kill h.orphInj (fun o w hw => (h.orphLt o w hw).1)
    · simp only [List.length_append, List.length_singleton]
      exact orphLt_kill h.orphLt (fun o hm => (h.mapI id o hm).1) (Nat.le_succ _)
  | losStore r id body hp hpc hm =>
    have habs0 : s.abs id = none := by simp [St.abs, absOf, hm]
    have hst : specStep ov s.abs (.merge id body) =
        (Function.update s.abs id (some body), .created) := by simp [specStep, habs0]
    refine ⟨⟨G.L ++ [⟨s.abs, [], ⟨r, .merge id body, s.trace.length, s.trace.length, .created⟩,
        s.trace.length, Function.update s.abs id (some body)⟩], Function.update G.key s.next id,
       fun o => if s.map id = some o then some s.trace.length else G.orphT o⟩, ?_, ?_, ?_, ?_, ?_⟩
    · have := h.lin.push ⟨r, .merge id body, s.trace.length, s.trace.length, .created⟩
        (by rw [hst]) (Nat.le_refl _) rfl
      rw [hst] at this
      simp only [St.abs, List.length_append, List.length_singleton]
      rw [absOf_swap_fresh _ _ _ _ _ hfresh]
      exact this
    · intro id' o hm'
      dsimp only at hm' ⊢
      by_cases hid : id' = id
      · subst hid
        rw [Function.update_self] at hm'
        cases hm'
        refine ⟨Nat.lt_succ_self _, Function.update_self .., ?_, by simp⟩
        rw [if_neg (fun hm => hfresh _ _ hm rfl)]
        exact h.orphT_fresh (Nat.le_refl _)
      · rw [Function.update_of_ne hid] at hm'
        obtain ⟨h1, h2, h3, h4⟩ := h.mapI id' o hm'
        have hne : o ≠ s.next := Nat.ne_of_lt h1
        refine ⟨Nat.lt_succ_of_lt h1, by rw [Function.update_of_ne hne]; exact h2, ?_,
          by rw [Function.update_of_ne hne]; exact h4⟩
        rw [if_neg (fun hm' => hid (h2.symm.trans (hI id o hm').1)), h3]
    · intro r' o hh
      obtain ⟨hr, hh⟩ := Holds.of_update_done hh
      have hr0 := h.ref r' o hh
      have hne : o ≠ s.next := Nat.ne_of_lt hr0.lt
      exact hr0.pushKill hI id _ _ _ (fun hne => absurd hm hne) (Nat.le_succ _)
        (Function.update_of_ne hne ..) (Function.update_of_ne hne ..)
        (Function.update_of_ne hr ..) (by simp) (fun id' hid => Function.update_of_ne hid ..)
    · exact orphInj_kill h.orphInj (fun o w hw => (h.orphLt o w hw).1)
    · simp only [List.length_append, List.length_singleton]
      exact orphLt_kill h.orphLt (fun o hm => (h.mapI id o hm).1) (Nat.le_succ _)
  | lad r id hp hpc =>
    have hst : specStep ov s.abs (.delete id) = (Function.update s.abs id none,
        if (s.map id).isSome then .noContent else .notFound) := by
      cases hm : s.map id with
      | none =>
        have h0 : s.abs id = none := by simp [St.abs, absOf, hm]
        have h1 : Function.update s.abs id none = s.abs := by
          rw [← h0]; exact Function.update_eq_self ..
        simp [specStep, h0, h1]
      | some o =>
        have := h.abs_isSome id
        rw [hm] at this
        simp [specStep, this]
    refine ⟨⟨G.L ++ [⟨s.abs, [], ⟨r, .delete id, s.trace.length, s.trace.length,
        if (s.map id).isSome then .noContent else .notFound⟩,
        s.trace.length, Function.update s.abs id none⟩], G.key,
       fun o => if s.map id = some o then some s.trace.length else G.orphT o⟩, ?_, ?_, ?_, ?_, ?_⟩
    · have := h.lin.push ⟨r, .delete id, s.trace.length, s.trace.length,
        if (s.map id).isSome then .noContent else .notFound⟩
        (by rw [hst]) (Nat.le_refl _) rfl
      rw [hst] at this
      simp only [St.abs, List.length_append, List.length_singleton]
      rw [absOf_delete]
      exact this
    · intro id' o hm'
      dsimp only at hm' ⊢
      by_cases hid : id' = id
      · subst hid
        rw [Function.update_self] at hm'
        cases hm'
      · rw [Function.update_of_ne hid] at hm'
        obtain ⟨h1, h2, h3, h4⟩ := h.mapI id' o hm'
        refine ⟨h1, h2, ?_, h4⟩
        rw [if_neg (fun hm' => hid (h2.symm.trans (hI id o hm').1)), h3]
    · intro r' o hh
      obtain ⟨hr, hh⟩ := Holds.of_update_done hh
      exact (h.ref r' o hh).pushKill hI id _ _ _ (fun _ => rfl) (Nat.le_refl _) rfl rfl
        (Function.update_of_ne hr ..) (by simp) (fun id' hid => Function.update_of_ne hid ..)
    · exact orphInj_kill h.orphInj (fun o w hw => (h.orphLt o w hw).1)
    · simp only [List.length_append, List.length_singleton]
      exact orphLt_kill h.orphLt (fun o hm => (h.mapI id o hm).1) (Nat.le_refl _)
  | gloadNone r id hp hpc hm =>
    have habs0 : s.abs id = none := by simp [St.abs, absOf, hm]
    refine ⟨⟨G.L ++ [⟨s.abs, [], ⟨r, .get id, s.trace.length, s.trace.length, .notFound⟩,
        s.trace.length, s.abs⟩], G.key, G.orphT⟩, ?_, ?_, ?_, h.orphInj, ?_⟩
    · have := h.lin.push ⟨r, .get id, s.trace.length, s.trace.length, .notFound⟩
        (by simp [specStep, habs0]) (Nat.le_refl _) rfl
      simp only [List.length_append, List.length_singleton]
      exact this
    · exact h.mapI
    · intro r' o hh
      obtain ⟨hr, hh⟩ := Holds.of_update_done hh
      exact (h.ref r' o hh).mono _ _ (Nat.le_refl _) rfl (Or.inl rfl)
        (Function.update_of_ne hr ..) (by simp) rfl (fun w c _ hO => hO.append _)
    · intro o w hw
      have := h.orphLt o w hw
      simp only [List.length_append, List.length_singleton]
      exact ⟨Nat.lt_succ_of_lt this.1, this.2⟩
  | hload r id hp hpc =>
    refine ⟨⟨G.L ++ [⟨s.abs, [], ⟨r, .head id, s.trace.length, s.trace.length,
        if (s.map id).isSome then .noContent else .notFound⟩,
        s.trace.length, s.abs⟩], G.key, G.orphT⟩, ?_, ?_, ?_, h.orphInj, ?_⟩
    · have := h.lin.push ⟨r, .head id, s.trace.length, s.trace.length,
        if (s.map id).isSome then .noContent else .notFound⟩
        (by simp [specStep, h.abs_isSome]) (Nat.le_refl _) rfl
      simp only [List.length_append, List.length_singleton]
      exact this
    · exact h.mapI
    · intro r' o hh
      obtain ⟨hr, hh⟩ := Holds.of_update_done hh
      exact (h.ref r' o hh).mono _ _ (Nat.le_refl _) rfl (Or.inl rfl)
        (Function.update_of_ne hr ..) (by simp) rfl (fun w c _ hO => hO.append _)
    · intro o w hw
      have := h.orphLt o w hw
      simp only [List.length_append, List.length_singleton]
      exact ⟨Nat.lt_succ_of_lt this.1, this.2⟩
  | gloadSome r id o hp hpc hm =>
    obtain ⟨h1, h2, h3, h4⟩ := h.mapI id o hm
    obtain ⟨c, hc⟩ := Option.isSome_iff_exists.mp h4
    refine ⟨G, ?_, h.mapI, ?_, h.orphInj, ?_⟩
    · simp only [List.length_append, List.length_singleton]
      exact h.lin.idle
    · intro r' o' hh
      rcases Holds.of_update_get hh with ⟨rfl, rfl⟩ | ⟨hr, hh⟩
      · rw [hp]
        refine ⟨h1, h2, by simp, c, hc, fun _ => hm, ?_⟩
        intro w hw
        rw [h3] at hw; cases hw
      · exact (h.ref r' o' hh).mono _ _ (Nat.le_refl _) rfl (Or.inl rfl)
          (Function.update_of_ne hr ..) (by simp) rfl (fun w c _ hO => hO)
    · intro o w hw
      have := h.orphLt o w hw
      simp only [List.length_append, List.length_singleton]
      exact ⟨Nat.lt_succ_of_lt this.1, this.2⟩
  | losLoad r id body o hp hpc hm =>
    obtain ⟨h1, h2, h3, h4⟩ := h.mapI id o hm
    obtain ⟨c, hc⟩ := Option.isSome_iff_exists.mp h4
    have hne : o ≠ s.next := Nat.ne_of_lt h1
    refine ⟨G, ?_, ?_, ?_, h.orphInj, ?_⟩
    · simp only [St.abs, List.length_append, List.length_singleton]
      rw [absOf_cont_fresh _ _ _ _ hfresh]
      exact h.lin.idle
    · intro id' o' hm'
      obtain ⟨g1, g2, g3, g4⟩ := h.mapI id' o' hm'
      refine ⟨Nat.lt_succ_of_lt g1, g2, g3, ?_⟩
      dsimp only
      rw [Function.update_of_ne (Nat.ne_of_lt g1)]; exact g4
    · intro r' o' hh
      rcases Holds.of_update_merge hh with ⟨rfl, rfl⟩ | ⟨hr, hh⟩
      · rw [hp]
        refine ⟨Nat.lt_succ_of_lt h1, h2, by simp, c, ?_, fun _ => hm, ?_⟩
        · dsimp only; rw [Function.update_of_ne hne]; exact hc
        · intro w hw
          rw [h3] at hw; cases hw
      · have hr0 := h.ref r' o' hh
        exact hr0.mono _ _ (Nat.le_succ _) rfl
          (Or.inl (Function.update_of_ne (Nat.ne_of_lt hr0.lt) ..))
          (Function.update_of_ne hr ..) (by simp) rfl (fun w c _ hO => hO)
    · intro o w hw
      have := h.orphLt o w hw
      simp only [List.length_append, List.length_singleton]
      exact ⟨Nat.lt_succ_of_lt this.1, Nat.lt_succ_of_lt this.2⟩
  | msec r id body o c hp hpc hc =>
    have hr : RefOK ov s G r id o := by
      have := h.ref r o (Or.inl hpc); rwa [hp] at this
    obtain ⟨c0, hc0, hlive, horph⟩ := hr.cont
    obtain rfl : c0 = c := Option.some.inj (hc0.symm.trans hc)
    cases hw : G.orphT o with
    | none =>
      have hm := hlive hw
      have habs : s.abs id = some c0 := by simp [St.abs, absOf, hm, hc]
      have hst : specStep ov s.abs (.merge id body) =
          (Function.update s.abs id (some (ov c0 body)), .updated) := by simp [specStep, habs]
      refine ⟨⟨G.L ++ [⟨s.abs, [], ⟨r, .merge id body, s.invT r, s.trace.length, .updated⟩,
          s.trace.length, Function.update s.abs id (some (ov c0 body))⟩], G.key, G.orphT⟩,
          ?_, ?_, ?_, h.orphInj, ?_⟩
      · have := h.lin.push ⟨r, .merge id body, s.invT r, s.trace.length, .updated⟩
          (by rw [hst]) (Nat.le_of_lt hr.inv) rfl
        rw [hst] at this
        simp only [St.abs, List.length_append, List.length_singleton]
        rw [absOf_cont_live _ _ id o _ hm
          (fun id' hm' => (hI id' o hm').1.symm.trans hr.key)]
        exact this
      · intro id' o' hm'
        obtain ⟨g1, g2, g3, g4⟩ := h.mapI id' o' hm'
        refine ⟨g1, g2, g3, ?_⟩
        dsimp only
        rw [Function.update_apply]; split
        · rfl
        · exact g4
      · intro r' o' hh
        obtain ⟨hr', hh⟩ := Holds.of_update_done hh
        refine (h.ref r' o' hh).mono _ _ (Nat.le_refl _) rfl ?_ rfl (by simp) rfl
          (fun w c _ hO => hO.append _)
        by_cases ho : o' = o
        · subst ho; right; exact ⟨hw, by simp⟩
        · left; exact Function.update_of_ne ho ..
      · intro o' w' hw'
        have := h.orphLt o' w' hw'
        simp only [List.length_append, List.length_singleton]
        exact ⟨Nat.lt_succ_of_lt this.1, this.2⟩
    | some w =>
      obtain ⟨hinvw, hO⟩ := horph w hw
      obtain ⟨it0, hit0, rfl, hkill, hmid⟩ := hO
      have hst : specStep ov (it0.mid ov) (.merge id body) =
          (Function.update (it0.mid ov) id (some (ov c0 body)), .updated) := by
        simp [specStep, hmid]
      have hnotin : ∀ id' o', s.map id' = some o' → o' ≠ o := by
        intro id' o' hm' ho
        subst ho
        rw [(hI id' o' hm').2] at hw; cases hw
      refine ⟨⟨G.L.map (Item.late it0.t ⟨r, .merge id body, s.invT r, s.trace.length, .updated⟩),
          G.key, G.orphT⟩, ?_, ?_, ?_, h.orphInj, ?_⟩
      · have := h.lin.late hit0 ⟨r, .merge id body, s.invT r, s.trace.length, .updated⟩
          (by rw [hst]) (by rw [hst]; exact kills_insens ov _ id hkill _ c0 _ hmid)
          (Nat.le_of_lt hinvw) (Nat.le_of_lt (h.lin.lt it0 hit0))
        simp only [St.abs, List.length_append, List.length_singleton]
        rw [absOf_cont_fresh _ _ _ _ hnotin]
        exact this
      · intro id' o' hm'
        obtain ⟨g1, g2, g3, g4⟩ := h.mapI id' o' hm'
        refine ⟨g1, g2, g3, ?_⟩
        dsimp only
        rw [Function.update_of_ne (hnotin id' o' hm')]; exact g4
      · intro r' o' hh
        obtain ⟨hr', hh⟩ := Holds.of_update_done hh
        have hr0 := h.ref r' o' hh
        by_cases ho : o' = o
        · subst ho
          have hid : (prog r').id = id := hr0.key.symm.trans hr.key
          rw [hid]
          obtain ⟨c1, hc1, _, horph1⟩ := hr0.cont
          obtain rfl : c1 = c0 := Option.some.inj (hc1.symm.trans hc)
          refine ⟨hr0.lt, hr.key, by simpa using Nat.lt_succ_of_lt hr0.inv, ov c1 body,
            by simp, fun hn => (by rw [hw] at hn; cases hn), ?_⟩
          intro w' hw'
          dsimp only at hw' ⊢
          rw [hw] at hw'; cases hw'
          have h2 := horph1 it0.t hw
          rw [hid] at h2
          refine ⟨h2.1, h2.2.late_eq _ ?_⟩
          intro kv hkv
          simp [specStep, hkv]
        · refine hr0.mono _ _ (Nat.le_refl _) rfl (Or.inl (Function.update_of_ne ho ..)) rfl
            (by simp) rfl ?_
          intro w' c' hw' hO'
          exact hO'.late_ne (fun hww => ho (h.orphInj o' o _ hw' (hww ▸ hw))) _
      · intro o' w' hw'
        have := h.orphLt o' w' hw'
        simp only [List.length_append, List.length_singleton]
        exact ⟨Nat.lt_succ_of_lt this.1, this.2⟩
  | gread r id o c hp hpc hc =>
    have hr : RefOK ov s G r id o := by
      have := h.ref r o (Or.inr hpc); rwa [hp] at this
    obtain ⟨c0, hc0, hlive, horph⟩ := hr.cont
    obtain rfl : c0 = c := Option.some.inj (hc0.symm.trans hc)
    cases hw : G.orphT o with
    | none =>
      have hm := hlive hw
      have habs : s.abs id = some c0 := by simp [St.abs, absOf, hm, hc]
      refine ⟨⟨G.L ++ [⟨s.abs, [], ⟨r, .get id, s.invT r, s.trace.length, .matrix c0⟩,
          s.trace.length, s.abs⟩], G.key, G.orphT⟩, ?_, h.mapI, ?_, h.orphInj, ?_⟩
      · have := h.lin.push ⟨r, .get id, s.invT r, s.trace.length, .matrix c0⟩
          (by simp [specStep, habs]) (Nat.le_of_lt hr.inv) rfl
        simp only [List.length_append, List.length_singleton]
        exact this
      · intro r' o' hh
        obtain ⟨hr', hh⟩ := Holds.of_update_done hh
        exact (h.ref r' o' hh).mono _ _ (Nat.le_refl _) rfl (Or.inl rfl) rfl (by simp) rfl
          (fun w c _ hO => hO.append _)
      · intro o' w' hw'
        have := h.orphLt o' w' hw'
        simp only [List.length_append, List.length_singleton]
        exact ⟨Nat.lt_succ_of_lt this.1, this.2⟩
    | some w =>
      obtain ⟨hinvw, hO⟩ := horph w hw
      obtain ⟨it0, hit0, rfl, hkill, hmid⟩ := hO
      refine ⟨⟨G.L.map (Item.late it0.t ⟨r, .get id, s.invT r, s.trace.length, .matrix c0⟩),
          G.key, G.orphT⟩, ?_, h.mapI, ?_, h.orphInj, ?_⟩
      · have := h.lin.late hit0 ⟨r, .get id, s.invT r, s.trace.length, .matrix c0⟩
          (by simp [specStep, hmid]) rfl
          (Nat.le_of_lt hinvw) (Nat.le_of_lt (h.lin.lt it0 hit0))
        simp only [List.length_append, List.length_singleton]
        exact this
      · intro r' o' hh
        obtain ⟨hr', hh⟩ := Holds.of_update_done hh
        refine (h.ref r' o' hh).mono _ _ (Nat.le_refl _) rfl (Or.inl rfl) rfl (by simp) rfl ?_
        intro w' c' hw' hO'
        by_cases hww : w' = it0.t
        · subst hww; exact hO'.late_eq _ (fun kv hkv => hkv)
        · exact hO'.late_ne hww _
      · intro o' w' hw'
        have := h.orphLt o' w' hw'
        simp only [List.length_append, List.length_singleton]
        exact ⟨Nat.lt_succ_of_lt this.1, this.2⟩

theorem SInv.reach {prog : Nat → Req M} {ov : M → M → M} {s : St M}
    (h : Reach prog ov s) : ∃ G, SInv prog ov s G := by
  induction h with
  | refl => exact ⟨_, SInv.init prog ov⟩
  | tail _ hs ih => obtain ⟨G, hG⟩ := ih; exact hG.step hs

/-! ## 4. every reachable history has a linearization -/

theorem linearization_exists {prog : Nat → Req M} {ov : M → M → M} {s : St M}
    (h : Reach prog ov s) :
    ∃ l : List (Rec M), l.Perm s.hist ∧ l.Pairwise (fun a b => ¬ b.res < a.inv) ∧
      runSpec ov (fun _ => none) (l.map (·.req)) = l.map (·.resp) := by
  obtain ⟨G, hG⟩ := SInv.reach h
  refine ⟨flat G.L, hG.lin.perm, rt_flat ov G.L hG.lin.items hG.lin.sorted, ?_⟩
  exact (Legal_iff_runSpec ov _ _).mp (legal_flat ov G.L _ _ hG.lin.items hG.lin.chain).1

/-- the pairwise form of the real-time condition, read with positions: a request that responded
    before another one was invoked stands before it -/
theorem rt_index {l : List (Rec M)} (hp : l.Pairwise (fun a b => ¬ b.res < a.inv))
    (hle : ∀ rc ∈ l, rc.inv ≤ rc.res) (i j : Nat) (hi : i < l.length) (hj : j < l.length)
    (hij : l[i].res < l[j].inv) : i < j := by
  rw [List.pairwise_iff_getElem] at hp
  rcases Nat.lt_trichotomy i j with h | h | h
  · exact h
  · subst h
    have := hle l[i] (List.getElem_mem hi)
    omega
  · exact absurd hij (hp j i hj hi h)

/-! ## 5. an executable rendering of `Step` (used to exhibit concrete executions) -/

open Function in
/-- the step goroutine `r` takes in state `s`, if it has one -/
def stepFn (prog : Nat → Req M) (ov : M → M → M) (s : St M) (r : Nat) : Option (St M) :=
  match s.pc r, prog r with
  | .start, .put id body => some
      { map := update s.map id (some s.next)
        cont := update s.cont s.next (some body)
        next := s.next + 1
        pc := update s.pc r .done
        invT := update s.invT r s.trace.length
        trace := s.trace ++ [.swap r id s.next body (s.map id)]
        hist := s.hist ++ [⟨r, .put id body, s.trace.length, s.trace.length,
                  if (s.map id).isSome then .updated else .created⟩] }
  | .start, .merge id body =>
    match s.map id with
    | none => some
      { map := update s.map id (some s.next)
        cont := update s.cont s.next (some body)
        next := s.next + 1
        pc := update s.pc r .done
        invT := update s.invT r s.trace.length
        trace := s.trace ++ [.los r id s.next body none]
        hist := s.hist ++ [⟨r, .merge id body, s.trace.length, s.trace.length, .created⟩] }
    | some o => some
      { map := s.map
        cont := update s.cont s.next (some body)
        next := s.next + 1
        pc := update s.pc r (.mergeLoaded o)
        invT := update s.invT r s.trace.length
        trace := s.trace ++ [.los r id s.next body (some o)]
        hist := s.hist }
  | .mergeLoaded o, .merge id body =>
    match s.cont o with
    | none => none
    | some c => some
      { map := s.map
        cont := update s.cont o (some (ov c body))
        next := s.next
        pc := update s.pc r .done
        invT := s.invT
        trace := s.trace ++ [.msec r o body]
        hist := s.hist ++ [⟨r, .merge id body, s.invT r, s.trace.length, .updated⟩] }
  | .start, .get id =>
    match s.map id with
    | none => some
      { map := s.map, cont := s.cont, next := s.next
        pc := update s.pc r .done
        invT := update s.invT r s.trace.length
        trace := s.trace ++ [.gload r id none]
        hist := s.hist ++ [⟨r, .get id, s.trace.length, s.trace.length, .notFound⟩] }
    | some o => some
      { map := s.map, cont := s.cont, next := s.next
        pc := update s.pc r (.getLoaded o)
        invT := update s.invT r s.trace.length
        trace := s.trace ++ [.gload r id (some o)]
        hist := s.hist }
  | .getLoaded o, .get id =>
    match s.cont o with
    | none => none
    | some c => some
      { map := s.map, cont := s.cont, next := s.next
        pc := update s.pc r .done
        invT := s.invT
        trace := s.trace ++ [.gread r o c]
        hist := s.hist ++ [⟨r, .get id, s.invT r, s.trace.length, .matrix c⟩] }
  | .start, .head id => some
      { map := s.map, cont := s.cont, next := s.next
        pc := update s.pc r .done
        invT := update s.invT r s.trace.length
        trace := s.trace ++ [.hload r id (s.map id)]
        hist := s.hist ++ [⟨r, .head id, s.trace.length, s.trace.length,
                  if (s.map id).isSome then .noContent else .notFound⟩] }
  | .start, .delete id => some
      { map := update s.map id none
        cont := s.cont, next := s.next
        pc := update s.pc r .done
        invT := update s.invT r s.trace.length
        trace := s.trace ++ [.lad r id (s.map id)]
        hist := s.hist ++ [⟨r, .delete id, s.trace.length, s.trace.length,
                  if (s.map id).isSome then .noContent else .notFound⟩] }
  | _, _ => none

theorem stepFn_sound {prog : Nat → Req M} {ov : M → M → M} {s s' : St M} {r : Nat}
    (h : stepFn prog ov s r = some s') : Step prog ov s s' := by
  unfold stepFn at h
  split at h
  · cases h; exact Step.swap s r _ _ ‹_› ‹_›
  · split at h
    · cases h; exact Step.losStore s r _ _ ‹_› ‹_› ‹_›
    · cases h; exact Step.losLoad s r _ _ _ ‹_› ‹_› ‹_›
  · split at h
    · cases h
    · cases h; exact Step.msec s r _ _ _ _ ‹_› ‹_› ‹_›
  · split at h
    · cases h; exact Step.gloadNone s r _ ‹_› ‹_› ‹_›
    · cases h; exact Step.gloadSome s r _ _ ‹_› ‹_› ‹_›
  · split at h
    · cases h
    · cases h; exact Step.gread s r _ _ _ ‹_› ‹_› ‹_›
  · cases h; exact Step.hload s r _ ‹_› ‹_›
  · cases h; exact Step.lad s r _ ‹_› ‹_›
  · cases h

/-- run a schedule (the list of goroutines taking the successive steps) -/
def runFn (prog : Nat → Req M) (ov : M → M → M) (s : St M) : List Nat → Option (St M)
  | [] => some s
  | r :: rs => (stepFn prog ov s r).bind fun s1 => runFn prog ov s1 rs

theorem runFn_sound {prog : Nat → Req M} {ov : M → M → M} {s s' : St M} {sched : List Nat}
    (h : runFn prog ov s sched = some s') : Relation.ReflTransGen (Step prog ov) s s' := by
  induction sched generalizing s with
  | nil => cases h; exact .refl
  | cons r rs ih =>
    simp only [runFn, Option.bind_eq_some_iff] at h
    obtain ⟨s1, h1, h2⟩ := h
    exact .head (stepFn_sound h1) (ih h2)

theorem reach_of_runFn {prog : Nat → Req M} {ov : M → M → M} {s : St M} {sched : List Nat}
    (h : runFn prog ov init sched = some s) : Reach prog ov s := runFn_sound h

end EtVerif.StoreConc
