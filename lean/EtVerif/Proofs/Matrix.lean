/-
  Helper lemmas for the matrix part of Model/Sparse.lean (matrix.go): dense view `denRows`,
  well-formedness `WFM`, `HiddenClean`, resize, row-wise merge, transpose, NewCSRMatrix.
-/
import EtVerif.Proofs.Merge

namespace EtVerif
open Scalar

variable {K : Type} [Field K] [LinearOrder K]

set_option linter.unusedSectionVars false

/-- dense value of cell `(i, j)` of a row table (rows beyond the table are empty) -/
def denRows (rows : List (Row K)) (i j : Nat) : K := denE (rows.getD i []) j

/-- well-formed matrix: one row per major index, every row strictly sorted with all stored
    indices below the minor dimension -/
def WFM (M : CSM K) : Prop := M.rows.length = M.major ∧ ∀ r ∈ M.rows, WF M.minor r

/-- the invisible part `Entries[len:cap]` of the row table holds only nil rows -/
def HiddenClean (M : CSM K) : Prop := ∀ r ∈ M.hidden, r = []

/-! Helper lemmas live in `EtVerif.Mx`. -/
namespace Mx
open Mg

/-! ### row access -/

theorem getD_eq (l : List (Row K)) (i : Nat) : l.getD i [] = (l[i]?).getD [] :=
  List.getD_eq_getElem?_getD

theorem getD_of_ge {l : List (Row K)} {i : Nat} (h : l.length ≤ i) : l.getD i [] = [] := by
  rw [getD_eq, List.getElem?_eq_none_iff.mpr h]; rfl

theorem getD_mem_or (l : List (Row K)) (i : Nat) : l.getD i [] ∈ l ∨ l.getD i [] = [] := by
  rw [getD_eq]
  cases h : l[i]? with
  | none => right; rfl
  | some r => left; exact List.mem_iff_getElem?.mpr ⟨i, h⟩

theorem mem_iff_getD {l : List (Row K)} {r : Row K} :
    r ∈ l ↔ ∃ i, i < l.length ∧ l.getD i [] = r := by
  constructor
  · intro h
    obtain ⟨i, hi⟩ := List.mem_iff_getElem?.mp h
    refine ⟨i, ?_, by rw [getD_eq, hi]; rfl⟩
    by_contra hlt
    rw [List.getElem?_eq_none_iff.mpr (by omega)] at hi
    cases hi
  · rintro ⟨i, hi, rfl⟩
    rw [getD_eq, List.getElem?_eq_getElem hi]
    exact List.getElem_mem hi

/-- all rows well-formed ⇔ every `getD` row well-formed -/
theorem rows_wf_iff {d : Nat} {l : List (Row K)} :
    (∀ r ∈ l, WF d r) ↔ ∀ i, WF d (l.getD i []) := by
  constructor
  · intro h i
    rcases getD_mem_or l i with hm | he
    · exact h _ hm
    · rw [he]; exact wf_nil d
  · intro h r hr
    obtain ⟨i, _, rfl⟩ := mem_iff_getD.mp hr
    exact h i

theorem WFM.row {M : CSM K} (h : WFM M) (i : Nat) : WF M.minor (M.rows.getD i []) :=
  rows_wf_iff.mp h.2 i

theorem denRows_of_ge_major {M : CSM K} (h : WFM M) {i : Nat} (hi : M.major ≤ i) (j : Nat) :
    denRows M.rows i j = 0 := by
  unfold denRows
  rw [getD_of_ge (by rw [h.1]; exact hi)]; rfl

theorem denRows_of_ge_minor {M : CSM K} (h : WFM M) (i : Nat) {j : Nat} (hj : M.minor ≤ j) :
    denRows M.rows i j = 0 :=
  denE_of_ge_dim (WFM.row h i) hj

theorem getD_append_clean {l h : List (Row K)} (hc : ∀ r ∈ h, r = []) (i : Nat) :
    (l ++ h).getD i [] = l.getD i [] := by
  rw [getD_eq, getD_eq, List.getElem?_append]
  by_cases hi : i < l.length
  · rw [if_pos hi]
  · rw [if_neg hi, List.getElem?_eq_none_iff.mpr (by omega : l.length ≤ i)]
    cases hh : h[i - l.length]? with
    | none => rfl
    | some r => exact hc r (List.mem_iff_getElem?.mpr ⟨_, hh⟩)

theorem getD_take (l : List (Row K)) (d i : Nat) :
    (l.take d).getD i [] = if i < d then l.getD i [] else [] := by
  rw [getD_eq, getD_eq, List.getElem?_take]
  split <;> rfl

/-! ### SetMajorDim -/

@[simp] theorem setMajorDim_major (M : CSM K) (d : Nat) : (M.setMajorDim d).major = d := by
  unfold CSM.setMajorDim; simp only; split <;> rfl

@[simp] theorem setMajorDim_minor (M : CSM K) (d : Nat) : (M.setMajorDim d).minor = M.minor := by
  unfold CSM.setMajorDim; simp only; split <;> rfl

theorem setMajorDim_length (M : CSM K) (d : Nat) : (M.setMajorDim d).rows.length = d := by
  unfold CSM.setMajorDim; simp only
  split
  · simp only [List.length_append, List.length_replicate]; omega
  · simp only [List.length_take, List.length_append]; omega

theorem setMajorDim_hiddenClean {M : CSM K} (hc : HiddenClean M) (d : Nat) :
    HiddenClean (M.setMajorDim d) := by
  unfold CSM.setMajorDim HiddenClean; simp only
  split
  · intro r hr; simp at hr
  · intro r hr
    simp only [List.mem_map] at hr
    obtain ⟨⟨x, k⟩, hx, rfl⟩ := hr
    simp only
    split
    · rfl
    · rename_i hlt
      have hx' := List.mk_mem_zipIdx_iff_getElem?.mp hx
      rw [List.getElem?_drop, List.getElem?_append, if_neg hlt] at hx'
      exact hc x (List.mem_iff_getElem?.mpr ⟨_, hx'⟩)

theorem setMajorDim_getD {M : CSM K} (hc : HiddenClean M) (d i : Nat) :
    (M.setMajorDim d).rows.getD i [] = if i < d then M.rows.getD i [] else [] := by
  unfold CSM.setMajorDim; simp only
  split
  · rename_i hcap
    have : (M.rows ++ List.replicate (d - M.rows.length) ([] : Row K)).getD i [] =
        M.rows.getD i [] :=
      getD_append_clean (fun r hr => (List.mem_replicate.mp hr).2) i
    rw [this]
    by_cases hi : i < d
    · rw [if_pos hi]
    · rw [if_neg hi]; exact getD_of_ge (by omega)
  · rw [getD_take, getD_append_clean hc]

theorem setMajorDim_rows_wf {M : CSM K} (hc : HiddenClean M) {c : Nat}
    (h : ∀ r ∈ M.rows, WF c r) (d : Nat) : ∀ r ∈ (M.setMajorDim d).rows, WF c r := by
  rw [rows_wf_iff] at h ⊢
  intro i
  rw [setMajorDim_getD hc]
  split
  · exact h i
  · exact wf_nil c

theorem setMajorDim_wfm {M : CSM K} (hw : WFM M) (hc : HiddenClean M) (d : Nat) :
    WFM (M.setMajorDim d) :=
  ⟨by rw [setMajorDim_length, setMajorDim_major],
   by rw [setMajorDim_minor]; exact setMajorDim_rows_wf hc hw.2 d⟩

theorem setMajorDim_den {M : CSM K} (hc : HiddenClean M) (d i j : Nat) :
    denRows (M.setMajorDim d).rows i j = if i < d then denRows M.rows i j else 0 := by
  unfold denRows
  rw [setMajorDim_getD hc]
  split <;> rfl

/-- growing the major dimension does not change any visible row -/
theorem setMajorDim_getD_of_le {M : CSM K} (hw : M.rows.length = M.major) (hc : HiddenClean M)
    {d : Nat} (hd : M.major ≤ d) (i : Nat) :
    (M.setMajorDim d).rows.getD i [] = M.rows.getD i [] := by
  rw [setMajorDim_getD hc]
  split
  · rfl
  · exact (getD_of_ge (by omega)).symm

/-! ### SetMinorDim -/

@[simp] theorem setMinorDim_major (M : CSM K) (d : Nat) : (M.setMinorDim d).major = M.major := by
  unfold CSM.setMinorDim; split <;> rfl

@[simp] theorem setMinorDim_minor (M : CSM K) (d : Nat) : (M.setMinorDim d).minor = d := by
  unfold CSM.setMinorDim; split <;> rfl

@[simp] theorem setMinorDim_hidden (M : CSM K) (d : Nat) :
    (M.setMinorDim d).hidden = M.hidden := by
  unfold CSM.setMinorDim; split <;> rfl

theorem setMinorDim_length (M : CSM K) (d : Nat) :
    (M.setMinorDim d).rows.length = M.rows.length := by
  unfold CSM.setMinorDim; split <;> simp

theorem setMinorDim_hiddenClean {M : CSM K} (hc : HiddenClean M) (d : Nat) :
    HiddenClean (M.setMinorDim d) := by
  unfold HiddenClean; rw [setMinorDim_hidden]; exact hc

theorem setMinorDim_getD (M : CSM K) (d i : Nat) :
    (M.setMinorDim d).rows.getD i [] =
      if d < M.minor then (M.rows.getD i []).takeWhile (·.idx < d) else M.rows.getD i [] := by
  unfold CSM.setMinorDim
  split
  · simp only [getD_eq, List.getElem?_map]
    cases M.rows[i]? <;> rfl
  · rfl

theorem setMinorDim_getD_of_le {M : CSM K} (d : Nat) (hd : M.minor ≤ d) (i : Nat) :
    (M.setMinorDim d).rows.getD i [] = M.rows.getD i [] := by
  rw [setMinorDim_getD, if_neg (by omega)]

theorem setMinorDim_row_wf {M : CSM K} (h : ∀ r ∈ M.rows, WF M.minor r) (d i : Nat) :
    WF d ((M.setMinorDim d).rows.getD i []) := by
  have hi := rows_wf_iff.mp h i
  rw [setMinorDim_getD]
  split
  · exact wf_takeWhile hi.1
  · exact wf_mono hi (by omega)

theorem setMinorDim_wfm {M : CSM K} (hw : WFM M) (d : Nat) : WFM (M.setMinorDim d) :=
  ⟨by rw [setMinorDim_length, setMinorDim_major]; exact hw.1,
   by rw [setMinorDim_minor]; exact rows_wf_iff.mpr (setMinorDim_row_wf hw.2 d)⟩

theorem setMinorDim_den {M : CSM K} (h : ∀ r ∈ M.rows, WF M.minor r) (d i j : Nat) :
    denRows (M.setMinorDim d).rows i j = if j < d then denRows M.rows i j else 0 := by
  have hi := rows_wf_iff.mp h i
  unfold denRows
  rw [setMinorDim_getD]
  split
  · exact den_takeWhile hi.1 j
  · by_cases hj : j < d
    · rw [if_pos hj]
    · rw [if_neg hj]; exact denE_of_ge_dim hi (by omega)

/-! ### SetDim -/

theorem setDim_wfm {M : CSM K} (hw : WFM M) (hc : HiddenClean M) (r c : Nat) :
    WFM (M.setDim r c) :=
  setMinorDim_wfm (setMajorDim_wfm hw hc r) c

theorem setDim_hiddenClean {M : CSM K} (hc : HiddenClean M) (r c : Nat) :
    HiddenClean (M.setDim r c) :=
  setMinorDim_hiddenClean (setMajorDim_hiddenClean hc r) c

theorem setDim_den {M : CSM K} (hw : WFM M) (hc : HiddenClean M) (r c i j : Nat) :
    denRows (M.setDim r c).rows i j = if i < r ∧ j < c then denRows M.rows i j else 0 := by
  unfold CSM.setDim
  rw [setMinorDim_den (setMajorDim_wfm hw hc r).2, setMajorDim_den hc]
  by_cases hi : i < r <;> by_cases hj : j < c <;> simp [hi, hj]

/-! ### mergeRows -/

theorem mergeSpan_nil_right (s : List (Entry K)) : mergeSpan s [] = s := by
  rw [mergeSpan]

theorem mergeRows_length (t1 t2 : List (Row K)) : (mergeRows t1 t2).length = t1.length := by
  fun_induction mergeRows t1 t2 <;> simp_all

theorem mergeRows_getD {t1 t2 : List (Row K)} (h : t2.length ≤ t1.length) (i : Nat) :
    (mergeRows t1 t2).getD i [] = mergeSpan (t1.getD i []) (t2.getD i []) := by
  fun_induction mergeRows t1 t2 generalizing i with
  | case1 r1 t1 r2 t2 ih =>
    cases i with
    | zero => rfl
    | succ i =>
      simp only [List.getD_cons_succ]
      exact ih (by simpa using h) i
  | case2 t1 => simp [mergeSpan_nil_right]
  | case3 t2 hne =>
    cases t2 with
    | nil => simp [mergeSpan_nil_right]
    | cons _ _ => simp at h

/-! ### Transpose -/

/-- contribution of source row `r` (row number `i`) to transposed row `j` -/
def piece (i : Nat) (r : Row K) (j : Nat) : Row K :=
  (r.filter (fun e => e.idx = j)).map (fun e => ⟨i, e.val⟩)

/-- transposed row `j` built from source rows numbered `k, k+1, …` -/
def col (rows : List (Row K)) (k j : Nat) : Row K :=
  (rows.zipIdx k).flatMap (fun p => piece p.2 p.1 j)

@[simp] theorem piece_nil (i j : Nat) : piece i ([] : Row K) j = [] := rfl

theorem piece_cons (i : Nat) (e : Entry K) (r : Row K) (j : Nat) :
    piece i (e :: r) j = (if e.idx = j then [⟨i, e.val⟩] else []) ++ piece i r j := by
  unfold piece
  by_cases h : e.idx = j <;> simp [h]

@[simp] theorem col_nil (k j : Nat) : col ([] : List (Row K)) k j = [] := rfl

theorem col_cons (r : Row K) (rs : List (Row K)) (k j : Nat) :
    col (r :: rs) k j = piece k r j ++ col rs (k + 1) j := by
  simp [col, List.zipIdx_cons, List.flatMap_cons]

theorem scatterRow_getElem? (t : List (Row K)) (i : Nat) (r : Row K) (j : Nat) :
    (scatterRow t i r)[j]? = (t[j]?).map (· ++ piece i r j) := by
  unfold scatterRow
  induction r generalizing t with
  | nil => simp
  | cons e r ih =>
    rw [List.foldl_cons, ih, List.getElem?_modify, piece_cons]
    cases t[j]? with
    | none => rfl
    | some a =>
      by_cases h : e.idx = j <;> simp [h]

theorem fold_scatter_getElem? (f : List (Row K) → Row K × Nat → List (Row K))
    (hf : ∀ t r i, f t (r, i) = scatterRow t i r) (rows : List (Row K)) (k : Nat)
    (t : List (Row K)) (j : Nat) :
    ((rows.zipIdx k).foldl f t)[j]? = (t[j]?).map (· ++ col rows k j) := by
  induction rows generalizing k t with
  | nil => simp
  | cons r rs ih =>
    rw [List.zipIdx_cons, List.foldl_cons, hf, ih, scatterRow_getElem?, col_cons]
    cases t[j]? <;> simp

theorem transpose_getElem? (M : CSM K) (j : Nat) :
    M.transpose.rows[j]? = if j < M.minor then some (col M.rows 0 j) else none := by
  unfold CSM.transpose
  simp only
  rw [fold_scatter_getElem? _ (fun _ _ _ => rfl), List.getElem?_replicate]
  split <;> simp

theorem transpose_getD (M : CSM K) (j : Nat) :
    M.transpose.rows.getD j [] = if j < M.minor then col M.rows 0 j else [] := by
  rw [getD_eq, transpose_getElem?]
  split <;> rfl

theorem transpose_length (M : CSM K) : M.transpose.rows.length = M.minor := by
  apply Nat.le_antisymm
  · apply List.getElem?_eq_none_iff.mp
    rw [transpose_getElem?, if_neg (Nat.lt_irrefl _)]
  · by_contra hlt
    have hlt : M.transpose.rows.length < M.minor := by omega
    have h1 := transpose_getElem? M M.transpose.rows.length
    rw [if_pos hlt, List.getElem?_eq_none_iff.mpr (Nat.le_refl _)] at h1
    cases h1

@[simp] theorem transpose_major (M : CSM K) : M.transpose.major = M.minor := rfl
@[simp] theorem transpose_minor (M : CSM K) : M.transpose.minor = M.major := rfl
@[simp] theorem transpose_hidden (M : CSM K) : M.transpose.hidden = [] := rfl

theorem mem_piece {i j : Nat} {r : Row K} {x : Entry K} :
    x ∈ piece i r j ↔ x.idx = i ∧ (⟨j, x.val⟩ : Entry K) ∈ r := by
  unfold piece
  simp only [List.mem_map, List.mem_filter, decide_eq_true_eq]
  constructor
  · rintro ⟨e, ⟨he, rfl⟩, rfl⟩
    exact ⟨rfl, he⟩
  · rintro ⟨rfl, h⟩
    exact ⟨⟨j, x.val⟩, ⟨h, rfl⟩, rfl⟩

theorem mem_col {rows : List (Row K)} {k j : Nat} {x : Entry K} :
    x ∈ col rows k j ↔ k ≤ x.idx ∧ (⟨j, x.val⟩ : Entry K) ∈ rows.getD (x.idx - k) [] := by
  induction rows generalizing k with
  | nil => simp
  | cons r rs ih =>
    rw [col_cons, List.mem_append, mem_piece, ih]
    constructor
    · rintro (⟨h1, h2⟩ | ⟨h1, h2⟩)
      · refine ⟨by omega, ?_⟩
        have : x.idx - k = 0 := by omega
        rw [this]; exact h2
      · refine ⟨by omega, ?_⟩
        have : x.idx - k = (x.idx - (k + 1)) + 1 := by omega
        rw [this]; exact h2
    · rintro ⟨h1, h2⟩
      by_cases hk : x.idx = k
      · left
        have : x.idx - k = 0 := by omega
        rw [this] at h2
        exact ⟨hk, h2⟩
      · right
        have : x.idx - k = (x.idx - (k + 1)) + 1 := by omega
        rw [this] at h2
        exact ⟨by omega, h2⟩

theorem filter_idx_cases {r : Row K} (h : Sorted r) (j : Nat) :
    r.filter (fun e => e.idx = j) = [] ∨ ∃ e, r.filter (fun e => e.idx = j) = [e] := by
  induction r with
  | nil => left; rfl
  | cons a r ih =>
    by_cases ha : a.idx = j
    · right
      refine ⟨a, ?_⟩
      rw [List.filter_cons_of_pos (by simpa using ha)]
      congr 1
      apply List.filter_eq_nil_iff.mpr
      intro e he
      have := h.head_lt e he
      simp only [decide_eq_true_eq]; omega
    · rw [List.filter_cons_of_neg (by simpa using ha)]
      exact ih h.tail

theorem sorted_piece {r : Row K} (h : Sorted r) (i j : Nat) : Sorted (piece i r j) := by
  unfold piece
  rcases filter_idx_cases h j with h0 | ⟨e, he⟩
  · rw [h0]; exact sorted_nil
  · rw [he]; exact List.pairwise_singleton _ _

theorem sorted_col {rows : List (Row K)} (h : ∀ r ∈ rows, Sorted r) (k j : Nat) :
    Sorted (col rows k j) := by
  induction rows generalizing k with
  | nil => exact sorted_nil
  | cons r rs ih =>
    rw [col_cons]
    refine List.pairwise_append.mpr ⟨sorted_piece (h r (by simp)) k j,
      ih (fun r' hr' => h r' (by simp [hr'])) (k + 1), ?_⟩
    intro a ha b hb
    have h1 := (mem_piece.mp ha).1
    have h2 := (mem_col.mp hb).1
    omega

theorem idx_lt_of_mem_col {rows : List (Row K)} {j : Nat} {x : Entry K}
    (hx : x ∈ col rows 0 j) : x.idx < rows.length := by
  have h := (mem_col.mp hx).2
  by_contra hge
  rw [getD_of_ge (by omega)] at h
  simp at h

theorem wf_col {rows : List (Row K)} (h : ∀ r ∈ rows, Sorted r) (j : Nat) :
    WF rows.length (col rows 0 j) :=
  ⟨sorted_col h 0 j, fun _ hx => idx_lt_of_mem_col hx⟩

theorem transpose_wfm {M : CSM K} (hw : WFM M) : WFM M.transpose := by
  refine ⟨transpose_length M, ?_⟩
  rw [rows_wf_iff]
  intro j
  rw [transpose_getD, transpose_minor, ← hw.1]
  split
  · exact wf_col (fun r hr => (hw.2 r hr).1) j
  · exact wf_nil _

theorem mem_transpose_row {M : CSM K} {j : Nat} {x : Entry K} :
    x ∈ M.transpose.rows.getD j [] ↔
      j < M.minor ∧ (⟨j, x.val⟩ : Entry K) ∈ M.rows.getD x.idx [] := by
  rw [transpose_getD]
  split
  · rename_i hj
    rw [mem_col]
    simp [hj]
  · rename_i hj
    simp [hj]

theorem transpose_den {M : CSM K} (hw : WFM M) (i j : Nat) :
    denRows M.transpose.rows j i = denRows M.rows i j := by
  have hwt := transpose_wfm hw
  unfold denRows
  by_cases h : ∃ e ∈ M.rows.getD i [], e.idx = j
  · obtain ⟨e, he, rfl⟩ := h
    have hlt : e.idx < M.minor := (WFM.row hw i).2 e he
    have hm : (⟨i, e.val⟩ : Entry K) ∈ M.transpose.rows.getD e.idx [] :=
      mem_transpose_row.mpr ⟨hlt, he⟩
    rw [denE_of_mem (WFM.row hw i).1 he]
    exact denE_of_mem (WFM.row hwt e.idx).1 hm
  · rw [denE_of_not_mem h]
    apply denE_of_not_mem
    rintro ⟨x, hx, rfl⟩
    exact h ⟨_, (mem_transpose_row.mp hx).2, rfl⟩

theorem transpose_transpose_rows {M : CSM K} (hw : WFM M) :
    M.transpose.transpose.rows = M.rows := by
  have hwt := transpose_wfm hw
  have hwtt := transpose_wfm hwt
  apply List.ext_getElem?
  intro i
  by_cases hi : i < M.major
  · have h1 : i < M.transpose.transpose.rows.length := by
      rw [hwtt.1]; exact hi
    have h2 : i < M.rows.length := by rw [hw.1]; exact hi
    rw [List.getElem?_eq_getElem h1, List.getElem?_eq_getElem h2]
    congr 1
    have e1 : M.transpose.transpose.rows[i] = M.transpose.transpose.rows.getD i [] := by
      rw [getD_eq, List.getElem?_eq_getElem h1]; rfl
    have e2 : M.rows[i] = M.rows.getD i [] := by
      rw [getD_eq, List.getElem?_eq_getElem h2]; rfl
    rw [e1, e2]
    apply sorted_ext (WFM.row hwtt i).1 (WFM.row hw i).1
    intro x
    rw [mem_transpose_row, mem_transpose_row]
    constructor
    · rintro ⟨_, _, h⟩; exact h
    · intro h
      exact ⟨hi, (WFM.row hw i).2 x h, h⟩
  · rw [List.getElem?_eq_none_iff.mpr (by rw [hwtt.1]; exact Nat.le_of_not_lt hi),
      List.getElem?_eq_none_iff.mpr (by rw [hw.1]; exact Nat.le_of_not_lt hi)]

/-! ### sortByIdx -/

theorem insertByIdx_perm (e : Entry K) (l : List (Entry K)) : (insertByIdx e l).Perm (e :: l) := by
  induction l with
  | nil => exact List.Perm.refl _
  | cons x xs ih =>
    unfold insertByIdx
    split
    · exact List.Perm.refl _
    · exact (ih.cons x).trans (List.Perm.swap e x xs)

theorem sortByIdx_cons (e : Entry K) (l : List (Entry K)) :
    sortByIdx (e :: l) = insertByIdx e (sortByIdx l) := rfl

theorem sortByIdx_perm (l : List (Entry K)) : (sortByIdx l).Perm l := by
  induction l with
  | nil => exact List.Perm.refl _
  | cons e l ih =>
    rw [sortByIdx_cons]
    exact (insertByIdx_perm e _).trans (ih.cons e)

theorem sorted_insertByIdx {e : Entry K} {s : List (Entry K)} (hs : Sorted s)
    (hne : ∀ x ∈ s, x.idx ≠ e.idx) : Sorted (insertByIdx e s) := by
  induction s with
  | nil => exact List.pairwise_singleton _ _
  | cons x xs ih =>
    unfold insertByIdx
    split
    · rename_i hlt
      refine sorted_cons.mpr ⟨?_, hs⟩
      intro y hy
      rcases List.mem_cons.mp hy with rfl | hy
      · exact hlt
      · have := hs.head_lt y hy; omega
    · rename_i hlt
      have hx : x.idx ≠ e.idx := hne x (by simp)
      refine sorted_cons.mpr ⟨?_, ih hs.tail (fun y hy => hne y (by simp [hy]))⟩
      intro y hy
      rcases List.mem_cons.mp ((insertByIdx_perm e xs).mem_iff.mp hy) with rfl | hy
      · omega
      · exact hs.head_lt y hy

/-- sorting a span with pairwise distinct indices yields a strictly sorted span -/
theorem sorted_sortByIdx {l : List (Entry K)} (h : (l.map (·.idx)).Nodup) :
    Sorted (sortByIdx l) := by
  induction l with
  | nil => exact sorted_nil
  | cons e l ih =>
    rw [List.map_cons, List.nodup_cons] at h
    rw [sortByIdx_cons]
    refine sorted_insertByIdx (ih h.2) ?_
    intro x hx hidx
    exact h.1 (List.mem_map.mpr ⟨x, (sortByIdx_perm l).mem_iff.mp hx, hidx⟩)

theorem denE_append (l1 l2 : List (Entry K)) (i : Nat) :
    denE (l1 ++ l2) i = denE l1 i + denE l2 i := by
  induction l1 with
  | nil => simp
  | cons a l1 ih =>
    simp only [List.cons_append, denE_cons, ih]
    split <;> ring

theorem denE_perm {l1 l2 : List (Entry K)} (h : l1.Perm l2) (i : Nat) :
    denE l1 i = denE l2 i := by
  induction h with
  | nil => rfl
  | cons x _ ih => simp only [denE_cons, ih]
  | swap x y l => simp only [denE_cons]; split <;> split <;> ring
  | trans _ _ ih1 ih2 => exact ih1.trans ih2

/-- two sorts of permutation-equivalent spans with distinct indices coincide -/
theorem sortByIdx_eq_of_perm {l1 l2 : List (Entry K)} (hp : l1.Perm l2)
    (h : (l1.map (·.idx)).Nodup) : sortByIdx l1 = sortByIdx l2 := by
  have h2 : (l2.map (·.idx)).Nodup := ((hp.map (·.idx)).nodup_iff).mp h
  exact List.Perm.eq_of_pairwise (le := fun a b : Entry K => a.idx < b.idx)
    (fun a b _ _ h1 h2 => by omega) (sorted_sortByIdx h) (sorted_sortByIdx h2)
    ((sortByIdx_perm l1).trans (hp.trans (sortByIdx_perm l2).symm))

/-! ### NewCSRMatrix -/

/-- the cells bucketed into row `i`, in input order -/
def bucketRow (inc : Bool) (es : List (Coo K)) (i : Nat) : Row K :=
  (es.filter (fun e => decide (e.row = i) && (decide (e.val ≠ 0) || inc))).map
    (fun e => ⟨e.col, e.val⟩)

/-- pairwise distinct (row, column) coordinates -/
def DistinctCoo (es : List (Coo K)) : Prop := (es.map (fun e => (e.row, e.col))).Nodup

@[simp] theorem bucketRow_nil (inc : Bool) (i : Nat) : bucketRow inc ([] : List (Coo K)) i = [] :=
  rfl

theorem bucketRow_cons (inc : Bool) (e : Coo K) (es : List (Coo K)) (i : Nat) :
    bucketRow inc (e :: es) i =
      (if e.row = i ∧ (e.val ≠ 0 ∨ inc = true) then [⟨e.col, e.val⟩] else []) ++
        bucketRow inc es i := by
  unfold bucketRow
  by_cases h : e.row = i ∧ (e.val ≠ 0 ∨ inc = true)
  · rw [if_pos h, List.filter_cons_of_pos (by simpa using h)]; rfl
  · rw [if_neg h, List.filter_cons_of_neg (by simpa using h)]; rfl

theorem mem_bucketRow {inc : Bool} {es : List (Coo K)} {i : Nat} {x : Entry K} :
    x ∈ bucketRow inc es i ↔
      ∃ e ∈ es, e.row = i ∧ (e.val ≠ 0 ∨ inc = true) ∧ x = ⟨e.col, e.val⟩ := by
  unfold bucketRow
  simp only [List.mem_map, List.mem_filter, Bool.and_eq_true, Bool.or_eq_true,
    decide_eq_true_eq]
  constructor
  · rintro ⟨e, ⟨he, h1, h2⟩, rfl⟩; exact ⟨e, he, h1, h2, rfl⟩
  · rintro ⟨e, he, h1, h2, rfl⟩; exact ⟨e, ⟨he, h1, h2⟩, rfl⟩

theorem bucket_fold_getElem? (inc : Bool) (es : List (Coo K)) (t : List (Row K)) (i : Nat) :
    (es.foldl (bucketCoo inc) t)[i]? = (t[i]?).map (· ++ bucketRow inc es i) := by
  induction es generalizing t with
  | nil => simp
  | cons e es ih =>
    rw [List.foldl_cons, ih, bucketRow_cons]
    unfold bucketCoo
    by_cases hk : e.val ≠ 0 ∨ inc = true
    · have hc : ¬ ((isZero e.val && !inc) = true) := by
        rcases hk with hk | hk <;> simp [hk]
      rw [if_neg hc, List.getElem?_modify]
      cases t[i]? with
      | none => rfl
      | some a => by_cases hr : e.row = i <;> simp [hr, hk]
    · have hc : (isZero e.val && !inc) = true := by
        simp only [not_or, not_not] at hk
        simp [hk.1, hk.2]
      rw [if_pos hc]
      cases t[i]? with
      | none => rfl
      | some a => simp [hk]

theorem newCSR_getElem? (rows cols : Nat) (es : List (Coo K)) (inc : Bool) (i : Nat) :
    (CSM.newCSR rows cols es inc).rows[i]? =
      if i < rows then some (sortByIdx (bucketRow inc es i)) else none := by
  unfold CSM.newCSR
  simp only
  rw [List.getElem?_map, bucket_fold_getElem?, List.getElem?_replicate]
  split <;> simp

theorem newCSR_getD (rows cols : Nat) (es : List (Coo K)) (inc : Bool) (i : Nat) :
    (CSM.newCSR rows cols es inc).rows.getD i [] =
      if i < rows then sortByIdx (bucketRow inc es i) else [] := by
  rw [getD_eq, newCSR_getElem?]
  split <;> rfl

theorem newCSR_length (rows cols : Nat) (es : List (Coo K)) (inc : Bool) :
    (CSM.newCSR rows cols es inc).rows.length = rows := by
  apply Nat.le_antisymm
  · apply List.getElem?_eq_none_iff.mp
    rw [newCSR_getElem?, if_neg (Nat.lt_irrefl _)]
  · by_contra hlt
    have hlt : (CSM.newCSR rows cols es inc).rows.length < rows := by omega
    have h1 := newCSR_getElem? rows cols es inc (CSM.newCSR rows cols es inc).rows.length
    rw [if_pos hlt, List.getElem?_eq_none_iff.mpr (Nat.le_refl _)] at h1
    cases h1

@[simp] theorem newCSR_major (rows cols : Nat) (es : List (Coo K)) (inc : Bool) :
    (CSM.newCSR rows cols es inc).major = rows := rfl
@[simp] theorem newCSR_minor (rows cols : Nat) (es : List (Coo K)) (inc : Bool) :
    (CSM.newCSR rows cols es inc).minor = cols := rfl
@[simp] theorem newCSR_hidden (rows cols : Nat) (es : List (Coo K)) (inc : Bool) :
    (CSM.newCSR rows cols es inc).hidden = [] := rfl

theorem distinctCoo_cons {a : Coo K} {es : List (Coo K)} :
    DistinctCoo (a :: es) ↔
      (∀ e ∈ es, ¬ (e.row = a.row ∧ e.col = a.col)) ∧ DistinctCoo es := by
  unfold DistinctCoo
  rw [List.map_cons, List.nodup_cons]
  constructor
  · rintro ⟨h1, h2⟩
    refine ⟨?_, h2⟩
    rintro e he ⟨hr, hc⟩
    exact h1 (List.mem_map.mpr ⟨e, he, by rw [hr, hc]⟩)
  · rintro ⟨h1, h2⟩
    refine ⟨?_, h2⟩
    intro hm
    obtain ⟨e, he, heq⟩ := List.mem_map.mp hm
    have := Prod.mk.inj heq
    exact h1 e he ⟨this.1, this.2⟩

theorem den_bucketRow_of_not_mem {inc : Bool} {es : List (Coo K)} {i j : Nat}
    (h : ∀ e ∈ es, ¬ (e.row = i ∧ e.col = j)) : denE (bucketRow inc es i) j = 0 := by
  apply denE_eq_zero_of_forall_ne
  intro x hx hj
  obtain ⟨e, he, hr, _, rfl⟩ := mem_bucketRow.mp hx
  exact h e he ⟨hr, hj⟩

theorem den_bucketRow_of_mem {inc : Bool} {es : List (Coo K)} (hd : DistinctCoo es)
    {e : Coo K} (he : e ∈ es) : denE (bucketRow inc es e.row) e.col = e.val := by
  induction es with
  | nil => simp at he
  | cons a es ih =>
    obtain ⟨hd1, hd2⟩ := distinctCoo_cons.mp hd
    rw [bucketRow_cons, denE_append]
    rcases List.mem_cons.mp he with rfl | he'
    · rw [den_bucketRow_of_not_mem hd1, add_zero]
      by_cases hk : e.val ≠ 0 ∨ inc = true
      · rw [if_pos ⟨rfl, hk⟩]; simp
      · rw [if_neg (fun h => hk h.2)]
        simp only [not_or, not_not] at hk
        rw [hk.1]; rfl
    · rw [ih hd2 he']
      have hne := hd1 e he'
      by_cases hc : a.row = e.row ∧ (a.val ≠ 0 ∨ inc = true)
      · rw [if_pos hc]
        have : a.col ≠ e.col := fun h => hne ⟨hc.1.symm, h.symm⟩
        simp [this]
      · rw [if_neg hc]; simp

theorem bucketRow_idx_nodup {inc : Bool} {es : List (Coo K)} (hd : DistinctCoo es) (i : Nat) :
    ((bucketRow inc es i).map (·.idx)).Nodup := by
  unfold bucketRow
  rw [List.map_map]
  unfold DistinctCoo at hd
  unfold List.Nodup at hd ⊢
  rw [List.pairwise_map] at hd ⊢
  have h2 := List.Pairwise.sublist
    (List.filter_sublist (p := fun e : Coo K => decide (e.row = i) && (decide (e.val ≠ 0) || inc))
      (l := es)) hd
  refine List.Pairwise.imp_of_mem ?_ h2
  intro a b ha hb hab hcol
  have ha' := (List.mem_filter.mp ha).2
  have hb' := (List.mem_filter.mp hb).2
  simp only [Bool.and_eq_true, decide_eq_true_eq] at ha' hb'
  apply hab
  simp only [Function.comp] at hcol
  rw [ha'.1, hb'.1, hcol]

theorem bucketRow_perm {inc : Bool} {es es' : List (Coo K)} (hp : es.Perm es') (i : Nat) :
    (bucketRow inc es i).Perm (bucketRow inc es' i) :=
  (hp.filter _).map _

/-- with distinct coordinates every row of the result is strictly sorted, and in range when the
    stored columns are -/
theorem newCSR_wfm {rows cols : Nat} {es : List (Coo K)} {inc : Bool} (hd : DistinctCoo es)
    (hc : ∀ e ∈ es, (e.val ≠ 0 ∨ inc = true) → e.col < cols) :
    WFM (CSM.newCSR rows cols es inc) := by
  refine ⟨newCSR_length rows cols es inc, ?_⟩
  rw [rows_wf_iff]
  intro i
  rw [newCSR_getD, newCSR_minor]
  split
  · refine ⟨sorted_sortByIdx (bucketRow_idx_nodup hd i), ?_⟩
    intro x hx
    obtain ⟨e, he, _, hk, rfl⟩ := mem_bucketRow.mp ((sortByIdx_perm _).mem_iff.mp hx)
    exact hc e he hk
  · exact wf_nil _

theorem newCSR_den_of_mem {rows cols : Nat} {es : List (Coo K)} {inc : Bool}
    (hd : DistinctCoo es) (hr : ∀ e ∈ es, (e.val ≠ 0 ∨ inc = true) → e.row < rows)
    {e : Coo K} (he : e ∈ es) :
    denRows (CSM.newCSR rows cols es inc).rows e.row e.col = e.val := by
  unfold denRows
  rw [newCSR_getD]
  split
  · rw [denE_perm (sortByIdx_perm _)]
    exact den_bucketRow_of_mem hd he
  · rename_i hlt
    by_cases hk : e.val ≠ 0 ∨ inc = true
    · exact absurd (hr e he hk) hlt
    · simp only [not_or, not_not] at hk
      rw [hk.1]; rfl

theorem newCSR_den_of_not_mem {rows cols : Nat} {es : List (Coo K)} {inc : Bool} {i j : Nat}
    (h : ∀ e ∈ es, ¬ (e.row = i ∧ e.col = j)) :
    denRows (CSM.newCSR rows cols es inc).rows i j = 0 := by
  unfold denRows
  rw [newCSR_getD]
  split
  · rw [denE_perm (sortByIdx_perm _)]
    exact den_bucketRow_of_not_mem h
  · rfl

theorem newCSR_perm {rows cols : Nat} {es es' : List (Coo K)} {inc : Bool}
    (hd : DistinctCoo es) (hp : es.Perm es') :
    CSM.newCSR rows cols es inc = CSM.newCSR rows cols es' inc := by
  have hrows : (CSM.newCSR rows cols es inc).rows = (CSM.newCSR rows cols es' inc).rows := by
    apply List.ext_getElem?
    intro i
    rw [newCSR_getElem?, newCSR_getElem?]
    split
    · rw [sortByIdx_eq_of_perm (bucketRow_perm hp i) (bucketRow_idx_nodup hd i)]
    · rfl
  unfold CSM.newCSR at hrows ⊢
  simp only at hrows ⊢
  rw [hrows]

/-! ### CSMatrix.Merge -/

theorem merge_fst (A B : CSM K) :
    (A.merge B).1 =
      { (A.setMajorDim (max A.major B.major)).setMinorDim (max A.minor B.minor) with
        rows := mergeRows
          ((A.setMajorDim (max A.major B.major)).setMinorDim (max A.minor B.minor)).rows B.rows } :=
  rfl

theorem merge_major (A B : CSM K) : (A.merge B).1.major = max A.major B.major := by
  rw [merge_fst]; simp

theorem merge_minor (A B : CSM K) : (A.merge B).1.minor = max A.minor B.minor := by
  rw [merge_fst]; simp

theorem merge_snd (A B : CSM K) : (A.merge B).2 = CSM.empty := rfl

theorem merge_hiddenClean {A : CSM K} (hc : HiddenClean A) (B : CSM K) :
    HiddenClean (A.merge B).1 := by
  have h := setMinorDim_hiddenClean (setMajorDim_hiddenClean hc (max A.major B.major))
    (max A.minor B.minor)
  rw [merge_fst]
  exact h

theorem merge_length (A B : CSM K) : (A.merge B).1.rows.length = max A.major B.major := by
  rw [merge_fst]
  simp only
  rw [mergeRows_length, setMinorDim_length, setMajorDim_length]

/-- row `i` of the merged matrix is the span merge of the two rows `i` -/
theorem merge_getD {A B : CSM K} (hA : A.rows.length = A.major) (hc : HiddenClean A)
    (hB : B.rows.length = B.major) (i : Nat) :
    (A.merge B).1.rows.getD i [] = mergeSpan (A.rows.getD i []) (B.rows.getD i []) := by
  rw [merge_fst]
  simp only
  rw [mergeRows_getD (by
    rw [setMinorDim_length, setMajorDim_length, hB]; exact Nat.le_max_right _ _)]
  rw [setMinorDim_getD_of_le _ (by rw [setMajorDim_minor]; exact Nat.le_max_left _ _),
    setMajorDim_getD_of_le hA hc (Nat.le_max_left _ _)]

theorem merge_wfm {A B : CSM K} (hA : WFM A) (hc : HiddenClean A) (hB : WFM B) :
    WFM (A.merge B).1 := by
  refine ⟨by rw [merge_length, merge_major], ?_⟩
  rw [rows_wf_iff]
  intro i
  rw [merge_getD hA.1 hc hB.1, merge_minor]
  exact wf_mergeSpan' (wf_mono (WFM.row hA i) (Nat.le_max_left _ _))
    (wf_mono (WFM.row hB i) (Nat.le_max_right _ _))

theorem merge_den {A B : CSM K} (hA : WFM A) (hc : HiddenClean A) (hB : WFM B) (i j : Nat) :
    denRows (A.merge B).1.rows i j =
      if ∃ e ∈ B.rows.getD i [], e.idx = j then denRows B.rows i j else denRows A.rows i j := by
  unfold denRows
  rw [merge_getD hA.1 hc hB.1]
  exact den_mergeSpan' (WFM.row hA i).1 (WFM.row hB i).1 j

/-- which cells a matrix built by `NewCSRMatrix` stores -/
theorem newCSR_stores {rows cols : Nat} {es : List (Coo K)} {inc : Bool} {i j : Nat} :
    (∃ x ∈ (CSM.newCSR rows cols es inc).rows.getD i [], x.idx = j) ↔
      i < rows ∧ ∃ e ∈ es, e.row = i ∧ e.col = j ∧ (e.val ≠ 0 ∨ inc = true) := by
  rw [newCSR_getD]
  split
  · rename_i hi
    constructor
    · rintro ⟨x, hx, rfl⟩
      obtain ⟨e, he, h1, h2, rfl⟩ := mem_bucketRow.mp ((sortByIdx_perm _).mem_iff.mp hx)
      exact ⟨hi, e, he, h1, rfl, h2⟩
    · rintro ⟨_, e, he, h1, h2, h3⟩
      exact ⟨⟨e.col, e.val⟩,
        (sortByIdx_perm _).mem_iff.mpr (mem_bucketRow.mpr ⟨e, he, h1, h3, rfl⟩), h2⟩
  · rename_i hi
    simp [hi]

/-! ### further facts about NewCSRMatrix -/

theorem sortedLe_insertByIdx {e : Entry K} {s : List (Entry K)}
    (hs : s.Pairwise (fun a b => a.idx ≤ b.idx)) :
    (insertByIdx e s).Pairwise (fun a b => a.idx ≤ b.idx) := by
  induction s with
  | nil => exact List.pairwise_singleton _ _
  | cons x xs ih =>
    unfold insertByIdx
    split
    · rename_i hlt
      refine List.pairwise_cons.mpr ⟨?_, hs⟩
      intro y hy
      rcases List.mem_cons.mp hy with rfl | hy
      · omega
      · have := (List.pairwise_cons.mp hs).1 y hy; omega
    · rename_i hlt
      refine List.pairwise_cons.mpr ⟨?_, ih (List.pairwise_cons.mp hs).2⟩
      intro y hy
      rcases List.mem_cons.mp ((insertByIdx_perm e xs).mem_iff.mp hy) with rfl | hy
      · omega
      · exact (List.pairwise_cons.mp hs).1 y hy

/-- `sortByIdx` always returns an index-sorted list (weakly, when keys repeat) -/
theorem sortedLe_sortByIdx (l : List (Entry K)) :
    (sortByIdx l).Pairwise (fun a b => a.idx ≤ b.idx) := by
  induction l with
  | nil => exact List.Pairwise.nil
  | cons e l ih => rw [sortByIdx_cons]; exact sortedLe_insertByIdx ih

theorem newCSR_row_perm (rows cols : Nat) (es : List (Coo K)) (inc : Bool) {i : Nat}
    (hi : i < rows) :
    ((CSM.newCSR rows cols es inc).rows.getD i []).Perm (bucketRow inc es i) := by
  rw [newCSR_getD, if_pos hi]
  exact sortByIdx_perm _

theorem newCSR_row_sortedLe (rows cols : Nat) (es : List (Coo K)) (inc : Bool) (i : Nat) :
    ((CSM.newCSR rows cols es inc).rows.getD i []).Pairwise (fun a b => a.idx ≤ b.idx) := by
  rw [newCSR_getD]
  split
  · exact sortedLe_sortByIdx _
  · exact List.Pairwise.nil

theorem newCSR_no_zero (rows cols : Nat) (es : List (Coo K)) (i : Nat) :
    ∀ x ∈ (CSM.newCSR rows cols es false).rows.getD i [], x.val ≠ 0 := by
  intro x hx
  rw [newCSR_getD] at hx
  split at hx
  · obtain ⟨e, _, _, hk, rfl⟩ := mem_bucketRow.mp ((sortByIdx_perm _).mem_iff.mp hx)
    simpa using hk
  · simp at hx

end Mx

end EtVerif
