/-
  Helper lemmas for the matrix part of Model/Sparse.lean (matrix.go): dense view `denRows`,
  well-formedness `WFM`, `HiddenClean`, resize, row-wise merge, transpose, NewCSRMatrix.
-/
import EtVerif.Proofs.Merge

namespace EtVerif
open Scalar

variable {K : Type} [Field K] [LinearOrder K]

set_option linter.unusedSectionVars false

/-- dense value of cell `(i, j)` of a row table (rows beyond the table are empty) -/
def denRows (rows : List (Row K)) (i j : Nat) : K := denE (rows.getD i []) j

/-- well-formed matrix: one row per major index, every row strictly sorted with all stored
    indices below the minor dimension -/
def WFM (M : CSM K) : Prop := M.rows.length = M.major ∧ ∀ r ∈ M.rows, WF M.minor r

/-- the invisible part `Entries[len:cap]` of the row table holds only nil rows -/
def HiddenClean (M : CSM K) : Prop := ∀ r ∈ M.hidden, r = []

/-! Helper lemmas live in `EtVerif.Mx`. -/
namespace Mx
open Mg

/-! ### row access -/

theorem getD_eq (l : List (Row K)) (i : Nat) : l.getD i [] = (l[i]?).getD [] :=
  List.getD_eq_getElem?_getD

theorem getD_of_ge {l : List (Row K)} {i : Nat} (h : l.length ≤ i) : l.getD i [] = [] := by
  rw [getD_eq, List.getElem?_eq_none_iff.mpr h]; rfl

theorem getD_mem_or (l : List (Row K)) (i : Nat) : l.getD i [] ∈ l ∨ l.getD i [] = [] := by
  rw [getD_eq]
  cases h : l[i]? with
  | none => right; rfl
  | some r => left; exact List.mem_iff_getElem?.mpr ⟨i, h⟩

theorem mem_iff_getD {l : List (Row K)} {r : Row K} :
    r ∈ l ↔ ∃ i, i < l.length ∧ l.getD i [] = r := by
  constructor
  · intro h
    obtain ⟨i, hi⟩ := List.mem_iff_getElem?.mp h
    refine ⟨i, ?_, by rw [getD_eq, hi]; rfl⟩
    by_contra hlt
    rw [List.getElem?_eq_none_iff.mpr (by omega)] at hi
    cases hi
  · rintro ⟨i, hi, rfl⟩
    rw [getD_eq, List.getElem?_eq_getElem hi]
    exact List.getElem_mem hi

/-- all rows well-formed ⇔ every `getD` row well-formed -/
theorem rows_wf_iff {d : Nat} {l : List (Row K)} :
    (∀ r ∈ l, WF d r) ↔ ∀ i, WF d (l.getD i []) := by
  constructor
  · intro h i
    rcases getD_mem_or l i with hm | he
    · exact h _ hm
    · rw [he]; exact wf_nil d
  · intro h r hr
    obtain ⟨i, _, rfl⟩ := mem_iff_getD.mp hr
    exact h i

theorem WFM.row {M : CSM K} (h : WFM M) (i : Nat) : WF M.minor (M.rows.getD i []) :=
  rows_wf_iff.mp h.2 i

theorem denRows_of_ge_major {M : CSM K} (h : WFM M) {i : Nat} (hi : M.major ≤ i) (j : Nat) :
    denRows M.rows i j = 0 := by
  unfold denRows
  rw [getD_of_ge (by rw [h.1]; exact hi)]; rfl

theorem denRows_of_ge_minor {M : CSM K} (h : WFM M) (i : Nat) {j : Nat} (hj : M.minor ≤ j) :
    denRows M.rows i j = 0 :=
  denE_of_ge_dim (WFM.row h i) hj

theorem getD_append_clean {l h : List (Row K)} (hc : ∀ r ∈ h, r = []) (i : Nat) :
    (l ++ h).getD i [] = l.getD i [] := by
  rw [getD_eq, getD_eq, List.getElem?_append]
  by_cases hi : i < l.length
  · rw [if_pos hi]
  · rw [if_neg hi, List.getElem?_eq_none_iff.mpr (by omega : l.length ≤ i)]
    cases hh : h[i - l.length]? with
    | none => rfl
    | some r => exact hc r (List.mem_iff_getElem?.mpr ⟨_, hh⟩)

theorem getD_take (l : List (Row K)) (d i : Nat) :
    (l.take d).getD i [] = if i < d then l.getD i [] else [] := by
  rw [getD_eq, getD_eq, List.getElem?_take]
  split <;> rfl

/-! ### SetMajorDim -/

@[simp] theorem setMajorDim_major (M : CSM K) (d : Nat) : (M.setMajorDim d).major = d := by
  unfold CSM.setMajorDim; simp only; split <;> rfl

@[simp] theorem setMajorDim_minor (M : CSM K) (d : Nat) : (M.setMajorDim d).minor = M.minor := by
  unfold CSM.setMajorDim; simp only; split <;> rfl

theorem setMajorDim_length (M : CSM K) (d : Nat) : (M.setMajorDim d).rows.length = d := by
  unfold CSM.setMajorDim; simp only
  split
  · simp only [List.length_append, List.length_replicate]; omega
  · simp only [List.length_take, List.length_append]; omega

theorem setMajorDim_hiddenClean {M : CSM K} (hc : HiddenClean M) (d : Nat) :
    HiddenClean (M.setMajorDim d) := by
  unfold CSM.setMajorDim HiddenClean; simp only
  split
  · intro r hr; simp at hr
  · intro r hr
    simp only [List.mem_map] at hr
    obtain ⟨⟨x, k⟩, hx, rfl⟩ := hr
    simp only
    split
    · rfl
    · rename_i hlt
      have hx' := List.mk_mem_zipIdx_iff_getElem?.mp hx
      rw [List.getElem?_drop, List.getElem?_append, if_neg hlt] at hx'
      exact hc x (List.mem_iff_getElem?.mpr ⟨_, hx'⟩)

theorem setMajorDim_getD {M : CSM K} (hc : HiddenClean M) (d i : Nat) :
    (M.setMajorDim d).rows.getD i [] = if i < d then M.rows.getD i [] else [] := by
  unfold CSM.setMajorDim; simp only
  split
  · rename_i hcap
    have : (M.rows ++ List.replicate (d - M.rows.length) ([] : Row K)).getD i [] =
        M.rows.getD i [] :=
      getD_append_clean (fun r hr => (List.mem_replicate.mp hr).2) i
    rw [this]
    by_cases hi : i < d
    · rw [if_pos hi]
    · rw [if_neg hi]; exact getD_of_ge (by omega)
  · rw [getD_take, getD_append_clean hc]

theorem setMajorDim_rows_wf {M : CSM K} (hc : HiddenClean M) {c : Nat}
    (h : ∀ r ∈ M.rows, WF c r) (d : Nat) : ∀ r ∈ (M.setMajorDim d).rows, WF c r := by
  rw [rows_wf_iff] at h ⊢
  intro i
  rw [setMajorDim_getD hc]
  split
  · exact h i
  · exact wf_nil c

theorem setMajorDim_wfm {M : CSM K} (hw : WFM M) (hc : HiddenClean M) (d : Nat) :
    WFM (M.setMajorDim d) :=
  ⟨by rw [setMajorDim_length, setMajorDim_major],
   by rw [setMajorDim_minor]; exact setMajorDim_rows_wf hc hw.2 d⟩

theorem setMajorDim_den {M : CSM K} (hc : HiddenClean M) (d i j : Nat) :
    denRows (M.setMajorDim d).rows i j = if i < d then denRows M.rows i j else 0 := by
  unfold denRows
  rw [setMajorDim_getD hc]
  split <;> rfl

/-- growing the major dimension does not change any visible row -/
theorem setMajorDim_getD_of_le {M : CSM K} (hw : M.rows.length = M.major) (hc : HiddenClean M)
    {d : Nat} (hd : M.major ≤ d) (i : Nat) :
    (M.setMajorDim d).rows.getD i [] = M.rows.getD i [] := by
  rw [setMajorDim_getD hc]
  split
  · rfl
  · exact (getD_of_ge (by omega)).symm

/-! ### SetMinorDim -/

@[simp] theorem setMinorDim_major (M : CSM K) (d : Nat) : (M.setMinorDim d).major = M.major := by
  unfold CSM.setMinorDim; split <;> rfl

@[simp] theorem setMinorDim_minor (M : CSM K) (d : Nat) : (M.setMinorDim d).minor = d := by
  unfold CSM.setMinorDim; split <;> rfl

@[simp] theorem setMinorDim_hidden (M : CSM K) (d : Nat) :
    (M.setMinorDim d).hidden = M.hidden := by
  unfold CSM.setMinorDim; split <;> rfl

theorem setMinorDim_length (M : CSM K) (d : Nat) :
    (M.setMinorDim d).rows.length = M.rows.length := by
  unfold CSM.setMinorDim; split <;> simp

theorem setMinorDim_hiddenClean {M : CSM K} (hc : HiddenClean M) (d : Nat) :
    HiddenClean (M.setMinorDim d) := by
  unfold HiddenClean; rw [setMinorDim_hidden]; exact hc

theorem setMinorDim_getD (M : CSM K) (d i : Nat) :
    (M.setMinorDim d).rows.getD i [] =
      if d < M.minor then (M.rows.getD i []).takeWhile (·.idx < d) else M.rows.getD i [] := by
  unfold CSM.setMinorDim
  split
  · simp only [getD_eq, List.getElem?_map]
    cases M.rows[i]? <;> rfl
  · rfl

theorem setMinorDim_getD_of_le {M : CSM K} (d : Nat) (hd : M.minor ≤ d) (i : Nat) :
    (M.setMinorDim d).rows.getD i [] = M.rows.getD i [] := by
  rw [setMinorDim_getD, if_neg (by omega)]

theorem setMinorDim_row_wf {M : CSM K} (h : ∀ r ∈ M.rows, WF M.minor r) (d i : Nat) :
    WF d ((M.setMinorDim d).rows.getD i []) := by
  have hi := rows_wf_iff.mp h i
  rw [setMinorDim_getD]
  split
  · exact wf_takeWhile hi.1
  · exact wf_mono hi (by omega)

theorem setMinorDim_wfm {M : CSM K} (hw : WFM M) (d : Nat) : WFM (M.setMinorDim d) :=
  ⟨by rw [setMinorDim_length, setMinorDim_major]; exact hw.1,
   by rw [setMinorDim_minor]; exact rows_wf_iff.mpr (setMinorDim_row_wf hw.2 d)⟩

theorem setMinorDim_den {M : CSM K} (h : ∀ r ∈ M.rows, WF M.minor r) (d i j : Nat) :
    denRows (M.setMinorDim d).rows i j = if j < d then denRows M.rows i j else 0 := by
  have hi := rows_wf_iff.mp h i
  unfold denRows
  rw [setMinorDim_getD]
  split
  · exact den_takeWhile hi.1 j
  · by_cases hj : j < d
    · rw [if_pos hj]
    · rw [if_neg hj]; exact denE_of_ge_dim hi (by omega)

/-! ### SetDim -/

theorem setDim_wfm {M : CSM K} (hw : WFM M) (hc : HiddenClean M) (r c : Nat) :
    WFM (M.setDim r c) :=
  setMinorDim_wfm (setMajorDim_wfm hw hc r) c

theorem setDim_hiddenClean {M : CSM K} (hc : HiddenClean M) (r c : Nat) :
    HiddenClean (M.setDim r c) :=
  setMinorDim_hiddenClean (setMajorDim_hiddenClean hc r) c

theorem setDim_den {M : CSM K} (hw : WFM M) (hc : HiddenClean M) (r c i j : Nat) :
    denRows (M.setDim r c).rows i j = if i < r ∧ j < c then denRows M.rows i j else 0 := by
  unfold CSM.setDim
  rw [setMinorDim_den (setMajorDim_wfm hw hc r).2, setMajorDim_den hc]
  by_cases hi : i < r <;> by_cases hj : j < c <;> simp [hi, hj]

/-! ### mergeRows -/

theorem mergeSpan_nil_right (s : List (Entry K)) : mergeSpan s [] = s := by
  rw [mergeSpan]

theorem mergeRows_length (t1 t2 : List (Row K)) : (mergeRows t1 t2).length = t1.length := by
  fun_induction mergeRows t1 t2 <;> simp_all

theorem mergeRows_getD {t1 t2 : List (Row K)} (h : t2.length ≤ t1.length) (i : Nat) :
    (mergeRows t1 t2).getD i [] = mergeSpan (t1.getD i []) (t2.getD i []) := by
  fun_induction mergeRows t1 t2 generalizing i with
  | case1 r1 t1 r2 t2 ih =>
    cases i with
    | zero => rfl
    | succ i =>
      simp only [List.getD_cons_succ]
      exact ih (by simpa using h) i
  | case2 t1 => simp [mergeSpan_nil_right]
  | case3 t2 hne =>
    cases t2 with
    | nil => simp [mergeSpan_nil_right]
    | cons _ _ => simp at h

/-! ### Transpose -/

/-- contribution of source row `r` (row number `i`) to transposed row `j` -/
def piece (i : Nat) (r : Row K) (j : Nat) : Row K :=
  (r.filter (fun e => e.idx = j)).map (fun e => ⟨i, e.val⟩)

/-- transposed row `j` built from source rows numbered `k, k+1, …` -/
def col (rows : List (Row K)) (k j : Nat) : Row K :=
  (rows.zipIdx k).flatMap (fun p => piece p.2 p.1 j)

@[simp] theorem piece_nil (i j : Nat) : piece i ([] : Row K) j = [] := rfl

theorem piece_cons (i : Nat) (e : Entry K) (r : Row K) (j : Nat) :
    piece i (e :: r) j = (if e.idx = j then [⟨i, e.val⟩] else []) ++ piece i r j := by
  unfold piece
  by_cases h : e.idx = j <;> simp [List.filter_cons, h]

@[simp] theorem col_nil (k j : Nat) : col ([] : List (Row K)) k j = [] := rfl

theorem col_cons (r : Row K) (rs : List (Row K)) (k j : Nat) :
    col (r :: rs) k j = piece k r j ++ col rs (k + 1) j := by
  simp [col, List.zipIdx_cons, List.flatMap_cons]

theorem scatterRow_getElem? (t : List (Row K)) (i : Nat) (r : Row K) (j : Nat) :
    (scatterRow t i r)[j]? = (t[j]?).map (· ++ piece i r j) := by
  unfold scatterRow
  induction r generalizing t with
  | nil => simp
  | cons e r ih =>
    rw [List.foldl_cons, ih, List.getElem?_modify, piece_cons]
    cases t[j]? with
    | none => rfl
    | some a =>
      by_cases h : e.idx = j <;> simp [h]

theorem fold_scatter_getElem? (f : List (Row K) → Row K × Nat → List (Row K))
    (hf : ∀ t r i, f t (r, i) = scatterRow t i r) (rows : List (Row K)) (k : Nat)
    (t : List (Row K)) (j : Nat) :
    ((rows.zipIdx k).foldl f t)[j]? = (t[j]?).map (· ++ col rows k j) := by
  induction rows generalizing k t with
  | nil => simp
  | cons r rs ih =>
    rw [List.zipIdx_cons, List.foldl_cons, hf, ih, scatterRow_getElem?, col_cons]
    cases t[j]? <;> simp

theorem transpose_getElem? (M : CSM K) (j : Nat) :
    M.transpose.rows[j]? = if j < M.minor then some (col M.rows 0 j) else none := by
  unfold CSM.transpose
  simp only
  rw [fold_scatter_getElem? _ (fun _ _ _ => rfl), List.getElem?_replicate]
  split <;> simp

theorem transpose_getD (M : CSM K) (j : Nat) :
    M.transpose.rows.getD j [] = if j < M.minor then col M.rows 0 j else [] := by
  rw [getD_eq, transpose_getElem?]
  split <;> rfl

theorem transpose_length (M : CSM K) : M.transpose.rows.length = M.minor := by
  apply Nat.le_antisymm
  · apply List.getElem?_eq_none_iff.mp
    rw [transpose_getElem?, if_neg (Nat.lt_irrefl _)]
  · by_contra hlt
    have hlt : M.transpose.rows.length < M.minor := by omega
    have h1 := transpose_getElem? M M.transpose.rows.length
    rw [if_pos hlt, List.getElem?_eq_none_iff.mpr (Nat.le_refl _)] at h1
    cases h1

@[simp] theorem transpose_major (M : CSM K) : M.transpose.major = M.minor := rfl
@[simp] theorem transpose_minor (M : CSM K) : M.transpose.minor = M.major := rfl
@[simp] theorem transpose_hidden (M : CSM K) : M.transpose.hidden = [] := rfl

theorem mem_piece {i j : Nat} {r : Row K} {x : Entry K} :
    x ∈ piece i r j ↔ x.idx = i ∧ (⟨j, x.val⟩ : Entry K) ∈ r := by
  unfold piece
  simp only [List.mem_map, List.mem_filter, decide_eq_true_eq]
  constructor
  · rintro ⟨e, ⟨he, rfl⟩, rfl⟩
    exact ⟨rfl, he⟩
  · rintro ⟨rfl, h⟩
    exact ⟨⟨j, x.val⟩, ⟨h, rfl⟩, rfl⟩

theorem mem_col {rows : List (Row K)} {k j : Nat} {x : Entry K} :
    x ∈ col rows k j ↔ k ≤ x.idx ∧ (⟨j, x.val⟩ : Entry K) ∈ rows.getD (x.idx - k) [] := by
  induction rows generalizing k with
  | nil => simp
  | cons r rs ih =>
    rw [col_cons, List.mem_append, mem_piece, ih]
    constructor
    · rintro (⟨h1, h2⟩ | ⟨h1, h2⟩)
      · refine ⟨by omega, ?_⟩
        have : x.idx - k = 0 := by omega
        rw [this]; exact h2
      · refine ⟨by omega, ?_⟩
        have : x.idx - k = (x.idx - (k + 1)) + 1 := by omega
        rw [this]; exact h2
    · rintro ⟨h1, h2⟩
      by_cases hk : x.idx = k
      · left
        have : x.idx - k = 0 := by omega
        rw [this] at h2
        exact ⟨hk, h2⟩
      · right
        have : x.idx - k = (x.idx - (k + 1)) + 1 := by omega
        rw [this] at h2
        exact ⟨by omega, h2⟩

theorem filter_idx_cases {r : Row K} (h : Sorted r) (j : Nat) :
    r.filter (fun e => e.idx = j) = [] ∨ ∃ e, r.filter (fun e => e.idx = j) = [e] := by
  induction r with
  | nil => left; rfl
  | cons a r ih =>
    by_cases ha : a.idx = j
    · right
      refine ⟨a, ?_⟩
      rw [List.filter_cons_of_pos (by simpa using ha)]
      congr 1
      apply List.filter_eq_nil_iff.mpr
      intro e he
      have := h.head_lt e he
      simp only [decide_eq_true_eq]; omega
    · rw [List.filter_cons_of_neg (by simpa using ha)]
      exact ih h.tail

theorem sorted_piece {r : Row K} (h : Sorted r) (i j : Nat) : Sorted (piece i r j) := by
  unfold piece
  rcases filter_idx_cases h j with h0 | ⟨e, he⟩
  · rw [h0]; exact sorted_nil
  · rw [he]; exact List.pairwise_singleton _ _

theorem sorted_col {rows : List (Row K)} (h : ∀ r ∈ rows, Sorted r) (k j : Nat) :
    Sorted (col rows k j) := by
  induction rows generalizing k with
  | nil => exact sorted_nil
  | cons r rs ih =>
    rw [col_cons]
    refine List.pairwise_append.mpr ⟨sorted_piece (h r (by simp)) k j,
      ih (fun r' hr' => h r' (by simp [hr'])) (k + 1), ?_⟩
    intro a ha b hb
    have h1 := (mem_piece.mp ha).1
    have h2 := (mem_col.mp hb).1
    omega

theorem idx_lt_of_mem_col {rows : List (Row K)} {j : Nat} {x : Entry K}
    (hx : x ∈ col rows 0 j) : x.idx < rows.length := by
  have h := (mem_col.mp hx).2
  by_contra hge
  rw [getD_of_ge (by omega)] at h
  simp at h

theorem wf_col {rows : List (Row K)} (h : ∀ r ∈ rows, Sorted r) (j : Nat) :
    WF rows.length (col rows 0 j) :=
  ⟨sorted_col h 0 j, fun _ hx => idx_lt_of_mem_col hx⟩

theorem transpose_wfm {M : CSM K} (hw : WFM M) : WFM M.transpose := by
  refine ⟨transpose_length M, ?_⟩
  rw [rows_wf_iff]
  intro j
  rw [transpose_getD, transpose_minor, ← hw.1]
  split
  · exact wf_col (fun r hr => (hw.2 r hr).1) j
  · exact wf_nil _

theorem mem_transpose_row {M : CSM K} {j : Nat} {x : Entry K} :
    x ∈ M.transpose.rows.getD j [] ↔
      j < M.minor ∧ (⟨j, x.val⟩ : Entry K) ∈ M.rows.getD x.idx [] := by
  rw [transpose_getD]
  split
  · rename_i hj
    rw [mem_col]
    simp [hj]
  · rename_i hj
    simp [hj]

theorem transpose_den {M : CSM K} (hw : WFM M) (i j : Nat) :
    denRows M.transpose.rows j i = denRows M.rows i j := by
  have hwt := transpose_wfm hw
  unfold denRows
  by_cases h : ∃ e ∈ M.rows.getD i [], e.idx = j
  · obtain ⟨e, he, rfl⟩ := h
    have hlt : e.idx < M.minor := (WFM.row hw i).2 e he
    have hm : (⟨i, e.val⟩ : Entry K) ∈ M.transpose.rows.getD e.idx [] :=
      mem_transpose_row.mpr ⟨hlt, he⟩
    rw [denE_of_mem (WFM.row hw i).1 he]
    exact denE_of_mem (WFM.row hwt e.idx).1 hm
  · rw [denE_of_not_mem h]
    apply denE_of_not_mem
    rintro ⟨x, hx, rfl⟩
    exact h ⟨_, (mem_transpose_row.mp hx).2, rfl⟩

theorem transpose_transpose_rows {M : CSM K} (hw : WFM M) :
    M.transpose.transpose.rows = M.rows := by
  have hwt := transpose_wfm hw
  have hwtt := transpose_wfm hwt
  apply List.ext_getElem?
  intro i
  by_cases hi : i < M.major
  · have h1 : i < M.transpose.transpose.rows.length := by
      rw [hwtt.1]; exact hi
    have h2 : i < M.rows.length := by rw [hw.1]; exact hi
    rw [List.getElem?_eq_getElem h1, List.getElem?_eq_getElem h2]
    congr 1
    have e1 : M.transpose.transpose.rows[i] = M.transpose.transpose.rows.getD i [] := by
      rw [getD_eq, List.getElem?_eq_getElem h1]; rfl
    have e2 : M.rows[i] = M.rows.getD i [] := by
      rw [getD_eq, List.getElem?_eq_getElem h2]; rfl
    rw [e1, e2]
    apply sorted_ext (WFM.row hwtt i).1 (WFM.row hw i).1
    intro x
    rw [mem_transpose_row, mem_transpose_row]
    constructor
    · rintro ⟨_, _, h⟩; exact h
    · intro h
      exact ⟨hi, (WFM.row hw i).2 x h, h⟩
  · rw [List.getElem?_eq_none_iff.mpr (by rw [hwtt.1]; exact Nat.le_of_not_lt hi),
      List.getElem?_eq_none_iff.mpr (by rw [hw.1]; exact Nat.le_of_not_lt hi)]

end Mx

end EtVerif
