/-
  Refinement of the translated `basic.ExtractDistrust` (Gen/Translated.lean, regenerated from /repo)
  to the hand-written model `extractDistrust` (Model/Basic.lean).
-/
import EtVerif.Proofs.TrHelpers
import EtVerif.Proofs.TrMatSmall
namespace EtVerif.Tr
open EtVerif EtVerif.GoSem EtVerif.Gen Scalar
variable {α : Type} [Scalar α]

/-! ### ExtractDistrust -/

/-- Go `entry.Value >= 0`. -/
def gkeep (e : GEntry α) : Bool := Scalar.le (Scalar.zero : α) e.Value
/-- Go `entry.Value = -entry.Value`. -/
def gneg (e : GEntry α) : GEntry α := { e with Value := Scalar.neg e.Value }
/-- the kept (non-negative) part of a Go row. -/
def gpos (r : List (GEntry α)) : List (GEntry α) := r.filter gkeep
/-- the distrust part of a Go row, sign reversed. -/
def gnegs (r : List (GEntry α)) : List (GEntry α) := (r.filter (fun e => !gkeep e)).map gneg

theorem gpos_toGs (r : List (Entry α)) : gpos (toGs r) = toGs (splitRow r).1 := by
  induction r with
  | nil => rfl
  | cons e r ih =>
    simp only [gpos, splitRow, toGs_cons] at ih ⊢
    cases h : Scalar.le (Scalar.zero : α) e.val <;> simp [gkeep, ge, h, ih]

theorem gnegs_toGs (r : List (Entry α)) : gnegs (toGs r) = toGs (splitRow r).2 := by
  induction r with
  | nil => rfl
  | cons e r ih =>
    have ih' : gnegs (toGs r) = toGs ((r.filter (fun e => !ge e.val zero)).map fun e => ⟨e.idx, neg e.val⟩) := ih
    cases h : Scalar.le (Scalar.zero : α) e.val
    · have h1 : gnegs (toGs (e :: r)) = gneg (toG e) :: gnegs (toGs r) := by
        simp [gnegs, gkeep, h]
      rw [h1, ih']
      simp [splitRow, ge, h, gneg, toG]
    · have h1 : gnegs (toGs (e :: r)) = gnegs (toGs r) := by
        simp [gnegs, gkeep, h]
      rw [h1, ih']
      simp [splitRow, ge, h]

/-- inner body, negative entry: append its negation to the distrust row. -/
theorem split_body_neg (fuel : Nat) (s : ExtractDistrust.St α) (pre rest : List (GEntry α)) (r : GEntry α)
    (he : s.trustRow = pre ++ r :: rest) (hi : s.i = (pre.length : Int)) (hk : gkeep r = false) :
    ExtractDistrust.loop2_body fuel s =
      .ok ({ s with entry := gneg r, distrustRow := s.distrustRow ++ [gneg r] }, .next) := by
  have h1 : goIdx s.trustRow s.i = .ok r := goIdx_mid _ _ pre r rest he hi
  have h2 : Scalar.le (Scalar.zero : α) r.Value = false := hk
  simp only [ExtractDistrust.loop2_body, Stm.seq, Stm.set, Stm.ite, bind, Except.bind, pure, Except.pure,
    h1, h2, gneg]

/-- inner body, non-negative entry, nothing moved out so far: the entry is stored onto itself. -/
theorem split_body_keep (fuel : Nat) (s : ExtractDistrust.St α) (pre rest : List (GEntry α)) (r : GEntry α)
    (he : s.trustRow = pre ++ r :: rest) (hi : s.i = (pre.length : Int)) (hk : gkeep r = true)
    (h0 : s.distrustRow = []) :
    ExtractDistrust.loop2_body fuel s =
      .ok ({ s with entry := r, trustRow := pre ++ r :: rest }, .next) := by
  have h1 : goIdx s.trustRow s.i = .ok r := goIdx_mid _ _ pre r rest he hi
  have h2 : Scalar.le (Scalar.zero : α) r.Value = true := hk
  have h3 : goSet s.trustRow (s.i - goLen s.distrustRow) r = .ok (pre ++ r :: rest) :=
    goSet_mid _ _ pre r r rest he (by rw [h0, hi]; simp)
  simp only [ExtractDistrust.loop2_body, Stm.seq, Stm.set, Stm.ite, bind, Except.bind, pure, Except.pure,
    h1, h2, h3]

/-- inner body, non-negative entry, `z > 0` entries moved out: copied `z` slots to the left. -/
theorem split_body_shift (fuel : Nat) (s : ExtractDistrust.St α) (kept junk rest : List (GEntry α))
    (j r : GEntry α)
    (he : s.trustRow = kept ++ j :: junk ++ r :: rest) (hi : s.i = ((kept ++ j :: junk).length : Int))
    (hk : gkeep r = true) (h0 : s.distrustRow.length = (j :: junk).length) :
    ExtractDistrust.loop2_body fuel s =
      .ok ({ s with entry := r, trustRow := kept ++ r :: junk ++ r :: rest }, .next) := by
  have h1 : goIdx s.trustRow s.i = .ok r :=
    goIdx_mid _ _ (kept ++ j :: junk) r rest (by simpa using he) hi
  have h2 : Scalar.le (Scalar.zero : α) r.Value = true := hk
  have h3 : goSet s.trustRow (s.i - goLen s.distrustRow) r = .ok (kept ++ r :: junk ++ r :: rest) := by
    have := goSet_mid s.trustRow (s.i - goLen s.distrustRow) kept j r (junk ++ r :: rest)
      (by simpa using he) (by rw [hi, goLen_eq, h0]; simp)
    simpa using this
  simp only [ExtractDistrust.loop2_body, Stm.seq, Stm.set, Stm.ite, bind, Except.bind, pure, Except.pure,
    h1, h2, h3]

/-- the inner loop: `kept` = compacted non-negative prefix, `junk` = stale slots (as many as entries moved to
    the distrust row), `rest` = untouched suffix; of the snapshot `xs` only the length matters. -/
theorem split_loop (fuel : Nat) (xs : List (GEntry α)) :
    ∀ (kept junk rest : List (GEntry α)) (s : ExtractDistrust.St α),
      xs.length = rest.length → s.trustRow = kept ++ junk ++ rest → s.distrustRow.length = junk.length →
      ∃ s' junk', Stm.range 2 (ExtractDistrust.loop2_bind fuel) (ExtractDistrust.loop2_body (α := α) fuel)
            ((kept ++ junk).length : Int) xs s = .ok (s', .next) ∧
        s'.trustRow = kept ++ gpos rest ++ junk' ∧ s'.distrustRow = s.distrustRow ++ gnegs rest ∧
        junk'.length = s'.distrustRow.length ∧
        s'.localTrust = s.localTrust ∧ s'.distrust = s.distrust ∧ s'.truster = s.truster ∧ s'.n = s.n := by
  induction xs with
  | nil =>
    intro kept junk rest s hl he h0
    have : rest = [] := by cases rest with
      | nil => rfl
      | cons _ _ => simp at hl
    subst this
    exact ⟨s, junk, rfl, by simpa [gpos] using he, by simp [gnegs], h0.symm, rfl, rfl, rfl, rfl⟩
  | cons x xs ih =>
    intro kept junk rest s hl he h0
    cases rest with
    | nil => simp at hl
    | cons r rest =>
      have hl' : xs.length = rest.length := by simpa using hl
      cases hk : gkeep r with
      | false =>
        have hp : gpos (r :: rest) = gpos rest := by simp [gpos, hk]
        have hn : gnegs (r :: rest) = gneg r :: gnegs rest := by simp [gnegs, hk]
        have hb := split_body_neg fuel { s with i := ((kept ++ junk).length : Int) } (kept ++ junk) rest r he rfl hk
        obtain ⟨s', junk', h1, h2, h3, h4, h5, h6, h7, h8⟩ := ih kept (junk ++ [r]) rest
          { s with i := ((kept ++ junk).length : Int), entry := gneg r, distrustRow := s.distrustRow ++ [gneg r] }
          hl' (by simp [he]) (by simp [h0])
        refine ⟨s', junk', ?_, ?_, ?_, h4, h5, h6, h7, h8⟩
        · rw [range_cons_next hb]
          have : ((kept ++ (junk ++ [r])).length : Int) = ((kept ++ junk).length : Int) + 1 := by
            simp; omega
          rw [this] at h1
          exact h1
        · rw [hp]; exact h2
        · rw [hn, h3]; simp
      | true =>
        have hp : gpos (r :: rest) = r :: gpos rest := by simp [gpos, hk]
        have hn : gnegs (r :: rest) = gnegs rest := by simp [gnegs, hk]
        cases junk with
        | nil =>
          have hd0 : s.distrustRow = [] := List.length_eq_zero_iff.mp (by simpa using h0)
          have hb := split_body_keep fuel { s with i := ((kept ++ []).length : Int) } (kept ++ []) rest r he rfl hk hd0
          obtain ⟨s', junk', h1, h2, h3, h4, h5, h6, h7, h8⟩ := ih (kept ++ [r]) [] rest
            { s with i := ((kept ++ []).length : Int), entry := r, trustRow := kept ++ [] ++ r :: rest }
            hl' (by simp) (by simpa using h0)
          refine ⟨s', junk', ?_, ?_, ?_, h4, h5, h6, h7, h8⟩
          · rw [range_cons_next hb]
            have : ((kept ++ [r] ++ []).length : Int) = ((kept ++ []).length : Int) + 1 := by simp
            rw [this] at h1
            exact h1
          · rw [hp]; simpa using h2
          · rw [hn]; exact h3
        | cons j junk =>
          have hb := split_body_shift fuel { s with i := ((kept ++ j :: junk).length : Int) } kept junk rest j r
            he rfl hk h0
          obtain ⟨s', junk', h1, h2, h3, h4, h5, h6, h7, h8⟩ := ih (kept ++ [r]) (junk ++ [r]) rest
            { s with i := ((kept ++ j :: junk).length : Int), entry := r,
                     trustRow := kept ++ r :: junk ++ r :: rest }
            hl' (by simp) (by simpa using h0)
          refine ⟨s', junk', ?_, ?_, ?_, h4, h5, h6, h7, h8⟩
          · rw [range_cons_next hb]
            have : ((kept ++ [r] ++ (junk ++ [r])).length : Int) = ((kept ++ j :: junk).length : Int) + 1 := by
              simp; omega
            rw [this] at h1
            exact h1
          · rw [hp]; simpa using h2
          · rw [hn]; exact h3

/-- one iteration of the outer loop: row `done.length` of both matrices is replaced by its part. -/
theorem extract_body (fuel : Nat) (s : ExtractDistrust.St α) (done rem ddone drem : List (List (GEntry α)))
    (r : List (GEntry α))
    (hl : s.localTrust.Entries = done ++ r :: rem) (hd : s.distrust.Entries = ddone ++ [] :: drem)
    (ht : s.truster = (done.length : Int)) (hdl : ddone.length = done.length) :
    ∃ s', ExtractDistrust.loop1_body fuel s = .ok (s', .next) ∧
      s'.localTrust = { s.localTrust with Entries := done ++ gpos r :: rem } ∧
      s'.distrust = { s.distrust with Entries := ddone ++ gnegs r :: drem } ∧
      s'.truster = s.truster ∧ s'.n = s.n := by
  have ht' : s.truster = (ddone.length : Int) := by rw [ht, hdl]
  have g1 : goIdx s.localTrust.Entries s.truster = .ok r := goIdx_mid _ _ done r rem hl ht
  have g2 : goIdx s.distrust.Entries s.truster = .ok [] := goIdx_mid _ _ ddone [] drem hd ht'
  obtain ⟨s2, junk', k1, k2, k3, k4, k5, k6, k7, k8⟩ := split_loop fuel r [] [] r
    { s with trustRow := r, distrustRow := [] } rfl rfl rfl
  simp only [List.append_nil, List.length_nil, Int.natCast_zero, List.nil_append] at k1 k2 k3
  have g3 : goSlice s2.trustRow 0 (goLen s2.trustRow - goLen s2.distrustRow) = .ok (gpos r) := by
    rw [k2, goLen_eq, goLen_eq, ← k4]
    simp [goSlice]
    omega
  have g4 : goSet s2.localTrust.Entries s2.truster (gpos r) = .ok (done ++ gpos r :: rem) :=
    goSet_mid _ _ done r _ rem (by rw [k5]; exact hl) (by rw [k7]; exact ht)
  have g5 : goSet s2.distrust.Entries s2.truster s2.distrustRow = .ok (ddone ++ gnegs r :: drem) := by
    rw [k3]
    exact goSet_mid _ _ ddone [] _ drem (by rw [k6]; exact hd) (by rw [k7]; exact ht')
  refine ⟨{ s2 with trustRow := gpos r,
                    localTrust := { s2.localTrust with Entries := done ++ gpos r :: rem },
                    distrust := { s2.distrust with Entries := ddone ++ gnegs r :: drem } }, ?_, ?_, ?_, k7, k8⟩
  · unfold ExtractDistrust.loop1_body
    rw [seq_next (s1 := { s with trustRow := r })]
    · rw [seq_next (s1 := { s with trustRow := r, distrustRow := [] })]
      · rw [seq_next (s1 := s2)]
        · rw [seq_next (s1 := { s2 with trustRow := gpos r })]
          · rw [seq_next (s1 := { s2 with trustRow := gpos r })]
            · rw [seq_next (s1 :=
                  { s2 with trustRow := gpos r,
                            localTrust := { s2.localTrust with Entries := done ++ gpos r :: rem } })]
              · simp only [Stm.set, bind, Except.bind, pure, Except.pure, g5]
              · simp only [Stm.set, bind, Except.bind, pure, Except.pure, g4]
            · cases hg : gpos r with
              | nil => simp [Stm.ite, Stm.set, pure, Except.pure]
              | cons a l =>
                rw [ite_false]
                · rfl
                · simp only [pure, Except.pure, goLen_eq, List.length_cons, Except.ok.injEq]
                  exact decide_eq_false (by omega)
          · simp only [Stm.set, bind, Except.bind, pure, Except.pure, g3]
        · simp only [Stm.rangeOver, ExtractDistrust.loop2_xs, pure, Except.pure]
          exact k1
      · simp only [Stm.set, bind, Except.bind, pure, Except.pure, g2]
    · simp only [Stm.set, bind, Except.bind, pure, Except.pure, g1]
  · simp [k5]
  · simp [k6]

/-- the outer loop: rows `done.length …` are still to be processed. -/
theorem extract_loop (fuel0 : Nat) :
    ∀ (rem : List (List (GEntry α))) (fuel : Nat) (done ddone : List (List (GEntry α)))
      (s : ExtractDistrust.St α),
      rem.length ≤ fuel → s.localTrust.Entries = done ++ rem →
      s.distrust.Entries = ddone ++ List.replicate rem.length [] →
      s.truster = (done.length : Int) → ddone.length = done.length →
      s.n = ((done.length + rem.length : Nat) : Int) →
      ∃ s', Stm.loop 1 (ExtractDistrust.loop1_cond fuel0) (ExtractDistrust.loop1_body (α := α) fuel0)
            (ExtractDistrust.loop1_post fuel0) fuel s = .ok (s', .next) ∧
        s'.localTrust = { s.localTrust with Entries := done ++ rem.map gpos } ∧
        s'.distrust = { s.distrust with Entries := ddone ++ rem.map gnegs } := by
  intro rem
  induction rem with
  | nil =>
    intro fuel done ddone s hf hl hd ht hdl hn
    refine ⟨s, ?_, ?_, ?_⟩
    · apply loop_exit
      simp [ExtractDistrust.loop1_cond, pure, Except.pure, ht, hn]
    · cases hs : s.localTrust; simp [hs] at hl ⊢; exact hl
    · cases hs : s.distrust; simp [hs] at hd ⊢; exact hd
  | cons r rem ih =>
    intro fuel done ddone s hf hl hd ht hdl hn
    cases fuel with
    | zero => simp at hf
    | succ f =>
      have hf' : rem.length ≤ f := by simpa using hf
      have hc : ExtractDistrust.loop1_cond fuel0 s = .ok true := by
        simp [ExtractDistrust.loop1_cond, pure, Except.pure, ht, hn]
        omega
      obtain ⟨s1, b1, b2, b3, b4, b5⟩ := extract_body fuel0 s done rem ddone (List.replicate rem.length []) r
        hl (by simpa [List.replicate_succ] using hd) ht hdl
      have hp : ExtractDistrust.loop1_post fuel0 s1 = .ok ({ s1 with truster := s1.truster + 1 }, .next) := by
        simp [ExtractDistrust.loop1_post, Stm.set, pure, Except.pure]
      obtain ⟨s', c1, c2, c3⟩ := ih f (done ++ [gpos r]) (ddone ++ [gnegs r])
        { s1 with truster := s1.truster + 1 } hf' (by simp [b2]) (by simp [b3])
        (by simp [b4, ht]) (by simp [hdl]) (by simp [b5, hn]; omega)
      refine ⟨s', ?_, ?_, ?_⟩
      · rw [loop_step hc b1 hp]
        exact c1
      · rw [c2]; simp [b2]
      · rw [c3]; simp [b3]

/-- Go `basic.ExtractDistrust` = the model's `extractDistrust`: every row partitioned by sign in place, the
    negative part sign-reversed into a fresh matrix; a non-square matrix is refused untouched. -/
theorem ExtractDistrust_refines (fuel : Nat) (m : CSM α) (hrows : m.rows.length = m.major)
    (hf : m.major ≤ fuel) :
    (Gen.ExtractDistrust fuel (toGM m)).map (fun r => (r.1.localTrust, r.2)) =
      (match extractDistrust m with
       | .ok (p, d) => .ok (toGM p, (toGM d, none))
       | .error _ => .ok (toGM m, ((GCSMatrix.zero : GCSMatrix α), some ⟨"ErrDimensionMismatch"⟩))) := by
  by_cases hsq : m.major = m.minor
  · obtain ⟨st, hD⟩ := CSMatrix_Dim_sq (toGM m) (by simp [hsq])
    obtain ⟨s', c1, c2, c3⟩ := extract_loop fuel (m.rows.map toGs) fuel [] []
      { localTrust := toGM m, n := (m.major : Int), err := none,
        distrust := ⟨(m.major : Int), (m.major : Int), List.replicate m.major []⟩,
        truster := 0, trustRow := [], distrustRow := [], i := 0, entry := GEntry.zero }
      (by simpa [hrows] using hf) (by simp) (by simp [hrows]) rfl rfl (by simp [hrows])
    simp only [Gen.ExtractDistrust, ExtractDistrust.body, Stm.run, Stm.seq, Stm.set, Stm.ite, Stm.ret, Stm.skip,
      bind, Except.bind, pure, Except.pure, Except.map, hD, toGM_MajorDim, goMake_natCast, Option.isNone_none,
      Bool.not_true, c1]
    simp [c2, c3, extractDistrust, CSM.dim, hsq, toGM, gpos_toGs, gnegs_toGs, Function.comp_def]
  · obtain ⟨st, hD⟩ := CSMatrix_Dim_nsq (toGM m) (by simp; omega)
    simp [Gen.ExtractDistrust, ExtractDistrust.body, Stm.run, Stm.seq, Stm.set, Stm.ite, Stm.ret,
      bind, Except.bind, pure, Except.pure, Except.map, hD, extractDistrust, CSM.dim, hsq]

end EtVerif.Tr
