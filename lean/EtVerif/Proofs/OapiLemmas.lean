/-
  Helper definitions and lemmas for properties C03 (compute endpoints) and C13 (stored local
  trust) about Model/Oapi.lean.
-/
import EtVerif.Model.Oapi
import EtVerif.Proofs.Matrix
import EtVerif.Proofs.Canon
import EtVerif.Proofs.Distrust
import EtVerif.Proofs.VecDot
import EtVerif.Props.C04
import EtVerif.Props.C08
import EtVerif.Props.C10
import EtVerif.Props.C11

namespace EtVerif.OapiL
open EtVerif EtVerif.Oapi Scalar

variable {K : Type} [Field K] [LinearOrder K]

set_option linter.unusedSectionVars false

/-! ### the restructured form of `prepare` -/

/-- loading of an optional vector reference: `none` = loader error -/
def loadOptVec : Option (VectorRef K) → Option (Option (Vec K))
  | none => some none
  | some ref => (loadVector ref).map some

/-- alignment with the pre-trust (openapi.go 81-98) -/
def alignPre (c0 : CSM K) : Option (Vec K) → CSM K × Vec K × Nat
  | none => (c0, Vec.new c0.major [], c0.major)
  | some p =>
    if p.dim < c0.major then (c0, p.setDim c0.major, c0.major)
    else if c0.major < p.dim then (c0.setDim p.dim p.dim, p, p.dim)
    else (c0, p, c0.major)

/-- alignment with the initial trust (openapi.go 103-125) -/
def alignInit (x : CSM K × Vec K × Nat) : Option (Vec K) → CSM K × Vec K × Option (Vec K) × Nat
  | none => (x.1, x.2.1, none, x.2.2)
  | some t0 =>
    if t0.dim < x.2.2 then (x.1, x.2.1, some (t0.setDim x.2.2), x.2.2)
    else if x.2.2 < t0.dim then (x.1.setDim t0.dim t0.dim, x.2.1.setDim t0.dim, some t0, t0.dim)
    else (x.1, x.2.1, some t0, x.2.2)

/-- the `alpha` / `epsilon` guards (openapi.go 126-145) fail -/
def guardA (r : ComputeReq K) : Bool :=
  !(match r.alpha with | some a => !(lt a zero || lt one a) | none => true) ||
   !(match r.epsilon with | some e => !(le e zero || lt one e) | none => true)

/-- the iteration-option guards fail -/
def guardB (r : ComputeReq K) : Bool :=
  optBad r.flatTail 0 || optBad r.numLeaders 0 || optBad r.maxIterations 0 ||
    optBad r.minIterations 1 || optBad r.checkFreq 1

/-- canonicalisation and distrust extraction (openapi.go 161-187) -/
def finish (k : Consts K) (r : ComputeReq K) (x : CSM K × Vec K × Option (Vec K) × Nat) :
    Option (Effective K) :=
  let a := r.alpha.getD k.half
  let e := r.epsilon.getD (div k.epsNum (ofNat x.2.2.2))
  let p3 := canonicalizeTrustVector x.2.1
  let t3 := x.2.2.1.map canonicalizeTrustVector
  match extractDistrust x.1 with
  | .error _ => none
  | .ok (c3, d3) =>
    match canonicalizeLocalTrust c3 (some p3), canonicalizeLocalTrust d3 none with
    | .ok c4, .ok d4 =>
      some { c := c4, p := p3, t0 := t3, discounts := d4, a := a, e := e,
             opts := { t0 := t3, flatTail := (r.flatTail.getD 0).toNat,
                       numLeaders := (r.numLeaders.getD 0).toNat,
                       maxIterations := r.maxIterations, minIterations := r.minIterations,
                       checkFreq := r.checkFreq } }
    | _, _ => none

theorem prepare_eq (k : Consts K) (s : Store K) (r : ComputeReq K) :
    prepare k s r =
      match loadMatrix s r.localTrust, loadOptVec r.preTrust, loadOptVec r.initialTrust with
      | some c0, some pOpt, some tOpt =>
        if guardA r then none else if guardB r then none
        else finish k r (alignInit (alignPre c0 pOpt) tOpt)
      | _, _, _ => none := by
  obtain ⟨lt, it, pt, al, ep, ft, nl, mx, mn, cf⟩ := r
  unfold prepare
  simp only
  cases h1 : loadMatrix s lt with
  | none => rfl
  | some c0 =>
    cases pt with
    | none =>
      cases it with
      | none =>
        simp only [loadOptVec]
        rfl
      | some tref =>
        simp only [loadOptVec]
        cases h3 : loadVector tref with
        | none => rfl
        | some t0 =>
          simp only [Option.map_some]
          rfl
    | some pref =>
      cases it with
      | none =>
        simp only [loadOptVec]
        cases h2 : loadVector pref with
        | none => rfl
        | some p => rfl
      | some tref =>
        simp only [loadOptVec]
        cases h2 : loadVector pref with
        | none => cases loadVector tref <;> rfl
        | some p =>
          cases h3 : loadVector tref with
          | none => rfl
          | some t0 => rfl

end EtVerif.OapiL
