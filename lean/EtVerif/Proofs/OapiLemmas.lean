/-
  Helper definitions and lemmas for properties C03 (compute endpoints) and C13 (stored local
  trust) about Model/Oapi.lean.
-/
import EtVerif.Model.Oapi
import EtVerif.Proofs.Matrix
import EtVerif.Proofs.Canon
import EtVerif.Proofs.Distrust
import EtVerif.Proofs.VecDot
import EtVerif.Proofs.Loop
import EtVerif.Props.C04
import EtVerif.Props.C08
import EtVerif.Props.C10
import EtVerif.Props.C11
import Mathlib.Algebra.Order.BigOperators.Group.Finset

namespace EtVerif.OapiL
open EtVerif EtVerif.Oapi Scalar

variable {K : Type} [Field K] [LinearOrder K]

set_option linter.unusedSectionVars false

/-! ### the restructured form of `prepare` -/

/-- loading of an optional vector reference: `none` = loader error -/
def loadOptVec : Option (VectorRef K) → Option (Option (Vec K))
  | none => some none
  | some ref => (loadVector ref).map some

/-- alignment with the pre-trust (openapi.go 81-98) -/
def alignPre (c0 : CSM K) : Option (Vec K) → CSM K × Vec K × Nat
  | none => (c0, Vec.new c0.major [], c0.major)
  | some p =>
    if p.dim < c0.major then (c0, p.setDim c0.major, c0.major)
    else if c0.major < p.dim then (c0.setDim p.dim p.dim, p, p.dim)
    else (c0, p, c0.major)

/-- alignment with the initial trust (openapi.go 103-125) -/
def alignInit (x : CSM K × Vec K × Nat) : Option (Vec K) → CSM K × Vec K × Option (Vec K) × Nat
  | none => (x.1, x.2.1, none, x.2.2)
  | some t0 =>
    if t0.dim < x.2.2 then (x.1, x.2.1, some (t0.setDim x.2.2), x.2.2)
    else if x.2.2 < t0.dim then (x.1.setDim t0.dim t0.dim, x.2.1.setDim t0.dim, some t0, t0.dim)
    else (x.1, x.2.1, some t0, x.2.2)

/-- the `alpha` / `epsilon` guards (openapi.go 126-145) fail -/
def guardA (r : ComputeReq K) : Bool :=
  !(match r.alpha with | some a => !(lt a zero || lt one a) | none => true) ||
   !(match r.epsilon with | some e => !(le e zero || lt one e) | none => true)

/-- the iteration-option guards fail -/
def guardB (r : ComputeReq K) : Bool :=
  optBad r.flatTail 0 || optBad r.numLeaders 0 || optBad r.maxIterations 0 ||
    optBad r.minIterations 1 || optBad r.checkFreq 1

/-- canonicalisation and distrust extraction (openapi.go 161-187) -/
def finish (k : Consts K) (r : ComputeReq K) (x : CSM K × Vec K × Option (Vec K) × Nat) :
    Option (Effective K) :=
  let a := r.alpha.getD k.half
  let e := r.epsilon.getD (div k.epsNum (ofNat x.2.2.2))
  let p3 := canonicalizeTrustVector x.2.1
  let t3 := x.2.2.1.map canonicalizeTrustVector
  match extractDistrust x.1 with
  | .error _ => none
  | .ok (c3, d3) =>
    match canonicalizeLocalTrust c3 (some p3), canonicalizeLocalTrust d3 none with
    | .ok c4, .ok d4 =>
      some { c := c4, p := p3, t0 := t3, discounts := d4, a := a, e := e,
             opts := { t0 := t3, flatTail := (r.flatTail.getD 0).toNat,
                       numLeaders := (r.numLeaders.getD 0).toNat,
                       maxIterations := r.maxIterations, minIterations := r.minIterations,
                       checkFreq := r.checkFreq } }
    | _, _ => none

theorem prepare_eq (k : Consts K) (s : Store K) (r : ComputeReq K) :
    prepare k s r =
      match loadMatrix s r.localTrust, loadOptVec r.preTrust, loadOptVec r.initialTrust with
      | some c0, some pOpt, some tOpt =>
        if guardA r then none else if guardB r then none
        else finish k r (alignInit (alignPre c0 pOpt) tOpt)
      | _, _, _ => none := by
  obtain ⟨lt, it, pt, al, ep, ft, nl, mx, mn, cf⟩ := r
  unfold prepare
  simp only
  cases h1 : loadMatrix s lt with
  | none => rfl
  | some c0 =>
    cases pt with
    | none =>
      cases it with
      | none =>
        simp only [loadOptVec]
        rfl
      | some tref =>
        simp only [loadOptVec]
        cases h3 : loadVector tref with
        | none => rfl
        | some t0 =>
          simp only [Option.map_some]
          rfl
    | some pref =>
      cases it with
      | none =>
        simp only [loadOptVec]
        cases h2 : loadVector pref with
        | none => rfl
        | some p => rfl
      | some tref =>
        simp only [loadOptVec]
        cases h2 : loadVector pref with
        | none => cases loadVector tref <;> rfl
        | some p =>
          cases h3 : loadVector tref with
          | none => rfl
          | some t0 => rfl

/-! ### alignment only ever grows -/

theorem vec_setDim_of_le (v : Vec K) {d : Nat} (h : v.dim ≤ d) : v.setDim d = ⟨d, v.entries⟩ := by
  unfold Vec.setDim
  rw [if_neg (by omega)]

/-- growing a well-formed square-or-smaller matrix to `d × d` keeps every row -/
theorem setDim_grow {M : CSM K} (hw : WFM M) (hc : HiddenClean M) {d : Nat}
    (h1 : M.major ≤ d) (h2 : M.minor ≤ d) :
    WFM (M.setDim d d) ∧ HiddenClean (M.setDim d d) ∧ (M.setDim d d).major = d ∧
      (M.setDim d d).minor = d ∧ ∀ i, (M.setDim d d).rows.getD i [] = M.rows.getD i [] := by
  obtain ⟨a, b, c, e, _⟩ := C10.setDim_wf M hw hc d d
  refine ⟨a, b, c, e, fun i => ?_⟩
  unfold CSM.setDim
  rw [Mx.setMinorDim_getD_of_le _ (by rw [Mx.setMajorDim_minor]; exact h2),
    Mx.setMajorDim_getD_of_le hw.1 hc h1]

/-- what the alignment steps maintain: `c` is `c0` grown to `n × n`, `p` is `pes` at dim `n` -/
structure Aligned (c0 : CSM K) (pes : List (Entry K)) (n : Nat) (c : CSM K) (p : Vec K) :
    Prop where
  wfm : WFM c
  clean : HiddenClean c
  major : c.major = n
  minor : c.minor = n
  rows : ∀ i, c.rows.getD i [] = c0.rows.getD i []
  p_eq : p = ⟨n, pes⟩

/-- entries / dimension of an optional loaded vector -/
def optEntries (o : Option (Vec K)) : List (Entry K) := (o.map (·.entries)).getD []
def optDim (o : Option (Vec K)) : Nat := (o.map (·.dim)).getD 0

theorem alignPre_spec {c0 : CSM K} (hw : WFM c0) (hc : HiddenClean c0) (hsq : c0.major = c0.minor)
    (pOpt : Option (Vec K)) :
    Aligned c0 (optEntries pOpt) (max c0.major (optDim pOpt)) (alignPre c0 pOpt).1
      (alignPre c0 pOpt).2.1 ∧ (alignPre c0 pOpt).2.2 = max c0.major (optDim pOpt) := by
  cases pOpt with
  | none =>
    have hn : max c0.major (optDim (none : Option (Vec K))) = c0.major := by simp [optDim]
    rw [hn]
    exact ⟨⟨hw, hc, rfl, hsq.symm, fun _ => rfl, rfl⟩, rfl⟩
  | some p =>
    simp only [alignPre, optEntries, optDim, Option.map_some, Option.getD_some]
    by_cases h1 : p.dim < c0.major
    · rw [if_pos h1]
      have hn : max c0.major p.dim = c0.major := by omega
      rw [hn]
      exact ⟨⟨hw, hc, rfl, hsq.symm, fun _ => rfl, vec_setDim_of_le p (by omega)⟩, rfl⟩
    · rw [if_neg h1]
      by_cases h2 : c0.major < p.dim
      · rw [if_pos h2]
        have hn : max c0.major p.dim = p.dim := by omega
        rw [hn]
        obtain ⟨a, b, c, d, e⟩ := setDim_grow hw hc (d := p.dim) (by omega) (by omega)
        exact ⟨⟨a, b, c, d, e, rfl⟩, rfl⟩
      · rw [if_neg h2]
        have hn : max c0.major p.dim = c0.major := by omega
        have hp : p.dim = c0.major := by omega
        rw [hn]
        exact ⟨⟨hw, hc, rfl, hsq.symm, fun _ => rfl, by rw [← hp]⟩, rfl⟩

theorem alignInit_spec {c0 : CSM K} {pes : List (Entry K)} {n1 : Nat}
    {x : CSM K × Vec K × Nat} (hx : Aligned c0 pes n1 x.1 x.2.1) (hn : x.2.2 = n1)
    (tOpt : Option (Vec K)) :
    Aligned c0 pes (max n1 (optDim tOpt)) (alignInit x tOpt).1 (alignInit x tOpt).2.1 ∧
      (alignInit x tOpt).2.2.2 = max n1 (optDim tOpt) ∧
      (alignInit x tOpt).2.2.1 = tOpt.map fun t => ⟨max n1 (optDim tOpt), t.entries⟩ := by
  obtain ⟨c, p, n⟩ := x
  simp only at hx hn
  subst hn
  cases tOpt with
  | none =>
    have hn : max n (optDim (none : Option (Vec K))) = n := by simp [optDim]
    rw [hn]
    exact ⟨hx, rfl, rfl⟩
  | some t =>
    simp only [alignInit, optDim, Option.map_some, Option.getD_some]
    by_cases h1 : t.dim < n
    · rw [if_pos h1]
      have hn : max n t.dim = n := by omega
      rw [hn]
      exact ⟨hx, rfl, by rw [vec_setDim_of_le t (by omega)]⟩
    · rw [if_neg h1]
      by_cases h2 : n < t.dim
      · rw [if_pos h2]
        have hn : max n t.dim = t.dim := by omega
        rw [hn]
        obtain ⟨a, b, c', d, e⟩ := setDim_grow hx.wfm hx.clean (d := t.dim)
          (by rw [hx.major]; omega) (by rw [hx.minor]; omega)
        refine ⟨⟨a, b, c', d, fun i => (e i).trans (hx.rows i), ?_⟩, rfl, rfl⟩
        simp only
        rw [hx.p_eq]
        exact vec_setDim_of_le _ (by simp only; omega)
      · rw [if_neg h2]
        have hn : max n t.dim = n := by omega
        have ht : t.dim = n := by omega
        rw [hn]
        exact ⟨hx, rfl, by rw [← ht]⟩

/-! ### row-level denotations -/

section rows
variable [IsStrictOrderedRing K]

theorem den_splitRow_fst {r : Row K} (hs : Sorted r) (j : Nat) :
    denE (splitRow r).1 j = max (denE r j) 0 := by
  have hs1 : Sorted (splitRow r).1 := Distrust.sorted_sublist (Distrust.splitRow_fst_sublist r) hs
  by_cases h : ∃ e ∈ r, e.idx = j
  · obtain ⟨e, he, rfl⟩ := h
    rw [Mg.denE_of_mem hs he]
    by_cases hv : 0 ≤ e.val
    · have : e ∈ (splitRow r).1 := by
        rw [Distrust.splitRow_fst, List.mem_filter]; exact ⟨he, by simpa using hv⟩
      rw [Mg.denE_of_mem hs1 this, max_eq_left hv]
    · rw [max_eq_right (le_of_lt (not_le.mp hv))]
      apply Mg.denE_of_not_mem
      rintro ⟨x, hx, hxe⟩
      rw [Distrust.splitRow_fst, List.mem_filter] at hx
      have := Distrust.sorted_eq_of_idx_eq hs hx.1 he hxe
      subst this
      exact hv (by simpa using hx.2)
  · rw [Mg.denE_of_not_mem h, max_self]
    apply Mg.denE_of_not_mem
    rintro ⟨x, hx, hxe⟩
    exact h ⟨x, (Distrust.splitRow_fst_sublist r).subset hx, hxe⟩

theorem den_splitRow_snd {r : Row K} (hs : Sorted r) (j : Nat) :
    denE (splitRow r).2 j = max (-(denE r j)) 0 := by
  have h := Distrust.den_splitRow r j
  rw [den_splitRow_fst hs] at h
  have : denE (splitRow r).2 j = max (denE r j) 0 - denE r j := by linarith
  rw [this]
  rcases le_total 0 (denE r j) with hv | hv
  · rw [max_eq_left hv, max_eq_right (by linarith)]; ring
  · rw [max_eq_right hv, max_eq_left (by linarith)]; ring

end rows

theorem den_canonRow_some (p : Vec K) (r : Row K) (j : Nat) :
    denE (canonRow (some p) r) j =
      if Canon.vsum r = 0 then denE p.entries j else denE r j / Canon.vsum r := by
  unfold canonRow
  rw [Canon.canonicalize_eq]
  by_cases h : Canon.vsum r = 0
  · rw [if_pos h, if_pos h]
  · rw [if_neg h, if_neg h]; exact Canon.denE_map_div r _ j

theorem den_canonRow_none (r : Row K) (j : Nat) :
    denE (canonRow none r) j =
      if Canon.vsum r = 0 then denE r j else denE r j / Canon.vsum r := by
  unfold canonRow
  rw [Canon.canonicalize_eq]
  by_cases h : Canon.vsum r = 0
  · rw [if_pos h, if_pos h]
  · rw [if_neg h, if_neg h]; exact Canon.denE_map_div r _ j

theorem vsum_eq_sum {n : Nat} {r : Row K} (h : WF n r) :
    Canon.vsum r = ∑ j ∈ Finset.range n, denE r j := (sum_denE h.2).symm

theorem den_uniform (n j : Nat) :
    denE (uniformEntries n : List (Entry K)) j = if j < n then 1 / (n : K) else 0 := by
  have hw := Canon.wf_uniform (K := K) n
  by_cases hj : j < n
  · rw [if_pos hj]
    have hm : (⟨j, 1 / (n : K)⟩ : Entry K) ∈ (uniformEntries n : List (Entry K)) := by
      unfold uniformEntries
      exact List.mem_map.mpr ⟨j, List.mem_range.mpr hj, by simp⟩
    exact Mg.denE_of_mem hw.1 hm
  · rw [if_neg hj]; exact Mg.denE_of_ge_dim hw (by omega)

theorem den_canonTV (n : Nat) (es : List (Entry K)) (j : Nat) :
    denE (canonicalizeTrustVector ⟨n, es⟩).entries j =
      if Canon.vsum es = 0 then (if j < n then 1 / (n : K) else 0)
      else denE es j / Canon.vsum es := by
  unfold canonicalizeTrustVector
  simp only
  rw [Canon.canonicalize_eq]
  by_cases h : Canon.vsum es = 0
  · rw [if_pos h, if_pos h]; exact den_uniform n j
  · rw [if_neg h, if_neg h]; exact Canon.denE_map_div es _ j

/-- `canonicalize`-style maps keep the index sequence, hence well-formedness -/
theorem wf_map_val {n : Nat} {es : List (Entry K)} (f : Entry K → K) (h : WF n es) :
    WF n (es.map fun e => ⟨e.idx, f e⟩) := by
  apply Distrust.wf_of_idx_sublist _ h
  simp [List.map_map, Function.comp_def]

theorem wf_canonRow_some {n : Nat} {p : Vec K} (hp : WF n p.entries) {r : Row K} (h : WF n r) :
    WF n (canonRow (some p) r) := by
  unfold canonRow
  rw [Canon.canonicalize_eq]
  by_cases hz : Canon.vsum r = 0
  · rw [if_pos hz]; exact hp
  · rw [if_neg hz]; exact wf_map_val _ h

theorem wf_canonRow_none {n : Nat} {r : Row K} (h : WF n r) : WF n (canonRow none r) := by
  unfold canonRow
  rw [Canon.canonicalize_eq]
  by_cases hz : Canon.vsum r = 0
  · rw [if_pos hz]; exact h
  · rw [if_neg hz]; exact wf_map_val _ h

theorem canonRow_none_nil : canonRow none ([] : Row K) = [] := by
  unfold canonRow
  rw [Canon.canonicalize_eq]
  simp [Canon.vsum]

theorem wf_canonTV {n : Nat} {es : List (Entry K)} (h : WF n es) :
    WF n (canonicalizeTrustVector ⟨n, es⟩).entries := by
  have := C04.canonTV_wf ⟨n, es⟩ h
  rwa [C04.canonTV_dim] at this

/-! ### the last stage in closed form -/

/-- the effective inputs built from aligned inputs `c2`, `p2`, `t2` at dimension `n` -/
def effOf (k : Consts K) (r : ComputeReq K) (c2 : CSM K) (p2 : Vec K) (t2 : Option (Vec K))
    (n : Nat) : Effective K :=
  { c := { c2 with
            rows := ((c2.rows.map splitRow).map (·.1)).map
                      (canonRow (some (canonicalizeTrustVector p2))) }
    p := canonicalizeTrustVector p2
    t0 := t2.map canonicalizeTrustVector
    discounts := ⟨c2.major, c2.major, ((c2.rows.map splitRow).map (·.2)).map (canonRow none), []⟩
    a := r.alpha.getD k.half
    e := r.epsilon.getD (k.epsNum / (n : K))
    opts := { t0 := t2.map canonicalizeTrustVector, flatTail := (r.flatTail.getD 0).toNat,
              numLeaders := (r.numLeaders.getD 0).toNat,
              maxIterations := r.maxIterations, minIterations := r.minIterations,
              checkFreq := r.checkFreq } }

theorem finish_eq (k : Consts K) (r : ComputeReq K) (c2 : CSM K) (p2 : Vec K)
    (t2 : Option (Vec K)) (n : Nat) (hsq : c2.major = c2.minor) (hp : p2.dim = c2.major) :
    finish k r (c2, p2, t2, n) = some (effOf k r c2 p2 t2 n) := by
  have h1 : extractDistrust c2 =
      .ok ({ c2 with rows := (c2.rows.map splitRow).map (·.1) },
           ⟨c2.major, c2.major, (c2.rows.map splitRow).map (·.2), []⟩) := by
    unfold extractDistrust CSM.dim
    rw [if_neg (by simpa using hsq)]
  have h2 := (C04.canonLT_ok_iff { c2 with rows := (c2.rows.map splitRow).map (·.1) } _
    (some (canonicalizeTrustVector p2))).mpr
      ⟨hsq, fun q hq => by cases hq; rw [C04.canonTV_dim]; exact hp, rfl⟩
  have h3 := (C04.canonLT_ok_iff
    (⟨c2.major, c2.major, (c2.rows.map splitRow).map (·.2), []⟩ : CSM K) _ none).mpr
      ⟨rfl, fun q hq => by exact absurd hq (by simp), rfl⟩
  unfold finish
  simp only [h1, h2, h3]
  rfl

/-- `prepare` in closed form, for a loaded matrix that is well-formed and square -/
theorem prepare_core (k : Consts K) (s : Store K) (r : ComputeReq K) {c0 : CSM K}
    {pOpt tOpt : Option (Vec K)} (h1 : loadMatrix s r.localTrust = some c0)
    (h2 : loadOptVec r.preTrust = some pOpt) (h3 : loadOptVec r.initialTrust = some tOpt)
    (hw : WFM c0) (hc : HiddenClean c0) (hsq : c0.major = c0.minor)
    (hgA : guardA r = false) (hgB : guardB r = false) :
    ∃ c2, Aligned c0 (optEntries pOpt) (max (max c0.major (optDim pOpt)) (optDim tOpt)) c2
        ⟨max (max c0.major (optDim pOpt)) (optDim tOpt), optEntries pOpt⟩ ∧
      prepare k s r = some (effOf k r c2
        ⟨max (max c0.major (optDim pOpt)) (optDim tOpt), optEntries pOpt⟩
        (tOpt.map fun t => ⟨max (max c0.major (optDim pOpt)) (optDim tOpt), t.entries⟩)
        (max (max c0.major (optDim pOpt)) (optDim tOpt))) := by
  obtain ⟨ha, hn⟩ := alignPre_spec hw hc hsq pOpt
  obtain ⟨hb, hn2, ht⟩ := alignInit_spec ha hn tOpt
  refine ⟨(alignInit (alignPre c0 pOpt) tOpt).1, ?_, ?_⟩
  · have := hb
    rw [hb.p_eq] at this
    exact this
  · rw [prepare_eq, h1, h2, h3]
    simp only [hgA, hgB, Bool.false_eq_true, if_false]
    have hx : alignInit (alignPre c0 pOpt) tOpt =
        ((alignInit (alignPre c0 pOpt) tOpt).1, (alignInit (alignPre c0 pOpt) tOpt).2.1,
         (alignInit (alignPre c0 pOpt) tOpt).2.2.1, (alignInit (alignPre c0 pOpt) tOpt).2.2.2) := rfl
    rw [hx, finish_eq k r _ _ _ _ (hb.major.trans hb.minor.symm)
      (by rw [hb.p_eq]; exact hb.major.symm)]
    rw [hb.p_eq, hn2, ht]

/-! ### inline loaders -/

/-- the coordinate list handed to `NewCSRMatrix` by `loadInlineTrustMatrix` -/
def cooOfI (m : IMatrix K) : List (Coo K) := m.entries.map fun (i, j, v) => ⟨i.toNat, j.toNat, v⟩

/-- the entry list handed to `NewVector` by `loadInlineTrustVector` -/
def entOfI (v : IVector K) : List (Entry K) := v.entries.map fun (i, x) => ⟨i.toNat, x⟩

/-- every index of an inline matrix is in `[0, size)` -/
def InRangeM (m : IMatrix K) : Prop :=
  ∀ e ∈ m.entries, 0 ≤ e.1 ∧ e.1 < m.size ∧ 0 ≤ e.2.1 ∧ e.2.1 < m.size

/-- every index of an inline vector is in `[0, size)` and every value is positive -/
def InRangeV (v : IVector K) : Prop := ∀ e ∈ v.entries, 0 ≤ e.1 ∧ e.1 < v.size ∧ 0 < e.2

theorem loadInlineMatrix_eq (m : IMatrix K) [Decidable (0 < m.size ∧ InRangeM m)] :
    loadInlineMatrix m =
      if 0 < m.size ∧ InRangeM m then
        some (CSM.newCSR m.size.toNat m.size.toNat (cooOfI m) false)
      else none := by
  unfold loadInlineMatrix
  by_cases hs : m.size ≤ 0
  · rw [if_pos hs, if_neg (fun h => by omega)]
  · rw [if_neg hs]
    have hiff : (m.entries.all (fun (i, j, _) => decide (0 ≤ i) && decide (i < m.size) &&
        decide (0 ≤ j) && decide (j < m.size)) = true) ↔ InRangeM m := by
      unfold InRangeM
      rw [List.all_eq_true]
      constructor
      · intro h e he
        obtain ⟨i, j, v⟩ := e
        have := h _ he
        simpa [and_assoc] using this
      · intro h e he
        obtain ⟨i, j, v⟩ := e
        have := h _ he
        simpa [and_assoc] using this
    by_cases hr : InRangeM m
    · rw [if_pos (hiff.mpr hr), if_pos ⟨by omega, hr⟩]; rfl
    · rw [if_neg (fun h => hr (hiff.mp h)), if_neg (fun h => hr h.2)]

theorem loadInlineVector_eq (v : IVector K) [Decidable (0 < v.size ∧ InRangeV v)] :
    loadInlineVector v =
      if 0 < v.size ∧ InRangeV v then some (Vec.new v.size.toNat (entOfI v)) else none := by
  unfold loadInlineVector
  by_cases hs : v.size ≤ 0
  · rw [if_pos hs, if_neg (fun h => by omega)]
  · rw [if_neg hs]
    have hiff : (v.entries.all (fun (i, x) => decide (0 ≤ i) && decide (i < v.size) &&
        !le x zero) = true) ↔ InRangeV v := by
      unfold InRangeV
      rw [List.all_eq_true]
      constructor
      · intro h e he
        obtain ⟨i, x⟩ := e
        have := h _ he
        simpa [and_assoc] using this
      · intro h e he
        obtain ⟨i, x⟩ := e
        have := h _ he
        simpa [and_assoc] using this
    by_cases hr : InRangeV v
    · rw [if_pos (hiff.mpr hr), if_pos ⟨by omega, hr⟩]; rfl
    · rw [if_neg (fun h => hr (hiff.mp h)), if_neg (fun h => hr h.2)]

/-! ### validity of inline bodies and their dense reading -/

/-- documented validity of an inline matrix: `size ≥ 1`, indices in range, pairwise distinct
    `(i, j)` coordinates -/
def ValidIMatrix (m : IMatrix K) : Prop :=
  1 ≤ m.size ∧ InRangeM m ∧ (m.entries.map fun e => (e.1, e.2.1)).Nodup

/-- documented validity of an inline vector: `size ≥ 1`, indices in range, pairwise distinct,
    values positive -/
def ValidIVector (v : IVector K) : Prop :=
  1 ≤ v.size ∧ InRangeV v ∧ (v.entries.map (·.1)).Nodup

/-- dense value of an inline matrix at `(i, j)`: the listed value, `0` if `(i, j)` is not listed -/
def denIM (m : IMatrix K) (i j : Nat) : K :=
  match m.entries.find? (fun e => e.1 == (i : Int) && e.2.1 == (j : Int)) with
  | some e => e.2.2
  | none => 0

/-- dense value of an inline vector at `j`: the listed value, `0` if `j` is not listed -/
def denIV (v : IVector K) (j : Nat) : K :=
  match v.entries.find? (fun e => e.1 == (j : Int)) with
  | some e => e.2
  | none => 0

theorem cooOfI_nodup {m : IMatrix K} (h : ValidIMatrix m) :
    ((cooOfI m).map fun e => (e.row, e.col)).Nodup := by
  unfold cooOfI
  rw [List.map_map]
  have : ((fun e : Coo K => (e.row, e.col)) ∘ fun (x : Int × Int × K) =>
      match x with | (i, j, v) => (⟨i.toNat, j.toNat, v⟩ : Coo K))
      = (fun q : Int × Int => (q.1.toNat, q.2.toNat)) ∘ fun e : Int × Int × K => (e.1, e.2.1) := by
    funext ⟨i, j, v⟩; rfl
  rw [this, ← List.map_map]
  apply List.Nodup.map_on _ h.2.2
  intro a ha b hb hab
  obtain ⟨ea, hea, rfl⟩ := List.mem_map.mp ha
  obtain ⟨eb, heb, rfl⟩ := List.mem_map.mp hb
  have h1 := h.2.1 ea hea
  have h2 := h.2.1 eb heb
  simp only [Prod.mk.injEq] at hab ⊢
  omega

theorem mem_cooOfI {m : IMatrix K} {c : Coo K} :
    c ∈ cooOfI m ↔ ∃ e ∈ m.entries, c = ⟨e.1.toNat, e.2.1.toNat, e.2.2⟩ := by
  unfold cooOfI
  rw [List.mem_map]
  constructor
  · rintro ⟨⟨i, j, v⟩, he, rfl⟩; exact ⟨_, he, rfl⟩
  · rintro ⟨⟨i, j, v⟩, he, rfl⟩; exact ⟨_, he, rfl⟩

/-- the matrix loaded from a valid inline body -/
theorem loadInlineMatrix_valid {m : IMatrix K} (h : ValidIMatrix m) :
    ∃ c0, loadInlineMatrix m = some c0 ∧ WFM c0 ∧ HiddenClean c0 ∧
      c0.major = m.size.toNat ∧ c0.minor = m.size.toNat ∧
      (∀ i j, denRows c0.rows i j = denIM m i j) ∧
      (∀ i, ∀ x ∈ c0.rows.getD i [], x.val ≠ 0) ∧ c0.hidden = [] := by
  classical
  refine ⟨CSM.newCSR m.size.toNat m.size.toNat (cooOfI m) false, ?_, ?_⟩
  · rw [loadInlineMatrix_eq, if_pos ⟨by have := h.1; omega, h.2.1⟩]
  have hd := cooOfI_nodup h
  have hrange : ∀ c ∈ cooOfI m, c.row < m.size.toNat ∧ c.col < m.size.toNat := by
    intro c hc
    obtain ⟨e, he, rfl⟩ := mem_cooOfI.mp hc
    have := h.2.1 e he
    simp only
    omega
  obtain ⟨w1, w2, w3, w4, _⟩ := C10.newCSR_wf m.size.toNat m.size.toNat (cooOfI m) false hd
    (fun e he _ => (hrange e he).2)
  refine ⟨w1, w2, w3, w4, ?_, fun i => C10.newCSR_no_zero _ _ _ i, rfl⟩
  obtain ⟨c1, c2⟩ := C10.newCSR_cells m.size.toNat m.size.toNat (cooOfI m) false hd
    (fun e he _ => (hrange e he).1)
  intro i j
  unfold denIM
  cases hf : m.entries.find? (fun e => e.1 == (i : Int) && e.2.1 == (j : Int)) with
  | some e =>
    have hmem := List.mem_of_find?_eq_some hf
    have hp := List.find?_some hf
    simp only [Bool.and_eq_true, beq_iff_eq] at hp
    have := c1 ⟨e.1.toNat, e.2.1.toNat, e.2.2⟩ (mem_cooOfI.mpr ⟨e, hmem, rfl⟩)
    simp only at this
    rw [hp.1, hp.2] at this
    simpa using this
  | none =>
    apply c2
    intro c hc hij
    obtain ⟨e, he, rfl⟩ := mem_cooOfI.mp hc
    have hr := h.2.1 e he
    have := List.find?_eq_none.mp hf e he
    simp only [Bool.and_eq_true, beq_iff_eq, not_and] at this
    simp only at hij
    apply this <;> omega

theorem mem_entOfI {v : IVector K} {x : Entry K} :
    x ∈ entOfI v ↔ ∃ e ∈ v.entries, x = ⟨e.1.toNat, e.2⟩ := by
  unfold entOfI
  rw [List.mem_map]
  constructor
  · rintro ⟨⟨i, y⟩, he, rfl⟩; exact ⟨_, he, rfl⟩
  · rintro ⟨⟨i, y⟩, he, rfl⟩; exact ⟨_, he, rfl⟩

theorem entOfI_nodup {v : IVector K} (h : ValidIVector v) : ((entOfI v).map (·.idx)).Nodup := by
  unfold entOfI
  rw [List.map_map]
  have : ((fun e : Entry K => e.idx) ∘ fun (x : Int × K) =>
      match x with | (i, y) => (⟨i.toNat, y⟩ : Entry K))
      = (fun q : Int => q.toNat) ∘ fun e : Int × K => e.1 := by
    funext ⟨i, y⟩; rfl
  rw [this, ← List.map_map]
  apply List.Nodup.map_on _ h.2.2
  intro a ha b hb hab
  obtain ⟨ea, hea, rfl⟩ := List.mem_map.mp ha
  obtain ⟨eb, heb, rfl⟩ := List.mem_map.mp hb
  have h1 := h.2.1 ea hea
  have h2 := h.2.1 eb heb
  omega

/-- the vector loaded from a valid inline body -/
theorem loadInlineVector_valid {v : IVector K} (h : ValidIVector v) :
    ∃ p, loadInlineVector v = some p ∧ p.dim = v.size.toNat ∧ WF v.size.toNat p.entries ∧
      (∀ j, denE p.entries j = denIV v j) ∧ (∀ e ∈ p.entries, 0 < e.val) := by
  classical
  refine ⟨Vec.new v.size.toNat (entOfI v), ?_, rfl, ?_⟩
  · rw [loadInlineVector_eq, if_pos ⟨by have := h.1; omega, h.2.1⟩]
  have hperm := Mx.sortByIdx_perm (entOfI v)
  have hsorted : Sorted (sortByIdx (entOfI v)) := Mx.sorted_sortByIdx (entOfI_nodup h)
  refine ⟨⟨hsorted, ?_⟩, ?_, ?_⟩
  · intro e he
    obtain ⟨e0, he0, rfl⟩ := mem_entOfI.mp (hperm.mem_iff.mp he)
    have := h.2.1 e0 he0
    simp only
    omega
  · intro j
    show denE (sortByIdx (entOfI v)) j = denIV v j
    unfold denIV
    cases hf : v.entries.find? (fun e => e.1 == (j : Int)) with
    | some e =>
      have hmem := List.mem_of_find?_eq_some hf
      have hp := List.find?_some hf
      simp only [beq_iff_eq] at hp
      have hm : (⟨j, e.2⟩ : Entry K) ∈ sortByIdx (entOfI v) := by
        apply hperm.mem_iff.mpr
        apply mem_entOfI.mpr
        refine ⟨e, hmem, ?_⟩
        rw [hp]; simp
      exact Mg.denE_of_mem hsorted hm
    | none =>
      apply Mg.denE_of_not_mem
      rintro ⟨x, hx, hxj⟩
      obtain ⟨e, he, rfl⟩ := mem_entOfI.mp (hperm.mem_iff.mp hx)
      have hr := h.2.1 e he
      have := List.find?_eq_none.mp hf e he
      simp only [beq_iff_eq] at this
      simp only at hxj
      apply this; omega
  · intro e he
    obtain ⟨e0, he0, rfl⟩ := mem_entOfI.mp (hperm.mem_iff.mp he)
    exact (h.2.1 e0 he0).2.2

/-! ### denotation of the effective inputs -/

theorem getD_map_of_lt (f : Row K → Row K) {l : List (Row K)} {i : Nat} (hi : i < l.length) :
    (l.map f).getD i [] = f (l.getD i []) := by
  simp only [List.getD_eq_getElem?_getD, List.getElem?_map, List.getElem?_eq_getElem hi,
    Option.map_some, Option.getD_some]

theorem getD_map_of_nil {f : Row K → Row K} (hf : f [] = []) (l : List (Row K)) (i : Nat) :
    (l.map f).getD i [] = f (l.getD i []) := by
  simp only [List.getD_eq_getElem?_getD, List.getElem?_map]
  cases l[i]? with
  | none => simp [hf]
  | some r => simp

section eff
variable {c0 c2 : CSM K} {pes : List (Entry K)} {n : Nat} {p : Vec K}

theorem Aligned.len (ha : Aligned c0 pes n c2 p) : c2.rows.length = n := ha.wfm.1.trans ha.major

theorem Aligned.row_wf (ha : Aligned c0 pes n c2 p) (i : Nat) : WF n (c0.rows.getD i []) := by
  rw [← ha.rows i, ← ha.minor]; exact Mx.WFM.row ha.wfm i

theorem Aligned.den (ha : Aligned c0 pes n c2 p) (i j : Nat) :
    denRows c2.rows i j = denRows c0.rows i j := by
  unfold denRows; rw [ha.rows i]

theorem effOf_c_row (k : Consts K) (r : ComputeReq K) (t2 : Option (Vec K))
    (ha : Aligned c0 pes n c2 p) {i : Nat} (hi : i < n) :
    (effOf k r c2 p t2 n).c.rows.getD i [] =
      canonRow (some (canonicalizeTrustVector p)) (splitRow (c0.rows.getD i [])).1 := by
  show (((c2.rows.map splitRow).map (·.1)).map _).getD i [] = _
  rw [getD_map_of_lt _ (by simp only [List.length_map]; rw [ha.len]; exact hi),
    Distrust.getD_map_splitRow_fst, ha.rows i]

theorem effOf_d_row (k : Consts K) (r : ComputeReq K) (t2 : Option (Vec K))
    (ha : Aligned c0 pes n c2 p) (i : Nat) :
    (effOf k r c2 p t2 n).discounts.rows.getD i [] =
      canonRow none (splitRow (c0.rows.getD i [])).2 := by
  show (((c2.rows.map splitRow).map (·.2)).map _).getD i [] = _
  rw [getD_map_of_nil canonRow_none_nil, Distrust.getD_map_splitRow_snd, ha.rows i]

theorem effOf_dims (k : Consts K) (r : ComputeReq K) (t2 : Option (Vec K))
    (ha : Aligned c0 pes n c2 ⟨n, pes⟩) (hp : WF n pes) :
    (effOf k r c2 ⟨n, pes⟩ t2 n).c.major = n ∧ (effOf k r c2 ⟨n, pes⟩ t2 n).c.minor = n ∧
    WFM (effOf k r c2 ⟨n, pes⟩ t2 n).c ∧ (effOf k r c2 ⟨n, pes⟩ t2 n).p.dim = n ∧
    WF n (effOf k r c2 ⟨n, pes⟩ t2 n).p.entries ∧
    (effOf k r c2 ⟨n, pes⟩ t2 n).discounts.major = n ∧
    (effOf k r c2 ⟨n, pes⟩ t2 n).discounts.minor = n ∧
    WFM (effOf k r c2 ⟨n, pes⟩ t2 n).discounts := by
  have hp3 : WF n (canonicalizeTrustVector ⟨n, pes⟩).entries := wf_canonTV hp
  refine ⟨ha.major, ha.minor, ⟨?_, ?_⟩, C04.canonTV_dim _, hp3, ha.major, ha.major, ⟨?_, ?_⟩⟩
  · show (((c2.rows.map splitRow).map (·.1)).map _).length = c2.major
    simp only [List.length_map]; exact ha.wfm.1
  · show ∀ r' ∈ ((c2.rows.map splitRow).map (·.1)).map _, WF c2.minor r'
    intro r' hr'
    simp only [List.map_map, List.mem_map, Function.comp_apply] at hr'
    obtain ⟨r0, h0, rfl⟩ := hr'
    rw [ha.minor]
    apply wf_canonRow_some hp3
    have := ha.wfm.2 r0 h0
    rw [ha.minor] at this
    exact Distrust.wf_sublist (Distrust.splitRow_fst_sublist r0) this
  · show (((c2.rows.map splitRow).map (·.2)).map _).length = c2.major
    simp only [List.length_map]; exact ha.wfm.1
  · show ∀ r' ∈ ((c2.rows.map splitRow).map (·.2)).map _, WF c2.major r'
    intro r' hr'
    simp only [List.map_map, List.mem_map, Function.comp_apply] at hr'
    obtain ⟨r0, h0, rfl⟩ := hr'
    rw [ha.major]
    apply wf_canonRow_none
    have := ha.wfm.2 r0 h0
    rw [ha.minor] at this
    exact Distrust.wf_of_idx_sublist (Distrust.splitRow_snd_idx_sublist r0) this

variable [IsStrictOrderedRing K]

theorem effOf_c_den (k : Consts K) (r : ComputeReq K) (t2 : Option (Vec K))
    (ha : Aligned c0 pes n c2 p) {i : Nat} (hi : i < n) (j : Nat) :
    denRows (effOf k r c2 p t2 n).c.rows i j =
      if ∑ j' ∈ Finset.range n, max (denRows c0.rows i j') 0 = 0 then
        denE (effOf k r c2 p t2 n).p.entries j
      else max (denRows c0.rows i j) 0 / ∑ j' ∈ Finset.range n, max (denRows c0.rows i j') 0 := by
  have hw := ha.row_wf i
  have hw1 : WF n (splitRow (c0.rows.getD i [])).1 :=
    Distrust.wf_sublist (Distrust.splitRow_fst_sublist _) hw
  have hsum : Canon.vsum (splitRow (c0.rows.getD i [])).1
      = ∑ j' ∈ Finset.range n, max (denRows c0.rows i j') 0 := by
    rw [vsum_eq_sum hw1]
    exact Finset.sum_congr rfl (fun j' _ => den_splitRow_fst hw.1 j')
  unfold denRows at hsum ⊢
  rw [effOf_c_row k r t2 ha hi, den_canonRow_some, hsum, den_splitRow_fst hw.1]
  rfl

theorem effOf_d_den (k : Consts K) (r : ComputeReq K) (t2 : Option (Vec K))
    (ha : Aligned c0 pes n c2 p) (i j : Nat) :
    denRows (effOf k r c2 p t2 n).discounts.rows i j =
      if ∑ j' ∈ Finset.range n, max (-(denRows c0.rows i j')) 0 = 0 then 0
      else max (-(denRows c0.rows i j)) 0 /
        ∑ j' ∈ Finset.range n, max (-(denRows c0.rows i j')) 0 := by
  have hw := ha.row_wf i
  have hw2 : WF n (splitRow (c0.rows.getD i [])).2 :=
    Distrust.wf_of_idx_sublist (Distrust.splitRow_snd_idx_sublist _) hw
  have hsum : Canon.vsum (splitRow (c0.rows.getD i [])).2
      = ∑ j' ∈ Finset.range n, max (-(denRows c0.rows i j')) 0 := by
    rw [vsum_eq_sum hw2]
    exact Finset.sum_congr rfl (fun j' _ => den_splitRow_snd hw.1 j')
  unfold denRows at hsum ⊢
  rw [effOf_d_row k r t2 ha i, den_canonRow_none, hsum, den_splitRow_snd hw.1]
  by_cases hz : ∑ j' ∈ Finset.range n, max (-(denE (c0.rows.getD i []) j')) 0 = 0
  · rw [if_pos hz, if_pos hz]
    by_cases hj : j < n
    · exact (Finset.sum_eq_zero_iff_of_nonneg (fun _ _ => le_max_right _ _)).mp hz j
        (Finset.mem_range.mpr hj)
    · rw [Mg.denE_of_ge_dim hw (by omega)]; simp
  · rw [if_neg hz, if_neg hz]

theorem effOf_p_den (k : Consts K) (r : ComputeReq K) (t2 : Option (Vec K)) (c2 : CSM K)
    (hp : WF n pes) (j : Nat) :
    denE (effOf k r c2 ⟨n, pes⟩ t2 n).p.entries j =
      if ∑ j' ∈ Finset.range n, denE pes j' = 0 then (if j < n then 1 / (n : K) else 0)
      else denE pes j / ∑ j' ∈ Finset.range n, denE pes j' := by
  show denE (canonicalizeTrustVector ⟨n, pes⟩).entries j = _
  rw [den_canonTV, vsum_eq_sum hp]

end eff

/-! ### valid requests -/

/-- an optional vector reference is absent or a valid inline vector -/
def ValidVRef : Option (VectorRef K) → Prop
  | none => True
  | some (.inline v) => ValidIVector v
  | some _ => False

/-- an optional integer option respects its documented minimum -/
def optOK (o : Option Int) (lo : Int) : Prop := ∀ x, o = some x → lo ≤ x

/-- documented validity of an inline compute request -/
structure ValidReq (r : ComputeReq K) : Prop where
  localTrust : ∃ m, r.localTrust = .inline m ∧ ValidIMatrix m
  preTrust : ValidVRef r.preTrust
  initialTrust : ValidVRef r.initialTrust
  alpha : ∀ a, r.alpha = some a → 0 ≤ a ∧ a ≤ 1
  epsilon : ∀ e, r.epsilon = some e → 0 < e ∧ e ≤ 1
  flatTail : optOK r.flatTail 0
  numLeaders : optOK r.numLeaders 0
  maxIterations : optOK r.maxIterations 0
  minIterations : optOK r.minIterations 1
  checkFreq : optOK r.checkFreq 1

/-- given size of a matrix reference (`0` when not inline) -/
def matSize : MatrixRef K → Nat
  | .inline m => m.size.toNat
  | _ => 0

/-- given size of an optional vector reference (`0` when absent or not inline) -/
def vecSize : Option (VectorRef K) → Nat
  | some (.inline v) => v.size.toNat
  | _ => 0

/-- the documented dimension: the largest given size -/
def docDim (r : ComputeReq K) : Nat :=
  max (matSize r.localTrust) (max (vecSize r.preTrust) (vecSize r.initialTrust))

/-- dense value of the given local trust (`0` outside its size) -/
def matDen : MatrixRef K → Nat → Nat → K
  | .inline m => denIM m
  | _ => fun _ _ => 0

/-- dense value of an optional given vector (`0` if absent or beyond its size) -/
def vecDen : Option (VectorRef K) → Nat → K
  | some (.inline v) => denIV v
  | _ => fun _ => 0

theorem optBad_false_iff (o : Option Int) (lo : Int) : optBad o lo = false ↔ optOK o lo := by
  unfold optBad optOK
  cases o with
  | none => simp
  | some x => simp

theorem guardB_false_iff (r : ComputeReq K) :
    guardB r = false ↔ optOK r.flatTail 0 ∧ optOK r.numLeaders 0 ∧ optOK r.maxIterations 0 ∧
      optOK r.minIterations 1 ∧ optOK r.checkFreq 1 := by
  unfold guardB
  simp only [Bool.or_eq_false_iff, optBad_false_iff, and_assoc]

theorem guardA_false_iff (r : ComputeReq K) :
    guardA r = false ↔ (∀ a, r.alpha = some a → 0 ≤ a ∧ a ≤ 1) ∧
      (∀ e, r.epsilon = some e → 0 < e ∧ e ≤ 1) := by
  unfold guardA
  cases r.alpha <;> cases r.epsilon <;>
    simp [Bool.or_eq_false_iff, not_lt, not_le]

/-- loading an absent or valid inline vector -/
theorem loadOptVec_valid {o : Option (VectorRef K)} (h : ValidVRef o) :
    ∃ pOpt, loadOptVec o = some pOpt ∧ optDim pOpt = vecSize o ∧
      WF (vecSize o) (optEntries pOpt) ∧ (∀ j, denE (optEntries pOpt) j = vecDen o j) ∧
      (pOpt = none ↔ o = none) ∧ (∀ e ∈ optEntries pOpt, 0 < e.val) := by
  cases o with
  | none =>
    exact ⟨none, rfl, rfl, Mg.wf_nil _, fun _ => rfl, by simp, fun e he => by cases he⟩
  | some ref =>
    cases ref with
    | inline v =>
      obtain ⟨p, h1, h2, h3, h4, h5⟩ := loadInlineVector_valid (h : ValidIVector v)
      refine ⟨some p, ?_, h2, h3, h4, by simp, h5⟩
      show (loadInlineVector v).map some = _
      rw [h1]; rfl
    | objectStorage u => exact absurd h (by simp [ValidVRef])
    | unknown u => exact absurd h (by simp [ValidVRef])

/-- `prepare` on a valid request, in closed form -/
theorem prepare_valid (k : Consts K) (s : Store K) {r : ComputeReq K} (h : ValidReq r) :
    ∃ (c0 c2 : CSM K) (pes : List (Entry K)) (tOpt : Option (Vec K)),
      (∀ i j, denRows c0.rows i j = matDen r.localTrust i j) ∧
      Aligned c0 pes (docDim r) c2 ⟨docDim r, pes⟩ ∧
      WF (docDim r) pes ∧ (∀ j, denE pes j = vecDen r.preTrust j) ∧
      (tOpt = none ↔ r.initialTrust = none) ∧
      (∀ t, tOpt = some t → WF (docDim r) t.entries ∧
        ∀ j, denE t.entries j = vecDen r.initialTrust j) ∧
      0 < docDim r ∧
      prepare k s r = some (effOf k r c2 ⟨docDim r, pes⟩
        (tOpt.map fun t => ⟨docDim r, t.entries⟩) (docDim r)) := by
  obtain ⟨m, hm, hvm⟩ := h.localTrust
  obtain ⟨c0, l1, l2, l3, l4, l5, l6, _⟩ := loadInlineMatrix_valid hvm
  obtain ⟨pOpt, p1, p2, p3, p4, _, _⟩ := loadOptVec_valid h.preTrust
  obtain ⟨tOpt, t1, t2, t3, t4, t5, _⟩ := loadOptVec_valid h.initialTrust
  have hload : loadMatrix s r.localTrust = some c0 := by rw [hm]; exact l1
  have hgA := (guardA_false_iff r).mpr ⟨h.alpha, h.epsilon⟩
  have hgB := (guardB_false_iff r).mpr
    ⟨h.flatTail, h.numLeaders, h.maxIterations, h.minIterations, h.checkFreq⟩
  obtain ⟨c2, ha, hprep⟩ := prepare_core k s r hload p1 t1 l2 l3 (l4.trans l5.symm) hgA hgB
  have hn : max (max c0.major (optDim pOpt)) (optDim tOpt) = docDim r := by
    unfold docDim
    rw [hm, l4, p2, t2, Nat.max_assoc]
    rfl
  rw [hn] at ha hprep
  have hpos : 0 < docDim r := by
    unfold docDim
    rw [hm]
    have := hvm.1
    simp only [matSize]
    omega
  refine ⟨c0, c2, optEntries pOpt, tOpt, ?_, ha, ?_, p4, t5, ?_, hpos, hprep⟩
  · intro i j; rw [l6, hm]; rfl
  · exact Mg.wf_mono p3 (by unfold docDim; omega)
  · intro t ht
    subst ht
    exact ⟨Mg.wf_mono t3 (by unfold docDim; omega), t4⟩

/-! ### well-formedness of the power iterates -/

theorem wf_vecScale {n : Nat} (a : K) {p : Vec K} (h : WF n p.entries) :
    WF n (Vec.scale a p).entries := by
  unfold Vec.scale
  split
  · exact Mg.wf_nil _
  · exact wf_scaleEntries a h

theorem wf_stepEntries {n : Nat} {ct : List (Row K)} (hct : ct.length = n) {ap : List (Entry K)}
    (hap : WF n ap) (q : K) (t : List (Entry K)) : WF n (stepEntries ct ap q t) := by
  unfold stepEntries
  apply wf_addEntries _ hap
  split
  · exact Mg.wf_nil _
  · apply wf_scaleEntries
    rw [← hct]; exact wf_mulVecEntries ct t

theorem wf_iterate {n : Nat} {ct : List (Row K)} (hct : ct.length = n) {ap : List (Entry K)}
    (hap : WF n ap) (q : K) {t0 : List (Entry K)} (ht : WF n t0) (m : Nat) :
    WF n (iterate ct ap q m t0) := by
  unfold iterate
  induction m with
  | zero => exact ht
  | succ m ih =>
    rw [Function.iterate_succ_apply']
    exact wf_stepEntries hct hap q _

/-! ### shapes after alignment, without well-formedness (for the exact 400 characterisation) -/

theorem setDim_major' (M : CSM K) (r c : Nat) : (M.setDim r c).major = r := by
  unfold CSM.setDim; simp

theorem setDim_minor' (M : CSM K) (r c : Nat) : (M.setDim r c).minor = c := by
  unfold CSM.setDim; simp

theorem vec_setDim_dim (v : Vec K) (d : Nat) : (v.setDim d).dim = d := by
  unfold Vec.setDim; split <;> rfl

theorem alignPre_shape {c0 : CSM K} (hsq : c0.major = c0.minor) (pOpt : Option (Vec K)) :
    (alignPre c0 pOpt).1.major = (alignPre c0 pOpt).2.2 ∧
    (alignPre c0 pOpt).1.minor = (alignPre c0 pOpt).2.2 ∧
    (alignPre c0 pOpt).2.1.dim = (alignPre c0 pOpt).2.2 := by
  cases pOpt with
  | none => exact ⟨rfl, hsq.symm, rfl⟩
  | some p =>
    simp only [alignPre]
    by_cases h1 : p.dim < c0.major
    · rw [if_pos h1]; exact ⟨rfl, hsq.symm, vec_setDim_dim _ _⟩
    · rw [if_neg h1]
      by_cases h2 : c0.major < p.dim
      · rw [if_pos h2]; exact ⟨setDim_major' _ _ _, setDim_minor' _ _ _, rfl⟩
      · rw [if_neg h2]; exact ⟨rfl, hsq.symm, by simp only; omega⟩

theorem alignInit_shape {x : CSM K × Vec K × Nat} (h1 : x.1.major = x.2.2)
    (h2 : x.1.minor = x.2.2) (h3 : x.2.1.dim = x.2.2) (tOpt : Option (Vec K)) :
    (alignInit x tOpt).1.major = (alignInit x tOpt).1.minor ∧
    (alignInit x tOpt).2.1.dim = (alignInit x tOpt).1.major := by
  cases tOpt with
  | none => exact ⟨h1.trans h2.symm, h3.trans h1.symm⟩
  | some t =>
    simp only [alignInit]
    by_cases c1 : t.dim < x.2.2
    · rw [if_pos c1]; exact ⟨h1.trans h2.symm, h3.trans h1.symm⟩
    · rw [if_neg c1]
      by_cases c2 : x.2.2 < t.dim
      · rw [if_pos c2]
        exact ⟨(setDim_major' _ _ _).trans (setDim_minor' _ _ _).symm,
          (vec_setDim_dim _ _).trans (setDim_major' _ _ _).symm⟩
      · rw [if_neg c2]; exact ⟨h1.trans h2.symm, h3.trans h1.symm⟩

/-- for a square loaded matrix the last stage never fails -/
theorem finish_isSome (k : Consts K) (r : ComputeReq K) {c0 : CSM K} (hsq : c0.major = c0.minor)
    (pOpt tOpt : Option (Vec K)) :
    ∃ eff, finish k r (alignInit (alignPre c0 pOpt) tOpt) = some eff := by
  obtain ⟨a, b, c⟩ := alignPre_shape hsq pOpt
  obtain ⟨d, e⟩ := alignInit_shape a b c tOpt
  exact ⟨_, finish_eq k r _ _ _ _ d e⟩

theorem loadInlineMatrix_square {m : IMatrix K} {c0 : CSM K} (h : loadInlineMatrix m = some c0) :
    c0.major = c0.minor := by
  classical
  rw [loadInlineMatrix_eq] at h
  split at h
  · cases h; rfl
  · cases h

/-! ### GET bodies: `entriesOf` -/

/-- cells of a row table whose first row has number `k` -/
def cellsFrom (rows : List (Row K)) (k : Nat) : List (Nat × Nat × K) :=
  ((rows.zipIdx k).map fun (r, i) => r.map fun e => (i, e.idx, e.val)).flatten

theorem entriesOf_eq (M : CSM K) : entriesOf M = cellsFrom M.rows 0 := rfl

@[simp] theorem cellsFrom_nil (k : Nat) : cellsFrom ([] : List (Row K)) k = [] := rfl

theorem cellsFrom_cons (r : Row K) (rs : List (Row K)) (k : Nat) :
    cellsFrom (r :: rs) k = (r.map fun e => (k, e.idx, e.val)) ++ cellsFrom rs (k + 1) := by
  simp [cellsFrom, List.zipIdx_cons]

theorem mem_cellsFrom {rows : List (Row K)} {k i j : Nat} {v : K} :
    (i, j, v) ∈ cellsFrom rows k ↔ k ≤ i ∧ (⟨j, v⟩ : Entry K) ∈ rows.getD (i - k) [] := by
  induction rows generalizing k with
  | nil => simp
  | cons r rs ih =>
    rw [cellsFrom_cons, List.mem_append, ih, List.mem_map]
    constructor
    · rintro (⟨e, he, heq⟩ | ⟨h1, h2⟩)
      · simp only [Prod.mk.injEq] at heq
        obtain ⟨rfl, rfl, rfl⟩ := heq
        refine ⟨le_refl _, ?_⟩
        rw [Nat.sub_self]; exact he
      · refine ⟨by omega, ?_⟩
        have : i - k = (i - (k + 1)) + 1 := by omega
        rw [this]; exact h2
    · rintro ⟨h1, h2⟩
      by_cases hk : i = k
      · left
        subst hk
        rw [Nat.sub_self] at h2
        exact ⟨⟨j, v⟩, h2, rfl⟩
      · right
        have : i - k = (i - (k + 1)) + 1 := by omega
        rw [this] at h2
        exact ⟨by omega, h2⟩

/-- a GET body lists `(i, j, v)` exactly when `v` is stored at row `i`, column `j` -/
theorem mem_entriesOf {M : CSM K} {i j : Nat} {v : K} :
    (i, j, v) ∈ entriesOf M ↔ (⟨j, v⟩ : Entry K) ∈ M.rows.getD i [] := by
  rw [entriesOf_eq, mem_cellsFrom]; simp

/-- dense reading of a list of cells: the sum of the listed values at `(i, j)` -/
def denCells (es : List (Nat × Nat × K)) (i j : Nat) : K :=
  ((es.filter fun e => decide (e.1 = i) && decide (e.2.1 = j)).map (·.2.2)).sum

theorem denCells_append (a b : List (Nat × Nat × K)) (i j : Nat) :
    denCells (a ++ b) i j = denCells a i j + denCells b i j := by
  simp [denCells]

theorem denCells_row (r : Row K) (k i j : Nat) :
    denCells (r.map fun e => (k, e.idx, e.val)) i j = if k = i then denE r j else 0 := by
  induction r with
  | nil => simp [denCells]
  | cons e r ih =>
    rw [List.map_cons, ← List.singleton_append, denCells_append, ih, denE_cons]
    by_cases hk : k = i <;> by_cases he : e.idx = j <;> simp [denCells, hk, he]

theorem denCells_cellsFrom (rows : List (Row K)) (k i j : Nat) :
    denCells (cellsFrom rows k) i j = if k ≤ i then denE (rows.getD (i - k) []) j else 0 := by
  induction rows generalizing k with
  | nil => simp [denCells]
  | cons r rs ih =>
    rw [cellsFrom_cons, denCells_append, denCells_row, ih]
    by_cases hk : k = i
    · subst hk; simp
    · by_cases hle : k ≤ i
      · have h1 : k + 1 ≤ i := by omega
        have : i - k = (i - (k + 1)) + 1 := by omega
        rw [if_neg hk, if_pos h1, if_pos hle, this]; simp
      · have h1 : ¬ k + 1 ≤ i := by omega
        rw [if_neg hk, if_neg h1, if_neg hle]; simp

/-- the dense reading of a GET body is the dense content of the stored matrix -/
theorem denCells_entriesOf (M : CSM K) (i j : Nat) :
    denCells (entriesOf M) i j = denRows M.rows i j := by
  rw [entriesOf_eq, denCells_cellsFrom]; simp [denRows]

/-! ### a GET body sent back inline reproduces the matrix -/

/-- no stored value is zero -/
def NoZero (M : CSM K) : Prop := ∀ i, ∀ e ∈ M.rows.getD i [], e.val ≠ 0

/-- the inline body a GET answers with -/
def renderI (M : CSM K) : IMatrix K :=
  ⟨(M.major : Int), (entriesOf M).map fun (i, j, v) => ((i : Int), (j : Int), v)⟩

/-- cells of a row table as `NewCSRMatrix` coordinates -/
def cooFrom (rows : List (Row K)) (k : Nat) : List (Coo K) :=
  (cellsFrom rows k).map fun (i, j, v) => ⟨i, j, v⟩

theorem cooFrom_cons (r : Row K) (rs : List (Row K)) (k : Nat) :
    cooFrom (r :: rs) k = (r.map fun e => (⟨k, e.idx, e.val⟩ : Coo K)) ++ cooFrom rs (k + 1) := by
  simp [cooFrom, cellsFrom_cons, List.map_map, Function.comp_def]

theorem cooOfI_renderI (M : CSM K) : cooOfI (renderI M) = cooFrom M.rows 0 := by
  unfold cooOfI renderI cooFrom
  rw [List.map_map, entriesOf_eq]
  apply List.map_congr_left
  rintro ⟨i, j, v⟩ _
  simp

theorem bucketRow_append (inc : Bool) (a b : List (Coo K)) (i : Nat) :
    Mx.bucketRow inc (a ++ b) i = Mx.bucketRow inc a i ++ Mx.bucketRow inc b i := by
  simp [Mx.bucketRow]

theorem bucketRow_row {r : Row K} (hnz : ∀ e ∈ r, e.val ≠ 0) (k i : Nat) :
    Mx.bucketRow false (r.map fun e => (⟨k, e.idx, e.val⟩ : Coo K)) i = if k = i then r else [] := by
  induction r with
  | nil => simp
  | cons e r ih =>
    rw [List.map_cons, Mx.bucketRow_cons, ih (fun x hx => hnz x (by simp [hx]))]
    have he : e.val ≠ 0 := hnz e (by simp)
    by_cases hk : k = i <;> simp [hk, he]

theorem bucketRow_cooFrom {rows : List (Row K)} (hnz : ∀ r ∈ rows, ∀ e ∈ r, e.val ≠ 0)
    (k i : Nat) :
    Mx.bucketRow false (cooFrom rows k) i = if k ≤ i then rows.getD (i - k) [] else [] := by
  induction rows generalizing k with
  | nil => simp [cooFrom]
  | cons r rs ih =>
    rw [cooFrom_cons, bucketRow_append, bucketRow_row (hnz r (by simp)),
      ih (fun r' hr' => hnz r' (by simp [hr']))]
    by_cases hk : k = i
    · subst hk; simp
    · by_cases hle : k ≤ i
      · have h1 : k + 1 ≤ i := by omega
        have : i - k = (i - (k + 1)) + 1 := by omega
        rw [if_neg hk, if_pos h1, if_pos hle, this]; simp
      · have h1 : ¬ k + 1 ≤ i := by omega
        rw [if_neg hk, if_neg h1, if_neg hle]; simp

theorem sortByIdx_of_sorted {l : List (Entry K)} (h : Sorted l) : sortByIdx l = l := by
  induction l with
  | nil => rfl
  | cons e l ih =>
    rw [Mx.sortByIdx_cons, ih h.tail]
    cases l with
    | nil => rfl
    | cons x xs =>
      have := h.head_lt x (by simp)
      simp [insertByIdx, this]

theorem noZero_mem {M : CSM K} (h : NoZero M) : ∀ r ∈ M.rows, ∀ e ∈ r, e.val ≠ 0 := by
  intro r hr e he
  obtain ⟨i, _, rfl⟩ := Mx.mem_iff_getD.mp hr
  exact h i e he

theorem inRange_renderI {M : CSM K} (hw : WFM M) (hsq : M.major = M.minor) :
    InRangeM (renderI M) := by
  intro e he
  obtain ⟨⟨i, j, v⟩, hm, rfl⟩ := List.mem_map.mp he
  have hm' := mem_entriesOf.mp hm
  have hi : i < M.major := by
    by_contra hge
    rw [Mx.getD_of_ge (by rw [hw.1]; omega)] at hm'
    cases hm'
  have hj : j < M.minor := (Mx.WFM.row hw i).2 _ hm'
  simp only [renderI]
  omega

/-- A GET body PUT back (or sent inline to `/compute`) is accepted and reproduces the stored rows
    and dimensions. -/
theorem load_renderI {M : CSM K} (hw : WFM M) (hsq : M.major = M.minor) (hnz : NoZero M)
    (h1 : 1 ≤ M.major) :
    loadInlineMatrix (renderI M) = some ⟨M.major, M.major, M.rows, []⟩ := by
  classical
  rw [loadInlineMatrix_eq, if_pos ⟨by simp only [renderI]; omega, inRange_renderI hw hsq⟩]
  have hsz : (renderI M).size.toNat = M.major := by simp [renderI]
  rw [hsz, cooOfI_renderI]
  have hrows : (CSM.newCSR M.major M.major (cooFrom M.rows 0) false).rows = M.rows := by
    apply List.ext_getElem?
    intro i
    rw [Mx.newCSR_getElem?, bucketRow_cooFrom (noZero_mem hnz)]
    by_cases hi : i < M.major
    · have hi' : i < M.rows.length := by rw [hw.1]; exact hi
      rw [if_pos hi, if_pos (Nat.zero_le _), Nat.sub_zero,
        sortByIdx_of_sorted (Mx.WFM.row hw i).1, Mx.getD_eq, List.getElem?_eq_getElem hi']
      rfl
    · rw [if_neg hi, List.getElem?_eq_none_iff.mpr (by rw [hw.1]; omega)]
  have : CSM.newCSR M.major M.major (cooFrom M.rows 0) false
      = ⟨M.major, M.major, (CSM.newCSR M.major M.major (cooFrom M.rows 0) false).rows, []⟩ := rfl
  rw [this, hrows]

/-! ### the sequential store -/

theorem get?_mem {s : Store K} {id : String} {M : CSM K} (h : s.get? id = some M) :
    (id, M) ∈ s := by
  unfold Store.get? at h
  cases hf : s.find? (·.1 == id) with
  | none => rw [hf] at h; cases h
  | some p =>
    rw [hf] at h
    have hm := List.mem_of_find?_eq_some hf
    have hp := List.find?_some hf
    simp only [beq_iff_eq] at hp
    simp only [Option.map_some, Option.some.injEq] at h
    obtain ⟨a, b⟩ := p
    simp only at hp h
    subst hp; subst h
    exact hm

theorem find?_filter_ne (s : Store K) (id id' : String) :
    (s.filter (·.1 != id)).find? (·.1 == id') =
      if id' = id then none else s.find? (·.1 == id') := by
  induction s with
  | nil => simp
  | cons p s ih =>
    by_cases hp : p.1 = id
    · rw [List.filter_cons_of_neg (by simp [hp]), ih]
      by_cases h : id' = id
      · rw [if_pos h, if_pos h]
      · rw [if_neg h, if_neg h, List.find?_cons_of_neg]
        simp only [beq_iff_eq, hp]
        exact fun e => h e.symm
    · rw [List.filter_cons_of_pos (by simp [hp])]
      by_cases hp' : p.1 = id'
      · have h : ¬ id' = id := fun e => hp (hp'.trans e)
        rw [if_neg h, List.find?_cons_of_pos (by simp [hp']), List.find?_cons_of_pos (by simp [hp'])]
      · rw [List.find?_cons_of_neg (by simp [hp']), List.find?_cons_of_neg (by simp [hp']), ih]

theorem get?_set (s : Store K) (id : String) (m : CSM K) (id' : String) :
    (Store.set s id m).get? id' = if id' = id then some m else s.get? id' := by
  unfold Store.set Store.get?
  by_cases h : id' = id
  · subst h
    rw [List.find?_cons_of_pos (by simp), if_pos rfl]; rfl
  · rw [List.find?_cons_of_neg (by simp only [beq_iff_eq]; exact fun e => h e.symm),
      find?_filter_ne, if_neg h, if_neg h]

theorem get?_erase (s : Store K) (id id' : String) :
    (Store.erase s id).get? id' = if id' = id then none else s.get? id' := by
  unfold Store.erase Store.get?
  rw [find?_filter_ne]
  by_cases h : id' = id
  · rw [if_pos h, if_pos h]; rfl
  · rw [if_neg h, if_neg h]

theorem mem_set {s : Store K} {id : String} {m : CSM K} {p : String × CSM K}
    (hp : p ∈ Store.set s id m) : p = (id, m) ∨ p ∈ s := by
  unfold Store.set at hp
  rcases List.mem_cons.mp hp with h | h
  · exact Or.inl h
  · exact Or.inr (List.mem_filter.mp h).1

theorem mem_erase {s : Store K} {id : String} {p : String × CSM K}
    (hp : p ∈ Store.erase s id) : p ∈ s := (List.mem_filter.mp hp).1

/-- merging into a matrix with nothing hidden leaves nothing hidden (the row table only grows) -/
theorem merge_hidden_nil {A : CSM K} (hA : A.rows.length = A.major) (hh : A.hidden = [])
    (B : CSM K) : (A.merge B).1.hidden = [] := by
  rw [Mx.merge_fst]
  simp only [Mx.setMinorDim_hidden]
  unfold CSM.setMajorDim
  simp only
  split
  · rfl
  · rename_i hcap
    rw [hh] at hcap ⊢
    simp only [List.length_nil, Nat.add_zero, List.append_nil] at hcap ⊢
    have : A.rows.length ≤ max A.major B.major := by rw [hA]; exact Nat.le_max_left _ _
    rw [List.drop_eq_nil_of_le this]
    rfl

/-- invariant of a stored matrix: well-formed, square, nothing hidden, no stored zero, size ≥ 1 -/
structure MatInv (M : CSM K) : Prop where
  wfm : WFM M
  square : M.major = M.minor
  clean : HiddenClean M
  noZero : NoZero M
  pos : 1 ≤ M.major
  hiddenNil : M.hidden = []

/-- invariant of the store -/
def StoreInv (s : Store K) : Prop := ∀ p ∈ s, MatInv p.2

theorem StoreInv.get {s : Store K} (h : StoreInv s) {id : String} {M : CSM K}
    (hg : s.get? id = some M) : MatInv M := h _ (get?_mem hg)

theorem StoreInv.set {s : Store K} (h : StoreInv s) (id : String) {M : CSM K} (hM : MatInv M) :
    StoreInv (Store.set s id M) := by
  intro p hp
  rcases mem_set hp with rfl | hp
  · exact hM
  · exact h p hp

theorem StoreInv.erase {s : Store K} (h : StoreInv s) (id : String) :
    StoreInv (Store.erase s id) := fun p hp => h p (mem_erase hp)

theorem MatInv.merge {A B : CSM K} (hA : MatInv A) (hB : MatInv B) : MatInv (A.merge B).1 := by
  refine ⟨Mx.merge_wfm hA.wfm hA.clean hB.wfm, ?_, Mx.merge_hiddenClean hA.clean B, ?_, ?_,
    merge_hidden_nil hA.wfm.1 hA.hiddenNil B⟩
  · rw [Mx.merge_major, Mx.merge_minor, hA.square, hB.square]
  · intro i e he
    rw [Mx.merge_getD hA.wfm.1 hA.clean hB.wfm.1] at he
    rcases Mg.mem_mergeSpan he with h | h
    · exact hA.noZero i e h
    · exact hB.noZero i e h
  · rw [Mx.merge_major]; have := hA.pos; omega

/-- a successfully loaded inline matrix with pairwise distinct coordinates satisfies the
    invariant and denotes the listed values -/
theorem MatInv.load {m : IMatrix K} {c : CSM K} (h : loadInlineMatrix m = some c)
    (hd : (m.entries.map fun e => (e.1, e.2.1)).Nodup) :
    MatInv c ∧ c.major = m.size.toNat ∧ ∀ i j, denRows c.rows i j = denIM m i j := by
  classical
  have hv : ValidIMatrix m := by
    rw [loadInlineMatrix_eq] at h
    split at h
    · rename_i hc; exact ⟨by omega, hc.2, hd⟩
    · cases h
  obtain ⟨c0, l1, l2, l3, l4, l5, l6, l7, l8⟩ := loadInlineMatrix_valid hv
  rw [h] at l1
  injection l1 with l1
  subst l1
  exact ⟨⟨l2, l4.trans l5.symm, l3, l7, by rw [l4]; have := hv.1; omega, l8⟩, l4, l6⟩

/-- with no stored zero, a cell is stored exactly when its dense value is non-zero -/
theorem stored_iff_ne_zero {M : CSM K} (hw : WFM M) (hnz : NoZero M) (i j : Nat) :
    (∃ e ∈ M.rows.getD i [], e.idx = j) ↔ denRows M.rows i j ≠ 0 := by
  constructor
  · rintro ⟨e, he, rfl⟩
    unfold denRows
    rw [Mg.denE_of_mem (Mx.WFM.row hw i).1 he]
    exact hnz i e he
  · intro h
    exact exists_mem_of_denE_ne_zero h

/-! ### a GET body has pairwise distinct coordinates -/

theorem cellsFrom_nodup {rows : List (Row K)} (hs : ∀ r ∈ rows, Sorted r) (k : Nat) :
    ((cellsFrom rows k).map fun e => (e.1, e.2.1)).Nodup := by
  induction rows generalizing k with
  | nil => simp
  | cons r rs ih =>
    rw [cellsFrom_cons, List.map_append, List.nodup_append]
    refine ⟨?_, ih (fun r' hr' => hs r' (by simp [hr'])) (k + 1), ?_⟩
    · rw [List.map_map]
      unfold List.Nodup
      rw [List.pairwise_map]
      have := hs r (by simp)
      refine List.Pairwise.imp ?_ this
      intro a b hab heq
      simp only [Function.comp_apply, Prod.mk.injEq] at heq
      omega
    · intro a ha b hb hab
      subst hab
      simp only [List.map_map, List.mem_map, Function.comp_apply] at ha
      obtain ⟨e, _, rfl⟩ := ha
      obtain ⟨⟨i, j, v⟩, hm, heq⟩ := List.mem_map.mp hb
      have := (mem_cellsFrom.mp hm).1
      simp only [Prod.mk.injEq] at heq
      omega

theorem entriesOf_nodup {M : CSM K} (hw : WFM M) :
    ((entriesOf M).map fun e => (e.1, e.2.1)).Nodup :=
  cellsFrom_nodup (fun r hr => (hw.2 r hr).1) 0

/-- the GET body of a stored matrix is a valid inline matrix -/
theorem valid_renderI {M : CSM K} (hw : WFM M) (hsq : M.major = M.minor) (h1 : 1 ≤ M.major) :
    ValidIMatrix (renderI M) := by
  refine ⟨by simp only [renderI]; omega, inRange_renderI hw hsq, ?_⟩
  simp only [renderI, List.map_map]
  have : ((fun e : Int × Int × K => (e.1, e.2.1)) ∘ fun (x : Nat × Nat × K) =>
      match x with | (i, j, v) => ((i : Int), (j : Int), v))
      = (fun q : Nat × Nat => ((q.1 : Int), (q.2 : Int))) ∘ fun e : Nat × Nat × K => (e.1, e.2.1) := by
    funext ⟨i, j, v⟩; rfl
  rw [this, ← List.map_map]
  apply List.Nodup.map _ (entriesOf_nodup hw)
  intro a b hab
  simp only [Prod.mk.injEq, Nat.cast_inj] at hab
  exact Prod.ext hab.1 hab.2

/-! ### exact arithmetic never meets a non-finite delta -/

theorem nonFinite_field (x : K) : nonFinite x = false := by
  unfold nonFinite
  simp only [s_le, s_eq, s_add, s_isZero, le_refl, decide_true, Bool.not_true, Bool.false_or,
    Bool.and_eq_false_iff, decide_eq_false_iff_not, Bool.not_eq_false', decide_eq_true_eq]
  by_cases hx : x = 0
  · exact Or.inr hx
  · left
    intro h
    apply hx
    have := congrArg (· - x) h
    simpa using this

theorem loopOf_not_nonFinite (fuel : Nat) (c : CSM K) (p : Vec K) (a e : K) (o : ComputeOpts K) :
    (loopOf fuel c p a e o).2 ≠ .nonFinite := by
  intro hnf
  cases hl : loopOf fuel c p a e o with
  | mk s by_ =>
    rw [hl] at hnf
    simp only at hnf
    subst hnf
    unfold loopOf at hl
    have := (loop_spec _ _ _ _ _ _ _ _ _ fuel _ s _ hl).2.2.2.2.2.2.1 rfl
    have h4 := this.2.2.2.1
    unfold nonFiniteAt at h4
    rw [nonFinite_field] at h4
    cases h4

/-! ### requests naming a stored matrix reduce to inline requests -/

/-- documented validity of everything in a request except the local trust reference -/
structure ValidRest (r : ComputeReq K) : Prop where
  preTrust : ValidVRef r.preTrust
  initialTrust : ValidVRef r.initialTrust
  alpha : ∀ a, r.alpha = some a → 0 ≤ a ∧ a ≤ 1
  epsilon : ∀ e, r.epsilon = some e → 0 < e ∧ e ≤ 1
  flatTail : optOK r.flatTail 0
  numLeaders : optOK r.numLeaders 0
  maxIterations : optOK r.maxIterations 0
  minIterations : optOK r.minIterations 1
  checkFreq : optOK r.checkFreq 1

theorem ValidReq.rest {r : ComputeReq K} (h : ValidReq r) : ValidRest r :=
  ⟨h.preTrust, h.initialTrust, h.alpha, h.epsilon, h.flatTail, h.numLeaders, h.maxIterations,
    h.minIterations, h.checkFreq⟩

theorem ValidRest.withInline {r : ComputeReq K} (h : ValidRest r) {m : IMatrix K}
    (hm : ValidIMatrix m) : ValidReq { r with localTrust := .inline m } :=
  ⟨⟨m, rfl, hm⟩, h.preTrust, h.initialTrust, h.alpha, h.epsilon, h.flatTail, h.numLeaders,
    h.maxIterations, h.minIterations, h.checkFreq⟩

/-- the GET body of a stored matrix denotes the stored content -/
theorem denIM_renderI {M : CSM K} (hM : MatInv M) (i j : Nat) :
    denIM (renderI M) i j = denRows M.rows i j := by
  obtain ⟨c0, l1, _, _, _, _, l6, _⟩ :=
    loadInlineMatrix_valid (valid_renderI hM.wfm hM.square hM.pos)
  rw [load_renderI hM.wfm hM.square hM.noZero hM.pos] at l1
  injection l1 with l1
  subst l1
  exact (l6 i j).symm

/-- a stored matrix is what loading its GET body gives -/
theorem load_renderI_eq {M : CSM K} (hM : MatInv M) : loadInlineMatrix (renderI M) = some M := by
  rw [load_renderI hM.wfm hM.square hM.noZero hM.pos]
  congr 1
  have h1 := hM.square
  have h2 := hM.hiddenNil
  cases M
  simp only at h1 h2
  subst h1; subst h2; rfl

end EtVerif.OapiL
