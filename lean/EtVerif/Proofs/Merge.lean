/-
  Helper lemmas for `mergeSpan` / `Vec.merge` (matrix.go 110-152, vector.go 290-294):
  membership, sortedness and the dense value of a last-writer-wins merge of two spans.
-/
import EtVerif.Proofs.Vec

namespace EtVerif
open Scalar

variable {K : Type} [Field K] [LinearOrder K]

set_option linter.unusedSectionVars false

/-! All helper lemmas of this file live in the namespace `EtVerif.Mg` (so that they cannot clash
    with lemmas other files add to `EtVerif`). -/
namespace Mg

/-! ### generic facts about `Sorted`, `WF`, `denE` -/

theorem sorted_nil : Sorted ([] : List (Entry K)) := List.Pairwise.nil

theorem wf_nil (d : Nat) : WF d ([] : List (Entry K)) := ⟨sorted_nil, by simp⟩

theorem sorted_cons {a : Entry K} {s : List (Entry K)} :
    Sorted (a :: s) ↔ (∀ e ∈ s, a.idx < e.idx) ∧ Sorted s := List.pairwise_cons

theorem wf_mono {d d' : Nat} {s : List (Entry K)} (h : WF d s) (hd : d ≤ d') : WF d' s :=
  ⟨h.1, fun e he => Nat.lt_of_lt_of_le (h.2 e he) hd⟩

/-- in a strictly sorted span the dense value at a stored index is the stored value -/
theorem denE_of_mem {s : List (Entry K)} (hs : Sorted s) {e : Entry K} (he : e ∈ s) :
    denE s e.idx = e.val := by
  induction s with
  | nil => simp at he
  | cons a s ih =>
    rcases List.mem_cons.mp he with rfl | he'
    · simp [denE_tail_of_le_head hs (Nat.le_refl _)]
    · have hlt := hs.head_lt e he'
      have hne : a.idx ≠ e.idx := by omega
      simp [hne, ih hs.tail he']

theorem denE_of_not_mem {s : List (Entry K)} {i : Nat} (h : ¬ ∃ e ∈ s, e.idx = i) :
    denE s i = 0 :=
  denE_eq_zero_of_forall_ne (fun e he hi => h ⟨e, he, hi⟩)

/-- the dense value outside the dimension of a well-formed span is zero -/
theorem denE_of_ge_dim {d : Nat} {s : List (Entry K)} (h : WF d s) {i : Nat} (hi : d ≤ i) :
    denE s i = 0 :=
  denE_eq_zero_of_forall_ne (fun e he => by have := h.2 e he; omega)

/-- two strictly sorted spans with the same stored entries are the same list -/
theorem sorted_ext {s t : List (Entry K)} (hs : Sorted s) (ht : Sorted t)
    (h : ∀ e, e ∈ s ↔ e ∈ t) : s = t := by
  have nd : ∀ {l : List (Entry K)}, Sorted l → l.Nodup := by
    intro l hl
    refine List.Pairwise.imp ?_ hl
    intro a b hab heq
    subst heq; omega
  have hp : s.Perm t := (List.perm_ext_iff_of_nodup (nd hs) (nd ht)).mpr h
  exact List.Perm.eq_of_pairwise (le := fun a b : Entry K => a.idx < b.idx)
    (fun a b _ _ h1 h2 => by omega) hs ht hp

/-! ### mergeSpan -/

theorem mem_mergeSpan {s1 s2 : List (Entry K)} {e : Entry K} (h : e ∈ mergeSpan s1 s2) :
    e ∈ s1 ∨ e ∈ s2 := by
  fun_induction mergeSpan s1 s2 with
  | case1 s1 => exact Or.inl h
  | case2 s2 _ => exact Or.inr h
  | case3 a s1 b s2 _ ih =>
    rcases List.mem_cons.mp h with rfl | h
    · simp
    · rcases ih h with h | h
      · exact Or.inl (List.mem_cons_of_mem _ h)
      · exact Or.inr h
  | case4 a s1 b s2 _ _ _ ih =>
    rcases List.mem_cons.mp h with rfl | h
    · simp
    · rcases ih h with h | h
      · exact Or.inl h
      · exact Or.inr (List.mem_cons_of_mem _ h)
  | case5 a s1 b s2 _ _ _ ih =>
    rcases ih h with h | h
    · exact Or.inl h
    · exact Or.inr (List.mem_cons_of_mem _ h)
  | case6 a s1 b s2 _ _ _ ih =>
    rcases List.mem_cons.mp h with rfl | h
    · simp
    · rcases ih h with h | h
      · exact Or.inl (List.mem_cons_of_mem _ h)
      · exact Or.inr (List.mem_cons_of_mem _ h)
  | case7 a s1 b s2 _ _ _ ih =>
    rcases ih h with h | h
    · exact Or.inl (List.mem_cons_of_mem _ h)
    · exact Or.inr (List.mem_cons_of_mem _ h)

theorem sorted_mergeSpan' {s1 s2 : List (Entry K)} (h1 : Sorted s1) (h2 : Sorted s2) :
    Sorted (mergeSpan s1 s2) := by
  fun_induction mergeSpan s1 s2 with
  | case1 s1 => exact h1
  | case2 s2 _ => exact h2
  | case3 a s1 b s2 hab ih =>
    refine sorted_cons.mpr ⟨?_, ih h1.tail h2⟩
    intro e he
    rcases mem_mergeSpan he with he | he
    · exact h1.head_lt e he
    · rcases List.mem_cons.mp he with rfl | he
      · exact hab
      · have := h2.head_lt e he; omega
  | case4 a s1 b s2 _ hba _ ih =>
    refine sorted_cons.mpr ⟨?_, ih h1 h2.tail⟩
    intro e he
    rcases mem_mergeSpan he with he | he
    · rcases List.mem_cons.mp he with rfl | he
      · exact hba
      · have := h1.head_lt e he; omega
    · exact h2.head_lt e he
  | case5 a s1 b s2 _ _ _ ih => exact ih h1 h2.tail
  | case6 a s1 b s2 _ _ _ ih =>
    refine sorted_cons.mpr ⟨?_, ih h1.tail h2.tail⟩
    intro e he
    rcases mem_mergeSpan he with he | he
    · have := h1.head_lt e he; omega
    · exact h2.head_lt e he
  | case7 a s1 b s2 _ _ _ ih => exact ih h1.tail h2.tail

theorem wf_mergeSpan' {d : Nat} {s1 s2 : List (Entry K)} (h1 : WF d s1) (h2 : WF d s2) :
    WF d (mergeSpan s1 s2) :=
  ⟨sorted_mergeSpan' h1.1 h2.1, fun e he => by
    rcases mem_mergeSpan he with he | he
    · exact h1.2 e he
    · exact h2.2 e he⟩

private theorem not_ex_cons {b : Entry K} {s : List (Entry K)} {i : Nat} (hb : b.idx ≠ i) :
    (∃ e ∈ b :: s, e.idx = i) ↔ ∃ e ∈ s, e.idx = i := by
  simp [hb]

private theorem not_ex_of_head_eq {b : Entry K} {s : List (Entry K)} (h : Sorted (b :: s)) :
    ¬ ∃ e ∈ s, e.idx = b.idx := by
  rintro ⟨e, he, hi⟩
  have := h.head_lt e he; omega

private theorem not_ex_of_lt_head {b : Entry K} {s : List (Entry K)} {i : Nat}
    (h : Sorted (b :: s)) (hi : i < b.idx) : ¬ ∃ e ∈ b :: s, e.idx = i := by
  rintro ⟨e, he, hi'⟩
  rcases List.mem_cons.mp he with rfl | he
  · omega
  · have := h.head_lt e he; omega

/-- dense value of a merged span: the update wins wherever it stores an entry -/
theorem den_mergeSpan' {s1 s2 : List (Entry K)} (h1 : Sorted s1) (h2 : Sorted s2) (i : Nat) :
    denE (mergeSpan s1 s2) i = if ∃ e ∈ s2, e.idx = i then denE s2 i else denE s1 i := by
  fun_induction mergeSpan s1 s2 with
  | case1 s1 => simp
  | case2 s2 _ =>
    by_cases h : ∃ e ∈ s2, e.idx = i
    · rw [if_pos h]
    · rw [if_neg h, denE_of_not_mem h]; rfl
  | case3 a s1 b s2 hab ih =>
    have ih := ih h1.tail h2
    rw [denE_cons a, ih]
    by_cases hai : a.idx = i
    · have hn : ¬ ∃ e ∈ b :: s2, e.idx = i := not_ex_of_lt_head h2 (by omega)
      rw [if_pos hai, if_neg hn, if_neg hn, denE_cons a, if_pos hai]
    · rw [if_neg hai, denE_cons a, if_neg hai]
  | case4 a s1 b s2 _ hba _ ih =>
    have ih := ih h1 h2.tail
    rw [denE_cons b, ih]
    by_cases hbi : b.idx = i
    · have hn : ¬ ∃ e ∈ s2, e.idx = i := hbi ▸ not_ex_of_head_eq h2
      have hp : ∃ e ∈ b :: s2, e.idx = i := ⟨b, by simp, hbi⟩
      rw [if_pos hbi, if_neg hn, if_pos hp, denE_cons b, if_pos hbi, denE_of_not_mem hn,
        denE_of_lt_head h1 (by omega)]
    · rw [if_neg hbi, denE_cons b, if_neg hbi]
      simp only [not_ex_cons hbi]
  | case5 a s1 b s2 _ hba hz ih =>
    have ih := ih h1 h2.tail
    have hz : b.val = 0 := by simpa using hz
    rw [ih]
    by_cases hbi : b.idx = i
    · have hn : ¬ ∃ e ∈ s2, e.idx = i := hbi ▸ not_ex_of_head_eq h2
      have hp : ∃ e ∈ b :: s2, e.idx = i := ⟨b, by simp, hbi⟩
      rw [if_neg hn, if_pos hp, denE_cons b, if_pos hbi, denE_of_not_mem hn,
        denE_of_lt_head h1 (by omega), hz, add_zero]
    · rw [denE_cons b, if_neg hbi]
      simp only [not_ex_cons hbi]
  | case6 a s1 b s2 hab hba _ ih =>
    have ih := ih h1.tail h2.tail
    have hab : a.idx = b.idx := by omega
    rw [denE_cons b, ih]
    by_cases hbi : b.idx = i
    · have hn : ¬ ∃ e ∈ s2, e.idx = i := hbi ▸ not_ex_of_head_eq h2
      have hn1 : ¬ ∃ e ∈ s1, e.idx = i := hbi ▸ hab ▸ not_ex_of_head_eq h1
      have hp : ∃ e ∈ b :: s2, e.idx = i := ⟨b, by simp, hbi⟩
      rw [if_pos hbi, if_neg hn, if_pos hp, denE_cons b, if_pos hbi, denE_of_not_mem hn,
        denE_of_not_mem hn1]
    · have hai : a.idx ≠ i := by omega
      rw [if_neg hbi, denE_cons b, if_neg hbi, denE_cons a, if_neg hai]
      simp only [not_ex_cons hbi]
  | case7 a s1 b s2 hab hba hz ih =>
    have ih := ih h1.tail h2.tail
    have hab : a.idx = b.idx := by omega
    have hz : b.val = 0 := by simpa using hz
    rw [ih]
    by_cases hbi : b.idx = i
    · have hn : ¬ ∃ e ∈ s2, e.idx = i := hbi ▸ not_ex_of_head_eq h2
      have hn1 : ¬ ∃ e ∈ s1, e.idx = i := hbi ▸ hab ▸ not_ex_of_head_eq h1
      have hp : ∃ e ∈ b :: s2, e.idx = i := ⟨b, by simp, hbi⟩
      rw [if_neg hn, if_pos hp, denE_cons b, if_pos hbi, denE_of_not_mem hn,
        denE_of_not_mem hn1, hz, add_zero]
    · have hai : a.idx ≠ i := by omega
      rw [denE_cons b, if_neg hbi, denE_cons a, if_neg hai]
      simp only [not_ex_cons hbi]

/-! ### takeWhile on a sorted span = crop -/

theorem takeWhile_of_all {d : Nat} {s : List (Entry K)} (h : ∀ e ∈ s, e.idx < d) :
    s.takeWhile (·.idx < d) = s := by
  induction s with
  | nil => rfl
  | cons a s ih =>
    have ha : a.idx < d := h a (by simp)
    simp [ha, ih (fun e he => h e (by simp [he]))]

theorem idx_lt_of_mem_takeWhile {d : Nat} {s : List (Entry K)} {e : Entry K}
    (he : e ∈ s.takeWhile (·.idx < d)) : e.idx < d := by
  induction s with
  | nil => simp at he
  | cons a s ih =>
    by_cases ha : a.idx < d
    · rw [List.takeWhile_cons_of_pos (by simpa using ha)] at he
      rcases List.mem_cons.mp he with rfl | he
      · exact ha
      · exact ih he
    · rw [List.takeWhile_cons_of_neg (by simpa using ha)] at he
      simp at he

theorem wf_takeWhile {d : Nat} {s : List (Entry K)} (h : Sorted s) :
    WF d (s.takeWhile (·.idx < d)) :=
  ⟨List.Pairwise.sublist (List.takeWhile_sublist _) h, fun _ he => idx_lt_of_mem_takeWhile he⟩

theorem den_takeWhile {d : Nat} {s : List (Entry K)} (h : Sorted s) (i : Nat) :
    denE (s.takeWhile (·.idx < d)) i = if i < d then denE s i else 0 := by
  induction s with
  | nil => simp
  | cons a s ih =>
    have ih := ih h.tail
    by_cases ha : a.idx < d
    · rw [List.takeWhile_cons_of_pos (by simpa using ha), denE_cons, ih, denE_cons]
      by_cases hai : a.idx = i
      · have : i < d := by omega
        simp [hai, this]
      · simp only [if_neg hai]
    · rw [List.takeWhile_cons_of_neg (by simpa using ha)]
      by_cases hi : i < d
      · rw [if_pos hi, denE_of_lt_head h (by omega)]; rfl
      · rw [if_neg hi]; rfl

end Mg

end EtVerif
