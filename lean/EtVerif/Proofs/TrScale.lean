/-
  Refinement of the translated `Vector.scaleInPlace` (Gen/Translated.lean, regenerated from /repo)
  to the hand-written model `scaleEntries` (Model/Sparse.lean).
-/
import EtVerif.Proofs.TrBridge
namespace EtVerif.Tr
open EtVerif EtVerif.GoSem EtVerif.Gen Scalar
variable {α : Type} [Scalar α]

/-- `entries[i].Value *= a` on one Go entry. -/
def gmul (a : α) (e : GEntry α) : GEntry α := { e with Value := mul e.Value a }

/-- scale, then drop the products that compare equal to zero (Go level). -/
def gscale (a : α) (es : List (GEntry α)) : List (GEntry α) :=
  (es.map (gmul a)).filter (fun e => !(Scalar.eq e.Value (Scalar.zero : α)))

theorem gscale_toGs (a : α) (es : List (Entry α)) :
    gscale a (toGs es) =
      toGs (es.filterMap fun e => let x := mul e.val a; if isZero x then none else some ⟨e.idx, x⟩) := by
  induction es with
  | nil => rfl
  | cons e es ih =>
    simp only [gscale, toGs_cons, List.map_cons] at ih ⊢
    cases h : Scalar.eq (mul e.val a) (Scalar.zero : α) <;>
      simp [gmul, isZero, h, ih, toG]

theorem goIdx_at {β : Type} (l : List β) (i : Int) (pre : List β) (r : β) (rest : List β)
    (hl : l = pre ++ r :: rest) (hi : i = (pre.length : Int)) : goIdx l i = .ok r := by
  subst hl hi
  rw [goIdx_ofNat _ _ (by simp)]
  simp

theorem goSet_at {β : Type} (l : List β) (i : Int) (pre : List β) (r r' : β) (rest : List β)
    (hl : l = pre ++ r :: rest) (hi : i = (pre.length : Int)) :
    goSet l i r' = .ok (pre ++ r' :: rest) := by
  subst hl hi
  rw [goSet_ofNat _ _ _ (by simp)]
  simp

/-- body, product equal to zero: count it. -/
theorem scale_body_zero (s : Vector_scaleInPlace.St α) (pre rest : List (GEntry α)) (r : GEntry α)
    (he : s.v.Entries = pre ++ r :: rest) (hi : s.i = (pre.length : Int))
    (hz : Scalar.eq (mul r.Value s.a) (Scalar.zero : α) = true) :
    Vector_scaleInPlace.loop1_body s =
      .ok ({ s with v := { s.v with Entries := pre ++ gmul s.a r :: rest }, zeros := s.zeros + 1 }, .next) := by
  obtain ⟨⟨dim, ents⟩, a, zeros, i⟩ := s
  simp only at he hi hz
  have h1 : goIdx ents i = .ok r := goIdx_at _ _ pre r rest he hi
  have h2 : goSet ents i { r with Value := mul r.Value a } = .ok (pre ++ gmul a r :: rest) :=
    goSet_at _ _ pre r _ rest he hi
  have h3 : goIdx (pre ++ gmul a r :: rest) i = .ok (gmul a r) := goIdx_at _ _ pre _ rest rfl hi
  have h4 : Scalar.eq (gmul a r).Value (Scalar.zero : α) = true := hz
  simp only [Vector_scaleInPlace.loop1_body, Stm.seq, Stm.set, Stm.ite, bind, Except.bind, pure, Except.pure,
    h1, h2, h3, h4]

/-- body, product not zero, no zero seen so far: nothing moves. -/
theorem scale_body_keep (s : Vector_scaleInPlace.St α) (pre rest : List (GEntry α)) (r : GEntry α)
    (he : s.v.Entries = pre ++ r :: rest) (hi : s.i = (pre.length : Int))
    (hz : Scalar.eq (mul r.Value s.a) (Scalar.zero : α) = false) (h0 : s.zeros = 0) :
    Vector_scaleInPlace.loop1_body s =
      .ok ({ s with v := { s.v with Entries := pre ++ gmul s.a r :: rest } }, .next) := by
  obtain ⟨⟨dim, ents⟩, a, zeros, i⟩ := s
  simp only at he hi hz h0
  subst h0
  have h1 : goIdx ents i = .ok r := goIdx_at _ _ pre r rest he hi
  have h2 : goSet ents i { r with Value := mul r.Value a } = .ok (pre ++ gmul a r :: rest) :=
    goSet_at _ _ pre r _ rest he hi
  have h3 : goIdx (pre ++ gmul a r :: rest) i = .ok (gmul a r) := goIdx_at _ _ pre _ rest rfl hi
  have h4 : Scalar.eq (gmul a r).Value (Scalar.zero : α) = false := hz
  have h5 : decide ((0 : Int) > 0) = false := by decide
  simp only [Vector_scaleInPlace.loop1_body, Stm.seq, Stm.set, Stm.ite, Stm.skip, bind, Except.bind, pure,
    Except.pure, h1, h2, h3, h4, h5]

/-- body, product not zero, some zeros seen: the entry is copied `zeros` slots to the left. -/
theorem scale_body_shift (s : Vector_scaleInPlace.St α) (kept junk rest : List (GEntry α)) (j r : GEntry α)
    (he : s.v.Entries = kept ++ j :: junk ++ r :: rest) (hi : s.i = ((kept ++ j :: junk).length : Int))
    (hz : Scalar.eq (mul r.Value s.a) (Scalar.zero : α) = false) (h0 : s.zeros = ((j :: junk).length : Int)) :
    Vector_scaleInPlace.loop1_body s =
      .ok ({ s with v := { s.v with Entries := kept ++ gmul s.a r :: junk ++ gmul s.a r :: rest } }, .next) := by
  obtain ⟨⟨dim, ents⟩, a, zeros, i⟩ := s
  simp only at he hi hz h0
  have h1 : goIdx ents i = .ok r := goIdx_at _ _ (kept ++ j :: junk) r rest (by simpa using he) hi
  have h2 : goSet ents i { r with Value := mul r.Value a } = .ok ((kept ++ j :: junk) ++ gmul a r :: rest) :=
    goSet_at _ _ (kept ++ j :: junk) r _ rest (by simpa using he) hi
  have h3 : goIdx ((kept ++ j :: junk) ++ gmul a r :: rest) i = .ok (gmul a r) :=
    goIdx_at _ _ (kept ++ j :: junk) _ rest rfl hi
  have h4 : Scalar.eq (gmul a r).Value (Scalar.zero : α) = false := hz
  have h5 : decide (zeros > 0) = true := by
    rw [h0]; simp
  have h6 : goSet ((kept ++ j :: junk) ++ gmul a r :: rest) (i - zeros) (gmul a r) =
      .ok (kept ++ gmul a r :: junk ++ gmul a r :: rest) := by
    have := goSet_at ((kept ++ j :: junk) ++ gmul a r :: rest) (i - zeros) kept j (gmul a r)
      (junk ++ gmul a r :: rest) (by simp) (by rw [hi, h0]; simp)
    simpa using this
  simp only [Vector_scaleInPlace.loop1_body, Stm.seq, Stm.set, Stm.ite, bind, Except.bind, pure,
    Except.pure, h1, h2, h3, h4, h5, h6]

/-- the loop: `kept` = compacted prefix, `junk` = the `zeros` stale slots, `rest` = untouched suffix;
    the range list is a snapshot of which only the length matters. -/
theorem scale_loop (xs : List (GEntry α)) :
    ∀ (kept junk rest : List (GEntry α)) (s : Vector_scaleInPlace.St α),
      xs.length = rest.length → s.v.Entries = kept ++ junk ++ rest → s.zeros = (junk.length : Int) →
      ∃ s' junk', Stm.range 1 Vector_scaleInPlace.loop1_bind (Vector_scaleInPlace.loop1_body (α := α))
            ((kept ++ junk).length : Int) xs s = .ok (s', .next) ∧
        s'.v.Entries = kept ++ gscale s.a rest ++ junk' ∧ s'.zeros = (junk'.length : Int) ∧
        s'.v.Dim = s.v.Dim := by
  induction xs with
  | nil =>
    intro kept junk rest s hl he h0
    have : rest = [] := by cases rest with
      | nil => rfl
      | cons _ _ => simp at hl
    subst this
    exact ⟨s, junk, rfl, by simpa [gscale] using he, h0, rfl⟩
  | cons x xs ih =>
    intro kept junk rest s hl he h0
    cases rest with
    | nil => simp at hl
    | cons r rest =>
      have hl' : xs.length = rest.length := by simpa using hl
      cases hz : Scalar.eq (mul r.Value s.a) (Scalar.zero : α) with
      | true =>
        have hb := scale_body_zero { s with i := ((kept ++ junk).length : Int) } (kept ++ junk) rest r he rfl hz
        obtain ⟨s', junk', h1, h2, h3, h4⟩ := ih kept (junk ++ [gmul s.a r]) rest
          { v := ⟨s.v.Dim, kept ++ junk ++ gmul s.a r :: rest⟩, a := s.a, zeros := s.zeros + 1,
            i := ((kept ++ junk).length : Int) } hl'
          (show _ = kept ++ (junk ++ [gmul s.a r]) ++ rest by simp) (by simp [h0])
        refine ⟨s', junk', ?_, ?_, h3, h4⟩
        · rw [range_cons_next hb]
          have : ((kept ++ (junk ++ [gmul s.a r])).length : Int) = ((kept ++ junk).length : Int) + 1 := by
            simp; omega
          rw [this] at h1
          exact h1
        · have hg : gscale s.a (r :: rest) = gscale s.a rest := by
            simp [gscale, gmul, hz]
          rw [hg]; exact h2
      | false =>
        have hg : gscale s.a (r :: rest) = gmul s.a r :: gscale s.a rest := by
          simp [gscale, gmul, hz]
        cases junk with
        | nil =>
          have hb := scale_body_keep { s with i := ((kept ++ []).length : Int) } (kept ++ []) rest r he rfl hz
            (by simpa using h0)
          obtain ⟨s', junk', h1, h2, h3, h4⟩ := ih (kept ++ [gmul s.a r]) [] rest
            { v := ⟨s.v.Dim, kept ++ [] ++ gmul s.a r :: rest⟩, a := s.a, zeros := s.zeros,
              i := ((kept ++ []).length : Int) } hl'
            (show _ = kept ++ [gmul s.a r] ++ [] ++ rest by simp) (by simpa using h0)
          refine ⟨s', junk', ?_, ?_, h3, h4⟩
          · rw [range_cons_next hb]
            have : ((kept ++ [gmul s.a r] ++ []).length : Int) = ((kept ++ []).length : Int) + 1 := by
              simp
            rw [this] at h1
            exact h1
          · rw [hg]; simpa using h2
        | cons j junk =>
          have hb := scale_body_shift { s with i := ((kept ++ j :: junk).length : Int) } kept junk rest j r
            he rfl hz h0
          obtain ⟨s', junk', h1, h2, h3, h4⟩ := ih (kept ++ [gmul s.a r]) (junk ++ [gmul s.a r]) rest
            { v := ⟨s.v.Dim, kept ++ gmul s.a r :: junk ++ gmul s.a r :: rest⟩, a := s.a, zeros := s.zeros,
              i := ((kept ++ j :: junk).length : Int) } hl'
            (show _ = kept ++ [gmul s.a r] ++ (junk ++ [gmul s.a r]) ++ rest by simp) (by simpa using h0)
          refine ⟨s', junk', ?_, ?_, h3, h4⟩
          · rw [range_cons_next hb]
            have : ((kept ++ [gmul s.a r] ++ (junk ++ [gmul s.a r])).length : Int) =
                ((kept ++ j :: junk).length : Int) + 1 := by
              simp; omega
            rw [this] at h1
            exact h1
          · rw [hg]; simpa using h2

/-- Go `Vector.scaleInPlace` (translated from the current source): multiply every value by `a` in place and
    compact away the products that compare equal to zero — exactly the model's `scaleEntries`. -/
theorem Vector_scaleInPlace_refines (v : Vec α) (a : α) :
    (Gen.Vector_scaleInPlace (toGV v) a).map (fun r => r.1.v) =
      .ok (toGV ⟨v.dim, scaleEntries a v.entries⟩) := by
  cases ha : Scalar.eq a (Scalar.one : α) with
  | true =>
    simp [Gen.Vector_scaleInPlace, Vector_scaleInPlace.body, Stm.run, Stm.seq, Stm.ite, Stm.ret, pure,
      Except.pure, Except.map, ha, scaleEntries, toGV]
  | false =>
    obtain ⟨s', junk', h1, h2, h3, h4⟩ := scale_loop (toGs v.entries) [] [] (toGs v.entries)
      { v := toGV v, a := a, zeros := 0, i := 0 } rfl rfl rfl
    simp only [List.append_nil, List.length_nil, Int.natCast_zero, List.nil_append] at h1 h2
    rw [gscale_toGs] at h2
    have hv : s'.v = ⟨(v.dim : Int), s'.v.Entries⟩ := by
      cases hs : s'.v; simp [hs] at h4 ⊢; exact h4
    cases junk' with
    | nil =>
      have h5 : decide (s'.zeros > 0) = false := by rw [h3]; simp
      simp only [Gen.Vector_scaleInPlace, Vector_scaleInPlace.body, Stm.run, Stm.seq, Stm.set, Stm.ite, Stm.skip,
        Stm.rangeOver, Vector_scaleInPlace.loop1_xs, pure, Except.pure, ha, toGV_Entries, h1, h5, Except.map]
      rw [hv, h2]
      simp [toGV, scaleEntries, ha]
    | cons j junk' =>
      have h5 : decide (s'.zeros > 0) = true := by rw [h3]; simp
      have h6 : goSlice s'.v.Entries 0 (goLen s'.v.Entries - s'.zeros) =
          .ok (toGs (v.entries.filterMap fun e =>
            let x := mul e.val a; if isZero x then none else some ⟨e.idx, x⟩)) := by
        rw [h2, h3]
        simp [goSlice]
        omega
      simp only [Gen.Vector_scaleInPlace, Vector_scaleInPlace.body, Stm.run, Stm.seq, Stm.set, Stm.ite, Stm.skip,
        Stm.rangeOver, Vector_scaleInPlace.loop1_xs, pure, Except.pure, ha, toGV_Entries, h1, h5, h6, bind,
        Except.bind, Except.map]
      rw [h4]
      simp [toGV, scaleEntries, ha]

end EtVerif.Tr
