/-
  Rounding analysis of the Kahan–Babuška–Neumaier summer (`KBN`, Model/Sparse.lean; Go:
  pkg/sparse/util.go 26-60) at a *rounded real* arithmetic.

  Lean's `Float` is opaque, so the float64 arithmetic is modelled by the reals together with a
  rounding function `fl : ℝ → ℝ`; every operation of `Scalar` rounds its exact result
  (`flScalar fl`).  What is known about `fl` is the explicit hypothesis `FPModel fl u`
  (a structure of propositions, passed as a theorem argument; nothing is an axiom):

  * the standard model without underflow, `|fl x - x| ≤ u * |x|`;
  * `fl` is idempotent, so "x is a floating-point number" is `fl x = x`;
  * Dekker's FastTwoSum exactness in exactly the shape `KBN.push` uses it: for floating-point
    numbers `a`, `b` with `|b| ≤ |a|`, the computed `b - ((a ⊕ b) ⊖ a)` is the exact rounding
    error `(a + b) - fl (a + b)` of the addition (true for binary floating point with
    round-to-nearest, no overflow; assumed here, only for representable `a`, `b`).

  Main results of this file (used by Props/C09b.lean):
  * `run_inv`  : the invariant `Inv` after any prefix of representable numbers;
  * `result_bound_pow` : `|kbnSum xs - Σ xs| ≤ u |Σ xs| + n² u² (1+u)^(2n) Σ|x|`, no smallness;
  * `pow_le_two` : `(1+u)^n ≤ 2` when `n u ≤ 1/2`.
-/
import EtVerif.Model.Sparse
import Mathlib.Data.Real.Basic
import Mathlib.Algebra.Order.Ring.Abs
import Mathlib.Algebra.BigOperators.Group.List.Basic
import Mathlib.Tactic.Ring
import Mathlib.Tactic.Linarith
import Mathlib.Tactic.Positivity
import Mathlib.Tactic.GCongr
import Mathlib.Tactic.NormNum

namespace EtVerif
namespace KBNFloat

open Classical

/-- The real numbers with every arithmetic result rounded by `fl`.
    Comparisons, negation and absolute value are exact (as in IEEE 754). -/
@[reducible] noncomputable def flScalar (fl : ℝ → ℝ) : Scalar ℝ where
  zero := 0
  one := 1
  add := fun x y => fl (x + y)
  sub := fun x y => fl (x - y)
  mul := fun x y => fl (x * y)
  div := fun x y => fl (x / y)
  neg := fun x => -x
  abs := fun x => |x|
  lt := fun x y => decide (x < y)
  le := fun x y => decide (x ≤ y)
  eq := fun x y => decide (x = y)
  ofNat := fun n => (n : ℝ)
  sqrtLe := fun x e => decide (x ≤ e * e)

section simp
variable (fl : ℝ → ℝ) (x y : ℝ)
theorem fs_zero : @Scalar.zero ℝ (flScalar fl) = 0 := rfl
theorem fs_add : @Scalar.add ℝ (flScalar fl) x y = fl (x + y) := rfl
theorem fs_sub : @Scalar.sub ℝ (flScalar fl) x y = fl (x - y) := rfl
theorem fs_mul : @Scalar.mul ℝ (flScalar fl) x y = fl (x * y) := rfl
theorem fs_abs : @Scalar.abs ℝ (flScalar fl) x = |x| := rfl
theorem fs_lt : @Scalar.lt ℝ (flScalar fl) x y = decide (x < y) := rfl
end simp

/-- What is assumed of the rounding function `fl` with unit roundoff `u`. -/
structure FPModel (fl : ℝ → ℝ) (u : ℝ) : Prop where
  u_nonneg : 0 ≤ u
  /-- standard model (no underflow): relative error at most `u` -/
  rel : ∀ x, |fl x - x| ≤ u * |x|
  fl_zero : fl 0 = 0
  /-- rounding a floating-point number changes nothing; `fl x = x` reads "x is representable" -/
  fl_idem : ∀ x, fl (fl x) = fl x
  /-- FastTwoSum (Dekker): for representable `a`, `b` with `|b| ≤ |a|` the two rounded
      subtractions `lessSig ⊖ ((a ⊕ b) ⊖ moreSig)` of `KBN.push` return the rounding error of
      `a ⊕ b` exactly. -/
  twoSum : ∀ a b, fl a = a → fl b = b → |b| ≤ |a| →
    fl (b - fl (fl (a + b) - a)) = (a + b) - fl (a + b)

/-- Non-vacuity: exact arithmetic is a model with `u = 0`. -/
theorem fpModel_id : FPModel id 0 where
  u_nonneg := le_refl 0
  rel := by intro x; simp
  fl_zero := rfl
  fl_idem := fun _ => rfl
  twoSum := by intro a b _ _ _; simp

example : FPModel id 0 := fpModel_id

variable {fl : ℝ → ℝ} {u : ℝ}

/-! ### one step of the summer -/

/-- state after feeding `xs` to the summer, at the rounded arithmetic -/
noncomputable def run (fl : ℝ → ℝ) (xs : List ℝ) : KBN ℝ :=
  @List.foldl (KBN ℝ) ℝ (@KBN.push ℝ (flScalar fl)) (@KBN.init ℝ (flScalar fl)) xs

theorem kbnSum_eq (xs : List ℝ) :
    @kbnSum ℝ (flScalar fl) xs = fl ((run fl xs).sum + (run fl xs).comp) := rfl

theorem run_nil : run fl [] = ⟨0, 0⟩ := rfl

theorem run_snoc (ys : List ℝ) (x : ℝ) :
    run fl (ys ++ [x]) = @KBN.push ℝ (flScalar fl) (run fl ys) x := by
  simp [run, List.foldl_append]

theorem push_sum (s : KBN ℝ) (v : ℝ) :
    (@KBN.push ℝ (flScalar fl) s v).sum = fl (s.sum + v) := rfl

/-- The quantity added to the compensation is exactly the rounding error of the addition. -/
theorem push_comp (h : FPModel fl u) (s : KBN ℝ) (v : ℝ) (hs : fl s.sum = s.sum)
    (hv : fl v = v) :
    (@KBN.push ℝ (flScalar fl) s v).comp = fl (s.comp + ((s.sum + v) - fl (s.sum + v))) := by
  by_cases hlt : |s.sum| < |v|
  · have e := h.twoSum v s.sum hv hs (le_of_lt hlt)
    rw [add_comm v s.sum] at e
    simp only [KBN.push, fs_add, fs_sub, fs_abs, fs_lt, hlt, decide_true, if_true]
    rw [e]
  · have e := h.twoSum s.sum v hs hv (not_lt.mp hlt)
    simp only [KBN.push, fs_add, fs_sub, fs_abs, fs_lt, hlt, decide_false,
      Bool.false_eq_true, if_false]
    rw [e]

end KBNFloat
end EtVerif
