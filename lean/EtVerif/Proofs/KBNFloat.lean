/-
  Rounding analysis of the Kahan–Babuška–Neumaier summer (`KBN`, Model/Sparse.lean; Go:
  pkg/sparse/util.go 26-60) at a *rounded real* arithmetic.

  Lean's `Float` is opaque, so the float64 arithmetic is modelled by the reals together with a
  rounding function `fl : ℝ → ℝ`; every operation of `Scalar` rounds its exact result
  (`flScalar fl`).  What is known about `fl` is the explicit hypothesis `FPModel fl u`
  (a structure of propositions, passed as a theorem argument; nothing is an axiom):

  * the standard model without underflow, `|fl x - x| ≤ u * |x|`;
  * `fl` is idempotent, so "x is a floating-point number" is `fl x = x`;
  * Dekker's FastTwoSum exactness in exactly the shape `KBN.push` uses it: for floating-point
    numbers `a`, `b` with `|b| ≤ |a|`, the computed `b - ((a ⊕ b) ⊖ a)` is the exact rounding
    error `(a + b) - fl (a + b)` of the addition (true for binary floating point with
    round-to-nearest, no overflow; assumed here, only for representable `a`, `b`).

  Main results of this file (used by Props/C09b.lean):
  * `run_inv`  : the invariant `Inv` after any prefix of representable numbers;
  * `result_bound_pow` : `|kbnSum xs - Σ xs| ≤ u |Σ xs| + n² u² (1+u)^(2n) Σ|x|`, no smallness;
  * `pow_le_two` : `(1+u)^n ≤ 2` when `n u ≤ 1/2`.
-/
import EtVerif.Model.Sparse
import EtVerif.Proofs.FieldScalar
import Mathlib.Data.Real.Basic
import Mathlib.Algebra.Order.Ring.Abs
import Mathlib.Algebra.BigOperators.Group.List.Basic
import Mathlib.Tactic.Ring
import Mathlib.Tactic.Linarith
import Mathlib.Tactic.Positivity
import Mathlib.Tactic.GCongr
import Mathlib.Tactic.NormNum

namespace EtVerif
namespace KBNFloat

open Classical

/-- The real numbers with every arithmetic result rounded by `fl`.
    Comparisons, negation and absolute value are exact (as in IEEE 754). -/
@[reducible] noncomputable def flScalar (fl : ℝ → ℝ) : Scalar ℝ where
  zero := 0
  one := 1
  add := fun x y => fl (x + y)
  sub := fun x y => fl (x - y)
  mul := fun x y => fl (x * y)
  div := fun x y => fl (x / y)
  neg := fun x => -x
  abs := fun x => |x|
  lt := fun x y => decide (x < y)
  le := fun x y => decide (x ≤ y)
  eq := fun x y => decide (x = y)
  ofNat := fun n => (n : ℝ)
  sqrtLe := fun x e => decide (x ≤ e * e)

section simp
variable (fl : ℝ → ℝ) (x y : ℝ)
theorem fs_zero : @Scalar.zero ℝ (flScalar fl) = 0 := rfl
theorem fs_add : @Scalar.add ℝ (flScalar fl) x y = fl (x + y) := rfl
theorem fs_sub : @Scalar.sub ℝ (flScalar fl) x y = fl (x - y) := rfl
theorem fs_mul : @Scalar.mul ℝ (flScalar fl) x y = fl (x * y) := rfl
theorem fs_abs : @Scalar.abs ℝ (flScalar fl) x = |x| := rfl
theorem fs_lt : @Scalar.lt ℝ (flScalar fl) x y = decide (x < y) := rfl
end simp

/-- What is assumed of the rounding function `fl` with unit roundoff `u`. -/
structure FPModel (fl : ℝ → ℝ) (u : ℝ) : Prop where
  u_nonneg : 0 ≤ u
  /-- standard model (no underflow): relative error at most `u` -/
  rel : ∀ x, |fl x - x| ≤ u * |x|
  fl_zero : fl 0 = 0
  /-- rounding a floating-point number changes nothing; `fl x = x` reads "x is representable" -/
  fl_idem : ∀ x, fl (fl x) = fl x
  /-- FastTwoSum (Dekker): for representable `a`, `b` with `|b| ≤ |a|` the two rounded
      subtractions `lessSig ⊖ ((a ⊕ b) ⊖ moreSig)` of `KBN.push` return the rounding error of
      `a ⊕ b` exactly. -/
  twoSum : ∀ a b, fl a = a → fl b = b → |b| ≤ |a| →
    fl (b - fl (fl (a + b) - a)) = (a + b) - fl (a + b)

/-- Non-vacuity: exact arithmetic is a model with `u = 0`. -/
theorem fpModel_id : FPModel id 0 where
  u_nonneg := le_refl 0
  rel := by intro x; simp
  fl_zero := rfl
  fl_idem := fun _ => rfl
  twoSum := by intro a b _ _ _; simp

example : FPModel id 0 := fpModel_id

variable {fl : ℝ → ℝ} {u : ℝ}

/-! ### one step of the summer -/

/-- state after feeding `xs` to the summer, at the rounded arithmetic -/
noncomputable def run (fl : ℝ → ℝ) (xs : List ℝ) : KBN ℝ :=
  @List.foldl (KBN ℝ) ℝ (@KBN.push ℝ (flScalar fl)) (@KBN.init ℝ (flScalar fl)) xs

theorem kbnSum_eq (xs : List ℝ) :
    @kbnSum ℝ (flScalar fl) xs = fl ((run fl xs).sum + (run fl xs).comp) := rfl

theorem run_nil : run fl [] = ⟨0, 0⟩ := rfl

theorem run_snoc (ys : List ℝ) (x : ℝ) :
    run fl (ys ++ [x]) = @KBN.push ℝ (flScalar fl) (run fl ys) x := by
  simp [run, List.foldl_append]

theorem push_sum (s : KBN ℝ) (v : ℝ) :
    (@KBN.push ℝ (flScalar fl) s v).sum = fl (s.sum + v) := rfl

/-- The quantity added to the compensation is exactly the rounding error of the addition. -/
theorem push_comp (h : FPModel fl u) (s : KBN ℝ) (v : ℝ) (hs : fl s.sum = s.sum)
    (hv : fl v = v) :
    (@KBN.push ℝ (flScalar fl) s v).comp = fl (s.comp + ((s.sum + v) - fl (s.sum + v))) := by
  by_cases hlt : |s.sum| < |v|
  · have e := h.twoSum v s.sum hv hs (le_of_lt hlt)
    rw [add_comm v s.sum] at e
    simp only [KBN.push, fs_add, fs_sub, fs_abs, fs_lt, hlt, decide_true, if_true]
    rw [e]
  · have e := h.twoSum s.sum v hs hv (not_lt.mp hlt)
    simp only [KBN.push, fs_add, fs_sub, fs_abs, fs_lt, hlt, decide_false,
      Bool.false_eq_true, if_false]
    rw [e]

/-! ### real-arithmetic step lemmas (no `fl`) -/

section arith
variable {P A kk s x s' e E E' c c' d d' w : ℝ}

theorem abs_add_bound (hP : 1 ≤ P) (hs : |s| ≤ P * A) : |s + x| ≤ P * (A + |x|) := by
  have h1 : |s + x| ≤ |s| + |x| := abs_add_le s x
  have h2 : |x| ≤ P * |x| := le_mul_of_one_le_left (abs_nonneg x) hP
  calc |s + x| ≤ |s| + |x| := h1
    _ ≤ P * A + P * |x| := add_le_add hs h2
    _ = P * (A + |x|) := by ring

/-- the partial sum: `|s'| ≤ (1+u)^(k+1) * A'` -/
theorem step_sum (hu : 0 ≤ u) (hP : 1 ≤ P) (hs : |s| ≤ P * A)
    (hs' : |s'| ≤ (1 + u) * |s + x|) : |s'| ≤ P * (1 + u) * (A + |x|) := by
  have h1 := abs_add_bound (x := x) hP hs
  have hw : 0 ≤ 1 + u := by linarith
  calc |s'| ≤ (1 + u) * |s + x| := hs'
    _ ≤ (1 + u) * (P * (A + |x|)) := mul_le_mul_of_nonneg_left h1 hw
    _ = P * (1 + u) * (A + |x|) := by ring

/-- one local error: `|e| ≤ u * (1+u)^k * A'` -/
theorem step_e (hu : 0 ≤ u) (hP : 1 ≤ P) (hs : |s| ≤ P * A)
    (he : |e| ≤ u * |s + x|) : |e| ≤ u * P * (A + |x|) := by
  have h1 := abs_add_bound (x := x) hP hs
  calc |e| ≤ u * |s + x| := he
    _ ≤ u * (P * (A + |x|)) := mul_le_mul_of_nonneg_left h1 hu
    _ = u * P * (A + |x|) := by ring

/-- the exact accumulated error: `|E'| (1+u) ≤ (k+1) u (1+u)^(k+1) A'` -/
theorem step_E {A' : ℝ} (hu : 0 ≤ u) (hP : 1 ≤ P) (hk : 0 ≤ kk) (hA : 0 ≤ A) (hAA : A ≤ A')
    (hE : |E| * (1 + u) ≤ kk * u * P * A) (he : |e| ≤ u * P * A') :
    |E + e| * (1 + u) ≤ (kk + 1) * u * (P * (1 + u)) * A' := by
  have hw : 0 ≤ 1 + u := by linarith
  have hP0 : 0 ≤ P := by linarith
  have hA' : 0 ≤ A' := le_trans hA hAA
  have h1 : |E + e| ≤ |E| + |e| := abs_add_le E e
  have h2 : |E + e| * (1 + u) ≤ |E| * (1 + u) + |e| * (1 + u) := by
    have := mul_le_mul_of_nonneg_right h1 hw
    linarith
  have h3 : |e| * (1 + u) ≤ u * P * A' * (1 + u) := mul_le_mul_of_nonneg_right he hw
  have hc : 0 ≤ kk * u * P := by positivity
  have h4 : kk * u * P * A ≤ kk * u * P * A' := mul_le_mul_of_nonneg_left hAA hc
  have h5 : kk * u * P * A' ≤ kk * u * P * A' * (1 + u) := by
    have : 0 ≤ kk * u * P * A' := by positivity
    nlinarith
  calc |E + e| * (1 + u) ≤ |E| * (1 + u) + |e| * (1 + u) := h2
    _ ≤ kk * u * P * A' * (1 + u) + u * P * A' * (1 + u) := by linarith
    _ = (kk + 1) * u * (P * (1 + u)) * A' := by ring

/-- the distance between the stored compensation and the exact accumulated error -/
theorem step_d {A' : ℝ} (hu : 0 ≤ u) (hP : 1 ≤ P) (hk : 0 ≤ kk) (hA : 0 ≤ A) (hAA : A ≤ A')
    (hd : d * (1 + u) ≤ kk ^ 2 * u ^ 2 * P ^ 2 * A)
    (hE' : |E'| * (1 + u) ≤ (kk + 1) * u * (P * (1 + u)) * A')
    (hd' : d' ≤ (1 + u) * d + u * |E'|) :
    d' * (1 + u) ≤ (kk + 1) ^ 2 * u ^ 2 * (P * (1 + u)) ^ 2 * A' := by
  have hw : 0 ≤ 1 + u := by linarith
  have hw1 : 1 ≤ 1 + u := by linarith
  have hP0 : 0 ≤ P := by linarith
  have hA' : 0 ≤ A' := le_trans hA hAA
  -- Q is the common factor of the target
  have hQ : 0 ≤ u ^ 2 * (P * (1 + u)) ^ 2 * A' := by positivity
  have h1 : d' * (1 + u) ≤ (1 + u) * (d * (1 + u)) + u * (|E'| * (1 + u)) := by
    have := mul_le_mul_of_nonneg_right hd' hw
    linarith
  have h2 : (1 + u) * (d * (1 + u)) ≤ (1 + u) * (kk ^ 2 * u ^ 2 * P ^ 2 * A) :=
    mul_le_mul_of_nonneg_left hd hw
  have h3 : u * (|E'| * (1 + u)) ≤ u * ((kk + 1) * u * (P * (1 + u)) * A') :=
    mul_le_mul_of_nonneg_left hE' hu
  -- term 1 ≤ kk² Q
  have t1 : (1 + u) * (kk ^ 2 * u ^ 2 * P ^ 2 * A) ≤ kk ^ 2 * (u ^ 2 * (P * (1 + u)) ^ 2 * A') := by
    have hc : 0 ≤ kk ^ 2 * u ^ 2 * P ^ 2 * (1 + u) := by positivity
    have ha : A ≤ A' * (1 + u) := by nlinarith
    have := mul_le_mul_of_nonneg_left ha hc
    calc (1 + u) * (kk ^ 2 * u ^ 2 * P ^ 2 * A) = kk ^ 2 * u ^ 2 * P ^ 2 * (1 + u) * A := by ring
      _ ≤ kk ^ 2 * u ^ 2 * P ^ 2 * (1 + u) * (A' * (1 + u)) := this
      _ = kk ^ 2 * (u ^ 2 * (P * (1 + u)) ^ 2 * A') := by ring
  -- term 2 ≤ (kk+1) Q
  have t2 : u * ((kk + 1) * u * (P * (1 + u)) * A') ≤
      (kk + 1) * (u ^ 2 * (P * (1 + u)) ^ 2 * A') := by
    have hc : 0 ≤ (kk + 1) * u ^ 2 * A' * (P * (1 + u)) := by positivity
    have hPw : 1 ≤ P * (1 + u) := by nlinarith
    have := mul_le_mul_of_nonneg_left hPw hc
    calc u * ((kk + 1) * u * (P * (1 + u)) * A') = (kk + 1) * u ^ 2 * A' * (P * (1 + u)) * 1 := by ring
      _ ≤ (kk + 1) * u ^ 2 * A' * (P * (1 + u)) * (P * (1 + u)) := this
      _ = (kk + 1) * (u ^ 2 * (P * (1 + u)) ^ 2 * A') := by ring
  have t3 : 0 ≤ kk * (u ^ 2 * (P * (1 + u)) ^ 2 * A') := mul_nonneg hk hQ
  calc d' * (1 + u) ≤ (1 + u) * (d * (1 + u)) + u * (|E'| * (1 + u)) := h1
    _ ≤ kk ^ 2 * (u ^ 2 * (P * (1 + u)) ^ 2 * A') + (kk + 1) * (u ^ 2 * (P * (1 + u)) ^ 2 * A') := by
        linarith
    _ ≤ (kk + 1) ^ 2 * u ^ 2 * (P * (1 + u)) ^ 2 * A' := by nlinarith

/-- the compensation step in terms of distances -/
theorem comp_dist (hc' : |c' - (c + e)| ≤ u * |c + e|) (hu : 0 ≤ u) :
    |c' - (E + e)| ≤ (1 + u) * |c - E| + u * |E + e| := by
  have h1 : |c' - (E + e)| ≤ |c' - (c + e)| + |c - E| := by
    have := abs_add_le (c' - (c + e)) (c - E)
    have e1 : c' - (c + e) + (c - E) = c' - (E + e) := by ring
    rwa [e1] at this
  have h2 : |c + e| ≤ |c - E| + |E + e| := by
    have := abs_add_le (c - E) (E + e)
    have e1 : c - E + (E + e) = c + e := by ring
    rwa [e1] at this
  have h3 : u * |c + e| ≤ u * (|c - E| + |E + e|) := mul_le_mul_of_nonneg_left h2 hu
  linarith

/-- the final rounded addition -/
theorem final_dist {S res : ℝ} (hu : 0 ≤ u) (hres : |res - (s + c)| ≤ u * |s + c|)
    (hS : s + E = S) : |res - S| ≤ u * |S| + (1 + u) * |c - E| := by
  have e1 : s + c = S + (c - E) := by rw [← hS]; ring
  have h1 : |s + c| ≤ |S| + |c - E| := by rw [e1]; exact abs_add_le _ _
  have h2 : |res - S| ≤ |res - (s + c)| + |c - E| := by
    have := abs_add_le (res - (s + c)) (c - E)
    have e2 : res - (s + c) + (c - E) = res - S := by rw [e1]; ring
    rwa [e2] at this
  have h3 : u * |s + c| ≤ u * (|S| + |c - E|) := mul_le_mul_of_nonneg_left h1 hu
  linarith

end arith

/-- Bernoulli-type bound: `(1+u)^n (1 - n u) ≤ 1`. -/
theorem pow_mul_le_one (hu : 0 ≤ u) (n : ℕ) : (1 + u) ^ n * (1 - n * u) ≤ 1 := by
  induction n with
  | zero => simp
  | succ k ih =>
    have hp : 0 ≤ (1 + u) ^ k := by positivity
    have h1 : (1 + u) * (1 - ((k : ℝ) + 1) * u) ≤ 1 - k * u := by
      have : 0 ≤ ((k : ℝ) + 1) * (u * u) := by positivity
      nlinarith
    have h2 := mul_le_mul_of_nonneg_left h1 hp
    have e : (1 + u) ^ (k + 1) * (1 - ((k + 1 : ℕ) : ℝ) * u) =
        (1 + u) ^ k * ((1 + u) * (1 - ((k : ℝ) + 1) * u)) := by
      push_cast; ring
    rw [e]; linarith

/-- `(1+u)^n ≤ 2` as soon as `n u ≤ 1/2`. -/
theorem pow_le_two (hu : 0 ≤ u) (n : ℕ) (hn : (n : ℝ) * u ≤ 1 / 2) : (1 + u) ^ n ≤ 2 := by
  have h := pow_mul_le_one hu n
  have hp : 0 ≤ (1 + u) ^ n := by positivity
  have : (1 + u) ^ n * (1 / 2) ≤ (1 + u) ^ n * (1 - n * u) :=
    mul_le_mul_of_nonneg_left (by linarith) hp
  linarith

/-! ### the invariant of the summation loop -/

/-- `Σ |x_i|` -/
noncomputable def absSum (xs : List ℝ) : ℝ := (xs.map fun x => |x|).sum

theorem absSum_nil : absSum [] = 0 := rfl

theorem absSum_snoc (ys : List ℝ) (x : ℝ) : absSum (ys ++ [x]) = absSum ys + |x| := by
  simp [absSum]

theorem absSum_nonneg (xs : List ℝ) : 0 ≤ absSum xs := by
  induction xs with
  | nil => simp [absSum]
  | cons a t ih =>
    have : absSum (a :: t) = |a| + absSum t := by simp [absSum]
    rw [this]; have := abs_nonneg a; linarith

theorem abs_fl_le (h : FPModel fl u) (y : ℝ) : |fl y| ≤ (1 + u) * |y| := by
  have h1 := h.rel y
  have h2 : |fl y| ≤ |fl y - y| + |y| := by
    have := abs_add_le (fl y - y) y
    simpa using this
  linarith

/-- Invariant after the prefix `ys` (state `st`), with `k = ys.length`, `A = Σ|y|`,
    `E = Σ ys - st.sum` the *exact* accumulated error of the running sum:
    the running sum is representable, `|sum| ≤ (1+u)^k A`,
    `|E| (1+u) ≤ k u (1+u)^k A`, and `|comp - E| (1+u) ≤ k² u² (1+u)^(2k) A`. -/
structure Inv (fl : ℝ → ℝ) (u : ℝ) (ys : List ℝ) (st : KBN ℝ) : Prop where
  repr : fl st.sum = st.sum
  sumB : |st.sum| ≤ (1 + u) ^ ys.length * absSum ys
  errB : |ys.sum - st.sum| * (1 + u) ≤ (ys.length : ℝ) * u * (1 + u) ^ ys.length * absSum ys
  compB : |st.comp - (ys.sum - st.sum)| * (1 + u) ≤
    (ys.length : ℝ) ^ 2 * u ^ 2 * ((1 + u) ^ ys.length) ^ 2 * absSum ys

theorem inv_nil (h : FPModel fl u) : Inv fl u [] (run fl []) := by
  refine ⟨?_, ?_, ?_, ?_⟩ <;> simp [run_nil, absSum_nil, h.fl_zero]

theorem inv_snoc (h : FPModel fl u) (ys : List ℝ) (x : ℝ) (st : KBN ℝ) (hx : fl x = x)
    (I : Inv fl u ys st) : Inv fl u (ys ++ [x]) (@KBN.push ℝ (flScalar fl) st x) := by
  have hu := h.u_nonneg
  have hP : 1 ≤ (1 + u) ^ ys.length := one_le_pow₀ (by linarith)
  have hk : (0 : ℝ) ≤ (ys.length : ℝ) := Nat.cast_nonneg _
  have hA := absSum_nonneg ys
  have hAA : absSum ys ≤ absSum ys + |x| := by have := abs_nonneg x; linarith
  -- the new running sum and the local error
  have hrel := h.rel (st.sum + x)
  have hs' : |fl (st.sum + x)| ≤ (1 + u) * |st.sum + x| := abs_fl_le h _
  have he : |st.sum + x - fl (st.sum + x)| ≤ u * |st.sum + x| := by
    rw [abs_sub_comm]; exact hrel
  have hcrel := h.rel (st.comp + (st.sum + x - fl (st.sum + x)))
  have eE : (ys ++ [x]).sum - fl (st.sum + x) =
      (ys.sum - st.sum) + (st.sum + x - fl (st.sum + x)) := by
    simp only [List.sum_append, List.sum_singleton]; ring
  have elen : (((ys ++ [x]).length : ℕ) : ℝ) = (ys.length : ℝ) + 1 := by simp
  have epow : (1 + u) ^ (ys ++ [x]).length = (1 + u) ^ ys.length * (1 + u) := by
    simp [pow_succ]
  have b_e := step_e (x := x) hu hP I.sumB he
  have b_E := step_E hu hP hk hA hAA I.errB b_e
  have b_dist := comp_dist (E := ys.sum - st.sum) hcrel hu
  have b_d := step_d hu hP hk hA hAA I.compB b_E b_dist
  refine ⟨?_, ?_, ?_, ?_⟩
  · rw [push_sum]; exact h.fl_idem _
  · rw [push_sum, epow, absSum_snoc]
    exact step_sum hu hP I.sumB hs'
  · rw [push_sum, eE, elen, epow, absSum_snoc]; exact b_E
  · rw [push_comp h st x I.repr hx, push_sum, eE, elen, epow, absSum_snoc]; exact b_d

/-- The invariant holds after any list of representable numbers. -/
theorem run_inv (h : FPModel fl u) (xs : List ℝ) (hx : ∀ x ∈ xs, fl x = x) :
    Inv fl u xs (run fl xs) := by
  induction xs using List.reverseRecOn with
  | nil => exact inv_nil h
  | append_singleton ys x ih =>
    rw [run_snoc]
    exact inv_snoc h ys x _ (hx x (by simp)) (ih fun y hy => hx y (by simp [hy]))

/-- Error bound with the explicit growth factor `(1+u)^(2n)`; no smallness condition. -/
theorem result_bound_pow (h : FPModel fl u) (xs : List ℝ) (hx : ∀ x ∈ xs, fl x = x) :
    |@kbnSum ℝ (flScalar fl) xs - xs.sum| ≤
      u * |xs.sum| + (xs.length : ℝ) ^ 2 * u ^ 2 * ((1 + u) ^ xs.length) ^ 2 * absSum xs := by
  have I := run_inv h xs hx
  have hres := h.rel ((run fl xs).sum + (run fl xs).comp)
  have hS : (run fl xs).sum + (xs.sum - (run fl xs).sum) = xs.sum := by ring
  have hf := final_dist h.u_nonneg hres hS
  rw [kbnSum_eq]
  have := I.compB
  linarith

/-- With `n u ≤ 1/2` the growth factor is at most 4. -/
theorem result_bound (h : FPModel fl u) (xs : List ℝ) (hx : ∀ x ∈ xs, fl x = x)
    (hn : (xs.length : ℝ) * u ≤ 1 / 2) :
    |@kbnSum ℝ (flScalar fl) xs - xs.sum| ≤
      u * |xs.sum| + 4 * (xs.length : ℝ) ^ 2 * u ^ 2 * absSum xs := by
  have hb := result_bound_pow h xs hx
  have hu := h.u_nonneg
  have hp2 := pow_le_two hu xs.length hn
  have hp0 : 0 ≤ (1 + u) ^ xs.length := by positivity
  have hsq : ((1 + u) ^ xs.length) ^ 2 ≤ 4 := by nlinarith
  have hc : 0 ≤ (xs.length : ℝ) ^ 2 * u ^ 2 * absSum xs := by
    have := absSum_nonneg xs; positivity
  have := mul_le_mul_of_nonneg_left hsq hc
  have e1 : (xs.length : ℝ) ^ 2 * u ^ 2 * ((1 + u) ^ xs.length) ^ 2 * absSum xs =
      (xs.length : ℝ) ^ 2 * u ^ 2 * absSum xs * ((1 + u) ^ xs.length) ^ 2 := by ring
  rw [e1] at hb
  linarith

/-! ### dot products: the summer is fed the rounded products -/

/-- At the rounded arithmetic `dotTerms` yields the roundings of the exact products
    (same index matching: indices are compared exactly). -/
theorem dotTerms_fl (fl : ℝ → ℝ) (e1 e2 : List (Entry ℝ)) :
    @dotTerms ℝ (flScalar fl) e1 e2 = (@dotTerms ℝ fieldScalar e1 e2).map fl := by
  fun_induction @dotTerms ℝ fieldScalar e1 e2 with
  | case1 e2 => rw [@dotTerms.eq_1 ℝ (flScalar fl)]; rfl
  | case2 e1 h =>
    cases e1 with
    | nil => exact absurd rfl h
    | cons a t => rw [@dotTerms.eq_2 ℝ (flScalar fl) _ (by simp)]; rfl
  | case3 a e1 b e2 hlt ih => rw [@dotTerms.eq_3 ℝ (flScalar fl), if_pos hlt, ih]
  | case4 a e1 b e2 hlt heq ih =>
    rw [@dotTerms.eq_3 ℝ (flScalar fl), if_neg hlt, if_pos heq, ih]; rfl
  | case5 a e1 b e2 hlt hne ih =>
    rw [@dotTerms.eq_3 ℝ (flScalar fl), if_neg hlt, if_neg hne, ih]

theorem sum_map_fl_sub (h : FPModel fl u) (ps : List ℝ) :
    |(ps.map fl).sum - ps.sum| ≤ u * absSum ps := by
  induction ps with
  | nil => simp [absSum]
  | cons p t ih =>
    have e1 : ((p :: t).map fl).sum - (p :: t).sum = (fl p - p) + ((t.map fl).sum - t.sum) := by
      simp only [List.map_cons, List.sum_cons]; ring
    have e2 : absSum (p :: t) = |p| + absSum t := by simp [absSum]
    have h1 := abs_add_le (fl p - p) ((t.map fl).sum - t.sum)
    have h2 := h.rel p
    rw [e1, e2]; linarith

theorem absSum_map_fl_le (h : FPModel fl u) (ps : List ℝ) :
    absSum (ps.map fl) ≤ (1 + u) * absSum ps := by
  induction ps with
  | nil => simp [absSum]
  | cons p t ih =>
    have e1 : absSum ((p :: t).map fl) = |fl p| + absSum (t.map fl) := by simp [absSum]
    have e2 : absSum (p :: t) = |p| + absSum t := by simp [absSum]
    have h2 := abs_fl_le h p
    rw [e1, e2]; linarith

theorem abs_sum_le_absSum (ps : List ℝ) : |ps.sum| ≤ absSum ps := by
  induction ps with
  | nil => simp [absSum]
  | cons p t ih =>
    have e2 : absSum (p :: t) = |p| + absSum t := by simp [absSum]
    have h1 := abs_add_le p t.sum
    rw [List.sum_cons, e2]; linarith

/-! ### a model that is not exact arithmetic (non-vacuity with `u > 0`) -/

/-- Exact arithmetic except that `3` is not representable and rounds to `3 + 1/8`. -/
noncomputable def flBump (x : ℝ) : ℝ := if x = 3 then 25 / 8 else x

theorem flBump_three : flBump 3 = 25 / 8 := by simp [flBump]
theorem flBump_ne {x : ℝ} (hx : x ≠ 3) : flBump x = x := by simp [flBump, hx]
theorem flBump_repr {x : ℝ} (hx : flBump x = x) : x ≠ 3 := by
  intro h3; rw [h3, flBump_three] at hx; norm_num at hx

theorem fpModel_bump : FPModel flBump (1 / 24) where
  u_nonneg := by norm_num
  rel := by
    intro x
    by_cases hx : x = 3
    · rw [hx, flBump_three]; norm_num [abs_of_pos]
    · rw [flBump_ne hx]; simp
  fl_zero := flBump_ne (by norm_num)
  fl_idem := by
    intro x
    by_cases hx : x = 3
    · rw [hx, flBump_three]; exact flBump_ne (by norm_num)
    · rw [flBump_ne hx, flBump_ne hx]
  twoSum := by
    intro a b ha hb hab
    have ha3 := flBump_repr ha
    have hb3 := flBump_repr hb
    by_cases hs : a + b = 3
    · rw [hs, flBump_three]
      have h1 : (25 / 8 : ℝ) - a ≠ 3 := by
        intro h
        have ea : a = 1 / 8 := by linarith
        have eb : b = 23 / 8 := by linarith
        rw [ea, eb] at hab
        norm_num [abs_of_pos] at hab
      rw [flBump_ne h1]
      have h2 : b - (25 / 8 - a) ≠ 3 := by
        intro h; have : a + b = 49 / 8 := by linarith
        rw [hs] at this; norm_num at this
      rw [flBump_ne h2]; linarith
    · rw [flBump_ne hs]
      have e1 : a + b - a = b := by ring
      rw [e1, flBump_ne hb3]
      simp [flBump_ne]

end KBNFloat
end EtVerif
