import EtVerif.Proofs.TrBridge
namespace EtVerif.Tr
open EtVerif EtVerif.GoSem EtVerif.Gen Scalar
variable {α : Type} [Scalar α]

theorem goSlice_tail' {β : Type} (x : β) (l : List β) (n : Int) (h : n = (l.length : Int) + 1) :
    goSlice (x :: l) 1 n = .ok l := by
  subst h
  have := goSlice_tail x l
  simpa using this

theorem natCast_succ_ne_zero (n : Nat) : ((n : Int) + 1 = 0) ↔ False :=
  ⟨fun h => by omega, False.elim⟩

@[simp] theorem addEntries_nil_right (a : List (Entry α)) : addEntries a [] = a := by
  cases a <;> simp [addEntries]

@[simp] theorem subEntries_nil_right (a : List (Entry α)) : subEntries a [] = a := by
  cases a <;> simp [subEntries, negEntries]

theorem AddVec_body_step (capO : Nat → Int) (fuel : Nat) (s : Vector_AddVec.St α) (a b : List (Entry α))
    (h1 : s.e1 = toGs a) (h2 : s.e2 = toGs b) (hne : 0 < a.length + b.length) :
    ∃ (x : Entry α) (a' b' : List (Entry α)) (s1 : Vector_AddVec.St α),
      Vector_AddVec.loop1_body capO fuel s = .ok (s1, .next) ∧
      s1.e1 = toGs a' ∧ s1.e2 = toGs b' ∧ s1.entries = s.entries ++ [toG x] ∧
      s1.v = s.v ∧ s1.v1 = s.v1 ∧
      addEntries a b = x :: addEntries a' b' ∧ a'.length + b'.length + 1 ≤ a.length + b.length := by
  obtain ⟨v, v1, v2, e1, e2, entries, newEntries, e⟩ := s
  simp only at h1 h2
  subst h1 h2
  cases a with
  | nil =>
    cases b with
    | nil => simp at hne
    | cons y b =>
      refine ⟨y, [], b, ?_⟩
      by_cases hcap : (entries.length : Int) = capO entries.length <;>
      simp [Vector_AddVec.loop1_body, Stm.seq, Stm.set, Stm.ite, Stm.skip, bind, Except.bind, pure,
        Except.pure, hcap, goSlice_tail', addEntries]
  | cons x a =>
    cases b with
    | nil =>
      refine ⟨x, a, [], ?_⟩
      by_cases hcap : (entries.length : Int) = capO entries.length <;>
      simp [Vector_AddVec.loop1_body, Stm.seq, Stm.set, Stm.ite, Stm.skip, bind, Except.bind, pure,
        Except.pure, hcap, goSlice_tail', natCast_succ_ne_zero]
    | cons y b =>
      by_cases hxy : x.idx < y.idx
      · refine ⟨x, a, y :: b, ?_⟩
        by_cases hcap : (entries.length : Int) = capO entries.length <;>
        simp [Vector_AddVec.loop1_body, Stm.seq, Stm.set, Stm.ite, Stm.skip, bind, Except.bind, pure,
          Except.pure, hcap, goSlice_tail', natCast_succ_ne_zero, addEntries, hxy] <;> omega
      · by_cases hyx : y.idx < x.idx
        · refine ⟨y, x :: a, b, ?_⟩
          by_cases hcap : (entries.length : Int) = capO entries.length <;>
          simp [Vector_AddVec.loop1_body, Stm.seq, Stm.set, Stm.ite, Stm.skip, bind, Except.bind, pure,
            Except.pure, hcap, goSlice_tail', natCast_succ_ne_zero, addEntries, hxy, hyx] <;> omega
        · refine ⟨⟨x.idx, add x.val y.val⟩, a, b, ?_⟩
          by_cases hcap : (entries.length : Int) = capO entries.length <;>
          simp [Vector_AddVec.loop1_body, Stm.seq, Stm.set, Stm.ite, Stm.skip, bind, Except.bind, pure,
            Except.pure, hcap, goSlice_tail', natCast_succ_ne_zero, addEntries, hxy, hyx, toG] <;> omega

theorem AddVec_loop (capO : Nat → Int) (fuel : Nat) :
    ∀ (n : Nat) (a b : List (Entry α)) (s : Vector_AddVec.St α),
      s.e1 = toGs a → s.e2 = toGs b → a.length + b.length ≤ n →
      ∃ s', Stm.loop 1 (Vector_AddVec.loop1_cond capO fuel) (Vector_AddVec.loop1_body capO fuel)
          (Vector_AddVec.loop1_post capO fuel) n s = .ok (s', .next) ∧
        s'.entries = s.entries ++ toGs (addEntries a b) ∧ s'.v = s.v ∧ s'.v1 = s.v1 := by
  intro n
  induction n with
  | zero =>
    intro a b s h1 h2 hn
    have ha : a = [] := List.eq_nil_of_length_eq_zero (by omega)
    have hb : b = [] := List.eq_nil_of_length_eq_zero (by omega)
    subst ha hb
    refine ⟨s, ?_, by simp, rfl, rfl⟩
    apply loop_exit
    simp [Vector_AddVec.loop1_cond, h1, h2, pure, Except.pure]
  | succ n ih =>
    intro a b s h1 h2 hn
    by_cases hne : 0 < a.length + b.length
    · obtain ⟨x, a', b', s1, hb, e1, e2, e3, e4, e5, e6, e7⟩ := AddVec_body_step capO fuel s a b h1 h2 hne
      obtain ⟨s', l1, l2, l3, l4⟩ := ih a' b' s1 e1 e2 (by omega)
      refine ⟨s', ?_, ?_, by rw [l3, e4], by rw [l4, e5]⟩
      · rw [loop_step (s1 := s1) (s2 := s1) ?_ hb rfl]
        · exact l1
        · have : 0 < (toGs a).length + (toGs b).length := by simpa using hne
          simp only [Vector_AddVec.loop1_cond, h1, h2, pure, Except.pure, goLen_eq]
          congr 1
          simp only [Bool.or_eq_true, decide_eq_true_eq]
          omega
      · rw [l2, e3, e6]; simp
    · have ha : a = [] := List.eq_nil_of_length_eq_zero (by omega)
      have hb : b = [] := List.eq_nil_of_length_eq_zero (by omega)
      subst ha hb
      refine ⟨s, ?_, by simp, rfl, rfl⟩
      apply loop_exit
      simp [Vector_AddVec.loop1_cond, h1, h2, pure, Except.pure]

/-- Go `Vector.AddVec` (translated from the current source) computes exactly the model's `Vec.addVec`,
    for every capacity behaviour `capO`, every previous receiver content `w`, every pair of entry lists
    (sorted or not), and every fuel ≥ the total number of entries (so the loop terminates). -/
theorem Vector_AddVec_refines (capO : Nat → Int) (fuel : Nat) (w : GVector α) (v1 v2 : Vec α)
    (hf : v1.entries.length + v2.entries.length ≤ fuel) :
    (Vector_AddVec capO fuel w (toGV v1) (toGV v2)).map (fun r => (r.1.v, r.2)) =
      (match v1.addVec v2 with
       | .ok r => .ok (toGV r, none)
       | .error _ => .ok (w, some ⟨"ErrDimensionMismatch"⟩)) := by
  by_cases hd : v1.dim = v2.dim
  · obtain ⟨s', l1, l2, l3, l4⟩ := AddVec_loop capO fuel fuel v1.entries v2.entries
      { v := w, v1 := toGV v1, v2 := toGV v2, e1 := toGs v1.entries, e2 := toGs v2.entries,
        entries := [], newEntries := [], e := GEntry.zero } rfl rfl hf
    have hd' : (v1.dim : Int) = (v2.dim : Int) := by omega
    simp only [Vector_AddVec, Vector_AddVec.body, Stm.run, Stm.seq, Stm.set, Stm.ite, Stm.skip, Stm.ret, pure,
      Except.pure, toGV_Dim, toGV_Entries, hd', decide_true, Bool.not_true, l1, Except.map, Vec.addVec]
    simp [l2, l4, hd, toGV]
  · have hd' : ¬ ((v1.dim : Int) = (v2.dim : Int)) := by omega
    simp [Vector_AddVec, Vector_AddVec.body, Stm.run, Stm.seq, Stm.ite, Stm.ret, pure,
      Except.pure, hd, hd', Except.map, Vec.addVec]

theorem SubVec_body_step (capO : Nat → Int) (fuel : Nat) (s : Vector_SubVec.St α) (a b : List (Entry α))
    (h1 : s.e1 = toGs a) (h2 : s.e2 = toGs b) (hne : 0 < a.length + b.length) :
    ∃ (x : Entry α) (a' b' : List (Entry α)) (s1 : Vector_SubVec.St α),
      Vector_SubVec.loop1_body capO fuel s = .ok (s1, .next) ∧
      s1.e1 = toGs a' ∧ s1.e2 = toGs b' ∧ s1.entries = s.entries ++ [toG x] ∧
      s1.v = s.v ∧ s1.v1 = s.v1 ∧
      subEntries a b = x :: subEntries a' b' ∧ a'.length + b'.length + 1 ≤ a.length + b.length := by
  obtain ⟨v, v1, v2, e1, e2, entries, newEntries, e⟩ := s
  simp only at h1 h2
  subst h1 h2
  cases a with
  | nil =>
    cases b with
    | nil => simp at hne
    | cons y b =>
      refine ⟨⟨y.idx, neg y.val⟩, [], b, ?_⟩
      by_cases hcap : (entries.length : Int) = capO entries.length <;>
      simp [Vector_SubVec.loop1_body, Stm.seq, Stm.set, Stm.ite, Stm.skip, bind, Except.bind, pure,
        Except.pure, hcap, goSlice_tail', subEntries, negEntries, toG]
  | cons x a =>
    cases b with
    | nil =>
      refine ⟨x, a, [], ?_⟩
      by_cases hcap : (entries.length : Int) = capO entries.length <;>
      simp [Vector_SubVec.loop1_body, Stm.seq, Stm.set, Stm.ite, Stm.skip, bind, Except.bind, pure,
        Except.pure, hcap, goSlice_tail', natCast_succ_ne_zero]
    | cons y b =>
      by_cases hxy : x.idx < y.idx
      · refine ⟨x, a, y :: b, ?_⟩
        by_cases hcap : (entries.length : Int) = capO entries.length <;>
        simp [Vector_SubVec.loop1_body, Stm.seq, Stm.set, Stm.ite, Stm.skip, bind, Except.bind, pure,
          Except.pure, hcap, goSlice_tail', natCast_succ_ne_zero, subEntries, hxy] <;> omega
      · by_cases hyx : y.idx < x.idx
        · refine ⟨⟨y.idx, neg y.val⟩, x :: a, b, ?_⟩
          by_cases hcap : (entries.length : Int) = capO entries.length <;>
          simp [Vector_SubVec.loop1_body, Stm.seq, Stm.set, Stm.ite, Stm.skip, bind, Except.bind, pure,
            Except.pure, hcap, goSlice_tail', natCast_succ_ne_zero, subEntries, hxy, hyx, toG] <;> omega
        · refine ⟨⟨x.idx, sub x.val y.val⟩, a, b, ?_⟩
          by_cases hcap : (entries.length : Int) = capO entries.length <;>
          simp [Vector_SubVec.loop1_body, Stm.seq, Stm.set, Stm.ite, Stm.skip, bind, Except.bind, pure,
            Except.pure, hcap, goSlice_tail', natCast_succ_ne_zero, subEntries, hxy, hyx, toG] <;> omega

theorem SubVec_loop (capO : Nat → Int) (fuel : Nat) :
    ∀ (n : Nat) (a b : List (Entry α)) (s : Vector_SubVec.St α),
      s.e1 = toGs a → s.e2 = toGs b → a.length + b.length ≤ n →
      ∃ s', Stm.loop 1 (Vector_SubVec.loop1_cond capO fuel) (Vector_SubVec.loop1_body capO fuel)
          (Vector_SubVec.loop1_post capO fuel) n s = .ok (s', .next) ∧
        s'.entries = s.entries ++ toGs (subEntries a b) ∧ s'.v = s.v ∧ s'.v1 = s.v1 := by
  intro n
  induction n with
  | zero =>
    intro a b s h1 h2 hn
    have ha : a = [] := List.eq_nil_of_length_eq_zero (by omega)
    have hb : b = [] := List.eq_nil_of_length_eq_zero (by omega)
    subst ha hb
    refine ⟨s, ?_, by simp, rfl, rfl⟩
    apply loop_exit
    simp [Vector_SubVec.loop1_cond, h1, h2, pure, Except.pure]
  | succ n ih =>
    intro a b s h1 h2 hn
    by_cases hne : 0 < a.length + b.length
    · obtain ⟨x, a', b', s1, hb, e1, e2, e3, e4, e5, e6, e7⟩ := SubVec_body_step capO fuel s a b h1 h2 hne
      obtain ⟨s', l1, l2, l3, l4⟩ := ih a' b' s1 e1 e2 (by omega)
      refine ⟨s', ?_, ?_, by rw [l3, e4], by rw [l4, e5]⟩
      · rw [loop_step (s1 := s1) (s2 := s1) ?_ hb rfl]
        · exact l1
        · have : 0 < (toGs a).length + (toGs b).length := by simpa using hne
          simp only [Vector_SubVec.loop1_cond, h1, h2, pure, Except.pure, goLen_eq]
          congr 1
          simp only [Bool.or_eq_true, decide_eq_true_eq]
          omega
      · rw [l2, e3, e6]; simp
    · have ha : a = [] := List.eq_nil_of_length_eq_zero (by omega)
      have hb : b = [] := List.eq_nil_of_length_eq_zero (by omega)
      subst ha hb
      refine ⟨s, ?_, by simp, rfl, rfl⟩
      apply loop_exit
      simp [Vector_SubVec.loop1_cond, h1, h2, pure, Except.pure]

/-- Go `Vector.SubVec` (translated from the current source) computes exactly the model's `Vec.subVec`,
    for every capacity behaviour `capO`, every previous receiver content `w`, every pair of entry lists
    (sorted or not), and every fuel ≥ the total number of entries (so the loop terminates). -/
theorem Vector_SubVec_refines (capO : Nat → Int) (fuel : Nat) (w : GVector α) (v1 v2 : Vec α)
    (hf : v1.entries.length + v2.entries.length ≤ fuel) :
    (Vector_SubVec capO fuel w (toGV v1) (toGV v2)).map (fun r => (r.1.v, r.2)) =
      (match v1.subVec v2 with
       | .ok r => .ok (toGV r, none)
       | .error _ => .ok (w, some ⟨"ErrDimensionMismatch"⟩)) := by
  by_cases hd : v1.dim = v2.dim
  · obtain ⟨s', l1, l2, l3, l4⟩ := SubVec_loop capO fuel fuel v1.entries v2.entries
      { v := w, v1 := toGV v1, v2 := toGV v2, e1 := toGs v1.entries, e2 := toGs v2.entries,
        entries := [], newEntries := [], e := GEntry.zero } rfl rfl hf
    have hd' : (v1.dim : Int) = (v2.dim : Int) := by omega
    simp only [Vector_SubVec, Vector_SubVec.body, Stm.run, Stm.seq, Stm.set, Stm.ite, Stm.skip, Stm.ret, pure,
      Except.pure, toGV_Dim, toGV_Entries, hd', decide_true, Bool.not_true, l1, Except.map, Vec.subVec]
    simp [l2, l4, hd, toGV]
  · have hd' : ¬ ((v1.dim : Int) = (v2.dim : Int)) := by omega
    simp [Vector_SubVec, Vector_SubVec.body, Stm.run, Stm.seq, Stm.ite, Stm.ret, pure,
      Except.pure, hd, hd', Except.map, Vec.subVec]

end EtVerif.Tr
