/-
  Refinement of the translated `CSMatrix.Transpose` (Gen/Translated.lean, regenerated from /repo)
  to the hand-written model `CSM.transpose` (Model/Sparse.lean): the counting pass only has to be
  shown not to panic (it is an allocation hint), the pre-allocation pass is a no-op on lists, and
  the scatter pass is the model's fold of `scatterRow` over the indexed rows.
-/
import EtVerif.Proofs.TrHelpers
namespace EtVerif.Tr
open EtVerif EtVerif.GoSem EtVerif.Gen Scalar
variable {α : Type} [Scalar α]

/-! ### list helpers -/

omit [Scalar α] in
theorem scatterRow_length (i : Nat) (r : Row α) :
    ∀ (t : List (Row α)), (scatterRow t i r).length = t.length := by
  induction r with
  | nil => intro t; rfl
  | cons e r ih =>
    intro t
    have : scatterRow t i (e :: r) = scatterRow (t.modify e.idx (· ++ [⟨i, e.val⟩])) i r := rfl
    rw [this, ih, List.length_modify]

/-! ### the counting pass (loops 1 and 2): does not panic, keeps the length of `nnzs` -/

theorem Transpose_loop2 (n : Nat) (es : List (Entry α)) :
    ∀ (j : Int) (s : CSMatrix_Transpose.St α), s.nnzs.length = n → (∀ e ∈ es, e.idx < n) →
      ∃ s', Stm.range 2 CSMatrix_Transpose.loop2_bind (CSMatrix_Transpose.loop2_body (α := α))
          j (toGs es) s = .ok (s', .next) ∧ s'.nnzs.length = n ∧ s'.m = s.m := by
  induction es with
  | nil => intro j s hn _; exact ⟨s, rfl, hn, rfl⟩
  | cons e es ih =>
    intro j s hn he
    have hlt : e.idx < s.nnzs.length := by rw [hn]; exact he e (by simp)
    have hb : CSMatrix_Transpose.loop2_body (CSMatrix_Transpose.loop2_bind j (toG e) s) =
        .ok ({ s with e := toG e, nnzs := s.nnzs.set e.idx (s.nnzs[e.idx] + 1) }, .next) := by
      simp only [CSMatrix_Transpose.loop2_body, CSMatrix_Transpose.loop2_bind, Stm.set, bind, Except.bind,
        pure, Except.pure, toG_Index, goIdx_ofNat _ _ hlt, goSet_ofNat _ _ _ hlt]
    obtain ⟨s', h1, h2, h3⟩ := ih (j + 1)
      { s with e := toG e, nnzs := s.nnzs.set e.idx (s.nnzs[e.idx] + 1) }
      (by simpa using hn) (fun e' he' => he e' (by simp [he']))
    refine ⟨s', ?_, h2, h3⟩
    rw [toGs_cons, range_cons_next hb]
    exact h1

theorem Transpose_loop1 (n : Nat) (rows : List (Row α)) :
    ∀ (j : Int) (s : CSMatrix_Transpose.St α), s.nnzs.length = n →
      (∀ r ∈ rows, ∀ e ∈ r, e.idx < n) →
      ∃ s', Stm.range 1 CSMatrix_Transpose.loop1_bind (CSMatrix_Transpose.loop1_body (α := α))
          j (rows.map toGs) s = .ok (s', .next) ∧ s'.nnzs.length = n ∧ s'.m = s.m := by
  induction rows with
  | nil => intro j s hn _; exact ⟨s, rfl, hn, rfl⟩
  | cons r rows ih =>
    intro j s hn hr
    obtain ⟨s1, a1, a2, a3⟩ := Transpose_loop2 n r 0 { s with rowEntries := toGs r } hn
      (hr r (by simp))
    have hb : CSMatrix_Transpose.loop1_body (CSMatrix_Transpose.loop1_bind j (toGs r) s) =
        .ok (s1, .next) := by
      simp only [CSMatrix_Transpose.loop1_body, CSMatrix_Transpose.loop1_bind, Stm.rangeOver,
        CSMatrix_Transpose.loop2_xs, pure, Except.pure]
      exact a1
    obtain ⟨s', h1, h2, h3⟩ := ih (j + 1) s1 a2 (fun r' hr' => hr r' (by simp [hr']))
    refine ⟨s', ?_, h2, ?_⟩
    · rw [List.map_cons, range_cons_next hb]
      exact h1
    · rw [h3, a3]

/-! ### the pre-allocation pass (loop 3): a no-op on the (list) row table -/

theorem Transpose_loop3 (n : Nat) (xs : List Int) :
    ∀ (k : Nat) (s : CSMatrix_Transpose.St α), k + xs.length ≤ n →
      s.transposedEntries = List.replicate n [] →
      ∃ s', Stm.range 3 CSMatrix_Transpose.loop3_bind (CSMatrix_Transpose.loop3_body (α := α))
          (k : Int) xs s = .ok (s', .next) ∧ s'.transposedEntries = List.replicate n [] ∧ s'.m = s.m := by
  induction xs with
  | nil => intro k s _ ht; exact ⟨s, rfl, ht, rfl⟩
  | cons x xs ih =>
    intro k s hk ht
    have hk' : k < n := by simp at hk; omega
    have hb : CSMatrix_Transpose.loop3_body (CSMatrix_Transpose.loop3_bind (k : Int) x s) =
        .ok ({ s with col := (k : Int), nnz := x }, .next) := by
      by_cases hx : x = 0
      · simp [CSMatrix_Transpose.loop3_body, CSMatrix_Transpose.loop3_bind, Stm.ite, Stm.skip,
          pure, Except.pure, hx]
      · have hs : goSet (List.replicate n ([] : List (GEntry α))) (k : Int) [] =
            .ok (List.replicate n []) := by
          rw [goSet_ofNat _ _ _ (by simpa using hk')]
          simp
        simp only [CSMatrix_Transpose.loop3_body, CSMatrix_Transpose.loop3_bind, Stm.ite, Stm.set,
          pure, Except.pure, hx, decide_false, Bool.not_false, bind, Except.bind, goMake_zero, ht, hs]
    obtain ⟨s', h1, h2, h3⟩ := ih (k + 1) { s with col := (k : Int), nnz := x }
      (by simp at hk; omega) ht
    refine ⟨s', ?_, h2, h3⟩
    rw [range_cons_next hb]
    have : ((k + 1 : Nat) : Int) = (k : Int) + 1 := by simp
    rw [this] at h1
    exact h1

/-! ### the scatter pass (loops 4 and 5) -/

theorem Transpose_loop5 (i : Nat) (es : List (Entry α)) :
    ∀ (j : Int) (t : List (Row α)) (s : CSMatrix_Transpose.St α),
      s.transposedEntries = t.map toGs → s.row = (i : Int) → (∀ e ∈ es, e.idx < t.length) →
      ∃ s', Stm.range 5 CSMatrix_Transpose.loop5_bind (CSMatrix_Transpose.loop5_body (α := α))
          j (toGs es) s = .ok (s', .next) ∧
        s'.transposedEntries = (scatterRow t i es).map toGs ∧ s'.m = s.m := by
  induction es with
  | nil => intro j t s ht _ _; exact ⟨s, rfl, ht, rfl⟩
  | cons e es ih =>
    intro j t s ht hr he
    have hlt : e.idx < t.length := he e (by simp)
    have hlt' : e.idx < (t.map toGs).length := by simpa using hlt
    have hsc : scatterRow t i (e :: es) = scatterRow (t.modify e.idx (· ++ [⟨i, e.val⟩])) i es := rfl
    have hmod : (t.modify e.idx (· ++ [⟨i, e.val⟩])).map toGs =
        (t.map toGs).set e.idx ((t.map toGs)[e.idx] ++ [({ Index := (i : Int), Value := e.val } : GEntry α)]) := by
      rw [modify_eq_set_of_lt _ _ _ hlt, List.map_set]
      simp [toG]
    have hb : CSMatrix_Transpose.loop5_body (CSMatrix_Transpose.loop5_bind j (toG e) s) =
        .ok ({ s with e_2 := toG e, col_2 := (e.idx : Int),
                      transposedEntries := (t.modify e.idx (· ++ [⟨i, e.val⟩])).map toGs }, .next) := by
      simp only [CSMatrix_Transpose.loop5_body, CSMatrix_Transpose.loop5_bind, Stm.seq, Stm.set, bind,
        Except.bind, pure, Except.pure, toG_Index, toG_Value, ht, hr, goIdx_ofNat _ _ hlt',
        goSet_ofNat _ _ _ hlt', hmod]
    obtain ⟨s', h1, h2, h3⟩ := ih (j + 1) (t.modify e.idx (· ++ [⟨i, e.val⟩]))
      { s with e_2 := toG e, col_2 := (e.idx : Int),
               transposedEntries := (t.modify e.idx (· ++ [⟨i, e.val⟩])).map toGs }
      rfl hr (fun e' he' => by rw [List.length_modify]; exact he e' (by simp [he']))
    refine ⟨s', ?_, ?_, h3⟩
    · rw [toGs_cons, range_cons_next hb]
      exact h1
    · rw [hsc]; exact h2

theorem Transpose_loop4 (rows : List (Row α)) :
    ∀ (k : Nat) (t : List (Row α)) (s : CSMatrix_Transpose.St α),
      s.transposedEntries = t.map toGs → (∀ r ∈ rows, ∀ e ∈ r, e.idx < t.length) →
      ∃ s', Stm.range 4 CSMatrix_Transpose.loop4_bind (CSMatrix_Transpose.loop4_body (α := α))
          (k : Int) (rows.map toGs) s = .ok (s', .next) ∧
        s'.transposedEntries =
          ((rows.zipIdx k).foldl (fun t (p : Row α × Nat) => scatterRow t p.2 p.1) t).map toGs ∧
        s'.m = s.m := by
  induction rows with
  | nil => intro k t s ht _; exact ⟨s, rfl, ht, rfl⟩
  | cons r rows ih =>
    intro k t s ht hr
    obtain ⟨s1, a1, a2, a3⟩ := Transpose_loop5 k r 0 t
      { s with row := (k : Int), rowEntries_2 := toGs r } ht rfl (hr r (by simp))
    have hb : CSMatrix_Transpose.loop4_body (CSMatrix_Transpose.loop4_bind (k : Int) (toGs r) s) =
        .ok (s1, .next) := by
      simp only [CSMatrix_Transpose.loop4_body, CSMatrix_Transpose.loop4_bind, Stm.rangeOver,
        CSMatrix_Transpose.loop5_xs, pure, Except.pure]
      exact a1
    obtain ⟨s', h1, h2, h3⟩ := ih (k + 1) (scatterRow t k r) s1 a2
      (fun r' hr' e he => by rw [scatterRow_length]; exact hr r' (by simp [hr']) e he)
    refine ⟨s', ?_, ?_, ?_⟩
    · rw [List.map_cons, range_cons_next hb]
      have : ((k + 1 : Nat) : Int) = (k : Int) + 1 := by simp
      rw [this] at h1
      exact h1
    · rw [List.zipIdx_cons, List.foldl_cons]
      exact h2
    · rw [h3, a3]

/-! ### the function -/

omit [Scalar α] in
theorem colsInRange_spec (m : CSM α) (hc : m.colsInRange = true) :
    ∀ r ∈ m.rows, ∀ e ∈ r, e.idx < m.minor := by
  intro r hr e he
  have := hc
  simp only [CSM.colsInRange, List.all_eq_true, decide_eq_true_eq] at this
  exact this r hr e he

/-- the body, from any initial state holding the matrix. -/
theorem Transpose_body (m : CSM α) (hc : m.colsInRange = true) (s0 : CSMatrix_Transpose.St α)
    (h0 : s0.m = toGM m) :
    ∃ s4 : CSMatrix_Transpose.St α,
      CSMatrix_Transpose.body s0 =
        .ok ({ s4 with mt := ⟨(m.minor : Int), (m.major : Int), s4.transposedEntries⟩ },
             .ret (⟨(m.minor : Int), (m.major : Int), s4.transposedEntries⟩, none)) ∧
      s4.transposedEntries = (m.transpose.rows).map toGs := by
  have hr := colsInRange_spec m hc
  obtain ⟨s1, a1, a2, a3⟩ := Transpose_loop1 m.minor m.rows 0
    { s0 with nnzs := List.replicate m.minor (0 : Int) } (by simp) hr
  obtain ⟨s3, b1, b2, b3⟩ := Transpose_loop3 m.minor s1.nnzs 0
    { s1 with transposedEntries := List.replicate m.minor [] } (by omega) rfl
  obtain ⟨s4, c1, c2, c3⟩ := Transpose_loop4 m.rows 0 (List.replicate m.minor []) s3
    (by rw [b2]; simp) (by simpa using hr)
  have hm1 : s1.m = toGM m := by rw [a3]; exact h0
  have hm3 : s3.m = toGM m := by rw [b3]; exact hm1
  have hm4 : s4.m = toGM m := by rw [c3]; exact hm3
  simp only [Int.natCast_zero] at b1 c1
  refine ⟨s4, ?_, ?_⟩
  · unfold CSMatrix_Transpose.body
    rw [seq_next (s1 := { s0 with nnzs := List.replicate m.minor (0 : Int) })]
    · rw [seq_next (s1 := s1)]
      · rw [seq_next (s1 := { s1 with transposedEntries := List.replicate m.minor [] })]
        · rw [seq_next (s1 := s3)]
          · rw [seq_next (s1 := s4)]
            · simp only [Stm.seq, Stm.set, Stm.ret, pure, Except.pure, hm4,
                toGM_MinorDim, toGM_MajorDim]
            · simp only [Stm.rangeOver, CSMatrix_Transpose.loop4_xs, pure, Except.pure, hm3, toGM_Entries]
              exact c1
          · simp only [Stm.rangeOver, CSMatrix_Transpose.loop3_xs, pure, Except.pure]
            exact b1
        · simp only [Stm.set, bind, Except.bind, pure, Except.pure, hm1, toGM_MinorDim, goMake_natCast]
      · have he : s0.m.Entries = m.rows.map toGs := by rw [h0]; rfl
        simp only [Stm.rangeOver, CSMatrix_Transpose.loop1_xs, pure, Except.pure, he]
        exact a1
    · simp only [Stm.set, bind, Except.bind, pure, Except.pure, h0, toGM_MinorDim, goMake_natCast]
  · rw [c2]
    rfl

/-- Go `CSMatrix.Transpose` (translated from the current source) = the model's `CSM.transpose`, for every
    matrix whose stored column indices are all `< minor` (otherwise the Go code panics on `nnzs[e.Index]`);
    no fuel: only range loops. -/
theorem CSMatrix_Transpose_refines (m : CSM α) (hc : m.colsInRange = true) :
    (Gen.CSMatrix_Transpose (toGM m)).map (fun r => r.2) = .ok (toGM m.transpose, none) := by
  obtain ⟨s4, h1, h2⟩ := Transpose_body m hc
    { m := toGM m, nnzs := [], rowEntries := [], e := GEntry.zero, transposedEntries := [], col := 0,
      nnz := 0, row := 0, rowEntries_2 := [], e_2 := GEntry.zero, col_2 := 0, mt := GCSMatrix.zero } rfl
  simp only [Gen.CSMatrix_Transpose, Stm.run, h1, Except.map, h2]
  rfl

end EtVerif.Tr
