/-
  The goroutine system of `sparse.(*Vector).MulVec` (vector.go 200-273) as a labelled transition
  system, parameterised by the structural facts `shape : MulVecShape` that `tools/gofacts` extracts.

  Goroutines: one producer (`jobs <- row`), `w` identical workers (symmetric-reduced: we count the
  idle ones and keep the multiset of rows held by busy ones), one closer (`wg.Wait(); close(entries)`),
  the collector (the calling goroutine), and the environment (which may cancel `ctx` at any time).

  Every Go `select` with a `ctx.Done()` case may take that case whenever `cancelled = true`, and may
  still take any other ready case (Go picks any ready case).
-/
import EtVerif.Model.Shapes
import EtVerif.Proofs.SortPerm

namespace EtVerif.MulVecConc
open EtVerif

/-- Can a send proceed on a channel of capacity class `c` that currently buffers `len` items?
    `unbuffered` is over-approximated by a one-slot buffer (a rendezvous is a send immediately
    followed by the receive) and `unknown` by an unbounded buffer: both over-approximations are
    sound for the safety theorems; the progress theorems require `.dim`. -/
def _root_.EtVerif.ChanCap.canSend (c : ChanCap) (dim len : Nat) : Bool :=
  match c with
  | .dim => decide (len < dim)
  | .const n => decide (len < n)
  | .unbuffered => decide (len < 1)
  | .unknown => true

/-- The parameters of one `MulVec` call. -/
structure Cfg (β : Type) where
  shape : MulVecShape
  /-- number of rows (`dim, _ := m.Dim()`) -/
  dim : Nat
  /-- number of worker goroutines (32 in the source; the theorems hold for every `w ≥ 1`) -/
  w : Nat
  /-- the value ONE sequential `VecDot(m.RowVector(r), v1)` returns for row `r` -/
  prod : Nat → β
  /-- Go `product == 0` -/
  isZ : β → Bool
  /-- `sort.Sort(EntriesByIndex(·))` — only ever assumed to satisfy `IsSortFn` -/
  sortFn : List (Nat × β) → List (Nat × β)

/-- The global state. -/
structure St (β : Type) where
  /-- next row the producer will send -/
  next : Nat
  /-- the producer goroutine has returned -/
  prodDone : Bool
  /-- `jobs` has been closed (`defer close(jobs)` ran; needs `shape.producerClosesJobs`) -/
  jobsClosed : Bool
  /-- buffered contents of `jobs` (FIFO) -/
  jobs : List Nat
  /-- workers blocked in the receive `select` -/
  idle : Nat
  /-- entries held by busy workers: product computed, blocked in the send `select` -/
  held : List (Nat × β)
  /-- workers that have returned (`wg.Done()` ran) -/
  exited : Nat
  /-- buffered contents of `entries` (FIFO) -/
  entriesQ : List (Nat × β)
  /-- the closer goroutine ran `close(entries)` (and returned) -/
  entriesClosed : Bool
  /-- `sortedEntries` of the collector, in arrival order -/
  got : List (Nat × β)
  /-- `ctx` has been cancelled (monotone) -/
  cancelled : Bool
  /-- the collector returned: `error ()` = `ctx.Err()`, `ok l` = `nil` after publishing `l` -/
  result : Option (Except Unit (List (Nat × β)))
  /-- the receiver's `Entries` as the caller sees them; `none` = untouched -/
  out : Option (List (Nat × β))

variable {β : Type}

def init (c : Cfg β) : St β :=
  { next := 0, prodDone := false, jobsClosed := false, jobs := [], idle := c.w, held := [],
    exited := 0, entriesQ := [], entriesClosed := false, got := [], cancelled := false,
    result := none, out := none }

/-- collector body: `if e.Value != 0 { sortedEntries = append(sortedEntries, e) }` -/
def collect (c : Cfg β) (got : List (Nat × β)) (x : Nat × β) : List (Nat × β) :=
  if c.shape.dropsZero && c.isZ x.2 then got else got ++ [x]

/-- what is published after the loop -/
def pub (c : Cfg β) (got : List (Nat × β)) : List (Nat × β) :=
  if c.shape.sortsAfterCollect then c.sortFn got else got

/-- the sequential row-by-row product of this call -/
def Cfg.seq (c : Cfg β) : List (Nat × β) := seqList c.dim c.prod c.isZ

inductive Actor where
  | env | producer | worker | closer | collector
deriving DecidableEq, Repr

/-- One atomic step of one goroutine (or of the environment). -/
inductive Step (c : Cfg β) : Actor → St β → St β → Prop
  /-- the environment cancels `ctx` -/
  | cancel (s : St β) : Step c .env s { s with cancelled := true }
  /-- producer: `case jobs <- row` -/
  | prodSend (s : St β) (h1 : s.prodDone = false) (h2 : s.next < c.dim)
      (h3 : c.shape.jobsCap.canSend c.dim s.jobs.length = true) :
      Step c .producer s { s with next := s.next + 1, jobs := s.jobs ++ [s.next] }
  /-- producer: loop finished, `defer close(jobs)` -/
  | prodExit (s : St β) (h1 : s.prodDone = false) (h2 : s.next = c.dim) :
      Step c .producer s { s with prodDone := true, jobsClosed := c.shape.producerClosesJobs }
  /-- producer: `case <-ctx.Done(): return` -/
  | prodCancel (s : St β) (h1 : s.prodDone = false) (h2 : s.next < c.dim)
      (hs : c.shape.producerSelectsCtx = true) (hc : s.cancelled = true) :
      Step c .producer s { s with prodDone := true, jobsClosed := c.shape.producerClosesJobs }
  /-- worker: `case row, ok = <-jobs` with `ok`, then `product := VecDot(…)`; the worker now
      holds the entry.  If the row is not computed by one `VecDot` the value is unconstrained. -/
  | workRecv (s : St β) (r : Nat) (rest : List Nat) (p : β) (h1 : 0 < s.idle)
      (h2 : s.jobs = r :: rest) (hp : c.shape.rowByOneVecDot = true → p = c.prod r) :
      Step c .worker s { s with jobs := rest, idle := s.idle - 1, held := (r, p) :: s.held }
  /-- worker: `<-jobs` yields `!ok` (closed and drained) -/
  | workExitClosed (s : St β) (h1 : 0 < s.idle) (h2 : s.jobs = []) (h3 : s.jobsClosed = true) :
      Step c .worker s { s with idle := s.idle - 1, exited := s.exited + 1 }
  /-- worker: `case <-ctx.Done(): return` of the receive `select` -/
  | workCancelRecv (s : St β) (h1 : 0 < s.idle) (hs : c.shape.workerRecvSelectsCtx = true)
      (hc : s.cancelled = true) :
      Step c .worker s { s with idle := s.idle - 1, exited := s.exited + 1 }
  /-- worker: `case entries <- Entry{row, product}` (a send on a closed channel would panic; the
      invariant `entriesClosed → held = []` shows it is never attempted when the closer waits) -/
  | workSend (s : St β) (pre : List (Nat × β)) (x : Nat × β) (post : List (Nat × β))
      (h1 : s.held = pre ++ x :: post) (h2 : s.entriesClosed = false)
      (h3 : c.shape.entriesCap.canSend c.dim s.entriesQ.length = true) :
      Step c .worker s { s with held := pre ++ post, idle := s.idle + 1,
                                entriesQ := s.entriesQ ++ [x] }
  /-- worker: `case <-ctx.Done(): return` of the send `select` — the held entry is dropped -/
  | workCancelSend (s : St β) (pre : List (Nat × β)) (x : Nat × β) (post : List (Nat × β))
      (h1 : s.held = pre ++ x :: post) (hs : c.shape.workerSendSelectsCtx = true)
      (hc : s.cancelled = true) :
      Step c .worker s { s with held := pre ++ post, exited := s.exited + 1 }
  /-- closer: `wg.Wait(); close(entries)` -/
  | closer (s : St β) (h1 : s.entriesClosed = false)
      (h2 : c.shape.closerWaitsAllWorkers = true → s.exited = c.w) :
      Step c .closer s { s with entriesClosed := true }
  /-- collector: `case e, ok := <-entries` with `ok` -/
  | collRecv (s : St β) (x : Nat × β) (rest : List (Nat × β)) (h0 : s.result = none)
      (h1 : s.entriesQ = x :: rest) :
      Step c .collector s
        { s with entriesQ := rest, got := collect c s.got x,
                 out := if c.shape.publishesAfterSort then s.out else some (collect c s.got x) }
  /-- collector: `entries` closed and drained → `break Loop`; (re-check `ctx.Err()`;) sort; publish -/
  | collClosed (s : St β) (h0 : s.result = none) (h1 : s.entriesQ = [])
      (h2 : s.entriesClosed = true) :
      Step c .collector s
        { s with
          result := some (if c.shape.collectorRechecksCtx && s.cancelled then .error ()
                          else .ok (pub c s.got)),
          out := if c.shape.collectorRechecksCtx && s.cancelled then s.out
                 else some (pub c s.got) }
  /-- collector: `case <-ctx.Done(): return ctx.Err()` -/
  | collCancel (s : St β) (h0 : s.result = none) (hs : c.shape.collectorSelectsCtx = true)
      (hc : s.cancelled = true) :
      Step c .collector s { s with result := some (.error ()) }

/-- some goroutine or the environment moves -/
def Next (c : Cfg β) (s s' : St β) : Prop := ∃ a, Step c a s s'

/-- reachable from the initial state under any interleaving and any cancellation time -/
def Reach (c : Cfg β) (s : St β) : Prop := Relation.ReflTransGen (Next c) (init c) s

theorem Reach.start (c : Cfg β) : Reach c (init c) := Relation.ReflTransGen.refl

theorem Reach.step {c : Cfg β} {a : Actor} {s s' : St β} (h : Reach c s) (hs : Step c a s s') :
    Reach c s' := Relation.ReflTransGen.tail h ⟨a, hs⟩

/-- induction principle for invariants -/
theorem Reach.invariant {c : Cfg β} (P : St β → Prop) (h0 : P (init c))
    (hstep : ∀ a s s', Reach c s → P s → Step c a s s' → P s') : ∀ s, Reach c s → P s := by
  intro s h
  induction h with
  | refl => exact h0
  | tail hr hn ih =>
    obtain ⟨a, hs⟩ := hn
    exact hstep a _ _ hr ih hs

/-! ## Structural invariant (holds under any cancellation) -/

/-- channel bounds, worker conservation, closing discipline -/
structure SInv (c : Cfg β) (s : St β) : Prop where
  next_le : s.next ≤ c.dim
  /-- every row sent so far is in at most one place; hence both channels hold `≤ dim` items -/
  flow : s.jobs.length + s.held.length + s.entriesQ.length ≤ s.next
  workers : s.idle + s.held.length + s.exited = c.w
  closed_done : s.jobsClosed = true → s.prodDone = true
  closer_waits : c.shape.closerWaitsAllWorkers = true → s.entriesClosed = true → s.exited = c.w
  done_closed : s.prodDone = true → s.jobsClosed = c.shape.producerClosesJobs

theorem sinv_init (c : Cfg β) : SInv c (init c) := by
  constructor <;> simp [init]

theorem sinv_step {c : Cfg β} {a : Actor} {s s' : St β} (h : SInv c s) (hs : Step c a s s') :
    SInv c s' := by
  obtain ⟨h1, h2, h3, h4, h5, h6⟩ := h
  cases hs with
  | cancel => exact ⟨h1, h2, h3, h4, h5, h6⟩
  | prodSend _ g1 g2 g3 =>
    refine ⟨by simp; omega, by simp; omega, h3, ?_, h5, ?_⟩
    · intro hj; have := h4 hj; simp_all
    · intro hj; simp [g1] at hj
  | prodExit _ g1 g2 => exact ⟨h1, h2, h3, fun _ => rfl, h5, fun _ => rfl⟩
  | prodCancel _ g1 g2 _ _ => exact ⟨h1, h2, h3, fun _ => rfl, h5, fun _ => rfl⟩
  | workRecv _ r rest p g1 g2 _ =>
    refine ⟨h1, ?_, ?_, h4, h5, h6⟩
    · simp [g2] at h2 ⊢; omega
    · simp; omega
  | workExitClosed _ g1 g2 g3 =>
    refine ⟨h1, h2, by simp; omega, h4, ?_, h6⟩
    intro hw hc
    have := h5 hw hc
    simp; omega
  | workCancelRecv _ g1 _ _ =>
    refine ⟨h1, h2, by simp; omega, h4, ?_, h6⟩
    intro hw hc
    have := h5 hw hc
    simp; omega
  | workSend _ pre x post g1 g2 g3 =>
    refine ⟨h1, ?_, ?_, h4, ?_, ?_⟩
    · simp [g1] at h2 ⊢; omega
    · simp [g1] at h3 ⊢; omega
    · intro _ hc; simp [g2] at hc
    · exact h6
  | workCancelSend _ pre x post g1 _ _ =>
    refine ⟨h1, ?_, ?_, h4, ?_, ?_⟩
    · simp [g1] at h2 ⊢; omega
    · simp [g1] at h3 ⊢; omega
    · intro hw hc
      have := h5 hw hc
      simp [g1] at h3; omega
    · exact h6
  | closer _ g1 g2 => exact ⟨h1, h2, h3, h4, fun hw _ => g2 hw, h6⟩
  | collRecv _ x rest g0 g1 =>
    refine ⟨h1, ?_, h3, h4, h5, h6⟩
    simp [g1] at h2 ⊢; omega
  | collClosed _ g0 g1 g2 => exact ⟨h1, h2, h3, h4, h5, h6⟩
  | collCancel _ g0 _ _ => exact ⟨h1, h2, h3, h4, h5, h6⟩

theorem sinv_of_reach {c : Cfg β} {s : St β} (h : Reach c s) : SInv c s :=
  Reach.invariant (SInv c) (sinv_init c) (fun _ _ _ _ hp hs => sinv_step hp hs) s h

/-- `cancelled` is monotone along steps -/
theorem cancelled_mono {c : Cfg β} {a : Actor} {s s' : St β} (hs : Step c a s s')
    (h : s'.cancelled = false) : s.cancelled = false := by
  cases hs <;> simp_all

/-- once the collector has returned its result never changes -/
theorem result_stable {c : Cfg β} {a : Actor} {s s' : St β} (hs : Step c a s s')
    {r : Except Unit (List (Nat × β))} (h : s.result = some r) :
    s'.result = some r ∧ s'.out = s.out := by
  cases hs <;> simp_all

/-! ## Accounting invariant (while `ctx` is not cancelled) -/

/-- rows whose product is not dropped -/
def nz (c : Cfg β) (r : Nat) : Bool := !c.isZ (c.prod r)

/-- While nothing has been cancelled: every row `< next` with a non-zero product is in exactly one
    of `jobs`, a worker's hand, `entries`, or the collector's slice; every entry carries the
    sequential product of its row. -/
structure DInv (c : Cfg β) (s : St β) : Prop where
  prod_done : s.prodDone = true → s.next = c.dim
  exited_closed : 0 < s.exited → s.jobsClosed = true ∧ s.jobs = []
  tagged : ∀ x ∈ s.held ++ s.entriesQ ++ s.got, x.2 = c.prod x.1
  got_nz : ∀ x ∈ s.got, c.isZ x.2 = false
  account : ∀ r, nz c r = true →
    s.jobs.count r + (s.held.map Prod.fst).count r + (s.entriesQ.map Prod.fst).count r +
      (s.got.map Prod.fst).count r = if r < s.next then 1 else 0

theorem dinv_init (c : Cfg β) : DInv c (init c) := by
  constructor <;> simp [init]

theorem dinv_step {c : Cfg β} (hrow : c.shape.rowByOneVecDot = true)
    (hdz : c.shape.dropsZero = true) {a : Actor} {s s' : St β} (hS : SInv c s)
    (hD : s.cancelled = false → DInv c s) (hs : Step c a s s') (hc' : s'.cancelled = false) :
    DInv c s' := by
  have hc := cancelled_mono hs hc'
  obtain ⟨d1, d2, d3, d4, d5⟩ := hD hc
  cases hs with
  | cancel => simp at hc'
  | prodSend _ g1 g2 g3 =>
    refine ⟨?_, ?_, d3, d4, ?_⟩
    · intro h; simp [g1] at h
    · intro h
      have := hS.closed_done (d2 h).1
      simp [g1] at this
    · intro r hr
      have := d5 r hr
      simp only [List.count_append, List.count_cons, List.count_nil] at this ⊢
      by_cases e : s.next = r
      · subst e; simp at this ⊢; omega
      · have e' : ¬ r = s.next := fun h => e h.symm
        simp [e] at this ⊢
        split at this <;> split <;> omega
  | prodExit _ g1 g2 =>
    refine ⟨fun _ => g2, ?_, d3, d4, d5⟩
    intro h
    have := hS.closed_done (d2 h).1
    simp [g1] at this
  | prodCancel _ g1 g2 _ gc => simp [hc] at gc
  | workRecv _ r0 rest p g1 g2 gp =>
    refine ⟨d1, ?_, ?_, d4, ?_⟩
    · intro h
      have := (d2 h).2
      simp [g2] at this
    · intro x hx
      simp only [List.mem_append, List.mem_cons] at hx d3
      rcases hx with ((rfl | hx) | hx) | hx
      · exact gp hrow
      · exact d3 x (Or.inl (Or.inl hx))
      · exact d3 x (Or.inl (Or.inr hx))
      · exact d3 x (Or.inr hx)
    · intro r hr
      have := d5 r hr
      simp only [g2, List.count_cons, List.map_cons] at this ⊢
      omega
  | workExitClosed _ g1 g2 g3 => exact ⟨d1, fun _ => ⟨g3, g2⟩, d3, d4, d5⟩
  | workCancelRecv _ g1 _ gc => simp [hc] at gc
  | workSend _ pre x post g1 g2 g3 =>
    refine ⟨d1, d2, ?_, d4, ?_⟩
    · intro y hy
      apply d3 y
      simp only [g1, List.mem_append, List.mem_cons, List.mem_nil_iff, or_false] at hy ⊢
      tauto
    · intro r hr
      have := d5 r hr
      simp only [g1, List.count_append, List.count_cons, List.count_nil, List.map_append,
        List.map_cons, List.map_nil] at this ⊢
      omega
  | workCancelSend _ pre x post g1 _ gc => simp [hc] at gc
  | closer _ g1 g2 => exact ⟨d1, d2, d3, d4, d5⟩
  | collRecv _ x rest g0 g1 =>
    have hx : x.2 = c.prod x.1 := d3 x (by simp [g1])
    by_cases hz : c.isZ x.2 = true
    · -- dropped
      have hcol : collect c s.got x = s.got := by simp [collect, hdz, hz]
      refine ⟨d1, d2, ?_, ?_, ?_⟩
      · intro y hy
        apply d3 y
        simp only [hcol, g1, List.mem_append, List.mem_cons] at hy ⊢
        tauto
      · simpa [hcol] using d4
      · intro r hr
        have := d5 r hr
        have hne : ¬ x.1 = r := by
          intro e
          subst e
          simp [nz, ← hx, hz] at hr
        simp only [hcol, g1, List.count_cons, List.map_cons, beq_iff_eq, hne] at this ⊢
        simpa using this
    · have hcol : collect c s.got x = s.got ++ [x] := by simp [collect, hz]
      refine ⟨d1, d2, ?_, ?_, ?_⟩
      · intro y hy
        apply d3 y
        simp only [hcol, g1, List.mem_append, List.mem_cons, List.mem_nil_iff, or_false] at hy ⊢
        tauto
      · intro y hy
        simp only [hcol, List.mem_append, List.mem_cons, List.mem_nil_iff, or_false] at hy
        rcases hy with hy | rfl
        · exact d4 y hy
        · simpa using hz
      · intro r hr
        have := d5 r hr
        simp only [hcol, g1, List.count_append, List.count_cons, List.count_nil, List.map_append,
          List.map_cons, List.map_nil] at this ⊢
        omega
  | collClosed _ g0 g1 g2 => exact ⟨d1, d2, d3, d4, d5⟩
  | collCancel _ g0 _ gc => simp [hc] at gc

/-- At the moment the collector sees `entries` closed and drained (nothing cancelled), its slice
    is a permutation of the sequential product. -/
theorem got_perm_seq {c : Cfg β} (hcw : c.shape.closerWaitsAllWorkers = true) (hw : 1 ≤ c.w)
    {s : St β} (hS : SInv c s) (hD : DInv c s) (hq : s.entriesQ = [])
    (hcl : s.entriesClosed = true) : s.got.Perm c.seq := by
  have hex : s.exited = c.w := hS.closer_waits hcw hcl
  have hj := hD.exited_closed (by omega)
  have hnext : s.next = c.dim := hD.prod_done (hS.closed_done hj.1)
  have hheld : s.held = [] := by
    have := hS.workers
    apply List.eq_nil_of_length_eq_zero
    omega
  have hkeys : (s.got.map Prod.fst).Perm ((List.range c.dim).filter (nz c)) := by
    rw [List.perm_iff_count]
    intro r
    by_cases hr : nz c r = true
    · have := hD.account r hr
      simp only [hj.2, hheld, hq, hnext, List.count_nil, List.map_nil] at this
      rw [List.count_filter hr, List.count_range]
      omega
    · have h1 : r ∉ s.got.map Prod.fst := by
        intro hm
        obtain ⟨x, hx, rfl⟩ := List.mem_map.mp hm
        have t := hD.tagged x (by simp [hx])
        have z := hD.got_nz x hx
        apply hr
        simp [nz, ← t, z]
      have h2 : r ∉ (List.range c.dim).filter (nz c) := by
        intro hm
        exact hr (List.mem_filter.mp hm).2
      rw [List.count_eq_zero_of_not_mem h1, List.count_eq_zero_of_not_mem h2]
  have hgot : s.got = (s.got.map Prod.fst).map (tag c.prod) := by
    rw [List.map_map]
    conv_lhs => rw [← List.map_id s.got]
    apply List.map_congr_left
    intro x hx
    have t := hD.tagged x (by simp [hx])
    simp only [id, Function.comp, tag]
    rw [← t]
  rw [hgot, Cfg.seq, seqList_eq_map_filter]
  exact hkeys.map _

theorem pub_eq_seq {c : Cfg β} (hsa : c.shape.sortsAfterCollect = true) (hsort : IsSortFn c.sortFn)
    {got : List (Nat × β)} (h : got.Perm c.seq) : pub c got = c.seq := by
  simp only [pub, hsa, if_true]
  exact sortFn_eq_seqList hsort c.dim c.prod c.isZ got h

/-! ## Result invariant (under any cancellation) -/

/-- What the collector may have returned, and what the caller's receiver looks like. -/
structure RInv (c : Cfg β) (s : St β) : Prop where
  /-- `ctx.Err()` is only returned when `ctx` was cancelled -/
  err_cancelled : s.result = some (.error ()) → s.cancelled = true
  /-- success means the sequential product — unless the collector does not re-check `ctx`
      and `ctx` was cancelled -/
  ok_seq : ∀ l, s.result = some (.ok l) →
    l = c.seq ∨ (c.shape.collectorRechecksCtx = false ∧ s.cancelled = true)
  /-- the receiver is untouched while running and after an error return -/
  out_none : c.shape.publishesAfterSort = true →
    (s.result = none ∨ s.result = some (.error ())) → s.out = none
  /-- on success the receiver holds exactly what was published -/
  out_ok : ∀ l, s.result = some (.ok l) → s.out = some l

/-- the structural facts the determinism argument uses -/
structure DetHyp (c : Cfg β) : Prop where
  row : c.shape.rowByOneVecDot = true
  sorts : c.shape.sortsAfterCollect = true
  dropsZero : c.shape.dropsZero = true
  closerWaits : c.shape.closerWaitsAllWorkers = true
  workers : 1 ≤ c.w
  sortFn : IsSortFn c.sortFn

theorem rinv_init (c : Cfg β) : RInv c (init c) := by
  constructor <;> simp [init]

theorem rinv_step {c : Cfg β} (H : DetHyp c) {a : Actor} {s s' : St β} (hS : SInv c s)
    (hD : s.cancelled = false → DInv c s) (hR : RInv c s) (hs : Step c a s s') : RInv c s' := by
  obtain ⟨r1, r2, r3, r4⟩ := hR
  cases hs with
  | cancel =>
    refine ⟨fun _ => rfl, ?_, r3, r4⟩
    intro l hl
    rcases r2 l hl with h | h
    · exact Or.inl h
    · exact Or.inr ⟨h.1, rfl⟩
  | prodSend _ g1 g2 g3 => exact ⟨r1, r2, r3, r4⟩
  | prodExit _ g1 g2 => exact ⟨r1, r2, r3, r4⟩
  | prodCancel _ g1 g2 _ gc => exact ⟨r1, r2, r3, r4⟩
  | workRecv _ r0 rest p g1 g2 gp => exact ⟨r1, r2, r3, r4⟩
  | workExitClosed _ g1 g2 g3 => exact ⟨r1, r2, r3, r4⟩
  | workCancelRecv _ g1 _ gc => exact ⟨r1, r2, r3, r4⟩
  | workSend _ pre x post g1 g2 g3 => exact ⟨r1, r2, r3, r4⟩
  | workCancelSend _ pre x post g1 _ gc => exact ⟨r1, r2, r3, r4⟩
  | closer _ g1 g2 => exact ⟨r1, r2, r3, r4⟩
  | collRecv _ x rest g0 g1 =>
    refine ⟨r1, r2, ?_, ?_⟩
    · intro hp hr
      simp only [hp, if_true]
      exact r3 hp hr
    · intro l hl
      simp [g0] at hl
  | collClosed _ g0 g1 g2 =>
    by_cases hk : (c.shape.collectorRechecksCtx && s.cancelled) = true
    · -- `ctx.Err()` returned
      have hcan : s.cancelled = true := by
        simp only [Bool.and_eq_true] at hk; exact hk.2
      refine ⟨fun _ => hcan, ?_, ?_, ?_⟩
      · intro l hl; simp [hk] at hl
      · intro hp _
        simp only [hk, if_true]
        exact r3 hp (Or.inl g0)
      · intro l hl; simp [hk] at hl
    · refine ⟨?_, ?_, ?_, ?_⟩
      · intro h; simp [hk] at h
      · intro l hl
        simp only [hk] at hl
        have hl' : l = pub c s.got := by
          simp at hl; exact hl.symm
        cases hcan : s.cancelled
        · left
          rw [hl']
          exact pub_eq_seq H.sorts H.sortFn
            (got_perm_seq H.closerWaits H.workers hS (hD hcan) g1 g2)
        · right
          refine ⟨?_, rfl⟩
          simp only [hcan, Bool.and_true] at hk
          simpa using hk
      · intro _ hr
        simp [hk] at hr
      · intro l hl
        simp only [hk] at hl ⊢
        simp at hl
        simp [hl]
  | collCancel _ g0 _ gc =>
    refine ⟨fun _ => gc, ?_, ?_, ?_⟩
    · intro l hl; simp at hl
    · intro hp _; exact r3 hp (Or.inl g0)
    · intro l hl; simp at hl

/-- all invariants together -/
structure Good (c : Cfg β) (s : St β) : Prop where
  sinv : SInv c s
  dinv : s.cancelled = false → DInv c s
  rinv : RInv c s

theorem good_of_reach {c : Cfg β} (H : DetHyp c) {s : St β} (h : Reach c s) : Good c s := by
  refine Reach.invariant (Good c) ⟨sinv_init c, fun _ => dinv_init c, rinv_init c⟩ ?_ s h
  intro a s s' _ hg hs
  exact ⟨sinv_step hg.sinv hs, dinv_step H.row H.dropsZero hg.sinv hg.dinv hs,
    rinv_step H hg.sinv hg.dinv hg.rinv hs⟩

/-- With a closer that waits for all workers, no worker is ever blocked at (or attempts) a send
    on a closed `entries` channel: the Go panic "send on closed channel" is unreachable. -/
theorem no_send_on_closed {c : Cfg β} (hcw : c.shape.closerWaitsAllWorkers = true) {s : St β}
    (hS : SInv c s) (hcl : s.entriesClosed = true) : s.held = [] ∧ s.idle = 0 := by
  have := hS.closer_waits hcw hcl
  have := hS.workers
  exact ⟨List.eq_nil_of_length_eq_zero (by omega), by omega⟩

/-! ## Termination measures -/

/-- work left for producer, workers and closer -/
def workNC (c : Cfg β) (s : St β) : Nat :=
  4 * (c.dim - s.next) + (if s.prodDone then 0 else 1) + 3 * s.jobs.length + 3 * s.held.length +
    s.idle + s.entriesQ.length + (if s.entriesClosed then 0 else 1)

/-- work left for everybody -/
def work (c : Cfg β) (s : St β) : Nat :=
  workNC c s + (if s.result.isSome then 0 else 1)

theorem workNC_step {c : Cfg β} {a : Actor} {s s' : St β} (hs : Step c a s s') :
    (a ≠ .env → a ≠ .collector → workNC c s' < workNC c s) ∧
      workNC c s' ≤ workNC c s := by
  cases hs with
  | cancel => simp [workNC]
  | prodSend _ g1 g2 g3 => simp [workNC]; omega
  | prodExit _ g1 g2 => simp [workNC, g1]
  | prodCancel _ g1 g2 _ gc => simp [workNC, g1]
  | workRecv _ r0 rest p g1 g2 gp => simp [workNC, g2]; omega
  | workExitClosed _ g1 g2 g3 => simp [workNC]; omega
  | workCancelRecv _ g1 _ gc => simp [workNC]; omega
  | workSend _ pre x post g1 g2 g3 => simp [workNC, g1]; omega
  | workCancelSend _ pre x post g1 _ gc => simp [workNC, g1]; omega
  | closer _ g1 g2 => simp [workNC, g1]
  | collRecv _ x rest g0 g1 => simp [workNC, g1]
  | collClosed _ g0 g1 g2 => simp [workNC]
  | collCancel _ g0 _ gc => simp [workNC]

theorem work_step {c : Cfg β} {a : Actor} {s s' : St β} (hs : Step c a s s') (ha : a ≠ .env) :
    work c s' < work c s := by
  cases hs with
  | cancel => exact absurd rfl ha
  | prodSend _ g1 g2 g3 => simp [work, workNC]; omega
  | prodExit _ g1 g2 => simp [work, workNC, g1]
  | prodCancel _ g1 g2 _ gc => simp [work, workNC, g1]
  | workRecv _ r0 rest p g1 g2 gp => simp [work, workNC, g2]; omega
  | workExitClosed _ g1 g2 g3 => simp [work, workNC]; omega
  | workCancelRecv _ g1 _ gc => simp [work, workNC]; omega
  | workSend _ pre x post g1 g2 g3 => simp [work, workNC, g1]; omega
  | workCancelSend _ pre x post g1 _ gc => simp [work, workNC, g1]
  | closer _ g1 g2 => simp [work, workNC, g1]
  | collRecv _ x rest g0 g1 => simp [work, workNC, g1]
  | collClosed _ g0 g1 g2 => simp [work, workNC, g0]
  | collCancel _ g0 _ gc => simp [work, workNC, g0]

/-! ## Progress -/

/-- producer, all `w` workers and the closer have returned -/
def AllDone (c : Cfg β) (s : St β) : Prop :=
  s.prodDone = true ∧ s.exited = c.w ∧ s.entriesClosed = true

/-- a step of producer, a worker or the closer -/
def NCStep (c : Cfg β) (s s' : St β) : Prop :=
  ∃ a, a ≠ Actor.env ∧ a ≠ Actor.collector ∧ Step c a s s'

/-- Producer, workers and closer are never all blocked before they have all returned — whether or
    not the collector still receives.  `hsend` says no worker waits at a closed `entries`. -/
theorem progress_core {c : Cfg β} (hclose : c.shape.producerClosesJobs = true)
    (hjc : c.shape.jobsCap = .dim) (hec : c.shape.entriesCap = .dim) {s : St β} (hS : SInv c s)
    (hsend : s.entriesClosed = true → s.held = []) (hnd : ¬ AllDone c s) :
    ∃ s', NCStep c s s' := by
  have hflow := hS.flow
  have hnext := hS.next_le
  have hwork := hS.workers
  cases hpd : s.prodDone
  · -- the producer can move
    by_cases hlt : s.next < c.dim
    · exact ⟨_, .producer, by decide, by decide,
        Step.prodSend s hpd hlt (by simp [hjc, ChanCap.canSend]; omega)⟩
    · exact ⟨_, .producer, by decide, by decide, Step.prodExit s hpd (by omega)⟩
  · have hjcl : s.jobsClosed = true := by rw [hS.done_closed hpd, hclose]
    by_cases hidle : 0 < s.idle
    · cases hj : s.jobs with
      | nil => exact ⟨_, .worker, by decide, by decide, Step.workExitClosed s hidle hj hjcl⟩
      | cons r rest =>
        exact ⟨_, .worker, by decide, by decide,
          Step.workRecv s r rest (c.prod r) hidle hj (fun _ => rfl)⟩
    · cases hh : s.held with
      | cons x post =>
        have hcl : s.entriesClosed = false := by
          cases h : s.entriesClosed
          · rfl
          · have := hsend h; simp [hh] at this
        have hlen : s.entriesQ.length < c.dim := by
          simp [hh] at hflow; omega
        exact ⟨_, .worker, by decide, by decide,
          Step.workSend s [] x post (by simpa using hh) hcl
            (by simp [hec, ChanCap.canSend]; exact hlen)⟩
      | nil =>
        have hex : s.exited = c.w := by simp [hh] at hwork; omega
        have hcl : s.entriesClosed = false := by
          cases h : s.entriesClosed
          · rfl
          · exact absurd ⟨hpd, hex, h⟩ hnd
        exact ⟨_, .closer, by decide, by decide, Step.closer s hcl (fun _ => hex)⟩

/-- the facts the progress argument uses -/
structure LiveHyp (c : Cfg β) : Prop where
  closes : c.shape.producerClosesJobs = true
  jobsCap : c.shape.jobsCap = .dim
  entriesCap : c.shape.entriesCap = .dim

/-- No deadlock: while the collector has not returned, somebody other than the environment can move. -/
theorem no_deadlock {c : Cfg β} (L : LiveHyp c) {s : St β} (hr : Reach c s)
    (hres : s.result = none) : ∃ a s', a ≠ Actor.env ∧ Step c a s s' := by
  have hS := sinv_of_reach hr
  cases hq : s.entriesQ with
  | cons x rest => exact ⟨.collector, _, by decide, Step.collRecv s x rest hres hq⟩
  | nil =>
    cases hcl : s.entriesClosed
    · obtain ⟨s', a, ha, _, hs⟩ := progress_core L.closes L.jobsCap L.entriesCap hS
        (by simp [hcl]) (by simp [AllDone, hcl])
      exact ⟨a, s', ha, hs⟩
    · exact ⟨.collector, _, by decide, Step.collClosed s hres hq hcl⟩

/-- No leak: until producer, workers and closer have all returned, one of them can move — even
    after the collector has returned (sends never block: capacity `dim` ≥ number of sends). -/
theorem no_leak_progress {c : Cfg β} (L : LiveHyp c)
    (hcw : c.shape.closerWaitsAllWorkers = true) {s : St β} (hr : Reach c s)
    (hnd : ¬ AllDone c s) : ∃ s', NCStep c s s' :=
  progress_core L.closes L.jobsCap L.entriesCap (sinv_of_reach hr)
    (fun h => (no_send_on_closed hcw (sinv_of_reach hr) h).1) hnd

/-- From every reachable state, producer, workers and closer can run to completion on their own. -/
theorem no_leak_eventually {c : Cfg β} (L : LiveHyp c)
    (hcw : c.shape.closerWaitsAllWorkers = true) :
    ∀ (n : Nat) (s : St β), Reach c s → workNC c s = n →
      ∃ s', Relation.ReflTransGen (NCStep c) s s' ∧ AllDone c s' := by
  intro n
  induction n using Nat.strongRecOn with
  | ind n ih =>
    intro s hr hn
    by_cases hd : AllDone c s
    · exact ⟨s, Relation.ReflTransGen.refl, hd⟩
    · obtain ⟨s1, a, ha1, ha2, hs⟩ := no_leak_progress L hcw hr hd
      have hlt := (workNC_step hs).1 ha1 ha2
      obtain ⟨s2, h12, hd2⟩ := ih (workNC c s1) (by omega) s1 (hr.step hs) rfl
      exact ⟨s2, Relation.ReflTransGen.head ⟨a, ha1, ha2, hs⟩ h12, hd2⟩

/-- both channels stay within their capacity `dim` -/
theorem chan_bounds {c : Cfg β} {s : St β} (hr : Reach c s) :
    s.jobs.length ≤ c.dim ∧ s.entriesQ.length ≤ c.dim := by
  have hS := sinv_of_reach hr
  have := hS.flow
  have := hS.next_le
  omega

/-! ## The cancellation trace that a missing `ctx` re-check lets through -/

/-- after cancel, producer exit on cancel and `k` workers exiting on cancel -/
def cancelledSt (c : Cfg β) (k : Nat) (closed : Bool) : St β :=
  { next := 0, prodDone := true, jobsClosed := c.shape.producerClosesJobs, jobs := [],
    idle := c.w - k, held := [], exited := k, entriesQ := [], entriesClosed := closed, got := [],
    cancelled := true, result := none, out := none }

theorem reach_cancelledSt {c : Cfg β} (hp : c.shape.producerSelectsCtx = true)
    (hw : c.shape.workerRecvSelectsCtx = true) (hd : 0 < c.dim) :
    ∀ k, k ≤ c.w → Reach c (cancelledSt c k false) := by
  intro k
  induction k with
  | zero =>
    intro _
    exact ((Reach.start c).step (Step.cancel _)).step (Step.prodCancel _ rfl hd hp rfl)
  | succ k ih =>
    intro hk
    have h := (ih (by omega)).step
      (Step.workCancelRecv (cancelledSt c k false) (by simp [cancelledSt]; omega) hw rfl)
    have e : cancelledSt c (k + 1) false =
        { cancelledSt c k false with idle := (cancelledSt c k false).idle - 1,
                                     exited := (cancelledSt c k false).exited + 1 } := by
      simp [cancelledSt]; omega
    rw [e]; exact h

/-- Without the re-check of `ctx.Err()` after the loop, cancellation before any row was
    processed makes `MulVec` report success with an EMPTY vector: cancel → producer exits on
    cancel → every worker exits on cancel → closer closes `entries` → collector takes the
    closed branch. -/
theorem unsafe_trace (c : Cfg β) (hp : c.shape.producerSelectsCtx = true)
    (hw : c.shape.workerRecvSelectsCtx = true) (hre : c.shape.collectorRechecksCtx = false)
    (hd : 0 < c.dim) (hnil : c.sortFn [] = []) :
    ∃ s, Reach c s ∧ s.cancelled = true ∧ s.result = some (.ok []) ∧ s.out = some [] := by
  have h1 := (reach_cancelledSt hp hw hd c.w (Nat.le_refl _)).step
    (Step.closer _ rfl (fun _ => rfl))
  have h2 := h1.step (Step.collClosed _ rfl rfl rfl)
  refine ⟨_, h2, rfl, ?_, ?_⟩ <;> simp [cancelledSt, hre, pub, hnil]

/-! ## Example shapes and a concrete out-of-order run -/

/-- every structural fact present (the repaired source) -/
def safeShape : MulVecShape :=
  { producerSelectsCtx := true, producerClosesJobs := true, workerRecvSelectsCtx := true,
    workerSendSelectsCtx := true, rowByOneVecDot := true, closerWaitsAllWorkers := true,
    collectorSelectsCtx := true, collectorRechecksCtx := true, dropsZero := true,
    sortsAfterCollect := true, publishesAfterSort := true, jobsCap := .dim, entriesCap := .dim,
    numWorkers := 32 }

/-- the same without the `ctx.Err()` re-check after the collector loop -/
def noRecheckShape : MulVecShape := { safeShape with collectorRechecksCtx := false }

example : safeShape.safe = true ∧ safeShape.deterministicCollect = true := by decide
example : noRecheckShape.safe = false ∧ noRecheckShape.deterministicCollect = true := by decide

/-- 2 rows, 2 workers, products 1 and 2 -/
def exCfg : Cfg Nat :=
  { shape := safeShape, dim := 2, w := 2, prod := fun r => r + 1, isZ := fun x => x == 0,
    sortFn := isortFst }

/-- A complete run in which row 1 overtakes row 0 on `entries`; the collector nevertheless
    publishes `[(0,1),(1,2)]`, and every goroutine has returned. -/
theorem exCfg_run : ∃ s, Reach exCfg s ∧ s.cancelled = false ∧
    s.got = [(1, 2), (0, 1)] ∧ s.result = some (.ok [(0, 1), (1, 2)]) ∧
    s.out = some [(0, 1), (1, 2)] ∧ AllDone exCfg s := by
  have h1 := (Reach.start exCfg).step (Step.prodSend _ rfl (by decide) (by decide))
  have h2 := h1.step (Step.prodSend _ rfl (by decide) (by decide))
  have h3 := h2.step (Step.prodExit _ rfl rfl)
  have h4 := h3.step (Step.workRecv _ 0 [1] 1 (by decide) rfl (fun _ => rfl))
  have h5 := h4.step (Step.workRecv _ 1 [] 2 (by decide) rfl (fun _ => rfl))
  have h6 := h5.step (Step.workSend _ [] (1, 2) [(0, 1)] rfl rfl (by decide))
  have h7 := h6.step (Step.workSend _ [] (0, 1) [] rfl rfl (by decide))
  have h8 := h7.step (Step.workExitClosed _ (by decide) rfl rfl)
  have h9 := h8.step (Step.workExitClosed _ (by decide) rfl rfl)
  have h10 := h9.step (Step.closer _ rfl (fun _ => rfl))
  have h11 := h10.step (Step.collRecv _ (1, 2) [(0, 1)] rfl rfl)
  have h12 := h11.step (Step.collRecv _ (0, 1) [] rfl rfl)
  have h13 := h12.step (Step.collClosed _ rfl rfl rfl)
  exact ⟨_, h13, rfl, rfl, rfl, rfl, rfl, rfl, rfl⟩

/-! ## From the decidable shape predicates to the hypothesis bundles -/

theorem detHyp_of {shape : MulVecShape} (h : shape.deterministicCollect = true) (dim w : Nat)
    (prod : Nat → β) (isZ : β → Bool) {sortFn : List (Nat × β) → List (Nat × β)}
    (hs : IsSortFn sortFn) (hw : 1 ≤ w) : DetHyp ⟨shape, dim, w, prod, isZ, sortFn⟩ := by
  simp only [MulVecShape.deterministicCollect, Bool.and_eq_true] at h
  obtain ⟨⟨⟨⟨⟨⟨a, b⟩, _⟩, d⟩, _⟩, f⟩, _⟩ := h
  exact ⟨a, b, d, f, hw, hs⟩

theorem publishes_of_det {shape : MulVecShape} (h : shape.deterministicCollect = true) :
    shape.publishesAfterSort = true := by
  simp only [MulVecShape.deterministicCollect, Bool.and_eq_true] at h
  exact h.1.1.1.1.2

theorem numWorkers_of_det {shape : MulVecShape} (h : shape.deterministicCollect = true) :
    1 ≤ shape.numWorkers := by
  simp only [MulVecShape.deterministicCollect, Bool.and_eq_true, decide_eq_true_eq] at h
  exact h.2

theorem liveHyp_of_safe {shape : MulVecShape} (h : shape.safe = true) (dim w : Nat)
    (prod : Nat → β) (isZ : β → Bool) (sortFn : List (Nat × β) → List (Nat × β)) :
    LiveHyp ⟨shape, dim, w, prod, isZ, sortFn⟩ ∧ shape.closerWaitsAllWorkers = true ∧
      shape.collectorRechecksCtx = true := by
  simp only [MulVecShape.safe, Bool.and_eq_true, decide_eq_true_eq] at h
  obtain ⟨⟨⟨⟨⟨⟨⟨⟨⟨⟨_, b⟩, _⟩, _⟩, e⟩, _⟩, g⟩, _⟩, i⟩, j⟩, _⟩ := h
  exact ⟨⟨b, i, j⟩, e, g⟩

end EtVerif.MulVecConc

/-! # Caller-level atomicity of `Compute` and `Transpose` under cancellation -/

namespace EtVerif.CancelAtomic
open EtVerif

section Compute
variable {σ : Type}

/-- what the caller of `basic.Compute` observes -/
structure CRes (σ : Type) where
  /-- a non-nil error was returned -/
  err : Bool
  /-- the returned vector (`nil` = `none`) -/
  ret : Option σ
  /-- the caller's result slot (`WithResultIn`); unchanged = the value it had before the call -/
  slot : Option σ
  /-- the caller's initial vector `t0` after the call -/
  input : σ

/-- `return nil, ctx.Err()` (or `return nil, err` after a failed `MulVec`) -/
def cErr (sh : ComputeShape) (t0 t1 : σ) (slot : Option σ) : CRes σ :=
  ⟨true, if sh.returnsNilOnCtx then none else some t1, slot, if sh.clonesInitial then t0 else t1⟩

/-- the code after the loop: assign the result slot, `return t, nil` -/
def cFin (sh : ComputeShape) (t0 t1 : σ) : CRes σ :=
  ⟨false, some t1, some t1, if sh.clonesInitial then t0 else t1⟩

/-- The loop of `basic.Compute` (eigentrust.go 258-313).  `cancelled i` is what the poll at the head
    of iteration `i` sees; `mvFails i` says `MulVec` of iteration `i` returned `ctx.Err()` (by
    `C07.mulVec_cancel_safe` it then left `t1` untouched; otherwise it stored the full product and
    the iteration computes `body t1`).  `stop` is the convergence / flat-tail exit test, `fuel` the
    remaining `maxIters`. -/
def computeLoop (sh : ComputeShape) (body skip : σ → σ) (stop : Nat → σ → Bool)
    (cancelled mvFails : Nat → Bool) (t0 : σ) : (fuel iter : Nat) → (t1 : σ) → (slot : Option σ) → CRes σ
  | 0, _, t1, _ => cFin sh t0 t1
  | fuel + 1, iter, t1, slot =>
    if sh.pollsCtxAtLoopHead && cancelled iter then cErr sh t0 t1 slot
    else if stop iter t1 then cFin sh t0 t1
    else if mvFails iter then
      if sh.propagatesMulVecErr then cErr sh t0 t1 slot
      else
        computeLoop sh body skip stop cancelled mvFails t0 fuel (iter + 1) (skip t1)
          (if sh.resultAssignedAfterLoop then slot else some (skip t1))
    else
      computeLoop sh body skip stop cancelled mvFails t0 fuel (iter + 1) (body t1)
        (if sh.resultAssignedAfterLoop then slot else some (body t1))

/-- the undisturbed run: never cancelled -/
def computeUndisturbed (sh : ComputeShape) (body skip : σ → σ) (stop : Nat → σ → Bool) (t0 : σ)
    (fuel iter : Nat) (t1 : σ) (slot : Option σ) : CRes σ :=
  computeLoop sh body skip stop (fun _ => false) (fun _ => false) t0 fuel iter t1 slot

theorem computeLoop_atomic (sh : ComputeShape) (hsafe : sh.safe = true) (body skip : σ → σ)
    (stop : Nat → σ → Bool) (cancelled mvFails : Nat → Bool) (t0 : σ) :
    ∀ (fuel iter : Nat) (t1 : σ) (slot : Option σ),
      computeLoop sh body skip stop cancelled mvFails t0 fuel iter t1 slot =
          ⟨true, none, slot, t0⟩ ∨
        computeLoop sh body skip stop cancelled mvFails t0 fuel iter t1 slot =
          computeUndisturbed sh body skip stop t0 fuel iter t1 slot := by
  simp only [ComputeShape.safe, Bool.and_eq_true] at hsafe
  obtain ⟨⟨⟨⟨h1, h2⟩, h3⟩, h4⟩, h5⟩ := hsafe
  intro fuel
  induction fuel with
  | zero => intro iter t1 slot; right; rfl
  | succ fuel ih =>
    intro iter t1 slot
    unfold computeUndisturbed at ih ⊢
    simp only [computeLoop, h1, h3, h5, Bool.true_and, if_true, Bool.false_eq_true, if_false]
    cases hc : cancelled iter
    · cases hst : stop iter t1
      · cases hmv : mvFails iter
        · simpa using ih (iter + 1) (body t1) slot
        · left; simp [cErr, h2, h4]
      · right; simp
    · left; simp [cErr, h2, h4]

/-- the undisturbed run succeeds, returns what it stores in the slot, and leaves `t0` alone -/
theorem computeUndisturbed_ok (sh : ComputeShape) (hsafe : sh.safe = true) (body skip : σ → σ)
    (stop : Nat → σ → Bool) (t0 : σ) :
    ∀ (fuel iter : Nat) (t1 : σ) (slot : Option σ),
      ∃ t, computeUndisturbed sh body skip stop t0 fuel iter t1 slot = ⟨false, some t, some t, t0⟩ := by
  simp only [ComputeShape.safe, Bool.and_eq_true] at hsafe
  obtain ⟨⟨⟨⟨h1, h2⟩, h3⟩, h4⟩, h5⟩ := hsafe
  intro fuel
  induction fuel with
  | zero => intro iter t1 slot; exact ⟨t1, by simp [computeUndisturbed, computeLoop, cFin, h4]⟩
  | succ fuel ih =>
    intro iter t1 slot
    unfold computeUndisturbed at ih ⊢
    simp only [computeLoop, h3, Bool.and_false, Bool.false_eq_true, if_false, if_true]
    cases hst : stop iter t1
    · simpa using ih (iter + 1) (body t1) slot
    · exact ⟨t1, by simp [cFin, h4]⟩

end Compute

section Transpose
variable {α : Type}

/-- what the caller of `(*CSMatrix).Transpose` observes -/
structure TRes (α : Type) where
  err : Bool
  /-- the returned matrix (`nil` = `none`) -/
  ret : Option (CSM α)
  /-- the receiver after the call -/
  recv : CSM α

/-- the table built so far, as a matrix -/
def tMat (m : CSM α) (t : List (Row α)) : CSM α := ⟨m.minor, m.major, t, []⟩

/-- the receiver as left behind: untouched if the code builds a fresh table -/
def tRecv (sh : TransposeShape) (m : CSM α) (t : List (Row α)) : CSM α :=
  if sh.receiverUntouched then m else { m with rows := t }

/-- The scatter loop of `Transpose` (matrix.go 89-100) with the per-row `ctx` poll;
    `cancelled i` is what the poll before row `i` sees. -/
def transposeLoop (sh : TransposeShape) (cancelled : Nat → Bool) (m : CSM α) :
    List (Row α × Nat) → List (Row α) → TRes α
  | [], t => ⟨false, some (tMat m t), tRecv sh m t⟩
  | (r, i) :: rest, t =>
    if sh.pollsCtxPerRow && cancelled i then
      ⟨true, if sh.returnsNilOnCtx then none else some (tMat m t), tRecv sh m t⟩
    else transposeLoop sh cancelled m rest (scatterRow t i r)

/-- `Transpose` under a cancellation oracle -/
def transposeC (sh : TransposeShape) (cancelled : Nat → Bool) (m : CSM α) : TRes α :=
  transposeLoop sh cancelled m m.rows.zipIdx (List.replicate m.minor [])

theorem transposeLoop_atomic (sh : TransposeShape) (hsafe : sh.safe = true)
    (cancelled : Nat → Bool) (m : CSM α) :
    ∀ (l : List (Row α × Nat)) (t : List (Row α)),
      transposeLoop sh cancelled m l t = ⟨true, none, m⟩ ∨
      transposeLoop sh cancelled m l t =
        ⟨false, some (tMat m (l.foldl (fun t (p : Row α × Nat) => scatterRow t p.2 p.1) t)), m⟩ := by
  simp only [TransposeShape.safe, Bool.and_eq_true] at hsafe
  obtain ⟨⟨h1, h2⟩, h3⟩ := hsafe
  intro l
  induction l with
  | nil => intro t; right; simp [transposeLoop, tRecv, h3]
  | cons p rest ih =>
    intro t
    obtain ⟨r, i⟩ := p
    simp only [transposeLoop, h1, Bool.true_and, List.foldl_cons]
    cases hc : cancelled i
    · simpa using ih (scatterRow t i r)
    · left; simp [tRecv, h2, h3]

end Transpose

end EtVerif.CancelAtomic
