/-
  The goroutine system of `sparse.(*Vector).MulVec` (vector.go 200-273) as a labelled transition
  system, parameterised by the structural facts `shape : MulVecShape` that `tools/gofacts` extracts.

  Goroutines: one producer (`jobs <- row`), `w` identical workers (symmetric-reduced: we count the
  idle ones and keep the multiset of rows held by busy ones), one closer (`wg.Wait(); close(entries)`),
  the collector (the calling goroutine), and the environment (which may cancel `ctx` at any time).

  Every Go `select` with a `ctx.Done()` case may take that case whenever `cancelled = true`, and may
  still take any other ready case (Go picks any ready case).
-/
import EtVerif.Model.Shapes
import EtVerif.Proofs.SortPerm

namespace EtVerif.MulVecConc
open EtVerif

/-- Can a send proceed on a channel of capacity class `c` that currently buffers `len` items?
    `unbuffered` is over-approximated by a one-slot buffer (a rendezvous is a send immediately
    followed by the receive) and `unknown` by an unbounded buffer: both over-approximations are
    sound for the safety theorems; the progress theorems require `.dim`. -/
def _root_.EtVerif.ChanCap.canSend (c : ChanCap) (dim len : Nat) : Bool :=
  match c with
  | .dim => decide (len < dim)
  | .const n => decide (len < n)
  | .unbuffered => decide (len < 1)
  | .unknown => true

/-- The parameters of one `MulVec` call. -/
structure Cfg (β : Type) where
  shape : MulVecShape
  /-- number of rows (`dim, _ := m.Dim()`) -/
  dim : Nat
  /-- number of worker goroutines (32 in the source; the theorems hold for every `w ≥ 1`) -/
  w : Nat
  /-- the value ONE sequential `VecDot(m.RowVector(r), v1)` returns for row `r` -/
  prod : Nat → β
  /-- Go `product == 0` -/
  isZ : β → Bool
  /-- `sort.Sort(EntriesByIndex(·))` — only ever assumed to satisfy `IsSortFn` -/
  sortFn : List (Nat × β) → List (Nat × β)

/-- The global state. -/
structure St (β : Type) where
  /-- next row the producer will send -/
  next : Nat
  /-- the producer goroutine has returned -/
  prodDone : Bool
  /-- `jobs` has been closed (`defer close(jobs)` ran; needs `shape.producerClosesJobs`) -/
  jobsClosed : Bool
  /-- buffered contents of `jobs` (FIFO) -/
  jobs : List Nat
  /-- workers blocked in the receive `select` -/
  idle : Nat
  /-- entries held by busy workers: product computed, blocked in the send `select` -/
  held : List (Nat × β)
  /-- workers that have returned (`wg.Done()` ran) -/
  exited : Nat
  /-- buffered contents of `entries` (FIFO) -/
  entriesQ : List (Nat × β)
  /-- the closer goroutine ran `close(entries)` (and returned) -/
  entriesClosed : Bool
  /-- `sortedEntries` of the collector, in arrival order -/
  got : List (Nat × β)
  /-- `ctx` has been cancelled (monotone) -/
  cancelled : Bool
  /-- the collector returned: `error ()` = `ctx.Err()`, `ok l` = `nil` after publishing `l` -/
  result : Option (Except Unit (List (Nat × β)))
  /-- the receiver's `Entries` as the caller sees them; `none` = untouched -/
  out : Option (List (Nat × β))

variable {β : Type}

def init (c : Cfg β) : St β :=
  { next := 0, prodDone := false, jobsClosed := false, jobs := [], idle := c.w, held := [],
    exited := 0, entriesQ := [], entriesClosed := false, got := [], cancelled := false,
    result := none, out := none }

/-- collector body: `if e.Value != 0 { sortedEntries = append(sortedEntries, e) }` -/
def collect (c : Cfg β) (got : List (Nat × β)) (x : Nat × β) : List (Nat × β) :=
  if c.shape.dropsZero && c.isZ x.2 then got else got ++ [x]

/-- what is published after the loop -/
def pub (c : Cfg β) (got : List (Nat × β)) : List (Nat × β) :=
  if c.shape.sortsAfterCollect then c.sortFn got else got

/-- the sequential row-by-row product of this call -/
def Cfg.seq (c : Cfg β) : List (Nat × β) := seqList c.dim c.prod c.isZ

inductive Actor where
  | env | producer | worker | closer | collector
deriving DecidableEq, Repr

/-- One atomic step of one goroutine (or of the environment). -/
inductive Step (c : Cfg β) : Actor → St β → St β → Prop
  /-- the environment cancels `ctx` -/
  | cancel (s : St β) : Step c .env s { s with cancelled := true }
  /-- producer: `case jobs <- row` -/
  | prodSend (s : St β) (h1 : s.prodDone = false) (h2 : s.next < c.dim)
      (h3 : c.shape.jobsCap.canSend c.dim s.jobs.length = true) :
      Step c .producer s { s with next := s.next + 1, jobs := s.jobs ++ [s.next] }
  /-- producer: loop finished, `defer close(jobs)` -/
  | prodExit (s : St β) (h1 : s.prodDone = false) (h2 : s.next = c.dim) :
      Step c .producer s { s with prodDone := true, jobsClosed := c.shape.producerClosesJobs }
  /-- producer: `case <-ctx.Done(): return` -/
  | prodCancel (s : St β) (h1 : s.prodDone = false) (h2 : s.next < c.dim)
      (hs : c.shape.producerSelectsCtx = true) (hc : s.cancelled = true) :
      Step c .producer s { s with prodDone := true, jobsClosed := c.shape.producerClosesJobs }
  /-- worker: `case row, ok = <-jobs` with `ok`, then `product := VecDot(…)`; the worker now
      holds the entry.  If the row is not computed by one `VecDot` the value is unconstrained. -/
  | workRecv (s : St β) (r : Nat) (rest : List Nat) (p : β) (h1 : 0 < s.idle)
      (h2 : s.jobs = r :: rest) (hp : c.shape.rowByOneVecDot = true → p = c.prod r) :
      Step c .worker s { s with jobs := rest, idle := s.idle - 1, held := (r, p) :: s.held }
  /-- worker: `<-jobs` yields `!ok` (closed and drained) -/
  | workExitClosed (s : St β) (h1 : 0 < s.idle) (h2 : s.jobs = []) (h3 : s.jobsClosed = true) :
      Step c .worker s { s with idle := s.idle - 1, exited := s.exited + 1 }
  /-- worker: `case <-ctx.Done(): return` of the receive `select` -/
  | workCancelRecv (s : St β) (h1 : 0 < s.idle) (hs : c.shape.workerRecvSelectsCtx = true)
      (hc : s.cancelled = true) :
      Step c .worker s { s with idle := s.idle - 1, exited := s.exited + 1 }
  /-- worker: `case entries <- Entry{row, product}` (a send on a closed channel would panic; the
      invariant `entriesClosed → held = []` shows it is never attempted when the closer waits) -/
  | workSend (s : St β) (pre : List (Nat × β)) (x : Nat × β) (post : List (Nat × β))
      (h1 : s.held = pre ++ x :: post) (h2 : s.entriesClosed = false)
      (h3 : c.shape.entriesCap.canSend c.dim s.entriesQ.length = true) :
      Step c .worker s { s with held := pre ++ post, idle := s.idle + 1,
                                entriesQ := s.entriesQ ++ [x] }
  /-- worker: `case <-ctx.Done(): return` of the send `select` — the held entry is dropped -/
  | workCancelSend (s : St β) (pre : List (Nat × β)) (x : Nat × β) (post : List (Nat × β))
      (h1 : s.held = pre ++ x :: post) (hs : c.shape.workerSendSelectsCtx = true)
      (hc : s.cancelled = true) :
      Step c .worker s { s with held := pre ++ post, exited := s.exited + 1 }
  /-- closer: `wg.Wait(); close(entries)` -/
  | closer (s : St β) (h1 : s.entriesClosed = false)
      (h2 : c.shape.closerWaitsAllWorkers = true → s.exited = c.w) :
      Step c .closer s { s with entriesClosed := true }
  /-- collector: `case e, ok := <-entries` with `ok` -/
  | collRecv (s : St β) (x : Nat × β) (rest : List (Nat × β)) (h0 : s.result = none)
      (h1 : s.entriesQ = x :: rest) :
      Step c .collector s
        { s with entriesQ := rest, got := collect c s.got x,
                 out := if c.shape.publishesAfterSort then s.out else some (collect c s.got x) }
  /-- collector: `entries` closed and drained → `break Loop`; (re-check `ctx.Err()`;) sort; publish -/
  | collClosed (s : St β) (h0 : s.result = none) (h1 : s.entriesQ = [])
      (h2 : s.entriesClosed = true) :
      Step c .collector s
        { s with
          result := some (if c.shape.collectorRechecksCtx && s.cancelled then .error ()
                          else .ok (pub c s.got)),
          out := if c.shape.collectorRechecksCtx && s.cancelled then s.out
                 else some (pub c s.got) }
  /-- collector: `case <-ctx.Done(): return ctx.Err()` -/
  | collCancel (s : St β) (h0 : s.result = none) (hs : c.shape.collectorSelectsCtx = true)
      (hc : s.cancelled = true) :
      Step c .collector s { s with result := some (.error ()) }

/-- some goroutine or the environment moves -/
def Next (c : Cfg β) (s s' : St β) : Prop := ∃ a, Step c a s s'

/-- reachable from the initial state under any interleaving and any cancellation time -/
def Reach (c : Cfg β) (s : St β) : Prop := Relation.ReflTransGen (Next c) (init c) s

theorem Reach.start (c : Cfg β) : Reach c (init c) := Relation.ReflTransGen.refl

theorem Reach.step {c : Cfg β} {a : Actor} {s s' : St β} (h : Reach c s) (hs : Step c a s s') :
    Reach c s' := Relation.ReflTransGen.tail h ⟨a, hs⟩

/-- induction principle for invariants -/
theorem Reach.invariant {c : Cfg β} (P : St β → Prop) (h0 : P (init c))
    (hstep : ∀ a s s', Reach c s → P s → Step c a s s' → P s') : ∀ s, Reach c s → P s := by
  intro s h
  induction h with
  | refl => exact h0
  | tail hr hn ih =>
    obtain ⟨a, hs⟩ := hn
    exact hstep a _ _ hr ih hs

/-! ## Structural invariant (holds under any cancellation) -/

/-- channel bounds, worker conservation, closing discipline -/
structure SInv (c : Cfg β) (s : St β) : Prop where
  next_le : s.next ≤ c.dim
  /-- every row sent so far is in at most one place; hence both channels hold `≤ dim` items -/
  flow : s.jobs.length + s.held.length + s.entriesQ.length ≤ s.next
  workers : s.idle + s.held.length + s.exited = c.w
  closed_done : s.jobsClosed = true → s.prodDone = true
  closer_waits : c.shape.closerWaitsAllWorkers = true → s.entriesClosed = true → s.exited = c.w

theorem sinv_init (c : Cfg β) : SInv c (init c) := by
  constructor <;> simp [init]

theorem sinv_step {c : Cfg β} {a : Actor} {s s' : St β} (h : SInv c s) (hs : Step c a s s') :
    SInv c s' := by
  obtain ⟨h1, h2, h3, h4, h5⟩ := h
  cases hs with
  | cancel => exact ⟨h1, h2, h3, h4, h5⟩
  | prodSend _ g1 g2 g3 =>
    refine ⟨by simp; omega, by simp; omega, h3, ?_, h5⟩
    intro hj; have := h4 hj; simp_all
  | prodExit _ g1 g2 => exact ⟨h1, h2, h3, fun _ => rfl, h5⟩
  | prodCancel _ g1 g2 _ _ => exact ⟨h1, h2, h3, fun _ => rfl, h5⟩
  | workRecv _ r rest p g1 g2 _ =>
    refine ⟨h1, ?_, ?_, h4, h5⟩
    · simp [g2] at h2 ⊢; omega
    · simp; omega
  | workExitClosed _ g1 g2 g3 =>
    refine ⟨h1, h2, by simp; omega, h4, ?_⟩
    intro hw hc
    have := h5 hw hc
    simp; omega
  | workCancelRecv _ g1 _ _ =>
    refine ⟨h1, h2, by simp; omega, h4, ?_⟩
    intro hw hc
    have := h5 hw hc
    simp; omega
  | workSend _ pre x post g1 g2 g3 =>
    refine ⟨h1, ?_, ?_, h4, ?_⟩
    · simp [g1] at h2 ⊢; omega
    · simp [g1] at h3 ⊢; omega
    · intro _ hc; simp [g2] at hc
  | workCancelSend _ pre x post g1 _ _ =>
    refine ⟨h1, ?_, ?_, h4, ?_⟩
    · simp [g1] at h2 ⊢; omega
    · simp [g1] at h3 ⊢; omega
    · intro hw hc
      have := h5 hw hc
      simp [g1] at h3; omega
  | closer _ g1 g2 => exact ⟨h1, h2, h3, h4, fun hw _ => g2 hw⟩
  | collRecv _ x rest g0 g1 =>
    refine ⟨h1, ?_, h3, h4, h5⟩
    simp [g1] at h2 ⊢; omega
  | collClosed _ g0 g1 g2 => exact ⟨h1, h2, h3, h4, h5⟩
  | collCancel _ g0 _ _ => exact ⟨h1, h2, h3, h4, h5⟩

theorem sinv_of_reach {c : Cfg β} {s : St β} (h : Reach c s) : SInv c s :=
  Reach.invariant (SInv c) (sinv_init c) (fun _ _ _ _ hp hs => sinv_step hp hs) s h

/-- `cancelled` is monotone along steps -/
theorem cancelled_mono {c : Cfg β} {a : Actor} {s s' : St β} (hs : Step c a s s')
    (h : s'.cancelled = false) : s.cancelled = false := by
  cases hs <;> simp_all

/-- once the collector has returned its result never changes -/
theorem result_stable {c : Cfg β} {a : Actor} {s s' : St β} (hs : Step c a s s')
    {r : Except Unit (List (Nat × β))} (h : s.result = some r) :
    s'.result = some r ∧ s'.out = s.out := by
  cases hs <;> simp_all

end EtVerif.MulVecConc
