/-
  C05 (analysis part) — "Every ... library call on canonical inputs, with a>=0.001 and e>=1e-9
  finishes within ceil(ln(e/4)/ln(1-a))+2 iterations under the default schedule."

  Default schedule (`/repo/pkg/basic/eigentrust.go`: `checkFreq = 1`, `minIters = checkFreq`):
  after every iteration `K ≥ 1` the check compares `t_K` with `t_{K-1}` (at `K = 1`: with `t0`)
  and stops iff `‖t_K − t_{K-1}‖₂ ≤ e`.

  Dense real-analysis statement on `Fin n → ℝ`.  Property theorems only; helpers live in
  Proofs/Dense.lean and Proofs/DenseTerm.lean.
-/
import EtVerif.Proofs.DenseTerm

namespace EtVerif.C05a
open EtVerif.Dense

variable {n : ℕ}

/-- All iterates starting from a distribution are distributions. -/
theorem iterate_distribution_dense (C : Fin n → Fin n → ℝ) (p : Fin n → ℝ) (a : ℝ)
    (hC0 : ∀ i j, 0 ≤ C i j) (hC1 : ∀ i, ∑ j, C i j = 1)
    (hp0 : ∀ i, 0 ≤ p i) (hp1 : ∑ i, p i = 1) (ha0 : 0 ≤ a) (ha1 : a ≤ 1)
    (t0 : Fin n → ℝ) (ht0 : ∀ i, 0 ≤ t0 i) (ht1 : ∑ i, t0 i = 1) (k : ℕ) :
    (∀ i, 0 ≤ (F C p a)^[k] t0 i) ∧ ∑ i, (F C p a)^[k] t0 i = 1 :=
  iterate_distribution C p a hC0 hC1 hp0 hp1 ha0 ha1 t0 ht0 ht1 k

example : (∀ i, 0 ≤ (F exC exP (1 / 2))^[3] exT0 i) ∧ ∑ i, (F exC exP (1 / 2))^[3] exT0 i = 1 :=
  iterate_distribution_dense exC exP (1 / 2) exC_nonneg exC_rowsum exP_nonneg exP_sum
    (by norm_num) (by norm_num) exT0 exT0_nonneg exT0_sum 3

/-- `‖x‖₂ ≤ ‖x‖₁`. -/
theorem l2_le_l1 (x : Fin n → ℝ) : l2 x ≤ l1 x := Dense.l2_le_l1 x

/-- Consecutive iterates: `‖t_{k+1} − t_k‖₁ ≤ 2(1-a)^k`. -/
theorem delta_geometric_l1 (C : Fin n → Fin n → ℝ) (p : Fin n → ℝ) (a : ℝ)
    (hC0 : ∀ i j, 0 ≤ C i j) (hC1 : ∀ i, ∑ j, C i j = 1)
    (hp0 : ∀ i, 0 ≤ p i) (hp1 : ∑ i, p i = 1) (ha0 : 0 ≤ a) (ha1 : a ≤ 1)
    (t0 : Fin n → ℝ) (ht0 : ∀ i, 0 ≤ t0 i) (ht1 : ∑ i, t0 i = 1) (k : ℕ) :
    l1 ((F C p a)^[k + 1] t0 - (F C p a)^[k] t0) ≤ 2 * (1 - a) ^ k :=
  delta_l1_geometric C p a hC0 hC1 hp0 hp1 ha0 ha1 t0 ht0 ht1 k

/-- Consecutive iterates: `‖t_{k+1} − t_k‖₂ ≤ 2(1-a)^k`. -/
theorem delta_geometric (C : Fin n → Fin n → ℝ) (p : Fin n → ℝ) (a : ℝ)
    (hC0 : ∀ i j, 0 ≤ C i j) (hC1 : ∀ i, ∑ j, C i j = 1)
    (hp0 : ∀ i, 0 ≤ p i) (hp1 : ∑ i, p i = 1) (ha0 : 0 ≤ a) (ha1 : a ≤ 1)
    (t0 : Fin n → ℝ) (ht0 : ∀ i, 0 ≤ t0 i) (ht1 : ∑ i, t0 i = 1) (k : ℕ) :
    l2 ((F C p a)^[k + 1] t0 - (F C p a)^[k] t0) ≤ 2 * (1 - a) ^ k :=
  (Dense.l2_le_l1 _).trans (delta_l1_geometric C p a hC0 hC1 hp0 hp1 ha0 ha1 t0 ht0 ht1 k)

example : l2 ((F exC exP (1 / 2))^[3 + 1] exT0 - (F exC exP (1 / 2))^[3] exT0)
    ≤ 2 * (1 - 1 / 2) ^ 3 :=
  delta_geometric exC exP (1 / 2) exC_nonneg exC_rowsum exP_nonneg exP_sum
    (by norm_num) (by norm_num) exT0 exT0_nonneg exT0_sum 3

/-- With `N = ⌈ln(e/4)/ln(1-a)⌉`: `2(1-a)^N ≤ e/2`. -/
theorem two_mul_pow_ceil_le (a e : ℝ) (ha0 : 0 < a) (ha1 : a < 1) (he : 0 < e) :
    2 * (1 - a) ^ (⌈Real.log (e / 4) / Real.log (1 - a)⌉₊) ≤ e / 2 := by
  have := pow_ceil_log_le a e ha0 ha1 he
  linarith

/-- Sharp form: the check after iteration `N + 1` succeeds (`N = ⌈ln(e/4)/ln(1-a)⌉`). -/
theorem terminates_default_at (C : Fin n → Fin n → ℝ) (p : Fin n → ℝ) (a e : ℝ)
    (hC0 : ∀ i j, 0 ≤ C i j) (hC1 : ∀ i, ∑ j, C i j = 1)
    (hp0 : ∀ i, 0 ≤ p i) (hp1 : ∑ i, p i = 1) (ha0 : 0 < a) (ha1 : a < 1) (he : 0 < e)
    (t0 : Fin n → ℝ) (ht0 : ∀ i, 0 ≤ t0 i) (ht1 : ∑ i, t0 i = 1) :
    l2 ((F C p a)^[⌈Real.log (e / 4) / Real.log (1 - a)⌉₊ + 1] t0
        - (F C p a)^[⌈Real.log (e / 4) / Real.log (1 - a)⌉₊] t0) ≤ e / 2 :=
  (delta_geometric C p a hC0 hC1 hp0 hp1 ha0.le ha1.le t0 ht0 ht1 _).trans
    (two_mul_pow_ceil_le a e ha0 ha1 he)

/-- **Termination under the default schedule, `0 < a < 1`.**  Some check at an iteration count
`K` with `1 ≤ K ≤ ⌈ln(e/4)/ln(1-a)⌉ + 2` succeeds (hence the first successful one is no later). -/
theorem terminates_default (C : Fin n → Fin n → ℝ) (p : Fin n → ℝ) (a e : ℝ)
    (hC0 : ∀ i j, 0 ≤ C i j) (hC1 : ∀ i, ∑ j, C i j = 1)
    (hp0 : ∀ i, 0 ≤ p i) (hp1 : ∑ i, p i = 1) (ha0 : 0 < a) (ha1 : a < 1) (he : 0 < e)
    (t0 : Fin n → ℝ) (ht0 : ∀ i, 0 ≤ t0 i) (ht1 : ∑ i, t0 i = 1) :
    ∃ K, 1 ≤ K ∧ K ≤ ⌈Real.log (e / 4) / Real.log (1 - a)⌉₊ + 2 ∧
      l2 ((F C p a)^[K] t0 - (F C p a)^[K - 1] t0) ≤ e := by
  refine ⟨⌈Real.log (e / 4) / Real.log (1 - a)⌉₊ + 1, by omega, by omega, ?_⟩
  have h := terminates_default_at C p a e hC0 hC1 hp0 hp1 ha0 ha1 he t0 ht0 ht1
  rw [Nat.add_sub_cancel]
  linarith

example : ∃ K, 1 ≤ K ∧ K ≤ ⌈Real.log ((1 / 1000 : ℝ) / 4) / Real.log (1 - 1 / 2)⌉₊ + 2 ∧
    l2 ((F exC exP (1 / 2))^[K] exT0 - (F exC exP (1 / 2))^[K - 1] exT0) ≤ 1 / 1000 :=
  terminates_default exC exP (1 / 2) (1 / 1000) exC_nonneg exC_rowsum exP_nonneg exP_sum
    (by norm_num) (by norm_num) (by norm_num) exT0 exT0_nonneg exT0_sum

/-- The same statement about the *first* successful check: the least `K ≥ 1` whose check
succeeds exists and is at most `⌈ln(e/4)/ln(1-a)⌉ + 2`. -/
theorem first_success_le (C : Fin n → Fin n → ℝ) (p : Fin n → ℝ) (a e : ℝ)
    (hC0 : ∀ i j, 0 ≤ C i j) (hC1 : ∀ i, ∑ j, C i j = 1)
    (hp0 : ∀ i, 0 ≤ p i) (hp1 : ∑ i, p i = 1) (ha0 : 0 < a) (ha1 : a < 1) (he : 0 < e)
    (t0 : Fin n → ℝ) (ht0 : ∀ i, 0 ≤ t0 i) (ht1 : ∑ i, t0 i = 1) :
    ∃ K, 1 ≤ K ∧ K ≤ ⌈Real.log (e / 4) / Real.log (1 - a)⌉₊ + 2 ∧
      l2 ((F C p a)^[K] t0 - (F C p a)^[K - 1] t0) ≤ e ∧
      ∀ K', 1 ≤ K' → K' < K → ¬ l2 ((F C p a)^[K'] t0 - (F C p a)^[K' - 1] t0) ≤ e := by
  classical
  have hex : ∃ K, 1 ≤ K ∧ l2 ((F C p a)^[K] t0 - (F C p a)^[K - 1] t0) ≤ e := by
    obtain ⟨K, h1, _, h3⟩ := terminates_default C p a e hC0 hC1 hp0 hp1 ha0 ha1 he t0 ht0 ht1
    exact ⟨K, h1, h3⟩
  obtain ⟨K, h1, h2, h3⟩ := terminates_default C p a e hC0 hC1 hp0 hp1 ha0 ha1 he t0 ht0 ht1
  refine ⟨Nat.find hex, (Nat.find_spec hex).1, ?_, (Nat.find_spec hex).2, ?_⟩
  · exact (Nat.find_min' hex ⟨h1, h3⟩).trans h2
  · intro K' hK1 hlt hle
    exact Nat.find_min hex hlt ⟨hK1, hle⟩

/-- **Termination for `a = 1`.**  Every iterate from the first on equals `p`, so the check at
iteration 2 sees delta 0 (for any threshold `e ≥ 0`; no assumption on `C`, `p`, `t0`). -/
theorem terminates_alpha_one (C : Fin n → Fin n → ℝ) (p : Fin n → ℝ) (e : ℝ) (he : 0 ≤ e)
    (t0 : Fin n → ℝ) :
    ∃ K, 1 ≤ K ∧ K ≤ 2 ∧ l2 ((F C p 1)^[K] t0 - (F C p 1)^[K - 1] t0) ≤ e := by
  refine ⟨2, by omega, le_rfl, ?_⟩
  rw [show (2 : ℕ) - 1 = 0 + 1 from rfl, show (2 : ℕ) = 1 + 1 from rfl,
    iterate_alpha_one, iterate_alpha_one, sub_self, l2_zero]
  exact he

/-- For `a = 1`, all iterates after the first step equal `p`. -/
theorem iterate_alpha_one_eq (C : Fin n → Fin n → ℝ) (p : Fin n → ℝ) (t0 : Fin n → ℝ) (k : ℕ)
    (hk : 1 ≤ k) : (F C p 1)^[k] t0 = p := by
  obtain ⟨m, rfl⟩ : ∃ m, k = m + 1 := ⟨k - 1, by omega⟩
  exact iterate_alpha_one C p t0 m

example : ∃ K, 1 ≤ K ∧ K ≤ 2 ∧
    l2 ((F exC exP 1)^[K] exT0 - (F exC exP 1)^[K - 1] exT0) ≤ 1 / 1000 :=
  terminates_alpha_one exC exP (1 / 1000) (by norm_num) exT0

end EtVerif.C05a
