/-
  C04 — Canonicalisation: rows/vectors sum to one with ratios preserved, zero rows are replaced by
  the pre-trust (or left alone), zero vectors by the uniform distribution; scaling the inputs does
  not change the canonical form.
  Property theorems only (helper lemmas live in Proofs/Canon.lean).
-/
import EtVerif.Proofs.Canon
import Mathlib.Algebra.Order.Field.Rat
import Mathlib.Tactic.NormNum

namespace EtVerif.C04
open EtVerif EtVerif.Canon

variable {K : Type} [Field K] [LinearOrder K]

/-! ### 4. Canonicalize -/

/-- a list with non-zero sum is accepted; the result sums to one and keeps the index sequence. -/
theorem canonicalize_sum_one (es : List (Entry K)) (h : (es.map (·.val)).sum ≠ 0) :
    ∃ es', canonicalize es = .ok es' ∧ (es'.map (·.val)).sum = 1 ∧
      es'.map (·.idx) = es.map (·.idx) := by
  refine ⟨es.map fun e => ⟨e.idx, e.val / vsum es⟩, ?_, ?_, ?_⟩
  · have h' : vsum es ≠ 0 := h
    rw [canonicalize_eq, if_neg h']
  · have := vsum_map_div es (vsum es)
    unfold vsum at this ⊢
    rw [this]; exact div_self h
  · simp [List.map_map, Function.comp_def]

/-- success means exactly that the sum was non-zero, and determines the result: every value is
    divided by the sum. -/
theorem canonicalize_ok_iff (es es' : List (Entry K)) :
    canonicalize es = .ok es' ↔
      (es.map (·.val)).sum ≠ 0 ∧ es' = es.map fun e => ⟨e.idx, e.val / (es.map (·.val)).sum⟩ := by
  rw [canonicalize_eq]
  by_cases h : vsum es = 0
  · rw [if_pos h]
    constructor
    · intro h'; cases h'
    · intro h'; exact absurd h h'.1
  · rw [if_neg h]
    constructor
    · intro h'; injection h' with h'; exact ⟨h, h'.symm⟩
    · intro h'; rw [h'.2]; rfl

/-- ratios between entries are preserved: `v'_a * v_b = v'_b * v_a` for all positions `a`, `b`. -/
theorem canonicalize_ratio (es es' : List (Entry K)) (h : canonicalize es = .ok es') :
    ∃ hl : es'.length = es.length, ∀ (a b : Nat) (ha : a < es.length) (hb : b < es.length),
      (es'[a]'(hl ▸ ha)).val * es[b].val = (es'[b]'(hl ▸ hb)).val * es[a].val := by
  obtain ⟨_, rfl⟩ := (canonicalize_ok_iff es es').mp h
  refine ⟨by simp, fun a b ha hb => ?_⟩
  simp only [List.getElem_map]
  ring

/-- dense form: every coordinate is divided by the sum. -/
theorem canonicalize_den (es es' : List (Entry K)) (h : canonicalize es = .ok es') (i : Nat) :
    denE es' i = denE es i / (es.map (·.val)).sum := by
  obtain ⟨_, rfl⟩ := (canonicalize_ok_iff es es').mp h
  exact denE_map_div es _ i

/-- a list whose values sum to zero (in particular the empty list) is rejected. -/
theorem canonicalize_zero_sum (es : List (Entry K)) (h : (es.map (·.val)).sum = 0) :
    canonicalize es = .error .zeroSum := by
  have h' : vsum es = 0 := h
  rw [canonicalize_eq, if_pos h']

/-! ### 5. scaling -/

/-- multiplying all values by a non-zero constant does not change the result (nor the error). -/
theorem canonicalize_scale (es : List (Entry K)) (c : K) (hc : c ≠ 0) :
    canonicalize (es.map fun e => ⟨e.idx, c * e.val⟩) = canonicalize es :=
  canonicalize_scale' es hc

/-! ### 6. CanonicalizeLocalTrust -/

/-- closed form of a successful run -/
theorem canonLT_ok_iff (m m' : CSM K) (p : Option (Vec K)) :
    canonicalizeLocalTrust m p = .ok m' ↔
      m.major = m.minor ∧ (∀ q, p = some q → q.dim = m.major) ∧
      m' = { m with rows := m.rows.map (canonRow p) } := by
  unfold canonicalizeLocalTrust CSM.dim
  by_cases hd : m.major = m.minor
  · rw [if_neg (by simpa using hd)]
    cases p with
    | none =>
      simp only [Bool.false_eq_true, if_false, reduceCtorEq, false_implies, implies_true, true_and]
      constructor
      · intro h; injection h with h; exact ⟨hd, h.symm⟩
      · intro h; rw [h.2]
    | some q =>
      by_cases hq : m.major = q.dim
      · simp only [hq, ne_eq, not_true_eq_false, decide_false, Bool.false_eq_true, if_false,
          Option.some.injEq]
        constructor
        · intro h; injection h with h
          exact ⟨hq ▸ hd, fun q' hq' => hq' ▸ rfl, h.symm⟩
        · intro h; rw [h.2.2]
      · simp only [ne_eq, hq, not_false_eq_true, decide_true, if_true, Option.some.injEq]
        constructor
        · intro h; cases h
        · intro h; exact absurd (h.2.1 q rfl).symm hq
  · rw [if_pos hd]
    constructor
    · intro h; cases h
    · intro h; exact absurd h.1 hd

/-- dimensions, row count and hidden part are unchanged. -/
theorem canonLT_dims {m m' : CSM K} {p : Option (Vec K)}
    (h : canonicalizeLocalTrust m p = .ok m') :
    m'.major = m.major ∧ m'.minor = m.minor ∧ m'.rows.length = m.rows.length ∧
      m'.hidden = m.hidden := by
  obtain ⟨_, _, rfl⟩ := (canonLT_ok_iff m m' p).mp h
  simp

/-- every row position `i < m.rows.length` — including the last one — is treated by the three
    cases of the specification. -/
theorem canonLT_rows {m m' : CSM K} {p : Option (Vec K)}
    (h : canonicalizeLocalTrust m p = .ok m') (i : Nat) (hi : i < m.rows.length) :
    (((m.rows.getD i []).map (·.val)).sum ≠ 0 →
        canonicalize (m.rows.getD i []) = .ok (m'.rows.getD i [])) ∧
    (((m.rows.getD i []).map (·.val)).sum = 0 →
        ∀ q, p = some q → m'.rows.getD i [] = q.entries) ∧
    (((m.rows.getD i []).map (·.val)).sum = 0 →
        p = none → m'.rows.getD i [] = m.rows.getD i []) := by
  obtain ⟨_, _, rfl⟩ := (canonLT_ok_iff m m' p).mp h
  have hrow : (m.rows.map (canonRow p)).getD i [] = canonRow p (m.rows.getD i []) := by
    simp only [List.getD_eq_getElem?_getD, List.getElem?_map, List.getElem?_eq_getElem hi,
      Option.map_some, Option.getD_some]
  simp only [hrow]
  unfold canonRow
  rw [canonicalize_eq]
  refine ⟨fun hs => ?_, fun hs q hq => ?_, fun hs hp => ?_⟩
  · have hs' : vsum (m.rows.getD i []) ≠ 0 := hs
    rw [if_neg hs']
  · have hs' : vsum (m.rows.getD i []) = 0 := hs
    rw [if_pos hs', hq]
  · have hs' : vsum (m.rows.getD i []) = 0 := hs
    rw [if_pos hs', hp]

/-- (a) a row with non-zero sum becomes a row that sums to one, on the same column indices. -/
theorem canonLT_row_sum_one {m m' : CSM K} {p : Option (Vec K)}
    (h : canonicalizeLocalTrust m p = .ok m') (i : Nat) (hi : i < m.rows.length)
    (hs : ((m.rows.getD i []).map (·.val)).sum ≠ 0) :
    ((m'.rows.getD i []).map (·.val)).sum = 1 ∧
      (m'.rows.getD i []).map (·.idx) = (m.rows.getD i []).map (·.idx) := by
  obtain ⟨es', h1, h2, h3⟩ := canonicalize_sum_one _ hs
  have := (canonLT_rows h i hi).1 hs
  rw [h1] at this
  injection this with this
  subst this
  exact ⟨h2, h3⟩

/-- a non-square matrix is rejected. -/
theorem canonLT_error_nonsquare (m : CSM K) (p : Option (Vec K)) (h : m.major ≠ m.minor) :
    canonicalizeLocalTrust m p = .error .dimMismatch := by
  unfold canonicalizeLocalTrust CSM.dim
  rw [if_pos h]

/-- a pre-trust vector of the wrong dimension is rejected. -/
theorem canonLT_error_pdim (m : CSM K) (q : Vec K) (h : m.major = m.minor)
    (hq : q.dim ≠ m.major) :
    canonicalizeLocalTrust m (some q) = .error .dimMismatch := by
  unfold canonicalizeLocalTrust CSM.dim
  rw [if_neg (by simpa using h)]
  have : m.major ≠ q.dim := fun e => hq e.symm
  simp [this]

/-- all other inputs are accepted. -/
theorem canonLT_ok (m : CSM K) (p : Option (Vec K)) (h : m.major = m.minor)
    (hp : ∀ q, p = some q → q.dim = m.major) :
    ∃ m', canonicalizeLocalTrust m p = .ok m' :=
  ⟨_, (canonLT_ok_iff m _ p).mpr ⟨h, hp, rfl⟩⟩

/-! ### 7. CanonicalizeTrustVector -/

/-- a vector whose values sum to zero becomes the uniform vector. -/
theorem canonTV_uniform (v : Vec K) (h : (v.entries.map (·.val)).sum = 0) :
    canonicalizeTrustVector v = ⟨v.dim, uniformEntries v.dim⟩ := by
  unfold canonicalizeTrustVector
  rw [canonicalize_zero_sum _ h]

/-- the uniform entries of a positive dimension sum to one. -/
theorem uniform_sum_one [IsStrictOrderedRing K] (n : Nat) (hn : 0 < n) :
    ((uniformEntries n : List (Entry K)).map (·.val)).sum = 1 := vsum_uniform hn

/-- the uniform entries are well-formed: indices `0, 1, …, n-1`, each with value `1/n`. -/
theorem uniform_wf (n : Nat) : WF n (uniformEntries n : List (Entry K)) := wf_uniform n

theorem uniform_entries (n : Nat) :
    (uniformEntries n : List (Entry K)).map (·.idx) = List.range n ∧
      ∀ e ∈ (uniformEntries n : List (Entry K)), e.val = 1 / (n : K) := by
  unfold uniformEntries
  constructor
  · simp [List.map_map, Function.comp_def]
  · intro e he
    obtain ⟨i, _, rfl⟩ := List.mem_map.mp he
    simp

/-- otherwise the vector is canonicalised: same indices, values divided by the sum, sum one. -/
theorem canonTV_nonzero (v : Vec K) (h : (v.entries.map (·.val)).sum ≠ 0) :
    ∃ es', canonicalize v.entries = .ok es' ∧ canonicalizeTrustVector v = ⟨v.dim, es'⟩ ∧
      (es'.map (·.val)).sum = 1 ∧ es'.map (·.idx) = v.entries.map (·.idx) := by
  obtain ⟨es', h1, h2, h3⟩ := canonicalize_sum_one _ h
  refine ⟨es', h1, ?_, h2, h3⟩
  unfold canonicalizeTrustVector
  rw [h1]

theorem canonTV_dim (v : Vec K) : (canonicalizeTrustVector v).dim = v.dim := by
  unfold canonicalizeTrustVector
  split <;> rfl

/-- in every case the result of a positive dimension sums to one. -/
theorem canonTV_sum_one [IsStrictOrderedRing K] (v : Vec K) (hd : 0 < v.dim) :
    ((canonicalizeTrustVector v).entries.map (·.val)).sum = 1 := by
  by_cases h : (v.entries.map (·.val)).sum = 0
  · rw [canonTV_uniform v h]; exact uniform_sum_one _ hd
  · obtain ⟨es', _, h2, h3, _⟩ := canonTV_nonzero v h
    rw [h2]; exact h3

/-- well-formedness is preserved. -/
theorem canonTV_wf (v : Vec K) (hw : WF v.dim v.entries) :
    WF (canonicalizeTrustVector v).dim (canonicalizeTrustVector v).entries := by
  by_cases h : (v.entries.map (·.val)).sum = 0
  · rw [canonTV_uniform v h]; exact uniform_wf _
  · obtain ⟨es', _, h2, _, h4⟩ := canonTV_nonzero v h
    rw [h2]
    have hidx : ∀ (l l' : List (Entry K)), l'.map (·.idx) = l.map (·.idx) → WF v.dim l →
        WF v.dim l' := by
      intro l l' hm hl
      constructor
      · have := hl.1
        unfold Sorted at this ⊢
        rw [← List.pairwise_map (f := fun e : Entry K => e.idx) (R := (· < ·))] at this ⊢
        rw [hm]; exact this
      · intro e he
        have : e.idx ∈ l.map (·.idx) := hm ▸ List.mem_map_of_mem he
        obtain ⟨e0, he0, h0⟩ := List.mem_map.mp this
        rw [← h0]; exact hl.2 e0 he0
    exact hidx _ _ h4 hw

/-! ### 8. scale invariance of the canonicalisation pipeline -/

/-- Row-wise scaling by non-zero factors does not change the canonicalised local trust.
    For `p = none` a zero-sum row is *left untouched* by the code, so a zero-sum row must be
    all-zero for its scaled copy to be the same row; `hz` says exactly that (it is vacuous for
    `p = some _`, and holds whenever the values are non-negative, see `…_nonneg`).  The
    hypothesis cannot be dropped: see the counter-example at the end of this file. -/
theorem canonLT_scale_invariant (s : Nat → K) (hs : ∀ i, s i ≠ 0) (m : CSM K)
    (p : Option (Vec K))
    (hz : p = none → ∀ r ∈ m.rows, (r.map (·.val)).sum = 0 → ∀ e ∈ r, e.val = 0) :
    canonicalizeLocalTrust (scaleRows s m) p = canonicalizeLocalTrust m p := by
  have hrows : (scaleRows s m).rows.map (canonRow p) = m.rows.map (canonRow p) := by
    unfold scaleRows
    simp only [List.map_map]
    apply map_zipIdx_congr
    intro r hr i
    simp only [Function.comp_apply]
    cases p with
    | none => exact canonRow_none_scale r (hs i) (hz rfl r hr)
    | some q => exact canonRow_some_scale q r (hs i)
  unfold canonicalizeLocalTrust
  have hdim : (scaleRows s m).dim = m.dim := rfl
  rw [hdim, hrows]
  rfl

/-- with a pre-trust vector the invariance is unconditional. -/
theorem canonLT_scale_invariant_some (s : Nat → K) (hs : ∀ i, s i ≠ 0) (m : CSM K) (q : Vec K) :
    canonicalizeLocalTrust (scaleRows s m) (some q) = canonicalizeLocalTrust m (some q) :=
  canonLT_scale_invariant s hs m (some q) (fun h => by cases h)

/-- with non-negative values (the situation after `ExtractDistrust`) it is unconditional, too. -/
theorem canonLT_scale_invariant_nonneg [IsStrictOrderedRing K] (s : Nat → K) (hs : ∀ i, s i ≠ 0)
    (m : CSM K) (p : Option (Vec K)) (hn : ∀ r ∈ m.rows, ∀ e ∈ r, 0 ≤ e.val) :
    canonicalizeLocalTrust (scaleRows s m) p = canonicalizeLocalTrust m p :=
  canonLT_scale_invariant s hs m p
    (fun _ r hr h0 => all_zero_of_nonneg_of_vsum_zero r (hn r hr) h0)

/-- scaling the whole pre-trust / initial-trust vector does not change its canonical form. -/
theorem canonTV_scale_invariant (c : K) (hc : c ≠ 0) (v : Vec K) :
    canonicalizeTrustVector (scaleVecBy c v) = canonicalizeTrustVector v := by
  unfold canonicalizeTrustVector scaleVecBy
  simp only [canonicalize_scale' v.entries hc]

/-- The front-end pipeline `ExtractDistrust; CanonicalizeLocalTrust(c, p);
    CanonicalizeLocalTrust(discounts, nil)` on a local trust whose rows are multiplied by positive
    factors: it succeeds exactly when it does on the original, and hands *identical* matrices to
    `Compute` and `DiscountTrustVector`.  (Hence identical scores; no hypothesis on signs of the
    entries of `L`.) -/
theorem pipeline_scale_invariant [IsStrictOrderedRing K] (s : Nat → K) (hs : ∀ i, 0 < s i)
    (L P D : CSM K) (p : Option (Vec K)) (h : extractDistrust L = .ok (P, D)) :
    ∃ P' D', extractDistrust (scaleRows s L) = .ok (P', D') ∧
      canonicalizeLocalTrust P' p = canonicalizeLocalTrust P p ∧
      canonicalizeLocalTrust D' none = canonicalizeLocalTrust D none := by
  have hs' : ∀ i, s i ≠ 0 := fun i => (hs i).ne'
  refine ⟨scaleRows s P, scaleRows s D, ?_, ?_, ?_⟩
  · rw [extractDistrust_scaleRows s hs, h]; rfl
  · apply canonLT_scale_invariant_nonneg s hs'
    unfold extractDistrust at h
    split at h
    · cases h
    · injection h with h; injection h with h1 h2
      subst h1
      intro r hr e he
      simp only [List.map_map, List.mem_map, Function.comp_apply] at hr
      obtain ⟨r0, _, rfl⟩ := hr
      simp only [splitRow, List.mem_filter, Scalar.ge, s_le, s_zero, decide_eq_true_eq] at he
      exact he.2
  · apply canonLT_scale_invariant_nonneg s hs'
    unfold extractDistrust at h
    split at h
    · cases h
    · injection h with h; injection h with h1 h2
      subst h2
      intro r hr e he
      simp only [List.map_map, List.mem_map, Function.comp_apply] at hr
      obtain ⟨r0, _, rfl⟩ := hr
      simp only [splitRow, List.mem_map, List.mem_filter, Scalar.ge, s_le, s_zero, s_neg,
        Bool.not_eq_true', decide_eq_false_iff_not, not_le] at he
      obtain ⟨a, ⟨_, ha⟩, rfl⟩ := he
      show 0 ≤ -a.val
      linarith

/-! ### 9. the bit-level clause, for any `Scalar` instance -/

/-- If `σ` commutes with `add`, `sub`, preserves the magnitude comparison used by the compensated
    summer, fixes zero, preserves the zero test and cancels in quotients (all of which hold for
    multiplication by a power of two on IEEE doubles in the absence of overflow/underflow), then
    `Canonicalize` returns the very same entries — or the very same error — on the `σ`-image of
    its input. -/
theorem canonicalize_pow2_equivariant {α : Type} [Scalar α] (σ : α → α)
    (hadd : ∀ x y, σ (Scalar.add x y) = Scalar.add (σ x) (σ y))
    (hsub : ∀ x y, σ (Scalar.sub x y) = Scalar.sub (σ x) (σ y))
    (hlt : ∀ x y, Scalar.lt (Scalar.abs (σ x)) (Scalar.abs (σ y))
      = Scalar.lt (Scalar.abs x) (Scalar.abs y))
    (hzero : σ (Scalar.zero : α) = Scalar.zero)
    (hisZero : ∀ x, Scalar.isZero (σ x) = Scalar.isZero x)
    (hdiv : ∀ x s, Scalar.isZero s = false → Scalar.div (σ x) (σ s) = Scalar.div x s)
    (es : List (Entry α)) :
    canonicalize (es.map fun e => ⟨e.idx, σ e.val⟩) = canonicalize es := by
  unfold canonicalize
  have hmap : (es.map fun e => (⟨e.idx, σ e.val⟩ : Entry α)).map (·.val)
      = (es.map (·.val)).map σ := by
    simp [List.map_map, Function.comp_def]
  simp only [hmap, kbnSum_equivariant σ hadd hsub hlt hzero, hisZero]
  cases hz : Scalar.isZero (kbnSum (es.map (·.val)))
  · simp only [Bool.false_eq_true, if_false, List.map_map]
    congr 1
    apply List.map_congr_left
    intro e _
    simp only [Function.comp_apply, hdiv _ _ hz]
  · rfl

/-! ### non-vacuity at `K := ℚ` -/

section examples

-- `ℚ` carries two `Scalar` instances (`ratScalar` for the driver, `fieldScalar` for proofs);
-- the examples use the proof instance.
attribute [local instance 10000] fieldScalar

private def exRow : List (Entry ℚ) := [⟨0, 1⟩, ⟨2, 3⟩]

example : ∃ es', canonicalize exRow = .ok es' ∧ (es'.map (·.val)).sum = 1 ∧
    es'.map (·.idx) = exRow.map (·.idx) :=
  canonicalize_sum_one exRow (by norm_num [exRow])
example : canonicalize exRow = .ok [⟨0, 1/4⟩, ⟨2, 3/4⟩] := by
  rw [canonicalize_ok_iff]; norm_num [exRow]
example : canonicalize ([⟨0, 1⟩, ⟨1, -1⟩] : List (Entry ℚ)) = .error .zeroSum :=
  canonicalize_zero_sum _ (by norm_num)
example : canonicalize (exRow.map fun e => ⟨e.idx, 7 * e.val⟩) = canonicalize exRow :=
  canonicalize_scale exRow 7 (by norm_num)

/-- rows: non-zero sum, zero sum, and a *last* row with non-zero sum -/
private def exM : CSM ℚ := ⟨3, 3, [[⟨0, 1⟩, ⟨2, 3⟩], [], [⟨1, 2⟩]], []⟩
private def exPre : Vec ℚ := ⟨3, [⟨0, 1/2⟩, ⟨1, 1/2⟩]⟩

private theorem exM_canon : canonicalizeLocalTrust exM (some exPre)
    = .ok ⟨3, 3, [[⟨0, 1/4⟩, ⟨2, 3/4⟩], [⟨0, 1/2⟩, ⟨1, 1/2⟩], [⟨1, 1⟩]], []⟩ := by
  rw [canonLT_ok_iff]
  refine ⟨rfl, (fun q hq => by cases hq; rfl), ?_⟩
  simp only [exM, exPre, List.map_cons, List.map_nil, canonRow, canonicalize_eq, vsum]
  norm_num
-- the three cases at the *last* row position (index 2), and the sum-one consequence
example := canonLT_rows exM_canon 2 (by simp [exM])
example := canonLT_row_sum_one exM_canon 2 (by simp [exM]) (by norm_num [exM])
example := canonLT_dims exM_canon
example := canonicalize_ratio exRow [⟨0, 1/4⟩, ⟨2, 3/4⟩]
  (by rw [canonicalize_ok_iff]; norm_num [exRow])
example (i : Nat) := canonicalize_den exRow [⟨0, 1/4⟩, ⟨2, 3/4⟩]
  (by rw [canonicalize_ok_iff]; norm_num [exRow]) i
example : canonicalizeLocalTrust exM none
    = .ok ⟨3, 3, [[⟨0, 1/4⟩, ⟨2, 3/4⟩], [], [⟨1, 1⟩]], []⟩ := by
  rw [canonLT_ok_iff]
  refine ⟨rfl, (fun q hq => by cases hq), ?_⟩
  simp only [exM, List.map_cons, List.map_nil, canonRow, canonicalize_eq, vsum]
  norm_num
example : canonicalizeLocalTrust (⟨2, 3, [[], []], []⟩ : CSM ℚ) none = .error .dimMismatch :=
  canonLT_error_nonsquare _ _ (by simp)
example : canonicalizeLocalTrust exM (some ⟨2, []⟩) = .error .dimMismatch :=
  canonLT_error_pdim _ _ rfl (by simp [exM])
example : canonicalizeLocalTrust (scaleRows (fun i => (i : ℚ) + 2) exM) (some exPre)
    = canonicalizeLocalTrust exM (some exPre) :=
  canonLT_scale_invariant_some _ (fun i => by positivity) exM exPre

example : canonicalizeLocalTrust (scaleRows (fun i => (i : ℚ) + 2) exM) none
    = canonicalizeLocalTrust exM none :=
  canonLT_scale_invariant_nonneg _ (fun i => by positivity) exM none (by
    intro r hr e he
    simp only [exM, List.mem_cons, List.not_mem_nil, or_false] at hr
    rcases hr with rfl | rfl | rfl <;> simp at he <;> rcases he with rfl | rfl <;> norm_num)

/-- a local trust with negative entries, row-scaled by positive factors: the canonicalised inputs of
    `Compute` and `DiscountTrustVector` are identical -/
private def exL : CSM ℚ := ⟨2, 2, [[⟨0, 1⟩, ⟨1, -2⟩], [⟨0, -1⟩]], []⟩
example := pipeline_scale_invariant (fun i => (i : ℚ) + 2) (fun i => by positivity) exL
  ⟨2, 2, [[⟨0, 1⟩], []], []⟩ ⟨2, 2, [[⟨1, 2⟩], [⟨0, 1⟩]], []⟩ (some ⟨2, [⟨0, 1⟩]⟩)
  (by simp [extractDistrust, CSM.dim, exL, splitRow, Scalar.ge])

example := canonTV_nonzero exPre (by norm_num [exPre])
example := canonTV_sum_one exPre (by simp [exPre])
example := canonTV_wf exPre (by simp [WF, Sorted, exPre])
example : canonicalizeTrustVector (⟨3, []⟩ : Vec ℚ) = ⟨3, uniformEntries 3⟩ :=
  canonTV_uniform _ (by simp)
example : ((uniformEntries 3 : List (Entry ℚ)).map (·.val)).sum = 1 := uniform_sum_one 3 (by omega)
example : canonicalizeTrustVector (scaleVecBy 5 exPre) = canonicalizeTrustVector exPre :=
  canonTV_scale_invariant 5 (by norm_num) exPre

/-- the side condition of `canonLT_scale_invariant` for `p = none` cannot be dropped: a row with
    sum zero but non-zero entries is left untouched, so its scaled copy stays scaled. -/
example : canonicalizeLocalTrust
      (scaleRows (fun _ => 2) (⟨2, 2, [[⟨0, 1⟩, ⟨1, -1⟩], []], []⟩ : CSM ℚ)) none
    ≠ canonicalizeLocalTrust (⟨2, 2, [[⟨0, 1⟩, ⟨1, -1⟩], []], []⟩ : CSM ℚ) none := by
  intro h
  simp [canonicalizeLocalTrust, CSM.dim, scaleRows, canonRow, canonicalize_eq, vsum,
    List.zipIdx] at h

/-- the hypotheses of `canonicalize_pow2_equivariant` are satisfiable: `σ = id` … -/
example (es : List (Entry ℚ)) : canonicalize (es.map fun e => ⟨e.idx, id e.val⟩) = canonicalize es :=
  canonicalize_pow2_equivariant (α := ℚ) id (fun _ _ => rfl) (fun _ _ => rfl) (fun _ _ => rfl) rfl
    (fun _ => rfl) (fun _ _ _ => rfl) es

/-- … and `σ = (2 * ·)`, which is not the identity. -/
example (es : List (Entry ℚ)) :
    canonicalize (es.map fun e => ⟨e.idx, 2 * e.val⟩) = canonicalize es :=
  canonicalize_pow2_equivariant (α := ℚ) (fun x => 2 * x)
    (fun x y => by simp only [s_add]; ring)
    (fun x y => by simp only [s_sub]; ring)
    (fun x y => by simp [abs_mul])
    (by simp)
    (fun x => by simp)
    (fun x s hs => by
      have : s ≠ 0 := by simpa using hs
      simp only [s_div]
      field_simp)
    es

private theorem ratAbs_two (x : ℚ) : ratAbs (2 * x) = 2 * ratAbs x := by
  unfold ratAbs
  by_cases h : x < 0
  · have : 2 * x < 0 := by linarith
    simp [h, this]
  · have : ¬ 2 * x < 0 := by linarith
    simp [h, this]

/-- … also at the driver's exact-tier instance `ratScalar`. -/
example (es : List (Entry ℚ)) :
    @canonicalize ℚ ratScalar (es.map fun e => ⟨e.idx, 2 * e.val⟩) = @canonicalize ℚ ratScalar es :=
  @canonicalize_pow2_equivariant ℚ ratScalar (fun x => 2 * x)
    (fun x y => by show 2 * (x + y) = 2 * x + 2 * y; ring)
    (fun x y => by show 2 * (x - y) = 2 * x - 2 * y; ring)
    (fun x y => by
      show decide (ratAbs (2 * x) < ratAbs (2 * y)) = decide (ratAbs x < ratAbs y)
      rw [ratAbs_two, ratAbs_two]
      congr 1
      apply propext
      constructor <;> intro h <;> linarith)
    (by show (2 : ℚ) * 0 = 0; simp)
    (fun x => by
      show decide (2 * x = 0) = decide (x = 0)
      simp)
    (fun x s hs => by
      have : s ≠ 0 := by
        have : decide (s = 0) = false := hs
        simpa using this
      show 2 * x / (2 * s) = x / s
      field_simp)
    es

end examples

end EtVerif.C04
