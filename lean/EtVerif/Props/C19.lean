/-
  C19 — CSV front-ends.

  "The CLI maps peer names to dense indices in order of first appearance, consistently across the
   local-trust, pre-trust and initial-trust files, so the request it sends contains exactly the
   CSV's arcs, values and sizes; the CSV it writes maps every index back to the original name …
   the library CSV readers build exactly the listed arcs (default level 1, dimension = highest
   index + 1, names resolved through the peer list) while surfacing every malformed record as an
   error."

  Everything is structural and is stated for an arbitrary `Scalar α` (so also for `Float`).
  `encoding/csv` and `strconv` are outside the model: a `Fe.Field` carries the raw text together
  with the library's parse results (Model/Frontends.lean).

  Vocabulary (Proofs/FrontendLemmas.lean, namespace `FeL`):
  * `dataRecs hasHeader recs`   — the records after the optional header record;
  * `mNames recs` / `vNames recs` — the names a matrix / vector file looks up, in order
                                  (`from`, `to` of each record / first field of each record);
  * `indexAll raw tbl fs`        — `getPeerIndex` run over the fields `fs`, threading the table;
  * `IdxOf raw tbl f i`          — `i` is the index of field `f`: raw mode `ParseInt(s,0,0) = i ≥ 0`,
                                  name mode `i` = position of the name in the final table `tbl`;
  * `MRel raw tbl r e` / `VRel raw tbl r e` — record `r` yields inline entry `e` (2/1-field
                                  records get `Scalar.one`, otherwise the parsed float);
  * `ArcOf names r c` / `EntOf names r e` — library readers: record `r` denotes arc `c` / entry `e`;
  * `cooDim`, `entDim`           — highest index + 1 (0 for no records).
-/
import EtVerif.Proofs.FrontendLemmas

namespace EtVerif.C19
open EtVerif EtVerif.Fe EtVerif.FeL Scalar

variable {α : Type} [Scalar α]

set_option linter.unusedSectionVars false

/-! ### 1. indices in order of first appearance -/

/-- the list with duplicates removed, first occurrences kept -/
def firstAppearance (names : List String) : List String :=
  names.foldl (fun acc n => if n ∈ acc then acc else acc ++ [n]) []

theorem firstAppearance_eq (names : List String) :
    firstAppearance names = FeL.firstAppearance names := rfl

/-- `firstAppearance` is characterised by: no duplicates, the same members, and the survivors are
    ordered by their first position in the input. -/
theorem firstAppearance_spec (l : List String) :
    (firstAppearance l).Nodup ∧ (∀ x, x ∈ firstAppearance l ↔ x ∈ l) ∧
      (firstAppearance l).Pairwise (fun a b => l.idxOf a < l.idxOf b) :=
  ⟨firstAppearance_nodup l, fun _ => mem_firstAppearance, firstAppearance_ordered l⟩

/-- Name mode: running `getPeerIndex` over any sequence of fields, from a duplicate-free table,
    always succeeds; the final table is the first-appearance order of the old table followed by
    the seen names (duplicate-free, extends the old table, contains exactly the seen names), and
    each returned index is the position of the field's name in the *final* table. -/
theorem index_first_appearance (tbl : NameTable) (htbl : tbl.Nodup) (fs : List (Fe.Field α)) :
    ∃ tbl', indexAll false tbl fs =
        some (fs.map (fun f => ((tbl'.idxOf f.raw : Nat) : Int)), tbl') ∧
      tbl' = firstAppearance (tbl ++ fs.map (·.raw)) ∧ tbl'.Nodup ∧ tbl <+: tbl' ∧
      (∀ n, n ∈ tbl' ↔ n ∈ tbl ∨ n ∈ fs.map (·.raw)) ∧
      ∀ f ∈ fs, tbl'.idxOf f.raw < tbl'.length ∧ tbl'[tbl'.idxOf f.raw]? = some f.raw := by
  refine ⟨faFrom tbl (fs.map (·.raw)), indexAll_name tbl fs, ?_, faFrom_nodup htbl _,
    faFrom_prefix _ _, fun n => mem_faFrom, ?_⟩
  · rw [firstAppearance_eq]; exact faFrom_eq_firstAppearance htbl _
  · intro f hf
    have hm : f.raw ∈ faFrom tbl (fs.map (·.raw)) :=
      mem_faFrom.mpr (Or.inr (List.mem_map.mpr ⟨f, hf, rfl⟩))
    exact ⟨List.idxOf_lt_length_iff.mpr hm, List.getElem?_idxOf hm⟩

/-- Indices are stable: once `getPeerIndex` has answered `i` for a field, it answers `i` again,
    without changing the table, in every later state of the table. -/
theorem index_stable {tbl tbl1 tbl2 : NameTable} {f : Fe.Field α} {i : Int}
    (h : getPeerIndex false tbl f = some (i, tbl1)) (hext : tbl1 <+: tbl2) :
    getPeerIndex false tbl2 f = some (i, tbl2) := by
  rw [getPeerIndex_name] at h
  simp only [Option.some.injEq, Prod.mk.injEq] at h
  obtain ⟨rfl, rfl⟩ := h
  have hm1 : f.raw ∈ faStep tbl f.raw := mem_faStep.mpr (Or.inr rfl)
  have hm2 : f.raw ∈ tbl2 := hext.subset hm1
  rw [getPeerIndex_name]
  have : faStep tbl2 f.raw = tbl2 := by unfold faStep; rw [if_pos hm2]
  rw [this, idxOf_of_prefix hext hm1]

/-- the names the CLI looks up, in the order it looks them up: local trust (`from`, `to` record by
    record), then pre-trust, then initial trust; header records skipped -/
def nameStream (hasHeader : Bool) (lt : List (Record α)) (pt it : Option (List (Record α))) :
    List String :=
  mNames (dataRecs hasHeader lt) ++ optVNames hasHeader pt ++ optVNames hasHeader it

/-- The name table of the request is the first-appearance order of the whole name stream: one
    table is shared by the three files. -/
theorem request_peerIds {hasHeader : Bool} {lt : List (Record α)}
    {pt it : Option (List (Record α))} {req : CliRequest α}
    (h : cliBuildRequest false hasHeader lt pt it = some req) :
    req.peerIds = firstAppearance (nameStream hasHeader lt pt it) := by
  obtain ⟨t1, t2, h1, h2, h3⟩ := cliBuildRequest_inv h
  have e1 := (cliLoadMatrix_spec h1).2.1
  have e2 := loadOptV_tbl h2
  have e3 := loadOptV_tbl h3
  rw [e3, e2, e1]
  simp only [tblAfter, Bool.false_eq_true, if_false]
  rw [firstAppearance_eq]
  unfold FeL.firstAppearance nameStream
  rw [faFrom_append, faFrom_append]

/-- raw mode keeps the name table empty -/
theorem request_peerIds_raw {hasHeader : Bool} {lt : List (Record α)}
    {pt it : Option (List (Record α))} {req : CliRequest α}
    (h : cliBuildRequest true hasHeader lt pt it = some req) : req.peerIds = [] := by
  obtain ⟨t1, t2, h1, h2, h3⟩ := cliBuildRequest_inv h
  rw [loadOptV_tbl h3, loadOptV_tbl h2, (cliLoadMatrix_spec h1).2.1]
  rfl

/-! ### 2. index → name round trip -/

/-- `getPeerId` inverts `getPeerIndex`, in the table returned and in every later extension. -/
theorem id_index_roundtrip {tbl tbl1 tbl2 : NameTable} {f : Fe.Field α} {i : Int}
    (h : getPeerIndex false tbl f = some (i, tbl1)) (hext : tbl1 <+: tbl2) :
    getPeerId false tbl2 i = some f.raw := by
  rw [getPeerIndex_name] at h
  simp only [Option.some.injEq, Prod.mk.injEq] at h
  obtain ⟨rfl, rfl⟩ := h
  have hm1 : f.raw ∈ faStep tbl f.raw := mem_faStep.mpr (Or.inr rfl)
  have hm2 : f.raw ∈ tbl2 := hext.subset hm1
  unfold getPeerId
  simp only [Bool.false_eq_true, if_false, Int.toNat_natCast]
  rw [← idxOf_of_prefix hext hm1]
  have hlt := List.idxOf_lt_length_iff.mpr hm2
  rw [if_pos (by simp [hlt])]
  exact List.getElem?_idxOf hm2

/-- the same, phrased with the index relation used by `request_exact` -/
theorem id_of_IdxOf {tbl : NameTable} {f : Fe.Field α} {i : Int} (h : IdxOf false tbl f i) :
    getPeerId false tbl i = some f.raw := by
  unfold IdxOf at h
  simp only [Bool.false_eq_true, if_false] at h
  obtain ⟨hm, rfl⟩ := h
  unfold getPeerId
  simp only [Bool.false_eq_true, if_false, Int.toNat_natCast]
  rw [if_pos (by simp [List.idxOf_lt_length_iff.mpr hm])]
  exact List.getElem?_idxOf hm

/-- `getPeerId` in name mode: exactly the in-range indices have a name -/
theorem getPeerId_eq_some_iff (tbl : NameTable) (i : Int) (n : String) :
    getPeerId false tbl i = some n ↔ 0 ≤ i ∧ tbl[i.toNat]? = some n := by
  unfold getPeerId
  simp only [Bool.false_eq_true, if_false, Bool.and_eq_true, decide_eq_true_eq]
  constructor
  · intro h
    split at h
    · rename_i hc; exact ⟨hc.1, h⟩
    · cases h
  · rintro ⟨h0, hn⟩
    have hlt : i.toNat < tbl.length := by
      by_contra hge
      rw [List.getElem?_eq_none_iff.mpr (by omega)] at hn
      cases hn
    rw [if_pos ⟨h0, hlt⟩]; exact hn

theorem getPeerId_eq_none_iff (tbl : NameTable) (i : Int) :
    getPeerId false tbl i = none ↔ i < 0 ∨ tbl.length ≤ i.toNat := by
  unfold getPeerId
  simp only [Bool.false_eq_true, if_false, Bool.and_eq_true, decide_eq_true_eq]
  constructor
  · intro h
    split at h
    · rename_i hc
      rw [List.getElem?_eq_getElem hc.2] at h; cases h
    · rename_i hc; omega
  · intro h
    rw [if_neg (by omega)]

/-- `writeOutput`: every response entry is written with the original name of its index and its
    value unchanged … -/
theorem output_exact (tbl : NameTable) (entries : List (Int × α)) (out : List (String × α)) :
    cliOutput false tbl entries = some out ↔
      List.Forall₂ (fun e o => 0 ≤ e.1 ∧ tbl[e.1.toNat]? = some o.1 ∧ o.2 = e.2) entries out := by
  unfold cliOutput
  rw [mapM_eq_some_iff]
  have key : ∀ (e : Int × α) (o : String × α),
      ((fun (x : Int × α) => (getPeerId false tbl x.1).map fun n => (n, x.2)) e = some o) ↔
        (0 ≤ e.1 ∧ tbl[e.1.toNat]? = some o.1 ∧ o.2 = e.2) := by
    intro e o
    obtain ⟨i, v⟩ := e
    obtain ⟨n, w⟩ := o
    simp only
    cases hg : getPeerId false tbl i with
    | none =>
      simp only [Option.map_none, reduceCtorEq, false_iff]
      rintro ⟨h0, hn, _⟩
      rw [(getPeerId_eq_some_iff tbl i n).mpr ⟨h0, hn⟩] at hg
      cases hg
    | some n' =>
      obtain ⟨h0, hn⟩ := (getPeerId_eq_some_iff tbl i n').mp hg
      simp only [Option.map_some, Option.some.injEq, Prod.mk.injEq]
      constructor
      · rintro ⟨rfl, rfl⟩; exact ⟨h0, hn, rfl⟩
      · rintro ⟨_, hn', rfl⟩
        rw [hn] at hn'
        exact ⟨Option.some.inj hn', rfl⟩
  constructor
  · exact List.Forall₂.imp (fun e o h => (key e o).mp h)
  · exact List.Forall₂.imp (fun e o h => (key e o).mpr h)

/-- … and an index outside the table (negative, or beyond the last name) is an error: nothing
    is written. -/
theorem output_unknown_index (tbl : NameTable) (entries : List (Int × α)) :
    cliOutput false tbl entries = none ↔ ∃ e ∈ entries, e.1 < 0 ∨ tbl.length ≤ e.1.toNat := by
  unfold cliOutput
  rw [mapM_eq_none_iff]
  constructor
  · rintro ⟨⟨i, v⟩, he, h⟩
    refine ⟨(i, v), he, ?_⟩
    simp only at h ⊢
    cases hg : getPeerId false tbl i with
    | none => exact (getPeerId_eq_none_iff tbl i).mp hg
    | some n => rw [hg] at h; cases h
  · rintro ⟨⟨i, v⟩, he, h⟩
    refine ⟨(i, v), he, ?_⟩
    simp only at h ⊢
    rw [(getPeerId_eq_none_iff tbl i).mpr h]
    rfl

/-- Round trip through a request: the index the CLI sent for a field is written back as that
    field's name. -/
theorem output_roundtrip {tbl : NameTable} {f : Fe.Field α} {i : Int} (h : IdxOf false tbl f i)
    (v : α) : cliOutput false tbl [(i, v)] = some [(f.raw, v)] := by
  rw [output_exact]
  have := (getPeerId_eq_some_iff tbl i f.raw).mp (id_of_IdxOf h)
  exact List.Forall₂.cons ⟨this.1, this.2, rfl⟩ List.Forall₂.nil

/-- raw mode writes the decimal rendering of the index -/
theorem output_raw (tbl : NameTable) (entries : List (Int × α)) :
    cliOutput true tbl entries = some (entries.map fun e => (toString e.1, e.2)) := by
  unfold cliOutput
  rw [mapM_eq_some_iff]
  induction entries with
  | nil => exact List.Forall₂.nil
  | cons e es ih => exact List.Forall₂.cons rfl ih

/-! ### 3. the request contains exactly the CSV's arcs, values and sizes -/

/-- The request built from the CSV files contains, record by record, exactly the listed arcs:
    entry `k` of the inline local trust is `(idx from, idx to, value)` of data record `k`
    (`value` = the parsed third field, `Scalar.one` for a two-field record); the inline size is
    the highest index used + 1; likewise for the pre-trust and initial-trust vectors (one- or
    two-field records).  `idx` is relative to the final, shared name table `req.peerIds`
    (name mode) resp. the `ParseInt` value (raw mode) — see `FeL.IdxOf`. -/
theorem request_exact {raw hasHeader : Bool} {lt : List (Record α)}
    {pt it : Option (List (Record α))} {req : CliRequest α}
    (h : cliBuildRequest raw hasHeader lt pt it = some req) :
    List.Forall₂ (MRel raw req.peerIds) (dataRecs hasHeader lt) req.localTrust.entries ∧
      MSizeExact req.localTrust ∧
      VecExact raw hasHeader req.peerIds pt req.preTrust ∧
      VecExact raw hasHeader req.peerIds it req.initialTrust := by
  obtain ⟨t1, t2, h1, h2, h3⟩ := cliBuildRequest_inv h
  obtain ⟨_, e1, hrel, hsz, h0⟩ := cliLoadMatrix_spec h1
  have p2 : t1 <+: t2 := by rw [loadOptV_tbl h2]; exact tblAfter_prefix _ _ _
  have p3 : t2 <+: req.peerIds := by rw [loadOptV_tbl h3]; exact tblAfter_prefix _ _ _
  refine ⟨?_, mSizeExact_of_fold hsz h0, vecExact_of_load h2 p3,
    vecExact_of_load h3 (List.prefix_refl _)⟩
  refine List.Forall₂.imp ?_ hrel
  rintro r e ⟨f0, f1, rest, hr, hi, hj, hv⟩
  exact ⟨f0, f1, rest, hr, hi.mono (p2.trans p3), hj.mono (p2.trans p3), hv⟩

/-- In name mode every index in the request is the position of the record's name in
    `req.peerIds`, so `writeOutput` maps it back to that name (`id_of_IdxOf`). -/
theorem request_indices_roundtrip {hasHeader : Bool} {lt : List (Record α)}
    {pt it : Option (List (Record α))} {req : CliRequest α}
    (h : cliBuildRequest false hasHeader lt pt it = some req) :
    List.Forall₂ (fun r e => ∃ f0 f1 rest, r = f0 :: f1 :: rest ∧
        getPeerId false req.peerIds e.1 = some f0.raw ∧
        getPeerId false req.peerIds e.2.1 = some f1.raw)
      (dataRecs hasHeader lt) req.localTrust.entries := by
  refine List.Forall₂.imp ?_ (request_exact h).1
  rintro r e ⟨f0, f1, rest, hr, hi, hj, _⟩
  exact ⟨f0, f1, rest, hr, id_of_IdxOf hi, id_of_IdxOf hj⟩

/-! ### 4. malformed CLI input is refused -/

/-- a local-trust CSV the CLI must refuse: a record (the header included) with a field count
    outside 2..3, no data record, a value field that is not a float, or — raw mode — an index
    field that is not a non-negative integer literal -/
def BadMatrixFile (raw hasHeader : Bool) (recs : List (Record α)) : Prop :=
  (∃ r ∈ recs, r.length < 2 ∨ 3 < r.length) ∨
  dataRecs hasHeader recs = [] ∨
  (∃ r ∈ dataRecs hasHeader recs, ∃ f0 f1 f2, r = [f0, f1, f2] ∧ f2.float = none) ∨
  (raw = true ∧ ∃ r ∈ dataRecs hasHeader recs, ∃ f ∈ r.take 2,
    ∀ i, f.parseInt0 = some i → i < 0)

/-- a trust-vector CSV the CLI must refuse: field count outside 1..2 (header included), no data
    record, a value that is not a float or is negative, or a bad raw index -/
def BadVectorFile (raw hasHeader : Bool) (recs : List (Record α)) : Prop :=
  (∃ r ∈ recs, r.length < 1 ∨ 2 < r.length) ∨
  dataRecs hasHeader recs = [] ∨
  (∃ r ∈ dataRecs hasHeader recs, ∃ f0 f1, r = [f0, f1] ∧
    (f1.float = none ∨ ∃ v, f1.float = some v ∧ lt v zero = true)) ∨
  (raw = true ∧ ∃ r ∈ dataRecs hasHeader recs, ∃ f ∈ r.take 1,
    ∀ i, f.parseInt0 = some i → i < 0)

theorem cliLoadMatrix_bad {raw hasHeader : Bool} {recs : List (Record α)}
    (hb : BadMatrixFile raw hasHeader recs) (tbl : NameTable) :
    cliLoadMatrix raw hasHeader recs tbl = none := by
  cases hl : cliLoadMatrix raw hasHeader recs tbl with
  | none => rfl
  | some x =>
    exfalso
    obtain ⟨m, tbl'⟩ := x
    obtain ⟨hlen, _, hrel, hsz, h0⟩ := cliLoadMatrix_spec hl
    rcases hb with ⟨r, hr, hbad⟩ | hempty | ⟨r, hr, f0, f1, f2, rfl, hf⟩ | ⟨rfl, r, hr, f, hf, hneg⟩
    · have := hlen r hr; omega
    · rw [hempty] at hrel
      rw [hsz, List.forall₂_nil_left_iff.mp hrel] at h0
      exact h0 rfl
    · obtain ⟨e, _, g0, g1, rest, hreq, _, _, hv⟩ := forall₂_mem_left hrel hr
      simp only [List.cons.injEq] at hreq
      obtain ⟨rfl, rfl, rfl⟩ := hreq
      rcases hv with ⟨hnil, _⟩ | ⟨g2, hg, hfl⟩
      · cases hnil
      · simp only [List.cons.injEq, and_true] at hg
        subst hg
        rw [hf] at hfl; cases hfl
    · obtain ⟨e, _, g0, g1, rest, rfl, hi, hj, _⟩ := forall₂_mem_left hrel hr
      simp only [List.take_succ_cons, List.take_zero, List.mem_cons, List.not_mem_nil,
        or_false] at hf
      rcases hf with rfl | rfl
      · obtain ⟨h1, h2⟩ := idxOf_raw_nonneg hi
        have := hneg _ h1; omega
      · obtain ⟨h1, h2⟩ := idxOf_raw_nonneg hj
        have := hneg _ h1; omega

theorem cliLoadVector_bad {raw hasHeader : Bool} {recs : List (Record α)}
    (hb : BadVectorFile raw hasHeader recs) (tbl : NameTable) :
    cliLoadVector raw hasHeader recs tbl = none := by
  cases hl : cliLoadVector raw hasHeader recs tbl with
  | none => rfl
  | some x =>
    exfalso
    obtain ⟨m, tbl'⟩ := x
    obtain ⟨hlen, _, hrel, hsz, h0⟩ := cliLoadVector_spec hl
    rcases hb with ⟨r, hr, hbad⟩ | hempty | ⟨r, hr, f0, f1, rfl, hf⟩ | ⟨rfl, r, hr, f, hf, hneg⟩
    · have := hlen r hr; omega
    · rw [hempty] at hrel
      rw [hsz, List.forall₂_nil_left_iff.mp hrel] at h0
      exact h0 rfl
    · obtain ⟨e, _, g0, rest, hreq, _, hlt, hv⟩ := forall₂_mem_left hrel hr
      simp only [List.cons.injEq] at hreq
      obtain ⟨rfl, rfl⟩ := hreq
      rcases hv with ⟨hnil, _⟩ | ⟨g1, hg, hfl⟩
      · cases hnil
      · simp only [List.cons.injEq, and_true] at hg
        subst hg
        rcases hf with hf | ⟨v, hf, hneg⟩
        · rw [hf] at hfl; cases hfl
        · rw [hf] at hfl
          cases hfl
          rw [hlt] at hneg; cases hneg
    · obtain ⟨e, _, g0, rest, rfl, hi, _⟩ := forall₂_mem_left hrel hr
      simp only [List.take_succ_cons, List.take_zero, List.mem_cons, List.not_mem_nil,
        or_false] at hf
      subst hf
      obtain ⟨h1, h2⟩ := idxOf_raw_nonneg hi
      have := hneg _ h1; omega

/-- Any malformed file makes the CLI report an error and send nothing. -/
theorem cli_malformed (raw hasHeader : Bool) (lt : List (Record α))
    (pt it : Option (List (Record α)))
    (h : BadMatrixFile raw hasHeader lt ∨
      (∃ recs, pt = some recs ∧ BadVectorFile raw hasHeader recs) ∨
      (∃ recs, it = some recs ∧ BadVectorFile raw hasHeader recs)) :
    cliBuildRequest raw hasHeader lt pt it = none := by
  cases hr : cliBuildRequest raw hasHeader lt pt it with
  | none => rfl
  | some req =>
    exfalso
    obtain ⟨t1, t2, h1, h2, h3⟩ := cliBuildRequest_inv hr
    rcases h with hb | ⟨recs, rfl, hb⟩ | ⟨recs, rfl, hb⟩
    · rw [cliLoadMatrix_bad hb] at h1; cases h1
    · rcases loadOptV_spec h2 with ⟨hn, _⟩ | ⟨recs', v, hs, _, hl⟩
      · cases hn
      · cases hs
        rw [cliLoadVector_bad hb] at hl; cases hl
    · rcases loadOptV_spec h3 with ⟨hn, _⟩ | ⟨recs', v, hs, _, hl⟩
      · cases hn
      · cases hs
        rw [cliLoadVector_bad hb] at hl; cases hl

/-! ### 4'. … and nothing else is refused -/

/-- The matrix loader refuses exactly the malformed files. -/
theorem cliLoadMatrix_none_iff (raw hasHeader : Bool) (recs : List (Record α)) (tbl : NameTable) :
    cliLoadMatrix raw hasHeader recs tbl = none ↔ BadMatrixFile raw hasHeader recs := by
  constructor
  · intro h
    by_contra hb
    unfold BadMatrixFile at hb
    simp only [not_or, not_exists, not_and] at hb
    obtain ⟨h1, h2, h3, h4⟩ := hb
    obtain ⟨x, hx⟩ := loadM_go_isSome raw recs hasHeader tbl 0 []
      (fun r hr => by have := h1 r hr; omega)
      (fun r hr => ⟨fun f0 f1 f2 hreq => h3 r hr f0 f1 f2 hreq, fun hraw f hf => by
        have := h4 hraw r hr f hf
        by_contra hc
        apply this
        intro i hi
        by_contra hlt
        exact hc ⟨i, hi, by omega⟩⟩)
      (Or.inr h2)
    unfold cliLoadMatrix at h
    rw [hx] at h
    cases h
  · intro hb; exact cliLoadMatrix_bad hb tbl

/-- The vector loader refuses exactly the malformed files (for a scalar type whose `1` is not
    negative — the loader applies its sign check to the default level too). -/
theorem cliLoadVector_none_iff (h1 : lt (one : α) zero = false) (raw hasHeader : Bool)
    (recs : List (Record α)) (tbl : NameTable) :
    cliLoadVector raw hasHeader recs tbl = none ↔ BadVectorFile raw hasHeader recs := by
  constructor
  · intro h
    by_contra hb
    unfold BadVectorFile at hb
    simp only [not_or, not_exists, not_and] at hb
    obtain ⟨g1, g2, g3, g4⟩ := hb
    obtain ⟨x, hx⟩ := loadV_go_isSome raw recs hasHeader tbl 0 []
      (fun r hr => by have := g1 r hr; omega)
      (fun r hr => ⟨fun f0 f1 hreq => by
          have := g3 r hr f0 f1 hreq
          cases hf : f1.float with
          | none => exact absurd hf this.1
          | some v =>
            refine ⟨v, rfl, ?_⟩
            cases hlt : lt v zero with
            | false => rfl
            | true => exact absurd hlt (this.2 v hf),
        fun _ _ => h1, fun hraw f hf => by
          have := g4 hraw r hr f hf
          by_contra hc
          apply this
          intro i hi
          by_contra hlt
          exact hc ⟨i, hi, by omega⟩⟩)
      (Or.inr g2)
    unfold cliLoadVector at h
    rw [hx] at h
    cases h
  · intro hb; exact cliLoadVector_bad hb tbl

/-- The CLI reports an error exactly for malformed input. -/
theorem cli_refuses_iff (h1 : lt (one : α) zero = false) (raw hasHeader : Bool)
    (lt_ : List (Record α)) (pt it : Option (List (Record α))) :
    cliBuildRequest raw hasHeader lt_ pt it = none ↔
      BadMatrixFile raw hasHeader lt_ ∨
      (∃ recs, pt = some recs ∧ BadVectorFile raw hasHeader recs) ∨
      (∃ recs, it = some recs ∧ BadVectorFile raw hasHeader recs) := by
  constructor
  · intro h
    by_contra hb
    simp only [not_or, not_exists, not_and] at hb
    obtain ⟨b1, b2, b3⟩ := hb
    have optSome : ∀ (o : Option (List (Record α))) (t : NameTable),
        (∀ recs, o = some recs → ¬ BadVectorFile raw hasHeader recs) →
        ∃ x, loadOptV raw hasHeader o t = some x := by
      intro o t ho
      cases o with
      | none => exact ⟨_, rfl⟩
      | some recs =>
        cases hl : cliLoadVector raw hasHeader recs t with
        | none => exact absurd ((cliLoadVector_none_iff h1 raw hasHeader recs t).mp hl) (ho recs rfl)
        | some x => exact ⟨(some x.1, x.2), by simp only [loadOptV, hl, Option.map_some]⟩
    rw [cliBuildRequest_eq] at h
    cases hm : cliLoadMatrix raw hasHeader lt_ [] with
    | none => exact b1 ((cliLoadMatrix_none_iff raw hasHeader lt_ []).mp hm)
    | some x =>
      obtain ⟨m, t1⟩ := x
      rw [hm] at h
      obtain ⟨⟨pv, t2⟩, hp⟩ := optSome pt t1 b2
      obtain ⟨⟨iv, t3⟩, hi⟩ := optSome it t2 b3
      simp only [hp, hi] at h
      cases h
  · exact cli_malformed raw hasHeader lt_ pt it

/-! ### 5. the library CSV readers -/

/-- `ReadPeerNamesFromCsv`: the result is exactly the list of first fields, which must be
    duplicate-free; … -/
theorem readPeerNames_exact (recs : List (Record α)) (ns : List String) :
    readPeerNames recs [] = some ns ↔
      (∀ r ∈ recs, r ≠ []) ∧ ns = recs.map firstName ∧ ns.Nodup := by
  rw [readPeerNames_acc]
  simp only [List.reverse_nil, List.nil_append, List.not_mem_nil, not_false_eq_true, implies_true,
    and_true]
  constructor
  · rintro ⟨h1, rfl, h3⟩; exact ⟨h1, rfl, h3⟩
  · rintro ⟨h1, rfl, h3⟩; exact ⟨h1, rfl, h3⟩

/-- … it is an error iff a record is empty or a name occurs twice. -/
theorem readPeerNames_malformed (recs : List (Record α)) :
    readPeerNames recs [] = none ↔ (∃ r ∈ recs, r = []) ∨ ¬ (recs.map firstName).Nodup := by
  cases h : readPeerNames recs [] with
  | none =>
    simp only [true_iff]
    by_contra hc
    simp only [not_or, not_exists, not_and, not_not] at hc
    have := (readPeerNames_exact recs (recs.map firstName)).mpr ⟨fun r hr => hc.1 r hr, rfl, hc.2⟩
    rw [h] at this; cases this
  | some ns =>
    simp only [reduceCtorEq, false_iff, not_or, not_exists, not_and, not_not]
    obtain ⟨h1, rfl, h3⟩ := (readPeerNames_exact recs ns).mp h
    exact ⟨h1, h3⟩

/-- Names resolve through the peer list: the index of a name is its (first) position. -/
theorem parsePeerId_by_name (ns : List String) (f : Fe.Field α) (i : Nat) :
    parsePeerId (some ns) f = some i ↔
      i < ns.length ∧ ns[i]? = some f.raw ∧ ∀ j, j < i → ns[j]? ≠ some f.raw :=
  parsePeerId_names ns f i

/-- Without a peer list an index is a non-negative integer literal. -/
theorem parsePeerId_by_index (f : Fe.Field α) (i : Nat) :
    parsePeerId none f = some i ↔ ∃ z : Int, f.atoi = some z ∧ 0 ≤ z ∧ z.toNat = i :=
  parsePeerId_none f i

/-- the dimension the readers use: highest index + 1, 0 without records; every arc is in range
    (so `NewCSRMatrix` cannot index outside its row table) -/
theorem cooDim_spec (coos : List (Coo α)) :
    (∀ c ∈ coos, c.row < cooDim coos ∧ c.col < cooDim coos) ∧ (coos = [] → cooDim coos = 0) ∧
      (coos ≠ [] → ∃ c ∈ coos, c.row + 1 = cooDim coos ∨ c.col + 1 = cooDim coos) :=
  ⟨fun _ hc => lt_cooDim hc, fun h => by rw [h]; rfl, cooDim_attained⟩

theorem entDim_spec (es : List (Entry α)) :
    (∀ e ∈ es, e.idx < entDim es) ∧ (es = [] → entDim es = 0) ∧
      (es ≠ [] → ∃ e ∈ es, e.idx + 1 = entDim es) :=
  ⟨fun _ he => lt_entDim he, fun h => by rw [h]; rfl, entDim_attained⟩

/-- `ReadLocalTrustFromCsv` succeeds iff every record denotes an arc, and then it is exactly
    `NewCSRMatrix(dim, dim, arcs, false)` over the listed arcs in file order, `dim` = highest
    index + 1 (`cooDim_spec`). -/
theorem reader_exact_localTrust (names : Option (List String)) (recs : List (Record α))
    (m : CSM α) :
    readLocalTrust names recs = some m ↔
      ∃ coos, List.Forall₂ (ArcOf names) recs coos ∧
        m = CSM.newCSR (cooDim coos) (cooDim coos) coos false := by
  rw [readLocalTrust_eq]
  constructor
  · intro h
    cases hm : recs.mapM (ltParse names) with
    | none => rw [hm] at h; cases h
    | some coos =>
      rw [hm] at h
      simp only [Option.map_some, Option.some.injEq] at h
      refine ⟨coos, ?_, h.symm⟩
      exact List.Forall₂.imp (fun r c hrc => (ltParse_eq_some_iff names r c).mp hrc)
        ((mapM_eq_some_iff _ _ _).mp hm)
  · rintro ⟨coos, hrel, rfl⟩
    have : recs.mapM (ltParse names) = some coos :=
      (mapM_eq_some_iff _ _ _).mpr
        (List.Forall₂.imp (fun r c hrc => (ltParse_eq_some_iff names r c).mpr hrc) hrel)
    rw [this]; rfl

/-- … and fails iff some record is malformed: fewer than two fields, a `from`/`to` that does not
    resolve (unknown name, resp. not a non-negative integer literal), or a third field that is
    not a float. -/
theorem reader_malformed_localTrust (names : Option (List String)) (recs : List (Record α)) :
    readLocalTrust names recs = none ↔
      ∃ r ∈ recs, r.length < 2 ∨ ∃ f0 f1 rest, r = f0 :: f1 :: rest ∧
        (parsePeerId names f0 = none ∨ parsePeerId names f1 = none ∨
          ∃ f2 rest', rest = f2 :: rest' ∧ f2.float = none) := by
  rw [readLocalTrust_eq, Option.map_eq_none_iff, mapM_eq_none_iff]
  constructor
  · rintro ⟨r, hr, h⟩; exact ⟨r, hr, (ltParse_eq_none_iff names r).mp h⟩
  · rintro ⟨r, hr, h⟩; exact ⟨r, hr, (ltParse_eq_none_iff names r).mpr h⟩

/-- `ReadTrustVectorFromCsv`: exactly `NewVector(dim, entries)` over the listed entries. -/
theorem reader_exact_trustVector (names : Option (List String)) (recs : List (Record α))
    (v : Vec α) :
    readTrustVector names recs = some v ↔
      ∃ es, List.Forall₂ (EntOf names) recs es ∧ v = Vec.new (entDim es) es := by
  rw [readTrustVector_eq]
  constructor
  · intro h
    cases hm : recs.mapM (tvParse names) with
    | none => rw [hm] at h; cases h
    | some es =>
      rw [hm] at h
      simp only [Option.map_some, Option.some.injEq] at h
      refine ⟨es, ?_, h.symm⟩
      exact List.Forall₂.imp (fun r c hrc => (tvParse_eq_some_iff names r c).mp hrc)
        ((mapM_eq_some_iff _ _ _).mp hm)
  · rintro ⟨es, hrel, rfl⟩
    have : recs.mapM (tvParse names) = some es :=
      (mapM_eq_some_iff _ _ _).mpr
        (List.Forall₂.imp (fun r c hrc => (tvParse_eq_some_iff names r c).mpr hrc) hrel)
    rw [this]; rfl

theorem reader_malformed_trustVector (names : Option (List String)) (recs : List (Record α)) :
    readTrustVector names recs = none ↔
      ∃ r ∈ recs, r = [] ∨ ∃ f0 rest, r = f0 :: rest ∧
        (parsePeerId names f0 = none ∨ ∃ f1 rest', rest = f1 :: rest' ∧ f1.float = none) := by
  rw [readTrustVector_eq, Option.map_eq_none_iff, mapM_eq_none_iff]
  constructor
  · rintro ⟨r, hr, h⟩; exact ⟨r, hr, (tvParse_eq_none_iff names r).mp h⟩
  · rintro ⟨r, hr, h⟩; exact ⟨r, hr, (tvParse_eq_none_iff names r).mpr h⟩

/-! ### non-vacuity: concrete CSV record lists (at `α := Rat`) -/

section examples

private def fld (s : String) (a : Option Int := none) (x : Option Rat := none) : Fe.Field Rat :=
  ⟨s, a, a, x⟩

/-- local trust `alice,bob,2` / `bob,carol` / `alice,carol,1/2` -/
private def ltRecs : List (Record Rat) :=
  [[fld "alice", fld "bob", fld "2" (some 2) (some 2)],
   [fld "bob", fld "carol"],
   [fld "alice", fld "carol", fld "0.5" none (some (1/2))]]
/-- pre-trust `carol` / `dave,3` -/
private def ptRecs : List (Record Rat) := [[fld "carol"], [fld "dave", fld "3" (some 3) (some 3)]]
private def hdrM : Record Rat := [fld "from", fld "to", fld "value"]
private def hdrV : Record Rat := [fld "peer", fld "value"]

private def viewM (r : Option (CliRequest Rat)) : Option (Int × List (Int × Int × Rat)) :=
  r.map fun q => (q.localTrust.size, q.localTrust.entries)
private def viewV (r : Option (CliRequest Rat)) : Option (Option (Int × List (Int × Rat))) :=
  r.map fun q => q.preTrust.map (fun v => (v.size, v.entries))
private def viewT (r : Option (CliRequest Rat)) : Option (List String) := r.map (·.peerIds)

/-- a request built in name mode, header records skipped, table shared by both files -/
example : viewM (cliBuildRequest false true (hdrM :: ltRecs) (some (hdrV :: ptRecs)) none) =
    some (3, [(0, 1, 2), (1, 2, 1), (0, 2, 1/2)]) := by decide +kernel
example : viewV (cliBuildRequest false true (hdrM :: ltRecs) (some (hdrV :: ptRecs)) none) =
    some (some (4, [(2, 1), (3, 3)])) := by decide +kernel
example : viewT (cliBuildRequest false true (hdrM :: ltRecs) (some (hdrV :: ptRecs)) none) =
    some ["alice", "bob", "carol", "dave"] := by decide +kernel
/-- raw mode: the indices are the `ParseInt` values, no table -/
example : viewM (cliBuildRequest true false [[fld "4" (some 4), fld "0" (some 0)]] none none) =
    some (5, [(4, 0, 1)]) := by decide +kernel

example : firstAppearance (nameStream true (hdrM :: ltRecs) (some (hdrV :: ptRecs)) none) =
    ["alice", "bob", "carol", "dave"] := by decide +kernel

/-- the output maps indices back to names; an unknown index is an error -/
example : cliOutput false ["alice", "bob", "carol", "dave"] [(2, (1/2 : Rat)), (0, 1/4)] =
    some [("carol", 1/2), ("alice", 1/4)] := by decide +kernel
example : cliOutput false ["alice", "bob"] [(2, (1 : Rat))] = none := by decide +kernel
example : cliOutput false ["alice", "bob"] [(-1, (1 : Rat))] = none := by decide +kernel

/-- malformed files are refused: header with 4 fields, no data records, non-numeric value,
    negative vector value, negative raw index -/
example : BadMatrixFile false true ([fld "a", fld "b", fld "c", fld "d"] :: ltRecs) :=
  Or.inl ⟨_, List.mem_cons_self, Or.inr (by decide)⟩
example : cliBuildRequest false true ([fld "a", fld "b", fld "c", fld "d"] :: ltRecs) none none
    = none := by decide +kernel
example : cliBuildRequest false true [hdrM] none none = none := by decide +kernel
example : cliBuildRequest false false [[fld "a", fld "b", fld "x"]] none none = none := by
  decide +kernel
example : cliBuildRequest false false ltRecs (some [[fld "a", fld "-1" (some (-1)) (some (-1))]])
    none = none := by decide +kernel
example : cliBuildRequest true false [[fld "-1" (some (-1)), fld "0" (some 0)]] none none = none := by
  decide +kernel

/-- the library readers: by name … -/
example : (readLocalTrust (some ["alice", "bob", "carol"]) ltRecs).map (fun m => (m.major, m.minor,
      m.rows.map (fun r => r.map fun e => (e.idx, e.val)))) =
    some (3, 3, [[(1, 2), (2, 1/2)], [(2, 1)], []]) := by decide +kernel
/-- … by index … -/
example : (readTrustVector none [[fld "2" (some 2)], [fld "0" (some 0), fld "3" none (some 3)]]).map
      (fun v => (v.dim, v.entries.map fun e => (e.idx, e.val))) =
    some (3, [(0, 3), (2, 1)]) := by decide +kernel
/-- … and their errors: unknown name, negative index, duplicate / empty name record -/
example : readLocalTrust (some ["alice", "bob"]) ltRecs = none := by decide +kernel
example : readTrustVector none [[fld "-2" (some (-2))]] = none := by decide +kernel
example : readPeerNames ([[fld "a"], [fld "b"], [fld "a"]] : List (Record Rat)) [] = none := by
  decide +kernel
example : readPeerNames ([[fld "a"], []] : List (Record Rat)) [] = none := by decide +kernel
example : readPeerNames ([[fld "a", fld "x"], [fld "b"]] : List (Record Rat)) [] = some ["a", "b"] := by
  decide +kernel

end examples

end EtVerif.C19
