/-
  Tie theorem: a structural fact regenerated from /repo's source by tools/gofacts on every run
  (Gen/Facts.lean) must satisfy the predicate the model-level theorems are stated for.  The `decide`
  below FAILS (and the check reports it) as soon as the extracted shape stops satisfying it.
-/
import EtVerif.Gen.Facts

namespace EtVerif.Ties
open EtVerif

/-- C15: the partiality-site inventory (index / slice / deref / make / panic expressions per function
    of the front-end and core packages) equals the audited one below.  Every site listed here is
    covered by a guard theorem of Props/C15.lean or lies behind a validated value; a site that
    appears, disappears or moves makes this `rfl` fail and sends the check to its runtime search. -/
def auditedSites : List Site :=
  [⟨"cmd/eigentrust/cmd/basiccompute.go", "getPeerId", "index", 1⟩,
   ⟨"cmd/eigentrust/cmd/basiccompute.go", "getPeerIndex", "index", 2⟩,
   ⟨"cmd/eigentrust/cmd/basiccompute.go", "loadInlineTrustMatrixCsv", "index", 6⟩,
   ⟨"cmd/eigentrust/cmd/basiccompute.go", "loadInlineTrustVectorCsv", "index", 4⟩,
   ⟨"cmd/eigentrust/cmd/basiccompute.go", "runBasicCompute", "deref", 1⟩,
   ⟨"internal/playground/engine.go", "ByScore.Less", "index", 2⟩,
   ⟨"internal/playground/engine.go", "ByScore.Swap", "index", 4⟩,
   ⟨"internal/playground/engine.go", "calculate", "deref", 2⟩,
   ⟨"internal/playground/engine.go", "calculate", "index", 4⟩,
   ⟨"internal/playground/engine.go", "calculate", "make", 1⟩,
   ⟨"internal/playground/engine.go", "handle", "deref", 1⟩,
   ⟨"pkg/basic/eigentrust.go", "Canonicalize", "index", 1⟩,
   ⟨"pkg/basic/eigentrust.go", "Compute", "deref", 3⟩,
   ⟨"pkg/basic/eigentrust.go", "DiscountTrustVector", "index", 4⟩,
   ⟨"pkg/basic/eigentrust.go", "FlatTailChecker.Update", "slice", 2⟩,
   ⟨"pkg/basic/localtrust.go", "ExtractDistrust", "index", 5⟩,
   ⟨"pkg/basic/localtrust.go", "ExtractDistrust", "slice", 1⟩,
   ⟨"pkg/basic/localtrust.go", "ReadLocalTrustFromCsv", "index", 6⟩,
   ⟨"pkg/basic/peernames.go", "ParsePeerId", "index", 1⟩,
   ⟨"pkg/basic/peernames.go", "ReadPeerNamesFromCsv", "index", 3⟩,
   ⟨"pkg/basic/server/grpc/biguintqwords.go", "BigUint2Qwords", "index", 1⟩,
   ⟨"pkg/basic/server/grpc/biguintqwords.go", "BigUint2Qwords", "make", 1⟩,
   ⟨"pkg/basic/server/grpc/compute.go", "ComputeServer.BasicCompute", "deref", 26⟩,
   ⟨"pkg/basic/server/grpc/trustmatrix.go", "TrustMatrixServer.Flush", "deref", 2⟩,
   ⟨"pkg/basic/server/grpc/trustmatrix.go", "TrustMatrixServer.Get", "deref", 2⟩,
   ⟨"pkg/basic/server/grpc/trustmatrix.go", "TrustMatrixServer.Update", "deref", 2⟩,
   ⟨"pkg/basic/server/grpc/trustvector.go", "TrustVectorServer.Flush", "deref", 2⟩,
   ⟨"pkg/basic/server/grpc/trustvector.go", "TrustVectorServer.Get", "deref", 2⟩,
   ⟨"pkg/basic/server/grpc/trustvector.go", "TrustVectorServer.Update", "deref", 3⟩,
   ⟨"pkg/basic/server/namedtrust.go", "NamedTrustMatrices.Merge", "deref", 2⟩,
   ⟨"pkg/basic/server/namedtrust.go", "NamedTrustVectors.Merge", "deref", 2⟩,
   ⟨"pkg/basic/server/oapi/openapi.go", "StrictServerImpl.GetLocalTrust", "deref", 1⟩,
   ⟨"pkg/basic/server/oapi/openapi.go", "StrictServerImpl.UpdateLocalTrust", "deref", 5⟩,
   ⟨"pkg/basic/server/oapi/openapi.go", "StrictServerImpl.compute", "deref", 20⟩,
   ⟨"pkg/basic/server/oapi/openapi.go", "StrictServerImpl.getLocalTrust", "deref", 2⟩,
   ⟨"pkg/basic/server/oapi/openapi.go", "StrictServerImpl.loadCsvTrustMatrix", "index", 6⟩,
   ⟨"pkg/basic/server/oapi/openapi.go", "StrictServerImpl.loadCsvTrustVector", "index", 4⟩,
   ⟨"pkg/basic/server/oapi/openapi.go", "StrictServerImpl.loadStoredTrustMatrix", "deref", 3⟩,
   ⟨"pkg/basic/trustvector.go", "CanonicalizeTrustVector", "index", 2⟩,
   ⟨"pkg/basic/trustvector.go", "CanonicalizeTrustVector", "make", 1⟩,
   ⟨"pkg/basic/trustvector.go", "ReadTrustVectorFromCsv", "index", 4⟩,
   ⟨"pkg/sparse/matrix.go", "CSCMatrix.ColumnVector", "index", 1⟩,
   ⟨"pkg/sparse/matrix.go", "CSCMatrix.Transpose", "deref", 1⟩,
   ⟨"pkg/sparse/matrix.go", "CSMatrix.Merge", "index", 3⟩,
   ⟨"pkg/sparse/matrix.go", "CSMatrix.Mmap", "deref", 1⟩,
   ⟨"pkg/sparse/matrix.go", "CSMatrix.Mmap", "index", 5⟩,
   ⟨"pkg/sparse/matrix.go", "CSMatrix.Mmap", "make", 1⟩,
   ⟨"pkg/sparse/matrix.go", "CSMatrix.Mmap", "panic", 1⟩,
   ⟨"pkg/sparse/matrix.go", "CSMatrix.Mmap", "slice", 1⟩,
   ⟨"pkg/sparse/matrix.go", "CSMatrix.Munmap", "slice", 1⟩,
   ⟨"pkg/sparse/matrix.go", "CSMatrix.Reset", "panic", 1⟩,
   ⟨"pkg/sparse/matrix.go", "CSMatrix.SetMajorDim", "slice", 2⟩,
   ⟨"pkg/sparse/matrix.go", "CSMatrix.SetMinorDim", "index", 2⟩,
   ⟨"pkg/sparse/matrix.go", "CSMatrix.SetMinorDim", "slice", 1⟩,
   ⟨"pkg/sparse/matrix.go", "CSMatrix.Transpose", "deref", 1⟩,
   ⟨"pkg/sparse/matrix.go", "CSMatrix.Transpose", "index", 4⟩,
   ⟨"pkg/sparse/matrix.go", "CSMatrix.Transpose", "make", 2⟩,
   ⟨"pkg/sparse/matrix.go", "CSRMatrix.RowVector", "index", 1⟩,
   ⟨"pkg/sparse/matrix.go", "CSRMatrix.SetRowVector", "index", 1⟩,
   ⟨"pkg/sparse/matrix.go", "CSRMatrix.Transpose", "deref", 1⟩,
   ⟨"pkg/sparse/matrix.go", "NewCSRMatrix", "deref", 1⟩,
   ⟨"pkg/sparse/matrix.go", "NewCSRMatrix", "index", 2⟩,
   ⟨"pkg/sparse/matrix.go", "NewCSRMatrix", "make", 1⟩,
   ⟨"pkg/sparse/matrix.go", "mergeSpan", "index", 9⟩,
   ⟨"pkg/sparse/matrix.go", "mergeSpan", "slice", 1⟩,
   ⟨"pkg/sparse/vector.go", "NewVector", "slice", 1⟩,
   ⟨"pkg/sparse/vector.go", "VecDot", "index", 2⟩,
   ⟨"pkg/sparse/vector.go", "Vector.AddVec", "index", 11⟩,
   ⟨"pkg/sparse/vector.go", "Vector.AddVec", "slice", 6⟩,
   ⟨"pkg/sparse/vector.go", "Vector.Assign", "slice", 1⟩,
   ⟨"pkg/sparse/vector.go", "Vector.Clone", "slice", 1⟩,
   ⟨"pkg/sparse/vector.go", "Vector.MulVec", "make", 2⟩,
   ⟨"pkg/sparse/vector.go", "Vector.Norm2", "index", 1⟩,
   ⟨"pkg/sparse/vector.go", "Vector.SetDim", "index", 1⟩,
   ⟨"pkg/sparse/vector.go", "Vector.SetDim", "slice", 1⟩,
   ⟨"pkg/sparse/vector.go", "Vector.SubVec", "index", 13⟩,
   ⟨"pkg/sparse/vector.go", "Vector.SubVec", "slice", 6⟩,
   ⟨"pkg/sparse/vector.go", "Vector.scaleInPlace", "index", 4⟩,
   ⟨"pkg/sparse/vector.go", "Vector.scaleInPlace", "slice", 1⟩]

theorem source_sites_audited : Facts.partialitySites = auditedSites := by decide

end EtVerif.Ties
