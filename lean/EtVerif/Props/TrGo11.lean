/-
  TrGo11 — C11 ("Merge is a last-writer-wins overlay for EVERY UPDATE HISTORY") stated about the TRANSLATED Go
  code of `Vector.Merge` (Gen/Translated.lean, regenerated from the current source on every run): the run of the
  Go function over an arbitrary list of updates, each call's receiver being the next call's receiver.
  Composition of the one-call refinement (`TrC11.vector_merge_refines`) with the model-level history theorem
  (`C11.merge_vec_history`).  Property theorems only; helper lemma in Proofs/TrMergeHist.
  (Matrix `Merge` is not translated — see DESIGN 14.3 — so the matrix history stays a model-level theorem.)
-/
import EtVerif.Proofs.TrMergeHist
import EtVerif.Props.C11

namespace EtVerif.TrGo11
open EtVerif EtVerif.GoSem EtVerif.Gen EtVerif.Tr Scalar

variable {K : Type} [Field K] [LinearOrder K]

/-- The Go program `for _, u := range us { v.Merge(&u) }`: the translated `Vector.Merge` applied to the receiver
    left by the previous call, any panic or error of a call ending the run. -/
def goMergeRun (fuel : Nat) : GVector K → List (GVector K) → R (GVector K)
  | v, [] => .ok v
  | v, u :: us =>
    match Vector_Merge fuel v u with
    | .ok (st, _) => goMergeRun fuel st.v us
    | .error e => .error e

/-- The run of the Go code over EVERY history of well-formed updates equals the model's fold, with no panic, as
    soon as the fuel covers twice the largest dimension involved (a well-formed vector stores at most `dim`
    entries, so this bounds every merge loop of the history). -/
theorem go_merge_run_refines (fuel D : Nat) (us : List (Vec K)) (v : Vec K)
    (hv : WF v.dim v.entries) (hus : ∀ u ∈ us, WF u.dim u.entries)
    (hD : v.dim ≤ D) (hDs : ∀ u ∈ us, u.dim ≤ D) (hf : 2 * D ≤ fuel) :
    goMergeRun fuel (toGV v) (us.map toGV) = .ok (toGV (us.foldl (fun v u => (v.merge u).1) v)) := by
  induction us generalizing v with
  | nil => rfl
  | cons u us ih =>
    have hu := hus u (by simp)
    have hl1 := Tr.Hist.wf_length_le hv
    have hl2 := Tr.Hist.wf_length_le hu
    have hDu := hDs u (by simp)
    obtain ⟨st, out, hr, hst, _, hdim, hwf, _⟩ :=
      TrC11.go_vector_merge_overlay fuel v u hv hu (by omega)
    obtain ⟨r, hr', hout⟩ := map_eq_ok (TrC11.vector_merge_refines fuel v u (by omega))
    have h1 := congrArg Prod.fst hout
    simp only at h1
    simp only [List.map_cons, List.foldl_cons, goMergeRun, hr']
    rw [h1]
    obtain ⟨hd', _, hwf', _⟩ := C11.merge_vec v u hv hu
    exact ih (v.merge u).1 hwf' (fun x hx => hus x (by simp [hx]))
      (by rw [hd']; omega) (fun x hx => hDs x (by simp [hx]))

/-- C11 for vectors on the Go code: after ANY history of well-formed updates the receiver is well formed, its
    dimension is the largest dimension seen, and every cell holds the value of the LAST update that stored that
    cell (the fold of the dense overlays), or the original value if none did. -/
theorem go_vector_merge_history (fuel D : Nat) (us : List (Vec K)) (v : Vec K)
    (hv : WF v.dim v.entries) (hus : ∀ u ∈ us, WF u.dim u.entries)
    (hD : v.dim ≤ D) (hDs : ∀ u ∈ us, u.dim ≤ D) (hf : 2 * D ≤ fuel) :
    ∃ out : Vec K, goMergeRun fuel (toGV v) (us.map toGV) = .ok (toGV out) ∧
      WF out.dim out.entries ∧ out.dim = us.foldl (fun d u => max d u.dim) v.dim ∧
      denE out.entries = us.foldl C11.overlayVec (denE v.entries) := by
  obtain ⟨h1, h2, h3⟩ := C11.merge_vec_history us v hv hus
  exact ⟨_, go_merge_run_refines fuel D us v hv hus hD hDs hf, h1, h2, h3⟩

/-- Non-vacuity: a well-formed receiver and a two-update history within `D = 4`. -/
example : WF 3 ([⟨0, 1⟩, ⟨2, 3⟩] : List (Entry ℚ)) ∧ WF 4 ([⟨1, 5⟩, ⟨3, 2⟩] : List (Entry ℚ)) ∧
    WF 2 ([⟨1, 0⟩] : List (Entry ℚ)) := by
  refine ⟨⟨?_, ?_⟩, ⟨?_, ?_⟩, ⟨?_, ?_⟩⟩ <;> simp [Sorted]

end EtVerif.TrGo11
