/-
  C05 (termination clause, for the MODEL's `compute`) — "Every ... library call on canonical
  inputs, with a>=0.001 and e>=1e-9 finishes within ceil(ln(e/4)/ln(1-a))+2 iterations under the
  default schedule ... instead of looping forever."

  Props/C05a.lean proves the bound for the dense map `F`; here it is transferred to the sparse
  model `compute` (Model/Basic.lean) at `K := ℝ` (the `fieldScalar` instance): for every fuel
  above the bound the call succeeds, is ended by its exit criteria (not by the fuel, not by the
  non-finite-delta error), and reports at most `⌈ln(e/4)/ln(1-a)⌉ + 2` iterations.  By
  `C05.compute_fuel_mono` the result is then the same for every larger fuel: with
  `maxIterations = 0` ("unlimited") the loop still terminates.

  Default schedule (`DefaultSchedule o`, Proofs/TermGlue.lean): `flatTail = 0`, `maxIterations`
  unset or 0, `checkFreq` and `minIterations` unset or 1 — the exit criteria are evaluated after
  every iteration from iteration 1.  `o = {}` and `o = { t0 := some t0 }` are instances.

  Property theorems only; helper lemmas live in Proofs/TermGlue.lean.
-/
import EtVerif.Proofs.TermGlue

namespace EtVerif.C05b
open EtVerif EtVerif.Dense EtVerif.C01b Scalar

/-! ### 1. the non-finite exit is unreachable in exact arithmetic -/

/-- In an ordered field no value is "non-finite": the test `!(x ≤ x) || (x + x = x && x ≠ 0)` of the
    repaired loop is always false, so `compute` never returns the `nonfinite` error there. -/
theorem nonFinite_never {K : Type} [Field K] [LinearOrder K] (x : K) : nonFinite x = false :=
  TG.nonFinite_false x

example : nonFinite (3 / 7 : ℚ) = false := nonFinite_never _

/-! ### 2.–4. termination within the documented bound -/

/-- **General form** (any options that leave the default schedule in force; optional initial
    vector `t0` a distribution of dimension `n`; optional `resultDim = n`; any `numLeaders`).
    Canonical inputs, `0 < a < 1`, `0 < e`, `N = ⌈ln(e/4)/ln(1-a)⌉`: there is one result `r`,
    ended by the criteria with `1 ≤ r.iters ≤ N + 2`, returned for **every** fuel `> N + 2`. -/
theorem compute_terminates_schedule (n : Nat) (hn : 1 ≤ n) (c : CSM ℝ) (p : Vec ℝ) (a e : ℝ)
    (o : ComputeOpts ℝ) (hc : Canon n c p) (ha0 : 0 < a) (ha1 : a < 1) (he : 0 < e)
    (hs : DefaultSchedule o)
    (ht0 : ∀ t0, o.t0 = some t0 → t0.dim = n ∧ Dist n t0.entries)
    (hrd : ∀ d, o.resultDim = some d → d = n) :
    ∃ r : ComputeResult ℝ, r.endedBy = .criteria ∧ 1 ≤ r.iters ∧
      r.iters ≤ ⌈Real.log (e / 4) / Real.log (1 - a)⌉₊ + 2 ∧
      ∀ fuel, ⌈Real.log (e / 4) / Real.log (1 - a)⌉₊ + 2 < fuel →
        compute fuel c p a e o = .ok r := by
  have hstart : Dist n (o.t0.getD p).entries := by
    cases h0 : o.t0 with
    | none => exact hc.dist
    | some t0 => exact (ht0 t0 h0).2
  obtain ⟨hd0, hd1⟩ := toDense_dist n _ hstart
  obtain ⟨hp0, hp1⟩ := toDense_dist n _ hc.dist
  obtain ⟨K, k1, k2, k3⟩ := C05a.terminates_default (denseC n c) (toDense n p.entries) a e
    (denseC_nonneg n c p hc) (denseC_rowsum n c p hc) hp0 hp1 ha0 ha1 he
    (toDense n (o.t0.getD p).entries) hd0 hd1
  have hd : ∃ K, 1 ≤ K ∧ K ≤ ⌈Real.log (e / 4) / Real.log (1 - a)⌉₊ + 2 ∧
      TG.DenseOK n c p a e (o.t0.getD p).entries K := ⟨K, k1, k2, k3⟩
  obtain ⟨r, hr, hcr, r1, r2, _⟩ := TG.compute_terminates_of_dense n c p a e hn o hc ha0.le ha1.le
    he hs (fun t0 h => ⟨(ht0 t0 h).1, (ht0 t0 h).2.1⟩) hrd _ hd
    (⌈Real.log (e / 4) / Real.log (1 - a)⌉₊ + 3) (by omega)
  refine ⟨r, hcr, r1, r2, fun fuel hfuel => ?_⟩
  exact C05.compute_fuel_mono _ fuel (by omega) c p a e o _ hr
    (fun r' h => by cases h; rw [hcr]; decide)

/-- **C05 termination, default options** (`o = {}`: start vector `p`, no limits, no flat tail,
    check after every iteration).  For every fuel `> N + 2` the call succeeds, is ended by its
    criteria — not by the fuel — and performed between 1 and `N + 2` iterations. -/
theorem compute_terminates_default (n : Nat) (hn : 1 ≤ n) (c : CSM ℝ) (p : Vec ℝ) (a e : ℝ)
    (hc : Canon n c p) (ha0 : 0 < a) (ha1 : a < 1) (he : 0 < e) (fuel : Nat)
    (hfuel : ⌈Real.log (e / 4) / Real.log (1 - a)⌉₊ + 2 < fuel) :
    ∃ r, compute fuel c p a e {} = .ok r ∧ r.endedBy = .criteria ∧ 1 ≤ r.iters ∧
      r.iters ≤ ⌈Real.log (e / 4) / Real.log (1 - a)⌉₊ + 2 := by
  obtain ⟨r, h1, h2, h3, h4⟩ := compute_terminates_schedule n hn c p a e {} hc ha0 ha1 he
    ⟨rfl, rfl, rfl, rfl⟩ (fun t0 h => by cases h) (fun d h => by cases h)
  exact ⟨r, h4 fuel hfuel, h1, h2, h3⟩

/-- … and the result does not depend on the fuel: one `r` for every fuel above the bound. -/
theorem compute_terminates_default_any_fuel (n : Nat) (hn : 1 ≤ n) (c : CSM ℝ) (p : Vec ℝ)
    (a e : ℝ) (hc : Canon n c p) (ha0 : 0 < a) (ha1 : a < 1) (he : 0 < e) :
    ∃ r : ComputeResult ℝ, r.endedBy = .criteria ∧ 1 ≤ r.iters ∧
      r.iters ≤ ⌈Real.log (e / 4) / Real.log (1 - a)⌉₊ + 2 ∧
      ∀ fuel, ⌈Real.log (e / 4) / Real.log (1 - a)⌉₊ + 2 < fuel →
        compute fuel c p a e {} = .ok r :=
  compute_terminates_schedule n hn c p a e {} hc ha0 ha1 he ⟨rfl, rfl, rfl, rfl⟩
    (fun t0 h => by cases h) (fun d h => by cases h)

/-- **`a = 1`**: every iterate from the first on is `p`, the check after iteration 2 sees delta 0:
    at most 2 iterations (any fuel `> 2`, any `e > 0`). -/
theorem compute_terminates_alpha_one (n : Nat) (hn : 1 ≤ n) (c : CSM ℝ) (p : Vec ℝ) (e : ℝ)
    (hc : Canon n c p) (he : 0 < e) (fuel : Nat) (hfuel : 2 < fuel) :
    ∃ r, compute fuel c p 1 e {} = .ok r ∧ r.endedBy = .criteria ∧ 1 ≤ r.iters ∧
      r.iters ≤ 2 := by
  obtain ⟨K, k1, k2, k3⟩ := C05a.terminates_alpha_one (denseC n c) (toDense n p.entries) e he.le
    (toDense n p.entries)
  have hd : ∃ K, 1 ≤ K ∧ K ≤ 2 ∧ TG.DenseOK n c p 1 e p.entries K := ⟨K, k1, k2, k3⟩
  obtain ⟨r, hr, hcr, r1, r2, _⟩ := TG.compute_terminates_of_dense n c p 1 e hn {} hc zero_le_one
    le_rfl he ⟨rfl, rfl, rfl, rfl⟩ (fun t0 h => by cases h) (fun d h => by cases h) 2 hd fuel hfuel
  exact ⟨r, hr, hcr, r1, r2⟩

/-- **With an initial vector** `t0` (`WithInitialTrust`): a distribution of dimension `n`; same
    bound. -/
theorem compute_terminates_with_t0 (n : Nat) (hn : 1 ≤ n) (c : CSM ℝ) (p : Vec ℝ) (a e : ℝ)
    (t0 : Vec ℝ) (hc : Canon n c p) (ha0 : 0 < a) (ha1 : a < 1) (he : 0 < e)
    (hdim : t0.dim = n) (ht0 : Dist n t0.entries) (fuel : Nat)
    (hfuel : ⌈Real.log (e / 4) / Real.log (1 - a)⌉₊ + 2 < fuel) :
    ∃ r, compute fuel c p a e { t0 := some t0 } = .ok r ∧ r.endedBy = .criteria ∧ 1 ≤ r.iters ∧
      r.iters ≤ ⌈Real.log (e / 4) / Real.log (1 - a)⌉₊ + 2 := by
  obtain ⟨r, h1, h2, h3, h4⟩ := compute_terminates_schedule n hn c p a e { t0 := some t0 } hc ha0
    ha1 he ⟨rfl, rfl, rfl, rfl⟩ (fun t h => by cases h; exact ⟨hdim, ht0⟩) (fun d h => by cases h)
  exact ⟨r, h4 fuel hfuel, h1, h2, h3⟩

/-- The reported iteration count is moreover the **first** `K ≥ 1` at which the model's own
    convergence verdict (`Converged()` on the squared delta between iterates `K` and `K − 1`)
    holds: the loop does not run past the first successful check. -/
theorem compute_terminates_first (n : Nat) (hn : 1 ≤ n) (c : CSM ℝ) (p : Vec ℝ) (a e : ℝ)
    (hc : Canon n c p) (ha0 : 0 < a) (ha1 : a < 1) (he : 0 < e) (fuel : Nat)
    (hfuel : ⌈Real.log (e / 4) / Real.log (1 - a)⌉₊ + 2 < fuel) :
    ∃ r, compute fuel c p a e {} = .ok r ∧ r.endedBy = .criteria ∧
      convergedAt c.transpose.rows (Vec.scale a p).entries (1 - a) e 1 1 p.entries r.iters = true ∧
      ∀ K', 1 ≤ K' → K' < r.iters →
        convergedAt c.transpose.rows (Vec.scale a p).entries (1 - a) e 1 1 p.entries K' = false := by
  obtain ⟨hp0, hp1⟩ := toDense_dist n _ hc.dist
  obtain ⟨K, k1, k2, k3⟩ := C05a.terminates_default (denseC n c) (toDense n p.entries) a e
    (denseC_nonneg n c p hc) (denseC_rowsum n c p hc) hp0 hp1 ha0 ha1 he
    (toDense n p.entries) hp0 hp1
  have hd : ∃ K, 1 ≤ K ∧ K ≤ ⌈Real.log (e / 4) / Real.log (1 - a)⌉₊ + 2 ∧
      TG.DenseOK n c p a e p.entries K := ⟨K, k1, k2, k3⟩
  obtain ⟨r, hr, hcr, r1, _, r3, r4⟩ := TG.compute_terminates_of_dense n c p a e hn {} hc ha0.le
    ha1.le he ⟨rfl, rfl, rfl, rfl⟩ (fun t0 h => by cases h) (fun d h => by cases h) _ hd fuel hfuel
  refine ⟨r, hr, hcr, ?_, ?_⟩
  · exact (TG.convergedAt_default_iff n c p a e hc he.le p.entries hc.dist.1 r.iters r1).mpr r3
  · intro K' h1 h2
    rw [← Bool.not_eq_true, TG.convergedAt_default_iff n c p a e hc he.le p.entries hc.dist.1 K' h1]
    exact r4 K' h1 h2

/-! ## non-vacuity: two peers trusting each other, uniform pre-trust, over ℝ -/

section examples

/-- `C = [[0,1],[1,0]]` -/
private def c2 : CSM ℝ := ⟨2, 2, [[⟨1, 1⟩], [⟨0, 1⟩]], []⟩
/-- `p = (1/2, 1/2)` -/
private noncomputable def p2 : Vec ℝ := ⟨2, [⟨0, 1/2⟩, ⟨1, 1/2⟩]⟩
/-- `t0 = e₀` -/
private def t2 : Vec ℝ := ⟨2, [⟨0, 1⟩]⟩

private theorem canon2 : Canon 2 c2 p2 := by
  simp [Canon, WFM, WF, Sorted, c2, p2]
  norm_num

private theorem dist_t2 : Dist 2 t2.entries := by
  simp [Dist, WF, Sorted, t2]

/-- the concrete bound for `a = 1/3`, `e = 1/10`: `(2/3)^10 ≤ 1/40 < (2/3)^9`, so `N = 10` -/
private theorem ceil2 : ⌈Real.log ((1/10 : ℝ) / 4) / Real.log (1 - 1/3)⌉₊ = 10 := by
  have hlog : Real.log (1 - 1/3 : ℝ) < 0 := Real.log_neg (by norm_num) (by norm_num)
  rw [Nat.ceil_eq_iff (by norm_num)]
  constructor
  · rw [lt_div_iff_of_neg hlog, ← Real.log_pow]
    exact Real.log_lt_log (by norm_num) (by norm_num)
  · rw [div_le_iff_of_neg hlog, ← Real.log_pow]
    exact Real.log_le_log (by norm_num) (by norm_num)

/-- `compute` on the two-peer instance, `a = 1/3`, `e = 1/10`, default options: with fuel 13 (and
    hence any larger fuel) it ends by the criteria within `10 + 2 = 12` iterations. -/
example : ∃ r, compute 13 c2 p2 (1/3) (1/10) {} = .ok r ∧ r.endedBy = .criteria ∧ 1 ≤ r.iters ∧
    r.iters ≤ 12 := by
  have h := compute_terminates_default 2 (by norm_num) c2 p2 (1/3) (1/10) canon2 (by norm_num)
    (by norm_num) (by norm_num) 13 (by rw [ceil2]; norm_num)
  rw [ceil2] at h
  exact h

example : ∃ r : ComputeResult ℝ, r.endedBy = .criteria ∧ 1 ≤ r.iters ∧ r.iters ≤ 12 ∧
    ∀ fuel, 12 < fuel → compute fuel c2 p2 (1/3) (1/10) {} = .ok r := by
  have h := compute_terminates_default_any_fuel 2 (by norm_num) c2 p2 (1/3) (1/10) canon2
    (by norm_num) (by norm_num) (by norm_num)
  rw [ceil2] at h
  exact h

/-- `a = 1` -/
example : ∃ r, compute 3 c2 p2 1 (1/10) {} = .ok r ∧ r.endedBy = .criteria ∧ 1 ≤ r.iters ∧
    r.iters ≤ 2 :=
  compute_terminates_alpha_one 2 (by norm_num) c2 p2 (1/10) canon2 (by norm_num) 3 (by norm_num)

/-- start vector `e₀` -/
example : ∃ r, compute 13 c2 p2 (1/3) (1/10) { t0 := some t2 } = .ok r ∧ r.endedBy = .criteria ∧
    1 ≤ r.iters ∧ r.iters ≤ 12 := by
  have h := compute_terminates_with_t0 2 (by norm_num) c2 p2 (1/3) (1/10) t2 canon2 (by norm_num)
    (by norm_num) (by norm_num) rfl dist_t2 13 (by rw [ceil2]; norm_num)
  rw [ceil2] at h
  exact h

/-- a non-default instance of `DefaultSchedule`: explicit `checkFreq = 1`, `maxIterations = 0`,
    a result vector of the right dimension and a leader count -/
private def o2 : ComputeOpts ℝ :=
  { checkFreq := some 1, maxIterations := some 0, resultDim := some 2, numLeaders := 1 }

example : DefaultSchedule o2 := ⟨rfl, rfl, rfl, rfl⟩

example : ∃ r : ComputeResult ℝ, r.endedBy = .criteria ∧ 1 ≤ r.iters ∧ r.iters ≤ 12 ∧
    ∀ fuel, 12 < fuel → compute fuel c2 p2 (1/3) (1/10) o2 = .ok r := by
  have h := compute_terminates_schedule 2 (by norm_num) c2 p2 (1/3) (1/10) o2 canon2
    (by norm_num) (by norm_num) (by norm_num) ⟨rfl, rfl, rfl, rfl⟩ (fun t0 h => by cases h)
    (fun d h => by cases h; rfl)
  rw [ceil2] at h
  exact h

example : ∃ r, compute 13 c2 p2 (1/3) (1/10) {} = .ok r ∧ r.endedBy = .criteria ∧
    convergedAt c2.transpose.rows (Vec.scale (1/3) p2).entries (1 - 1/3) (1/10) 1 1 p2.entries
      r.iters = true ∧
    ∀ K', 1 ≤ K' → K' < r.iters →
      convergedAt c2.transpose.rows (Vec.scale (1/3) p2).entries (1 - 1/3) (1/10) 1 1 p2.entries
        K' = false :=
  compute_terminates_first 2 (by norm_num) c2 p2 (1/3) (1/10) canon2 (by norm_num) (by norm_num)
    (by norm_num) 13 (by rw [ceil2]; norm_num)

end examples

end EtVerif.C05b
