/-
  C01 — "For every square row-stochastic local-trust matrix C, pre-trust distribution p,
  pre-trust strength a in (0,1] and threshold e>0, a compute that ends by convergence returns a
  vector t whose L1 distance from the unique solution t* of t = (1-a)*C^T*t + a*p is at most
  ((1-a)/a)*sqrt(n)*e."

  Dense real-analysis statement on `Fin n → ℝ` (`F C p a t = (1-a)·Cᵀt + a·p`).
  Property theorems only; helper lemmas live in Proofs/Dense.lean.
-/
import EtVerif.Proofs.Dense

namespace EtVerif.C01
open EtVerif.Dense

variable {n : ℕ}

/-- `Cᵀ` is L1-non-expansive for row-stochastic `C`. -/
theorem l1_contract (C : Fin n → Fin n → ℝ) (hC0 : ∀ i j, 0 ≤ C i j)
    (hC1 : ∀ i, ∑ j, C i j = 1) (x : Fin n → ℝ) :
    l1 (fun j => ∑ i, C i j * x i) ≤ l1 x :=
  l1_contract_sub C hC0 (fun i => (hC1 i).le) x

example : l1 (fun j => ∑ i, exC i j * exT0 i) ≤ l1 exT0 :=
  l1_contract exC exC_nonneg exC_rowsum exT0

/-- The iteration map is an L1-contraction with factor `1-a`. -/
theorem F_contract (C : Fin n → Fin n → ℝ) (p : Fin n → ℝ) (a : ℝ)
    (hC0 : ∀ i j, 0 ≤ C i j) (hC1 : ∀ i, ∑ j, C i j = 1) (ha0 : 0 ≤ a) (ha1 : a ≤ 1)
    (x y : Fin n → ℝ) :
    l1 (F C p a x - F C p a y) ≤ (1 - a) * l1 (x - y) :=
  F_contract_sub C p a hC0 (fun i => (hC1 i).le) ha0 ha1 x y

example : l1 (F exC exP (1 / 2) exT0 - F exC exP (1 / 2) exP) ≤ (1 - 1 / 2) * l1 (exT0 - exP) :=
  F_contract exC exP (1 / 2) exC_nonneg exC_rowsum (by norm_num) (by norm_num) exT0 exP

/-- The equation `t = (1-a)·Cᵀt + a·p` has exactly one solution (no assumption on `p`). -/
theorem fixedpoint_exists_unique (C : Fin n → Fin n → ℝ) (p : Fin n → ℝ) (a : ℝ)
    (hC0 : ∀ i j, 0 ≤ C i j) (hC1 : ∀ i, ∑ j, C i j = 1) (ha0 : 0 < a) (ha1 : a ≤ 1) :
    ∃! t, t = F C p a t :=
  fixedpoint_exists_unique_sub C p a hC0 (fun i => (hC1 i).le) ha0 ha1

example : ∃! t, t = F exC exP (1 / 2) t :=
  fixedpoint_exists_unique exC exP (1 / 2) exC_nonneg exC_rowsum (by norm_num) (by norm_num)

/-- If `p` is a distribution, so is the solution `t*`. -/
theorem fixedpoint_distribution (C : Fin n → Fin n → ℝ) (p : Fin n → ℝ) (a : ℝ)
    (hC0 : ∀ i j, 0 ≤ C i j) (hC1 : ∀ i, ∑ j, C i j = 1)
    (hp0 : ∀ i, 0 ≤ p i) (hp1 : ∑ i, p i = 1) (ha0 : 0 < a) (ha1 : a ≤ 1)
    (tstar : Fin n → ℝ) (hstar : tstar = F C p a tstar) :
    (∀ i, 0 ≤ tstar i) ∧ ∑ i, tstar i = 1 :=
  fixedpoint_distribution_aux C p a hC0 hC1 hp0 hp1 ha0 ha1 tstar hstar

example : (∀ i, 0 ≤ exP i) ∧ ∑ i, exP i = 1 :=
  fixedpoint_distribution exC exP (1 / 2) exC_nonneg exC_rowsum exP_nonneg exP_sum
    (by norm_num) (by norm_num) exP exP_fixed

/-- Cauchy–Schwarz: `‖x‖₁ ≤ √n·‖x‖₂`. -/
theorem l1_le_sqrt_mul_l2 (x : Fin n → ℝ) : l1 x ≤ Real.sqrt n * l2 x :=
  Dense.l1_le_sqrt_mul_l2 x

/-- **Main theorem of C01.**  `tstar` is the solution, `tk` is obtained from the previously
checked vector `tprev` by `f ≥ 1` iterations, and the convergence check `‖tk − tprev‖₂ ≤ e`
succeeded.  Then `‖tk − t*‖₁ ≤ ((1-a)/a)·√n·e`.  (`e > 0` is not needed.) -/
theorem stop_bound (C : Fin n → Fin n → ℝ) (p : Fin n → ℝ) (a e : ℝ)
    (hC0 : ∀ i j, 0 ≤ C i j) (hC1 : ∀ i, ∑ j, C i j = 1) (ha0 : 0 < a) (ha1 : a ≤ 1)
    (tstar tprev tk : Fin n → ℝ) (hstar : tstar = F C p a tstar)
    (f : ℕ) (hf : 1 ≤ f) (htk : tk = (F C p a)^[f] tprev)
    (hstop : l2 (tk - tprev) ≤ e) :
    l1 (tk - tstar) ≤ ((1 - a) / a) * Real.sqrt n * e := by
  subst htk
  exact stop_bound_sub C p a e hC0 (fun i => (hC1 i).le) ha0 ha1 tstar tprev hstar f hf hstop

/-- non-vacuity: swap matrix, uniform `p`, `a = 1/2`, `t* = p`, one step from `(1,0)`, `e = 2`. -/
example : l1 (F exC exP (1 / 2) exT0 - exP) ≤ ((1 - 1 / 2) / (1 / 2)) * Real.sqrt (2 : ℕ) * 2 := by
  refine stop_bound exC exP (1 / 2) 2 exC_nonneg exC_rowsum (by norm_num) (by norm_num)
    exP exT0 (F exC exP (1 / 2) exT0) exP_fixed 1 le_rfl rfl ?_
  have hF := F_distribution exC exP (1 / 2) exC_nonneg exC_rowsum exP_nonneg exP_sum
    (by norm_num) (by norm_num) exT0 exT0_nonneg exT0_sum
  have h1 := l1_sub_le (F exC exP (1 / 2) exT0) exT0
  rw [l1_of_nonneg hF.1, l1_of_nonneg exT0_nonneg, hF.2, exT0_sum] at h1
  exact (l2_le_l1 _).trans (by linarith)

/-- Packaging for an arbitrary check schedule: the returned iterate is `t_{k+f}`, the vector it
was compared with is `t_k` (`k = 0`: the initial vector `t0`, at the first check; otherwise the
iterate at the previous check), `f ≥ 1` (`minIters` resp. `checkFreq`).  Whenever that check
succeeds the returned vector satisfies the bound. -/
theorem converged_bound (C : Fin n → Fin n → ℝ) (p : Fin n → ℝ) (a e : ℝ)
    (hC0 : ∀ i j, 0 ≤ C i j) (hC1 : ∀ i, ∑ j, C i j = 1) (ha0 : 0 < a) (ha1 : a ≤ 1)
    (tstar : Fin n → ℝ) (hstar : tstar = F C p a tstar)
    (t0 : Fin n → ℝ) (k f : ℕ) (hf : 1 ≤ f)
    (hstop : l2 ((F C p a)^[k + f] t0 - (F C p a)^[k] t0) ≤ e) :
    l1 ((F C p a)^[k + f] t0 - tstar) ≤ ((1 - a) / a) * Real.sqrt n * e := by
  have hk : (F C p a)^[k + f] t0 = (F C p a)^[f] ((F C p a)^[k] t0) := by
    rw [Nat.add_comm, Function.iterate_add_apply]
  exact stop_bound C p a e hC0 hC1 ha0 ha1 tstar ((F C p a)^[k] t0) ((F C p a)^[k + f] t0)
    hstar f hf hk hstop

/-- The bound relative to *the* unique solution, with existence and uniqueness bundled:
there is exactly one `t*`, and every converged return value is within the bound of it. -/
theorem converged_bound_unique (C : Fin n → Fin n → ℝ) (p : Fin n → ℝ) (a e : ℝ)
    (hC0 : ∀ i j, 0 ≤ C i j) (hC1 : ∀ i, ∑ j, C i j = 1) (ha0 : 0 < a) (ha1 : a ≤ 1) :
    ∃! tstar, tstar = F C p a tstar ∧
      ∀ (t0 : Fin n → ℝ) (k f : ℕ), 1 ≤ f →
        l2 ((F C p a)^[k + f] t0 - (F C p a)^[k] t0) ≤ e →
        l1 ((F C p a)^[k + f] t0 - tstar) ≤ ((1 - a) / a) * Real.sqrt n * e := by
  obtain ⟨tstar, hstar, huniq⟩ := fixedpoint_exists_unique C p a hC0 hC1 ha0 ha1
  refine ⟨tstar, ⟨hstar, ?_⟩, fun t' ht' => huniq t' ht'.1⟩
  intro t0 k f hf hstop
  exact converged_bound C p a e hC0 hC1 ha0 ha1 tstar hstar t0 k f hf hstop

example : l2 ((F exC exP (1 / 2))^[0 + 1] exT0 - (F exC exP (1 / 2))^[0] exT0) ≤ 2 := by
  have hF := F_distribution exC exP (1 / 2) exC_nonneg exC_rowsum exP_nonneg exP_sum
    (by norm_num) (by norm_num) exT0 exT0_nonneg exT0_sum
  have h1 := l1_sub_le (F exC exP (1 / 2) exT0) exT0
  rw [l1_of_nonneg hF.1, l1_of_nonneg exT0_nonneg, hF.2, exT0_sum] at h1
  exact (l2_le_l1 _).trans (by simpa using (by linarith : l1 (F exC exP (1 / 2) exT0 - exT0) ≤ 2))

end EtVerif.C01
