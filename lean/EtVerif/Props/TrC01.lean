/-
  TrC01 — the CURRENT SOURCE of `basic.Compute` (pkg/basic/eigentrust.go, translated statement by statement
  by tools/go2lean on every run: validation, defaults and option resolution, transpose, `a·p`, the
  iteration loop with its check schedule, flat-tail bookkeeping, result assignment) computes exactly what
  the hand-written model `compute` computes — the function about which Props/C01, C02, C05, C18 prove the
  fixed-point bound, the distribution invariant, the stop iteration and the flat-tail statistics.

  What the translated `Compute` calls without translating (externs, see the head of Gen/Translated.lean):
  `Vector.MulVec` (its sequential specification — C06/C07 prove every schedule of the goroutine system
  yields it), the `ConvergenceChecker` (the model's checker carrying the squared delta — `Scalar` has no
  square root), `sort.Sort` by value (the model's insertion sort).  Not modelled: cancellation polls,
  logging, wall-clock time, `runtime.GC`.  Everything else on the path (Dim, Transpose, Clone, ScaleVec,
  AddVec, the flat-tail checker, Assign) is itself translated and refined (TrC09, TrC10, TrC18).

  Property theorems only; proofs in Proofs/TrCompute.lean.
-/
import EtVerif.Proofs.TrCompute

namespace EtVerif.TrC01
open EtVerif EtVerif.GoSem EtVerif.Gen EtVerif.Tr Scalar

variable {α : Type} [Scalar α]

set_option linter.unusedSectionVars false

/-- **Success.** Whenever the model `compute` returns a result (and did not merely run out of fuel), the
    translated Go `Compute` returns, without panicking and within the same fuel, exactly that vector, no
    error, and exactly those flat-tail statistics — for every matrix, pre-trust, alpha, epsilon, every option
    record (initial trust, result vector, flat-tail parameters, max/min iterations, check frequency), every
    capacity behaviour, any `Scalar`.
    Hypotheses: column indices in range (else Go's Transpose panics); `a·p` has a stored entry (so that every
    checked iterate has a non-empty ranking: the nil-vs-empty slice distinction of `reflect.DeepEqual` is not
    modelled); fuel also bounds the inner merge loops.
    `_partial`: the statement is FALSE for `fuel ≥ 2^63` — Go replaces "unlimited" by `math.MaxInt`, so its
    loop stops at iteration 2^63−1 where the model's would go on (counterexample in Proofs/TrCompute.lean);
    hence `hfuel63`. -/
theorem compute_refines_ok_partial (capO : Nat → Int) (fuel : Nat) (c : CSM α) (p : Vec α) (a e : α)
    (o : ComputeOpts α) (tRes : Option (Vec α)) (gs : Option (GFlatTailStats α))
    (hres : o.resultDim = tRes.map (·.dim))
    (hcols : c.colsInRange = true)
    (hap : (Vec.scale a p).entries ≠ [])
    (r : ComputeResult α) (hr : compute fuel c p a e o = .ok r) (hend : r.endedBy ≠ .outOfFuel)
    (hfuel : c.major + p.entries.length ≤ fuel) (hfuel63 : fuel < 9223372036854775807) :
    (Gen.Compute capO fuel (toGM c) (toGV p) a e (toGOpts o tRes gs)).map
        (fun x => (x.2, x.1.flatTailStats)) = .ok ((toGV r.t, none), toGStats r.stats) :=
  Compute_refines_ok_partial capO fuel c p a e o tRes gs hres hcols hap r hr hend hfuel hfuel63

/-- **Refusal.** Whenever the model refuses (validation error, or a non-finite delta), the translated Go code
    returns a nil vector and an error — it neither panics nor computes. -/
theorem compute_refines_err_partial (capO : Nat → Int) (fuel : Nat) (c : CSM α) (p : Vec α) (a e : α)
    (o : ComputeOpts α) (tRes : Option (Vec α)) (gs : Option (GFlatTailStats α))
    (hres : o.resultDim = tRes.map (·.dim))
    (hcols : c.colsInRange = true)
    (hap : (Vec.scale a p).entries ≠ [])
    (er : SErr) (hr : compute fuel c p a e o = .error er)
    (hfuel : c.major + p.entries.length ≤ fuel) (hfuel63 : fuel < 9223372036854775807) :
    ∃ st msg, Gen.Compute capO fuel (toGM c) (toGV p) a e (toGOpts o tRes gs) =
      .ok (st, (GVector.zero, some msg)) :=
  Compute_refines_err_partial capO fuel c p a e o tRes gs hres hcols hap er hr hfuel hfuel63

/-- Validation alone (no fuel, no `hap`): a non-square matrix or any failing validation (`n = 0`, dimension
    mismatch of p / initial trust / result vector, alpha ∉ [0,1], epsilon ≤ 0, checkFreq < 1,
    maxIterations < 0, minIterations ≤ 0) makes the Go code return `nil, err` before iterating. -/
theorem compute_refuses_validation (capO : Nat → Int) (fuel : Nat) (c : CSM α) (p : Vec α) (a e : α)
    (o : ComputeOpts α) (tRes : Option (Vec α)) (gs : Option (GFlatTailStats α))
    (hres : o.resultDim = tRes.map (·.dim))
    (hcols : c.colsInRange = true)
    (h : (∃ er, c.dim = .error er) ∨ ∃ n, c.dim = .ok n ∧ Refusal p a e o n) :
    ∃ st msg, Gen.Compute capO fuel (toGM c) (toGV p) a e (toGOpts o tRes gs) =
      .ok (st, (GVector.zero, some msg)) :=
  Compute_refuses_validation capO fuel c p a e o tRes gs hres hcols h

/-- **The schedule the Go code resolves** before it starts iterating (`Tr.CStart`): `checkFreq` = the option or
    1; `maxIters` = the option, 0 meaning `math.MaxInt`; `minIters` = the option or `checkFreq`; iteration
    counter 0; the iterate starts at the initial trust (or `p`); the checker compares against that vector. -/
theorem compute_schedule (capO : Nat → Int) (fuel : Nat) (c : CSM α) (p : Vec α) (a e : α)
    (o : ComputeOpts α) (tRes : Option (Vec α)) (gs : Option (GFlatTailStats α))
    (hres : o.resultDim = tRes.map (·.dim)) (hcols : c.colsInRange = true)
    (n : Nat) (hdim : c.dim = .ok n) (hv : Valid p a e o n) :
    ∃ (K : Stm (Compute.St α) (GVector α × Option GoError)) (S : Compute.St α),
      Compute.body capO fuel (initSt c p a e o tRes gs) =
        Stm.seq (Stm.loop 1 (Compute.loop1_cond capO fuel) (Compute.loop1_body capO fuel)
          (Compute.loop1_post capO fuel) fuel) K S ∧
      CStart c p a e o tRes n S :=
  Compute_schedule capO fuel c p a e o tRes gs hres hcols n hdim hv

/-- With no schedule option the first check is after iteration 1 and then after every iteration. -/
theorem compute_default_schedule (capO : Nat → Int) (fuel : Nat) (c : CSM α) (p : Vec α) (a e : α)
    (o : ComputeOpts α) (tRes : Option (Vec α)) (gs : Option (GFlatTailStats α))
    (hres : o.resultDim = tRes.map (·.dim)) (hcols : c.colsInRange = true)
    (n : Nat) (hdim : c.dim = .ok n) (hv : Valid p a e o n)
    (hcf : o.checkFreq = none) (hmi : o.minIterations = none) :
    ∃ (K : Stm (Compute.St α) (GVector α × Option GoError)) (S : Compute.St α),
      Compute.body capO fuel (initSt c p a e o tRes gs) =
        Stm.seq (Stm.loop 1 (Compute.loop1_cond capO fuel) (Compute.loop1_body capO fuel)
          (Compute.loop1_post capO fuel) fuel) K S ∧
      S.checkFreq = 1 ∧ S.minIters = 1 ∧ S.iter = 0 :=
  Compute_default_schedule capO fuel c p a e o tRes gs hres hcols n hdim hv hcf hmi

end EtVerif.TrC01
