/-
  C08 — Extracting distrust splits the local trust into `P - D`; discounting subtracts the
  distrust rows weighted by the *undiscounted* scores.
  Property theorems only (helper lemmas live in Proofs/Distrust.lean).
-/
import EtVerif.Proofs.Distrust
import Mathlib.Algebra.Order.Field.Rat
import Mathlib.Tactic.NormNum

namespace EtVerif.C08
open EtVerif EtVerif.Distrust

variable {K : Type} [Field K] [LinearOrder K]

/-! ### ExtractDistrust -/

/-- `L = P - D`, entry by entry (no well-formedness needed). -/
theorem extract_split {L P D : CSM K} (h : extractDistrust L = .ok (P, D)) (i j : Nat) :
    denRows L.rows i j = denRows P.rows i j - denRows D.rows i j := by
  obtain ⟨_, rfl, rfl⟩ := extractDistrust_ok h
  simp only [denRows, getD_map_splitRow_fst, getD_map_splitRow_snd]
  exact den_splitRow _ _

/-- every stored value of `P` is non-negative, every stored value of `D` is strictly positive. -/
theorem extract_signs [IsStrictOrderedRing K] {L P D : CSM K}
    (h : extractDistrust L = .ok (P, D)) :
    (∀ r ∈ P.rows, ∀ e ∈ r, 0 ≤ e.val) ∧ (∀ r ∈ D.rows, ∀ e ∈ r, 0 < e.val) := by
  obtain ⟨_, rfl, rfl⟩ := extractDistrust_ok h
  constructor
  · intro r hr
    simp only [List.map_map, List.mem_map, Function.comp_apply] at hr
    obtain ⟨r0, _, rfl⟩ := hr
    exact splitRow_fst_nonneg r0
  · intro r hr
    simp only [List.map_map, List.mem_map, Function.comp_apply] at hr
    obtain ⟨r0, _, rfl⟩ := hr
    exact splitRow_snd_pos r0

/-- with index-sorted rows, no column index is stored both in row `i` of `P` and row `i` of `D`. -/
theorem extract_disjoint {L P D : CSM K} (h : extractDistrust L = .ok (P, D))
    (hs : ∀ r ∈ L.rows, Sorted r) (i : Nat) :
    ∀ a ∈ P.rows.getD i [], ∀ b ∈ D.rows.getD i [], a.idx ≠ b.idx := by
  obtain ⟨_, rfl, rfl⟩ := extractDistrust_ok h
  simp only [getD_map_splitRow_fst, getD_map_splitRow_snd]
  apply splitRow_disjoint
  rw [List.getD_eq_getElem?_getD]
  cases hi : L.rows[i]? with
  | none => exact List.Pairwise.nil
  | some r => exact hs r (List.mem_of_getElem? hi)

/-- the index order is unchanged: row `i` of `P` is a sublist of row `i` of `L`, and row `i` of
    `D` with the signs restored is a sublist of row `i` of `L`. -/
theorem extract_order {L P D : CSM K} (h : extractDistrust L = .ok (P, D)) (i : Nat) :
    (P.rows.getD i []).Sublist (L.rows.getD i []) ∧
    ((D.rows.getD i []).map fun e => (⟨e.idx, -e.val⟩ : Entry K)).Sublist (L.rows.getD i []) := by
  obtain ⟨_, rfl, rfl⟩ := extractDistrust_ok h
  simp only [getD_map_splitRow_fst, getD_map_splitRow_snd]
  exact ⟨splitRow_fst_sublist _, splitRow_snd_neg_sublist _⟩

/-- nothing is lost: the two parts of row `i` together have as many entries as row `i` of `L`. -/
theorem extract_count {L P D : CSM K} (h : extractDistrust L = .ok (P, D)) (i : Nat) :
    (P.rows.getD i []).length + (D.rows.getD i []).length = (L.rows.getD i []).length := by
  obtain ⟨_, rfl, rfl⟩ := extractDistrust_ok h
  simp only [getD_map_splitRow_fst, getD_map_splitRow_snd, splitRow_fst, splitRow_snd,
    List.length_map]
  generalize L.rows.getD i [] = r
  induction r with
  | nil => rfl
  | cons e r ih =>
    by_cases hp : 0 ≤ e.val <;> simp [hp] <;> omega

/-- sortedness of every row is preserved in both parts. -/
theorem extract_sorted {L P D : CSM K} (h : extractDistrust L = .ok (P, D))
    (hs : ∀ r ∈ L.rows, Sorted r) :
    (∀ r ∈ P.rows, Sorted r) ∧ (∀ r ∈ D.rows, Sorted r) := by
  obtain ⟨_, rfl, rfl⟩ := extractDistrust_ok h
  constructor
  · intro r hr
    simp only [List.map_map, List.mem_map, Function.comp_apply] at hr
    obtain ⟨r0, h0, rfl⟩ := hr
    exact sorted_sublist (splitRow_fst_sublist r0) (hs r0 h0)
  · intro r hr
    simp only [List.map_map, List.mem_map, Function.comp_apply] at hr
    obtain ⟨r0, h0, rfl⟩ := hr
    exact sorted_of_idx_sublist (splitRow_snd_idx_sublist r0) (hs r0 h0)

/-- well-formedness (sorted, column indices in range) of every row is preserved in both parts. -/
theorem extract_wf {L P D : CSM K} (h : extractDistrust L = .ok (P, D)) (n : Nat)
    (hw : ∀ r ∈ L.rows, WF n r) :
    (∀ r ∈ P.rows, WF n r) ∧ (∀ r ∈ D.rows, WF n r) := by
  obtain ⟨_, rfl, rfl⟩ := extractDistrust_ok h
  constructor
  · intro r hr
    simp only [List.map_map, List.mem_map, Function.comp_apply] at hr
    obtain ⟨r0, h0, rfl⟩ := hr
    exact wf_sublist (splitRow_fst_sublist r0) (hw r0 h0)
  · intro r hr
    simp only [List.map_map, List.mem_map, Function.comp_apply] at hr
    obtain ⟨r0, h0, rfl⟩ := hr
    exact wf_of_idx_sublist (splitRow_snd_idx_sublist r0) (hw r0 h0)

/-- dimensions: `L` was square, `P` keeps the shape of `L`, `D` is a fresh `n × n` matrix with
    as many rows as `L`. -/
theorem extract_dims {L P D : CSM K} (h : extractDistrust L = .ok (P, D)) :
    L.major = L.minor ∧
    P.major = L.major ∧ P.minor = L.minor ∧ P.rows.length = L.rows.length ∧ P.hidden = L.hidden ∧
    D.major = L.major ∧ D.minor = L.major ∧ D.rows.length = L.rows.length ∧ D.hidden = [] := by
  obtain ⟨hd, rfl, rfl⟩ := extractDistrust_ok h
  simp [hd]

/-- a non-square matrix is rejected. -/
theorem extract_error (L : CSM K) (h : L.major ≠ L.minor) :
    extractDistrust L = .error .dimMismatch := by
  unfold extractDistrust CSM.dim
  rw [if_pos h]

/-- a square matrix is always accepted. -/
theorem extract_ok (L : CSM K) (h : L.major = L.minor) :
    ∃ P D, extractDistrust L = .ok (P, D) := by
  unfold extractDistrust CSM.dim
  rw [if_neg (by simpa using h)]
  exact ⟨_, _, rfl⟩

/-! ### DiscountTrustVector -/

/-- `t'_j = t_j - Σ_i t_i · D_ij`; the weights `t_i` are the *undiscounted* scores. Needs only the
    well-formedness of `t` (rows of `D` beyond `t.dim`, or missing rows, contribute nothing). -/
theorem discount_spec (t : Vec K) (D : CSM K) (ht : WF t.dim t.entries) (j : Nat) :
    denE (discountTrustVector t D).entries j
      = denE t.entries j - ∑ i ∈ Finset.range t.dim, denE t.entries i * denRows D.rows i j :=
  den_discount_rows t.entries D.rows t.dim ht j

theorem discount_dim (t : Vec K) (D : CSM K) : (discountTrustVector t D).dim = t.dim := rfl

/-- the result is well-formed when `t` and every row of `D` are. -/
theorem discount_wf (t : Vec K) (D : CSM K) (ht : WF t.dim t.entries)
    (hD : ∀ r ∈ D.rows, WF t.dim r) :
    WF (discountTrustVector t D).dim (discountTrustVector t D).entries := by
  apply wf_discountLoop _ _ _ ht
  intro p hp
  exact hD p.1 (by
    obtain ⟨_, _, h2⟩ := List.mem_zipIdx hp
    simp only [Nat.sub_zero] at h2
    rw [h2]; exact List.getElem_mem _)

/-- distrust voiced by peers without reputation has no effect: two distrust matrices that agree
    (densely) on the rows of all peers with a non-zero score give the same discounted scores. -/
theorem discount_zero_rep_general (t : Vec K) (D D' : CSM K) (ht : WF t.dim t.entries)
    (h : ∀ i, denE t.entries i ≠ 0 → ∀ j, denRows D'.rows i j = denRows D.rows i j) (j : Nat) :
    denE (discountTrustVector t D').entries j = denE (discountTrustVector t D).entries j := by
  rw [discount_spec t D' ht, discount_spec t D ht]
  congr 1
  apply Finset.sum_congr rfl
  intro i _
  by_cases hz : denE t.entries i = 0
  · simp [hz]
  · rw [h i hz j]

/-- replacing the distrust row of a peer with zero score by any other row changes nothing. -/
theorem discount_zero_rep (t : Vec K) (D : CSM K) (ht : WF t.dim t.entries) (i : Nat)
    (hz : denE t.entries i = 0) (r : Row K) (j : Nat) :
    denE (discountTrustVector t { D with rows := D.rows.set i r }).entries j
      = denE (discountTrustVector t D).entries j := by
  apply discount_zero_rep_general t D _ ht
  intro k hk j
  have hne : i ≠ k := fun e => hk (e ▸ hz)
  simp only [denRows, List.getD_eq_getElem?_getD, List.getElem?_set_ne hne]

/-- the same, at the level of the stored entry lists (not only the dense values): two distrust
    matrices with equally many rows whose rows coincide for every peer with a non-zero score
    produce the *identical* result. -/
theorem discount_zero_rep_exact (t : Vec K) (D D' : CSM K) (hs : Sorted t.entries)
    (hl : D'.rows.length = D.rows.length)
    (h : ∀ i, denE t.entries i ≠ 0 → D'.rows.getD i [] = D.rows.getD i []) :
    discountTrustVector t D' = discountTrustVector t D := by
  unfold discountTrustVector
  rw [zipIdx_eq_map_of_length_eq D.rows D'.rows hl,
    discountLoop_map_rows (fun p => D'.rows.getD p.2 []) t.entries D.rows.zipIdx t.entries hs
      (zipIdx_pairwise _ 0)]
  intro p hp hne
  rw [h p.2 hne]
  obtain ⟨_, h1, h2⟩ := List.mem_zipIdx hp
  simp only [Nat.sub_zero, Nat.zero_add] at h1 h2
  rw [h2, List.getD_eq_getElem?_getD, List.getElem?_eq_getElem h1]; rfl

/-- replacing the distrust row of a zero-score peer leaves the result *identical*. -/
theorem discount_zero_rep_set_exact (t : Vec K) (D : CSM K) (hs : Sorted t.entries) (i : Nat)
    (hz : denE t.entries i = 0) (r : Row K) :
    discountTrustVector t { D with rows := D.rows.set i r } = discountTrustVector t D := by
  apply discount_zero_rep_exact t D _ hs (by simp)
  intro k hk
  have hne : i ≠ k := fun e => hk (e ▸ hz)
  simp only [List.getD_eq_getElem?_getD, List.getElem?_set_ne hne]

/-! ### non-vacuity at `K := ℚ` -/

section examples

-- `ℚ` carries two `Scalar` instances (`ratScalar` for the driver, `fieldScalar` for proofs);
-- the examples use the proof instance.
attribute [local instance 10000] fieldScalar

/-- a 2×2 local trust with one negative entry in each row -/
private def exL : CSM ℚ := ⟨2, 2, [[⟨0, 1⟩, ⟨1, -2⟩], [⟨0, -1⟩]], []⟩
private def exP : CSM ℚ := ⟨2, 2, [[⟨0, 1⟩], []], []⟩
private def exD : CSM ℚ := ⟨2, 2, [[⟨1, 2⟩], [⟨0, 1⟩]], []⟩

private theorem ex_extract : extractDistrust exL = .ok (exP, exD) := by
  simp [extractDistrust, CSM.dim, exL, exP, exD, splitRow, Scalar.ge]

private theorem ex_rows_wf : ∀ r ∈ exL.rows, WF 2 r := by
  intro r hr
  simp only [exL, List.mem_cons, List.not_mem_nil, or_false] at hr
  rcases hr with rfl | rfl <;> simp [WF, Sorted]

example : denRows exL.rows 0 1 = denRows exP.rows 0 1 - denRows exD.rows 0 1 :=
  extract_split ex_extract 0 1
example : (∀ r ∈ exP.rows, ∀ e ∈ r, 0 ≤ e.val) ∧ (∀ r ∈ exD.rows, ∀ e ∈ r, 0 < e.val) :=
  extract_signs ex_extract
example : ∀ a ∈ exP.rows.getD 0 [], ∀ b ∈ exD.rows.getD 0 [], a.idx ≠ b.idx :=
  extract_disjoint ex_extract (fun r hr => (ex_rows_wf r hr).1) 0
example : (∀ r ∈ exP.rows, WF 2 r) ∧ (∀ r ∈ exD.rows, WF 2 r) :=
  extract_wf ex_extract 2 ex_rows_wf
example : extractDistrust (⟨2, 3, [[], []], []⟩ : CSM ℚ) = .error .dimMismatch :=
  extract_error _ (by simp)

/-- scores (1/2, 0, 1/2); peer 0 distrusts peer 2, peer 1 (zero score) distrusts peer 0 -/
private def exT : Vec ℚ := ⟨3, [⟨0, 1/2⟩, ⟨2, 1/2⟩]⟩
private def exDm : CSM ℚ := ⟨3, 3, [[⟨2, 1⟩], [⟨0, 1⟩], []], []⟩

private theorem exT_wf : WF exT.dim exT.entries := by simp [WF, Sorted, exT]

example (j : Nat) : denE (discountTrustVector exT exDm).entries j
    = denE exT.entries j - ∑ i ∈ Finset.range exT.dim, denE exT.entries i * denRows exDm.rows i j :=
  discount_spec exT exDm exT_wf j
example : WF 3 (discountTrustVector exT exDm).entries :=
  discount_wf exT exDm exT_wf (by
    intro r hr
    simp only [exDm, List.mem_cons, List.not_mem_nil, or_false] at hr
    rcases hr with rfl | rfl | rfl <;> simp [WF, Sorted, exT])
/-- the concrete outcome: peer 2 loses `t_0 * D_02 = 1/2`; the row of zero-score peer 1 is ignored -/
example : discountTrustVector exT exDm = ⟨3, [⟨0, 1/2⟩, ⟨2, 0⟩]⟩ := by
  simp [discountTrustVector, exT, exDm, discountLoop, List.zipIdx, Vec.scale, scaleEntries,
    subEntries, negEntries]
example (r : Row ℚ) (j : Nat) :
    denE (discountTrustVector exT { exDm with rows := exDm.rows.set 1 r }).entries j
      = denE (discountTrustVector exT exDm).entries j :=
  discount_zero_rep exT exDm exT_wf 1 (by simp [exT]) r j
example (r : Row ℚ) :
    discountTrustVector exT { exDm with rows := exDm.rows.set 1 r } = discountTrustVector exT exDm :=
  discount_zero_rep_set_exact exT exDm exT_wf.1 1 (by simp [exT]) r

end examples

end EtVerif.C08
