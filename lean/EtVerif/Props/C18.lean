/-
  C18 — Flat-tail termination and statistics.

  `obs : List (List Nat × α)` is the sequence of `(ranking, squared delta)` pairs fed to
  `FlatTailStats.update`, oldest first; `ftFold obs` the resulting statistics;
  `runs obs : List (List Nat × α × Nat)` the decomposition of `obs` into maximal runs of equal
  consecutive rankings, each as `(ranking, delta at the head of the run, size)`
  (Proofs/FlatTail.lean).  "Run length" in the property text is `size − 1`.

  Vocabulary from Proofs/Loop.lean: `initState`, `iterate`, `obsAt … k =
  (rankOf (iterate … k t0) nl, dsqAt … k)`, `convergedAt`, `nonFiniteAt`, `flatAt`, `maxHit`.
-/
import EtVerif.Proofs.Loop

namespace EtVerif.C18
open EtVerif Scalar

section stats
variable {α : Type} [Scalar α]

/-! ### the specification `runs` is the decomposition into maximal runs -/

omit [Scalar α] in
/-- `runs obs` expands to the observed rankings, consecutive runs differ (maximality), every run
    is non-empty, and the delta recorded for a run is the delta observed at its first element
    (the run preceded by `pre` starts at position `Σ sizes of pre`). -/
theorem runs_spec (obs : List (List Nat × α)) :
    (runs obs).flatMap (fun x => List.replicate x.2.2 x.1) = obs.map (·.1) ∧
    (runs obs).IsChain (fun a b => a.1 ≠ b.1) ∧
    (∀ x ∈ runs obs, 1 ≤ x.2.2) ∧
    (∀ pre run post, runs obs = pre ++ run :: post →
      obs[(pre.map (·.2.2)).sum]? = some (run.1, run.2.1)) ∧
    (runs obs = [] ↔ obs = []) :=
  ⟨runs_flatten obs, runs_isChain obs, runs_pos obs, runs_head_delta obs, runs_eq_nil_iff⟩

/-! ### 4. the statistics as functions of the observation sequence -/

/-- no check performed: the statistics are the initial ones (`ranking = nil`) -/
theorem ft_empty : ftFold ([] : List (List Nat × α)) = FlatTailStats.init := rfl

/-- `length` is the size of the final run of identical rankings minus one -/
theorem ft_length (obs : List (List Nat × α)) (h : obs ≠ []) :
    (ftFold obs).length + 1 = ((runs obs).getLast (runs_ne_nil h)).2.2 :=
  ftFold_length_run h

/-- `ranking` is the ranking of the final run, i.e. the last observed ranking -/
theorem ft_ranking (obs : List (List Nat × α)) (h : obs ≠ []) :
    (ftFold obs).ranking = some ((runs obs).getLast (runs_ne_nil h)).1 ∧
    (ftFold obs).ranking = some (obs.getLast h).1 := by
  refine ⟨ftFold_ranking_run h, ?_⟩
  rw [ftFold_ranking_last, List.getLast?_eq_some_getLast h]; rfl

/-- `deltaNorm` (kept squared) is the delta at the head of the final run -/
theorem ft_delta (obs : List (List Nat × α)) (h : obs ≠ []) :
    (ftFold obs).deltaSq = ((runs obs).getLast (runs_ne_nil h)).2.1 :=
  ftFold_deltaSq_run h

/-- `threshold` is `max 1 (max over all earlier runs of their size)`; since a run of size `r`
    has "length" `r − 1`, this is one more than the longest earlier (broken) run, at least 1.
    The second part spells the maximum out. -/
theorem ft_threshold (obs : List (List Nat × α)) :
    (ftFold obs).threshold = ((runs obs).dropLast.map (·.2.2)).foldl max 1 ∧
    1 ≤ (ftFold obs).threshold ∧
    (∀ x ∈ (runs obs).dropLast, x.2.2 ≤ (ftFold obs).threshold) ∧
    ((ftFold obs).threshold = 1 ∨ ∃ x ∈ (runs obs).dropLast, x.2.2 = (ftFold obs).threshold) := by
  have h := ftFold_threshold_run obs
  obtain ⟨h1, h2, h3⟩ := foldl_max_spec ((runs obs).dropLast.map (·.2.2)) 1
  rw [← h] at h1 h2 h3
  refine ⟨h, h1, fun x hx => h2 _ (List.mem_map.mpr ⟨x, hx, rfl⟩), ?_⟩
  rcases h3 with h3 | h3
  · exact Or.inl h3
  · obtain ⟨x, hx, hxe⟩ := List.mem_map.mp h3
    exact Or.inr ⟨x, hx, hxe⟩

/-- `Reached()` (`length ≥ L`) holds iff the last `L+1` observed rankings are identical -/
theorem ft_reached_iff (obs : List (List Nat × α)) (h : obs ≠ []) (L : Nat) :
    L ≤ (ftFold obs).length ↔
      L + 1 ≤ obs.length ∧ ∃ r, ∀ o ∈ obs.drop (obs.length - (L + 1)), o.1 = r :=
  ftFold_reached_iff obs h L

/-! ### 5. the stop rule of `computeLoop` with a flat tail -/

section loop
variable (ct : List (Row α)) (ap : List (Entry α)) (q e : α) (minI freq : Nat)
  (maxI : Option Nat) (flatTail nl : Nat)

/-- The statistics returned by the loop are the fold over the checks performed (oldest first)
    of the observations `(rankOf t_k numLeaders, dsq_k)`, `t_k` the `k`-th iterate. -/
theorem ft_stats (fuel : Nat) (t0 : List (Entry α)) (s : LoopState α) (by_ : EndedBy)
    (h : computeLoop ct ap q e minI freq maxI flatTail nl fuel (initState t0) = (s, by_)) :
    s.stats = ftFold (s.checks.reverse.map (obsAt ct ap q minI freq nl t0)) ∧
    ∀ k, obsAt ct ap q minI freq nl t0 k =
      (rankOf (iterate ct ap q k t0) nl, dsqAt ct ap q minI freq t0 k) :=
  ⟨(loop_spec ct ap q e minI freq maxI flatTail nl fuel t0 s by_ h).2.2.2.1, fun _ => rfl⟩

/-- the reported ranking is the ranking of the last checked iterate (`nil` with no check) -/
theorem ft_ranking_last_check (fuel : Nat) (t0 : List (Entry α)) (s : LoopState α)
    (by_ : EndedBy)
    (h : computeLoop ct ap q e minI freq maxI flatTail nl fuel (initState t0) = (s, by_)) :
    s.stats.ranking = s.checks.head?.map (fun k => rankOf (iterate ct ap q k t0) nl) := by
  rw [(ft_stats ct ap q e minI freq maxI flatTail nl fuel t0 s by_ h).1, ftFold_ranking_last]
  cases s.checks with
  | nil => rfl
  | cons k tl => simp [obsAt]

/-- the flat-tail verdict of a scheduled check at iteration `k`: the rankings of the last
    `flatTail + 1` checks up to and including `k` are identical -/
theorem flatAt_iff (t0 : List (Entry α)) (k : Nat) (hk : isCheck minI freq k = true) :
    flatAt ct ap q minI freq flatTail nl t0 k = true ↔
      (let obs := (sched minI freq (k + 1)).reverse.map (obsAt ct ap q minI freq nl t0)
       flatTail + 1 ≤ obs.length ∧
        ∃ r, ∀ o ∈ obs.drop (obs.length - (flatTail + 1)), o.1 = r) := by
  unfold flatAt statsBefore
  rw [decide_eq_true_iff]
  apply ftFold_reached_iff
  rw [sched_succ, if_pos hk]
  simp

/-- The same verdict spelled out on the schedule: at the `i`-th scheduled check
    `k = minI + i·freq` the flat tail is reached iff at least `flatTail` checks precede it and
    the rankings at the `flatTail + 1` consecutive checks `k − flatTail·freq, …, k − freq, k`
    are identical. -/
theorem flatAt_iff_consecutive (hf : 1 ≤ freq) (t0 : List (Entry α)) (i : Nat) :
    flatAt ct ap q minI freq flatTail nl t0 (minI + i * freq) = true ↔
      flatTail ≤ i ∧ ∀ j, j ≤ flatTail →
        rankOf (iterate ct ap q (minI + (i - j) * freq) t0) nl
          = rankOf (iterate ct ap q (minI + i * freq) t0) nl := by
  unfold flatAt
  rw [decide_eq_true_iff]
  exact flat_length_iff ct ap q minI freq nl hf t0 flatTail i

/-- A run ended by the criteria stopped at a scheduled check (before the iteration limit) at
    which convergence holds and the flat tail is reached — `stats.length ≥ flatTail`, i.e. the
    last `flatTail + 1` checked rankings are identical — and at no earlier scheduled check both
    held (nor was a delta non-finite). -/
theorem ft_stop (fuel : Nat) (t0 : List (Entry α)) (s : LoopState α)
    (h : computeLoop ct ap q e minI freq maxI flatTail nl fuel (initState t0) = (s, .criteria)) :
    isCheck minI freq s.iter = true ∧ (∀ m, maxI = some m → s.iter < m) ∧
    convergedAt ct ap q e minI freq t0 s.iter = true ∧
    flatTail ≤ s.stats.length ∧
    (let obs := s.checks.reverse.map (obsAt ct ap q minI freq nl t0)
     flatTail + 1 ≤ obs.length ∧ ∃ r, ∀ o ∈ obs.drop (obs.length - (flatTail + 1)), o.1 = r) ∧
    (∀ k, k < s.iter → isCheck minI freq k = true →
      nonFiniteAt ct ap q minI freq t0 k = false ∧
      ¬ (convergedAt ct ap q e minI freq t0 k = true ∧
          flatAt ct ap q minI freq flatTail nl t0 k = true)) := by
  obtain ⟨_, hbef, _, hst, _, _, _, hcr⟩ :=
    loop_spec ct ap q e minI freq maxI flatTail nl fuel t0 s .criteria h
  obtain ⟨_, c1, c2, _, c4, c5, c6⟩ := hcr rfl
  have hlen : flatTail ≤ s.stats.length := by
    have : s.stats = statsBefore ct ap q minI freq nl t0 (s.iter + 1) := by
      rw [hst, c6]; rfl
    rw [this]
    simpa [flatAt] using c5
  have hne : s.checks.reverse.map (obsAt ct ap q minI freq nl t0) ≠ [] := by
    rw [c6, sched_succ, if_pos c2]; simp
  refine ⟨c2, fun m hm => lt_of_maxHit_false c1 hm, c4, hlen, ?_, ?_⟩
  · rw [hst] at hlen
    exact (ftFold_reached_iff _ hne flatTail).mp hlen
  · intro k hk hck
    have := (hbef k hk).2
    simp only [stopAt, hck, Bool.true_and, Bool.or_eq_false_iff, Bool.and_eq_false_iff] at this
    refine ⟨this.1, ?_⟩
    rintro ⟨a1, a2⟩
    rcases this.2 with h' | h'
    · rw [a1] at h'; cases h'
    · rw [a2] at h'; cases h'

/-- Conversely the loop stops at the **first** such check: if `K` is a scheduled check before
    the iteration limit with a finite delta at which convergence holds and the flat tail is
    reached, and at no earlier scheduled check the delta was non-finite or both held, then (for
    any fuel `> K`) the loop ends by the criteria after exactly `K` iterations. -/
theorem ft_stop_first (fuel : Nat) (t0 : List (Entry α)) (K : Nat) (hK : K < fuel)
    (hmax : ∀ m, maxI = some m → K < m)
    (hcheck : isCheck minI freq K = true)
    (hfin : nonFiniteAt ct ap q minI freq t0 K = false)
    (hconv : convergedAt ct ap q e minI freq t0 K = true)
    (hflat : flatAt ct ap q minI freq flatTail nl t0 K = true)
    (hbefore : ∀ k, k < K → isCheck minI freq k = true →
      nonFiniteAt ct ap q minI freq t0 k = false ∧
      ¬ (convergedAt ct ap q e minI freq t0 k = true ∧
          flatAt ct ap q minI freq flatTail nl t0 k = true))
    (s : LoopState α) (by_ : EndedBy)
    (h : computeLoop ct ap q e minI freq maxI flatTail nl fuel (initState t0) = (s, by_)) :
    s.iter = K ∧ by_ = .criteria := by
  have hmaxF : ∀ k, k ≤ K → maxHit maxI k = false := by
    intro k hk
    cases hm : maxI with
    | none => rfl
    | some m => have := hmax m hm; simp [maxHit_some]; omega
  have hb : ∀ k, k < K → maxHit maxI k = false ∧
      stopAt ct ap q e minI freq flatTail nl t0 k = false := by
    intro k hk
    refine ⟨hmaxF k (by omega), ?_⟩
    cases hc : isCheck minI freq k with
    | false => simp [stopAt, hc]
    | true =>
      obtain ⟨b1, b2⟩ := hbefore k hk hc
      simp only [stopAt, hc, b1, Bool.true_and, Bool.false_or, Bool.and_eq_false_iff]
      by_cases hcv : convergedAt ct ap q e minI freq t0 k = true
      · right
        cases hfl : flatAt ct ap q minI freq flatTail nl t0 k with
        | false => rfl
        | true => exact absurd ⟨hcv, hfl⟩ b2
      · left; simpa using hcv
  obtain ⟨h1, h2, h3⟩ := loop_first ct ap q e minI freq maxI flatTail nl fuel t0 K hK hb
    (Or.inr (by simp [stopAt, hcheck, hconv, hflat])) s by_ h
  refine ⟨h1, ?_⟩
  obtain ⟨_, _, _, _, _, _, hnf, _⟩ :=
    loop_spec ct ap q e minI freq maxI flatTail nl fuel t0 s by_ h
  cases by_ with
  | outOfFuel => exact absurd rfl h2
  | maxIterations => have := h3.mp rfl; rw [hmaxF K (le_refl K)] at this; cases this
  | nonFinite => have := (hnf rfl).2.2.2.1; rw [h1, hfin] at this; cases this
  | criteria => rfl

/-- a run ended by the criteria reports the ranking of the *returned* vector -/
theorem ft_ranking_returned (fuel : Nat) (t0 : List (Entry α)) (s : LoopState α)
    (h : computeLoop ct ap q e minI freq maxI flatTail nl fuel (initState t0) = (s, .criteria)) :
    s.stats.ranking = some (rankOf s.t1 nl) := by
  obtain ⟨_, _, ht, _, _, _, _, hcr⟩ :=
    loop_spec ct ap q e minI freq maxI flatTail nl fuel t0 s .criteria h
  obtain ⟨_, _, c2, _, _, _, c6⟩ := hcr rfl
  rw [ft_ranking_last_check ct ap q e minI freq maxI flatTail nl fuel t0 s _ h, c6, sched_succ,
    if_pos c2, ht]
  rfl

end loop

/-- At the level of `compute`: the reported statistics are the fold over the performed checks
    (`r.checks`, oldest first) of `(ranking of the k-th iterate, delta at check k)`, with
    `numLeaders = 0` standing for all `n` peers; a run ended by the criteria reports the ranking
    of the returned vector and `length ≥ flatTail`. -/
theorem compute_stats (fuel : Nat) (c : CSM α) (p : Vec α) (a e : α) (o : ComputeOpts α)
    (r : ComputeResult α) (h : compute fuel c p a e o = .ok r) :
    r.stats = ftFold (r.checks.map (obsAt c.transpose.rows (Vec.scale a p).entries (sub one a)
        (o.minIterations.getD (o.checkFreq.getD 1)).toNat (o.checkFreq.getD 1).toNat
        (if o.numLeaders = 0 then c.major else o.numLeaders) (o.t0.getD p).entries)) ∧
    (r.endedBy = .criteria →
      r.stats.ranking
        = some (rankOf r.t.entries (if o.numLeaders = 0 then c.major else o.numLeaders)) ∧
      o.flatTail ≤ r.stats.length) := by
  obtain ⟨_, _, s, hl, hr⟩ := compute_ok_inv fuel c p a e o r h
  unfold loopOf at hl
  have h1 := (ft_stats _ _ _ _ _ _ _ _ _ fuel _ s r.endedBy hl).1
  have e1 : r.stats = s.stats := by rw [hr]
  have e2 : r.checks = s.checks.reverse := by rw [hr]
  have e3 : r.t.entries = s.t1 := by rw [hr]
  refine ⟨by rw [e1, e2, h1], ?_⟩
  intro hby
  rw [hby] at hl
  rw [e1, e3]
  exact ⟨ft_ranking_returned _ _ _ _ _ _ _ _ _ fuel _ s hl,
    (ft_stop _ _ _ _ _ _ _ _ _ fuel _ s hl).2.2.2.1⟩

end stats

/-! ### 6. the ranking lists the top-scored peers in score order -/

section ranking
variable {K : Type} [Field K] [LinearOrder K]

/-- For an entry list with pairwise distinct values: `rankOf t nl` has `min nl nnz` elements;
    the entries split (as a permutation) into `rest ++ top` such that the ranking is the list of
    indices of `top`, `top` is strictly increasing in value, and every entry of `rest` scores
    strictly below every entry of `top`. -/
theorem ft_ranking_top (t : List (Entry K)) (nl : Nat)
    (hval : t.Pairwise (fun a b => a.val ≠ b.val)) :
    (rankOf t nl).length = min nl t.length ∧
    ∃ rest top : List (Entry K),
      (rest ++ top).Perm t ∧ top.length = min nl t.length ∧
      rankOf t nl = top.map (·.idx) ∧
      top.Pairwise (fun a b => a.val < b.val) ∧
      ∀ a ∈ rest, ∀ b ∈ top, a.val < b.val :=
  ⟨rankOf_length t nl, rankOf_top t nl hval⟩

/-- Index form (distinct indices, distinct values): a listed peer scores strictly higher than
    every unlisted peer. -/
theorem ft_ranking_dominates (t : List (Entry K)) (nl : Nat)
    (hval : t.Pairwise (fun a b => a.val ≠ b.val)) (hidx : (t.map (·.idx)).Nodup)
    (x y : Entry K) (hx : x ∈ t) (hy : y ∈ t)
    (hyr : y.idx ∈ rankOf t nl) (hxr : x.idx ∉ rankOf t nl) : x.val < y.val :=
  rankOf_dominates t nl hval hidx x y hx hy hyr hxr

/-- `numLeaders = 0` is replaced by `n` in `compute`; with `numLeaders ≥ nnz` every peer is
    listed, in ascending score order. -/
theorem ft_ranking_all (t : List (Entry K)) (nl : Nat) (h : t.length ≤ nl) :
    rankOf t nl = (sortByVal t).map (·.idx) ∧ (sortByVal t).Perm t ∧
      (sortByVal t).Pairwise (fun a b => a.val ≤ b.val) :=
  ⟨rankOf_all t nl h, sortByVal_perm t, sortByVal_sorted t⟩

end ranking

/-! ### non-vacuity -/

section examples

/-- rankings `A … F` as one-element lists, deltas `1/(position+1)` -/
private def mkObs (l : List Nat) : List (List Nat × Rat) :=
  l.zipIdx.map fun (r, i) => ([r], 1 / ((i : Rat) + 1))

/-- the ranking pattern `ABCDDEEEEFFFFFFFFFF` of the OpenAPI description -/
private def pat : List (List Nat × Rat) :=
  mkObs [0, 1, 2, 3, 3, 4, 4, 4, 4, 5, 5, 5, 5, 5, 5, 5, 5, 5, 5]

example : (runs pat).map (fun x => (x.1, x.2.2)) =
    [([0], 1), ([1], 1), ([2], 1), ([3], 2), ([4], 4), ([5], 10)] := by decide +kernel

/-- threshold 4 (the broken `EEEE` run), length 9 (`F` ×10), delta at the head of the `F` run
    (the 10th observation), ranking `F` -/
example : (ftFold pat).threshold = 4 ∧ (ftFold pat).length = 9 ∧
    (ftFold pat).deltaSq = 1 / 10 ∧ (ftFold pat).ranking = some [5] := by decide +kernel

/-- a two-peer run with `flatTail = 2`: checks at 1, 2, 3, 4; the flat tail (3 identical
    rankings) is reached at the 3rd check but convergence only at the 4th -/
private def c2 : CSM Rat := ⟨2, 2, [[⟨1, 1⟩], [⟨0, 1⟩]], []⟩
private def p2 : Vec Rat := ⟨2, [⟨0, 1⟩]⟩

private def view (r : Except SErr (ComputeResult Rat)) : Option (Nat × List Nat × EndedBy) :=
  match r with
  | .ok r => some (r.iters, r.checks, r.endedBy)
  | .error _ => none
private def viewStats (r : Except SErr (ComputeResult Rat)) :
    Option (Nat × Nat × Option (List Nat)) :=
  match r with
  | .ok r => some (r.stats.length, r.stats.threshold, r.stats.ranking)
  | .error _ => none

example : view (compute 100 c2 p2 (1/2) (1/10) { flatTail := 2 })
    = some (4, [1, 2, 3, 4], .criteria) := by
  decide +kernel

example : viewStats (compute 100 c2 p2 (1/2) (1/10) { flatTail := 2 })
    = some (3, 1, some [1, 0]) := by
  decide +kernel

/-- with `flatTail = 5` the same input stops only at the 6th check: convergence holds from the
    4th check on, six identical rankings are needed -/
example : view (compute 100 c2 p2 (1/2) (1/10) { flatTail := 5 })
    = some (6, [1, 2, 3, 4, 5, 6], .criteria) := by
  decide +kernel

/-- hypotheses of `ft_stop_first` for that run (`K = 4`, `flatTail = 2`, two leaders) -/
example :
    isCheck 1 1 4 = true ∧
    nonFiniteAt c2.transpose.rows (Vec.scale (1/2) p2).entries (1/2 : Rat) 1 1 p2.entries 4 = false ∧
    convergedAt c2.transpose.rows (Vec.scale (1/2) p2).entries (1/2 : Rat) (1/10) 1 1 p2.entries 4 = true ∧
    flatAt c2.transpose.rows (Vec.scale (1/2) p2).entries (1/2 : Rat) 1 1 2 2 p2.entries 4 = true ∧
    (∀ k, k < 4 → isCheck 1 1 k = true →
      nonFiniteAt c2.transpose.rows (Vec.scale (1/2) p2).entries (1/2 : Rat) 1 1 p2.entries k = false ∧
      ¬ (convergedAt c2.transpose.rows (Vec.scale (1/2) p2).entries (1/2 : Rat) (1/10) 1 1 p2.entries k = true ∧
          flatAt c2.transpose.rows (Vec.scale (1/2) p2).entries (1/2 : Rat) 1 1 2 2 p2.entries k = true)) := by
  decide +kernel

/-- `ft_ranking_top` at `K := ℚ`: scores `0.40, 0.17, 0.43`, one leader: peer 2 (the highest) -/
example : @rankOf ℚ fieldScalar [⟨0, 2/5⟩, ⟨1, 17/100⟩, ⟨2, 43/100⟩] 1 = [2] := by
  decide +kernel

example : ([⟨0, 2/5⟩, ⟨1, 17/100⟩, ⟨2, 43/100⟩] : List (Entry ℚ)).Pairwise
    (fun a b => a.val ≠ b.val) ∧
    (([⟨0, 2/5⟩, ⟨1, 17/100⟩, ⟨2, 43/100⟩] : List (Entry ℚ)).map (·.idx)).Nodup := by
  constructor
  · simp; norm_num
  · simp

end examples

end EtVerif.C18
