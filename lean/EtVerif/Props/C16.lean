/-
  C16 — gRPC TrustMatrix / TrustVector services (pkg/basic/server/grpc: trustmatrix.go,
  trustvector.go, biguintqwords.go), on the model `Model/Grpc.lean`.

  For every sequence of Create/Update/Get/Flush/Delete calls, `Get` streams a header followed by
  exactly the non-zero entries of the last-writer-wins overlay of all updates since the last
  flush (a zero value erases an entry), created ids are unique, calls on unknown ids report
  NotFound; the timestamp is the largest update timestamp since the last flush, and timestamps of
  any size survive the qword encoding.

  Vocabulary (Proofs/GrpcLemmas.lean): `lookup` / `store` / `erase` = the id-indexed store;
  `mEntries m` / `vEntries v` = the entry stream of `Get`; `coordLt` = strict lexicographic order
  on (row, column); `GoodM tm` = stored matrix is `WFM`, `HiddenClean` and square;
  `GoodV tv` = stored vector is `WF`; `C11.assign f ⟨i, j, x⟩` = the dense map `f` with cell
  `(i, j)` set to `x`; `assignV` likewise for vectors.
-/
import EtVerif.Proofs.GrpcLemmas
import Mathlib.Algebra.Order.Field.Rat
import Mathlib.Tactic.NormNum

namespace EtVerif.C16
open EtVerif EtVerif.Grpc EtVerif.GrpcL

variable {K : Type} [Field K] [LinearOrder K]

set_option linter.unusedSectionVars false

/-! ## 1. qword encoding of timestamps (biguintqwords.go) -/

/-- `Qwords2BigUint (BigUint2Qwords n) = n` for every natural number, of any size. -/
theorem qwords_roundtrip (n : Nat) : qwords2Nat (nat2Qwords n) = n := by
  unfold nat2Qwords
  rw [qwords2Nat_reverse, leVal_qwordsLE n n (Nat.le_refl n)]

/-- canonical word list: every word fits 64 bits and there is no leading zero word -/
def Canonical (ws : List Nat) : Prop := (∀ w ∈ ws, w < 2 ^ 64) ∧ ws.head? ≠ some 0

theorem canonical_iff (ws : List Nat) : Canonical ws ↔ CanonLE ws.reverse := by
  unfold Canonical CanonLE
  rw [List.getLast?_reverse]
  constructor
  · rintro ⟨h1, h2⟩; exact ⟨fun d hd => h1 d (List.mem_reverse.mp hd), h2⟩
  · rintro ⟨h1, h2⟩; exact ⟨fun d hd => h1 d (List.mem_reverse.mpr hd), h2⟩

/-- the encoder only produces canonical lists -/
theorem qwords_canonical (n : Nat) : Canonical (nat2Qwords n) := by
  rw [canonical_iff]
  unfold nat2Qwords
  rw [List.reverse_reverse]
  exact canonLE_qwordsLE n n (Nat.le_refl n)

/-- zero is encoded by the empty list -/
theorem qwords_zero : nat2Qwords 0 = [] := rfl

/-- a positive number is encoded with a non-zero first word -/
theorem qwords_head_ne_zero (n : Nat) (hn : 0 < n) :
    ∃ w ws, nat2Qwords n = w :: ws ∧ w ≠ 0 ∧ w < 2 ^ 64 := by
  have hc := qwords_canonical n
  have hr := qwords_roundtrip n
  cases h : nat2Qwords n with
  | nil => rw [h] at hr; simp [qwords2Nat] at hr; omega
  | cons w ws =>
    rw [h] at hc
    refine ⟨w, ws, rfl, ?_, hc.1 w (by simp)⟩
    intro h0
    exact hc.2 (by simp [h0])

/-- the number of words is `(BitLen(n) + 63) / 64`, as in the Go code
    (`BitLen 0 = 0`, `BitLen n = log2 n + 1`) -/
theorem qwords_length (n : Nat) :
    (nat2Qwords n).length = ((if n = 0 then 0 else Nat.log2 n + 1) + 63) / 64 := by
  by_cases hn : n = 0
  · subst hn; rfl
  · rw [if_neg hn]
    obtain ⟨h1, h2⟩ := qwordsLE_length_bounds n n (Nat.le_refl n)
    unfold nat2Qwords
    rw [List.length_reverse]
    generalize (qwordsLE n n).length = L at h1 h2
    have h2 := h2 hn
    have e : ∀ m, base64 ^ m = 2 ^ (64 * m) := fun m => by unfold base64; rw [← Nat.pow_mul]
    rw [e] at h1 h2
    have hL : L ≠ 0 := by
      intro h0; rw [h0] at h1; simp at h1; omega
    have a1 : Nat.log2 n < 64 * L := (Nat.log2_lt hn).mpr h1
    have a2 : 64 * (L - 1) ≤ Nat.log2 n := (Nat.le_log2 hn).mpr h2
    omega

/-- for `n > 0`: `⌈bitlength / 64⌉` words -/
theorem qwords_length_pos (n : Nat) (hn : 0 < n) :
    (nat2Qwords n).length = (Nat.log2 n + 64) / 64 := by
  rw [qwords_length, if_neg (by omega)]

/-- the decoder computes the big-endian base-2^64 value: the empty list is 0 … -/
theorem qwords_decode_nil : qwords2Nat [] = 0 := rfl

/-- … appending a least significant word shifts by 64 bits … -/
theorem qwords_decode_snoc (ws : List Nat) (w : Nat) :
    qwords2Nat (ws ++ [w]) = qwords2Nat ws * 2 ^ 64 + w := qwords2Nat_append ws w

/-- … equivalently the first word has weight `(2^64)^(number of remaining words)`. -/
theorem qwords_decode_cons (w : Nat) (ws : List Nat) :
    qwords2Nat (w :: ws) = w * (2 ^ 64) ^ ws.length + qwords2Nat ws := qwords2Nat_cons w ws

/-- leading zero words are ignored by the decoder -/
theorem qwords_decode_leading_zero (ws : List Nat) : qwords2Nat (0 :: ws) = qwords2Nat ws := by
  rw [qwords2Nat_cons]; simp

/-- the decoder is injective on canonical lists -/
theorem qwords_injective {ws1 ws2 : List Nat} (h1 : Canonical ws1) (h2 : Canonical ws2)
    (h : qwords2Nat ws1 = qwords2Nat ws2) : ws1 = ws2 := by
  have := leVal_injective ((canonical_iff _).mp h1) ((canonical_iff _).mp h2)
    (by rw [← qwords2Nat_reverse, ← qwords2Nat_reverse, List.reverse_reverse,
          List.reverse_reverse]; exact h)
  exact List.reverse_injective this

/-- decoding then re-encoding a canonical list gives it back -/
theorem qwords_encode_decode {ws : List Nat} (h : Canonical ws) :
    nat2Qwords (qwords2Nat ws) = ws :=
  qwords_injective (qwords_canonical _) h (qwords_roundtrip _)

example : nat2Qwords (2 ^ 64 + 5) = [1, 5] := by decide +kernel
example : qwords2Nat [1, 5] = 2 ^ 64 + 5 := by decide +kernel
example : nat2Qwords (2 ^ 64 - 1) = [2 ^ 64 - 1] ∧ nat2Qwords (2 ^ 128) = [1, 0, 0] := by
  decide +kernel
example : Canonical [1, 0, 5] ∧ ¬ Canonical [0, 5] := by
  unfold Canonical; simp

/-! ## 2. single calls (both services) -/

/-- `Create` with an existing id fails (`Unknown`) and changes nothing; otherwise it adds an
    empty matrix with timestamp 0 and leaves all other ids untouched. -/
theorem create_fresh (s : GState K) (id : String) :
    ((lookup s.mats id).isSome → tmCreateNamed s id = (s, .unknown)) ∧
    ((lookup s.mats id) = none →
      (tmCreateNamed s id).2 = .ok ∧
      tmGet (tmCreateNamed s id).1 id = some (0, []) ∧
      (tmCreateNamed s id).1.vecs = s.vecs ∧
      ∀ id', id' ≠ id → lookup (tmCreateNamed s id).1.mats id' = lookup s.mats id') := by
  constructor
  · intro h; unfold tmCreateNamed; rw [if_pos h]
  · intro h
    have h' : ¬ (lookup s.mats id).isSome = true := by rw [h]; simp
    unfold tmCreateNamed
    rw [if_neg h']
    refine ⟨rfl, ?_, rfl, fun id' hne => lookup_store_ne _ _ hne⟩
    rw [tmGet_eq]
    simp only [lookup_store_self, Option.map_some, mEntries_empty]

/-- `Create` with a server-chosen id behaves the same for the oracle value (a collision is a
    no-op to be retried, so a returned id is always new). -/
theorem create_fresh_oracle (s : GState K) (fresh : String) :
    tmCreateFresh s fresh = tmCreateNamed s fresh := rfl

/-- the same for vectors -/
theorem tv_create_fresh (s : GState K) (id : String) :
    ((lookup s.vecs id).isSome → tvCreateNamed s id = (s, .unknown)) ∧
    ((lookup s.vecs id) = none →
      (tvCreateNamed s id).2 = .ok ∧
      tvGet (tvCreateNamed s id).1 id = some (0, []) ∧
      (tvCreateNamed s id).1.mats = s.mats ∧
      ∀ id', id' ≠ id → lookup (tvCreateNamed s id).1.vecs id' = lookup s.vecs id') := by
  constructor
  · intro h; unfold tvCreateNamed; rw [if_pos h]
  · intro h
    have h' : ¬ (lookup s.vecs id).isSome = true := by rw [h]; simp
    unfold tvCreateNamed
    rw [if_neg h']
    refine ⟨rfl, ?_, rfl, fun id' hne => lookup_store_ne _ _ hne⟩
    rw [tvGet_eq]
    simp only [lookup_store_self, Option.map_some]
    rfl

/-- calls on an id that is not present report NotFound and change nothing -/
theorem unknown_id_not_found (s : GState K) (id : String) (h : lookup s.mats id = none)
    (ts : Nat) (es : List (MEntry K)) :
    tmGet s id = none ∧ tmUpdate s id ts es = (s, .notFound) ∧
    tmFlush s id = (s, .notFound) ∧ tmDelete s id = (s, .notFound) := by
  refine ⟨by rw [tmGet_eq, h]; rfl, by rw [tmUpdate_eq, h], by unfold tmFlush; rw [h], ?_⟩
  unfold tmDelete; rw [h]; rfl

theorem tv_unknown_id_not_found (s : GState K) (id : String) (h : lookup s.vecs id = none)
    (ts : Nat) (es : List (VEntry K)) :
    tvGet s id = none ∧ tvUpdate s id ts es = (s, .notFound) ∧
    tvFlush s id = (s, .notFound) ∧ tvDelete s id = (s, .notFound) := by
  refine ⟨by rw [tvGet_eq, h]; rfl, by rw [tvUpdate_eq, h], by unfold tvFlush; rw [h], ?_⟩
  unfold tvDelete; rw [h]; rfl

/-- the first entry that is not an integer literal makes the parse fail with `Unknown`, a
    negative index with `InvalidArgument` -/
theorem parse_error_codes (es : List (MEntry K)) (c : Code) (h : parseMEntries es = .error c) :
    (c = .unknown ∧ ∃ e ∈ es, e.truster = none ∨ e.trustee = none) ∨
    (c = .invalidArgument ∧ ∃ e ∈ es, ∃ i j : Int, e.truster = some i ∧ e.trustee = some j ∧
      (i < 0 ∨ j < 0)) := by
  induction es with
  | nil => simp [parseMEntries] at h
  | cons e es ih =>
    unfold parseMEntries at h
    split at h
    · cases h; exact Or.inl ⟨rfl, e, by simp, Or.inl (by assumption)⟩
    · split at h
      · cases h; exact Or.inl ⟨rfl, e, by simp, Or.inr (by assumption)⟩
      · rename_i _ i hi _ j hj
        split at h
        · rename_i hneg
          cases h
          refine Or.inr ⟨rfl, e, by simp, i, j, hi, hj, ?_⟩
          simpa using hneg
        · split at h
          · rename_i c' hc'
            cases h
            rcases ih hc' with ⟨h1, e', he', h2⟩ | ⟨h1, e', he', h2⟩
            · exact Or.inl ⟨h1, e', List.mem_cons_of_mem _ he', h2⟩
            · exact Or.inr ⟨h1, e', List.mem_cons_of_mem _ he', h2⟩
          · cases h

/-- an update whose entries fail to parse is refused with the parse error code and leaves the
    state unchanged -/
theorem invalid_update_unchanged (s : GState K) (id : String) (ts : Nat) (es : List (MEntry K))
    (c : Code) (h : parseMEntries es = .error c) :
    (tmUpdate s id ts es).1 = s ∧
    (tmUpdate s id ts es).2 = (if (lookup s.mats id).isSome then c else .notFound) := by
  rw [tmUpdate_eq]
  cases lookup s.mats id with
  | none => exact ⟨rfl, rfl⟩
  | some tm => simp [h]

theorem tv_invalid_update_unchanged (s : GState K) (id : String) (ts : Nat)
    (es : List (VEntry K)) (c : Code) (h : parseVEntries es = .error c) :
    (tvUpdate s id ts es).1 = s ∧
    (tvUpdate s id ts es).2 = (if (lookup s.vecs id).isSome then c else .notFound) := by
  rw [tvUpdate_eq]
  cases lookup s.vecs id with
  | none => exact ⟨rfl, rfl⟩
  | some tm => simp [h]

/-- a successful `Update` never lowers the timestamp: the new one is the maximum of the old one
    and the update's -/
theorem ts_monotone (s : GState K) (id : String) (ts : Nat) (es : List (MEntry K))
    (h : (tmUpdate s id ts es).2 = .ok) :
    ∃ tm tm', lookup s.mats id = some tm ∧ lookup (tmUpdate s id ts es).1.mats id = some tm' ∧
      tm'.ts = max tm.ts ts ∧ tm.ts ≤ tm'.ts ∧ ts ≤ tm'.ts := by
  rw [tmUpdate_eq] at h ⊢
  cases hl : lookup s.mats id with
  | none => rw [hl] at h; cases h
  | some tm =>
    rw [hl] at h
    simp only at h ⊢
    cases hp : parseMEntries es with
    | error c => rw [hp] at h; simp only at h; exact absurd h (by
        intro hc; subst hc
        rcases parse_error_codes es _ hp with ⟨h1, _⟩ | ⟨h1, _⟩ <;> cases h1)
    | ok coos =>
      simp only
      refine ⟨tm, updM tm ts coos, rfl, lookup_store_self _ _ _, rfl, ?_, ?_⟩ <;>
        (show _ ≤ max tm.ts ts; omega)

theorem tv_ts_monotone (s : GState K) (id : String) (ts : Nat) (es : List (VEntry K))
    (tv : TV K) (hl : lookup s.vecs id = some tv) (coos : List (Entry K))
    (hp : parseVEntries es = .ok coos) :
    ∃ tv', lookup (tvUpdate s id ts es).1.vecs id = some tv' ∧
      tv'.ts = max tv.ts ts ∧ tv.ts ≤ tv'.ts ∧ ts ≤ tv'.ts := by
  rw [tvUpdate_eq, hl]
  simp only [hp]
  refine ⟨updV tv ts coos, lookup_store_self _ _ _, rfl, ?_, ?_⟩ <;>
    (show _ ≤ max tv.ts ts; omega)

/-! ## 3. call histories of the TrustMatrix service -/

/-- one call of the TrustMatrix service (`Get` is an observation, not a call of the history) -/
inductive MCall (K : Type) where
  | createNamed (id : String)
  | createFresh (fresh : String)
  | update (id : String) (ts : Nat) (entries : List (MEntry K))
  | flush (id : String)
  | delete (id : String)

/-- state and response code after one call -/
def stepM (s : GState K) : MCall K → GState K × Code
  | .createNamed id => tmCreateNamed s id
  | .createFresh f => tmCreateFresh s f
  | .update id ts es => tmUpdate s id ts es
  | .flush id => tmFlush s id
  | .delete id => tmDelete s id

/-- the state after a history (response codes ignored) -/
def run (s : GState K) (h : List (MCall K)) : GState K := h.foldl (fun s c => (stepM s c).1) s

/-- the response codes of a history -/
def codes (s : GState K) : List (MCall K) → List Code
  | [] => []
  | c :: h => (stepM s c).2 :: codes (stepM s c).1 h

/-- a valid update batch: every index is a non-negative integer literal and the coordinates are
    pairwise distinct -/
def ValidBatch (es : List (MEntry K)) : Prop :=
  (∀ e ∈ es, ∃ i j : Nat, e.truster = some (i : Int) ∧ e.trustee = some (j : Int)) ∧
  (es.map fun e => (e.truster, e.trustee)).Nodup

/-- the weaker condition the theorems need: *if* the batch parses, its coordinates are distinct -/
def DistinctBatch (es : List (MEntry K)) : Prop :=
  ∀ coos, parseMEntries es = .ok coos → (coos.map fun e => (e.row, e.col)).Nodup

def MCall.Valid : MCall K → Prop
  | .update _ _ es => ValidBatch es
  | _ => True

def MCall.Distinct : MCall K → Prop
  | .update _ _ es => DistinctBatch es
  | _ => True

/-- what a batch parses to -/
theorem parse_ok_eq (es : List (MEntry K)) (coos : List (Coo K))
    (h : parseMEntries es = .ok coos) :
    coos = es.map fun e => ⟨(e.truster.getD 0).toNat, (e.trustee.getD 0).toNat, e.value⟩ := by
  induction es generalizing coos with
  | nil => simp [parseMEntries] at h; subst h; rfl
  | cons e es ih =>
    unfold parseMEntries at h
    split at h
    · cases h
    · split at h
      · cases h
      · rename_i _ i hi _ j hj
        split at h
        · cases h
        · split at h
          · cases h
          · rename_i rest hr
            cases h
            rw [List.map_cons, ← ih rest hr, hi, hj]
            rfl

/-- a valid batch parses, and to distinct coordinates -/
theorem validBatch_parses (es : List (MEntry K)) (h : ValidBatch es) :
    ∃ coos, parseMEntries es = .ok coos ∧ (coos.map fun e => (e.row, e.col)).Nodup := by
  obtain ⟨h1, h2⟩ := h
  have hp : ∃ coos, parseMEntries es = .ok coos := by
    clear h2
    induction es with
    | nil => exact ⟨[], rfl⟩
    | cons e es ih =>
      obtain ⟨i, j, hi, hj⟩ := h1 e (by simp)
      obtain ⟨rest, hr⟩ := ih (fun e' he' => h1 e' (by simp [he']))
      refine ⟨⟨i, j, e.value⟩ :: rest, ?_⟩
      unfold parseMEntries
      rw [hi, hj]
      simp only [hr]
      have : ¬ (((i : Int) < 0 || (j : Int) < 0) = true) := by simp
      rw [if_neg this]
      simp
  obtain ⟨coos, hc⟩ := hp
  refine ⟨coos, hc, ?_⟩
  rw [parse_ok_eq es coos hc, List.map_map]
  have : (es.map fun e => (e.truster, e.trustee)).Nodup := h2
  rw [List.nodup_map_iff_inj_on (List.Nodup.of_map _ this)]
  have hinj := List.inj_on_of_nodup_map this
  intro a ha b hb hab
  apply hinj ha hb
  obtain ⟨i, j, hi, hj⟩ := h1 a ha
  obtain ⟨i', j', hi', hj'⟩ := h1 b hb
  simp only [Function.comp, hi, hj, hi', hj', Option.getD_some, Int.toNat_natCast,
    Prod.mk.injEq] at hab ⊢
  rw [hab.1, hab.2]; exact ⟨rfl, rfl⟩

theorem validBatch_distinct (es : List (MEntry K)) (h : ValidBatch es) : DistinctBatch es := by
  obtain ⟨coos, hc, hd⟩ := validBatch_parses es h
  intro coos' hc'
  rw [hc] at hc'
  cases hc'
  exact hd

theorem MCall.Valid.distinct {c : MCall K} (h : c.Valid) : c.Distinct := by
  cases c <;> first | trivial | exact validBatch_distinct _ h

/-! ### the specification, read off the history newest call first -/

/-- `id` is live: the most recent `Create`/`Delete` addressed to it is a `Create`
    (history given newest first) -/
def liveRev : List (MCall K) → String → Bool
  | [], _ => false
  | .createNamed i :: r, id => if i = id then true else liveRev r id
  | .createFresh i :: r, id => if i = id then true else liveRev r id
  | .delete i :: r, id => if i = id then false else liveRev r id
  | .update _ _ _ :: r, id => liveRev r id
  | .flush _ :: r, id => liveRev r id

/-- the successful updates `(timestamp, parsed batch)` to `id` since its last flush / creation,
    newest first (history given newest first).  An update is successful when the id is live at
    that moment and the batch parses. -/
def sinceRev : List (MCall K) → String → List (Nat × List (Coo K))
  | [], _ => []
  | .createNamed _ :: r, id => sinceRev r id
  | .createFresh _ :: r, id => sinceRev r id
  | .delete i :: r, id => if i = id then [] else sinceRev r id
  | .flush i :: r, id => if i = id then [] else sinceRev r id
  | .update i ts es :: r, id =>
    match parseMEntries es with
    | .ok coos => if i = id ∧ liveRev r id = true then (ts, coos) :: sinceRev r id else sinceRev r id
    | .error _ => sinceRev r id

/-- `id` is live after the history `h` (oldest call first): created, and not deleted after its
    last creation -/
def live (h : List (MCall K)) (id : String) : Bool := liveRev h.reverse id

/-- the successful updates to `id` since its last flush / creation, oldest first -/
def updatesSince (h : List (MCall K)) (id : String) : List (Nat × List (Coo K)) :=
  (sinceRev h.reverse id).reverse

/-- the last-writer-wins overlay: all entries of all those updates assigned in order to the
    zero matrix (a zero value erases) -/
def content (h : List (MCall K)) (id : String) : Nat → Nat → K :=
  ((updatesSince h id).map (·.2)).flatten.foldl C11.assign (fun _ _ => 0)

/-- the largest timestamp of those updates (0 if none) -/
def stamp (h : List (MCall K)) (id : String) : Nat :=
  ((updatesSince h id).map (·.1)).foldl max 0

/-- before its creation and after a deletion nothing counts -/
theorem sinceRev_of_not_live (hr : List (MCall K)) (id : String) (h : liveRev hr id = false) :
    sinceRev hr id = [] := by
  induction hr with
  | nil => rfl
  | cons c hr ih =>
    cases c with
    | createNamed i =>
      simp only [liveRev] at h
      split at h
      · cases h
      · exact ih h
    | createFresh i =>
      simp only [liveRev] at h
      split at h
      · cases h
      · exact ih h
    | delete i =>
      simp only [liveRev] at h
      simp only [sinceRev]
      split
      · rfl
      · rename_i hne; rw [if_neg hne] at h; exact ih h
    | flush i =>
      simp only [liveRev] at h
      simp only [sinceRev]
      split
      · rfl
      · exact ih h
    | update i ts es =>
      simp only [liveRev] at h
      simp only [sinceRev]
      split
      · rw [if_neg (by rw [h]; simp)]; exact ih h
      · exact ih h

/-- the relation between the store and the specification at one id -/
def InvAt (s : GState K) (hr : List (MCall K)) (id : String) : Prop :=
  match lookup s.mats id with
  | none => liveRev hr id = false
  | some tm => liveRev hr id = true ∧ GoodM tm ∧
      tm.ts = ((sinceRev hr id).reverse.map (·.1)).foldl max 0 ∧
      denRows tm.m.rows =
        ((sinceRev hr id).reverse.map (·.2)).flatten.foldl C11.assign (fun _ _ => 0)

theorem InvAt.congr {s s' : GState K} {hr hr' : List (MCall K)} {id : String}
    (h1 : lookup s'.mats id = lookup s.mats id) (h2 : liveRev hr' id = liveRev hr id)
    (h3 : sinceRev hr' id = sinceRev hr id) (h : InvAt s hr id) : InvAt s' hr' id := by
  unfold InvAt at h ⊢
  rw [h1, h2, h3]; exact h

theorem InvAt.fresh {s' : GState K} {hr' : List (MCall K)} {id : String}
    (h1 : lookup s'.mats id = some ⟨CSM.empty, 0⟩) (h2 : liveRev hr' id = true)
    (h3 : sinceRev hr' id = []) : InvAt s' hr' id := by
  unfold InvAt
  rw [h1, h2, h3]
  exact ⟨rfl, goodM_empty 0, rfl, rfl⟩

theorem InvAt.live_of_some {s : GState K} {hr : List (MCall K)} {id : String} {tm : TM K}
    (h : InvAt s hr id) (hl : lookup s.mats id = some tm) : liveRev hr id = true := by
  unfold InvAt at h; rw [hl] at h; exact h.1

theorem InvAt.not_live_of_none {s : GState K} {hr : List (MCall K)} {id : String}
    (h : InvAt s hr id) (hl : lookup s.mats id = none) : liveRev hr id = false := by
  unfold InvAt at h; rw [hl] at h; exact h

/-- one call preserves the relation at every id -/
theorem inv_step (s : GState K) (hr : List (MCall K)) (c : MCall K) (hd : c.Distinct)
    (h : ∀ id, InvAt s hr id) (id : String) : InvAt (stepM s c).1 (c :: hr) id := by
  have hcreate : ∀ i, InvAt (tmCreateNamed s i).1 (.createNamed i :: hr) id ∧
      InvAt (tmCreateNamed s i).1 (.createFresh i :: hr) id := by
    intro i
    unfold tmCreateNamed
    cases hl : lookup s.mats i with
    | some tm =>
      simp only [Option.isSome_some, if_true]
      by_cases hi : i = id
      · subst hi
        have hlive := (h i).live_of_some hl
        constructor <;>
          exact (h i).congr rfl (by simp [liveRev, hlive]) (by simp [sinceRev])
      · constructor <;>
          exact (h id).congr rfl (by simp [liveRev, hi]) (by simp [sinceRev])
    | none =>
      simp only [Option.isSome_none, Bool.false_eq_true, if_false]
      by_cases hi : i = id
      · subst hi
        have hdead := sinceRev_of_not_live hr i ((h i).not_live_of_none hl)
        constructor <;>
          exact InvAt.fresh (lookup_store_self _ _ _) (by simp [liveRev])
            (by simp [sinceRev, hdead])
      · constructor <;>
          exact (h id).congr (lookup_store_ne _ _ (fun h' => hi h'.symm))
            (by simp [liveRev, hi]) (by simp [sinceRev])
  cases c with
  | createNamed i => exact (hcreate i).1
  | createFresh i => exact (hcreate i).2
  | flush i =>
    simp only [stepM, tmFlush]
    cases hl : lookup s.mats i with
    | none =>
      simp only
      refine (h id).congr rfl (by simp [liveRev]) ?_
      simp only [sinceRev]
      split
      · rename_i hi; subst hi
        exact (sinceRev_of_not_live hr i ((h i).not_live_of_none hl)).symm
      · rfl
    | some tm =>
      simp only
      by_cases hi : i = id
      · subst hi
        exact InvAt.fresh (lookup_store_self _ _ _)
          (by simp [liveRev, (h i).live_of_some hl]) (by simp [sinceRev])
      · exact (h id).congr (lookup_store_ne _ _ (fun h' => hi h'.symm))
          (by simp [liveRev]) (by simp [sinceRev, hi])
  | delete i =>
    simp only [stepM, tmDelete]
    cases hl : lookup s.mats i with
    | none =>
      simp only [Option.isSome_none, Bool.false_eq_true, if_false]
      by_cases hi : i = id
      · subst hi
        have hnl := (h i).not_live_of_none hl
        exact (h i).congr rfl (by simp [liveRev, hnl])
          (by simp [sinceRev, sinceRev_of_not_live hr i hnl])
      · exact (h id).congr rfl (by simp [liveRev, hi]) (by simp [sinceRev, hi])
    | some tm =>
      simp only [Option.isSome_some, if_true]
      by_cases hi : i = id
      · subst hi
        unfold InvAt
        rw [lookup_erase, if_pos rfl]
        simp [liveRev]
      · refine (h id).congr ?_ (by simp [liveRev, hi]) (by simp [sinceRev, hi])
        rw [lookup_erase, if_neg (fun h' => hi h'.symm)]
  | update i ts es =>
    simp only [stepM]
    rw [tmUpdate_eq]
    cases hl : lookup s.mats i with
    | none =>
      simp only
      refine (h id).congr rfl (by simp [liveRev]) ?_
      simp only [sinceRev]
      split
      · rw [if_neg]
        rintro ⟨hi, hlv⟩
        subst hi
        rw [(h i).not_live_of_none hl] at hlv
        cases hlv
      · rfl
    | some tm =>
      simp only
      cases hp : parseMEntries es with
      | error e =>
        simp only
        exact (h id).congr rfl (by simp [liveRev]) (by simp [sinceRev, hp])
      | ok coos =>
        simp only
        by_cases hi : i = id
        · subst hi
          have hI := h i
          unfold InvAt at hI ⊢
          rw [hl] at hI
          obtain ⟨h1, h2, h3, h4⟩ := hI
          rw [lookup_store_self]
          obtain ⟨g1, g2⟩ := updM_good h2 ts (hd coos hp)
          refine ⟨by simpa [liveRev] using h1, g1, ?_, ?_⟩
          · simp only [sinceRev, hp, h1, and_self, if_true, List.reverse_cons, List.map_append,
              List.map_cons, List.map_nil, List.foldl_append, List.foldl_cons, List.foldl_nil]
            rw [← h3]; rfl
          · simp only [sinceRev, hp, h1, and_self, if_true, List.reverse_cons, List.map_append,
              List.map_cons, List.map_nil, List.flatten_append, List.flatten_cons,
              List.flatten_nil, List.append_nil, List.foldl_append]
            rw [← h4]; exact g2
        · refine (h id).congr (lookup_store_ne _ _ (fun h' => hi h'.symm)) (by simp [liveRev]) ?_
          simp [sinceRev, hp, hi]

/-- the store invariant: after any history from the empty state the store and the specification
    agree at every id; in particular every stored matrix is well-formed, square and has a clean
    hidden part -/
theorem run_invariant (h : List (MCall K)) (hd : ∀ c ∈ h, c.Distinct) (id : String) :
    match lookup (run {} h).mats id with
    | none => live h id = false
    | some tm => live h id = true ∧ GoodM tm ∧ tm.ts = stamp h id ∧
        denRows tm.m.rows = content h id := by
  have key : ∀ id, InvAt (run ({} : GState K) h) h.reverse id := by
    induction h using List.reverseRecOn with
    | nil => intro id; exact (rfl : liveRev ([] : List (MCall K)) id = false)
    | append_singleton h c ih =>
      intro id
      have hrun : run ({} : GState K) (h ++ [c]) = (stepM (run {} h) c).1 := by
        unfold run; rw [List.foldl_append]; rfl
      rw [hrun, List.reverse_append, List.reverse_singleton, List.singleton_append]
      exact inv_step _ _ c (hd c (by simp))
        (ih (fun c' hc' => hd c' (by simp [hc']))) id
  exact key id

/-! ### the property theorems -/

/-- **Get.**  For every history of calls with valid update batches, from the empty state:
    `Get id` reports NotFound iff the id is not live; otherwise it streams exactly the non-zero
    cells of the last-writer-wins overlay of all successful updates since the last flush /
    creation, sorted by (row, column), without duplicate coordinates. -/
theorem get_spec (h : List (MCall K)) (hd : ∀ c ∈ h, c.Distinct) (id : String) :
    (tmGet (run {} h) id = none ↔ live h id = false) ∧
    ∀ ts es, tmGet (run {} h) id = some (ts, es) →
      live h id = true ∧
      (∀ i j v, (i, j, v) ∈ es ↔ v ≠ 0 ∧ v = content h id i j) ∧
      es.Pairwise coordLt ∧ (es.map fun x => (x.1, x.2.1)).Nodup := by
  have hI := run_invariant h hd id
  rw [tmGet_eq]
  cases hl : lookup (run ({} : GState K) h).mats id with
  | none =>
    rw [hl] at hI
    simp only at hI
    exact ⟨⟨fun _ => hI, fun _ => rfl⟩, fun ts es he => by cases he⟩
  | some tm =>
    rw [hl] at hI
    obtain ⟨h1, h2, h3, h4⟩ := hI
    refine ⟨⟨fun he => (by cases he), fun he => (by rw [h1] at he; cases he)⟩, ?_⟩
    intro ts es he
    simp only [Option.map_some, Option.some.injEq, Prod.mk.injEq] at he
    obtain ⟨_, rfl⟩ := he
    refine ⟨h1, fun i j v => ?_, mEntries_pairwise h2.1, coordLt_nodup (mEntries_pairwise h2.1)⟩
    rw [mem_mEntries h2.1, h4]

/-- the same under the stronger, syntactic validity condition -/
theorem get_spec_valid (h : List (MCall K)) (hv : ∀ c ∈ h, c.Valid) (id : String) :
    (tmGet (run {} h) id = none ↔ live h id = false) ∧
    ∀ ts es, tmGet (run {} h) id = some (ts, es) →
      live h id = true ∧
      (∀ i j v, (i, j, v) ∈ es ↔ v ≠ 0 ∧ v = content h id i j) ∧
      es.Pairwise coordLt ∧ (es.map fun x => (x.1, x.2.1)).Nodup :=
  get_spec h (fun c hc => (hv c hc).distinct) id

/-- **Timestamp.**  The header timestamp is the maximum of the timestamps of the successful
    updates since the last flush / creation (0 if none). -/
theorem ts_spec (h : List (MCall K)) (hd : ∀ c ∈ h, c.Distinct) (id : String) (ts : Nat)
    (es : List (Nat × Nat × K)) (hg : tmGet (run {} h) id = some (ts, es)) :
    ts = stamp h id := by
  have hI := run_invariant h hd id
  rw [tmGet_eq] at hg
  cases hl : lookup (run ({} : GState K) h).mats id with
  | none => rw [hl] at hg; cases hg
  | some tm =>
    rw [hl] at hI hg
    simp only [Option.map_some, Option.some.injEq, Prod.mk.injEq] at hg
    rw [← hg.1]; exact hI.2.2.1

/-- every stored matrix is well-formed, square, with a clean hidden part -/
theorem stored_good (h : List (MCall K)) (hd : ∀ c ∈ h, c.Distinct) (id : String) (tm : TM K)
    (hl : lookup (run {} h).mats id = some tm) :
    WFM tm.m ∧ HiddenClean tm.m ∧ tm.m.major = tm.m.minor := by
  have hI := run_invariant h hd id
  rw [hl] at hI
  exact hI.2.1

/-- **Response codes.**  The code of a call `c` issued after the history `h`: creating a live id
    is refused (`Unknown`), so a successful `Create` always introduces a new id; every other call
    on an id that is not live reports NotFound; an update of a live id reports its parse error, if
    any. -/
def expectedCode (h : List (MCall K)) : MCall K → Code
  | .createNamed i => if live h i then .unknown else .ok
  | .createFresh i => if live h i then .unknown else .ok
  | .update i _ es =>
    if live h i then (match parseMEntries es with | .ok _ => .ok | .error c => c) else .notFound
  | .flush i => if live h i then .ok else .notFound
  | .delete i => if live h i then .ok else .notFound

theorem code_spec (h : List (MCall K)) (hd : ∀ c ∈ h, c.Distinct) (c : MCall K) :
    (stepM (run {} h) c).2 = expectedCode h c := by
  have hI := fun id => run_invariant h hd id
  cases c with
  | createNamed i =>
    have := hI i
    simp only [stepM, tmCreateNamed, expectedCode]
    cases hl : lookup (run ({} : GState K) h).mats i with
    | none => rw [hl] at this; simp [this]
    | some tm => rw [hl] at this; simp [this.1]
  | createFresh i =>
    have := hI i
    simp only [stepM, tmCreateFresh, expectedCode]
    cases hl : lookup (run ({} : GState K) h).mats i with
    | none => rw [hl] at this; simp [this]
    | some tm => rw [hl] at this; simp [this.1]
  | flush i =>
    have := hI i
    simp only [stepM, tmFlush, expectedCode]
    cases hl : lookup (run ({} : GState K) h).mats i with
    | none => rw [hl] at this; simp [this]
    | some tm => rw [hl] at this; simp [this.1]
  | delete i =>
    have := hI i
    simp only [stepM, tmDelete, expectedCode]
    cases hl : lookup (run ({} : GState K) h).mats i with
    | none => rw [hl] at this; simp [this]
    | some tm => rw [hl] at this; simp [this.1]
  | update i ts es =>
    have := hI i
    simp only [stepM, expectedCode]
    rw [tmUpdate_eq]
    cases hl : lookup (run ({} : GState K) h).mats i with
    | none => rw [hl] at this; simp [this]
    | some tm =>
      rw [hl] at this
      simp only [this.1, if_true]
      cases parseMEntries es <;> rfl

/-- liveness, declaratively: some `Create` of the id is not followed by a `Delete` of it
    (history newest first) -/
theorem liveRev_iff (hr : List (MCall K)) (id : String) :
    liveRev hr id = true ↔
      ∃ r1 c r2, hr = r1 ++ c :: r2 ∧ (c = .createNamed id ∨ c = .createFresh id) ∧
        ∀ c' ∈ r1, c' ≠ .delete id := by
  induction hr with
  | nil => simp [liveRev]
  | cons a hr ih =>
    have hskip : (∀ i, a = .createNamed i → i ≠ id) → (∀ i, a = .createFresh i → i ≠ id) →
        a ≠ .delete id →
        ((∃ r1 c r2, a :: hr = r1 ++ c :: r2 ∧ (c = .createNamed id ∨ c = .createFresh id) ∧
          ∀ c' ∈ r1, c' ≠ .delete id) ↔
         ∃ r1 c r2, hr = r1 ++ c :: r2 ∧ (c = .createNamed id ∨ c = .createFresh id) ∧
          ∀ c' ∈ r1, c' ≠ .delete id) := by
      intro n1 n2 n3
      constructor
      · rintro ⟨r1, c, r2, he, hc, hn⟩
        cases r1 with
        | nil =>
          simp only [List.nil_append, List.cons.injEq] at he
          obtain ⟨rfl, _⟩ := he
          rcases hc with rfl | rfl
          · exact absurd rfl (n1 id rfl)
          · exact absurd rfl (n2 id rfl)
        | cons b r1 =>
          simp only [List.cons_append, List.cons.injEq] at he
          exact ⟨r1, c, r2, he.2, hc, fun c' hc' => hn c' (by simp [hc'])⟩
      · rintro ⟨r1, c, r2, he, hc, hn⟩
        refine ⟨a :: r1, c, r2, by rw [he]; rfl, hc, ?_⟩
        intro c' hc'
        rcases List.mem_cons.mp hc' with rfl | hc'
        · exact n3
        · exact hn c' hc'
    have hhead : (a = .createNamed id ∨ a = .createFresh id) →
        ∃ r1 c r2, a :: hr = r1 ++ c :: r2 ∧ (c = .createNamed id ∨ c = .createFresh id) ∧
          ∀ c' ∈ r1, c' ≠ .delete id :=
      fun ha => ⟨[], a, hr, rfl, ha, by simp⟩
    cases a with
    | createNamed i =>
      simp only [liveRev]
      by_cases hi : i = id
      · subst hi; simp only [if_true, true_iff]; exact hhead (Or.inl rfl)
      · rw [if_neg hi, ih]
        exact (hskip (fun j hj => by cases hj; exact hi) (fun j hj => by cases hj)
          (by simp)).symm
    | createFresh i =>
      simp only [liveRev]
      by_cases hi : i = id
      · subst hi; simp only [if_true, true_iff]; exact hhead (Or.inr rfl)
      · rw [if_neg hi, ih]
        exact (hskip (fun j hj => by cases hj) (fun j hj => by cases hj; exact hi)
          (by simp)).symm
    | update i ts es =>
      simp only [liveRev]
      rw [ih]
      exact (hskip (fun j hj => by cases hj) (fun j hj => by cases hj) (by simp)).symm
    | flush i =>
      simp only [liveRev]
      rw [ih]
      exact (hskip (fun j hj => by cases hj) (fun j hj => by cases hj) (by simp)).symm
    | delete i =>
      simp only [liveRev]
      by_cases hi : i = id
      · subst hi
        simp only [if_true, Bool.false_eq_true, false_iff]
        rintro ⟨r1, c, r2, he, hc, hn⟩
        cases r1 with
        | nil =>
          simp only [List.nil_append, List.cons.injEq] at he
          obtain ⟨rfl, _⟩ := he
          rcases hc with hc | hc <;> cases hc
        | cons b r1 =>
          simp only [List.cons_append, List.cons.injEq] at he
          exact hn b (by simp) he.1.symm
      · rw [if_neg hi, ih]
        exact (hskip (fun j hj => by cases hj) (fun j hj => by cases hj)
          (by intro h; cases h; exact hi rfl)).symm

/-- **Liveness, declaratively.**  An id is live after `h` iff `h = h1 ++ c :: h2` where `c`
    creates the id and no call of `h2` deletes it ("created, and not deleted after its last
    creation"). -/
theorem live_iff (h : List (MCall K)) (id : String) :
    live h id = true ↔
      ∃ h1 c h2, h = h1 ++ c :: h2 ∧ (c = .createNamed id ∨ c = .createFresh id) ∧
        ∀ c' ∈ h2, c' ≠ .delete id := by
  unfold live
  rw [liveRev_iff]
  constructor
  · rintro ⟨r1, c, r2, he, hc, hn⟩
    refine ⟨r2.reverse, c, r1.reverse, ?_, hc, fun c' hc' => hn c' (List.mem_reverse.mp hc')⟩
    have := congrArg List.reverse he
    simpa using this
  · rintro ⟨h1, c, h2, he, hc, hn⟩
    refine ⟨h2.reverse, c, h1.reverse, ?_, hc, fun c' hc' => hn c' (List.mem_reverse.mp hc')⟩
    rw [he]; simp

/-- **The timestamp never moves backwards.**  Across any single call other than `Flush id`, as
    long as the id stays present, its timestamp does not decrease (only `Flush` — and `Delete`
    followed by `Create` — reset it to 0). -/
theorem ts_step_monotone (s : GState K) (c : MCall K) (id : String) (tm tm' : TM K)
    (hl : lookup s.mats id = some tm) (hl' : lookup (stepM s c).1.mats id = some tm')
    (hc : c ≠ .flush id) : tm.ts ≤ tm'.ts := by
  have same : lookup (stepM s c).1.mats id = lookup s.mats id → tm.ts ≤ tm'.ts := by
    intro h; rw [h, hl] at hl'; cases hl'; exact Nat.le_refl _
  cases c with
  | createNamed i =>
    apply same
    simp only [stepM, tmCreateNamed]
    split
    · rfl
    · rename_i hn
      refine lookup_store_ne _ _ ?_
      rintro rfl; rw [hl] at hn; simp at hn
  | createFresh i =>
    apply same
    simp only [stepM, tmCreateFresh]
    split
    · rfl
    · rename_i hn
      refine lookup_store_ne _ _ ?_
      rintro rfl; rw [hl] at hn; simp at hn
  | flush i =>
    apply same
    have hi : id ≠ i := by rintro rfl; exact hc rfl
    simp only [stepM, tmFlush]
    split
    · rfl
    · exact lookup_store_ne _ _ hi
  | delete i =>
    simp only [stepM, tmDelete] at hl'
    split at hl'
    · by_cases hi : id = i
      · subst hi; rw [lookup_erase, if_pos rfl] at hl'; cases hl'
      · apply same
        simp only [stepM, tmDelete]
        rename_i hs
        rw [if_pos hs, lookup_erase, if_neg hi]
    · rw [hl] at hl'; cases hl'; exact Nat.le_refl _
  | update i ts es =>
    simp only [stepM] at hl' ⊢
    rw [tmUpdate_eq] at hl'
    split at hl'
    · rw [hl] at hl'; cases hl'; exact Nat.le_refl _
    · rename_i tmi hi
      split at hl'
      · rw [hl] at hl'; cases hl'; exact Nat.le_refl _
      · simp only at hl'
        by_cases hid : id = i
        · subst hid
          rw [lookup_store_self] at hl'
          rw [hl] at hi
          cases hi; cases hl'
          show tm.ts ≤ max tm.ts ts
          omega
        · rw [lookup_store_ne _ _ hid, hl] at hl'
          cases hl'; exact Nat.le_refl _

/-! ## 4. call histories of the TrustVector service -/

inductive VCall (K : Type) where
  | createNamed (id : String)
  | update (id : String) (ts : Nat) (entries : List (VEntry K))
  | flush (id : String)
  | delete (id : String)

def stepV (s : GState K) : VCall K → GState K × Code
  | .createNamed id => tvCreateNamed s id
  | .update id ts es => tvUpdate s id ts es
  | .flush id => tvFlush s id
  | .delete id => tvDelete s id

def runV (s : GState K) (h : List (VCall K)) : GState K := h.foldl (fun s c => (stepV s c).1) s

def codesV (s : GState K) : List (VCall K) → List Code
  | [] => []
  | c :: h => (stepV s c).2 :: codesV (stepV s c).1 h

/-- a valid vector batch: distinct non-negative integer indices -/
def ValidVBatch (es : List (VEntry K)) : Prop :=
  (∀ e ∈ es, ∃ i : Nat, e.trustee = some (i : Int)) ∧ (es.map (·.trustee)).Nodup

def DistinctVBatch (es : List (VEntry K)) : Prop :=
  ∀ es', parseVEntries es = .ok es' → (es'.map (·.idx)).Nodup

def VCall.Valid : VCall K → Prop
  | .update _ _ es => ValidVBatch es
  | _ => True

def VCall.Distinct : VCall K → Prop
  | .update _ _ es => DistinctVBatch es
  | _ => True

theorem parseV_ok_eq (es : List (VEntry K)) (es' : List (Entry K))
    (h : parseVEntries es = .ok es') :
    es' = es.map fun e => ⟨(e.trustee.getD 0).toNat, e.value⟩ := by
  induction es generalizing es' with
  | nil => simp [parseVEntries] at h; subst h; rfl
  | cons e es ih =>
    unfold parseVEntries at h
    split at h
    · cases h
    · rename_i _ i hi
      split at h
      · cases h
      · split at h
        · cases h
        · rename_i rest hr
          cases h
          rw [List.map_cons, ← ih rest hr, hi]
          rfl

theorem validVBatch_parses (es : List (VEntry K)) (h : ValidVBatch es) :
    ∃ es', parseVEntries es = .ok es' ∧ (es'.map (·.idx)).Nodup := by
  obtain ⟨h1, h2⟩ := h
  have hp : ∃ es', parseVEntries es = .ok es' := by
    clear h2
    induction es with
    | nil => exact ⟨[], rfl⟩
    | cons e es ih =>
      obtain ⟨i, hi⟩ := h1 e (by simp)
      obtain ⟨rest, hr⟩ := ih (fun e' he' => h1 e' (by simp [he']))
      refine ⟨⟨i, e.value⟩ :: rest, ?_⟩
      unfold parseVEntries
      rw [hi]
      simp only [hr]
      have : ¬ ((i : Int) < 0) := by simp
      rw [if_neg this]
      simp
  obtain ⟨es', hc⟩ := hp
  refine ⟨es', hc, ?_⟩
  rw [parseV_ok_eq es es' hc, List.map_map]
  rw [List.nodup_map_iff_inj_on (List.Nodup.of_map _ h2)]
  have hinj := List.inj_on_of_nodup_map h2
  intro a ha b hb hab
  apply hinj ha hb
  obtain ⟨i, hi⟩ := h1 a ha
  obtain ⟨i', hi'⟩ := h1 b hb
  simp only [Function.comp, hi, hi', Option.getD_some, Int.toNat_natCast] at hab ⊢
  rw [hab]

theorem validVBatch_distinct (es : List (VEntry K)) (h : ValidVBatch es) : DistinctVBatch es := by
  obtain ⟨es', hc, hd⟩ := validVBatch_parses es h
  intro es'' hc'
  rw [hc] at hc'
  cases hc'
  exact hd

theorem VCall.Valid.distinct {c : VCall K} (h : c.Valid) : c.Distinct := by
  cases c <;> first | trivial | exact validVBatch_distinct _ h

def vLiveRev : List (VCall K) → String → Bool
  | [], _ => false
  | .createNamed i :: r, id => if i = id then true else vLiveRev r id
  | .delete i :: r, id => if i = id then false else vLiveRev r id
  | .update _ _ _ :: r, id => vLiveRev r id
  | .flush _ :: r, id => vLiveRev r id

def vSinceRev : List (VCall K) → String → List (Nat × List (Entry K))
  | [], _ => []
  | .createNamed _ :: r, id => vSinceRev r id
  | .delete i :: r, id => if i = id then [] else vSinceRev r id
  | .flush i :: r, id => if i = id then [] else vSinceRev r id
  | .update i ts es :: r, id =>
    match parseVEntries es with
    | .ok es' =>
      if i = id ∧ vLiveRev r id = true then (ts, es') :: vSinceRev r id else vSinceRev r id
    | .error _ => vSinceRev r id

/-- `id` is live after the history `h` (oldest call first) -/
def vLive (h : List (VCall K)) (id : String) : Bool := vLiveRev h.reverse id

/-- the successful updates to `id` since its last flush / creation, oldest first -/
def vUpdatesSince (h : List (VCall K)) (id : String) : List (Nat × List (Entry K)) :=
  (vSinceRev h.reverse id).reverse

/-- the last-writer-wins overlay of those updates on the zero vector -/
def vContent (h : List (VCall K)) (id : String) : Nat → K :=
  ((vUpdatesSince h id).map (·.2)).flatten.foldl assignV (fun _ => 0)

/-- the largest timestamp of those updates (0 if none) -/
def vStamp (h : List (VCall K)) (id : String) : Nat :=
  ((vUpdatesSince h id).map (·.1)).foldl max 0

theorem vSinceRev_of_not_live (hr : List (VCall K)) (id : String) (h : vLiveRev hr id = false) :
    vSinceRev hr id = [] := by
  induction hr with
  | nil => rfl
  | cons c hr ih =>
    cases c with
    | createNamed i =>
      simp only [vLiveRev] at h
      split at h
      · cases h
      · exact ih h
    | delete i =>
      simp only [vLiveRev] at h
      simp only [vSinceRev]
      split
      · rfl
      · rename_i hne; rw [if_neg hne] at h; exact ih h
    | flush i =>
      simp only [vLiveRev] at h
      simp only [vSinceRev]
      split
      · rfl
      · exact ih h
    | update i ts es =>
      simp only [vLiveRev] at h
      simp only [vSinceRev]
      split
      · rw [if_neg (by rw [h]; simp)]; exact ih h
      · exact ih h

def VInvAt (s : GState K) (hr : List (VCall K)) (id : String) : Prop :=
  match lookup s.vecs id with
  | none => vLiveRev hr id = false
  | some tv => vLiveRev hr id = true ∧ GoodV tv ∧
      tv.ts = ((vSinceRev hr id).reverse.map (·.1)).foldl max 0 ∧
      denE tv.v.entries =
        ((vSinceRev hr id).reverse.map (·.2)).flatten.foldl assignV (fun _ => 0)

theorem VInvAt.congr {s s' : GState K} {hr hr' : List (VCall K)} {id : String}
    (h1 : lookup s'.vecs id = lookup s.vecs id) (h2 : vLiveRev hr' id = vLiveRev hr id)
    (h3 : vSinceRev hr' id = vSinceRev hr id) (h : VInvAt s hr id) : VInvAt s' hr' id := by
  unfold VInvAt at h ⊢
  rw [h1, h2, h3]; exact h

theorem VInvAt.fresh {s' : GState K} {hr' : List (VCall K)} {id : String}
    (h1 : lookup s'.vecs id = some ⟨⟨0, []⟩, 0⟩) (h2 : vLiveRev hr' id = true)
    (h3 : vSinceRev hr' id = []) : VInvAt s' hr' id := by
  unfold VInvAt
  rw [h1, h2, h3]
  exact ⟨rfl, goodV_empty 0, rfl, rfl⟩

theorem VInvAt.live_of_some {s : GState K} {hr : List (VCall K)} {id : String} {tv : TV K}
    (h : VInvAt s hr id) (hl : lookup s.vecs id = some tv) : vLiveRev hr id = true := by
  unfold VInvAt at h; rw [hl] at h; exact h.1

theorem VInvAt.not_live_of_none {s : GState K} {hr : List (VCall K)} {id : String}
    (h : VInvAt s hr id) (hl : lookup s.vecs id = none) : vLiveRev hr id = false := by
  unfold VInvAt at h; rw [hl] at h; exact h

theorem vinv_step (s : GState K) (hr : List (VCall K)) (c : VCall K) (hd : c.Distinct)
    (h : ∀ id, VInvAt s hr id) (id : String) : VInvAt (stepV s c).1 (c :: hr) id := by
  cases c with
  | createNamed i =>
    simp only [stepV, tvCreateNamed]
    cases hl : lookup s.vecs i with
    | some tv =>
      simp only [Option.isSome_some, if_true]
      by_cases hi : i = id
      · subst hi
        have hlive := (h i).live_of_some hl
        exact (h i).congr rfl (by simp [vLiveRev, hlive]) (by simp [vSinceRev])
      · exact (h id).congr rfl (by simp [vLiveRev, hi]) (by simp [vSinceRev])
    | none =>
      simp only [Option.isSome_none, Bool.false_eq_true, if_false]
      by_cases hi : i = id
      · subst hi
        have hdead := vSinceRev_of_not_live hr i ((h i).not_live_of_none hl)
        exact VInvAt.fresh (lookup_store_self _ _ _) (by simp [vLiveRev])
          (by simp [vSinceRev, hdead])
      · exact (h id).congr (lookup_store_ne _ _ (fun h' => hi h'.symm))
          (by simp [vLiveRev, hi]) (by simp [vSinceRev])
  | flush i =>
    simp only [stepV, tvFlush]
    cases hl : lookup s.vecs i with
    | none =>
      simp only
      refine (h id).congr rfl (by simp [vLiveRev]) ?_
      simp only [vSinceRev]
      split
      · rename_i hi; subst hi
        exact (vSinceRev_of_not_live hr i ((h i).not_live_of_none hl)).symm
      · rfl
    | some tv =>
      simp only
      by_cases hi : i = id
      · subst hi
        exact VInvAt.fresh (lookup_store_self _ _ _)
          (by simp [vLiveRev, (h i).live_of_some hl]) (by simp [vSinceRev])
      · exact (h id).congr (lookup_store_ne _ _ (fun h' => hi h'.symm))
          (by simp [vLiveRev]) (by simp [vSinceRev, hi])
  | delete i =>
    simp only [stepV, tvDelete]
    cases hl : lookup s.vecs i with
    | none =>
      simp only [Option.isSome_none, Bool.false_eq_true, if_false]
      by_cases hi : i = id
      · subst hi
        have hnl := (h i).not_live_of_none hl
        exact (h i).congr rfl (by simp [vLiveRev, hnl])
          (by simp [vSinceRev, vSinceRev_of_not_live hr i hnl])
      · exact (h id).congr rfl (by simp [vLiveRev, hi]) (by simp [vSinceRev, hi])
    | some tv =>
      simp only [Option.isSome_some, if_true]
      by_cases hi : i = id
      · subst hi
        unfold VInvAt
        rw [lookup_erase, if_pos rfl]
        simp [vLiveRev]
      · refine (h id).congr ?_ (by simp [vLiveRev, hi]) (by simp [vSinceRev, hi])
        rw [lookup_erase, if_neg (fun h' => hi h'.symm)]
  | update i ts es =>
    simp only [stepV]
    rw [tvUpdate_eq]
    cases hl : lookup s.vecs i with
    | none =>
      simp only
      refine (h id).congr rfl (by simp [vLiveRev]) ?_
      simp only [vSinceRev]
      split
      · rw [if_neg]
        rintro ⟨hi, hlv⟩
        subst hi
        rw [(h i).not_live_of_none hl] at hlv
        cases hlv
      · rfl
    | some tv =>
      simp only
      cases hp : parseVEntries es with
      | error e =>
        simp only
        exact (h id).congr rfl (by simp [vLiveRev]) (by simp [vSinceRev, hp])
      | ok es' =>
        simp only
        by_cases hi : i = id
        · subst hi
          have hI := h i
          unfold VInvAt at hI ⊢
          rw [hl] at hI
          obtain ⟨h1, h2, h3, h4⟩ := hI
          rw [lookup_store_self]
          obtain ⟨g1, g2⟩ := updV_good h2 ts (hd es' hp)
          refine ⟨by simpa [vLiveRev] using h1, g1, ?_, ?_⟩
          · simp only [vSinceRev, hp, h1, and_self, if_true, List.reverse_cons, List.map_append,
              List.map_cons, List.map_nil, List.foldl_append, List.foldl_cons, List.foldl_nil]
            rw [← h3]; rfl
          · simp only [vSinceRev, hp, h1, and_self, if_true, List.reverse_cons, List.map_append,
              List.map_cons, List.map_nil, List.flatten_append, List.flatten_cons,
              List.flatten_nil, List.append_nil, List.foldl_append]
            rw [← h4]; exact g2
        · refine (h id).congr (lookup_store_ne _ _ (fun h' => hi h'.symm)) (by simp [vLiveRev]) ?_
          simp [vSinceRev, hp, hi]

/-- the vector timestamp never moves backwards either: across any single call other than
    `Flush id`, as long as the id stays present -/
theorem tv_ts_step_monotone (s : GState K) (c : VCall K) (id : String) (tv tv' : TV K)
    (hl : lookup s.vecs id = some tv) (hl' : lookup (stepV s c).1.vecs id = some tv')
    (hc : c ≠ .flush id) : tv.ts ≤ tv'.ts := by
  have same : lookup (stepV s c).1.vecs id = lookup s.vecs id → tv.ts ≤ tv'.ts := by
    intro h; rw [h, hl] at hl'; cases hl'; exact Nat.le_refl _
  cases c with
  | createNamed i =>
    apply same
    simp only [stepV, tvCreateNamed]
    split
    · rfl
    · rename_i hn
      refine lookup_store_ne _ _ ?_
      rintro rfl; rw [hl] at hn; simp at hn
  | flush i =>
    apply same
    have hi : id ≠ i := by rintro rfl; exact hc rfl
    simp only [stepV, tvFlush]
    split
    · rfl
    · exact lookup_store_ne _ _ hi
  | delete i =>
    simp only [stepV, tvDelete] at hl'
    split at hl'
    · by_cases hi : id = i
      · subst hi; rw [lookup_erase, if_pos rfl] at hl'; cases hl'
      · apply same
        simp only [stepV, tvDelete]
        rename_i hs
        rw [if_pos hs, lookup_erase, if_neg hi]
    · rw [hl] at hl'; cases hl'; exact Nat.le_refl _
  | update i ts es =>
    simp only [stepV] at hl' ⊢
    rw [tvUpdate_eq] at hl'
    split at hl'
    · rw [hl] at hl'; cases hl'; exact Nat.le_refl _
    · rename_i tvi hi
      split at hl'
      · rw [hl] at hl'; cases hl'; exact Nat.le_refl _
      · simp only at hl'
        by_cases hid : id = i
        · subst hid
          rw [lookup_store_self] at hl'
          rw [hl] at hi
          cases hi; cases hl'
          show tv.ts ≤ max tv.ts ts
          omega
        · rw [lookup_store_ne _ _ hid, hl] at hl'
          cases hl'; exact Nat.le_refl _

/-- the store invariant for vectors -/
theorem tv_run_invariant (h : List (VCall K)) (hd : ∀ c ∈ h, c.Distinct) (id : String) :
    match lookup (runV {} h).vecs id with
    | none => vLive h id = false
    | some tv => vLive h id = true ∧ GoodV tv ∧ tv.ts = vStamp h id ∧
        denE tv.v.entries = vContent h id := by
  have key : ∀ id, VInvAt (runV ({} : GState K) h) h.reverse id := by
    induction h using List.reverseRecOn with
    | nil => intro id; exact (rfl : vLiveRev ([] : List (VCall K)) id = false)
    | append_singleton h c ih =>
      intro id
      have hrun : runV ({} : GState K) (h ++ [c]) = (stepV (runV {} h) c).1 := by
        unfold runV; rw [List.foldl_append]; rfl
      rw [hrun, List.reverse_append, List.reverse_singleton, List.singleton_append]
      exact vinv_step _ _ c (hd c (by simp))
        (ih (fun c' hc' => hd c' (by simp [hc']))) id
  exact key id

/-- **Get (vectors).**  NotFound iff the id is not live; otherwise exactly the non-zero entries
    of the last-writer-wins overlay of the successful updates since the last flush / creation, in
    strictly increasing index order. -/
theorem tv_get_spec (h : List (VCall K)) (hd : ∀ c ∈ h, c.Distinct) (id : String) :
    (tvGet (runV {} h) id = none ↔ vLive h id = false) ∧
    ∀ ts es, tvGet (runV {} h) id = some (ts, es) →
      vLive h id = true ∧
      (∀ i x, (i, x) ∈ es ↔ x ≠ 0 ∧ x = vContent h id i) ∧
      es.Pairwise (fun a b => a.1 < b.1) := by
  have hI := tv_run_invariant h hd id
  rw [tvGet_eq]
  cases hl : lookup (runV ({} : GState K) h).vecs id with
  | none =>
    rw [hl] at hI
    simp only at hI
    exact ⟨⟨fun _ => hI, fun _ => rfl⟩, fun ts es he => by cases he⟩
  | some tv =>
    rw [hl] at hI
    obtain ⟨h1, h2, h3, h4⟩ := hI
    refine ⟨⟨fun he => (by cases he), fun he => (by rw [h1] at he; cases he)⟩, ?_⟩
    intro ts es he
    simp only [Option.map_some, Option.some.injEq, Prod.mk.injEq] at he
    obtain ⟨_, rfl⟩ := he
    refine ⟨h1, fun i x => ?_, vEntries_pairwise h2.1⟩
    rw [mem_vEntries h2.1, h4]

/-- **Timestamp (vectors).** -/
theorem tv_ts_spec (h : List (VCall K)) (hd : ∀ c ∈ h, c.Distinct) (id : String) (ts : Nat)
    (es : List (Nat × K)) (hg : tvGet (runV {} h) id = some (ts, es)) :
    ts = vStamp h id := by
  have hI := tv_run_invariant h hd id
  rw [tvGet_eq] at hg
  cases hl : lookup (runV ({} : GState K) h).vecs id with
  | none => rw [hl] at hg; cases hg
  | some tv =>
    rw [hl] at hI hg
    simp only [Option.map_some, Option.some.injEq, Prod.mk.injEq] at hg
    rw [← hg.1]; exact hI.2.2.1

/-- every stored vector is well-formed -/
theorem tv_stored_good (h : List (VCall K)) (hd : ∀ c ∈ h, c.Distinct) (id : String) (tv : TV K)
    (hl : lookup (runV {} h).vecs id = some tv) : WF tv.v.dim tv.v.entries := by
  have hI := tv_run_invariant h hd id
  rw [hl] at hI
  exact hI.2.1

def expectedCodeV (h : List (VCall K)) : VCall K → Code
  | .createNamed i => if vLive h i then .unknown else .ok
  | .update i _ es =>
    if vLive h i then (match parseVEntries es with | .ok _ => .ok | .error c => c) else .notFound
  | .flush i => if vLive h i then .ok else .notFound
  | .delete i => if vLive h i then .ok else .notFound

theorem tv_code_spec (h : List (VCall K)) (hd : ∀ c ∈ h, c.Distinct) (c : VCall K) :
    (stepV (runV {} h) c).2 = expectedCodeV h c := by
  have hI := fun id => tv_run_invariant h hd id
  cases c with
  | createNamed i =>
    have := hI i
    simp only [stepV, tvCreateNamed, expectedCodeV]
    cases hl : lookup (runV ({} : GState K) h).vecs i with
    | none => rw [hl] at this; simp [this]
    | some tv => rw [hl] at this; simp [this.1]
  | flush i =>
    have := hI i
    simp only [stepV, tvFlush, expectedCodeV]
    cases hl : lookup (runV ({} : GState K) h).vecs i with
    | none => rw [hl] at this; simp [this]
    | some tv => rw [hl] at this; simp [this.1]
  | delete i =>
    have := hI i
    simp only [stepV, tvDelete, expectedCodeV]
    cases hl : lookup (runV ({} : GState K) h).vecs i with
    | none => rw [hl] at this; simp [this]
    | some tv => rw [hl] at this; simp [this.1]
  | update i ts es =>
    have := hI i
    simp only [stepV, expectedCodeV]
    rw [tvUpdate_eq]
    cases hl : lookup (runV ({} : GState K) h).vecs i with
    | none => rw [hl] at this; simp [this]
    | some tv =>
      rw [hl] at this
      simp only [this.1, if_true]
      cases parseVEntries es <;> rfl

/-! ## 4b. interleaved histories of both services -/

/-- a call of either service -/
abbrev Call (K : Type) := MCall K ⊕ VCall K

def stepAll (s : GState K) : Call K → GState K × Code
  | .inl c => stepM s c
  | .inr c => stepV s c

def runAll (s : GState K) (h : List (Call K)) : GState K :=
  h.foldl (fun s c => (stepAll s c).1) s

/-- the TrustMatrix calls of an interleaved history, in order -/
def mcalls (h : List (Call K)) : List (MCall K) := h.filterMap Sum.getLeft?
/-- the TrustVector calls of an interleaved history, in order -/
def vcalls (h : List (Call K)) : List (VCall K) := h.filterMap Sum.getRight?

/-- TrustMatrix calls do not touch the vectors, and their effect on the matrices does not depend
    on the vectors -/
theorem stepM_frame (s s1 : GState K) (c : MCall K) (hm : s.mats = s1.mats) :
    (stepM s c).1.vecs = s.vecs ∧ (stepM s c).1.mats = (stepM s1 c).1.mats ∧
      (stepM s c).2 = (stepM s1 c).2 := by
  obtain ⟨m, v⟩ := s
  obtain ⟨m1, v1⟩ := s1
  simp only at hm
  subst hm
  cases c with
  | createNamed i => simp only [stepM, tmCreateNamed]; split <;> exact ⟨rfl, rfl, rfl⟩
  | createFresh i => simp only [stepM, tmCreateFresh]; split <;> exact ⟨rfl, rfl, rfl⟩
  | flush i => simp only [stepM, tmFlush]; split <;> exact ⟨rfl, rfl, rfl⟩
  | delete i => simp only [stepM, tmDelete]; split <;> exact ⟨rfl, rfl, rfl⟩
  | update i ts es =>
    simp only [stepM, tmUpdate_eq]
    cases lookup m i with
    | none => exact ⟨rfl, rfl, rfl⟩
    | some tm => cases parseMEntries es <;> exact ⟨rfl, rfl, rfl⟩

theorem stepV_frame (s s1 : GState K) (c : VCall K) (hv : s.vecs = s1.vecs) :
    (stepV s c).1.mats = s.mats ∧ (stepV s c).1.vecs = (stepV s1 c).1.vecs ∧
      (stepV s c).2 = (stepV s1 c).2 := by
  obtain ⟨m, v⟩ := s
  obtain ⟨m1, v1⟩ := s1
  simp only at hv
  subst hv
  cases c with
  | createNamed i => simp only [stepV, tvCreateNamed]; split <;> exact ⟨rfl, rfl, rfl⟩
  | flush i => simp only [stepV, tvFlush]; split <;> exact ⟨rfl, rfl, rfl⟩
  | delete i => simp only [stepV, tvDelete]; split <;> exact ⟨rfl, rfl, rfl⟩
  | update i ts es =>
    simp only [stepV, tvUpdate_eq]
    cases lookup v i with
    | none => exact ⟨rfl, rfl, rfl⟩
    | some tv => cases parseVEntries es <;> exact ⟨rfl, rfl, rfl⟩

theorem runAll_split (h : List (Call K)) (s s1 s2 : GState K) (hm : s.mats = s1.mats)
    (hv : s.vecs = s2.vecs) :
    (runAll s h).mats = (run s1 (mcalls h)).mats ∧ (runAll s h).vecs = (runV s2 (vcalls h)).vecs := by
  induction h generalizing s s1 s2 with
  | nil => exact ⟨hm, hv⟩
  | cons c h ih =>
    cases c with
    | inl c =>
      obtain ⟨f1, f2, _⟩ := stepM_frame s s1 c hm
      have := ih (stepM s c).1 (stepM s1 c).1 s2 f2 (f1.trans hv)
      simpa [runAll, run, runV, mcalls, vcalls, stepAll, List.filterMap_cons] using this
    | inr c =>
      obtain ⟨f1, f2, _⟩ := stepV_frame s s2 c hv
      have := ih (stepV s c).1 s1 (stepV s2 c).1 (f1.trans hm) f2
      simpa [runAll, run, runV, mcalls, vcalls, stepAll, List.filterMap_cons] using this

/-- **Interleaving.**  In any interleaved history of calls to the two services, `Get` on a matrix
    (vector) id returns what it returns after the TrustMatrix (TrustVector) calls alone — so
    `get_spec`, `ts_spec`, `tv_get_spec`, `tv_ts_spec` apply to `mcalls h` / `vcalls h`. -/
theorem get_interleaved (h : List (Call K)) (id : String) :
    tmGet (runAll {} h) id = tmGet (run {} (mcalls h)) id ∧
    tvGet (runAll {} h) id = tvGet (runV {} (vcalls h)) id := by
  obtain ⟨h1, h2⟩ := runAll_split h {} {} {} rfl rfl
  exact ⟨by rw [tmGet_eq, tmGet_eq, h1], by rw [tvGet_eq, tvGet_eq, h2]⟩

/-! ## 5. non-vacuity at `K := ℚ` -/

section examples

-- `ℚ` carries two `Scalar` instances; the examples use the proof instance.
attribute [local instance 10000] fieldScalar

/-- create "a"; two updates (the second one stale: ts 5 after ts 10, erasing cell (0,1) with an
    explicit zero and adding (1,1)); an update of the unknown id "b" -/
private def exH : List (MCall ℚ) :=
  [.createNamed "a",
   .update "a" 10 [⟨some 0, some 1, 3⟩, ⟨some 1, some 0, 2⟩],
   .update "a" 5 [⟨some 0, some 1, 0⟩, ⟨some 1, some 1, 7⟩],
   .update "b" 99 [⟨some 0, some 0, 1⟩]]

example : tmGet (run {} exH) "a" = some (10, [(1, 0, 2), (1, 1, 7)]) := by decide +kernel
example : tmGet (run {} exH) "b" = none := by decide +kernel
example : codes {} exH = [.ok, .ok, .ok, .notFound] := by decide +kernel
example : stamp exH "a" = 10 ∧ live exH "a" = true ∧ live exH "b" = false := by decide +kernel
example : content exH "a" 0 1 = 0 ∧ content exH "a" 1 1 = 7 ∧ content exH "a" 1 0 = 2 := by
  decide +kernel

/-- the history satisfies the hypotheses of the theorems -/
private theorem exH_valid : ∀ c ∈ exH, c.Valid := by
  intro c hc
  simp only [exH, List.mem_cons, List.not_mem_nil, or_false] at hc
  rcases hc with rfl | rfl | rfl | rfl
  · trivial
  · refine ⟨?_, by decide⟩
    intro e he
    simp only [List.mem_cons, List.not_mem_nil, or_false] at he
    rcases he with rfl | rfl
    · exact ⟨0, 1, rfl, rfl⟩
    · exact ⟨1, 0, rfl, rfl⟩
  · refine ⟨?_, by decide⟩
    intro e he
    simp only [List.mem_cons, List.not_mem_nil, or_false] at he
    rcases he with rfl | rfl
    · exact ⟨0, 1, rfl, rfl⟩
    · exact ⟨1, 1, rfl, rfl⟩
  · refine ⟨?_, by decide⟩
    intro e he
    simp only [List.mem_cons, List.not_mem_nil, or_false] at he
    rcases he with rfl
    exact ⟨0, 0, rfl, rfl⟩

example := get_spec_valid exH exH_valid "a"
example := ts_spec exH (fun c hc => (exH_valid c hc).distinct) "a" 10 [(1, 0, 2), (1, 1, 7)]
  (by decide +kernel)
example := code_spec exH (fun c hc => (exH_valid c hc).distinct) (.flush "zz")

/-- timestamps: `update ts=10; update ts=5` leaves 10; a flush resets to 0 -/
example : (tmGet (run {} ([.createNamed "a", .update "a" 10 [], .update "a" 5 []] :
    List (MCall ℚ))) "a").map (·.1) = some 10 := by decide +kernel
example : (tmGet (run {} ([.createNamed "a", .update "a" 10 [], .flush "a", .update "a" 5 []] :
    List (MCall ℚ))) "a").map (·.1) = some 5 := by decide +kernel
/-- a huge timestamp survives the wire encoding and the store -/
example : (tmGet (run {} ([.createNamed "a",
    .update "a" (qwords2Nat (nat2Qwords (2 ^ 200 + 1))) []] : List (MCall ℚ))) "a").map (·.1)
    = some (2 ^ 200 + 1) := by decide +kernel
/-- a duplicate `Create` is refused; `Delete` then `Create` starts from scratch; non-integer and
    negative indices are refused with `Unknown` / `InvalidArgument` -/
example : codes {} ([.createNamed "a", .createNamed "a", .update "a" 3 [⟨some 0, some 0, 1⟩],
    .delete "a", .delete "a", .createFresh "a", .update "a" 1 [⟨none, some 0, 1⟩],
    .update "a" 1 [⟨some 0, some (-1), 1⟩]] : List (MCall ℚ))
    = [.ok, .unknown, .ok, .ok, .notFound, .ok, .unknown, .invalidArgument] := by decide +kernel
example : tmGet (run {} ([.createNamed "a", .update "a" 3 [⟨some 0, some 0, 1⟩],
    .delete "a", .createFresh "a"] : List (MCall ℚ))) "a" = some (0, []) := by decide +kernel

/-- vectors -/
private def exHV : List (VCall ℚ) :=
  [.createNamed "v", .update "v" 10 [⟨some 0, 1/2⟩, ⟨some 2, 1/2⟩], .update "v" 5 [⟨some 2, 0⟩],
   .flush "w", .update "v" 7 [⟨some (-1), 1⟩]]

example : tvGet (runV {} exHV) "v" = some (10, [(0, 1/2)]) := by decide +kernel
example : codesV {} exHV = [.ok, .ok, .ok, .notFound, .invalidArgument] := by decide +kernel
example : vStamp exHV "v" = 10 ∧ vContent exHV "v" 2 = 0 ∧ vContent exHV "v" 0 = 1/2 := by
  decide +kernel

private theorem exHV_distinct : ∀ c ∈ exHV, c.Distinct := by
  intro c hc
  simp only [exHV, List.mem_cons, List.not_mem_nil, or_false] at hc
  rcases hc with rfl | rfl | rfl | rfl | rfl
  · trivial
  · intro es' h; rw [parseV_ok_eq _ _ h]; decide
  · intro es' h; rw [parseV_ok_eq _ _ h]; decide
  · trivial
  · intro es' h; rw [parseV_ok_eq _ _ h]; decide

example := tv_get_spec exHV exHV_distinct "v"
example := tv_ts_spec exHV exHV_distinct "v" 10 [(0, 1/2)] (by decide +kernel)

end examples

end EtVerif.C16
