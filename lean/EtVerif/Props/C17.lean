/-
  C17 — gRPC `BasicCompute` (pkg/basic/server/grpc/compute.go), on the model `Model/Grpc.lean`.

  BasicCompute replaces the named global-trust vector with the discounted EigenTrust scores of
  the referenced local trust and pre-trust (warm-started from the vector's previous contents;
  uniform pre-trust when none is named), writes the undiscounted scores to the positive-only
  vector when one is named, and honours alpha, epsilon and max_iterations.  Results are stamped
  with the newest input timestamp without ever lowering an existing timestamp, local trust and
  pre-trust are left unchanged, and unknown ids or out-of-range parameters are reported as
  NotFound / InvalidArgument.

  Vocabulary (Proofs/GrpcLemmas.lean):
  * `bcPrep k s q : Except Code (BcEff K)` — everything `basicCompute` does before calling
    `compute`, written as in the model: load the three objects, align the dimensions
    (`bcAlignPre`, `bcAlignGt`), check `alpha` / `epsilon` (`bcParamsOK`), canonicalise and split
    off the distrust (`bcFinish`).  `bcEffective` is the same as an `Option`.
  * `BcEff` — the effective inputs: `ltm`, `pre`, `gt` (the loaded objects), `c2 p2 t2` (aligned),
    `c4 p3 t3 d4` (canonicalised local trust, pre-trust, initial trust, discounts), `a`, `e`,
    `ts2` (newest input timestamp).
  * `bcOpts q E` — the options passed to `compute`; `bcWrite s q E res` — the write-back.
  * `basicCompute_eq` — `basicCompute` is `bcPrep`, then `compute`, then `bcWrite`.
-/
import EtVerif.Proofs.GrpcLemmas
import Mathlib.Algebra.Order.Field.Rat
import Mathlib.Tactic.NormNum

namespace EtVerif.C17
open EtVerif EtVerif.Grpc EtVerif.GrpcL Scalar

variable {K : Type} [Field K] [LinearOrder K]

set_option linter.unusedSectionVars false

/-! ## 6. errors -/

/-- a request without `params` is refused -/
theorem bc_no_params (fuel : Nat) (k : Consts K) (s : GState K) :
    basicCompute fuel k s none = (s, .invalidArgument) := rfl

/-- unknown local trust id -/
theorem bc_unknown_local_trust (fuel : Nat) (k : Consts K) (s : GState K) (q : Params K)
    (h : lookup s.mats q.localTrustId = none) :
    basicCompute fuel k s (some q) = (s, .notFound) := by
  rw [basicCompute_eq]; unfold bcPrep; rw [h]

/-- unknown (non-empty) pre-trust id -/
theorem bc_unknown_pre_trust (fuel : Nat) (k : Consts K) (s : GState K) (q : Params K)
    (ltm : TM K) (h1 : lookup s.mats q.localTrustId = some ltm)
    (hsq : ltm.m.major = ltm.m.minor) (hne : q.preTrustId ≠ "")
    (h2 : lookup s.vecs q.preTrustId = none) :
    basicCompute fuel k s (some q) = (s, .notFound) := by
  rw [basicCompute_eq]; unfold bcPrep bcLoadPre
  have : (q.preTrustId == "") = false := beq_false_of_ne hne
  rw [h1]; simp only [hsq, ne_eq, not_true_eq_false, if_false, this, Bool.false_eq_true, h2]

/-- the pre-trust is absent (empty id) or present -/
def PreOK (s : GState K) (q : Params K) : Prop :=
  q.preTrustId = "" ∨ (lookup s.vecs q.preTrustId).isSome

theorem bcLoadPre_isSome {s : GState K} {q : Params K} (h : PreOK s q) :
    ∃ pre, bcLoadPre s q = some pre := by
  unfold bcLoadPre
  by_cases h0 : q.preTrustId = ""
  · have : (q.preTrustId == "") = true := by rw [h0]; rfl
    rw [this]; exact ⟨none, rfl⟩
  · have : (q.preTrustId == "") = false := beq_false_of_ne h0
    rw [this]
    rcases h with h | h
    · exact absurd h h0
    · cases hl : lookup s.vecs q.preTrustId with
      | none => rw [hl] at h; cases h
      | some pt => exact ⟨some pt, by simp⟩

/-- unknown global trust id -/
theorem bc_unknown_global_trust (fuel : Nat) (k : Consts K) (s : GState K) (q : Params K)
    (ltm : TM K) (h1 : lookup s.mats q.localTrustId = some ltm)
    (hsq : ltm.m.major = ltm.m.minor) (hpre : PreOK s q)
    (h3 : lookup s.vecs q.globalTrustId = none) :
    basicCompute fuel k s (some q) = (s, .notFound) := by
  obtain ⟨pre, hp⟩ := bcLoadPre_isSome hpre
  rw [basicCompute_eq]; unfold bcPrep
  rw [h1]; simp only [hsq, ne_eq, not_true_eq_false, if_false, hp, h3]

/-- `alpha` outside `[0, 1]` or `epsilon` outside `(0, 1]` -/
def BadParams (q : Params K) : Prop :=
  (∃ a, q.alpha = some a ∧ (a < 0 ∨ 1 < a)) ∨ (∃ e, q.epsilon = some e ∧ (e ≤ 0 ∨ 1 < e))

theorem bcParamsOK_eq_false_iff (q : Params K) : bcParamsOK q = false ↔ BadParams q := by
  unfold bcParamsOK BadParams
  cases q.alpha <;> cases q.epsilon <;> simp [imp_iff_not_or, or_assoc]

/-- out-of-range `alpha` / `epsilon` (all ids being known) -/
theorem bc_bad_params (fuel : Nat) (k : Consts K) (s : GState K) (q : Params K)
    (ltm : TM K) (h1 : lookup s.mats q.localTrustId = some ltm)
    (hsq : ltm.m.major = ltm.m.minor) (hpre : PreOK s q) (gt : TV K)
    (h3 : lookup s.vecs q.globalTrustId = some gt) (hbad : BadParams q) :
    basicCompute fuel k s (some q) = (s, .invalidArgument) := by
  obtain ⟨pre, hp⟩ := bcLoadPre_isSome hpre
  have hb := (bcParamsOK_eq_false_iff q).mpr hbad
  rw [basicCompute_eq]; unfold bcPrep
  rw [h1]; simp only [hsq, ne_eq, not_true_eq_false, if_false, hp, h3, hb, Bool.not_false, if_true]

/-- in every non-ok outcome the state is unchanged -/
theorem bc_error_unchanged (fuel : Nat) (k : Consts K) (s : GState K) (p : Option (Params K))
    (h : (basicCompute fuel k s p).2 ≠ .ok) : (basicCompute fuel k s p).1 = s := by
  cases p with
  | none => rfl
  | some q =>
    revert h
    rw [basicCompute_eq]
    cases bcPrep k s q with
    | error c => intro _; rfl
    | ok E =>
      simp only
      cases compute fuel E.c4 E.p3 E.a E.e (bcOpts q E) with
      | error _ => intro _; rfl
      | ok res => intro h; exact absurd rfl h

/-- the preparation never "fails" with `ok` -/
theorem bcPrep_ne_ok (k : Consts K) (s : GState K) (q : Params K) :
    bcPrep k s q ≠ .error .ok := by
  intro hp
  unfold bcPrep at hp
  split at hp
  · cases hp
  · split at hp
    · cases hp
    · split at hp
      · cases hp
      · split at hp
        · cases hp
        · simp only at hp
          split at hp
          · cases hp
          · unfold bcFinish at hp
            simp only at hp
            split at hp
            · cases hp
            · split at hp <;> cases hp

/-- a successful run went through `bcPrep` and `compute` -/
theorem bc_ok_inv {fuel : Nat} {k : Consts K} {s s' : GState K} {q : Params K}
    (h : basicCompute fuel k s (some q) = (s', .ok)) :
    ∃ E res, bcPrep k s q = .ok E ∧ compute fuel E.c4 E.p3 E.a E.e (bcOpts q E) = .ok res ∧
      s' = bcWrite s q E res := by
  rw [basicCompute_eq] at h
  cases hp : bcPrep k s q with
  | error c =>
    rw [hp] at h
    simp only [Prod.mk.injEq] at h
    obtain ⟨_, rfl⟩ := h
    exact absurd hp (bcPrep_ne_ok k s q)
  | ok E =>
    rw [hp] at h
    simp only at h
    cases hc : compute fuel E.c4 E.p3 E.a E.e (bcOpts q E) with
    | error e => rw [hc] at h; simp at h
    | ok res =>
      rw [hc] at h
      simp only [Prod.mk.injEq, and_true] at h
      exact ⟨E, res, rfl, hc, h.symm⟩

end EtVerif.C17
