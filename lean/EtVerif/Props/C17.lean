/-
  C17 — gRPC `BasicCompute` (pkg/basic/server/grpc/compute.go), on the model `Model/Grpc.lean`.

  BasicCompute replaces the named global-trust vector with the discounted EigenTrust scores of
  the referenced local trust and pre-trust (warm-started from the vector's previous contents;
  uniform pre-trust when none is named), writes the undiscounted scores to the positive-only
  vector when one is named, and honours alpha, epsilon and max_iterations.  Results are stamped
  with the newest input timestamp without ever lowering an existing timestamp, local trust and
  pre-trust are left unchanged, and unknown ids or out-of-range parameters are reported as
  NotFound / InvalidArgument.

  Vocabulary (Proofs/GrpcLemmas.lean):
  * `bcPrep k s q : Except Code (BcEff K)` — everything `basicCompute` does before calling
    `compute`, written as in the model: load the three objects, align the dimensions
    (`bcAlignPre`, `bcAlignGt`), check `alpha` / `epsilon` (`bcParamsOK`), canonicalise and split
    off the distrust (`bcFinish`).  `bcEffective` is the same as an `Option`.
  * `BcEff` — the effective inputs: `ltm`, `pre`, `gt` (the loaded objects), `c2 p2 t2` (aligned),
    `c4 p3 t3 d4` (canonicalised local trust, pre-trust, initial trust, discounts), `a`, `e`,
    `ts2` (newest input timestamp).
  * `bcOpts q E` — the options passed to `compute`; `bcWrite s q E res` — the write-back.
  * `basicCompute_eq` — `basicCompute` is `bcPrep`, then `compute`, then `bcWrite`.
-/
import EtVerif.Proofs.GrpcLemmas
import Mathlib.Algebra.Order.Field.Rat
import Mathlib.Tactic.NormNum

namespace EtVerif.C17
open EtVerif EtVerif.Grpc EtVerif.GrpcL Scalar

variable {K : Type} [Field K] [LinearOrder K]

set_option linter.unusedSectionVars false

/-! ## 6. errors -/

/-- a request without `params` is refused -/
theorem bc_no_params (fuel : Nat) (k : Consts K) (s : GState K) :
    basicCompute fuel k s none = (s, .invalidArgument) := rfl

/-- unknown local trust id -/
theorem bc_unknown_local_trust (fuel : Nat) (k : Consts K) (s : GState K) (q : Params K)
    (h : lookup s.mats q.localTrustId = none) :
    basicCompute fuel k s (some q) = (s, .notFound) := by
  rw [basicCompute_eq]; unfold bcPrep; rw [h]

/-- unknown (non-empty) pre-trust id -/
theorem bc_unknown_pre_trust (fuel : Nat) (k : Consts K) (s : GState K) (q : Params K)
    (ltm : TM K) (h1 : lookup s.mats q.localTrustId = some ltm)
    (hsq : ltm.m.major = ltm.m.minor) (hne : q.preTrustId ≠ "")
    (h2 : lookup s.vecs q.preTrustId = none) :
    basicCompute fuel k s (some q) = (s, .notFound) := by
  rw [basicCompute_eq]; unfold bcPrep bcLoadPre
  have : (q.preTrustId == "") = false := beq_false_of_ne hne
  rw [h1]; simp only [hsq, ne_eq, not_true_eq_false, if_false, this, Bool.false_eq_true, h2]

/-- the pre-trust is absent (empty id) or present -/
def PreOK (s : GState K) (q : Params K) : Prop :=
  q.preTrustId = "" ∨ (lookup s.vecs q.preTrustId).isSome

theorem bcLoadPre_isSome {s : GState K} {q : Params K} (h : PreOK s q) :
    ∃ pre, bcLoadPre s q = some pre := by
  unfold bcLoadPre
  by_cases h0 : q.preTrustId = ""
  · have : (q.preTrustId == "") = true := by rw [h0]; rfl
    rw [this]; exact ⟨none, rfl⟩
  · have : (q.preTrustId == "") = false := beq_false_of_ne h0
    rw [this]
    rcases h with h | h
    · exact absurd h h0
    · cases hl : lookup s.vecs q.preTrustId with
      | none => rw [hl] at h; cases h
      | some pt => exact ⟨some pt, by simp⟩

/-- unknown global trust id -/
theorem bc_unknown_global_trust (fuel : Nat) (k : Consts K) (s : GState K) (q : Params K)
    (ltm : TM K) (h1 : lookup s.mats q.localTrustId = some ltm)
    (hsq : ltm.m.major = ltm.m.minor) (hpre : PreOK s q)
    (h3 : lookup s.vecs q.globalTrustId = none) :
    basicCompute fuel k s (some q) = (s, .notFound) := by
  obtain ⟨pre, hp⟩ := bcLoadPre_isSome hpre
  rw [basicCompute_eq]; unfold bcPrep
  rw [h1]; simp only [hsq, ne_eq, not_true_eq_false, if_false, hp, h3]

/-- `alpha` outside `[0, 1]` or `epsilon` outside `(0, 1]` -/
def BadParams (q : Params K) : Prop :=
  (∃ a, q.alpha = some a ∧ (a < 0 ∨ 1 < a)) ∨ (∃ e, q.epsilon = some e ∧ (e ≤ 0 ∨ 1 < e))

theorem bcParamsOK_eq_false_iff (q : Params K) : bcParamsOK q = false ↔ BadParams q := by
  unfold bcParamsOK BadParams
  cases q.alpha <;> cases q.epsilon <;> simp [imp_iff_not_or, or_assoc]

/-- out-of-range `alpha` / `epsilon` (all ids being known) -/
theorem bc_bad_params (fuel : Nat) (k : Consts K) (s : GState K) (q : Params K)
    (ltm : TM K) (h1 : lookup s.mats q.localTrustId = some ltm)
    (hsq : ltm.m.major = ltm.m.minor) (hpre : PreOK s q) (gt : TV K)
    (h3 : lookup s.vecs q.globalTrustId = some gt) (hbad : BadParams q) :
    basicCompute fuel k s (some q) = (s, .invalidArgument) := by
  obtain ⟨pre, hp⟩ := bcLoadPre_isSome hpre
  have hb := (bcParamsOK_eq_false_iff q).mpr hbad
  rw [basicCompute_eq]; unfold bcPrep
  rw [h1]; simp only [hsq, ne_eq, not_true_eq_false, if_false, hp, h3, hb, Bool.not_false, if_true]

/-- in every non-ok outcome the state is unchanged -/
theorem bc_error_unchanged (fuel : Nat) (k : Consts K) (s : GState K) (p : Option (Params K))
    (h : (basicCompute fuel k s p).2 ≠ .ok) : (basicCompute fuel k s p).1 = s := by
  cases p with
  | none => rfl
  | some q =>
    revert h
    rw [basicCompute_eq]
    cases bcPrep k s q with
    | error c => intro _; rfl
    | ok E =>
      simp only
      cases compute fuel E.c4 E.p3 E.a E.e (bcOpts q E) with
      | error _ => intro _; rfl
      | ok res => intro h; exact absurd rfl h

/-- the preparation never "fails" with `ok` -/
theorem bcPrep_ne_ok (k : Consts K) (s : GState K) (q : Params K) :
    bcPrep k s q ≠ .error .ok := by
  intro hp
  unfold bcPrep at hp
  split at hp
  · cases hp
  · split at hp
    · cases hp
    · split at hp
      · cases hp
      · split at hp
        · cases hp
        · simp only at hp
          split at hp
          · cases hp
          · unfold bcFinish at hp
            simp only at hp
            split at hp
            · cases hp
            · split at hp <;> cases hp

/-- a successful run went through `bcPrep` and `compute` -/
theorem bc_ok_inv {fuel : Nat} {k : Consts K} {s s' : GState K} {q : Params K}
    (h : basicCompute fuel k s (some q) = (s', .ok)) :
    ∃ E res, bcPrep k s q = .ok E ∧ compute fuel E.c4 E.p3 E.a E.e (bcOpts q E) = .ok res ∧
      s' = bcWrite s q E res := by
  rw [basicCompute_eq] at h
  cases hp : bcPrep k s q with
  | error c =>
    rw [hp] at h
    simp only [Prod.mk.injEq] at h
    obtain ⟨_, rfl⟩ := h
    exact absurd hp (bcPrep_ne_ok k s q)
  | ok E =>
    rw [hp] at h
    simp only at h
    cases hc : compute fuel E.c4 E.p3 E.a E.e (bcOpts q E) with
    | error e => rw [hc] at h; simp at h
    | ok res =>
      rw [hc] at h
      simp only [Prod.mk.injEq, and_true] at h
      exact ⟨E, res, rfl, hc, h.symm⟩

/-! ## 7. the result -/

/-- what the effective inputs are, in terms of the stored objects: the three objects are the
    stored ones; with `n` the largest of the three dimensions, the local trust is grown to
    `n × n` (same cells), pre-trust and previous global trust are padded to `n`; then pre-trust
    and previous global trust are canonicalised (`p3`, `t3`), the distrust is split off and both
    matrices are canonicalised (`c4`, `d4`).  Without a pre-trust id, `p3` is uniform. -/
theorem bc_effective_spec {k : Consts K} {s : GState K} {q : Params K} {E : BcEff K}
    (h : bcEffective k s q = some E) :
    lookup s.mats q.localTrustId = some E.ltm ∧
    (q.preTrustId = "" → E.pre = none) ∧
    (q.preTrustId ≠ "" → ∃ pt, lookup s.vecs q.preTrustId = some pt ∧ E.pre = some pt) ∧
    lookup s.vecs q.globalTrustId = some E.gt ∧
    E.c2.major = max E.ltm.m.major (max (preDim E.pre) E.gt.v.dim) ∧
    E.c2.minor = max E.ltm.m.major (max (preDim E.pre) E.gt.v.dim) ∧
    E.p2 = ⟨max E.ltm.m.major (max (preDim E.pre) E.gt.v.dim), preEntries E.pre⟩ ∧
    E.t2 = ⟨max E.ltm.m.major (max (preDim E.pre) E.gt.v.dim), E.gt.v.entries⟩ ∧
    (GoodM E.ltm → WFM E.c2 ∧ HiddenClean E.c2 ∧ denRows E.c2.rows = denRows E.ltm.m.rows) ∧
    E.p3 = canonicalizeTrustVector E.p2 ∧ E.t3 = canonicalizeTrustVector E.t2 ∧
    (∃ c3 d3, extractDistrust E.c2 = .ok (c3, d3) ∧
      canonicalizeLocalTrust c3 (some E.p3) = .ok E.c4 ∧
      canonicalizeLocalTrust d3 none = .ok E.d4) ∧
    E.a = q.alpha.getD k.half ∧ E.e = q.epsilon.getD (k.epsNum / (E.c2.major : K)) ∧
    (q.preTrustId = "" →
      E.p3 = ⟨E.c2.major, uniformEntries E.c2.major⟩ ∧
      E.p3 = canonicalizeTrustVector (Vec.new E.c2.major [])) := by
  obtain ⟨h1, hsq, hp, hg, _, e1, e2, e3, _, e5, e6, e7, e8, e9⟩ :=
    bcPrep_ok (bcEffective_eq_some.mp h)
  obtain ⟨a1, a2, a3⟩ := bcAlignPre_spec E.ltm.m hsq E.ltm.ts E.pre
  obtain ⟨b1, b2, b3, b4⟩ := bcAlignGt_spec (bcAlignPre E.ltm.m E.ltm.ts E.pre).1
    (bcAlignPre E.ltm.m E.ltm.ts E.pre).2.1 E.gt (by rw [a1, a3]) (by rw [a2, a3])
  have hn : max (bcAlignPre E.ltm.m E.ltm.ts E.pre).2.1.dim E.gt.v.dim =
      max E.ltm.m.major (max (preDim E.pre) E.gt.v.dim) := by rw [a3]; exact Nat.max_assoc _ _ _
  rw [hn] at b1 b2 b3 b4
  rw [← e1] at b1 b2
  rw [← e2] at b3
  rw [← e3] at b4
  have hpre0 : q.preTrustId = "" → E.pre = none := by
    intro h0
    unfold bcLoadPre at hp
    have : (q.preTrustId == "") = true := by rw [h0]; rfl
    rw [this] at hp
    simp only [if_true, Option.some.injEq] at hp
    exact hp.symm
  have hp2 : E.p2 = ⟨max E.ltm.m.major (max (preDim E.pre) E.gt.v.dim), preEntries E.pre⟩ := by
    rw [b3, a3]
  refine ⟨h1, hpre0, ?_, hg, b1, b2, hp2, b4, ?_, e5, e6, e7, e8, e9, ?_⟩
  · intro hne
    unfold bcLoadPre at hp
    have : (q.preTrustId == "") = false := beq_false_of_ne hne
    rw [this] at hp
    simp only [Bool.false_eq_true, if_false] at hp
    cases hl : lookup s.vecs q.preTrustId with
    | none => rw [hl] at hp; cases hp
    | some pt => rw [hl] at hp; simp only [Option.some.injEq] at hp; exact ⟨pt, rfl, hp.symm⟩
  · intro hgood
    rw [e1]
    exact bcAlign_den hgood.1 hgood.2.1 hsq E.ltm.ts E.pre E.gt
  · intro h0
    have hnone := hpre0 h0
    have : E.p2 = ⟨E.c2.major, []⟩ := by rw [hp2, b1, hnone]; rfl
    constructor
    · rw [e5, this]
      exact C04.canonTV_uniform _ (by simp)
    · rw [e5, this]; rfl

/-- the pre-trust used when no pre-trust id is given (`sparse.NewVector(cDim, nil)`,
    canonicalised) is the uniform distribution -/
theorem uniform_pretrust (n : Nat) :
    canonicalizeTrustVector (Vec.new n ([] : List (Entry K))) = ⟨n, uniformEntries n⟩ :=
  C04.canonTV_uniform ⟨n, []⟩ (by simp)

/-- **Result.**  On `ok` the effective inputs `E` exist and `compute` succeeded on them,
    warm-started from `E.t3` (the canonicalised previous content of the global trust vector),
    with `alpha`, `epsilon`, `max_iterations` as requested (defaults `k.half`,
    `k.epsNum / n`, unlimited); the global trust vector now holds the discounted scores
    `discountTrustVector res.t E.d4`, and a distinct, existing positive-only vector holds the
    undiscounted scores `res.t`. -/
theorem bc_result {fuel : Nat} {k : Consts K} {s s' : GState K} {q : Params K}
    (h : basicCompute fuel k s (some q) = (s', .ok)) :
    ∃ E res, bcEffective k s q = some E ∧
      compute fuel E.c4 E.p3 E.a E.e (bcOpts q E) = .ok res ∧
      (bcOpts q E).t0 = some E.t3 ∧
      (bcOpts q E).maxIterations =
        (if q.maxIterations = 0 then none else some (q.maxIterations : Int)) ∧
      (bcOpts q E).minIterations = none ∧ (bcOpts q E).checkFreq = none ∧
      (bcOpts q E).flatTail = 0 ∧ (bcOpts q E).numLeaders = 0 ∧
      E.a = q.alpha.getD k.half ∧ E.e = q.epsilon.getD (k.epsNum / (E.c2.major : K)) ∧
      (lookup s'.vecs q.globalTrustId).map (·.v) = some (discountTrustVector res.t E.d4) ∧
      (∀ gtp, q.positiveGlobalTrustId ≠ "" → q.positiveGlobalTrustId ≠ q.globalTrustId →
        lookup s.vecs q.positiveGlobalTrustId = some gtp →
        (lookup s'.vecs q.positiveGlobalTrustId).map (·.v) = some res.t) := by
  obtain ⟨E, res, hp, hc, rfl⟩ := bc_ok_inv h
  obtain ⟨_, _, _, hg, _, _, _, _, _, _, _, _, e8, e9⟩ := bcPrep_ok hp
  refine ⟨E, res, bcEffective_eq_some.mpr hp, hc, rfl, rfl, rfl, rfl, rfl, rfl, e8, e9, ?_, ?_⟩
  · rw [bcWrite_gt s q E res hg]; rfl
  · intro gtp h0 hne hl
    rw [bcWrite_pos s q E res h0 hne hl]; rfl

/-- the scores are the `res.iters`-th power iterate started from the previous (canonicalised)
    global trust -/
theorem bc_warm_start {fuel : Nat} {k : Consts K} {s s' : GState K} {q : Params K}
    (h : basicCompute fuel k s (some q) = (s', .ok)) :
    ∃ E res, bcEffective k s q = some E ∧
      compute fuel E.c4 E.p3 E.a E.e (bcOpts q E) = .ok res ∧
      res.t = ⟨E.c4.major, iterate E.c4.transpose.rows (Vec.scale E.a E.p3).entries
        (1 - E.a) res.iters E.t3.entries⟩ := by
  obtain ⟨E, res, hp, hc, _⟩ := bc_ok_inv h
  exact ⟨E, res, bcEffective_eq_some.mpr hp, hc, (C05.compute_spec _ _ _ _ _ _ _ hc).2.1⟩

/-! ## 8. timestamps -/

/-- the timestamp of the named pre-trust (0 when none is named) -/
def preTrustTs (s : GState K) (q : Params K) : Nat :=
  if q.preTrustId = "" then 0 else ((lookup s.vecs q.preTrustId).map (·.ts)).getD 0

/-- **Timestamps.**  On `ok` the global trust vector is stamped with the maximum of its old
    timestamp and the timestamps of local trust and pre-trust; a distinct positive-only vector
    with the maximum of its own old timestamp and all three input timestamps. -/
theorem bc_timestamps {fuel : Nat} {k : Consts K} {s s' : GState K} {q : Params K}
    (h : basicCompute fuel k s (some q) = (s', .ok)) :
    ∃ ltm gt, lookup s.mats q.localTrustId = some ltm ∧
      lookup s.vecs q.globalTrustId = some gt ∧
      (lookup s'.vecs q.globalTrustId).map (·.ts) =
        some (max gt.ts (max ltm.ts (preTrustTs s q))) ∧
      (∀ gtp, q.positiveGlobalTrustId ≠ "" → q.positiveGlobalTrustId ≠ q.globalTrustId →
        lookup s.vecs q.positiveGlobalTrustId = some gtp →
        (lookup s'.vecs q.positiveGlobalTrustId).map (·.ts) =
          some (max gtp.ts (max (max ltm.ts (preTrustTs s q)) gt.ts))) := by
  obtain ⟨E, res, hp, hc, rfl⟩ := bc_ok_inv h
  obtain ⟨h1, _, hpre, hg, _, _, _, _, ets, _⟩ := bcPrep_ok hp
  have hpt : preTs E.pre = preTrustTs s q := by
    unfold preTrustTs
    obtain ⟨_, p0, p1, _⟩ := bc_effective_spec (bcEffective_eq_some.mpr hp)
    by_cases h0 : q.preTrustId = ""
    · rw [if_pos h0, p0 h0]; rfl
    · obtain ⟨pt, hl, he⟩ := p1 h0
      rw [if_neg h0, hl, he]; rfl
  rw [hpt] at ets
  refine ⟨E.ltm, E.gt, h1, hg, ?_, ?_⟩
  · rw [bcWrite_gt s q E res hg, ets]
    simp only [Option.map_some, Option.some.injEq]
    omega
  · intro gtp h0 hne hl
    rw [bcWrite_pos s q E res h0 hne hl, ets]
    rfl

/-- in particular no timestamp is ever lowered, and the result is at least as new as every
    input -/
theorem bc_ts_never_lowered {fuel : Nat} {k : Consts K} {s s' : GState K} {q : Params K}
    (h : basicCompute fuel k s (some q) = (s', .ok)) :
    ∃ ltm gt gt', lookup s.mats q.localTrustId = some ltm ∧
      lookup s.vecs q.globalTrustId = some gt ∧ lookup s'.vecs q.globalTrustId = some gt' ∧
      gt.ts ≤ gt'.ts ∧ ltm.ts ≤ gt'.ts ∧ preTrustTs s q ≤ gt'.ts ∧
      (∀ gtp, q.positiveGlobalTrustId ≠ "" → q.positiveGlobalTrustId ≠ q.globalTrustId →
        lookup s.vecs q.positiveGlobalTrustId = some gtp →
        ∃ gtp', lookup s'.vecs q.positiveGlobalTrustId = some gtp' ∧ gtp.ts ≤ gtp'.ts ∧
          gt.ts ≤ gtp'.ts ∧ ltm.ts ≤ gtp'.ts ∧ preTrustTs s q ≤ gtp'.ts) := by
  obtain ⟨ltm, gt, h1, h2, h3, h4⟩ := bc_timestamps h
  cases hl : lookup s'.vecs q.globalTrustId with
  | none => rw [hl] at h3; cases h3
  | some gt' =>
    rw [hl] at h3
    simp only [Option.map_some, Option.some.injEq] at h3
    refine ⟨ltm, gt, gt', h1, h2, rfl, by omega, by omega, by omega, ?_⟩
    intro gtp a b c
    have := h4 gtp a b c
    cases hl' : lookup s'.vecs q.positiveGlobalTrustId with
    | none => rw [hl'] at this; cases this
    | some gtp' =>
      rw [hl'] at this
      simp only [Option.map_some, Option.some.injEq] at this
      exact ⟨gtp', rfl, by omega, by omega, by omega, by omega⟩

/-! ## 9. inputs are left unchanged -/

/-- **Frame.**  Whatever the outcome, the trust matrices (content and timestamps) are unchanged,
    and so is every vector other than the global trust and the positive-only vector — in
    particular the pre-trust when its id differs from those two. -/
theorem bc_inputs_unchanged (fuel : Nat) (k : Consts K) (s : GState K) (p : Option (Params K)) :
    (basicCompute fuel k s p).1.mats = s.mats ∧
    ∀ id, (∀ q, p = some q → id ≠ q.globalTrustId ∧ id ≠ q.positiveGlobalTrustId) →
      lookup (basicCompute fuel k s p).1.vecs id = lookup s.vecs id := by
  by_cases hok : (basicCompute fuel k s p).2 = .ok
  · cases p with
    | none => cases hok
    | some q =>
      have h : basicCompute fuel k s (some q) = ((basicCompute fuel k s (some q)).1, .ok) := by
        rw [← hok]
      obtain ⟨E, res, _, _, hw⟩ := bc_ok_inv h
      rw [hw]
      refine ⟨bcWrite_mats s q E res, fun id hid => ?_⟩
      obtain ⟨a, b⟩ := hid q rfl
      exact bcWrite_lookup_other s q E res a b
  · rw [bc_error_unchanged fuel k s p hok]
    exact ⟨rfl, fun _ _ => rfl⟩

/-! ## 10. `max_iterations` -/

/-- **max_iterations is honoured.** -/
theorem bc_honours_max_iterations {fuel : Nat} {k : Consts K} {s s' : GState K} {q : Params K}
    (h : basicCompute fuel k s (some q) = (s', .ok)) (hm : q.maxIterations ≠ 0) :
    ∃ E res, bcEffective k s q = some E ∧
      compute fuel E.c4 E.p3 E.a E.e (bcOpts q E) = .ok res ∧ res.iters ≤ q.maxIterations := by
  obtain ⟨E, res, hp, hc, _⟩ := bc_ok_inv h
  refine ⟨E, res, bcEffective_eq_some.mpr hp, hc, ?_⟩
  have := (C05.compute_spec _ _ _ _ _ _ _ hc).2.2.1
  have ho : (bcOpts q E).maxIterations = some (q.maxIterations : Int) := by
    unfold bcOpts; simp [hm]
  rw [ho] at this
  simp only [Option.getD_some] at this
  have := this (by exact_mod_cast hm)
  exact_mod_cast this

/-! ## 6b. the error codes, exactly -/

theorem preOK_of_bcLoadPre {s : GState K} {q : Params K} {pre : Option (TV K)}
    (h : bcLoadPre s q = some pre) : PreOK s q := by
  unfold bcLoadPre at h
  by_cases h0 : q.preTrustId = ""
  · exact Or.inl h0
  · have : (q.preTrustId == "") = false := beq_false_of_ne h0
    rw [this] at h
    simp only [Bool.false_eq_true, if_false] at h
    cases hl : lookup s.vecs q.preTrustId with
    | none => rw [hl] at h; cases h
    | some pt => exact Or.inr (by rw [hl]; rfl)

/-- the response code is the error of the preparation, else `Unavailable` when `compute` fails,
    else `ok` -/
theorem bc_code_eq (fuel : Nat) (k : Consts K) (s : GState K) (q : Params K) :
    (basicCompute fuel k s (some q)).2 =
      match bcPrep k s q with
      | .error c => c
      | .ok E =>
        match compute fuel E.c4 E.p3 E.a E.e (bcOpts q E) with
        | .error _ => .unavailable
        | .ok _ => .ok := by
  rw [basicCompute_eq]
  cases bcPrep k s q with
  | error c => rfl
  | ok E =>
    simp only
    cases compute fuel E.c4 E.p3 E.a E.e (bcOpts q E) <;> rfl

/-- the three ways the preparation fails -/
theorem bcPrep_error_cases {k : Consts K} {s : GState K} {q : Params K} {c : Code}
    (h : bcPrep k s q = .error c) :
    (c = .notFound ∧ (lookup s.mats q.localTrustId = none ∨
      ∃ ltm, lookup s.mats q.localTrustId = some ltm ∧ ltm.m.major = ltm.m.minor ∧
        (¬ PreOK s q ∨ lookup s.vecs q.globalTrustId = none))) ∨
    (c = .invalidArgument ∧ ∃ ltm gt, lookup s.mats q.localTrustId = some ltm ∧
      ltm.m.major = ltm.m.minor ∧ PreOK s q ∧ lookup s.vecs q.globalTrustId = some gt ∧
      BadParams q) ∨
    c = .internal := by
  unfold bcPrep at h
  split at h
  · rename_i h1
    cases h; exact Or.inl ⟨rfl, Or.inl h1⟩
  · rename_i ltm h1
    split at h
    · cases h; exact Or.inr (Or.inr rfl)
    · rename_i hsq
      have hsq : ltm.m.major = ltm.m.minor := by simpa using hsq
      split at h
      · rename_i hp
        cases h
        refine Or.inl ⟨rfl, Or.inr ⟨ltm, h1, hsq, Or.inl ?_⟩⟩
        intro hpre
        obtain ⟨pre, hp'⟩ := bcLoadPre_isSome hpre
        rw [hp] at hp'; cases hp'
      · rename_i pre hp
        split at h
        · rename_i hg
          cases h
          exact Or.inl ⟨rfl, Or.inr ⟨ltm, h1, hsq, Or.inr hg⟩⟩
        · rename_i gt hg
          simp only at h
          split at h
          · rename_i hb
            cases h
            refine Or.inr (Or.inl ⟨rfl, ltm, gt, h1, hsq, preOK_of_bcLoadPre hp, hg, ?_⟩)
            exact (bcParamsOK_eq_false_iff q).mp (by simpa using hb)
          · unfold bcFinish at h
            simp only at h
            split at h
            · cases h; exact Or.inr (Or.inr rfl)
            · split at h
              · cases h
              · cases h; exact Or.inr (Or.inr rfl)

/-- **NotFound** is reported exactly when one of the referenced ids is unknown (ids are looked
    up in the order local trust, pre-trust, global trust; a stored local trust is always
    square) -/
theorem bc_notFound_iff (fuel : Nat) (k : Consts K) (s : GState K) (q : Params K) :
    (basicCompute fuel k s (some q)).2 = .notFound ↔
      (lookup s.mats q.localTrustId = none ∨
        ∃ ltm, lookup s.mats q.localTrustId = some ltm ∧ ltm.m.major = ltm.m.minor ∧
          (¬ PreOK s q ∨ lookup s.vecs q.globalTrustId = none)) := by
  constructor
  · intro h
    rw [bc_code_eq] at h
    cases hp : bcPrep k s q with
    | error c =>
      rw [hp] at h
      simp only at h
      subst h
      rcases bcPrep_error_cases hp with ⟨_, h'⟩ | ⟨h', _⟩ | h'
      · exact h'
      · cases h'
      · cases h'
    | ok E =>
      rw [hp] at h
      simp only at h
      cases hc : compute fuel E.c4 E.p3 E.a E.e (bcOpts q E) <;> rw [hc] at h <;> cases h
  · rintro (h | ⟨ltm, h1, hsq, h | h⟩)
    · rw [bc_unknown_local_trust fuel k s q h]
    · have hne : q.preTrustId ≠ "" := fun h0 => h (Or.inl h0)
      have hl : lookup s.vecs q.preTrustId = none := by
        cases hl : lookup s.vecs q.preTrustId with
        | none => rfl
        | some pt => exact absurd (Or.inr (by rw [hl]; rfl)) h
      rw [bc_unknown_pre_trust fuel k s q ltm h1 hsq hne hl]
    · by_cases hpre : PreOK s q
      · rw [bc_unknown_global_trust fuel k s q ltm h1 hsq hpre h]
      · have hne : q.preTrustId ≠ "" := fun h0 => hpre (Or.inl h0)
        have hl : lookup s.vecs q.preTrustId = none := by
          cases hl : lookup s.vecs q.preTrustId with
          | none => rfl
          | some pt => exact absurd (Or.inr (by rw [hl]; rfl)) hpre
        rw [bc_unknown_pre_trust fuel k s q ltm h1 hsq hne hl]

/-- **InvalidArgument** is reported exactly when the request has no `params`, or all ids are
    known and `alpha` / `epsilon` is out of range -/
theorem bc_invalidArgument_iff (fuel : Nat) (k : Consts K) (s : GState K) (q : Params K) :
    (basicCompute fuel k s (some q)).2 = .invalidArgument ↔
      ∃ ltm gt, lookup s.mats q.localTrustId = some ltm ∧ ltm.m.major = ltm.m.minor ∧
        PreOK s q ∧ lookup s.vecs q.globalTrustId = some gt ∧ BadParams q := by
  constructor
  · intro h
    rw [bc_code_eq] at h
    cases hp : bcPrep k s q with
    | error c =>
      rw [hp] at h
      simp only at h
      subst h
      rcases bcPrep_error_cases hp with ⟨h', _⟩ | ⟨_, h'⟩ | h'
      · cases h'
      · exact h'
      · cases h'
    | ok E =>
      rw [hp] at h
      simp only at h
      cases hc : compute fuel E.c4 E.p3 E.a E.e (bcOpts q E) <;> rw [hc] at h <;> cases h
  · rintro ⟨ltm, gt, h1, hsq, hpre, hg, hb⟩
    rw [bc_bad_params fuel k s q ltm h1 hsq hpre gt hg hb]

/-! ## non-vacuity at `K := ℚ` -/

section examples

-- `ℚ` carries two `Scalar` instances; the examples use the proof instance.
attribute [local instance 10000] fieldScalar

/-- two peers: 0 trusts 1; 1 trusts 0 and distrusts itself.  Stored objects: local trust "lt"
    (ts 7), pre-trust "pt" = e₀ (ts 9), an empty global trust "gt" (ts 3) and an empty
    positive-only vector "pos" (ts 20). -/
private def exS : GState ℚ :=
  { mats := [("lt", ⟨⟨2, 2, [[⟨1, 1⟩], [⟨0, 1⟩, ⟨1, -1⟩]], []⟩, 7⟩)],
    vecs := [("gt", ⟨⟨0, []⟩, 3⟩), ("pt", ⟨⟨2, [⟨0, 1⟩]⟩, 9⟩), ("pos", ⟨⟨0, []⟩, 20⟩)] }
private def exK : Consts ℚ := ⟨1/2, 1/1000000⟩
private def exQ : Params ℚ := ⟨"lt", "pt", some (1/2), some (1/10), "gt", 0, "pos"⟩

/-- observable part of a stored vector: timestamp, dimension, entries -/
private def vview (s : GState ℚ) (id : String) : Option (Nat × Nat × List (Nat × ℚ)) :=
  (lookup s.vecs id).map fun tv => (tv.ts, tv.v.dim, tv.v.entries.map fun e => (e.idx, e.val))

/-- one run: discounted scores in "gt" (peer 1 loses its own distrust), undiscounted scores in
    "pos"; "gt" is re-stamped 9 = max(3, 7, 9), "pos" keeps 20, "pt" is untouched -/
example :
    (basicCompute 100 exK exS (some exQ)).2 = .ok ∧
    vview (basicCompute 100 exK exS (some exQ)).1 "gt" = some (9, 2, [(0, 11/16), (1, 0)]) ∧
    vview (basicCompute 100 exK exS (some exQ)).1 "pos" = some (20, 2, [(0, 11/16), (1, 5/16)]) ∧
    vview (basicCompute 100 exK exS (some exQ)).1 "pt" = some (9, 2, [(0, 1)]) := by
  refine ⟨?_, ?_, ?_, ?_⟩ <;> decide +kernel

private theorem exRun : basicCompute 100 exK exS (some exQ) =
    ((basicCompute 100 exK exS (some exQ)).1, .ok) :=
  Prod.ext rfl (by decide +kernel)

example := bc_result exRun
example (E : BcEff ℚ) (h : bcEffective exK exS exQ = some E) := bc_effective_spec h
example : (bcEffective exK exS exQ).isSome = true := by
  obtain ⟨E, _, h, _⟩ := bc_result exRun
  rw [h]; rfl
example := bc_inputs_unchanged 100 exK exS (some exQ)
example := bc_warm_start exRun
example := bc_timestamps exRun
example := bc_ts_never_lowered exRun

/-- `max_iterations = 2` stops earlier (after 2 iterations: 5/8 instead of 11/16) -/
private theorem exRun2 : basicCompute 100 exK exS (some { exQ with maxIterations := 2 }) =
    ((basicCompute 100 exK exS (some { exQ with maxIterations := 2 })).1, .ok) :=
  Prod.ext rfl (by decide +kernel)
example := bc_honours_max_iterations exRun2 (by decide)
example : vview (basicCompute 100 exK exS (some { exQ with maxIterations := 2 })).1 "gt"
    = some (9, 2, [(0, 5/8), (1, 0)]) := by decide +kernel

/-- no pre-trust id (uniform pre-trust), no positive-only id, default `alpha` / `epsilon` -/
private def exQ3 : Params ℚ := ⟨"lt", "", none, none, "gt", 0, ""⟩
example : vview (basicCompute 100 exK exS (some exQ3)).1 "gt"
    = some (7, 2, [(0, 1/2), (1, 0)]) := by decide +kernel

/-- errors: out-of-range alpha, unknown ids, no params -/
example : (basicCompute 100 exK exS (some { exQ with alpha := some 2 })).2 = .invalidArgument ∧
    (basicCompute 100 exK exS (some { exQ with epsilon := some 0 })).2 = .invalidArgument ∧
    (basicCompute 100 exK exS (some { exQ with globalTrustId := "zz" })).2 = .notFound ∧
    (basicCompute 100 exK exS (some { exQ with preTrustId := "zz" })).2 = .notFound ∧
    (basicCompute 100 exK exS (some { exQ with localTrustId := "zz" })).2 = .notFound ∧
    (basicCompute 100 exK exS none).2 = .invalidArgument := by decide +kernel
example : BadParams { exQ with alpha := some 2 } :=
  Or.inl ⟨2, rfl, Or.inr (by norm_num)⟩
example : PreOK exS exQ := Or.inr (by decide +kernel)

end examples

end EtVerif.C17
