/-
  TrC11 — the CURRENT SOURCE of `mergeSpan` / `Vector.Merge` (translated by tools/go2lean on every run)
  computes exactly the model's `mergeSpan` / `Vec.merge`; composed with Props/C11 this states the
  overlay property about the translated Go code itself.  Property theorems only.
-/
import EtVerif.Proofs.TrVecMerge
import EtVerif.Props.C11

namespace EtVerif.TrC11
open EtVerif EtVerif.GoSem EtVerif.Gen EtVerif.Tr Scalar

variable {α : Type} [Scalar α]

set_option linter.unusedSectionVars false

/-- matrix.go `mergeSpan` = the model's `mergeSpan`: all seven branches, for every pair of spans (sorted or
    not), every fuel ≥ the number of entries (termination included), no panic. -/
theorem mergeSpan_refines (fuel : Nat) (s1 s2 : List (Entry α)) (hf : s1.length + s2.length ≤ fuel) :
    (Gen.mergeSpan fuel (toGs s1) (toGs s2)).map (fun r => r.2) = .ok (toGs (EtVerif.mergeSpan s1 s2)) :=
  Tr.mergeSpan_refines fuel s1 s2 hf

/-- vector.go `Vector.Merge` = `Vec.merge` (grow to the larger dimension, overlay, reset the argument). -/
theorem vector_merge_refines (fuel : Nat) (v v2 : Vec α)
    (hf : v.entries.length + v2.entries.length ≤ fuel) :
    (Vector_Merge fuel (toGV v) (toGV v2)).map (fun r => (r.1.v, r.1.v2)) =
      .ok (toGV (v.merge v2).1, toGV (v.merge v2).2) :=
  Vector_Merge_refines fuel v v2 hf

/-- The property, on the translated Go code: for index-sorted spans over an ordered field, the Go
    `mergeSpan` returns (without panicking, within the fuel) a span that is index-sorted and is, cell by
    cell, the update where the update stores an entry (an explicit zero erasing the cell) and the old
    content elsewhere. -/
theorem go_mergeSpan_overlay {K : Type} [Field K] [LinearOrder K] (fuel : Nat)
    (s1 s2 : List (Entry K)) (h1 : Sorted s1) (h2 : Sorted s2) (hf : s1.length + s2.length ≤ fuel) :
    ∃ st out, Gen.mergeSpan fuel (toGs s1) (toGs s2) = .ok (st, toGs out) ∧ Sorted out ∧
      ∀ i, denE out i = if ∃ e ∈ s2, e.idx = i then denE s2 i else denE s1 i := by
  obtain ⟨r, hr, hout⟩ := map_eq_ok (Tr.mergeSpan_refines fuel s1 s2 hf)
  refine ⟨r.1, EtVerif.mergeSpan s1 s2, ?_, C11.sorted_mergeSpan h1 h2, fun i => C11.den_mergeSpan h1 h2 i⟩
  rw [hr, ← hout]

/-- …and the same for `Vector.Merge`: dimension = max, argument emptied, well-formed, overlay. -/
theorem go_vector_merge_overlay {K : Type} [Field K] [LinearOrder K] (fuel : Nat) (v v2 : Vec K)
    (h : WF v.dim v.entries) (h2 : WF v2.dim v2.entries)
    (hf : v.entries.length + v2.entries.length ≤ fuel) :
    ∃ st out, Vector_Merge fuel (toGV v) (toGV v2) = .ok (st, ()) ∧ st.v = toGV out ∧
      st.v2 = toGV (⟨0, []⟩ : Vec K) ∧ out.dim = max v.dim v2.dim ∧ WF out.dim out.entries ∧
      ∀ i, denE out.entries i = if ∃ e ∈ v2.entries, e.idx = i then denE v2.entries i else denE v.entries i := by
  obtain ⟨r, hr, hout⟩ := map_eq_ok (Vector_Merge_refines fuel v v2 hf)
  obtain ⟨hd, hz, hwf, hden⟩ := C11.merge_vec v v2 h h2
  have h1 := congrArg Prod.fst hout
  have h2' := congrArg Prod.snd hout
  simp only at h1 h2'
  refine ⟨r.1, (v.merge v2).1, ?_, h1, ?_, hd, hwf, hden⟩
  · rw [hr]
  · rw [h2', hz]

/-- non-vacuity of the hypotheses. -/
example : Sorted ([⟨0, 1⟩, ⟨2, 3⟩] : List (Entry ℚ)) ∧ Sorted ([⟨1, 5⟩, ⟨2, 0⟩] : List (Entry ℚ)) := by
  simp [Sorted]

end EtVerif.TrC11
