/-
  C11 — Merge is a last-writer-wins overlay.
  Property theorems only (helper lemmas live in Proofs/Merge.lean, Proofs/Matrix.lean).

  `denE es i` is the dense value of the span `es` at index `i`; `denRows rows i j` the dense
  value of a row table at `(i, j)` (`denE (rows.getD i []) j`); `Sorted es` = strictly
  increasing indices; `WF d es` = `Sorted es` and all indices `< d`;
  `WFM M` = `M.rows.length = M.major` and every row `WF M.minor`;
  `HiddenClean M` = every row of `Entries[len:cap]` is nil.
-/
import EtVerif.Proofs.Matrix
import Mathlib.Algebra.Order.Field.Rat
import Mathlib.Tactic.NormNum

namespace EtVerif.C11
open EtVerif

variable {K : Type} [Field K] [LinearOrder K]

set_option linter.unusedSectionVars false

/-! ## a, b. `mergeSpan` -/

/-- a. Cell by cell, the merged span has the update's value where the update stores an entry
    (an explicit zero erasing the cell) and the old value elsewhere. -/
theorem den_mergeSpan {s1 s2 : List (Entry K)} (h1 : Sorted s1) (h2 : Sorted s2) (i : Nat) :
    denE (mergeSpan s1 s2) i = if ∃ e ∈ s2, e.idx = i then denE s2 i else denE s1 i :=
  Mg.den_mergeSpan' h1 h2 i

/-- b. The merged span is strictly increasing (also where explicit zeros of `s2` are kept). -/
theorem sorted_mergeSpan {s1 s2 : List (Entry K)} (h1 : Sorted s1) (h2 : Sorted s2) :
    Sorted (mergeSpan s1 s2) :=
  Mg.sorted_mergeSpan' h1 h2

/-- b. Well-formedness for a dimension is preserved. -/
theorem wf_mergeSpan {d : Nat} {s1 s2 : List (Entry K)} (h1 : WF d s1) (h2 : WF d s2) :
    WF d (mergeSpan s1 s2) :=
  Mg.wf_mergeSpan' h1 h2

/-- Every stored entry of the merged span is a stored entry of one of the arguments. -/
theorem mem_mergeSpan {s1 s2 : List (Entry K)} {e : Entry K} (h : e ∈ mergeSpan s1 s2) :
    e ∈ s1 ∨ e ∈ s2 :=
  Mg.mem_mergeSpan h

example : Sorted ([⟨0, 1⟩, ⟨2, 3⟩] : List (Entry ℚ)) ∧ Sorted ([⟨1, 5⟩, ⟨2, 0⟩] : List (Entry ℚ)) := by
  simp [Sorted]

example : WF 3 ([⟨0, 1⟩, ⟨2, 3⟩] : List (Entry ℚ)) ∧ WF 3 ([⟨1, 5⟩, ⟨2, 0⟩] : List (Entry ℚ)) := by
  simp [WF, Sorted]

/-! ## c. `Vector.Merge` -/

/-- `SetDim` to a dimension that is not smaller never truncates. -/
theorem setDim_of_le (v : Vec K) {d : Nat} (h : v.dim ≤ d) : v.setDim d = ⟨d, v.entries⟩ := by
  unfold Vec.setDim
  rw [if_neg (by omega)]

/-- c. `Vector.Merge`: the dimension becomes the maximum, the argument is left empty, the result
    is well-formed and is cell by cell the overlay of `v2` on `v`. -/
theorem merge_vec (v v2 : Vec K) (h : WF v.dim v.entries) (h2 : WF v2.dim v2.entries) :
    (v.merge v2).1.dim = max v.dim v2.dim ∧
    (v.merge v2).2 = ⟨0, []⟩ ∧
    WF (v.merge v2).1.dim (v.merge v2).1.entries ∧
    ∀ i, denE (v.merge v2).1.entries i =
      if ∃ e ∈ v2.entries, e.idx = i then denE v2.entries i else denE v.entries i := by
  have hm : v.merge v2 = (⟨max v.dim v2.dim, mergeSpan v.entries v2.entries⟩, ⟨0, []⟩) := by
    unfold Vec.merge
    simp only [setDim_of_le v (Nat.le_max_left v.dim v2.dim)]
  rw [hm]
  refine ⟨rfl, rfl, ?_, ?_⟩
  · exact Mg.wf_mergeSpan' (Mg.wf_mono h (Nat.le_max_left _ _))
      (Mg.wf_mono h2 (Nat.le_max_right _ _))
  · intro i
    exact Mg.den_mergeSpan' h.1 h2.1 i

example : WF (⟨3, [⟨0, 1⟩, ⟨2, 3⟩]⟩ : Vec ℚ).dim (⟨3, [⟨0, 1⟩, ⟨2, 3⟩]⟩ : Vec ℚ).entries ∧
    WF (⟨5, [⟨1, 5⟩, ⟨2, 0⟩, ⟨4, 7⟩]⟩ : Vec ℚ).dim (⟨5, [⟨1, 5⟩, ⟨2, 0⟩, ⟨4, 7⟩]⟩ : Vec ℚ).entries := by
  simp [WF, Sorted]

/-! ## d. `CSMatrix.Merge` -/

/-- d. `CSMatrix.Merge`: dimensions become the maxima, the argument is left empty, the result
    is well-formed with a clean hidden part, and is cell by cell the overlay of `B` on `A`. -/
theorem merge_matrix (A B : CSM K) (hA : WFM A) (hc : HiddenClean A) (hB : WFM B) :
    (A.merge B).1.major = max A.major B.major ∧
    (A.merge B).1.minor = max A.minor B.minor ∧
    (A.merge B).2 = CSM.empty ∧
    WFM (A.merge B).1 ∧ HiddenClean (A.merge B).1 ∧
    ∀ i j, denRows (A.merge B).1.rows i j =
      if ∃ e ∈ B.rows.getD i [], e.idx = j then denRows B.rows i j else denRows A.rows i j :=
  ⟨Mx.merge_major A B, Mx.merge_minor A B, Mx.merge_snd A B, Mx.merge_wfm hA hc hB,
    Mx.merge_hiddenClean hc B, Mx.merge_den hA hc hB⟩

/-- d'. Row `i` of the merged matrix is literally `mergeSpan` of the two rows `i`. -/
theorem merge_matrix_row (A B : CSM K) (hA : WFM A) (hc : HiddenClean A) (hB : WFM B) (i : Nat) :
    (A.merge B).1.rows.getD i [] = mergeSpan (A.rows.getD i []) (B.rows.getD i []) :=
  Mx.merge_getD hA.1 hc hB.1 i

example : WFM (⟨2, 3, [[⟨0, 1⟩, ⟨2, 3⟩], [⟨1, 2⟩]], [[]]⟩ : CSM ℚ) ∧
    HiddenClean (⟨2, 3, [[⟨0, 1⟩, ⟨2, 3⟩], [⟨1, 2⟩]], [[]]⟩ : CSM ℚ) ∧
    WFM (⟨3, 2, [[⟨0, 0⟩], [], [⟨1, 4⟩]], []⟩ : CSM ℚ) := by
  simp [WFM, HiddenClean, WF, Sorted]

/-! ## e. sequences of merges -/

/-- dense overlay of the stored cells of `B` (explicit zeros included) on a dense map -/
def overlay (f : Nat → Nat → K) (B : CSM K) : Nat → Nat → K :=
  fun i j => if ∃ e ∈ B.rows.getD i [], e.idx = j then denRows B.rows i j else f i j

/-- e. After any sequence of merges the matrix is well-formed, its dimensions are the running
    maxima, and its dense content is the map obtained by applying the updates in order. -/
theorem merge_history (us : List (CSM K)) (A : CSM K) (hA : WFM A) (hc : HiddenClean A)
    (hus : ∀ B ∈ us, WFM B) :
    WFM (us.foldl (fun A B => (A.merge B).1) A) ∧
    HiddenClean (us.foldl (fun A B => (A.merge B).1) A) ∧
    (us.foldl (fun A B => (A.merge B).1) A).major = us.foldl (fun d B => max d B.major) A.major ∧
    (us.foldl (fun A B => (A.merge B).1) A).minor = us.foldl (fun d B => max d B.minor) A.minor ∧
    denRows (us.foldl (fun A B => (A.merge B).1) A).rows = us.foldl overlay (denRows A.rows) := by
  induction us generalizing A with
  | nil => exact ⟨hA, hc, rfl, rfl, rfl⟩
  | cons B us ih =>
    have hB : WFM B := hus B (by simp)
    obtain ⟨h1, h2, _, h4, h5, h6⟩ := merge_matrix A B hA hc hB
    have := ih (A.merge B).1 h4 h5 (fun B' hB' => hus B' (by simp [hB']))
    simp only [List.foldl_cons]
    rw [h1, h2] at this
    have hden : denRows (A.merge B).1.rows = overlay (denRows A.rows) B := by
      funext i j; exact h6 i j
    rw [hden] at this
    exact this

/-- dense overlay of the stored cells of a vector update on a dense vector -/
def overlayVec (f : Nat → K) (u : Vec K) : Nat → K :=
  fun i => if ∃ e ∈ u.entries, e.idx = i then denE u.entries i else f i

/-- e (vectors). The same for `Vector.Merge`. -/
theorem merge_vec_history (us : List (Vec K)) (v : Vec K) (hv : WF v.dim v.entries)
    (hus : ∀ u ∈ us, WF u.dim u.entries) :
    WF (us.foldl (fun v u => (v.merge u).1) v).dim (us.foldl (fun v u => (v.merge u).1) v).entries ∧
    (us.foldl (fun v u => (v.merge u).1) v).dim = us.foldl (fun d u => max d u.dim) v.dim ∧
    denE (us.foldl (fun v u => (v.merge u).1) v).entries = us.foldl overlayVec (denE v.entries) := by
  induction us generalizing v with
  | nil => exact ⟨hv, rfl, rfl⟩
  | cons u us ih =>
    obtain ⟨h1, _, h3, h4⟩ := merge_vec v u hv (hus u (by simp))
    have := ih (v.merge u).1 h3 (fun u' hu' => hus u' (by simp [hu']))
    simp only [List.foldl_cons]
    rw [h1] at this
    have hden : denE (v.merge u).1.entries = overlayVec (denE v.entries) u := by
      funext i; exact h4 i
    rw [hden] at this
    exact this

/-! ## f. independence of batching -/

/-- one single-cell assignment `(row, col) := val` on a dense map (`val = 0` erases) -/
def assign (f : Nat → Nat → K) (x : Coo K) : Nat → Nat → K :=
  fun i j => if x.row = i ∧ x.col = j then x.val else f i j

/-- assignments to other cells do not change a cell -/
theorem assign_fold_of_not_mem (b : List (Coo K)) (f : Nat → Nat → K) {i j : Nat}
    (h : ∀ x ∈ b, ¬ (x.row = i ∧ x.col = j)) : b.foldl assign f i j = f i j := by
  induction b generalizing f with
  | nil => rfl
  | cons a b ih =>
    rw [List.foldl_cons, ih _ (fun x hx => h x (by simp [hx]))]
    unfold assign
    rw [if_neg (h a (by simp))]

/-- in a batch with pairwise distinct coordinates each assigned cell ends with its value -/
theorem assign_fold_of_mem (b : List (Coo K)) (f : Nat → Nat → K)
    (hd : (b.map (fun e => (e.row, e.col))).Nodup) {x : Coo K} (hx : x ∈ b) :
    b.foldl assign f x.row x.col = x.val := by
  induction b generalizing f with
  | nil => simp at hx
  | cons a b ih =>
    obtain ⟨hd1, hd2⟩ := Mx.distinctCoo_cons.mp hd
    rw [List.foldl_cons]
    rcases List.mem_cons.mp hx with rfl | hx'
    · rw [assign_fold_of_not_mem b _ hd1]
      unfold assign
      rw [if_pos ⟨rfl, rfl⟩]
    · exact ih _ hd2 hx'

/-- Merging the update matrix built (zeros kept) from a batch of assignments with pairwise
    distinct coordinates is the same as applying the assignments one by one. -/
theorem overlay_newCSR (f : Nat → Nat → K) (r c : Nat) (b : List (Coo K))
    (hd : (b.map (fun e => (e.row, e.col))).Nodup) (hr : ∀ x ∈ b, x.row < r) :
    overlay f (CSM.newCSR r c b true) = b.foldl assign f := by
  funext i j
  unfold overlay
  by_cases h : ∃ x ∈ b, x.row = i ∧ x.col = j
  · obtain ⟨x, hx, rfl, rfl⟩ := h
    have hs : ∃ e ∈ (CSM.newCSR r c b true).rows.getD x.row [], e.idx = x.col :=
      Mx.newCSR_stores.mpr ⟨hr x hx, x, hx, rfl, rfl, Or.inr rfl⟩
    rw [if_pos hs, assign_fold_of_mem b f hd hx]
    exact Mx.newCSR_den_of_mem hd (fun e he _ => hr e he) hx
  · have hs : ¬ ∃ e ∈ (CSM.newCSR r c b true).rows.getD i [], e.idx = j := by
      intro hs
      obtain ⟨_, e, he, h1, h2, _⟩ := Mx.newCSR_stores.mp hs
      exact h ⟨e, he, h1, h2⟩
    rw [if_neg hs, assign_fold_of_not_mem b f (fun x hx hxy => h ⟨x, hx, hxy⟩)]

/-- f. The dense content after merging a sequence of assignment batches (each batch
    `(rows, cols, assignments)` built with `NewCSRMatrix(…, includeZero = true)`, pairwise distinct
    coordinates inside a batch, in range) is the result of applying all single assignments in
    order: it depends only on the concatenation of the batches, not on the batching. -/
theorem rebatch_history (batches : List (Nat × Nat × List (Coo K))) (A : CSM K) (hA : WFM A)
    (hc : HiddenClean A)
    (hb : ∀ b ∈ batches, (b.2.2.map (fun e => (e.row, e.col))).Nodup ∧
      ∀ x ∈ b.2.2, x.row < b.1 ∧ x.col < b.2.1) :
    denRows (batches.foldl (fun A b => (A.merge (CSM.newCSR b.1 b.2.1 b.2.2 true)).1) A).rows =
      (batches.map (·.2.2)).flatten.foldl assign (denRows A.rows) := by
  have hfold : ∀ (bs : List (Nat × Nat × List (Coo K))) (A : CSM K),
      bs.foldl (fun A b => (A.merge (CSM.newCSR b.1 b.2.1 b.2.2 true)).1) A =
        (bs.map (fun b => CSM.newCSR b.1 b.2.1 b.2.2 true)).foldl (fun A B => (A.merge B).1) A := by
    intro bs
    induction bs with
    | nil => intro A; rfl
    | cons b bs ih => intro A; simp only [List.foldl_cons, List.map_cons, ih]
  rw [hfold]
  have hw : ∀ B ∈ batches.map (fun b => CSM.newCSR b.1 b.2.1 b.2.2 true), WFM B := by
    intro B hB
    obtain ⟨b, hbm, rfl⟩ := List.mem_map.mp hB
    exact Mx.newCSR_wfm (hb b hbm).1 (fun e he _ => ((hb b hbm).2 e he).2)
  rw [(merge_history _ A hA hc hw).2.2.2.2]
  generalize denRows A.rows = f
  clear hw hfold hA hc
  induction batches generalizing f with
  | nil => rfl
  | cons b bs ih =>
    simp only [List.map_cons, List.foldl_cons, List.flatten_cons, List.foldl_append]
    rw [overlay_newCSR f b.1 b.2.1 b.2.2 (hb b (by simp)).1
      (fun x hx => ((hb b (by simp)).2 x hx).1)]
    exact ih (fun b' hb' => hb b' (by simp [hb'])) _

/-- f. Two ways of cutting the same sequence of assignments into batches give the same dense
    content. -/
theorem rebatch_invariant (bs1 bs2 : List (Nat × Nat × List (Coo K))) (A : CSM K) (hA : WFM A)
    (hc : HiddenClean A)
    (h1 : ∀ b ∈ bs1, (b.2.2.map (fun e => (e.row, e.col))).Nodup ∧
      ∀ x ∈ b.2.2, x.row < b.1 ∧ x.col < b.2.1)
    (h2 : ∀ b ∈ bs2, (b.2.2.map (fun e => (e.row, e.col))).Nodup ∧
      ∀ x ∈ b.2.2, x.row < b.1 ∧ x.col < b.2.1)
    (hsame : (bs1.map (·.2.2)).flatten = (bs2.map (·.2.2)).flatten) :
    denRows (bs1.foldl (fun A b => (A.merge (CSM.newCSR b.1 b.2.1 b.2.2 true)).1) A).rows =
      denRows (bs2.foldl (fun A b => (A.merge (CSM.newCSR b.1 b.2.1 b.2.2 true)).1) A).rows := by
  rw [rebatch_history bs1 A hA hc h1, rebatch_history bs2 A hA hc h2, hsame]

/-- f (dense level). Overlaying `B` then `C` on a dense map is overlaying once the combined
    update "`C` over `B`" (any matrix `D` whose stored cells are those of `B` or `C`, with `C`'s
    value where `C` stores the cell): batches can be combined before merging. -/
theorem rebatch_invariant_dense (f : Nat → Nat → K) (B C D : CSM K)
    (hcells : ∀ i j, (∃ e ∈ D.rows.getD i [], e.idx = j) ↔
      ((∃ e ∈ B.rows.getD i [], e.idx = j) ∨ ∃ e ∈ C.rows.getD i [], e.idx = j))
    (hvals : ∀ i j, denRows D.rows i j =
      if ∃ e ∈ C.rows.getD i [], e.idx = j then denRows C.rows i j else denRows B.rows i j) :
    overlay (overlay f B) C = overlay f D := by
  funext i j
  unfold overlay
  by_cases hC : ∃ e ∈ C.rows.getD i [], e.idx = j
  · rw [if_pos hC, if_pos ((hcells i j).mpr (Or.inr hC)), hvals, if_pos hC]
  · rw [if_neg hC]
    by_cases hB : ∃ e ∈ B.rows.getD i [], e.idx = j
    · rw [if_pos hB, if_pos ((hcells i j).mpr (Or.inl hB)), hvals, if_neg hC]
    · rw [if_neg hB, if_neg (fun h => ((hcells i j).mp h).elim hB hC)]

example :
    let bs1 : List (Nat × Nat × List (Coo ℚ)) := [(2, 2, [⟨0, 0, 1⟩, ⟨1, 1, 2⟩]), (2, 2, [⟨0, 0, 0⟩])]
    let bs2 : List (Nat × Nat × List (Coo ℚ)) := [(2, 2, [⟨0, 0, 1⟩]), (2, 2, [⟨1, 1, 2⟩, ⟨0, 0, 0⟩])]
    (∀ b ∈ bs1, (b.2.2.map (fun e => (e.row, e.col))).Nodup ∧
      ∀ x ∈ b.2.2, x.row < b.1 ∧ x.col < b.2.1) ∧
    (∀ b ∈ bs2, (b.2.2.map (fun e => (e.row, e.col))).Nodup ∧
      ∀ x ∈ b.2.2, x.row < b.1 ∧ x.col < b.2.1) ∧
    (bs1.map (·.2.2)).flatten = (bs2.map (·.2.2)).flatten := by
  simp

end EtVerif.C11
