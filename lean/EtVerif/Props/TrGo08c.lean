/-
  TrGo08c — C08 about the PIPELINE of the two translated Go functions (Gen/Translated.lean, regenerated from the
  current source on every run): `ExtractDistrust(L)` and then `DiscountTrustVector(t, D)` on the very matrix the
  first call returned.  The two sites cooperate: the discount is right only if the matrix the first produces has
  the shape and sign the second assumes.  The theorem states the end-to-end formula in terms of the ORIGINAL
  local trust `L` and the trust part `P` left in its place:  t'_j = t_j − Σ_i t_i · (P_ij − L_ij),
  with a fuel bound for the second call taken from `L` alone.  Composition of `TrGo08.go_extract_spec` and
  `go_discount_spec`; property theorems only (one list lemma about stored-entry counts).
-/
import EtVerif.Props.TrGo08

namespace EtVerif.TrGo08c
open EtVerif EtVerif.GoSem EtVerif.Gen EtVerif.Tr EtVerif.Distrust Scalar EtVerif.TrGo08

variable {K : Type} [Field K] [LinearOrder K]

/-- row tables of equal length, row by row no longer: no more stored entries in total. -/
theorem sum_len_le {β : Type} : ∀ (A B : List (List β)), A.length = B.length →
    (∀ i, (A.getD i []).length ≤ (B.getD i []).length) →
    (A.map List.length).sum ≤ (B.map List.length).sum
  | [], [], _, _ => by simp
  | a :: A, b :: B, hl, h => by
    have h0 := h 0
    have := sum_len_le A B (by simpa using hl) (fun i => by simpa using h (i + 1))
    simp at h0 ⊢
    omega
  | [], _ :: _, hl, _ => by simp at hl
  | _ :: _, [], hl, _ => by simp at hl

/-- `D, err := ExtractDistrust(L)` then `DiscountTrustVector(t, D)`: for every square `L` whose row table has
    `major` rows, every well-formed score vector `t`, every capacity behaviour, fuel ≥ `major` for the first call
    and ≥ `|t| + nnz(L) + 1` for the second: both calls return (no panic) a nil error, `L`'s place holds the trust
    part `P` (all stored values ≥ 0), and the discounted vector has `t`'s dimension with
    `t'_j = t_j − Σ_i t_i · (P_ij − L_ij)` — the negative part of the ORIGINAL matrix, weighted by the
    undiscounted scores. -/
theorem go_extract_then_discount [IsStrictOrderedRing K] (capO : Nat → Int) (fuel fuel' : Nat)
    (L : CSM K) (t : Vec K) (hrows : L.rows.length = L.major) (hf : L.major ≤ fuel)
    (hsq : L.major = L.minor) (ht : WF t.dim t.entries)
    (hf' : t.entries.length + (L.rows.map List.length).sum + 1 ≤ fuel') :
    ∃ st P gD st' out, Gen.ExtractDistrust fuel (toGM L) = .ok (st, (gD, none)) ∧ st.localTrust = toGM P ∧
      (∀ r ∈ P.rows, ∀ e ∈ r, 0 ≤ e.val) ∧
      Gen.DiscountTrustVector capO fuel' (toGV t) gD = .ok (st', none) ∧ st'.t = toGV out ∧
      out.dim = t.dim ∧
      ∀ j, denE out.entries j = denE t.entries j -
        ∑ i ∈ Finset.range t.dim, denE t.entries i * (denRows P.rows i j - denRows L.rows i j) := by
  obtain ⟨st, P, D, ha, hb, hsplit, hP, _, _, hcount, hdims, _⟩ := go_extract_spec fuel L hrows hf hsq
  have hlen : (D.rows.map List.length).sum ≤ (L.rows.map List.length).sum :=
    sum_len_le D.rows L.rows hdims.2.2.2.2.2 (fun i => by have := hcount i; omega)
  obtain ⟨st', out, ha', hb', hd', hspec⟩ := go_discount_spec capO fuel' t D (by omega) ht
  refine ⟨st, P, toGM D, st', out, ha, hb, hP, ha', hb', hd', fun j => ?_⟩
  rw [hspec j]
  congr 1
  refine Finset.sum_congr rfl (fun i _ => ?_)
  rw [hsplit i j]; ring

/-- a row that stores no negative value is left whole by the partition, with an empty distrust part. -/
theorem splitRow_of_nonneg (r : Row K) (h : ∀ e ∈ r, 0 ≤ e.val) : splitRow r = (r, []) := by
  unfold splitRow
  have h1 : r.filter (fun e => Scalar.ge e.val Scalar.zero) = r :=
    List.filter_eq_self.mpr (fun e he => by simpa [Scalar.ge] using h e he)
  have h2 : r.filter (fun e => !Scalar.ge e.val Scalar.zero) = [] :=
    List.filter_eq_nil_iff.mpr (fun e he => by simpa [Scalar.ge] using h e he)
  rw [h1, h2]; rfl

/-- Extraction is idempotent, as two successive Go calls: `ExtractDistrust` applied again to the trust part the
    first call left in place returns (no panic, nil error) a distrust matrix with NO stored entry and leaves the
    trust part exactly as it was. -/
theorem go_extract_twice [IsStrictOrderedRing K] (fuel : Nat) (L : CSM K)
    (hrows : L.rows.length = L.major) (hf : L.major ≤ fuel) (hsq : L.major = L.minor) :
    ∃ st P gD st' D', Gen.ExtractDistrust fuel (toGM L) = .ok (st, (gD, none)) ∧ st.localTrust = toGM P ∧
      Gen.ExtractDistrust fuel st.localTrust = .ok (st', (toGM D', none)) ∧ st'.localTrust = st.localTrust ∧
      D'.rows.length = L.major ∧ ∀ r ∈ D'.rows, r = [] := by
  obtain ⟨st, P, D, ha, hb, _, hP, _, _, _, hdims, _⟩ := go_extract_spec fuel L hrows hf hsq
  obtain ⟨d1, d2, d3, _⟩ := hdims
  obtain ⟨st', P', D', ha', hb', hm⟩ := go_extract_ok fuel P (by omega) (by omega) (by omega)
  obtain ⟨_, hP', hD'⟩ := extractDistrust_ok hm
  have hsplit : P.rows.map splitRow = P.rows.map (fun r => (r, ([] : Row K))) :=
    List.map_congr_left (fun r hr => splitRow_of_nonneg r (hP r hr))
  rw [hsplit] at hP' hD'
  have hPP : P' = P := by
    rw [hP']; simp [List.map_map, Function.comp_def]
  refine ⟨st, P, toGM D, st', D', ha, hb, by rw [hb]; exact ha', by rw [hb', hPP, hb], ?_, ?_⟩
  · rw [hD']; simp; omega
  · intro r hr
    rw [hD'] at hr
    simp only [List.map_map, List.mem_map, Function.comp_apply] at hr
    obtain ⟨_, _, rfl⟩ := hr
    rfl

/-- Non-vacuity: a square two-peer matrix with a negative entry, a well-formed score vector. -/
example : ({ major := 2, minor := 2, rows := [[⟨1, -1⟩], [⟨0, 2⟩]] } : CSM ℚ).rows.length = 2 ∧
    WF 2 ([⟨0, 1/2⟩, ⟨1, 1/2⟩] : List (Entry ℚ)) := by
  refine ⟨rfl, ?_, ?_⟩ <;> simp [Sorted]

end EtVerif.TrGo08c
