/-
  TrSrc — `basic.Compute` translated from the CURRENT SOURCE **together with the convergence checker translated from
  the source** (`Gen.Compute_src`: the second universe of tools/go2lean, where `math.Sqrt`, `math.IsNaN`, `math.IsInf`
  are the uninterpreted parameters `sqrtO`, `nanO`, `infO`) refines the model's `compute`.  No hand-written checker is
  left between the Go text and the model here; what remains assumed is `OracleOK sqrtO nanO infO e`
  (Proofs/TrChecker.lean): on COMPENSATED SUMS OF SQUARES `x` — the only values the checker ever takes a root of —
      (nanO (sqrtO x) || infO (sqrtO x)) = nonFinite x      and      le (sqrtO x) e = sqrtLe x e,
  two facts about IEEE `sqrt` (quantified over every scalar the first would be false of real floats: the root of a
  negative number is NaN although the number is finite), exercised bit for bit by the correspondence run of every
  compute case.  The remaining externs of the translation are `MulVec` (the sequential product; its concurrent
  implementation is the subject of C06/C07) and `sort.Sort`.  Property theorems only.
-/
import EtVerif.Proofs.TrComputeSrc
import EtVerif.Props.C02

namespace EtVerif.TrSrc
open EtVerif EtVerif.GoSem EtVerif.Gen EtVerif.Tr Scalar

section generic
variable {α : Type} [Scalar α]

set_option linter.unusedSectionVars false

/-- (A) a model run that ends properly is computed exactly by the translated Go code with the translated checker:
    same vector, no error, the model's flat-tail statistics (the delta under the root).  `_partial`: `fuel < 2^63-1`
    (Go's "unlimited" is `math.MaxInt`), and the fuel also bounds the `SubVec` loop inside `Update`. -/
theorem compute_src_refines_ok_partial (capO : Nat → Int) (fuel : Nat) (sqrtO : α → α) (nanO infO : α → Bool)
    (c : CSM α) (p : Vec α) (a e : α) (hO : OracleOK sqrtO nanO infO e)
    (o : ComputeOpts α) (tRes : Option (Vec α)) (gs : Option (GFlatTailStats α))
    (hres : o.resultDim = tRes.map (·.dim)) (hcols : c.colsInRange = true)
    (hap : (Vec.scale a p).entries ≠ [])
    (r : ComputeResult α) (hr : compute fuel c p a e o = .ok r) (hend : r.endedBy ≠ .outOfFuel)
    (hfuel : c.major + p.entries.length + max (c.major + p.entries.length) (o.t0.getD p).entries.length ≤ fuel)
    (hfuel63 : fuel < 9223372036854775807) :
    (Gen.Compute_src capO fuel sqrtO nanO infO (toGM c) (toGV p) a e (toGOpts o tRes gs)).map
        (fun x => (x.2, x.1.flatTailStats)) = .ok ((toGV r.t, none), toGStatsSrc sqrtO r.stats) :=
  Compute_src_refines_ok_sq_partial capO fuel sqrtO nanO infO c p a e hO o tRes gs hres hcols hap r hr hend hfuel hfuel63

/-- (B) whenever the model refuses (validation, non-finite delta) the translated code returns a nil vector and an
    error; it never panics. -/
theorem compute_src_refines_err_partial (capO : Nat → Int) (fuel : Nat) (sqrtO : α → α) (nanO infO : α → Bool)
    (c : CSM α) (p : Vec α) (a e : α) (hO : OracleOK sqrtO nanO infO e)
    (o : ComputeOpts α) (tRes : Option (Vec α)) (gs : Option (GFlatTailStats α))
    (hres : o.resultDim = tRes.map (·.dim)) (hcols : c.colsInRange = true)
    (hap : (Vec.scale a p).entries ≠ [])
    (er : SErr) (hr : compute fuel c p a e o = .error er)
    (hfuel : c.major + p.entries.length + max (c.major + p.entries.length) (o.t0.getD p).entries.length ≤ fuel)
    (hfuel63 : fuel < 9223372036854775807) :
    ∃ st msg, Gen.Compute_src capO fuel sqrtO nanO infO (toGM c) (toGV p) a e (toGOpts o tRes gs) =
      .ok (st, (GVector.zero, some msg)) :=
  Compute_src_refines_err_sq_partial capO fuel sqrtO nanO infO c p a e hO o tRes gs hres hcols hap er hr hfuel hfuel63

/-- (B), validation part: no oracle, no fuel hypothesis. -/
theorem compute_src_refuses_validation (capO : Nat → Int) (fuel : Nat) (sqrtO : α → α) (nanO infO : α → Bool)
    (c : CSM α) (p : Vec α) (a e : α)
    (o : ComputeOpts α) (tRes : Option (Vec α)) (gs : Option (GFlatTailStats α))
    (hres : o.resultDim = tRes.map (·.dim)) (hcols : c.colsInRange = true)
    (h : (∃ er, c.dim = .error er) ∨ ∃ n, c.dim = .ok n ∧ Refusal p a e o n) :
    ∃ st msg, Gen.Compute_src capO fuel sqrtO nanO infO (toGM c) (toGV p) a e (toGOpts o tRes gs) =
      .ok (st, (GVector.zero, some msg)) :=
  Compute_src_refuses_validation capO fuel sqrtO nanO infO c p a e o tRes gs hres hcols h

/-- the hypotheses are what the unrestricted ones would give (they are strictly weaker). -/
theorem oracleOK_of_forall {sqrtO : α → α} {nanO infO : α → Bool}
    (hnf : ∀ x : α, (nanO (sqrtO x) || infO (sqrtO x)) = nonFinite x)
    (hsq : ∀ x e : α, Scalar.le (sqrtO x) e = Scalar.sqrtLe x e) (e : α) : OracleOK sqrtO nanO infO e :=
  OracleOK.of_forall hnf hsq e

end generic

section field
variable {K : Type} [Field K] [LinearOrder K] [IsStrictOrderedRing K]

/-- C02 about the translated code with the translated checker: canonical inputs, any parameters, options and
    schedule — whenever the model run ends properly, `Compute_src` returns (no panic, no error) the model's vector,
    which has dimension `n`, strictly increasing indices `< n`, values `≥ 0` and sum exactly 1. -/
theorem go_compute_src_distribution (capO : Nat → Int) (n fuel : Nat) (sqrtO : K → K) (nanO infO : K → Bool)
    (c : CSM K) (p : Vec K) (a e : K) (hO : OracleOK sqrtO nanO infO e)
    (o : ComputeOpts K) (tRes : Option (Vec K)) (gs : Option (GFlatTailStats K))
    (hres : o.resultDim = tRes.map (·.dim)) (hcols : c.colsInRange = true)
    (hap : (Vec.scale a p).entries ≠ [])
    (hc : Canon n c p) (ht0 : ∀ t0, o.t0 = some t0 → Dist n t0.entries)
    (r : ComputeResult K) (hr : compute fuel c p a e o = .ok r) (hend : r.endedBy ≠ .outOfFuel)
    (hfuel : c.major + p.entries.length + max (c.major + p.entries.length) (o.t0.getD p).entries.length ≤ fuel)
    (hfuel63 : fuel < 9223372036854775807) :
    ∃ st, Gen.Compute_src capO fuel sqrtO nanO infO (toGM c) (toGV p) a e (toGOpts o tRes gs) =
        .ok (st, (toGV r.t, none)) ∧ r.t.dim = n ∧ Dist n r.t.entries := by
  obtain ⟨x, hx, hout⟩ := map_eq_ok
    (compute_src_refines_ok_partial capO fuel sqrtO nanO infO c p a e hO o tRes gs hres hcols hap r hr hend hfuel hfuel63)
  have h1 := congrArg Prod.fst hout
  simp only at h1
  refine ⟨x.1, ?_, C02.compute_distribution n fuel c p a e o hc ht0 r hr⟩
  rw [hx, ← h1]

end field

/-! ### the hypotheses are satisfiable (the theorems above are not vacuous) -/

theorem nonFinite_rat (x : Rat) : nonFinite x = false := by
  unfold nonFinite
  simp only [Scalar.le, Scalar.eq, Scalar.add, Scalar.isZero, Scalar.zero]
  by_cases h : x = 0
  · subst h; simp
  · have : ¬ (x + x = x) := by
      intro hh
      apply h
      have := congrArg (fun y => y - x) hh
      simpa using this
    simp [this]

/-- on the exact instance an (artificial) oracle meets `OracleOK` at every epsilon. -/
example (e : Rat) :
    OracleOK (α := Rat) (fun x => if x ≤ e * e then e else e + 1) (fun _ => false) (fun _ => false) e where
  nf := fun es => by simp [nonFinite_rat]
  sq := fun es => by
    simp only [Scalar.le, Scalar.sqrtLe]
    by_cases h : sqSum es ≤ e * e
    · simp [h]
    · simp [h]

/-- on floats the comparison half holds by definition for the real square root; the finiteness half says that a
    compensated sum of squares is never a negative number, which Lean's opaque `Float` cannot prove and the bit tier
    of the correspondence run checks on every compute case. -/
example (e x : Float) : Scalar.le (Float.sqrt x) e = Scalar.sqrtLe x e := rfl

end EtVerif.TrSrc
