/-
  TrC08 — the CURRENT SOURCE of `basic.ExtractDistrust` and `basic.DiscountTrustVector` (translated by
  tools/go2lean on every run) computes exactly the model's `extractDistrust` / `discountTrustVector`,
  about which Props/C08 proves the split `L = P − D` and the reputation-weighted discount.
  Property theorems only.
-/
import EtVerif.Proofs.TrDiscount
import EtVerif.Proofs.TrDistrust

namespace EtVerif.TrC08
open EtVerif EtVerif.GoSem EtVerif.Gen EtVerif.Tr Scalar

variable {α : Type} [Scalar α]

set_option linter.unusedSectionVars false

/-- localtrust.go `ExtractDistrust` = `extractDistrust`: every row partitioned by sign in place (single pass,
    write index `i − len(distrustRow)`), negatives sign-reversed into a fresh matrix; a non-square matrix is
    refused untouched.  For every matrix whose row table has `major` rows, fuel ≥ `major`. -/
theorem extractDistrust_refines (fuel : Nat) (m : CSM α) (hrows : m.rows.length = m.major)
    (hf : m.major ≤ fuel) :
    (Gen.ExtractDistrust fuel (toGM m)).map (fun r => (r.1.localTrust, r.2)) =
      (match extractDistrust m with
       | .ok (p, d) => .ok (toGM p, (toGM d, none))
       | .error _ => .ok (toGM m, ((GCSMatrix.zero : GCSMatrix α), some ⟨"ErrDimensionMismatch"⟩))) :=
  ExtractDistrust_refines fuel m hrows hf

/-- eigentrust.go `DiscountTrustVector` = `discountTrustVector`: merge-matching of distrusters against the
    UNDISCOUNTED clone, `t ← t − score · row` for each match; every input (sorted or not), every capacity
    behaviour, fuel ≥ entries of t + all distrust entries + 1; never an error. -/
theorem discount_refines (capO : Nat → Int) (fuel : Nat) (t : Vec α) (d : CSM α)
    (hf : t.entries.length + (d.rows.map List.length).sum + 1 ≤ fuel) :
    (Gen.DiscountTrustVector capO fuel (toGV t) (toGM d)).map (fun r => (r.1.t, r.2)) =
      .ok (toGV (discountTrustVector t d), none) :=
  DiscountTrustVector_refines capO fuel t d hf

end EtVerif.TrC08
