/-
  C15 — No crash, well-formed answers (model-level part).

  "every front-end … answers with a well-formed success or error: no panic … Requests that
   violate the documented constraints … are refused with the documented client-error status …
   and refusal leaves server state unchanged."

  The models are total functions, so "no panic" is stated as: AT EVERY CALL the front-end models
  make of an operation whose Go original can panic, the panic precondition is excluded:
  * `NewCSRMatrix(rows, cols, entries, …)` indexes `entries2[e.Row]` — needs `e.Row < rows`
    (section 11; the column bound is needed later by `Transpose`);
  * `CSMatrix.Transpose` indexes `nnzs[e.Index]` — needs every stored column `< MinorDim`
    (`CSM.colsInRange`, section 12), for every matrix handed to `basic.Compute`;
  * the playground's `preTrusted[e.Index]` — Props/C20 `flags_exact`.
  Everything is stated for an arbitrary `Scalar α` (so also for `Float`).

  Vocabulary (Proofs/FrontendLemmas.lean, namespace `FeL`):
  * `ColsIn n rows`   — all stored column indices of the row table are `< n`;
  * `Guarded m`       — `ColsIn m.minor m.rows` and the hidden part of the row table is all nil
                        (so the guard survives `SetMajorDim`);
  * `VecIn v`         — every stored index of `v` is `< v.dim`;
  * `OStoreInv s`     — every matrix in the OpenAPI store is `Guarded`;
  * `GInv s`          — every matrix in the gRPC state is `Guarded`, every vector `VecIn`;
  * `cooOfI`, `tmBatch`/`gDim`, `cooDim` — the coordinate lists / dimensions the front-ends pass
                        to `NewCSRMatrix`;
  * `bcPrep`, `bcOpts`, `bcWrite` — the staged form of `Grpc.basicCompute` (`basicCompute_eq`).
-/
import EtVerif.Proofs.FrontendLemmas
import EtVerif.Proofs.Matrix
import EtVerif.Props.C19
import EtVerif.Props.C20

namespace EtVerif.C15
open EtVerif EtVerif.Fe EtVerif.FeL Scalar

variable {α : Type} [Scalar α]

set_option linter.unusedSectionVars false

/-! ### 11. `NewCSRMatrix` is only called with in-range coordinates -/

/-- OpenAPI inline matrix: the loader calls `NewCSRMatrix(size, size, coos, false)` and every
    coordinate it passes has `row < size` and `col < size`. -/
theorem newCSR_guard_oapi_inline {m : Oapi.IMatrix α} {c : CSM α}
    (h : Oapi.loadInlineMatrix m = some c) :
    c = CSM.newCSR m.size.toNat m.size.toNat (cooOfI m) false ∧
      (∀ e ∈ cooOfI m, e.row < m.size.toNat ∧ e.col < m.size.toNat) ∧
      cooRowsInRange m.size.toNat (cooOfI m) false = true := by
  obtain ⟨_, h1, h2⟩ := loadInlineMatrix_some h
  refine ⟨h1, h2, ?_⟩
  unfold cooRowsInRange
  rw [List.all_eq_true]
  intro e he
  simp [(h2 e he).1]

/-- gRPC `TrustMatrix.Update`: on success the batch is
    `NewCSRMatrix(n, n, coos, true)` with `n` above every row and column index. -/
theorem newCSR_guard_grpc_update {s : Grpc.GState α} {id : String} {ts : Nat}
    {entries : List (Grpc.MEntry α)} {tm : Grpc.TM α} {coos : List (Coo α)}
    (hl : Grpc.lookup s.mats id = some tm) (hp : Grpc.parseMEntries entries = .ok coos) :
    Grpc.tmUpdate s id ts entries =
        ({ s with mats := Grpc.store s.mats id ⟨(tm.m.merge (tmBatch coos)).1, max tm.ts ts⟩ }, .ok) ∧
      tmBatch coos = CSM.newCSR (gDim coos) (gDim coos) coos true ∧
      (∀ e ∈ coos, e.row < gDim coos ∧ e.col < gDim coos) ∧
      cooRowsInRange (gDim coos) coos true = true := by
  refine ⟨tmUpdate_ok hl hp, rfl, fun e he => lt_gDim he, ?_⟩
  unfold cooRowsInRange
  rw [List.all_eq_true]
  intro e he
  simp [(lt_gDim he).1]

/-- library reader `ReadLocalTrustFromCsv` (used by the playground): the matrix is
    `NewCSRMatrix(dim, dim, coos, false)` with `dim` = highest index + 1. -/
theorem newCSR_guard_readLocalTrust {names : Option (List String)} {recs : List (Record α)}
    {m : CSM α} (h : readLocalTrust names recs = some m) :
    ∃ coos, m = CSM.newCSR (cooDim coos) (cooDim coos) coos false ∧
      (∀ e ∈ coos, e.row < cooDim coos ∧ e.col < cooDim coos) ∧
      cooRowsInRange (cooDim coos) coos false = true := by
  obtain ⟨coos, _, rfl⟩ := readLocalTrust_some h
  refine ⟨coos, rfl, fun e he => lt_cooDim he, ?_⟩
  unfold cooRowsInRange
  rw [List.all_eq_true]
  intro e he
  simp [(lt_cooDim he).1]

/-- OpenAPI object-storage / `file:` CSV matrix: as repaired, negative indices are refused, so
    the `NewCSRMatrix(size, size, coos, false)` call is in range. -/
theorem newCSR_guard_oapiCsv {recs : List (Record α)} {m : CSM α}
    (h : oapiCsvMatrix recs = some m) :
    ∃ coos, m = CSM.newCSR (cooDim coos) (cooDim coos) coos false ∧
      (∀ e ∈ coos, e.row < cooDim coos ∧ e.col < cooDim coos) ∧
      cooRowsInRange (cooDim coos) coos false = true := by
  obtain ⟨_, _, coos, _, _, _, rfl⟩ := oapiCsvMatrix_some h
  refine ⟨coos, rfl, fun e he => lt_cooDim he, ?_⟩
  unfold cooRowsInRange
  rw [List.all_eq_true]
  intro e he
  simp [(lt_cooDim he).1]

/-- … and a record with a negative index (or a non-integer one, a non-float value, or a field
    count other than 3) is refused instead of reaching `NewCSRMatrix`. -/
theorem oapiCsv_negative_refused {hdr : Record α} {body : List (Record α)}
    (h : ∃ r ∈ body, r.length ≠ 3 ∨ ∃ f0 f1 f2, r = [f0, f1, f2] ∧
      ((∀ i, f0.atoi = some i → i < 0) ∨ (∀ j, f1.atoi = some j → j < 0) ∨ f2.float = none)) :
    oapiCsvMatrix (hdr :: body) = none :=
  oapiCsvMatrix_bad h

/-! ### 12. `Transpose` is only called on matrices whose columns are in range -/

/-- the store invariants hold initially … -/
theorem store_inv_init : OStoreInv ([] : Oapi.Store α) ∧ GInv ({} : Grpc.GState α) :=
  ⟨fun _ h => (by cases h), ginv_init⟩

/-- … every `/local-trust` request of the OpenAPI front-end keeps its invariant … -/
theorem oapi_store_inv {s : Oapi.Store α} (hs : OStoreInv s) (req : Oapi.StoreReq α) :
    OStoreInv (Oapi.handleStore s req).1 :=
  handleStore_inv hs req

/-- the requests of the gRPC front-end -/
inductive GReq (α : Type) where
  | tmCreateNamed (id : String)
  | tmCreateFresh (fresh : String)
  | tmUpdate (id : String) (ts : Nat) (entries : List (Grpc.MEntry α))
  | tmFlush (id : String)
  | tmDelete (id : String)
  | tvCreateNamed (id : String)
  | tvUpdate (id : String) (ts : Nat) (entries : List (Grpc.VEntry α))
  | tvFlush (id : String)
  | tvDelete (id : String)
  | compute (fuel : Nat) (k : Grpc.Consts α) (params : Option (Grpc.Params α))

/-- one state-changing gRPC request -/
def gStep (s : Grpc.GState α) : GReq α → Grpc.GState α × Grpc.Code
  | .tmCreateNamed id => Grpc.tmCreateNamed s id
  | .tmCreateFresh id => Grpc.tmCreateFresh s id
  | .tmUpdate id ts es => Grpc.tmUpdate s id ts es
  | .tmFlush id => Grpc.tmFlush s id
  | .tmDelete id => Grpc.tmDelete s id
  | .tvCreateNamed id => Grpc.tvCreateNamed s id
  | .tvUpdate id ts es => Grpc.tvUpdate s id ts es
  | .tvFlush id => Grpc.tvFlush s id
  | .tvDelete id => Grpc.tvDelete s id
  | .compute fuel k params => Grpc.basicCompute fuel k s params

/-- … and every gRPC request keeps the gRPC invariant (in particular `TrustMatrix.Update`, and
    `BasicCompute`, which stores its results). -/
theorem tm_store_inv {s : Grpc.GState α} (hs : GInv s) (req : GReq α) : GInv (gStep s req).1 := by
  cases req with
  | tmCreateNamed id => exact tmCreateNamed_inv hs id
  | tmCreateFresh id => exact tmCreateFresh_inv hs id
  | tmUpdate id ts es => exact tmUpdate_inv hs id ts es
  | tmFlush id => exact tmFlush_inv hs id
  | tmDelete id => exact tmDelete_inv hs id
  | tvCreateNamed id => exact tvCreateNamed_inv hs id
  | tvUpdate id ts es => exact tvUpdate_inv hs id ts es
  | tvFlush id => exact tvFlush_inv hs id
  | tvDelete id => exact tvDelete_inv hs id
  | compute fuel k params => exact basicCompute_inv hs fuel k params

/-- hence the invariants hold in every reachable state -/
theorem grpc_reachable_inv (reqs : List (GReq α)) :
    GInv (reqs.foldl (fun s r => (gStep s r).1) ({} : Grpc.GState α)) := by
  have : ∀ (l : List (GReq α)) (s : Grpc.GState α), GInv s →
      GInv (l.foldl (fun s r => (gStep s r).1) s) := by
    intro l
    induction l with
    | nil => intro s hs; exact hs
    | cons r l ih => intro s hs; exact ih _ (tm_store_inv hs r)
  exact this reqs _ ginv_init

theorem oapi_reachable_inv (reqs : List (Oapi.StoreReq α)) :
    OStoreInv (reqs.foldl (fun s r => (Oapi.handleStore s r).1) ([] : Oapi.Store α)) := by
  have : ∀ (l : List (Oapi.StoreReq α)) (s : Oapi.Store α), OStoreInv s →
      OStoreInv (l.foldl (fun s r => (Oapi.handleStore s r).1) s) := by
    intro l
    induction l with
    | nil => intro s hs; exact hs
    | cons r l ih => intro s hs; exact ih _ (handleStore_inv hs r)
  exact this reqs _ (fun _ h => by cases h)

/-- OpenAPI: the matrix handed to `basic.Compute` (`eff.c`, which `Compute` transposes) and the
    discounts have all columns in range; the vectors have their indices below their dimension. -/
theorem transpose_guard_oapi {k : Oapi.Consts α} {s : Oapi.Store α} (hs : OStoreInv s)
    {r : Oapi.ComputeReq α} {eff : Oapi.Effective α} (h : Oapi.prepare k s r = some eff) :
    eff.c.colsInRange = true ∧ eff.discounts.colsInRange = true ∧ VecIn eff.p ∧
      ∀ t, eff.t0 = some t → VecIn t := by
  obtain ⟨a, b, c, d, _⟩ := prepare_guard hs h
  exact ⟨a.colsInRange, b.colsInRange, c, d⟩

/-- gRPC: `BasicCompute` runs `compute fuel E.c4 E.p3 E.a E.e (bcOpts q E)` exactly when its
    preparation `bcPrep` succeeds with `E`, and then `E.c4` (and the discounts `E.d4`) have all
    columns in range. -/
theorem transpose_guard_grpc {k : Grpc.Consts α} {s : Grpc.GState α} (hs : GInv s)
    {q : Grpc.Params α} (fuel : Nat) :
    (Grpc.basicCompute fuel k s (some q) =
      match bcPrep k s q with
      | .error c => (s, c)
      | .ok E =>
        match compute fuel E.c4 E.p3 E.a E.e (bcOpts q E) with
        | .error _ => (s, .unavailable)
        | .ok res => (bcWrite s q E res, .ok)) ∧
    ∀ E, bcPrep k s q = .ok E →
      E.c4.colsInRange = true ∧ E.d4.colsInRange = true ∧ VecIn E.p3 ∧ VecIn E.t3 := by
  refine ⟨basicCompute_eq fuel k s q, ?_⟩
  intro E hE
  obtain ⟨a, b, c, d, _⟩ := bcPrep_guard hs hE
  exact ⟨a.colsInRange, b.colsInRange, c, d⟩

/-- Playground: the matrix `c'` handed to `basic.Compute` has all columns in range. -/
theorem transpose_guard_playground {fuel : Nat} {hundred eps : α} {u : Upload α}
    {rows : List (Fe.Row α)} (h : calculate fuel hundred eps u = some rows) :
    ∃ (hp : Int) (names : Option (List String)) (lt0 : CSM α) (pt0 : Vec α) (lt1 : CSM α)
        (pt1 : Vec α) (c d c' d' : CSM α) (res : ComputeResult α),
      readLocalTrust names u.localTrust = some lt0 ∧ readTrustVector names u.preTrust = some pt0 ∧
      alignDims names lt0 pt0 = some (lt1, pt1) ∧ extractDistrust lt1 = .ok (c, d) ∧
      canonicalizeLocalTrust c (some (canonicalizeTrustVector pt1)) = .ok c' ∧
      canonicalizeLocalTrust d none = .ok d' ∧
      compute fuel c' (canonicalizeTrustVector pt1) (div (ofNat hp.toNat) hundred) eps (pgOpts (div (ofNat hp.toNat) hundred) eps) = .ok res ∧
      c'.colsInRange = true ∧ d'.colsInRange = true ∧ VecIn (canonicalizeTrustVector pt1) := by
  obtain ⟨hp, names, lt0, pt0, lt1, pt1, c, d, c', d', res, _, _, _, _, h5, h6, h7, h8, h9, h10,
    h11, _⟩ := calculate_some h
  refine ⟨hp, names, lt0, pt0, lt1, pt1, c, d, c', d', res, h5, h6, h7, h8, h9, h10, h11, ?_⟩
  obtain ⟨g1, v1⟩ := alignDims_guard h7 (guarded_readLocalTrust h5).1 (vecIn_readTrustVector h6)
  obtain ⟨gc, gd, _⟩ := guarded_extractDistrust g1 h8
  have vp := vecIn_canonTV v1
  exact ⟨(guarded_canonLT gc (fun pv hpv => by cases hpv; exact vp) h9).1.colsInRange,
    (guarded_canonLT gd (fun pv hpv => by cases hpv) h10).1.colsInRange, vp⟩

/-- Playground: the result loop `entries[e.Index].Score = e.Value` and the flag loop
    `preTrusted[e.Index] = true` stay inside their tables of length `dim`: every stored index of
    the discounted score vector and of the aligned pre-trust is below `dim`. -/
theorem playground_result_guard {fuel : Nat} {hundred eps : α} {u : Upload α}
    {rows : List (Fe.Row α)} (h : calculate fuel hundred eps u = some rows) :
    ∃ (names : Option (List String)) (pt1 t : Vec α),
      rows = sortByScoreDesc (rowsOf names pt1 t) ∧ rows.length = pt1.dim ∧
      VecIn t ∧ t.dim = pt1.dim ∧ VecIn pt1 := by
  obtain ⟨hp, names, lt0, pt0, lt1, pt1, c, d, c', d', res, _, _, _, _, h5, h6, h7, h8, h9, h10,
    h11, hrows⟩ := calculate_some h
  obtain ⟨g1, v1⟩ := alignDims_guard h7 (guarded_readLocalTrust h5).1 (vecIn_readTrustVector h6)
  obtain ⟨gc, gd, e1, e2, e3, e4, e5⟩ := guarded_extractDistrust g1 h8
  have vp := vecIn_canonTV v1
  obtain ⟨_, m1, m2, _⟩ := guarded_canonLT gc (fun pv hpv => by cases hpv; exact vp) h9
  obtain ⟨gd4, n1, n2, _⟩ := guarded_canonLT gd (fun pv hpv => by cases hpv) h10
  obtain ⟨hr, hrd⟩ := compute_vecIn h11 vp (fun t0 ht0 => by cases ht0)
  obtain ⟨hv, _⟩ := C05.compute_spec _ _ _ _ _ _ _ h11
  have hpd : pt1.dim = c'.major := by
    have := hv.2.2.1
    rw [canonTV_dim] at this
    exact this
  obtain ⟨dv, dd⟩ := discount_vecIn (t := res.t) (d := d') hr (by
    rw [hrd, m1, e1, ← e4, ← n2]; exact gd4.1)
  refine ⟨names, pt1, discountTrustVector res.t d', hrows, ?_, dv, by rw [dd, hrd, hpd], v1⟩
  rw [hrows, (sortByScoreDesc_perm _).length_eq]
  simp [rowsOf]

/-- the guard is implied by the well-formedness used in the algebraic properties (`WFM`, C10) -/
theorem guarded_of_wfm {K : Type} [_root_.Field K] [LinearOrder K] {M : CSM K} (hw : WFM M)
    (hc : HiddenClean M) : Guarded M ∧ M.colsInRange = true := by
  have : Guarded M := ⟨fun r hr e he => (hw.2 r hr).2 e he, hc⟩
  exact ⟨this, this.colsInRange⟩

/-! ### well-formed successes: the answers have their indices in range -/

/-- OpenAPI: a `200` carries a score vector of the effective dimension with all indices in
    range. -/
theorem oapi_scores_in_range {fuel : Nat} {k : Oapi.Consts α} {s : Oapi.Store α}
    (hs : OStoreInv s) {r : Oapi.ComputeReq α} {out : Oapi.ComputeOut α}
    (h : Oapi.computeCore fuel k s r = .ok out) : VecIn out.scores := by
  unfold Oapi.computeCore at h
  split at h
  · cases h
  · rename_i eff he
    split at h
    · cases h
    · rename_i res hres
      cases h
      obtain ⟨gc, gd, vp, vt, hdm, hot, _⟩ := prepare_guard hs he
      obtain ⟨hr, hrd⟩ := compute_vecIn hres vp (fun t0 ht0 => vt t0 (by rw [← hot]; exact ht0))
      refine (discount_vecIn hr ?_).1
      rw [hrd, ← hdm]
      exact gd.1

/-! ### 13. invalid requests are client errors and leave the state unchanged -/

section oapi
open EtVerif.Oapi

/-- what makes a matrix reference unloadable: an inline matrix with a non-positive size or an
    out-of-range index, an unknown stored id, object storage (not modelled: always an error) or
    an unknown scheme -/
theorem oapi_loadMatrix_invalid (s : Store α) (ref : MatrixRef α)
    (h : (∃ m, ref = .inline m ∧ (m.size ≤ 0 ∨
          ∃ e ∈ m.entries, e.1 < 0 ∨ m.size ≤ e.1 ∨ e.2.1 < 0 ∨ m.size ≤ e.2.1)) ∨
      (∃ id, ref = .stored id ∧ s.get? id = none) ∨
      (∃ u, ref = .objectStorage u) ∨ (∃ sc, ref = .unknown sc)) :
    loadMatrix s ref = none := by
  rcases h with ⟨m, rfl, hm⟩ | ⟨id, rfl, hid⟩ | ⟨u, rfl⟩ | ⟨sc, rfl⟩
  · exact loadInlineMatrix_none hm
  · exact hid
  · rfl
  · rfl

/-- an inline vector with a non-positive size, an out-of-range index or a non-positive value,
    object storage, or an unknown scheme -/
theorem oapi_loadVector_invalid (ref : VectorRef α)
    (h : (∃ v, ref = .inline v ∧ (v.size ≤ 0 ∨
          ∃ e ∈ v.entries, e.1 < 0 ∨ v.size ≤ e.1 ∨ le e.2 zero = true)) ∨
      (∃ u, ref = .objectStorage u) ∨ (∃ sc, ref = .unknown sc)) :
    loadVector ref = none := by
  rcases h with ⟨v, rfl, hv⟩ | ⟨u, rfl⟩ | ⟨sc, rfl⟩
  · exact loadInlineVector_none hv
  · rfl
  · rfl

/-- Every violated constraint of a compute request — an unloadable local trust, pre-trust or
    initial trust, `alpha ∉ [0,1]`, `epsilon ∉ (0,1]`, `flatTail`/`numLeaders`/`maxIterations < 0`,
    `minIterations`/`checkFreq < 1` — stops the request before `basic.Compute` … -/
theorem oapi_prepare_invalid (k : Consts α) (s : Store α) (r : ComputeReq α)
    (h : loadMatrix s r.localTrust = none ∨
      (∃ ref, r.preTrust = some ref ∧ loadVector ref = none) ∨
      (∃ ref, r.initialTrust = some ref ∧ loadVector ref = none) ∨
      (∃ a, r.alpha = some a ∧ (lt a zero = true ∨ lt one a = true)) ∨
      (∃ e, r.epsilon = some e ∧ (le e zero = true ∨ lt one e = true)) ∨
      (∃ x, r.flatTail = some x ∧ x < 0) ∨ (∃ x, r.numLeaders = some x ∧ x < 0) ∨
      (∃ x, r.maxIterations = some x ∧ x < 0) ∨ (∃ x, r.minIterations = some x ∧ x < 1) ∨
      (∃ x, r.checkFreq = some x ∧ x < 1)) :
    prepare k s r = none := by
  cases hp : prepare k s r with
  | none => rfl
  | some eff =>
    exfalso
    obtain ⟨c0, pOpt, tOpt, h1, h2, h3, ha, hb, _⟩ := prepare_some hp
    rcases h with h | ⟨ref, hr, hl⟩ | ⟨ref, hr, hl⟩ | ⟨a, hr, hbad⟩ | ⟨e, hr, hbad⟩ | ⟨x, hr, hx⟩ |
      ⟨x, hr, hx⟩ | ⟨x, hr, hx⟩ | ⟨x, hr, hx⟩ | ⟨x, hr, hx⟩
    · rw [h] at h1; cases h1
    · rw [hr] at h2; simp only [loadOptVec, hl] at h2; cases h2
    · rw [hr] at h3; simp only [loadOptVec, hl] at h3; cases h3
    · unfold guardA at ha
      rw [hr] at ha
      rcases hbad with hb' | hb' <;> simp [hb'] at ha
    · unfold guardA at ha
      rw [hr] at ha
      rcases hbad with hb' | hb' <;> simp [hb'] at ha
    all_goals
      unfold guardB optBad at hb
      rw [hr] at hb
      simp only [Bool.or_eq_false_iff, decide_eq_false_iff_not] at hb
      omega

/-- … and both compute endpoints answer 400. -/
theorem oapi_invalid_is_400 (fuel : Nat) (k : Consts α) (s : Store α) (r : ComputeReq α)
    (h : prepare k s r = none) :
    handleCompute fuel k s r = .badRequest ∧ handleComputeWithStats fuel k s r = .badRequest := by
  unfold handleCompute handleComputeWithStats computeCore
  rw [h]
  exact ⟨rfl, rfl⟩

/-- `PUT /local-trust/{id}` with an unloadable body: 400, store unchanged. -/
theorem oapi_store_invalid (s : Store α) (id : String) (merge : Bool) (body : MatrixRef α)
    (h : loadMatrix s body = none) : handleStore s (.put id merge body) = (s, .badRequest) := by
  simp only [handleStore, h]

/-- `GET` / `HEAD` / `DELETE` of an unknown id: 404, store unchanged. -/
theorem oapi_store_unknown_id (s : Store α) (id : String) (h : s.get? id = none) :
    handleStore s (.get id) = (s, .notFound) ∧ handleStore s (.head id) = (s, .notFound) ∧
      handleStore s (.delete id) = (s, .notFound) := by
  simp only [handleStore, h, Option.isSome_none, Bool.false_eq_true, if_false, and_self]

/-- the compute endpoints never change the store (they do not return one) and every store
    request that is answered 400/404 leaves the store unchanged -/
theorem oapi_refusal_unchanged (s : Store α) (req : StoreReq α)
    (h : (handleStore s req).2 = .badRequest ∨ (handleStore s req).2 = .notFound) :
    (handleStore s req).1 = s := by
  cases req with
  | put id merge body =>
    simp only [handleStore] at h ⊢
    split
    · rfl
    · rename_i c hl
      rw [hl] at h
      simp only at h
      split at h
      · rcases h with h | h <;> cases h
      · split at h <;> rcases h with h | h <;> cases h
  | get id =>
    simp only [handleStore]
    split <;> rfl
  | head id => rfl
  | delete id =>
    simp only [handleStore] at h ⊢
    split
    · rename_i hs
      rw [if_pos hs] at h
      rcases h with h | h <;> cases h
    · rfl

end oapi

section grpc
open EtVerif.Grpc

/-- `TrustMatrix.Update` with a negative index (all indices being integer literals):
    `InvalidArgument`, state unchanged. -/
theorem grpc_tmUpdate_negative {s : GState α} {id : String} (ts : Nat)
    {entries : List (MEntry α)} {tm : TM α} (hl : lookup s.mats id = some tm)
    (hint : ∀ e ∈ entries, e.truster ≠ none ∧ e.trustee ≠ none)
    (hneg : ∃ e ∈ entries, (∃ i, e.truster = some i ∧ i < 0) ∨ ∃ j, e.trustee = some j ∧ j < 0) :
    tmUpdate s id ts entries = (s, .invalidArgument) :=
  tmUpdate_error hl (parseMEntries_negative hint hneg)

/-- unknown matrix id: `NotFound`, state unchanged -/
theorem grpc_tmUpdate_unknown_id {s : GState α} {id : String} (ts : Nat)
    (entries : List (MEntry α)) (hl : lookup s.mats id = none) :
    tmUpdate s id ts entries = (s, .notFound) ∧ tmFlush s id = (s, .notFound) ∧
      tmDelete s id = (s, .notFound) ∧ tmGet s id = none := by
  refine ⟨tmUpdate_notFound ts entries hl, ?_, ?_, ?_⟩
  · unfold tmFlush; rw [hl]
  · unfold tmDelete; rw [hl]; rfl
  · unfold tmGet; rw [hl]; rfl

/-- whatever `Update` refuses, it leaves the state unchanged -/
theorem grpc_tmUpdate_refusal_unchanged (s : GState α) (id : String) (ts : Nat)
    (entries : List (MEntry α)) (h : (tmUpdate s id ts entries).2 ≠ .ok) :
    (tmUpdate s id ts entries).1 = s := by
  cases hl : lookup s.mats id with
  | none => rw [tmUpdate_notFound ts entries hl]
  | some tm =>
    cases hp : parseMEntries entries with
    | error c => rw [tmUpdate_error hl hp]
    | ok coos => rw [tmUpdate_ok hl hp] at h; exact absurd rfl h

theorem grpc_tvUpdate_negative {s : GState α} {id : String} (ts : Nat)
    {entries : List (VEntry α)} {tv : TV α} (hl : lookup s.vecs id = some tv)
    (hint : ∀ e ∈ entries, e.trustee ≠ none)
    (hneg : ∃ e ∈ entries, ∃ i, e.trustee = some i ∧ i < 0) :
    tvUpdate s id ts entries = (s, .invalidArgument) :=
  tvUpdate_error hl (parseVEntries_negative hint hneg)

theorem grpc_tvUpdate_unknown_id {s : GState α} {id : String} (ts : Nat)
    (entries : List (VEntry α)) (hl : lookup s.vecs id = none) :
    tvUpdate s id ts entries = (s, .notFound) ∧ tvFlush s id = (s, .notFound) ∧
      tvDelete s id = (s, .notFound) ∧ tvGet s id = none := by
  refine ⟨tvUpdate_notFound ts entries hl, ?_, ?_, ?_⟩
  · unfold tvFlush; rw [hl]
  · unfold tvDelete; rw [hl]; rfl
  · unfold tvGet; rw [hl]; rfl

theorem grpc_tvUpdate_refusal_unchanged (s : GState α) (id : String) (ts : Nat)
    (entries : List (VEntry α)) (h : (tvUpdate s id ts entries).2 ≠ .ok) :
    (tvUpdate s id ts entries).1 = s := by
  cases hl : lookup s.vecs id with
  | none => rw [tvUpdate_notFound ts entries hl]
  | some tv =>
    cases hp : parseVEntries entries with
    | error c => rw [tvUpdate_error hl hp]
    | ok es => rw [tvUpdate_ok hl hp] at h; exact absurd rfl h

/-- `BasicCompute` without a `params` message: `InvalidArgument`, state unchanged. -/
theorem grpc_compute_no_params (fuel : Nat) (k : Grpc.Consts α) (s : GState α) :
    basicCompute fuel k s none = (s, .invalidArgument) := rfl

/-- `BasicCompute` with `alpha ∉ [0,1]` or `epsilon ∉ (0,1]` (all referenced objects exist):
    `InvalidArgument`, state unchanged. -/
theorem grpc_compute_bad_params (fuel : Nat) (k : Grpc.Consts α) (s : GState α) (q : Params α)
    {ltm : TM α} {gt : TV α} (h1 : lookup s.mats q.localTrustId = some ltm)
    (hsq : ltm.m.major = ltm.m.minor)
    (h2 : q.preTrustId = "" ∨ ∃ pt, lookup s.vecs q.preTrustId = some pt)
    (h3 : lookup s.vecs q.globalTrustId = some gt)
    (hbad : (∃ a, q.alpha = some a ∧ (lt a zero = true ∨ lt one a = true)) ∨
      ∃ e, q.epsilon = some e ∧ (le e zero = true ∨ lt one e = true)) :
    basicCompute fuel k s (some q) = (s, .invalidArgument) := by
  have hok : bcParamsOK q = false := by
    unfold bcParamsOK
    rcases hbad with ⟨a, ha, hb⟩ | ⟨e, he, hb⟩
    · rw [ha]; rcases hb with hb | hb <;> simp [hb]
    · rw [he]; rcases hb with hb | hb <;> simp [hb]
  have hpre : ∃ pre, bcLoadPre s q = some pre := by
    unfold bcLoadPre
    rcases h2 with h2 | ⟨pt, h2⟩
    · rw [h2]; exact ⟨none, rfl⟩
    · split
      · exact ⟨none, rfl⟩
      · rw [h2]; exact ⟨some pt, rfl⟩
  obtain ⟨pre, hpre⟩ := hpre
  have : bcPrep k s q = .error .invalidArgument := by
    unfold bcPrep
    rw [h1]
    simp only [ne_eq, hsq, not_true_eq_false, if_false, hpre, h3, hok, Bool.not_false, if_true]
  rw [basicCompute_eq, this]

/-- `BasicCompute` naming an unknown local trust / pre-trust / global trust: `NotFound`, state
    unchanged. -/
theorem grpc_compute_unknown_id (fuel : Nat) (k : Grpc.Consts α) (s : GState α) (q : Params α)
    (h : lookup s.mats q.localTrustId = none ∨
      (∃ ltm, lookup s.mats q.localTrustId = some ltm ∧ ltm.m.major = ltm.m.minor ∧
        ((q.preTrustId ≠ "" ∧ lookup s.vecs q.preTrustId = none) ∨
          lookup s.vecs q.globalTrustId = none))) :
    basicCompute fuel k s (some q) = (s, .notFound) := by
  have : bcPrep k s q = .error .notFound := by
    unfold bcPrep
    rcases h with h | ⟨ltm, h1, hsq, h⟩
    · rw [h]
    · rw [h1]
      simp only [ne_eq, hsq, not_true_eq_false, if_false]
      rcases h with ⟨hne, hp⟩ | hg
      · have : bcLoadPre s q = none := by
          unfold bcLoadPre
          rw [if_neg (by simpa using hne), hp]
        rw [this]
      · cases bcLoadPre s q with
        | none => rfl
        | some pre => simp only [hg]
  rw [basicCompute_eq, this]

/-- whatever `BasicCompute` refuses (or fails at), it leaves the state unchanged -/
theorem grpc_compute_refusal_unchanged (fuel : Nat) (k : Grpc.Consts α) (s : GState α)
    (params : Option (Params α)) (h : (basicCompute fuel k s params).2 ≠ .ok) :
    (basicCompute fuel k s params).1 = s :=
  basicCompute_unchanged fuel k s params h

end grpc

/-- CSV front-ends: the refusals are C19 `cli_malformed`, `reader_malformed_localTrust`,
    `reader_malformed_trustVector`, `readPeerNames_malformed` and C20 `unusable_is_400`; they are
    pure functions (no state).  Collected here for the CLI and the playground: -/
theorem fe_invalid_is_client_error (raw hasHeader : Bool) (lt : List (Record α))
    (pt it : Option (List (Record α))) (fuel : Nat) (hundred eps : α) (u : Upload α) :
    ((C19.BadMatrixFile raw hasHeader lt ∨
        (∃ recs, pt = some recs ∧ C19.BadVectorFile raw hasHeader recs) ∨
        (∃ recs, it = some recs ∧ C19.BadVectorFile raw hasHeader recs)) →
      cliBuildRequest raw hasHeader lt pt it = none) ∧
    ((u.hunchPercent = none ∨ (∃ hp, u.hunchPercent = some hp ∧ (hp < 0 ∨ 100 < hp)) ∨
        (∃ recs, u.names = some recs ∧ readPeerNames recs [] = none) ∨
        (∃ names, loadNames u = some names ∧
          (readLocalTrust names u.localTrust = none ∨ readTrustVector names u.preTrust = none ∨
            ∃ ns lt0 pt0, names = some ns ∧ readLocalTrust names u.localTrust = some lt0 ∧
              readTrustVector names u.preTrust = some pt0 ∧
              (ns.length < lt0.major ∨ ns.length < pt0.dim)))) →
      calculate fuel hundred eps u = none) :=
  ⟨C19.cli_malformed raw hasHeader lt pt it, C20.unusable_is_400 fuel hundred eps u⟩

/-! ### 14. bounded computation -/

/-- OpenAPI: the `basic.Compute` run behind either endpoint performs at most `fuel` iterations
    and, when a positive `maxIterations` is requested, at most that many. -/
theorem bounded_computation_oapi {fuel : Nat} {k : Oapi.Consts α} {s : Oapi.Store α}
    {r : Oapi.ComputeReq α} {out : Oapi.ComputeOut α} (h : Oapi.computeCore fuel k s r = .ok out) :
    out.iters ≤ fuel ∧ ∀ m : Int, r.maxIterations = some m → 0 < m → (out.iters : Int) ≤ m := by
  unfold Oapi.computeCore at h
  split at h
  · cases h
  · rename_i eff he
    split at h
    · cases h
    · rename_i res hres
      cases h
      obtain ⟨_, _, hmax, hfuel, _⟩ := C05.compute_spec _ _ _ _ _ _ _ hres
      refine ⟨hfuel, ?_⟩
      intro m hm hpos
      obtain ⟨_, _, _, _, _, _, _, _, hf⟩ := prepare_some he
      obtain ⟨_, _, _, _, _, _, _, _, hmx, _⟩ := finish_some hf
      rw [hmx, hm] at hmax
      simp only [Option.getD_some] at hmax
      exact hmax (by omega)

/-- gRPC: likewise for the `compute` run by `BasicCompute` (`max_iterations = 0` = unlimited,
    i.e. bounded by the fuel only). -/
theorem bounded_computation_grpc {fuel : Nat} {k : Grpc.Consts α} {s : Grpc.GState α}
    {q : Grpc.Params α} {E : BcEff α} {res : ComputeResult α} (_hE : bcPrep k s q = .ok E)
    (h : compute fuel E.c4 E.p3 E.a E.e (bcOpts q E) = .ok res) :
    res.iters ≤ fuel ∧ (q.maxIterations ≠ 0 → res.iters ≤ q.maxIterations) := by
  obtain ⟨_, _, hmax, hfuel, _⟩ := C05.compute_spec _ _ _ _ _ _ _ h
  refine ⟨hfuel, ?_⟩
  intro hne
  simp only [bcOpts, hne, if_false, Option.getD_some] at hmax
  have := hmax (by omega)
  omega

/-- `iterationBound` never exceeds its own cap … -/
theorem pgIterBoundAux_le (om e : α) : ∀ (f : Nat) (x : α) (n : Nat), n ≤ 65536 →
    pgIterBoundAux om e f x n ≤ 65536 := by
  intro f
  induction f with
  | zero => intro x n h; simpa [pgIterBoundAux] using h
  | succ f ih =>
    intro x n h
    unfold pgIterBoundAux
    split
    · rename_i hc
      have hn : n < 65536 := by
        have := (Bool.and_eq_true _ _).mp hc
        exact of_decide_eq_true this.2
      exact ih _ _ (by omega)
    · exact h

/-- … and never falls below its start value. -/
theorem pgIterBoundAux_ge (om e : α) : ∀ (f : Nat) (x : α) (n : Nat), n ≤ pgIterBoundAux om e f x n := by
  intro f
  induction f with
  | zero => intro x n; simp [pgIterBoundAux]
  | succ f ih =>
    intro x n
    unfold pgIterBoundAux
    split
    · exact Nat.le_trans (Nat.le_succ n) (ih _ _)
    · exact Nat.le_refl n

theorem pgIterBound_le (a e : α) : pgIterBound a e ≤ 65536 :=
  pgIterBoundAux_le _ _ _ _ _ (by decide)

theorem pgIterBound_ge (a e : α) : 2 ≤ pgIterBound a e :=
  pgIterBoundAux_ge _ _ _ _ _

/-- Playground (as repaired): the `compute` run by `calculate` carries `WithMaxIterations(iterationBound(a, e))`
    and therefore performs at most `iterationBound(a, e) ≤ 65536` iterations — whatever the inputs, whatever the
    rounding noise does to the delta, and independently of the model's fuel. -/
theorem bounded_computation_playground {fuel : Nat} {c : CSM α} {p : Vec α} {a e : α}
    {res : ComputeResult α} (h : compute fuel c p a e (pgOpts a e) = .ok res) :
    res.iters ≤ pgIterBound a e ∧ res.iters ≤ 65536 := by
  have hm := (C05.compute_spec _ _ _ _ _ _ _ h).2.2.1
  have h2 := pgIterBound_ge a e
  have hle := pgIterBound_le a e
  simp only [pgOpts, Option.getD_some] at hm
  have := hm (by omega)
  omega

/-! ### non-vacuity: concrete requests at `α := Rat` (executable instance `ratScalar`) -/

section examples
attribute [local instance 10000] ratScalar

private def exLT : Oapi.IMatrix Rat := ⟨3, [(0, 1, 1), (0, 2, 1), (1, 2, 100), (2, 0, -1)]⟩
private def exPT : Oapi.IVector Rat := ⟨4, [(0, 1/2), (3, 1)]⟩
private def exK : Oapi.Consts Rat := ⟨1/2, 1/1000000⟩
private def exReq : Oapi.ComputeReq Rat :=
  { localTrust := .inline exLT, preTrust := some (.inline exPT), epsilon := some (1/100),
    maxIterations := some 5 }

/-- OpenAPI: a valid request is prepared, the matrix handed to `Compute` passes the executable
    guard, and the run is answered 200 within the iteration bound -/
example : (Oapi.prepare exK [] exReq).map (fun eff => (eff.c.colsInRange, eff.c.major, eff.c.minor)) =
    some (true, 4, 4) := by decide +kernel
example : (match Oapi.computeCore 100 exK [] exReq with
    | .ok out => some (decide (out.iters ≤ 5), out.scores.dim) | _ => none) = some (true, 4) := by
  decide +kernel

/-- OpenAPI: invalid requests — negative index, index ≥ size, size 0, alpha > 1,
    minIterations 0 — are answered 400 by both endpoints -/
example : Oapi.loadInlineMatrix (⟨3, [(0, -1, 1)]⟩ : Oapi.IMatrix Rat) = none := by decide +kernel
example : Oapi.prepare exK [] { exReq with localTrust := .inline ⟨3, [(0, 3, 1)]⟩ } = none :=
  oapi_prepare_invalid _ _ _ (.inl (oapi_loadMatrix_invalid _ _
    (.inl ⟨_, rfl, .inr ⟨(0, 3, 1), by simp, by decide⟩⟩)))
example : Oapi.prepare exK [] { exReq with localTrust := .inline ⟨0, []⟩ } = none :=
  oapi_prepare_invalid _ _ _ (.inl (oapi_loadMatrix_invalid _ _ (.inl ⟨_, rfl, .inl (by decide)⟩)))
example : Oapi.prepare exK [] { exReq with alpha := some 2 } = none :=
  oapi_prepare_invalid _ _ _ (.inr (.inr (.inr (.inl ⟨2, rfl, .inr (by decide +kernel)⟩))))
example : (match Oapi.handleCompute 100 exK [] { exReq with minIterations := some 0 } with
    | .badRequest => true | _ => false) = true := by decide +kernel
/-- PUT with a bad body: 400, store unchanged -/
example : (Oapi.handleStore ([] : Oapi.Store Rat) (.put "m" false (.stored "nope"))).1 = [] :=
  by rw [oapi_store_invalid _ _ _ _ rfl]

/-- gRPC: create, update, compute; the invariant holds along the way (`grpc_reachable_inv`) -/
private def gReqs : List (GReq Rat) :=
  [.tmCreateNamed "lt", .tvCreateNamed "gt",
   .tmUpdate "lt" 1 [⟨some 0, some 1, 1⟩, ⟨some 1, some 0, 1⟩, ⟨some 1, some 2, -1⟩],
   .tvUpdate "gt" 1 [⟨some 0, 1⟩],
   .compute 100 ⟨1/2, 1/1000⟩ (some ⟨"lt", "", none, some (1/100), "gt", 0, ""⟩)]

private def codes (s : Grpc.GState Rat) : List (GReq Rat) → List Grpc.Code
  | [] => []
  | r :: rs => (gStep s r).2 :: codes (gStep s r).1 rs

example : codes {} gReqs = [.ok, .ok, .ok, .ok, .ok] := by decide +kernel

/-- gRPC refusals: negative index, unknown id, no params, alpha out of range -/
example : (gStep ((gReqs.take 2).foldl (fun s r => (gStep s r).1) {})
    (.tmUpdate "lt" 2 [⟨some 0, some (-1), (1 : Rat)⟩])).2 = .invalidArgument := by decide +kernel
example : (gStep ({} : Grpc.GState Rat) (.tmUpdate "nope" 2 [])).2 = .notFound := by decide +kernel
example : (gStep ({} : Grpc.GState Rat) (.compute 10 ⟨1/2, 1/1000⟩ none)).2 = .invalidArgument := by
  decide +kernel
example : (gStep ((gReqs.take 4).foldl (fun s r => (gStep s r).1) {})
    (.compute 100 ⟨1/2, 1/1000⟩ (some ⟨"lt", "", some 2, none, "gt", 0, ""⟩))).2
    = .invalidArgument := by decide +kernel

/-- object-storage CSV with a negative index is refused -/
example : oapiCsvMatrix ([[⟨"i", none, none, none⟩, ⟨"j", none, none, none⟩, ⟨"v", none, none, none⟩],
    [⟨"-1", some (-1), some (-1), none⟩, ⟨"0", some 0, some 0, none⟩, ⟨"1", some 1, some 1, some 1⟩]] :
      List (Record Rat)) = none := by decide +kernel

end examples

end EtVerif.C15
