/-
  C09 (rounding clause): "sums / dot products are within the Kahan–Babuška–Neumaier bound
  u·|S| + O(n² u²)·Σ|x_i| of the exact value".

  Lean's `Float` is opaque; the theorems are about the model's generic `kbnSum`, `Vec.sum`,
  `vecDot` instantiated at the *rounded real* arithmetic `flScalar fl` (every `add`, `sub`,
  `mul`, `div` rounds its exact real result with `fl`).  All that is assumed of `fl` is the
  explicit hypothesis `FPModel fl u` (Proofs/KBNFloat.lean; a theorem argument, not an axiom):
  relative error `≤ u`, `fl 0 = 0`, idempotence, and Dekker's FastTwoSum exactness for
  representable operands (`fl a = a`, `fl b = b`, `|b| ≤ |a|`), in the shape `KBN.push` uses it.
  "Representable" (= is a float64) is `fl x = x`.

  Proved (all at full strength, no `_partial`):
  * `kbn_decomposition`   — the loop invariant: `sum + E = Σx` exactly, bounds on `|E|` and on
                            `|comp - E|`;
  * `kbn_error_bound_pow` — `|kbnSum xs - Σx| ≤ u|Σx| + n² u² (1+u)^(2n) Σ|x|` (no smallness);
  * `kbn_error_bound`     — `… ≤ u|Σx| + 4 n² u² Σ|x|` when `n u ≤ 1/2`;
  * `sum_error_bound`, `dot_error_bound` (relative to the exact sum of the rounded products),
    `dot_error_bound_exact` (relative to the exact dot product; has the unavoidable extra
    first-order term `u Σ|a_i b_i|` from rounding the products);
  * non-vacuity: `fpModel_exact` (`fl = id`, `u = 0`), `kbn_exact_of_id`, and a model that is
    *not* exact (`fpModel_inexact`, `u = 1/24`) on which the `u·|S|` term is attained
    (`kbn_bound_tight`).
-/
import EtVerif.Proofs.KBNFloat

namespace EtVerif.C09b
open EtVerif EtVerif.KBNFloat

/-- Exact arithmetic satisfies the floating-point hypotheses with `u = 0`. -/
theorem fpModel_exact : FPModel id 0 := fpModel_id

/-- A rounding function that is not the identity (3 is not representable and rounds to 25/8)
    satisfies the hypotheses with `u = 1/24`: the hypotheses do not force exactness. -/
theorem fpModel_inexact : FPModel flBump (1 / 24) := fpModel_bump

/-- Loop invariant of the summer after all of `xs` (representable numbers):
    with `st` the final state there is an `E` (the exact sum of the per-step rounding errors) with
    `st.sum + E = Σ xs` *exactly*, `|E|` first order, and the stored compensation within second
    order of `E`; the returned value is the rounded `st.sum + st.comp`. -/
theorem kbn_decomposition (fl : ℝ → ℝ) (u : ℝ) (h : FPModel fl u) (xs : List ℝ)
    (hx : ∀ x ∈ xs, fl x = x) :
    let st := @List.foldl (KBN ℝ) ℝ (@KBN.push ℝ (flScalar fl)) (@KBN.init ℝ (flScalar fl)) xs
    ∃ E : ℝ, st.sum + E = xs.sum ∧
      |E| * (1 + u) ≤ (xs.length : ℝ) * u * (1 + u) ^ xs.length * (xs.map fun x => |x|).sum ∧
      |st.comp - E| * (1 + u) ≤
        (xs.length : ℝ) ^ 2 * u ^ 2 * ((1 + u) ^ xs.length) ^ 2 * (xs.map fun x => |x|).sum ∧
      @kbnSum ℝ (flScalar fl) xs = fl (st.sum + st.comp) := by
  intro st
  have I := run_inv h xs hx
  exact ⟨xs.sum - st.sum, by ring, I.errB, I.compB, rfl⟩

/-- KBN bound with the explicit growth factor, no smallness condition on `n u`. -/
theorem kbn_error_bound_pow (fl : ℝ → ℝ) (u : ℝ) (h : FPModel fl u) (xs : List ℝ)
    (hx : ∀ x ∈ xs, fl x = x) :
    |@kbnSum ℝ (flScalar fl) xs - xs.sum| ≤
      u * |xs.sum| +
        (xs.length : ℝ) ^ 2 * u ^ 2 * ((1 + u) ^ xs.length) ^ 2 * (xs.map fun x => |x|).sum :=
  result_bound_pow h xs hx

/-- **The KBN bound**: for representable inputs and `n u ≤ 1/2`,
    `|kbnSum xs - Σ xs| ≤ u |Σ xs| + 4 n² u² Σ|x_i|`. -/
theorem kbn_error_bound (fl : ℝ → ℝ) (u : ℝ) (h : FPModel fl u) (xs : List ℝ)
    (hx : ∀ x ∈ xs, fl x = x) (hn : (xs.length : ℝ) * u ≤ 1 / 2) :
    |@kbnSum ℝ (flScalar fl) xs - xs.sum| ≤
      u * |xs.sum| + 4 * (xs.length : ℝ) ^ 2 * u ^ 2 * (xs.map fun x => |x|).sum :=
  result_bound h xs hx hn

/-- the hypotheses of `kbn_error_bound` hold for a non-exact arithmetic and a non-trivial input -/
example : FPModel flBump (1 / 24) ∧ (∀ x ∈ ([1, 2] : List ℝ), flBump x = x) ∧
    ((([1, 2] : List ℝ).length : ℝ) * (1 / 24) ≤ 1 / 2) := by
  refine ⟨fpModel_bump, ?_, by norm_num⟩
  intro x hx
  simp only [List.mem_cons, List.mem_nil_iff, or_false] at hx
  rcases hx with rfl | rfl <;> exact flBump_ne (by norm_num)

/-- At `fl = id` (`u = 0`) the bound specialises to exactness. -/
theorem kbn_exact_of_id (xs : List ℝ) : @kbnSum ℝ (flScalar id) xs = xs.sum := by
  have hb := kbn_error_bound id 0 fpModel_id xs (fun _ _ => rfl) (by norm_num)
  have h0 : |@kbnSum ℝ (flScalar id) xs - xs.sum| ≤ 0 := by simpa using hb
  have := abs_nonneg (@kbnSum ℝ (flScalar id) xs - xs.sum)
  have h1 : |@kbnSum ℝ (flScalar id) xs - xs.sum| = 0 := le_antisymm h0 this
  exact sub_eq_zero.mp (abs_eq_zero.mp h1)

/-- The first-order term `u |S|` is attained: in the arithmetic `flBump` (`u = 1/24`) the
    compensated sum of `[1, 2]` is `25/8`, off by exactly `u * |3|`. -/
theorem kbn_bound_tight :
    |@kbnSum ℝ (flScalar flBump) [1, 2] - ([1, 2] : List ℝ).sum| =
      (1 / 24) * |([1, 2] : List ℝ).sum| := by
  have e3 : ((1 : ℝ) + 2) = 3 := by norm_num
  have f0 : flBump 0 = 0 := flBump_ne (by norm_num)
  have f1 : flBump 1 = 1 := flBump_ne (by norm_num)
  have f98 : flBump (25 / 8 - 2) = 25 / 8 - 2 := flBump_ne (by norm_num)
  have fm : flBump (1 - (25 / 8 - 2)) = 1 - (25 / 8 - 2) := flBump_ne (by norm_num)
  have fe : (25 / 8 : ℝ) + (1 - (25 / 8 - 2)) = 3 := by norm_num
  have hv : @kbnSum ℝ (flScalar flBump) [1, 2] = 25 / 8 := by
    have a01 : |(0 : ℝ)| < |(1 : ℝ)| := by norm_num
    have a12 : |(1 : ℝ)| < |(2 : ℝ)| := by norm_num [abs_of_pos]
    simp only [kbnSum, KBN.result, KBN.init, List.foldl, KBN.push, fs_add, fs_sub, fs_abs,
      fs_lt, fs_zero, zero_add, f1, a01, a12, decide_true, if_true, sub_self, f0, add_zero,
      e3, flBump_three, f98, fm, fe]
  rw [hv]; norm_num [abs_of_pos]

/-- `Vector.Sum` at the rounded arithmetic. -/
theorem sum_error_bound (fl : ℝ → ℝ) (u : ℝ) (h : FPModel fl u) (v : Vec ℝ)
    (hx : ∀ e ∈ v.entries, fl e.val = e.val) (hn : (v.entries.length : ℝ) * u ≤ 1 / 2) :
    |@Vec.sum ℝ (flScalar fl) v - (v.entries.map (·.val)).sum| ≤
      u * |(v.entries.map (·.val)).sum| +
        4 * (v.entries.length : ℝ) ^ 2 * u ^ 2 * (v.entries.map fun e => |e.val|).sum := by
  have hx' : ∀ x ∈ v.entries.map (·.val), fl x = x := by
    intro x hxm
    obtain ⟨e, he, rfl⟩ := List.mem_map.mp hxm
    exact hx e he
  have hb := kbn_error_bound fl u h (v.entries.map (·.val)) hx' (by simpa using hn)
  simpa [Vec.sum, List.map_map, Function.comp_def] using hb

/-- `VecDot` at the rounded arithmetic, relative to the exact sum of the ROUNDED products:
    with `ps` the exact products `a_i * b_i` of the matching entries (`dotTerms` at exact real
    arithmetic), `|vecDot e1 e2 - Σ fl p| ≤ u |Σ fl p| + 4 n² u² Σ |fl p|`.  No representability
    hypothesis on the entries is needed (rounded products are representable). -/
theorem dot_error_bound (fl : ℝ → ℝ) (u : ℝ) (h : FPModel fl u) (e1 e2 : List (Entry ℝ))
    (hn : ((@dotTerms ℝ fieldScalar e1 e2).length : ℝ) * u ≤ 1 / 2) :
    |@vecDot ℝ (flScalar fl) e1 e2 - ((@dotTerms ℝ fieldScalar e1 e2).map fl).sum| ≤
      u * |((@dotTerms ℝ fieldScalar e1 e2).map fl).sum| +
        4 * ((@dotTerms ℝ fieldScalar e1 e2).length : ℝ) ^ 2 * u ^ 2 *
          ((@dotTerms ℝ fieldScalar e1 e2).map fun p => |fl p|).sum := by
  have hx' : ∀ x ∈ (@dotTerms ℝ fieldScalar e1 e2).map fl, fl x = x := by
    intro x hxm
    obtain ⟨p, _, rfl⟩ := List.mem_map.mp hxm
    exact h.fl_idem p
  have hb := kbn_error_bound fl u h ((@dotTerms ℝ fieldScalar e1 e2).map fl) hx'
    (by simpa using hn)
  have ev : @vecDot ℝ (flScalar fl) e1 e2 =
      @kbnSum ℝ (flScalar fl) ((@dotTerms ℝ fieldScalar e1 e2).map fl) := by
    unfold vecDot; rw [dotTerms_fl]
  rw [ev]
  simpa [List.map_map, Function.comp_def] using hb

/-- `VecDot` relative to the EXACT dot product `Σ p` (`p = a_i * b_i`): rounding the products
    adds the first-order term `u Σ|p|`, which no summation algorithm can remove. -/
theorem dot_error_bound_exact (fl : ℝ → ℝ) (u : ℝ) (h : FPModel fl u) (e1 e2 : List (Entry ℝ))
    (hn : ((@dotTerms ℝ fieldScalar e1 e2).length : ℝ) * u ≤ 1 / 2) :
    |@vecDot ℝ (flScalar fl) e1 e2 - (@dotTerms ℝ fieldScalar e1 e2).sum| ≤
      u * |(@dotTerms ℝ fieldScalar e1 e2).sum| +
        (u + u ^ 2 + 4 * ((@dotTerms ℝ fieldScalar e1 e2).length : ℝ) ^ 2 * u ^ 2 * (1 + u)) *
          ((@dotTerms ℝ fieldScalar e1 e2).map fun p => |p|).sum := by
  have hb := dot_error_bound fl u h e1 e2 hn
  generalize @dotTerms ℝ fieldScalar e1 e2 = ps at hb ⊢
  generalize @vecDot ℝ (flScalar fl) e1 e2 = r at hb ⊢
  have hu := h.u_nonneg
  have d1 : |(ps.map fl).sum - ps.sum| ≤ u * absSum ps := sum_map_fl_sub h ps
  have d2 : absSum (ps.map fl) ≤ (1 + u) * absSum ps := absSum_map_fl_le h ps
  have eA : (ps.map fun p => |fl p|).sum = absSum (ps.map fl) := by
    simp [absSum, List.map_map, Function.comp_def]
  have eB : (ps.map fun p => |p|).sum = absSum ps := rfl
  rw [eA] at hb
  rw [eB]
  have t1 : |r - ps.sum| ≤ |r - (ps.map fl).sum| + |(ps.map fl).sum - ps.sum| := by
    have := abs_add_le (r - (ps.map fl).sum) ((ps.map fl).sum - ps.sum)
    have e : r - (ps.map fl).sum + ((ps.map fl).sum - ps.sum) = r - ps.sum := by ring
    rwa [e] at this
  have t2 : |(ps.map fl).sum| ≤ |ps.sum| + u * absSum ps := by
    have := abs_add_le ((ps.map fl).sum - ps.sum) ps.sum
    have e : (ps.map fl).sum - ps.sum + ps.sum = (ps.map fl).sum := by ring
    rw [e] at this; linarith
  have t3 : u * |(ps.map fl).sum| ≤ u * (|ps.sum| + u * absSum ps) :=
    mul_le_mul_of_nonneg_left t2 hu
  have hc : 0 ≤ 4 * (ps.length : ℝ) ^ 2 * u ^ 2 := by positivity
  have t4 := mul_le_mul_of_nonneg_left d2 hc
  have e5 : (u + u ^ 2 + 4 * (ps.length : ℝ) ^ 2 * u ^ 2 * (1 + u)) * absSum ps =
      u * absSum ps + u * (u * absSum ps) +
        4 * (ps.length : ℝ) ^ 2 * u ^ 2 * ((1 + u) * absSum ps) := by ring
  rw [e5]; linarith

end EtVerif.C09b
