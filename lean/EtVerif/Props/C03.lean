/-
  C03 — The compute endpoints return the EigenTrust scores of the documented effective inputs.
  Property theorems only (helper lemmas live in Proofs/OapiLemmas.lean).

  Vocabulary (Proofs/OapiLemmas.lean, namespace `EtVerif.OapiL`):
  * `ValidReq r`   — documented validity of an inline request: local trust `.inline m` with
                     `1 ≤ size`, indices in `[0, size)`, pairwise distinct `(i, j)`; pre-trust and
                     initial trust absent or `.inline v` with `1 ≤ size`, indices in range and
                     pairwise distinct, values `> 0`; `alpha ∈ [0,1]`, `epsilon ∈ (0,1]`,
                     `flatTail, numLeaders, maxIterations ≥ 0`, `minIterations, checkFreq ≥ 1`;
  * `docDim r`     — the documented dimension: the largest given size;
  * `matDen ref i j` / `vecDen ref j` — dense value of the given local trust / optional vector
                     (the listed value; `0` where nothing is listed, or when absent);
  * `denRows rows i j`, `denE es j` — dense values of the sparse results; `WF`, `WFM` as in C10.
-/
import EtVerif.Proofs.OapiLemmas
import EtVerif.Props.C05
import Mathlib.Algebra.Order.Field.Rat
import Mathlib.Tactic.NormNum

namespace EtVerif.C03
open EtVerif EtVerif.Oapi EtVerif.OapiL

variable {K : Type} [Field K] [LinearOrder K]

set_option linter.unusedSectionVars false

/-! ## 1. which requests are accepted -/

/-- Every valid request passes loading, alignment and the guards (whatever the store holds). -/
theorem prepare_ok (k : Consts K) (s : Store K) {r : ComputeReq K} (h : ValidReq r) :
    ∃ eff, prepare k s r = some eff := by
  obtain ⟨_, _, _, _, _, _, _, _, _, _, _, hp⟩ := prepare_valid k s h
  exact ⟨_, hp⟩

/-- The loaders' verdict on a local trust reference: rejected exactly when it is an inline matrix
    with `size ≤ 0` or an index outside `[0, size)`, an unknown stored id, object storage (not
    modelled) or an unknown scheme. -/
theorem loadMatrix_none_iff (s : Store K) (ref : MatrixRef K) :
    loadMatrix s ref = none ↔
      (∃ m, ref = .inline m ∧ (m.size ≤ 0 ∨
        ∃ e ∈ m.entries, ¬ (0 ≤ e.1 ∧ e.1 < m.size ∧ 0 ≤ e.2.1 ∧ e.2.1 < m.size))) ∨
      (∃ id, ref = .stored id ∧ s.get? id = none) ∨
      (∃ u, ref = .objectStorage u) ∨ (∃ u, ref = .unknown u) := by
  classical
  cases ref with
  | inline m =>
    simp only [loadMatrix, loadInlineMatrix_eq, MatrixRef.inline.injEq, exists_eq_left',
      reduceCtorEq, false_and, exists_false, or_false]
    unfold InRangeM
    by_cases h : 0 < m.size ∧ ∀ e ∈ m.entries, 0 ≤ e.1 ∧ e.1 < m.size ∧ 0 ≤ e.2.1 ∧ e.2.1 < m.size
    · rw [if_pos h]
      constructor
      · intro h'; cases h'
      · rintro (hs | ⟨e, he, hn⟩)
        · omega
        · exact absurd (h.2 e he) hn
    · rw [if_neg h]
      simp only [true_iff]
      by_cases hs : m.size ≤ 0
      · exact Or.inl hs
      · right
        by_contra hc
        apply h
        refine ⟨by omega, fun e he => ?_⟩
        by_contra hn
        exact hc ⟨e, he, hn⟩
  | stored id => simp [loadMatrix]
  | objectStorage u => simp [loadMatrix]
  | unknown u => simp [loadMatrix]

/-- The loaders' verdict on a vector reference: rejected exactly when it is an inline vector with
    `size ≤ 0`, an index outside `[0, size)` or a value `≤ 0`, object storage or an unknown
    scheme. -/
theorem loadVector_none_iff (ref : VectorRef K) :
    loadVector ref = none ↔
      (∃ v, ref = .inline v ∧ (v.size ≤ 0 ∨
        ∃ e ∈ v.entries, ¬ (0 ≤ e.1 ∧ e.1 < v.size ∧ 0 < e.2))) ∨
      (∃ u, ref = .objectStorage u) ∨ (∃ u, ref = .unknown u) := by
  classical
  cases ref with
  | inline v =>
    simp only [loadVector, loadInlineVector_eq, VectorRef.inline.injEq, exists_eq_left',
      reduceCtorEq, exists_false, or_false]
    unfold InRangeV
    by_cases h : 0 < v.size ∧ ∀ e ∈ v.entries, 0 ≤ e.1 ∧ e.1 < v.size ∧ 0 < e.2
    · rw [if_pos h]
      constructor
      · intro h'; cases h'
      · rintro (hs | ⟨e, he, hn⟩)
        · omega
        · exact absurd (h.2 e he) hn
    · rw [if_neg h]
      simp only [true_iff]
      by_cases hs : v.size ≤ 0
      · exact Or.inl hs
      · right
        by_contra hc
        apply h
        refine ⟨by omega, fun e he => ?_⟩
        by_contra hn
        exact hc ⟨e, he, hn⟩
  | objectStorage u => simp [loadVector]
  | unknown u => simp [loadVector]

/-- a local trust reference the loader refuses ⇒ 400 -/
theorem prepare_invalid_localTrust (k : Consts K) (s : Store K) (r : ComputeReq K)
    (h : loadMatrix s r.localTrust = none) : prepare k s r = none := by
  rw [prepare_eq, h]

/-- a pre-trust reference the loader refuses ⇒ 400 -/
theorem prepare_invalid_preTrust (k : Consts K) (s : Store K) (r : ComputeReq K)
    (h : ∃ ref, r.preTrust = some ref ∧ loadVector ref = none) : prepare k s r = none := by
  obtain ⟨ref, h1, h2⟩ := h
  have : loadOptVec r.preTrust = none := by rw [h1]; simp [loadOptVec, h2]
  rw [prepare_eq, this]
  split <;> first | rfl | simp_all

/-- an initial-trust reference the loader refuses ⇒ 400 -/
theorem prepare_invalid_initialTrust (k : Consts K) (s : Store K) (r : ComputeReq K)
    (h : ∃ ref, r.initialTrust = some ref ∧ loadVector ref = none) : prepare k s r = none := by
  obtain ⟨ref, h1, h2⟩ := h
  have : loadOptVec r.initialTrust = none := by rw [h1]; simp [loadOptVec, h2]
  rw [prepare_eq, this]
  split <;> first | rfl | simp_all

/-- `alpha` outside `[0, 1]` ⇒ 400 -/
theorem prepare_invalid_alpha (k : Consts K) (s : Store K) (r : ComputeReq K)
    (h : ∃ a, r.alpha = some a ∧ (a < 0 ∨ 1 < a)) : prepare k s r = none := by
  obtain ⟨a, h1, h2⟩ := h
  have hg : guardA r = true := by
    rw [← Bool.not_eq_false, guardA_false_iff]
    intro hc
    have := hc.1 a h1
    rcases h2 with h2 | h2
    · exact absurd this.1 (not_le.mpr h2)
    · exact absurd this.2 (not_le.mpr h2)
  rw [prepare_eq]
  split
  · rw [if_pos hg]
  · rfl

/-- `epsilon` outside `(0, 1]` ⇒ 400 -/
theorem prepare_invalid_epsilon (k : Consts K) (s : Store K) (r : ComputeReq K)
    (h : ∃ e, r.epsilon = some e ∧ (e ≤ 0 ∨ 1 < e)) : prepare k s r = none := by
  obtain ⟨e, h1, h2⟩ := h
  have hg : guardA r = true := by
    rw [← Bool.not_eq_false, guardA_false_iff]
    intro hc
    have := hc.2 e h1
    rcases h2 with h2 | h2
    · exact absurd this.1 (not_lt.mpr h2)
    · exact absurd this.2 (not_le.mpr h2)
  rw [prepare_eq]
  split
  · rw [if_pos hg]
  · rfl

/-- an iteration option below its documented minimum (`flatTail, numLeaders, maxIterations ≥ 0`,
    `minIterations, checkFreq ≥ 1`) ⇒ 400 -/
theorem prepare_invalid_option (k : Consts K) (s : Store K) (r : ComputeReq K)
    (h : (∃ x, r.flatTail = some x ∧ x < 0) ∨ (∃ x, r.numLeaders = some x ∧ x < 0) ∨
      (∃ x, r.maxIterations = some x ∧ x < 0) ∨ (∃ x, r.minIterations = some x ∧ x < 1) ∨
      (∃ x, r.checkFreq = some x ∧ x < 1)) : prepare k s r = none := by
  have hg : guardB r = true := by
    rw [← Bool.not_eq_false, guardB_false_iff]
    rintro ⟨c1, c2, c3, c4, c5⟩
    rcases h with ⟨x, hx, hlt⟩ | ⟨x, hx, hlt⟩ | ⟨x, hx, hlt⟩ | ⟨x, hx, hlt⟩ | ⟨x, hx, hlt⟩
    · have := c1 x hx; omega
    · have := c2 x hx; omega
    · have := c3 x hx; omega
    · have := c4 x hx; omega
    · have := c5 x hx; omega
  rw [prepare_eq]
  split
  · simp [hg]
  · rfl

/-- Exact characterisation of the 400 answers for an inline local trust: the request is refused
    if and only if a loader refuses one of the three references or a parameter is out of its
    documented range.  (In particular nothing else — e.g. repeated coordinates — is checked.) -/
theorem prepare_none_iff (k : Consts K) (s : Store K) (r : ComputeReq K) (m : IMatrix K)
    (hm : r.localTrust = .inline m) :
    prepare k s r = none ↔
      loadInlineMatrix m = none ∨ (∃ ref, r.preTrust = some ref ∧ loadVector ref = none) ∨
      (∃ ref, r.initialTrust = some ref ∧ loadVector ref = none) ∨
      ¬ ((∀ a, r.alpha = some a → 0 ≤ a ∧ a ≤ 1) ∧ (∀ e, r.epsilon = some e → 0 < e ∧ e ≤ 1)) ∨
      ¬ (optOK r.flatTail 0 ∧ optOK r.numLeaders 0 ∧ optOK r.maxIterations 0 ∧
          optOK r.minIterations 1 ∧ optOK r.checkFreq 1) := by
  have hopt : ∀ o : Option (VectorRef K),
      loadOptVec o = none ↔ ∃ ref, o = some ref ∧ loadVector ref = none := by
    intro o
    cases o with
    | none => simp [loadOptVec]
    | some ref => simp [loadOptVec]
  rw [← guardA_false_iff, ← guardB_false_iff, ← hopt, ← hopt, prepare_eq, hm]
  simp only [loadMatrix]
  cases h1 : loadInlineMatrix m with
  | none => simp
  | some c0 =>
    cases h2 : loadOptVec r.preTrust with
    | none => simp
    | some pOpt =>
      cases h3 : loadOptVec r.initialTrust with
      | none => simp
      | some tOpt =>
        obtain ⟨eff, he⟩ := finish_isSome k r (loadInlineMatrix_square h1) pOpt tOpt
        cases hA : guardA r <;> cases hB : guardB r <;> simp [he]

/-- a refused request is answered 400 by both endpoints -/
theorem badRequest_of_prepare_none (fuel : Nat) (k : Consts K) (s : Store K) (r : ComputeReq K)
    (h : prepare k s r = none) :
    handleCompute fuel k s r = .badRequest ∧
    handleComputeWithStats fuel k s r = .badRequest := by
  unfold handleCompute handleComputeWithStats computeCore
  rw [h]
  exact ⟨rfl, rfl⟩

/-! ## 2. the effective inputs of a valid request -/

/-- Dimensions: everything handed to `basic.Compute` / `DiscountTrustVector` has the documented
    dimension `n = docDim r ≥ 1` and is well-formed. -/
theorem prepare_dims (k : Consts K) (s : Store K) {r : ComputeReq K} (h : ValidReq r)
    {eff : Effective K} (he : prepare k s r = some eff) :
    0 < docDim r ∧
    eff.c.major = docDim r ∧ eff.c.minor = docDim r ∧ WFM eff.c ∧
    eff.p.dim = docDim r ∧ WF (docDim r) eff.p.entries ∧
    eff.discounts.major = docDim r ∧ eff.discounts.minor = docDim r ∧ WFM eff.discounts ∧
    (∀ t, eff.t0 = some t → t.dim = docDim r ∧ WF (docDim r) t.entries) := by
  obtain ⟨c0, c2, pes, tOpt, _, ha, hp, _, _, ht, hpos, hprep⟩ := prepare_valid k s h
  rw [hprep] at he
  injection he with he
  subst he
  obtain ⟨d1, d2, d3, d4, d5, d6, d7, d8⟩ := effOf_dims k r
    (tOpt.map fun t => ⟨docDim r, t.entries⟩) ha hp
  refine ⟨hpos, d1, d2, d3, d4, d5, d6, d7, d8, ?_⟩
  intro t ht'
  cases tOpt with
  | none => cases ht'
  | some t' =>
    have : t = canonicalizeTrustVector ⟨docDim r, t'.entries⟩ := by
      have : some (canonicalizeTrustVector ⟨docDim r, t'.entries⟩) = some t := ht'
      injection this with this
      exact this.symm
    subst this
    exact ⟨C04.canonTV_dim _, wf_canonTV (ht t' rfl).1⟩

/-- Defaults: absent `alpha` is `0.5`, absent `epsilon` is `1e-6 / n`, the initial trust is passed
    on exactly when given, the iteration options are passed through unchanged. -/
theorem prepare_defaults (k : Consts K) (s : Store K) {r : ComputeReq K} (h : ValidReq r)
    {eff : Effective K} (he : prepare k s r = some eff) :
    eff.a = r.alpha.getD k.half ∧
    eff.e = r.epsilon.getD (k.epsNum / (docDim r : K)) ∧
    eff.opts.t0 = eff.t0 ∧ (eff.t0 = none ↔ r.initialTrust = none) ∧
    eff.opts.resultDim = none ∧
    eff.opts.flatTail = (r.flatTail.getD 0).toNat ∧
    eff.opts.numLeaders = (r.numLeaders.getD 0).toNat ∧
    eff.opts.maxIterations = r.maxIterations ∧ eff.opts.minIterations = r.minIterations ∧
    eff.opts.checkFreq = r.checkFreq := by
  obtain ⟨c0, c2, pes, tOpt, _, _, _, _, ht, _, _, hprep⟩ := prepare_valid k s h
  rw [hprep] at he
  injection he with he
  subst he
  refine ⟨rfl, rfl, rfl, ?_, rfl, rfl, rfl, rfl, rfl, rfl⟩
  rw [← ht]
  show Option.map _ (Option.map _ tOpt) = none ↔ _
  cases tOpt <;> simp

/-- Pre-trust: absent or all-zero pre-trust is uniform, otherwise the given values divided by
    their sum (`vecDen r.preTrust` is identically `0` when the pre-trust is absent). -/
theorem prepare_pretrust [IsStrictOrderedRing K] (k : Consts K) (s : Store K) {r : ComputeReq K}
    (h : ValidReq r) {eff : Effective K} (he : prepare k s r = some eff) (j : Nat) :
    denE eff.p.entries j =
      if ∑ j' ∈ Finset.range (docDim r), vecDen r.preTrust j' = 0 then
        (if j < docDim r then 1 / (docDim r : K) else 0)
      else vecDen r.preTrust j / ∑ j' ∈ Finset.range (docDim r), vecDen r.preTrust j' := by
  obtain ⟨c0, c2, pes, tOpt, _, _, hp, hpd, _, _, _, hprep⟩ := prepare_valid k s h
  rw [hprep] at he
  injection he with he
  subst he
  rw [effOf_p_den k r _ c2 hp j]
  simp only [hpd]

/-- an absent pre-trust has dense value `0` everywhere, hence is treated as all-zero -/
theorem pretrust_absent {r : ComputeReq K} (h : r.preTrust = none) (n : Nat) :
    ∑ j' ∈ Finset.range n, vecDen r.preTrust j' = 0 := by
  rw [h]; simp [vecDen]

/-- Local trust: with `pos i j = max (L i j) 0`, row `i < n` is `pos i · / Σ pos i ·` when that
    sum is non-zero; every peer without positive outgoing trust trusts according to the
    (effective) pre-trust. -/
theorem prepare_localtrust [IsStrictOrderedRing K] (k : Consts K) (s : Store K)
    {r : ComputeReq K} (h : ValidReq r) {eff : Effective K} (he : prepare k s r = some eff)
    (i : Nat) (hi : i < docDim r) (j : Nat) :
    denRows eff.c.rows i j =
      if ∑ j' ∈ Finset.range (docDim r), max (matDen r.localTrust i j') 0 = 0 then
        denE eff.p.entries j
      else max (matDen r.localTrust i j) 0 /
        ∑ j' ∈ Finset.range (docDim r), max (matDen r.localTrust i j') 0 := by
  obtain ⟨c0, c2, pes, tOpt, hL, ha, _, _, _, _, _, hprep⟩ := prepare_valid k s h
  rw [hprep] at he
  injection he with he
  subst he
  rw [effOf_c_den k r _ ha hi j]
  simp only [hL]

/-- Discounts: with `neg i j = max (-(L i j)) 0`, row `i` of the discount matrix is
    `neg i · / Σ neg i ·`, and zero for a peer that distrusts nobody. -/
theorem prepare_discounts [IsStrictOrderedRing K] (k : Consts K) (s : Store K)
    {r : ComputeReq K} (h : ValidReq r) {eff : Effective K} (he : prepare k s r = some eff)
    (i j : Nat) :
    denRows eff.discounts.rows i j =
      if ∑ j' ∈ Finset.range (docDim r), max (-(matDen r.localTrust i j')) 0 = 0 then 0
      else max (-(matDen r.localTrust i j)) 0 /
        ∑ j' ∈ Finset.range (docDim r), max (-(matDen r.localTrust i j')) 0 := by
  obtain ⟨c0, c2, pes, tOpt, hL, ha, _, _, _, _, _, hprep⟩ := prepare_valid k s h
  rw [hprep] at he
  injection he with he
  subst he
  rw [effOf_d_den k r _ ha i j]
  simp only [hL]

/-- Initial trust: canonicalised like the pre-trust (uniform if it sums to zero). -/
theorem prepare_initial [IsStrictOrderedRing K] (k : Consts K) (s : Store K) {r : ComputeReq K}
    (h : ValidReq r) {eff : Effective K} (he : prepare k s r = some eff) (t : Vec K)
    (ht : eff.t0 = some t) (j : Nat) :
    denE t.entries j =
      if ∑ j' ∈ Finset.range (docDim r), vecDen r.initialTrust j' = 0 then
        (if j < docDim r then 1 / (docDim r : K) else 0)
      else vecDen r.initialTrust j / ∑ j' ∈ Finset.range (docDim r), vecDen r.initialTrust j' := by
  obtain ⟨c0, c2, pes, tOpt, _, _, _, _, _, htd, _, hprep⟩ := prepare_valid k s h
  rw [hprep] at he
  injection he with he
  subst he
  cases tOpt with
  | none => cases ht
  | some t' =>
    have : t = canonicalizeTrustVector ⟨docDim r, t'.entries⟩ := by
      have : some (canonicalizeTrustVector ⟨docDim r, t'.entries⟩) = some t := ht
      injection this with this
      exact this.symm
    subst this
    obtain ⟨hw, hd⟩ := htd t' rfl
    rw [den_canonTV, vsum_eq_sum hw]
    simp only [hd]

/-! ## 3. the two endpoints agree -/

/-- `/compute-with-stats` answers 200 with scores `v` exactly when `/compute` answers 200 with
    the same `v`; and the non-200 statuses coincide. -/
theorem endpoints_agree (fuel : Nat) (k : Consts K) (s : Store K) (r : ComputeReq K) :
    (∀ v st, handleComputeWithStats fuel k s r = .ok (v, st) → handleCompute fuel k s r = .ok v) ∧
    (∀ v, handleCompute fuel k s r = .ok v →
      ∃ st, handleComputeWithStats fuel k s r = .ok (v, st)) ∧
    (handleComputeWithStats fuel k s r = .badRequest ↔ handleCompute fuel k s r = .badRequest) ∧
    (handleComputeWithStats fuel k s r = .notFound ↔ handleCompute fuel k s r = .notFound) ∧
    (handleComputeWithStats fuel k s r = .serverError ↔
      handleCompute fuel k s r = .serverError) := by
  unfold handleComputeWithStats handleCompute
  cases computeCore fuel k s r <;> simp

/-! ## 4. the scores -/

/-- A 200 answer carries the discounted result of `basic.Compute` on the effective inputs. -/
theorem compute_scores_def (fuel : Nat) (k : Consts K) (s : Store K) (r : ComputeReq K)
    (o : ComputeOut K) (h : computeCore fuel k s r = .ok o) :
    ∃ eff res, prepare k s r = some eff ∧
      compute fuel eff.c eff.p eff.a eff.e eff.opts = .ok res ∧
      o.scores = discountTrustVector res.t eff.discounts ∧ o.stats = res.stats ∧
      o.iters = res.iters := by
  unfold computeCore at h
  cases hp : prepare k s r with
  | none => rw [hp] at h; cases h
  | some eff =>
    rw [hp] at h
    simp only at h
    cases hc : compute fuel eff.c eff.p eff.a eff.e eff.opts with
    | error e => rw [hc] at h; cases h
    | ok res =>
      rw [hc] at h
      injection h with h
      subst h
      exact ⟨eff, res, rfl, hc, rfl, rfl, rfl⟩

/-- For a valid request the vector returned by `basic.Compute` on the effective inputs has the
    documented dimension and is well-formed. -/
theorem compute_result_wf (fuel : Nat) (k : Consts K) (s : Store K) {r : ComputeReq K}
    (hv : ValidReq r) {eff : Effective K} (hp : prepare k s r = some eff)
    {res : ComputeResult K} (hc : compute fuel eff.c eff.p eff.a eff.e eff.opts = .ok res) :
    res.t.dim = docDim r ∧ WF (docDim r) res.t.entries := by
  obtain ⟨_, d1, d2, d3, d4, d5, d6, d7, d8, d9⟩ := prepare_dims k s hv hp
  obtain ⟨_, hdef⟩ := prepare_defaults k s hv hp
  obtain ⟨_, hres, _⟩ := C05.compute_spec fuel eff.c eff.p eff.a eff.e eff.opts res hc
  refine ⟨by rw [hres]; exact d1, ?_⟩
  rw [hres]
  simp only
  apply wf_iterate
  · rw [Mx.transpose_length]; exact d2
  · exact wf_vecScale _ d5
  · rw [hdef.2.1]
    cases ht : eff.t0 with
    | none => exact d5
    | some t => exact (d9 t ht).2

/-- For a valid request the scores have size `n = docDim r` and their entries are keyed by peer
    index: strictly increasing indices, all below `n`. -/
theorem scores_size (fuel : Nat) (k : Consts K) (s : Store K) {r : ComputeReq K}
    (hv : ValidReq r) (o : ComputeOut K) (h : computeCore fuel k s r = .ok o) :
    o.scores.dim = docDim r ∧ WF (docDim r) o.scores.entries := by
  obtain ⟨eff, res, hp, hc, hs, _, _⟩ := compute_scores_def fuel k s r o h
  obtain ⟨_, _, _, _, _, _, _, d7, d8, _⟩ := prepare_dims k s hv hp
  obtain ⟨hdim, hwf⟩ := compute_result_wf fuel k s hv hp hc
  rw [hs]
  refine ⟨hdim, ?_⟩
  have := C08.discount_wf res.t eff.discounts (by rw [hdim]; exact hwf)
    (by rw [hdim, ← d7]; exact d8.2)
  rw [C08.discount_dim, hdim] at this
  exact this

/-- Negative trust is applied as a reputation-weighted discount after convergence: with `t` the
    vector `basic.Compute` returns for the effective inputs and `D` the effective discount
    matrix, `score_j = t_j - Σ_{i<n} t_i · D_ij`. -/
theorem scores_discounted (fuel : Nat) (k : Consts K) (s : Store K) {r : ComputeReq K}
    (hv : ValidReq r) (o : ComputeOut K) (h : computeCore fuel k s r = .ok o) :
    ∃ eff res, prepare k s r = some eff ∧
      compute fuel eff.c eff.p eff.a eff.e eff.opts = .ok res ∧
      ∀ j, denE o.scores.entries j = denE res.t.entries j -
        ∑ i ∈ Finset.range (docDim r), denE res.t.entries i * denRows eff.discounts.rows i j := by
  obtain ⟨eff, res, hp, hc, hs, _, _⟩ := compute_scores_def fuel k s r o h
  obtain ⟨hdim, hwf⟩ := compute_result_wf fuel k s hv hp hc
  refine ⟨eff, res, hp, hc, fun j => ?_⟩
  rw [hs, C08.discount_spec res.t eff.discounts (by rw [hdim]; exact hwf) j, hdim]
  rfl

/-- Over exact arithmetic a valid request is never answered 500: with the handler's constants
    in range (`0 ≤ 0.5 ≤ 1`, `1e-6 > 0`) the effective inputs pass every validation of
    `basic.Compute`, and a non-finite delta cannot occur; so both endpoints answer 200. -/
theorem valid_ok [IsStrictOrderedRing K] (fuel : Nat) (k : Consts K) (s : Store K)
    {r : ComputeReq K} (hv : ValidReq r) (hh : 0 ≤ k.half ∧ k.half ≤ 1) (he : 0 < k.epsNum) :
    ∃ o, computeCore fuel k s r = .ok o ∧ handleCompute fuel k s r = .ok o.scores ∧
      handleComputeWithStats fuel k s r = .ok (o.scores, o.stats) := by
  obtain ⟨eff, hp⟩ := prepare_ok k s hv
  obtain ⟨hpos, d1, d2, _, d4, _, _, _, _, d9⟩ := prepare_dims k s hv hp
  obtain ⟨f1, f2, f3, _, f5, _, _, f8, f9, f10⟩ := prepare_defaults k s hv hp
  have hvalid : ValidInput eff.c eff.p eff.a eff.e eff.opts := by
    refine ⟨d1.trans d2.symm, by rw [d1]; omega, d4.trans d1.symm, ?_, ?_, ?_, ?_, ?_, ?_, ?_, ?_⟩
    · intro t ht; rw [f3] at ht; rw [d1]; exact (d9 t ht).1
    · intro d hd; rw [f5] at hd; cases hd
    · rw [f1]
      cases ha : r.alpha with
      | none => simpa using hh.1
      | some a => simpa using (hv.alpha a ha).1
    · rw [f1]
      cases ha : r.alpha with
      | none => simpa using hh.2
      | some a => simpa using (hv.alpha a ha).2
    · rw [f2]
      cases hep : r.epsilon with
      | none =>
        have : (0 : K) < k.epsNum / (docDim r : K) := div_pos he (Nat.cast_pos.mpr hpos)
        simpa using this
      | some e => simpa using (hv.epsilon e hep).1
    · rw [f10]
      cases hc : r.checkFreq with
      | none => simp
      | some x => simpa using hv.checkFreq x hc
    · rw [f8]
      cases hc : r.maxIterations with
      | none => simp
      | some x => simpa using hv.maxIterations x hc
    · rw [f9, f10]
      cases hm : r.minIterations with
      | none =>
        cases hc : r.checkFreq with
        | none => simp
        | some x => have := hv.checkFreq x hc; simp only [Option.getD_some, Option.getD_none]; omega
      | some x => have := hv.minIterations x hm; simp only [Option.getD_some]; omega
  have hnf := loopOf_not_nonFinite fuel eff.c eff.p eff.a eff.e eff.opts
  obtain ⟨res, hres, _⟩ := C05.compute_ok fuel eff.c eff.p eff.a eff.e eff.opts hvalid
    (loopOf fuel eff.c eff.p eff.a eff.e eff.opts).1 (loopOf fuel eff.c eff.p eff.a eff.e eff.opts).2
    rfl hnf
  have hcore : computeCore fuel k s r =
      .ok { scores := discountTrustVector res.t eff.discounts, stats := res.stats,
            iters := res.iters } := by
    unfold computeCore
    rw [hp]
    simp only [hres]
  refine ⟨_, hcore, ?_, ?_⟩
  · unfold handleCompute; rw [hcore]
  · unfold handleComputeWithStats; rw [hcore]

/-! ## 5. stored and inline local trust -/

/-- The body of `GET /local-trust/{id}` for a stored matrix `M` (well-formed, square, no stored
    zero, size ≥ 1), sent as an inline local trust, is accepted and loads to a matrix with the
    very same rows and dimensions as `M`. -/
theorem stored_eq_inline (M : CSM K) (hw : WFM M) (hsq : M.major = M.minor)
    (hnz : ∀ i, ∀ e ∈ M.rows.getD i [], e.val ≠ 0) (h1 : 1 ≤ M.major) :
    ∃ M', loadInlineMatrix
        ⟨(M.major : Int), (entriesOf M).map fun (i, j, v) => ((i : Int), (j : Int), v)⟩ = some M' ∧
      M'.rows = M.rows ∧ M'.major = M.major ∧ M'.minor = M.minor ∧ M'.hidden = [] :=
  ⟨_, load_renderI hw hsq hnz h1, rfl, rfl, hsq, rfl⟩

/-- Hence a request naming a stored matrix `M` (satisfying the store invariant `MatInv`, which
    holds in every store reachable from the empty one, see `C13.reachable_inv`) is prepared and
    answered exactly like the request carrying the GET body of `M` inline; that inline request is
    valid whenever the rest of the request is, its documented dimension is the largest of
    `M`'s size and the given vector sizes, and its dense local trust is the content of `M`.
    All theorems of sections 1–4 therefore apply to stored references through `r'`. -/
theorem stored_request_reduces (fuel : Nat) (k : Consts K) (s : Store K) (r : ComputeReq K)
    (id : String) (M : CSM K) (hid : r.localTrust = .stored id) (hg : s.get? id = some M)
    (hM : MatInv M) :
    prepare k s r = prepare k s { r with localTrust := .inline (renderI M) } ∧
    computeCore fuel k s r = computeCore fuel k s { r with localTrust := .inline (renderI M) } ∧
    handleCompute fuel k s r = handleCompute fuel k s { r with localTrust := .inline (renderI M) } ∧
    handleComputeWithStats fuel k s r =
      handleComputeWithStats fuel k s { r with localTrust := .inline (renderI M) } ∧
    (ValidRest r → ValidReq { r with localTrust := .inline (renderI M) }) ∧
    docDim { r with localTrust := .inline (renderI M) } =
      max M.major (max (vecSize r.preTrust) (vecSize r.initialTrust)) ∧
    (∀ i j, matDen (MatrixRef.inline (renderI M)) i j = denRows M.rows i j) := by
  have hl : loadMatrix s (.inline (renderI M)) = loadMatrix s r.localTrust := by
    rw [hid]
    show loadInlineMatrix (renderI M) = s.get? id
    rw [hg, load_renderI_eq hM]
  have hp : prepare k s r = prepare k s { r with localTrust := .inline (renderI M) } := by
    rw [prepare_eq, prepare_eq]
    simp only [hl]
    rfl
  have hc : computeCore fuel k s r =
      computeCore fuel k s { r with localTrust := .inline (renderI M) } := by
    unfold computeCore; rw [hp]
  refine ⟨hp, hc, by unfold handleCompute; rw [hc], by unfold handleComputeWithStats; rw [hc],
    fun hr => hr.withInline (valid_renderI hM.wfm hM.square hM.pos), ?_,
    fun i j => denIM_renderI hM i j⟩
  simp [docDim, matSize, renderI]

/-! ## non-vacuity at `K := ℚ` -/

section examples

-- `ℚ` carries two `Scalar` instances (`ratScalar` for the driver, `fieldScalar` for proofs);
-- the examples use the proof instance.
attribute [local instance 10000] fieldScalar

/-- the first worked example of the API document: 3 peers -/
private def exLT : IMatrix ℚ := ⟨3, [(0, 1, 1), (0, 2, 1), (1, 2, 100)]⟩
/-- the pre-trust example of the API document -/
private def exPT : IVector ℚ := ⟨3, [(0, 1/2), (2, 1)]⟩
private def exK : Consts ℚ := ⟨1/2, 1/1000000⟩
private def exReq : ComputeReq ℚ :=
  { localTrust := .inline exLT, preTrust := some (.inline exPT) }

private theorem exReq_valid : ValidReq exReq := by
  refine ⟨⟨exLT, rfl, ?_, ?_, ?_⟩, ⟨?_, ?_, ?_⟩, trivial, nofun, nofun, nofun, nofun, nofun,
    nofun, nofun⟩
  · decide
  · intro e he
    simp only [exLT, List.mem_cons, List.not_mem_nil, or_false] at he
    rcases he with rfl | rfl | rfl <;> decide
  · decide
  · decide
  · intro e he
    simp only [exPT, List.mem_cons, List.not_mem_nil, or_false] at he
    rcases he with rfl | rfl <;> norm_num [exPT]
  · decide

/-- a 2-peer request with a distrust entry, a larger initial trust and explicit parameters -/
private def exReq2 : ComputeReq ℚ :=
  { localTrust := .inline ⟨2, [(0, 1, 1), (1, 0, -1)]⟩
    initialTrust := some (.inline ⟨3, [(2, 5)]⟩)
    alpha := some (1/4), epsilon := some (1/100), flatTail := some 2, minIterations := some 3
    checkFreq := some 2 }

private theorem exReq2_valid : ValidReq exReq2 := by
  refine ⟨⟨_, rfl, ?_, ?_, ?_⟩, trivial, ⟨?_, ?_, ?_⟩, ?_, ?_, ?_, nofun, nofun, ?_, ?_⟩
  · decide
  · intro e he
    simp only [List.mem_cons, List.not_mem_nil, or_false] at he
    rcases he with rfl | rfl <;> decide
  · decide
  · decide
  · intro e he
    simp only [List.mem_cons, List.not_mem_nil, or_false] at he
    subst he; norm_num
  · decide
  · intro a ha; cases ha; norm_num
  · intro e he; cases he; norm_num
  · intro x hx; cases hx; decide
  · intro x hx; cases hx; decide
  · intro x hx; cases hx; decide

example : ∃ eff, prepare exK [] exReq = some eff := prepare_ok exK [] exReq_valid
example : docDim exReq = 3 := by decide
example : docDim exReq2 = 3 := by decide

private theorem exPT_den :
    vecDen exReq.preTrust 0 = 1/2 ∧ vecDen exReq.preTrust 1 = 0 ∧ vecDen exReq.preTrust 2 = 1 := by
  refine ⟨?_, ?_, ?_⟩ <;> norm_num [vecDen, exReq, denIV, exPT]

example : ∃ eff, prepare exK [] exReq = some eff ∧
    denE eff.p.entries 0 = 1/3 ∧ denE eff.p.entries 1 = 0 ∧ denE eff.p.entries 2 = 2/3 := by
  obtain ⟨eff, he⟩ := prepare_ok exK [] exReq_valid
  have hd : docDim exReq = 3 := by decide
  refine ⟨eff, he, ?_, ?_, ?_⟩ <;>
  · rw [prepare_pretrust exK [] exReq_valid he, hd]
    simp only [Finset.sum_range_succ, Finset.sum_range_zero, exPT_den.1, exPT_den.2.1, exPT_den.2.2]
    norm_num

/-- peer 0 splits its trust between peers 1 and 2; peer 2, without outgoing trust, trusts
    according to the pre-trust -/
example : ∃ eff, prepare exK [] exReq = some eff ∧
    denRows eff.c.rows 0 1 = 1/2 ∧ denRows eff.c.rows 1 2 = 1 ∧
    denRows eff.c.rows 2 0 = denE eff.p.entries 0 ∧
    eff.a = 1/2 ∧ eff.e = (1/1000000) / 3 ∧ eff.t0 = none := by
  obtain ⟨eff, he⟩ := prepare_ok exK [] exReq_valid
  have hd : docDim exReq = 3 := by decide
  have hdef := prepare_defaults exK [] exReq_valid he
  refine ⟨eff, he, ?_, ?_, ?_, hdef.1, ?_, hdef.2.2.2.1.mpr rfl⟩
  · rw [prepare_localtrust exK [] exReq_valid he 0 (by rw [hd]; omega), hd]
    norm_num [Finset.sum_range_succ, matDen, exReq, denIM, exLT]
  · rw [prepare_localtrust exK [] exReq_valid he 1 (by rw [hd]; omega), hd]
    norm_num [Finset.sum_range_succ, matDen, exReq, denIM, exLT]
  · rw [prepare_localtrust exK [] exReq_valid he 2 (by rw [hd]; omega), hd]
    norm_num [Finset.sum_range_succ, matDen, exReq, denIM, exLT]
  · rw [hdef.2.1, hd]; norm_num [exReq, exK]

/-- the distrust of peer 1 towards peer 0 becomes a discount row; peer 1 has no positive
    outgoing trust, so it trusts according to the (absent ⇒ uniform) pre-trust; the given
    initial trust of size 3 enlarges everything to 3 peers -/
example : ∃ eff, prepare exK [] exReq2 = some eff ∧
    denRows eff.discounts.rows 1 0 = 1 ∧ denRows eff.discounts.rows 0 1 = 0 ∧
    denRows eff.c.rows 1 2 = 1/3 ∧ denE eff.p.entries 2 = 1/3 ∧
    eff.a = 1/4 ∧ eff.e = 1/100 ∧ eff.c.major = 3 ∧
    (∃ t, eff.t0 = some t ∧ denE t.entries 2 = 1 ∧ denE t.entries 0 = 0) := by
  obtain ⟨eff, he⟩ := prepare_ok exK [] exReq2_valid
  have hd : docDim exReq2 = 3 := by decide
  have hdef := prepare_defaults exK [] exReq2_valid he
  have hdim := prepare_dims exK [] exReq2_valid he
  have hp2 : denE eff.p.entries 2 = 1/3 := by
    rw [prepare_pretrust exK [] exReq2_valid he, hd]
    norm_num [Finset.sum_range_succ, vecDen, exReq2]
  refine ⟨eff, he, ?_, ?_, ?_, hp2, hdef.1, hdef.2.1, by rw [hdim.2.1, hd], ?_⟩
  · rw [prepare_discounts exK [] exReq2_valid he, hd]
    norm_num [Finset.sum_range_succ, matDen, exReq2, denIM]
  · rw [prepare_discounts exK [] exReq2_valid he, hd]
    norm_num [Finset.sum_range_succ, matDen, exReq2, denIM]
  · rw [prepare_localtrust exK [] exReq2_valid he 1 (by rw [hd]; omega), hd, hp2]
    norm_num [Finset.sum_range_succ, matDen, exReq2, denIM]
  · cases ht : eff.t0 with
    | none => exact absurd (hdef.2.2.2.1.mp ht) (by simp [exReq2])
    | some t =>
      refine ⟨t, rfl, ?_, ?_⟩
      · rw [prepare_initial exK [] exReq2_valid he t ht, hd]
        norm_num [Finset.sum_range_succ, vecDen, exReq2, denIV]
      · rw [prepare_initial exK [] exReq2_valid he t ht, hd]
        norm_num [Finset.sum_range_succ, vecDen, exReq2, denIV]

/-- invalid requests: size 0, index out of range, non-positive pre-trust value, alpha > 1,
    minIterations = 0 — all answered 400 by both endpoints -/
example : prepare exK [] { exReq with localTrust := .inline ⟨0, []⟩ } = none :=
  prepare_invalid_localTrust _ _ _ ((loadMatrix_none_iff _ _).mpr (.inl ⟨_, rfl, .inl (by decide)⟩))
example : prepare exK [] { exReq with localTrust := .inline ⟨2, [(0, 2, 1)]⟩ } = none :=
  prepare_invalid_localTrust _ _ _
    ((loadMatrix_none_iff _ _).mpr (.inl ⟨_, rfl, .inr ⟨(0, 2, 1), by simp, by decide⟩⟩))
example : prepare exK [] { exReq with localTrust := .stored "nope" } = none :=
  prepare_invalid_localTrust _ _ _ ((loadMatrix_none_iff _ _).mpr (.inr (.inl ⟨_, rfl, rfl⟩)))
example : prepare exK [] { exReq with preTrust := some (.inline ⟨2, [(0, 0)]⟩) } = none :=
  prepare_invalid_preTrust _ _ _ ⟨_, rfl,
    (loadVector_none_iff _).mpr (.inl ⟨_, rfl, .inr ⟨(0, 0), by simp, by norm_num⟩⟩)⟩
example : prepare exK [] { exReq with alpha := some 2 } = none :=
  prepare_invalid_alpha _ _ _ ⟨2, rfl, .inr (by norm_num)⟩
example : prepare exK [] { exReq with epsilon := some 0 } = none :=
  prepare_invalid_epsilon _ _ _ ⟨0, rfl, .inl (by norm_num)⟩
example : handleCompute 10 exK [] { exReq with minIterations := some 0 } = .badRequest ∧
    handleComputeWithStats 10 exK [] { exReq with minIterations := some 0 } = .badRequest :=
  badRequest_of_prepare_none _ _ _ _
    (prepare_invalid_option _ _ _ (.inr (.inr (.inr (.inl ⟨0, rfl, by decide⟩)))))

/-- a stored 2×2 matrix (with a distrust entry) and its GET body -/
private def exM : CSM ℚ := ⟨2, 2, [[⟨1, 3⟩], [⟨0, 1⟩, ⟨1, -2⟩]], []⟩
private theorem exM_inv : MatInv exM := by
  refine ⟨by simp [WFM, WF, Sorted, exM], rfl, by simp [HiddenClean, exM], ?_, by decide, rfl⟩
  intro i e he
  rcases i with _ | _ | i <;> simp [exM] at he
  · subst he; norm_num
  · rcases he with rfl | rfl <;> norm_num

example := stored_eq_inline exM exM_inv.wfm exM_inv.square exM_inv.noZero exM_inv.pos

/-- a request naming the stored matrix, with the pre-trust of the API document (size 3) -/
private def exReqS : ComputeReq ℚ :=
  { localTrust := .stored "m", preTrust := some (.inline exPT) }

example :
    ValidReq { exReqS with localTrust := .inline (renderI exM) } ∧
    docDim { exReqS with localTrust := .inline (renderI exM) } = 3 ∧
    prepare exK [("m", exM)] exReqS =
      prepare exK [("m", exM)] { exReqS with localTrust := .inline (renderI exM) } := by
  obtain ⟨h1, _, _, _, h5, h6, _⟩ :=
    stored_request_reduces 10 exK [("m", exM)] exReqS "m" exM rfl (by simp [Store.get?]) exM_inv
  refine ⟨h5 ⟨exReq_valid.preTrust, trivial, nofun, nofun, nofun, nofun, nofun, nofun, nofun⟩, ?_, h1⟩
  rw [h6]; decide

/-- the worked example is answered 200 by both endpoints, with 3 scores keyed by peer index -/
example : ∃ o, computeCore 100 exK [] exReq = .ok o ∧
    handleCompute 100 exK [] exReq = .ok o.scores ∧
    handleComputeWithStats 100 exK [] exReq = .ok (o.scores, o.stats) ∧
    o.scores.dim = 3 ∧ WF 3 o.scores.entries := by
  obtain ⟨o, ho, h1, h2⟩ := valid_ok 100 exK [] exReq_valid (by norm_num [exK]) (by norm_num [exK])
  have hd : docDim exReq = 3 := by decide
  have := scores_size 100 exK [] exReq_valid o ho
  rw [hd] at this
  exact ⟨o, ho, h1, h2, this⟩

example := endpoints_agree 100 exK [] exReq
example (o : ComputeOut ℚ) (h : computeCore 100 exK [] exReq = .ok o) :=
  compute_scores_def 100 exK [] exReq o h

example (o : ComputeOut ℚ) (h : computeCore 100 exK [] exReq = .ok o) :=
  scores_discounted 100 exK [] exReq_valid o h
example (eff : Effective ℚ) (hp : prepare exK [] exReq = some eff) (res : ComputeResult ℚ)
    (hc : compute 100 eff.c eff.p eff.a eff.e eff.opts = .ok res) :=
  compute_result_wf 100 exK [] exReq_valid hp hc

end examples

end EtVerif.C03
