/-
  TrGo09c — C09, SEQUENCES of calls of the translated Go code (Gen/Translated.lean, regenerated from the
  current source on every run): the algebraic laws that "sparse vector algebra equals dense arithmetic"
  implies, stated about what the Go functions leave in their receivers when one call's output is the next
  call's operand.  Each theorem asserts that every call in the sequence returns `.ok` with a nil error (no
  panic, termination within the stated fuel) for EVERY pair of operands of equal dimension (sorted or not),
  every receiver and every capacity behaviour, and that the final receiver denotes the dense expression.
  Compositions of `TrGo09.go_addVec_den`, `go_subVec_den`, `go_scaleVec_den`; property theorems only.
-/
import EtVerif.Props.TrGo09
import EtVerif.Proofs.TrAddSubLen

namespace EtVerif.TrGo09c
open EtVerif EtVerif.GoSem EtVerif.Gen EtVerif.Tr Scalar EtVerif.TrGo09

set_option linter.unusedSectionVars false

variable {K : Type} [Field K] [LinearOrder K]

/-- `AddVec` commutes: `w.AddVec(v1, v2)` and `w'.AddVec(v2, v1)` both succeed and leave vectors of the same
    dimension denoting the same dense vector. -/
theorem go_addVec_comm (capO capO' : Nat → Int) (fuel : Nat) (w w' : GVector K) (v1 v2 : Vec K)
    (hd : v1.dim = v2.dim) (hf : v1.entries.length + v2.entries.length ≤ fuel) :
    ∃ st st' a b, Vector_AddVec capO fuel w (toGV v1) (toGV v2) = .ok (st, none) ∧ st.v = toGV a ∧
      Vector_AddVec capO' fuel w' (toGV v2) (toGV v1) = .ok (st', none) ∧ st'.v = toGV b ∧
      a.dim = b.dim ∧ ∀ i, denE a.entries i = denE b.entries i := by
  obtain ⟨st, a, hr, hv, hda, ha⟩ := go_addVec_den capO fuel w v1 v2 hd hf
  obtain ⟨st', b, hr', hv', hdb, hb⟩ := go_addVec_den capO' fuel w' v2 v1 hd.symm (by omega)
  refine ⟨st, st', a, b, hr, hv, hr', hv', by omega, fun i => ?_⟩
  rw [ha, hb, add_comm]

/-- `v.SubVec(v1, v1)` denotes the zero vector of `v1`'s dimension. -/
theorem go_subVec_self (capO : Nat → Int) (fuel : Nat) (w : GVector K) (v1 : Vec K)
    (hf : v1.entries.length + v1.entries.length ≤ fuel) :
    ∃ st out, Vector_SubVec capO fuel w (toGV v1) (toGV v1) = .ok (st, none) ∧ st.v = toGV out ∧
      out.dim = v1.dim ∧ ∀ i, denE out.entries i = 0 := by
  obtain ⟨st, out, hr, hv, hdo, ho⟩ := go_subVec_den capO fuel w v1 v1 rfl hf
  exact ⟨st, out, hr, hv, hdo, fun i => by rw [ho, sub_self]⟩

/-- Two calls: `s.AddVec(v1, v2)` and then `d.SubVec(s, v2)` — the second call taking the first call's
    result as its operand — both succeed (given fuel for the second call's operands), and `d` denotes `v1`
    again, cell by cell. -/
theorem go_add_then_sub (capO capO' : Nat → Int) (fuel fuel' : Nat) (w w' : GVector K) (v1 v2 : Vec K)
    (hd : v1.dim = v2.dim) (hf : v1.entries.length + v2.entries.length ≤ fuel) :
    ∃ st s, Vector_AddVec capO fuel w (toGV v1) (toGV v2) = .ok (st, none) ∧ st.v = toGV s ∧
      (s.entries.length + v2.entries.length ≤ fuel' →
        ∃ st' d, Vector_SubVec capO' fuel' w' st.v (toGV v2) = .ok (st', none) ∧ st'.v = toGV d ∧
          d.dim = v1.dim ∧ ∀ i, denE d.entries i = denE v1.entries i) := by
  obtain ⟨st, s, hr, hv, hds, hs⟩ := go_addVec_den capO fuel w v1 v2 hd hf
  refine ⟨st, s, hr, hv, fun hfu => ?_⟩
  obtain ⟨st', d, hr', hv', hdd, hdn⟩ := go_subVec_den capO' fuel' w' s v2 (by omega) hfu
  refine ⟨st', d, by rw [hv]; exact hr', hv', by omega, fun i => ?_⟩
  rw [hdn, hs, add_sub_cancel_right]

/-- Two calls: `s.SubVec(v1, v2)` and then `d.AddVec(s, v2)` give back `v1`, cell by cell. -/
theorem go_sub_then_add (capO capO' : Nat → Int) (fuel fuel' : Nat) (w w' : GVector K) (v1 v2 : Vec K)
    (hd : v1.dim = v2.dim) (hf : v1.entries.length + v2.entries.length ≤ fuel) :
    ∃ st s, Vector_SubVec capO fuel w (toGV v1) (toGV v2) = .ok (st, none) ∧ st.v = toGV s ∧
      (s.entries.length + v2.entries.length ≤ fuel' →
        ∃ st' d, Vector_AddVec capO' fuel' w' st.v (toGV v2) = .ok (st', none) ∧ st'.v = toGV d ∧
          d.dim = v1.dim ∧ ∀ i, denE d.entries i = denE v1.entries i) := by
  obtain ⟨st, s, hr, hv, hds, hs⟩ := go_subVec_den capO fuel w v1 v2 hd hf
  refine ⟨st, s, hr, hv, fun hfu => ?_⟩
  obtain ⟨st', d, hr', hv', hdd, hdn⟩ := go_addVec_den capO' fuel' w' s v2 (by omega) hfu
  refine ⟨st', d, by rw [hv]; exact hr', hv', by omega, fun i => ?_⟩
  rw [hdn, hs, sub_add_cancel]

/-- Two calls: `s.ScaleVec(a, v1)` and then `d.ScaleVec(b, s)` denote the dense multiple `(b·a)·v1` (in
    particular scaling by `a ≠ 0` and then by `a⁻¹` gives `v1` back); `al`, `al'` are the pointer comparisons
    at the two call sites. -/
theorem go_scale_then_scale (w w' : GVector K) (a b : K) (v1 : Vec K) (al al' : Bool)
    (hal : al = true → w = toGV v1) :
    ∃ st s, Gen.Vector_ScaleVec w a (toGV v1) al = .ok (st, ()) ∧ st.v = toGV s ∧
      ((al' = true → w' = st.v) →
        ∃ st' d, Gen.Vector_ScaleVec w' b st.v al' = .ok (st', ()) ∧ st'.v = toGV d ∧
          d.dim = v1.dim ∧ ∀ i, denE d.entries i = (b * a) * denE v1.entries i) := by
  obtain ⟨st, s, hr, hv, hds, hs⟩ := go_scaleVec_den w a v1 al hal
  refine ⟨st, s, hr, hv, fun hal' => ?_⟩
  obtain ⟨st', d, hr', hv', hdd, hdn⟩ := go_scaleVec_den w' b s al' (fun h => by rw [hal' h, hv])
  refine ⟨st', d, by rw [hv]; exact hr', hv', by omega, fun i => ?_⟩
  rw [hdn, hs, mul_assoc]

/-- Scaling distributes over addition across three calls: with `s = AddVec(v1, v2)`, `p = ScaleVec(a, s)`,
    the result `p` denotes `a·v1_i + a·v2_i`. -/
theorem go_scale_of_add (capO : Nat → Int) (fuel : Nat) (w w' : GVector K) (a : K) (v1 v2 : Vec K)
    (hd : v1.dim = v2.dim) (hf : v1.entries.length + v2.entries.length ≤ fuel) :
    ∃ st s st' p, Vector_AddVec capO fuel w (toGV v1) (toGV v2) = .ok (st, none) ∧ st.v = toGV s ∧
      Gen.Vector_ScaleVec w' a st.v false = .ok (st', ()) ∧ st'.v = toGV p ∧ p.dim = v1.dim ∧
      ∀ i, denE p.entries i = a * denE v1.entries i + a * denE v2.entries i := by
  obtain ⟨st, s, hr, hv, hds, hs⟩ := go_addVec_den capO fuel w v1 v2 hd hf
  obtain ⟨st', p, hr', hv', hdp, hp⟩ := go_scaleVec_den w' a s false (fun h => by cases h)
  refine ⟨st, s, st', p, hr, hv, by rw [hv]; exact hr', hv', by omega, fun i => ?_⟩
  rw [hp, hs, mul_add]

/-- `go_add_then_sub` with the fuel of the SECOND call bounded from the original operands alone: the merge
    behind `AddVec` stores at most `|v1| + |v2|` entries, so `|v1| + 2·|v2|` steps suffice for
    `d.SubVec(s, v2)`; the whole two-call sequence succeeds and `d` denotes `v1`. -/
theorem go_add_then_sub_fuel (capO capO' : Nat → Int) (fuel fuel' : Nat) (w w' : GVector K) (v1 v2 : Vec K)
    (hd : v1.dim = v2.dim) (hf : v1.entries.length + v2.entries.length ≤ fuel)
    (hf' : v1.entries.length + 2 * v2.entries.length ≤ fuel') :
    ∃ st st' d, Vector_AddVec capO fuel w (toGV v1) (toGV v2) = .ok (st, none) ∧
      Vector_SubVec capO' fuel' w' st.v (toGV v2) = .ok (st', none) ∧ st'.v = toGV d ∧
      d.dim = v1.dim ∧ ∀ i, denE d.entries i = denE v1.entries i := by
  obtain ⟨st, hr, hv⟩ := go_addVec_ok capO fuel w v1 v2 hd hf
  have hlen := Tr.Len.addEntries_length_le v1.entries v2.entries
  have hs : ∀ i, denE (addEntries v1.entries v2.entries) i = denE v1.entries i + denE v2.entries i :=
    fun i => C09.den_add v1 v2 _ (C09.add_ok v1 v2 hd) i
  obtain ⟨st', d, hr', hv', hdd, hdn⟩ :=
    go_subVec_den capO' fuel' w' ⟨v1.dim, addEntries v1.entries v2.entries⟩ v2 hd (by simp only; omega)
  refine ⟨st, st', d, hr, by rw [hv]; exact hr', hv', hdd, fun i => ?_⟩
  rw [hdn]; simp only; rw [hs, add_sub_cancel_right]

/-- `go_sub_then_add` with the second call's fuel bounded from the original operands (`|v1| + 2·|v2|`). -/
theorem go_sub_then_add_fuel (capO capO' : Nat → Int) (fuel fuel' : Nat) (w w' : GVector K) (v1 v2 : Vec K)
    (hd : v1.dim = v2.dim) (hf : v1.entries.length + v2.entries.length ≤ fuel)
    (hf' : v1.entries.length + 2 * v2.entries.length ≤ fuel') :
    ∃ st st' d, Vector_SubVec capO fuel w (toGV v1) (toGV v2) = .ok (st, none) ∧
      Vector_AddVec capO' fuel' w' st.v (toGV v2) = .ok (st', none) ∧ st'.v = toGV d ∧
      d.dim = v1.dim ∧ ∀ i, denE d.entries i = denE v1.entries i := by
  obtain ⟨st, hr, hv⟩ := go_subVec_ok capO fuel w v1 v2 hd hf
  have hlen := Tr.Len.subEntries_length_le v1.entries v2.entries
  have hs : ∀ i, denE (subEntries v1.entries v2.entries) i = denE v1.entries i - denE v2.entries i :=
    fun i => C09.den_sub v1 v2 _ (C09.sub_ok v1 v2 hd) i
  obtain ⟨st', d, hr', hv', hdd, hdn⟩ :=
    go_addVec_den capO' fuel' w' ⟨v1.dim, subEntries v1.entries v2.entries⟩ v2 hd (by simp only; omega)
  refine ⟨st, st', d, hr, by rw [hv]; exact hr', hv', hdd, fun i => ?_⟩
  rw [hdn]; simp only; rw [hs, sub_add_cancel]

/-! ## `Vector.Sum` is linear over the results of `AddVec` / `ScaleVec` (three functions in sequence) -/

/-- `s.AddVec(v1, v2)` and then `s.Sum()`: on well-formed operands of equal dimension the sum the Go code returns
    for the result equals the sum of the two sums it returns for the operands (exact in a field). -/
theorem go_sum_of_add (capO : Nat → Int) (fuel : Nat) (w : GVector K) (v1 v2 : Vec K)
    (h1 : WF v1.dim v1.entries) (h2 : WF v2.dim v2.entries)
    (hd : v1.dim = v2.dim) (hf : v1.entries.length + v2.entries.length ≤ fuel) :
    ∃ st sa sb sc x y z, Vector_AddVec capO fuel w (toGV v1) (toGV v2) = .ok (st, none) ∧
      Vector_Sum st.v = .ok (sa, x) ∧ Vector_Sum (toGV v1) = .ok (sb, y) ∧
      Vector_Sum (toGV v2) = .ok (sc, z) ∧ x = y + z := by
  obtain ⟨st, out, hr, hv, hdo, hwf, hden⟩ := go_addVec_wf capO fuel w v1 v2 h1 h2 hd hf
  obtain ⟨sa, ha⟩ := go_vector_sum_eq out hwf
  obtain ⟨sb, hb⟩ := go_vector_sum_eq v1 h1
  obtain ⟨sc, hc⟩ := go_vector_sum_eq v2 h2
  refine ⟨st, sa, sb, sc, _, _, _, hr, by rw [hv]; exact ha, hb, hc, ?_⟩
  rw [hdo, ← hd, ← Finset.sum_add_distrib]
  exact Finset.sum_congr rfl (fun i _ => hden i)

/-- `s.ScaleVec(a, v1)` and then `s.Sum()`: the sum of the scaled vector is `a` times the sum of the operand,
    for every factor (zero included) and every well-formed operand. -/
theorem go_sum_of_scale (w : GVector K) (a : K) (v1 : Vec K) (al : Bool) (hal : al = true → w = toGV v1)
    (h : WF v1.dim v1.entries) :
    ∃ st sa sb x y, Gen.Vector_ScaleVec w a (toGV v1) al = .ok (st, ()) ∧
      Vector_Sum st.v = .ok (sa, x) ∧ Vector_Sum (toGV v1) = .ok (sb, y) ∧ x = a * y := by
  obtain ⟨st, out, hr, hv, hdo, hwf, hden⟩ := go_scaleVec_wf w a v1 al hal h
  obtain ⟨sa, ha⟩ := go_vector_sum_eq out hwf
  obtain ⟨sb, hb⟩ := go_vector_sum_eq v1 h
  refine ⟨st, sa, sb, _, _, hr, by rw [hv]; exact ha, hb, ?_⟩
  rw [hdo, Finset.mul_sum]
  exact Finset.sum_congr rfl (fun i _ => hden i)

/-- Non-vacuity: operands of equal dimension with enough fuel exist (unsorted on purpose). -/
example : (⟨4, [⟨2, 1⟩, ⟨0, 3⟩]⟩ : Vec ℚ).dim = (⟨4, [⟨1, 5⟩]⟩ : Vec ℚ).dim ∧
    ([⟨2, 1⟩, ⟨0, 3⟩] : List (Entry ℚ)).length + ([⟨1, 5⟩] : List (Entry ℚ)).length ≤ 3 := by
  constructor <;> decide

end EtVerif.TrGo09c
