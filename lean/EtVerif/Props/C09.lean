/-
  C09 — Sparse vector algebra equals dense arithmetic.
  Property theorems only (helper lemmas live in Proofs/).

  `denE es i` is the dense value of the entry list `es` at index `i`, `denM rows i j` the dense
  value of a row table at `(i, j)`; `Sorted es` = strictly increasing indices,
  `WF dim es` = `Sorted es` and all indices `< dim`.
-/
import EtVerif.Proofs.Vec
import EtVerif.Proofs.VecDot
import Mathlib.Algebra.Order.Field.Rat
import Mathlib.Tactic.NormNum

namespace EtVerif.C09
open EtVerif

variable {K : Type} [Field K] [LinearOrder K]

/-! ## 1. sum and difference -/

/-- `AddVec`: the result denotes the dense sum. -/
theorem den_add (v1 v2 r : Vec K) (h : v1.addVec v2 = .ok r) (i : Nat) :
    denE r.entries i = denE v1.entries i + denE v2.entries i := by
  unfold Vec.addVec at h
  split at h
  · cases h
  · cases h; exact den_addEntries _ _ _

/-- `SubVec`: the result denotes the dense difference. -/
theorem den_sub (v1 v2 r : Vec K) (h : v1.subVec v2 = .ok r) (i : Nat) :
    denE r.entries i = denE v1.entries i - denE v2.entries i := by
  unfold Vec.subVec at h
  split at h
  · cases h
  · cases h; exact den_subEntries _ _ _

/-! ## 2. scaling -/

/-- `ScaleVec`: the result denotes the dense scaled vector, for every factor (including `0`,
    where the entries are cleared, and `1`, where they are kept) and every vector. -/
theorem den_scale (a : K) (v : Vec K) (i : Nat) :
    denE (Vec.scale a v).entries i = a * denE v.entries i := by
  unfold Vec.scale
  by_cases h0 : a = 0
  · simp [h0]
  · simp only [s_isZero, h0, decide_false, Bool.false_eq_true, if_false]
    exact den_scaleEntries a v.entries i

/-- `ScaleVec` keeps the dimension. -/
theorem dim_scale (a : K) (v : Vec K) : (Vec.scale a v).dim = v.dim := by
  unfold Vec.scale; split <;> rfl

/-! ## 3. element sum and Euclidean norm -/

/-- The Kahan–Babuška–Neumaier summer returns the plain sum in exact arithmetic
    (its compensation term is identically `0`). -/
theorem kbn_exact (xs : List K) : kbnSum xs = xs.sum := kbnSum_eq_sum xs

/-- `Vector.Sum` is the sum of the dense vector. -/
theorem sum_eq (v : Vec K) (h : WF v.dim v.entries) :
    Vec.sum v = ∑ i ∈ Finset.range v.dim, denE v.entries i := by
  unfold Vec.sum
  rw [kbnSum_eq_sum, sum_denE h.2]

/-- `Vector.Norm2` (before the square root) is the sum of squares of the dense vector. -/
theorem norm2_sq (v : Vec K) (h : WF v.dim v.entries) :
    Vec.sumSq v = ∑ i ∈ Finset.range v.dim, (denE v.entries i) ^ 2 := by
  unfold Vec.sumSq
  rw [kbnSum_eq_sum, sum_denE_sq h]
  rfl

/-! ## 4. dot product -/

/-- `VecDot` is the dense inner product. -/
theorem vecDot_eq_sum {dim : Nat} {e1 e2 : List (Entry K)} (h1 : WF dim e1) (h2 : WF dim e2) :
    vecDot e1 e2 = ∑ i ∈ Finset.range dim, denE e1 i * denE e2 i :=
  vecDot_eq_finset_sum h1 h2.1

/-- `VecDot` is symmetric. -/
theorem vecDot_comm {dim : Nat} {e1 e2 : List (Entry K)} (h1 : WF dim e1) (h2 : WF dim e2) :
    vecDot e1 e2 = vecDot e2 e1 := by
  rw [vecDot_eq_sum h1 h2, vecDot_eq_sum h2 h1]
  exact Finset.sum_congr rfl (fun i _ => mul_comm _ _)

/-! ## 5. matrix-vector product -/

/-- `MulVec`: the result has the matrix dimension and denotes the dense matrix-vector product
    (for every index `i`; beyond the dimension both sides are `0`). -/
theorem den_mulVec (m : CSM K) (v r : Vec K)
    (hrows : ∀ row ∈ m.rows, WF m.minor row) (hv : WF v.dim v.entries)
    (h : mulVec m v = .ok r) :
    r.dim = m.major ∧
    ∀ i, denE r.entries i = ∑ j ∈ Finset.range m.minor, denM m.rows i j * denE v.entries j := by
  obtain ⟨hsq, hd, rfl⟩ := mulVec_ok_inv h
  refine ⟨rfl, fun i => ?_⟩
  have hv' : WF m.minor v.entries := by rw [← hsq, hd]; exact hv
  simp only
  rw [den_mulVecEntries, vecDot_eq_finset_sum (wf_getD hrows i) hv'.1]
  rfl

/-- `MulVec`: the result is well-formed for the matrix dimension (strictly increasing indices,
    all `< m.major`) and stores no explicit zero. -/
theorem wf_mulVec (m : CSM K) (v r : Vec K) (hlen : m.rows.length = m.major)
    (h : mulVec m v = .ok r) :
    r.dim = m.major ∧ WF r.dim r.entries ∧ ∀ e ∈ r.entries, e.val ≠ 0 := by
  obtain ⟨hsq, hd, rfl⟩ := mulVec_ok_inv h
  refine ⟨rfl, ?_, fun e he => (mem_mulVecEntries he).2.2⟩
  simp only
  rw [← hlen]; exact wf_mulVecEntries _ _

/-- The product loop itself: strictly increasing indices below the number of rows. -/
theorem wf_mulVecEntries (rows : List (Row K)) (v : List (Entry K)) :
    WF rows.length (mulVecEntries rows v) := EtVerif.wf_mulVecEntries rows v

/-- The product loop stores exactly the non-zero row products (row `i` ↦ `VecDot(row i, v)`):
    nothing else is stored, no explicit zero is stored, no non-zero product is dropped. -/
theorem mulVecEntries_mem_iff (rows : List (Row K)) (v : List (Entry K)) (x : Entry K) :
    x ∈ mulVecEntries rows v ↔
      x.idx < rows.length ∧ x.val = vecDot (rows.getD x.idx []) v ∧ x.val ≠ 0 :=
  mem_mulVecEntries_iff

/-- corollary: every stored value of the product is non-zero -/
theorem mulVecEntries_nonzero (rows : List (Row K)) (v : List (Entry K)) :
    ∀ e ∈ mulVecEntries rows v, e.val ≠ 0 :=
  fun _ he => (mem_mulVecEntries he).2.2

/-! ## 6. well-formedness is preserved -/

theorem wf_add {dim : Nat} {e1 e2 : List (Entry K)} (h1 : WF dim e1) (h2 : WF dim e2) :
    WF dim (addEntries e1 e2) := wf_addEntries h1 h2

theorem wf_sub {dim : Nat} {e1 e2 : List (Entry K)} (h1 : WF dim e1) (h2 : WF dim e2) :
    WF dim (subEntries e1 e2) := wf_subEntries h1 h2

/-- `AddVec` on well-formed vectors yields a well-formed vector of the same dimension. -/
theorem wf_addVec (v1 v2 r : Vec K) (h1 : WF v1.dim v1.entries) (h2 : WF v2.dim v2.entries)
    (h : v1.addVec v2 = .ok r) : r.dim = v1.dim ∧ WF r.dim r.entries := by
  unfold Vec.addVec at h
  split at h
  · cases h
  · rename_i hd
    have hd : v1.dim = v2.dim := by simpa using hd
    cases h
    exact ⟨rfl, wf_addEntries h1 (hd ▸ h2)⟩

/-- `SubVec` on well-formed vectors yields a well-formed vector of the same dimension. -/
theorem wf_subVec (v1 v2 r : Vec K) (h1 : WF v1.dim v1.entries) (h2 : WF v2.dim v2.entries)
    (h : v1.subVec v2 = .ok r) : r.dim = v1.dim ∧ WF r.dim r.entries := by
  unfold Vec.subVec at h
  split at h
  · cases h
  · rename_i hd
    have hd : v1.dim = v2.dim := by simpa using hd
    cases h
    exact ⟨rfl, wf_subEntries h1 (hd ▸ h2)⟩

/-- `ScaleVec` keeps well-formedness (any factor). -/
theorem wf_scale (a : K) (v : Vec K) (h : WF v.dim v.entries) :
    WF (Vec.scale a v).dim (Vec.scale a v).entries := by
  unfold Vec.scale
  split
  · exact WF.nil _
  · exact wf_scaleEntries a h

/-- `scaleInPlace` with a factor `≠ 1` stores no explicit zero … -/
theorem scaleEntries_nonzero {a : K} (ha : a ≠ 1) (es : List (Entry K)) :
    ∀ e ∈ scaleEntries a es, e.val ≠ 0 := by
  intro e he
  obtain ⟨x, _, hz, rfl⟩ := (mem_scaleEntries ha).mp he
  exact hz

/-- … and with factor `1` returns its input unchanged (stored zeros, if any, stay). -/
theorem scaleEntries_one (es : List (Entry K)) : scaleEntries (1 : K) es = es :=
  EtVerif.scaleEntries_one es

/-- `ScaleVec`: if the input stores no explicit zero, neither does the result (any factor);
    for a factor `≠ 1` the result never stores an explicit zero. -/
theorem scale_nonzero (a : K) (v : Vec K) (h : a ≠ 1 ∨ ∀ e ∈ v.entries, e.val ≠ 0) :
    ∀ e ∈ (Vec.scale a v).entries, e.val ≠ 0 := by
  unfold Vec.scale
  split
  · intro e he; cases he
  · by_cases ha : a = 1
    · subst ha
      rcases h with h | h
      · exact absurd rfl h
      · simpa [EtVerif.scaleEntries_one] using h
    · exact scaleEntries_nonzero ha _

/-! ## 7. dimension mismatches are errors -/

section errors
variable {α : Type} [Scalar α]

/-- (any scalar type, in particular `Float`) -/
theorem dim_mismatch_add (v1 v2 : Vec α) (h : v1.dim ≠ v2.dim) :
    v1.addVec v2 = .error .dimMismatch := by
  simp [Vec.addVec, h]

theorem add_ok (v1 v2 : Vec α) (h : v1.dim = v2.dim) :
    v1.addVec v2 = .ok ⟨v1.dim, addEntries v1.entries v2.entries⟩ := by
  simp [Vec.addVec, h]

theorem dim_mismatch_sub (v1 v2 : Vec α) (h : v1.dim ≠ v2.dim) :
    v1.subVec v2 = .error .dimMismatch := by
  simp [Vec.subVec, h]

theorem sub_ok (v1 v2 : Vec α) (h : v1.dim = v2.dim) :
    v1.subVec v2 = .ok ⟨v1.dim, subEntries v1.entries v2.entries⟩ := by
  simp [Vec.subVec, h]

/-- A non-square matrix or a vector of another dimension is an error (never a result). -/
theorem dim_mismatch_mulVec (m : CSM α) (v : Vec α) (h : m.major ≠ m.minor ∨ m.major ≠ v.dim) :
    mulVec m v = .error .dimMismatch := by
  unfold mulVec CSM.dim
  by_cases hsq : m.major = m.minor
  · rcases h with h | h
    · exact absurd hsq h
    · simp [hsq]
      intro hc; exact absurd (hsq.trans hc) h
  · simp [hsq]

theorem mulVec_ok (m : CSM α) (v : Vec α) (h1 : m.major = m.minor) (h2 : m.major = v.dim) :
    mulVec m v = .ok ⟨m.major, mulVecEntries m.rows v.entries⟩ := by
  unfold mulVec CSM.dim
  have : m.minor = v.dim := h1 ▸ h2
  simp [h1, this]

/-! ## 8. every output value is ONE scalar operation on input values (any scalar type) -/

/-- Each entry produced by `AddVec` is an input entry or a single `add` of the two input
    values at the same index — one rounding at `Float`. -/
theorem add_entrywise (e1 e2 : List (Entry α)) (x : Entry α) (hx : x ∈ addEntries e1 e2) :
    x ∈ e1 ∨ x ∈ e2 ∨
      ∃ a ∈ e1, ∃ b ∈ e2, a.idx = b.idx ∧ x = ⟨a.idx, Scalar.add a.val b.val⟩ :=
  mem_addEntries hx

/-- Each entry produced by `SubVec` is an entry of the minuend, a single `neg` of an entry of
    the subtrahend, or a single `sub` of the two input values at the same index. -/
theorem sub_entrywise (e1 e2 : List (Entry α)) (x : Entry α) (hx : x ∈ subEntries e1 e2) :
    x ∈ e1 ∨ (∃ b ∈ e2, x = ⟨b.idx, Scalar.neg b.val⟩) ∨
      ∃ a ∈ e1, ∃ b ∈ e2, a.idx = b.idx ∧ x = ⟨a.idx, Scalar.sub a.val b.val⟩ :=
  mem_subEntries hx

end errors

/-! ## non-vacuity: concrete inputs over ℚ satisfying the hypotheses -/

section examples
-- at `ℚ` both `ratScalar` (driver) and `fieldScalar` (proofs) apply; the theorems speak about
-- `fieldScalar`, so select it here.
attribute [local instance 10000] fieldScalar

/-- `u = (1, 0, 2, 0)`, `w = (0, 3, -2, 0)` as sparse vectors of dimension 4 -/
private def u : Vec ℚ := ⟨4, [⟨0, 1⟩, ⟨2, 2⟩]⟩
private def w : Vec ℚ := ⟨4, [⟨1, 3⟩, ⟨2, -2⟩]⟩
/-- the 2×2 matrix `[[1, 2], [0, 3]]` and the vector `(1, 1)` -/
private def mm : CSM ℚ := ⟨2, 2, [[⟨0, 1⟩, ⟨1, 2⟩], [⟨1, 3⟩]], []⟩
private def x2 : Vec ℚ := ⟨2, [⟨0, 1⟩, ⟨1, 1⟩]⟩

private theorem wf_u : WF u.dim u.entries := by simp [WF, Sorted, u]
private theorem wf_w : WF w.dim w.entries := by simp [WF, Sorted, w]
private theorem wf_x2 : WF x2.dim x2.entries := by simp [WF, Sorted, x2]
private theorem wf_mm : ∀ row ∈ mm.rows, WF mm.minor row := by simp [WF, Sorted, mm]

example : ∃ r, u.addVec w = .ok r ∧ ∀ i, denE r.entries i = denE u.entries i + denE w.entries i :=
  ⟨_, add_ok u w rfl, den_add u w _ (add_ok u w rfl)⟩
example : ∃ r, u.subVec w = .ok r ∧ ∀ i, denE r.entries i = denE u.entries i - denE w.entries i :=
  ⟨_, sub_ok u w rfl, den_sub u w _ (sub_ok u w rfl)⟩
example : denE (Vec.scale 3 u).entries 2 = 3 * denE u.entries 2 := den_scale 3 u 2
example : denE (Vec.scale 0 u).entries 2 = 0 * denE u.entries 2 := den_scale 0 u 2
example : denE (Vec.scale 1 u).entries 2 = 1 * denE u.entries 2 := den_scale 1 u 2
example : Vec.sum u = ∑ i ∈ Finset.range 4, denE u.entries i := sum_eq u wf_u
example : Vec.sumSq u = ∑ i ∈ Finset.range 4, (denE u.entries i) ^ 2 := norm2_sq u wf_u
example : vecDot u.entries w.entries = ∑ i ∈ Finset.range 4, denE u.entries i * denE w.entries i :=
  vecDot_eq_sum wf_u wf_w
example : vecDot u.entries w.entries = vecDot w.entries u.entries := vecDot_comm wf_u wf_w
/-- the dot product of the example is `-4`, not a degenerate `0 = 0` -/
example : ∑ i ∈ Finset.range 4, denE u.entries i * denE w.entries i = -4 := by
  simp [Finset.sum_range_succ, u, w]; norm_num
example : ∃ r, mulVec mm x2 = .ok r ∧ r.dim = 2 ∧
    ∀ i, denE r.entries i = ∑ j ∈ Finset.range 2, denM mm.rows i j * denE x2.entries j :=
  ⟨_, mulVec_ok mm x2 rfl rfl, den_mulVec mm x2 _ wf_mm wf_x2 (mulVec_ok mm x2 rfl rfl)⟩
example : ∃ r, mulVec mm x2 = .ok r ∧ r.dim = 2 ∧ WF r.dim r.entries ∧ ∀ e ∈ r.entries, e.val ≠ 0 :=
  ⟨_, mulVec_ok mm x2 rfl rfl, wf_mulVec mm x2 _ rfl (mulVec_ok mm x2 rfl rfl)⟩
example : WF 4 (addEntries u.entries w.entries) := wf_add wf_u wf_w
example : WF 4 (subEntries u.entries w.entries) := wf_sub wf_u wf_w
example : WF 4 (Vec.scale 3 u).entries := wf_scale 3 u wf_u
example : ∀ e ∈ scaleEntries (3 : ℚ) u.entries, e.val ≠ 0 := scaleEntries_nonzero (by norm_num) _
example : u.addVec x2 = .error .dimMismatch := dim_mismatch_add u x2 (by decide)
example : u.subVec x2 = .error .dimMismatch := dim_mismatch_sub u x2 (by decide)
example : mulVec mm u = .error .dimMismatch := dim_mismatch_mulVec mm u (Or.inr (by decide))

end examples

end EtVerif.C09
