/-
  C09 — Sparse vector algebra equals dense arithmetic.
  Property theorems only (helper lemmas live in Proofs/).
-/
import EtVerif.Proofs.Vec

namespace EtVerif.C09
open EtVerif

variable {K : Type} [Field K] [LinearOrder K]

/-- `AddVec`: the result denotes the dense sum. -/
theorem den_add (v1 v2 r : Vec K) (h : v1.addVec v2 = .ok r) (i : Nat) :
    denE r.entries i = denE v1.entries i + denE v2.entries i := by
  unfold Vec.addVec at h
  split at h
  · cases h
  · cases h; exact den_addEntries _ _ _

/-- `SubVec`: the result denotes the dense difference. -/
theorem den_sub (v1 v2 r : Vec K) (h : v1.subVec v2 = .ok r) (i : Nat) :
    denE r.entries i = denE v1.entries i - denE v2.entries i := by
  unfold Vec.subVec at h
  split at h
  · cases h
  · cases h; exact den_subEntries _ _ _

end EtVerif.C09
