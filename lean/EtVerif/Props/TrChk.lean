/-
  TrChk — the CURRENT SOURCE of the convergence checker (`NewConvergenceChecker`, `ConvergenceChecker.Update`,
  `Converged`, `Delta` of pkg/basic/eigentrust.go) and of `Vector.Norm2` (pkg/sparse/vector.go), translated by
  tools/go2lean on every run into the `_src` functions of Gen/Translated.lean with `math.Sqrt`, `math.IsNaN`,
  `math.IsInf` as uninterpreted parameters `sqrtO`, `nanO`, `infO`, SIMULATES the checker that the translated
  `basic.Compute` calls (the extern of tools/go2lean/externs.lean, which carries the squared delta because `Scalar`
  has no square root).  Together with Props/TrC01 (Compute refines the model given that extern) this closes the
  gap "the extern was written by hand": the only assumptions left about the checker are the two oracle
  hypotheses spelled out in the statements —
     (nanO (sqrtO x) || infO (sqrtO x)) = nonFinite x        (the Go finiteness test sees what the model sees)
     le (sqrtO x) e = sqrtLe x e                              (comparing the root = the model's comparison)
  each asked AT THE ONE VALUE MET, the model's squared delta `x` (a compensated sum of squares; quantified over
  every scalar the first one is false of the real float functions — `math.Sqrt(-1)` is NaN although `-1` is finite —
  see `EtVerif.Tr.OracleOK` in Proofs/TrChecker.lean).  They are facts about IEEE sqrt, checked at the bit tier by
  the correspondence runs.  Property theorems only.
-/
import EtVerif.Proofs.TrChecker

namespace EtVerif.TrChk
open EtVerif EtVerif.GoSem EtVerif.Gen EtVerif.Tr Scalar

variable {α : Type} [Scalar α]

set_option linter.unusedSectionVars false

/-- Go `Vector.Norm2` = square root of the model's compensated sum of squares. -/
theorem norm2_refines (sqrtO : α → α) (v : Vec α) :
    (Gen.Vector_Norm2_src sqrtO (toGV v)).map (fun r => r.2) = .ok (sqrtO v.sumSq) :=
  Vector_Norm2_src_refines sqrtO v

/-- `NewConvergenceChecker`: previous vector = t0, epsilon = e, iteration counter 0, sentinel delta 2·e. -/
theorem newChecker_refines (t0 : Vec α) (e : α) :
    (Gen.NewConvergenceChecker_src (toGV t0) e).map (fun r => r.2) =
      .ok { iter := 0, t := toGV t0, d := Scalar.mul (Scalar.ofNat 2) e, e := e } :=
  NewConvergenceChecker_src_refines t0 e

/-- the source constructor and the extern constructor start related. -/
theorem newChecker_related (sqrtO : α → α) (t0 : Vec α) (e : α) :
    ∃ st g stm m, Gen.NewConvergenceChecker_src (toGV t0) e = .ok (st, g) ∧
      Gen.NewConvergenceChecker (toGV t0) e = .ok (stm, m) ∧ CCRel sqrtO g m t0.dim :=
  NewConvergenceChecker_src_rel sqrtO t0 e

/-- One `Update` of the source checker does what the extern does (`hnf`: the oracle fact at the model's new squared
    delta, the one value met): same error decision; on success the relation is
    re-established, the iteration counter advances and the stored delta is the root of the model's squared delta;
    on a non-finite delta both leave their checker unchanged. -/
theorem update_simulates (capO : Nat → Int) (fuel : Nat) (sqrtO : α → α) (nanO infO : α → Bool)
    (g : GConvergenceCheckerSrc α) (m : GConvergenceChecker α) (n : Nat) (t : Vec α)
    (hnf : (nanO (sqrtO (m.c.update t.entries).dsq) || infO (sqrtO (m.c.update t.entries).dsq)) =
      nonFinite (m.c.update t.entries).dsq)
    (hrel : CCRel sqrtO g m n) (hdim : t.dim = n) (hf : t.entries.length + m.c.t.length ≤ fuel) :
    ∃ st g' stm m' err,
      Gen.ConvergenceChecker_Update_src capO fuel sqrtO nanO infO g (toGV t) = .ok (st, err) ∧ st.c = g' ∧
      Gen.ConvergenceChecker_Update m (toGV t) = .ok (stm, err) ∧ stm.c = m' ∧
      CCRel sqrtO g' m' n ∧
      (err = none → g'.d = sqrtO m'.c.dsq ∧ g'.iter = g.iter + 1) ∧
      (err ≠ none → g' = g ∧ m' = m) :=
  ConvergenceChecker_Update_src_simulates capO fuel sqrtO nanO infO g m n t hnf hrel hdim hf

/-- `Converged`: the two verdicts coincide (`hsq`: the oracle fact at the squared delta and epsilon held). -/
theorem converged_agrees (sqrtO : α → α) (g : GConvergenceCheckerSrc α) (m : GConvergenceChecker α)
    (he : g.e = m.e) (hd : g.d = sqrtO m.c.dsq)
    (hsq : Scalar.le (sqrtO m.c.dsq) m.e = Scalar.sqrtLe m.c.dsq m.e) :
    (Gen.ConvergenceChecker_Converged_src g).map (fun r => r.2) =
      (Gen.ConvergenceChecker_Converged m).map (fun r => r.2) :=
  ConvergenceChecker_Converged_src_agrees sqrtO g m he hd hsq

/-- `Delta`: the source returns the norm, the extern its square. -/
theorem delta_agrees (sqrtO : α → α) (g : GConvergenceCheckerSrc α) (m : GConvergenceChecker α)
    (hd : g.d = sqrtO m.c.dsq) :
    (Gen.ConvergenceChecker_Delta_src g).map (fun r => r.2) = .ok (sqrtO m.c.dsq) ∧
    (Gen.ConvergenceChecker_Delta m).map (fun r => r.2) = .ok m.c.dsq :=
  ConvergenceChecker_Delta_src_agrees sqrtO g m hd

end EtVerif.TrChk
