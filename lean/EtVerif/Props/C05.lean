/-
  C05 — Iteration control (control part): `Compute` performs exactly the documented number of
  iterations, returns that iterate, and rejects invalid parameters before any iteration.

  Everything is stated for an arbitrary `Scalar α`: the verdicts of the checks are whatever
  `Scalar.sqrtLe` / `nonFinite` return on the model's own deltas (`dsqAt`).

  Vocabulary (Proofs/Loop.lean):
  * `iterate ct ap q k t0`        = `(stepEntries ct ap q)^[k] t0`;
  * `initState t0`                = the state `compute` starts the loop in;
  * `maxHit maxI k`               = the loop guard `iter < maxIters` fails at `k` (`none` = unlimited);
  * `dsqAt … t0 k`                = squared delta between iterate `k` and the iterate of the previous
                                    scheduled check (`lastChk`; the initial vector for the first check);
  * `nonFiniteAt`, `convergedAt`, `flatAt`, `stopAt` = verdicts of a check at iteration `k`;
  * `validate`, `ValidInput`, `loopOf` = the validation prefix of `compute` and the loop it runs.
-/
import EtVerif.Props.C05a
import EtVerif.Proofs.Loop

namespace EtVerif.C05
open EtVerif Scalar

variable {α : Type} [Scalar α]

section loop
variable (ct : List (Row α)) (ap : List (Entry α)) (q e : α) (minI freq : Nat)
  (maxI : Option Nat) (flatTail nl : Nat)

/-! ### 1. the returned vector is the pure iterate -/

/-- Whatever the loop returns from any start state `s0`, the returned vector is the start vector
    advanced by exactly `s.iter - s0.iter` power-iteration steps. -/
theorem loop_returns_iterate (fuel : Nat) (s0 s : LoopState α) (by_ : EndedBy)
    (h : computeLoop ct ap q e minI freq maxI flatTail nl fuel s0 = (s, by_)) :
    s0.iter ≤ s.iter ∧ s.t1 = (stepEntries ct ap q)^[s.iter - s0.iter] s0.t1 := by
  obtain ⟨h1, _, h3⟩ :=
    computeLoop_returns_iterate ct ap q e minI freq maxI flatTail nl fuel s0 s by_ h
  exact ⟨h1, h3⟩

/-- From the initial state: the result is `iterate … s.iter t0`. -/
theorem loop_returns_iterate_init (fuel : Nat) (t0 : List (Entry α)) (s : LoopState α)
    (by_ : EndedBy)
    (h : computeLoop ct ap q e minI freq maxI flatTail nl fuel (initState t0) = (s, by_)) :
    s.t1 = iterate ct ap q s.iter t0 :=
  (loop_spec ct ap q e minI freq maxI flatTail nl fuel t0 s by_ h).2.2.1

/-! ### 2. the iteration count -/

/-- Characterisation of the returned iteration count and of the checks performed. -/
theorem stopIter_spec (fuel : Nat) (t0 : List (Entry α)) (s : LoopState α) (by_ : EndedBy)
    (h : computeLoop ct ap q e minI freq maxI flatTail nl fuel (initState t0) = (s, by_)) :
    -- never more than maxIterations (nor than the fuel)
    (∀ m, maxI = some m → s.iter ≤ m) ∧ s.iter ≤ fuel ∧
    -- no scheduled check before the returned iteration ended the loop
    (∀ k, k < s.iter → stopAt ct ap q e minI freq flatTail nl t0 k = false) ∧
    -- the checks performed (newest first) are exactly the scheduled ones:
    -- all `k ≤ s.iter` when a check ended the loop, all `k < s.iter` otherwise
    s.checks = ((List.range (if by_ = .criteria ∨ by_ = .nonFinite then s.iter + 1 else s.iter)).filter
      (isCheck minI freq)).reverse ∧
    -- ended by the iteration limit: exactly `m` iterations
    (by_ = .maxIterations → maxI = some s.iter) ∧
    -- ended by the criteria: at a scheduled check strictly before the limit, finite delta,
    -- converged and flat tail reached
    (by_ = .criteria →
      isCheck minI freq s.iter = true ∧ s.iter ∈ s.checks ∧ (∀ m, maxI = some m → s.iter < m) ∧
      nonFiniteAt ct ap q minI freq t0 s.iter = false ∧
      convergedAt ct ap q e minI freq t0 s.iter = true ∧
      flatAt ct ap q minI freq flatTail nl t0 s.iter = true) ∧
    -- ended by a non-finite delta (an error of `compute`)
    (by_ = .nonFinite →
      isCheck minI freq s.iter = true ∧ s.iter ∈ s.checks ∧ (∀ m, maxI = some m → s.iter < m) ∧
      nonFiniteAt ct ap q minI freq t0 s.iter = true) ∧
    -- fuel exhausted
    (by_ = .outOfFuel → s.iter = fuel) := by
  obtain ⟨hfuel, hbef, _, _, hof, hmx, hnf, hcr⟩ :=
    loop_spec ct ap q e minI freq maxI flatTail nl fuel t0 s by_ h
  have hmaxF : ∀ k < s.iter, maxHit maxI k = false := fun k hk => (hbef k hk).1
  refine ⟨fun m hm => le_of_maxHit_false hmaxF hm, hfuel, fun k hk => (hbef k hk).2, ?_, ?_, ?_,
    ?_, ?_⟩
  · cases by_ with
    | outOfFuel => simpa [sched] using (hof rfl).2
    | maxIterations => simpa [sched] using (hmx rfl).2.2
    | nonFinite => simpa [sched] using (hnf rfl).2.2.2.2
    | criteria => simpa [sched] using (hcr rfl).2.2.2.2.2.2
  · intro hb
    exact eq_of_maxHit_true hmaxF (hmx hb).2.1
  · intro hb
    obtain ⟨_, c1, c2, c3, c4, c5, c6⟩ := hcr hb
    refine ⟨c2, ?_, fun m hm => lt_of_maxHit_false c1 hm, c3, c4, c5⟩
    rw [c6]; exact mem_sched.mpr ⟨Nat.lt_succ_self _, c2⟩
  · intro hb
    obtain ⟨_, c1, c2, c3, c6⟩ := hnf hb
    refine ⟨c2, ?_, fun m hm => lt_of_maxHit_false c1 hm, c3⟩
    rw [c6]; exact mem_sched.mpr ⟨Nat.lt_succ_self _, c2⟩
  · intro hb; exact (hof hb).1

/-- The loop stops at the **first** iteration `K` at which the iteration limit is reached or a
    scheduled check ends it: if nothing stops the loop before `K`, and `K` does, the result
    (for any fuel `> K`) has exactly `K` iterations; it is ended by the limit iff the limit is
    what was hit (a check scheduled exactly at `maxIterations` is therefore not performed). -/
theorem stopIter_first (fuel : Nat) (t0 : List (Entry α)) (K : Nat) (hK : K < fuel)
    (hbefore : ∀ k, k < K → maxHit maxI k = false ∧
      stopAt ct ap q e minI freq flatTail nl t0 k = false)
    (hat : maxHit maxI K = true ∨ stopAt ct ap q e minI freq flatTail nl t0 K = true)
    (s : LoopState α) (by_ : EndedBy)
    (h : computeLoop ct ap q e minI freq maxI flatTail nl fuel (initState t0) = (s, by_)) :
    s.iter = K ∧ by_ ≠ .outOfFuel ∧ (by_ = .maxIterations ↔ maxHit maxI K = true) :=
  loop_first ct ap q e minI freq maxI flatTail nl fuel t0 K hK hbefore hat s by_ h

/-- The checks are performed exactly at `minI, minI + freq, minI + 2·freq, …` up to the returned
    iteration (inclusive iff a check ended the loop). -/
theorem checks_schedule (fuel : Nat) (t0 : List (Entry α)) (s : LoopState α) (by_ : EndedBy)
    (h : computeLoop ct ap q e minI freq maxI flatTail nl fuel (initState t0) = (s, by_))
    (k : Nat) :
    k ∈ s.checks ↔
      (k < s.iter ∨ (k = s.iter ∧ (by_ = .criteria ∨ by_ = .nonFinite))) ∧
        ∃ i, k = minI + i * freq := by
  obtain ⟨_, _, _, hc, _⟩ := stopIter_spec ct ap q e minI freq maxI flatTail nl fuel t0 s by_ h
  rw [hc, List.mem_reverse, List.mem_filter, List.mem_range, isCheck_iff]
  by_cases hb : by_ = .criteria ∨ by_ = .nonFinite
  · simp only [hb, if_true, and_true]
    constructor
    · rintro ⟨h1, h2⟩; exact ⟨by omega, h2⟩
    · rintro ⟨h1, h2⟩; exact ⟨by omega, h2⟩
  · simp only [hb, if_false, and_false, or_false]

/-- The delta tested at a scheduled check is the change **since the previous check**
    (`freq` iterations earlier; since the initial vector for the first check at `minI`). -/
theorem check_delta (t0 : List (Entry α)) (k : Nat) (hf : 1 ≤ freq)
    (hk : isCheck minI freq k = true) :
    dsqAt ct ap q minI freq t0 k =
      deltaSq (iterate ct ap q k t0)
        (iterate ct ap q (if k ≤ minI then 0 else k - freq) t0) := by
  unfold dsqAt
  rw [lastChk_of_isCheck hf hk]

/-- `WithIterations n` (`minIterations = maxIterations = n`): exactly `n` iterations, ended by
    the limit, no check performed (the only scheduled check `k = n` is not `< n`). -/
theorem withIterations (n fuel : Nat) (hfuel : n < fuel) (t0 : List (Entry α))
    (s : LoopState α) (by_ : EndedBy)
    (h : computeLoop ct ap q e n freq (some n) flatTail nl fuel (initState t0) = (s, by_)) :
    s.iter = n ∧ by_ = .maxIterations ∧ s.checks = [] ∧ s.t1 = iterate ct ap q n t0 :=
  loop_withIterations ct ap q e freq flatTail nl n fuel hfuel t0 s by_ h

/-- Fuel monotonicity: a run that did not end for lack of fuel is the run for every larger
    fuel.  With `maxI = none` (`maxIterations = 0`, unlimited) this is the statement that the
    result does not depend on any iteration bound. -/
theorem fuel_mono (fuel : Nat) (s0 s : LoopState α) (by_ : EndedBy)
    (h : computeLoop ct ap q e minI freq maxI flatTail nl fuel s0 = (s, by_))
    (hne : by_ ≠ .outOfFuel) (fuel' : Nat) (hle : fuel ≤ fuel') :
    computeLoop ct ap q e minI freq maxI flatTail nl fuel' s0 = (s, by_) :=
  computeLoop_fuel_mono ct ap q e minI freq maxI flatTail nl fuel s0 s by_ h hne fuel' hle

end loop

/-! ### 3. validation -/

/-- Each out-of-range parameter is rejected, with an error that is the same for every fuel —
    in particular for fuel 0, i.e. before any iteration. -/
theorem invalid_rejected (c : CSM α) (p : Vec α) (a e : α) (o : ComputeOpts α)
    (h : c.major ≠ c.minor ∨ c.major = 0 ∨ p.dim ≠ c.major ∨
      (∃ t0, o.t0 = some t0 ∧ t0.dim ≠ c.major) ∨
      (∃ d, o.resultDim = some d ∧ d ≠ c.major) ∨
      lt a zero = true ∨ lt one a = true ∨ le e zero = true ∨
      o.checkFreq.getD 1 < 1 ∨ o.maxIterations.getD 0 < 0 ∨
      o.minIterations.getD (o.checkFreq.getD 1) ≤ 0) :
    ∃ err, ∀ fuel, compute fuel c p a e o = .error err := by
  apply compute_error_of_not_valid
  rintro ⟨v1, v2, v3, v4, v5, v6, v7, v8, v9, v10, v11⟩
  rcases h with h | h | h | ⟨t0, h, h'⟩ | ⟨d, h, h'⟩ | h | h | h | h | h | h
  · exact h v1
  · exact v2 h
  · exact h v3
  · exact h' (v4 t0 h)
  · exact h' (v5 d h)
  · rw [v6] at h; cases h
  · rw [v7] at h; cases h
  · rw [v8] at h; cases h
  · omega
  · omega
  · omega

/-- The error is the first failing validation in source order (`validate`), and nothing else
    of the input is inspected. -/
theorem invalid_error (fuel : Nat) (c : CSM α) (p : Vec α) (a e : α) (o : ComputeOpts α)
    (err : SErr) (h : validate c p a e o = some err) :
    compute fuel c p a e o = .error err := by
  rw [compute_eq, h]

/-- Conversely: when every validation passes and the loop does not meet a non-finite delta,
    `compute` succeeds with the loop's vector (dimension `n`), iteration count, statistics and
    checks (oldest first). -/
theorem compute_ok (fuel : Nat) (c : CSM α) (p : Vec α) (a e : α) (o : ComputeOpts α)
    (hv : ValidInput c p a e o) (s : LoopState α) (by_ : EndedBy)
    (hl : loopOf fuel c p a e o = (s, by_)) (hnf : by_ ≠ .nonFinite) :
    ∃ r, compute fuel c p a e o = .ok r ∧ r.t.dim = c.major ∧ r.t.entries = s.t1 ∧
      r.iters = s.iter ∧ r.stats = s.stats ∧ r.checks = s.checks.reverse ∧ r.endedBy = by_ :=
  ⟨_, compute_ok_of_loop fuel c p a e o hv s by_ hl hnf, rfl, rfl, rfl, rfl, rfl, rfl⟩

/-- and with a non-finite delta at a check it is an error -/
theorem compute_nonFinite (fuel : Nat) (c : CSM α) (p : Vec α) (a e : α) (o : ComputeOpts α)
    (hv : ValidInput c p a e o) (s : LoopState α)
    (hl : loopOf fuel c p a e o = (s, .nonFinite)) :
    compute fuel c p a e o = .error (.badParam "nonfinite") :=
  compute_error_of_nonFinite fuel c p a e o hv s hl

/-- A successful `compute` passed every validation, and its result is the `iters`-th pure
    iterate of the start vector (`t0` option, else `p`), of dimension `n`, with
    `iters ≤ maxIterations` when a limit is set. -/
theorem compute_spec (fuel : Nat) (c : CSM α) (p : Vec α) (a e : α) (o : ComputeOpts α)
    (r : ComputeResult α) (h : compute fuel c p a e o = .ok r) :
    ValidInput c p a e o ∧
    r.t = ⟨c.major, iterate c.transpose.rows (Vec.scale a p).entries (sub one a) r.iters
      (o.t0.getD p).entries⟩ ∧
    (o.maxIterations.getD 0 ≠ 0 → (r.iters : Int) ≤ o.maxIterations.getD 0) ∧
    r.iters ≤ fuel ∧
    ∃ s, loopOf fuel c p a e o = (s, r.endedBy) ∧ r.iters = s.iter ∧ r.stats = s.stats ∧
      r.checks = s.checks.reverse := by
  obtain ⟨hv, _, s, hl, hr⟩ := compute_ok_inv fuel c p a e o r h
  have hl' := hl
  unfold loopOf at hl'
  obtain ⟨hm, hfu, _⟩ := stopIter_spec _ _ _ _ _ _ _ _ _ fuel _ s r.endedBy hl'
  have hit := loop_returns_iterate_init _ _ _ _ _ _ _ _ _ fuel _ s r.endedBy hl'
  have hiters : r.iters = s.iter := by rw [hr]
  refine ⟨hv, ?_, ?_, by omega, s, hl, hiters, by rw [hr], by rw [hr]⟩
  · rw [hr]; simp only [hit]
  · intro hne
    have := hm (o.maxIterations.getD 0).toNat (by simp [hne])
    have h0 : 0 ≤ o.maxIterations.getD 0 := hv.2.2.2.2.2.2.2.2.2.1
    omega

/-- `WithIterations n` at the level of `compute`: exactly `n` iterations, no check. -/
theorem compute_withIterations (fuel n : Nat) (c : CSM α) (p : Vec α) (a e : α)
    (o : ComputeOpts α) (hmin : o.minIterations = some (n : Int))
    (hmax : o.maxIterations = some (n : Int)) (hv : ValidInput c p a e o) (hfuel : n < fuel) :
    ∃ r, compute fuel c p a e o = .ok r ∧ r.iters = n ∧ r.endedBy = .maxIterations ∧
      r.checks = [] ∧
      r.t = ⟨c.major, iterate c.transpose.rows (Vec.scale a p).entries (sub one a) n
        (o.t0.getD p).entries⟩ := by
  have hn : (0 : Int) < n := by
    have := hv.2.2.2.2.2.2.2.2.2.2
    rw [hmin] at this; simpa using this
  have hn0 : ¬ ((n : Int) = 0) := by omega
  cases hl : loopOf fuel c p a e o with
  | mk s by_ =>
    have hl' := hl
    unfold loopOf at hl'
    rw [hmin, hmax] at hl'
    simp only [Option.getD_some, Int.toNat_natCast, hn0, if_false] at hl'
    obtain ⟨h1, h2, h3, h4⟩ := withIterations _ _ _ _ _ _ _ n fuel hfuel _ s by_ hl'
    have hnf : by_ ≠ .nonFinite := by rw [h2]; decide
    refine ⟨_, compute_ok_of_loop fuel c p a e o hv s by_ hl hnf, h1, h2, by simp [h3], ?_⟩
    simp only [h4]

/-- Fuel monotonicity of `compute`: a result that is not `outOfFuel` (an error, or a run ended
    by the criteria or the iteration limit) is the result for every larger fuel; with
    `maxIterations = 0` this expresses "unlimited". -/
theorem compute_fuel_mono (fuel fuel' : Nat) (hle : fuel ≤ fuel') (c : CSM α) (p : Vec α)
    (a e : α) (o : ComputeOpts α) (res : Except SErr (ComputeResult α))
    (h : compute fuel c p a e o = res)
    (hne : ∀ r, res = .ok r → r.endedBy ≠ .outOfFuel) :
    compute fuel' c p a e o = res := by
  by_cases hv : ValidInput c p a e o
  · cases hl : loopOf fuel c p a e o with
    | mk s by_ =>
      have hby : by_ ≠ .outOfFuel := by
        rintro rfl
        have := compute_ok_of_loop fuel c p a e o hv s _ hl (by decide)
        rw [h] at this
        exact hne _ this rfl
      have hl2 : loopOf fuel' c p a e o = (s, by_) := by
        unfold loopOf at hl ⊢
        exact fuel_mono _ _ _ _ _ _ _ _ _ fuel _ s by_ hl hby fuel' hle
      rw [compute_of_valid fuel c p a e o hv, hl] at h
      rw [compute_of_valid fuel' c p a e o hv, hl2]
      exact h
  · obtain ⟨err, herr⟩ := compute_error_of_not_valid c p a e o hv
    rw [herr fuel'] ; rw [herr fuel] at h; exact h

/-! ### non-vacuity: concrete runs at `α := Rat` (two peers trusting each other, `p = e₀`) -/

section examples

private def c2 : CSM Rat := ⟨2, 2, [[⟨1, 1⟩], [⟨0, 1⟩]], []⟩
private def p2 : Vec Rat := ⟨2, [⟨0, 1⟩]⟩
private def o235 : ComputeOpts Rat := { minIterations := some 2, checkFreq := some 3 }
private def view (r : Except SErr (ComputeResult Rat)) : Option (Nat × List Nat × EndedBy) :=
  match r with
  | .ok r => some (r.iters, r.checks, r.endedBy)
  | .error _ => none

/-- the hypotheses of `compute_ok` / `compute_spec` are satisfiable -/
example : ValidInput c2 p2 (1/2) (1/10) o235 :=
  (validate_eq_none_iff _ _ _ _ _).mp (by decide +kernel)

/-- default schedule: checks at 1, 2, 3, 4; converged at the 4th -/
example : view (compute 100 c2 p2 (1/2) (1/10) {}) = some (4, [1, 2, 3, 4], .criteria) := by
  decide +kernel

/-- `minIterations = 2`, `checkFreq = 3`: checks at 2, 5, 8; the first converged one is 8 -/
example : view (compute 100 c2 p2 (1/2) (1/10) o235) = some (8, [2, 5, 8], .criteria) := by
  decide +kernel

/-- same with `maxIterations = 8`: the check scheduled exactly at 8 is *not* performed -/
example : view (compute 100 c2 p2 (1/2) (1/10) { o235 with maxIterations := some 8 })
    = some (8, [2, 5], .maxIterations) := by
  decide +kernel

/-- `WithIterations 4`: four iterations, no check -/
example : view (compute 100 c2 p2 (1/2) (1/10) { minIterations := some 4, maxIterations := some 4 })
    = some (4, [], .maxIterations) := by
  decide +kernel

/-- the hypotheses of `stopIter_first` hold for the second run with `K = 8` -/
example :
    (∀ k, k < 8 → maxHit none k = false ∧
      stopAt c2.transpose.rows (Vec.scale (1/2) p2).entries (1/2 : Rat) (1/10) 2 3 0 2
        p2.entries k = false) ∧
    stopAt c2.transpose.rows (Vec.scale (1/2) p2).entries (1/2 : Rat) (1/10) 2 3 0 2
        p2.entries 8 = true := by
  decide +kernel

/-- invalid `alpha = 3/2`: rejected whatever the fuel -/
example : ∃ err, ∀ fuel, compute fuel c2 p2 (3/2) (1/10) {} = .error err :=
  invalid_rejected _ _ _ _ _
    (.inr (.inr (.inr (.inr (.inr (.inr (.inl (by decide +kernel))))))))

/-- invalid `minIterations = 0` -/
example : ∃ err, ∀ fuel, compute fuel c2 p2 (1/2) (1/10) { minIterations := some 0 } = .error err :=
  invalid_rejected _ _ _ _ _
    (.inr (.inr (.inr (.inr (.inr (.inr (.inr (.inr (.inr (.inr (by decide +kernel)))))))))))

end examples

end EtVerif.C05
